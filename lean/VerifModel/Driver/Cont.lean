import VerifModel.Base.Proto
import VerifModel.Model.Contingency
import VerifModel.Model.ContingencyF
import VerifModel.Spec.Cont
import VerifModel.Driver.Cmp
/- Driver ops for the contingency metrics (C06). -/
namespace VerifModel.Driver.Cont
open VerifModel Proto

def parseInterval? (s : String) : Option Interval :=
  match s.splitOn ":" with
  | [lo, hi, le, ue] => do
      some ⟨← parseXR? lo, ← parseXR? hi, ← Driver.Cmp.parseBool? le, ← Driver.Cmp.parseBool? ue⟩
  | _ => none

def showOpt : Option XR → String
  | none => "ERR"
  | some v => toString v

def quads : List String → Option (List (String × String × String × String))
  | [] => some []
  | a :: b :: c :: d :: r => (quads r).map ((a, b, c, d) :: ·)
  | _ => none

def handle (args : List String) : Option String :=
  match args with
  | ["gencont", name, a, b, c, d] => do
      some (showOpt (Gen.Cont.eval floatTr name (← parseXR? a) (← parseXR? b) (← parseXR? c) (← parseXR? d)))
  | ["speccont", name, a, b, c, d] => do
      let (a, b, c, d) := (← a.toNat?, ← b.toNat?, ← c.toNat?, ← d.toNat?)
      some (match Spec.Cont.eval floatTr name a b c d with
            | none => "ERR"
            | some v => toString (Spec.Cont.toXR v))
  | ["abcd", I, J, obs, fcst] => do
      let (I, J, obs, fcst) := (← parseInterval? I, ← parseInterval? J, ← parseVec? obs, ← parseVec? fcst)
      some (match abcd I J obs fcst with
            | none => "none"
            | some t => s!"{t.a} {t.b} {t.c} {t.d}")
  | ["contscore", name, I, J, obs, fcst] => do
      let (I, J, obs, fcst) := (← parseInterval? I, ← parseInterval? J, ← parseVec? obs, ← parseVec? fcst)
      some (showOpt (contScore floatTr name I J obs fcst))
  | ["abcd", b, t, u, obs, fcst] => do
      let b ← BinType.ofName? b
      let I := intervalOf b (← parseXR? t) (← parseXR? u)
      let (obs, fcst) := (← parseVec? obs, ← parseVec? fcst)
      some (match abcd I I obs fcst with
            | none => "none"
            | some t => s!"{t.a} {t.b} {t.c} {t.d}")
  | ["contscore", name, b, t, u, obs, fcst] => do
      let b ← BinType.ofName? b
      let I := intervalOf b (← parseXR? t) (← parseXR? u)
      let (obs, fcst) := (← parseVec? obs, ← parseVec? fcst)
      some (showOpt (contScore floatTr name I I obs fcst))
  -- the same with a forecast interval of its own (`f_interval`): bin type, threshold, upper threshold of the forecasts
  | ["abcd", b, t, u, obs, fcst, fb, ft, fu] => do
      let I := intervalOf (← BinType.ofName? b) (← parseXR? t) (← parseXR? u)
      let J := intervalOf (← BinType.ofName? fb) (← parseXR? ft) (← parseXR? fu)
      let (obs, fcst) := (← parseVec? obs, ← parseVec? fcst)
      some (match abcdF I (some J) obs fcst with
            | none => "none"
            | some t => s!"{t.a} {t.b} {t.c} {t.d}")
  | ["contscore", name, b, t, u, obs, fcst, fb, ft, fu] => do
      let I := intervalOf (← BinType.ofName? b) (← parseXR? t) (← parseXR? u)
      let J := intervalOf (← BinType.ofName? fb) (← parseXR? ft) (← parseXR? fu)
      let (obs, fcst) := (← parseVec? obs, ← parseVec? fcst)
      some (showOpt (contScoreF floatTr name I (some J) obs fcst))
  -- several scores one after the other on the same data (name, bin type, threshold, upper threshold, …): a score is a
  -- function of the data and the event alone
  | "contseq" :: obs :: fcst :: rest => do
      let (obs, fcst) := (← parseVec? obs, ← parseVec? fcst)
      let outs ← (← quads rest).mapM fun (name, b, t, u) => do
        let b ← BinType.ofName? b
        let I := intervalOf b (← parseXR? t) (← parseXR? u)
        some (showOpt (contScore floatTr name I I obs fcst))
      some (" ".intercalate outs)
  | ["contperfect", name] => some (showOpt (Gen.Cont.perfect name))
  | ["contnames"] => some (",".intercalate Gen.Cont.names)
  | _ => none

end VerifModel.Driver.Cont
