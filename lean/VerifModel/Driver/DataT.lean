import VerifModel.Base.Proto
import VerifModel.Model.PreaggHist
import VerifModel.Driver.Data
import VerifModel.Driver.Agg
/-
  Driver ops for `Data` with -T pre-aggregation on (C18 histories, C15 ensemble-derived fields).

    datahistT <cfg> <inputs> <reqs>     a request HISTORY through the stateful model (both caches) of the dataset
                                        whose loader pre-aggregates (Model/PreaggHist.lean); the `datahist` encoding,
                                        cfg carries the extra key  T=<h>:<aggregator>:<leadtime|time>
    dataT <cfg> <inputs> <reqs>         the same requests, each on a FRESH dataset (pure `getScores`), with the
                                        `T=…;L=…;X=…` head of the `data` op
  reply: as `datahist` / `data`; EXC = an aggregator raises.
-/
namespace VerifModel.Driver.DataT
open VerifModel Proto Driver.Data

/-- split the `T=h:agg:axis` key off the cfg token -/
def splitT (cfg : String) : Option (String × String) :=
  let parts := splitNE (if cfg == "-" then "" else cfg) ";"
  match parts.filter (·.startsWith "T=") with
  | [t] =>
    let rest := parts.filter fun p => !p.startsWith "T="
    some ((t.drop 2).toString, if rest.isEmpty then "-" else ";".intercalate rest)
  | _ => none

/-- the derivation a requested field name stands for -/
def deriveOf? (name : String) : Option (String × PreaggHist.Derive) :=
  if name.startsWith "p@" then (parseXR? (name.drop 2).toString).map fun t => (name, .cdf t)
  else if name.startsWith "q@" then
    match parseXR? (name.drop 2).toString with
    | some (.fin q) => some (name, .quantile q)
    | _ => none
  else none

def fieldsOfReqs (reqs : String) : List String :=
  ((splitNE reqs ";").filterMap fun s => (splitReq s).map fun p => p.1.splitOn "+").flatten

def build (cfg inputs reqs : String) : Option (Option (Except String DataS)) := do
  let (t, cfg') ← splitT cfg
  let (h, aggName, axis) ← match t.splitOn ":" with
    | [h, a, x] => some (h, a, x)
    | _ => none
  let h ← parseXR? h
  let (scale, k) ← Driver.Agg.axisOf? axis
  let a ← Agg.get aggName
  let ins ← (splitNE inputs "#").mapM parseInput?
  let hasClim := (splitNE (if cfg' == "-" then "" else cfg') ";").any (· == "clim=1")
  let (scored, clim) := if hasClim then (ins.dropLast, ins.getLast?) else (ins, none)
  let c ← parseCfg? cfg' clim
  let derived := (fieldsOfReqs reqs).eraseDups.filterMap deriveOf?
  some (PreaggHist.initT (Agg.apply floatTr a) scale h k derived scored c)

def runHistT (cfg inputs reqs : String) : Option String := do
  match ← build cfg inputs reqs with
  | none => some "EXC"
  | some (.error _) => some "ERR init"
  | some (.ok D) =>
    let rs ← (splitNE reqs ";").mapM (parseReq? D)
    let rec go (s : DState) (rs : List Req) (acc : List String) : List String :=
      match rs with
      | [] => acc.reverse
      | r :: rest =>
        match D.step s r with
        | .error _ => ("ERR" :: acc).reverse
        | .ok (s', cols) => go s' rest (showCols cols :: acc)
    some (" | ".intercalate (go DState.init rs []))

def runDataT (cfg inputs reqs : String) : Option String := do
  match ← build cfg inputs reqs with
  | none => some "EXC"
  | some (.error _) => some "ERR init"
  | some (.ok D) =>
    let head := s!"T={showVec D.times};L={showVec D.leads};X={showVec (D.locs.map (·.id))}"
    let one (s : String) : String :=
      match parseReq? D s with
      | none => "ERR bad-req"
      | some r =>
        match D.getScores r with
        | .ok cols => showCols cols
        | .error _ => "ERR"
    some (" | ".intercalate (head :: (splitNE reqs ";").map one))

def handle (args : List String) : Option String :=
  match args with
  | ["datahistT", cfg, inputs, reqs] => runHistT cfg inputs reqs
  | ["dataT", cfg, inputs, reqs] => runDataT cfg inputs reqs
  | _ => none

end VerifModel.Driver.DataT
