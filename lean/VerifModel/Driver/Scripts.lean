import VerifModel.Base.Proto
import VerifModel.Model.Scripts
import VerifModel.Model.ScriptsRich
import VerifModel.Spec.Scripts
/-
  Driver ops for the helper scripts (C20).

  A FILE is 13 tokens:
    <fmt> <name> <units> <times> <leads> <ids> <lats> <lons> <elevs> <obs|none> <fcst|none> <M> <ens>
  (fmt only tells the harness how to write the file; fields are row-major flat vectors.)

  file ops     acc <leadtime|time> <w|-> <0|1> FILE         accumulate.py
               win <bin> <r> FILE                           window.py
               e2p <thresholds|-> <quantiles|-> <0|1> FILE  ens2prob.py
               exp <inits|def> <oleads> FILE                expandverif.py
               t2n FILE                                     text2nc.py (deterministic fields)
  series ops   accumulate <w|-> <0|1> <series>      ens_cdf <t> <members>   ens_q <q> <members>
               ens_pit <obs> <members>              window <bin> <r> <leads> <series>
               expand1 <itimes> <ileads> <obs (one location)> <otime> <olead>
  Spec ops     spec_accum  spec_cdf  spec_q  spec_pit  spec_expand   (same arguments)
-/
namespace VerifModel.Driver.Scripts
open VerifModel Proto Scripts

def parseRatList? (s : String) : Option (List Rat) := do
  let v ← parseVec? s
  v.mapM fun x => match x with
    | .fin q => some q
    | _ => none

def parseIntList? (s : String) : Option (List Int) :=
  if s == "-" || s == "" then some [] else (s.splitOn ",").mapM String.toInt?

def parseOptList? (s : String) : Option (List (Option Rat)) := do
  let v ← parseVec? s
  v.mapM fun x => match x with
    | .fin q => some (some q)
    | .nan => some none
    | _ => none

def parseOptRat? (s : String) : Option (Option Rat) :=
  match parseXR? s with
  | some (.fin q) => some (some q)
  | some .nan => some none
  | _ => none

def parseW? (s : String) : Option (Option Nat) :=
  if s == "-" then some none else s.toNat?.map some

def parseBool? (s : String) : Option Bool :=
  if s == "1" then some true else if s == "0" then some false else none

def mkArr3 (T L S : Nat) (data : Array XR) : Arr3 :=
  ⟨T, L, S, fun t l s => data.getD ((t * L + l) * S + s) .nan⟩

def parseField? (T L S : Nat) (s : String) : Option (Option Arr3) :=
  if s == "none" then some none
  else do
    let v ← parseVec? s
    if v.length ≠ T * L * S then none else some (some (mkArr3 T L S v.toArray))

def flat3 (a : Arr3) : Vec :=
  (List.range a.T).flatMap fun t => (List.range a.L).flatMap fun l =>
    (List.range a.S).map fun s => a.cell t l s

def flat4 (T L S K : Nat) (f : Nat → Nat → Nat → Nat → XR) : Vec :=
  (List.range T).flatMap fun t => (List.range L).flatMap fun l =>
    (List.range S).flatMap fun s => (List.range K).map fun k => f t l s k

def showField : Option Arr3 → String
  | none => "none"
  | some a => showVec (flat3 a)

def showInts (l : List Int) : String :=
  if l.isEmpty then "-" else ",".intercalate (l.map toString)

def showRats (l : List Rat) : String := showVec (l.map XR.fin)

structure Parsed where
  file : VFile
  T : Nat
  L : Nat
  S : Nat

def parseFile? (a : List String) : Option Parsed :=
  match a with
  | [_fmt, name, units, times, leads, ids, lats, lons, elevs, obs, fcst, m, ens] => do
    let times ← parseIntList? times
    let leads ← parseRatList? leads
    let ids ← parseVec? ids
    let (T, L, S) := (times.length, leads.length, ids.length)
    let obs ← parseField? T L S obs
    let fcst ← parseField? T L S fcst
    let M ← m.toNat?
    let e ← parseVec? ens
    if e.length ≠ T * L * S * M then none
    else
      let ea := e.toArray
      some ⟨{ name := name, units := units, times := times, leads := leads, ids := ids
              lats := ← parseVec? lats, lons := ← parseVec? lons, elevs := ← parseVec? elevs
              obs := obs, fcst := fcst, M := M
              ens := fun t l s m => ea.getD ((((t * L + l) * S + s) * M) + m) .nan }, T, L, S⟩
  | _ => none

/-- `ifile.variable.units.replace("$", "")`: the NetCDF reader wraps the units attribute in `$…$` for display and the
scripts strip every dollar sign again — also those the attribute itself contains -/
def outUnits (u : String) : String := u.replace "$" ""

def showMeta (name units times leads : String) (ids lats lons elevs : Vec) : String :=
  s!"name={name} units={outUnits units} times={times} leads={leads} ids={showVec ids} lats={showVec lats} lons={showVec lons} elevs={showVec elevs}"

def showVFile (f : VFile) : String :=
  showMeta f.name f.units (showInts f.times) (showRats f.leads) f.ids f.lats f.lons f.elevs
    ++ s!" obs={showField f.obs} fcst={showField f.fcst}"

def storedPairs (itimes : List Int) (ileads : List Rat) (obs : Arr3) (s : Nat) : List (Rat × XR) :=
  (List.range itimes.length).flatMap fun t => (List.range ileads.length).map fun l =>
    ((itimes.getD t 0 : Rat) + 3600 * ileads.getD l 0, obs.cell t l s)

def handleBase (args : List String) : Option String :=
  match args with
  | "acc" :: axis :: w :: ign :: file => do
      let axis ← if axis == "leadtime" then some Axis.leadtime
                 else if axis == "time" then some Axis.time else none
      -- `-w` below 1 (0 or negative): "The accumulation window (-w) must be at least 1 timestep", exit 1
      if (w.toInt?.map (fun v => decide (v < 1))).getD false then some "ERR" else
      let (w, ign) := (← parseW? w, ← parseBool? ign)
      let p ← parseFile? file
      some (match accumulateFile axis w ign p.file with
        | none => "ERR"
        | some g => showVFile g)
  | "win" :: b :: r :: file => do
      let r ← parseXR? r
      let p ← parseFile? file
      match BinType.ofName? b with
      | none => some "ERR"
      | some b =>
        if b.isWithin then some "ERR"      -- one threshold gives no interval: error exit
        else some (showVFile (windowFile (intervalOf b r r) p.file))
  | "e2p" :: thr :: qs :: pflag :: file => do
      let (thr, qs, pflag) := (← parseVec? thr, ← parseVec? qs, ← parseBool? pflag)
      let p ← parseFile? file
      -- `-p` on a file without observations: "File is missing obs, and can therefore not compute PIT", exit 1
      if pflag && p.file.obs.isNone then some "ERR" else
      let o := ens2probFile thr qs pflag p.file
      let cdf := if thr.isEmpty then "none" else showVec (flat4 p.T p.L p.S thr.length o.cdf)
      let x := if qs.isEmpty then "none" else showVec (flat4 p.T p.L p.S qs.length o.x)
      let pit := match o.pit with
        | none => "none"
        | some f => showVec (flat3 ⟨p.T, p.L, p.S, f⟩)
      let showOr (v : Vec) : String := if v.isEmpty then "none" else showVec v
      some (showVFile o.base ++ s!" thr={showOr o.thresholds} cdf={cdf} qlv={showOr o.quantiles} x={x} pit={pit}")
  | "exp" :: inits :: oleads :: file => do
      let inits ← if inits == "def" then some [(0 : Rat)] else parseRatList? inits
      let oleads ← parseRatList? oleads
      let p ← parseFile? file
      some (match expandFile inits oleads p.file with
        | none => "ERR"
        | some g =>
          showMeta g.name g.units (showRats g.times) (showRats g.leads) g.ids g.lats g.lons g.elevs
            ++ s!" obs={showVec (flat3 g.obs)}")
  | "t2n" :: file => do
      let p ← parseFile? file
      some (showVFile (text2ncFile p.file))
  -- series-level kernels
  | ["accumulate", w, ign, xs] => do
      let (w, ign, xs) := (← parseW? w, ← parseBool? ign, ← parseVec? xs)
      some (match accumulate w ign xs with | none => "ERR" | some v => showVec v)
  | ["ens_cdf", t, ens] => do
      some (toString (cdf (← parseXR? t) (← parseVec? ens)))
  | ["ens_q", q, ens] => do
      some (toString (quantile (← parseXR? q) (← parseVec? ens)))
  | ["ens_pit", o, ens] => do
      some (toString (pit (← parseXR? o) (← parseVec? ens)))
  | ["window", b, r, leads, xs] => do
      let (r, leads, xs) := (← parseXR? r, ← parseVec? leads, ← parseVec? xs)
      match BinType.ofName? b with
      | none => some "ERR"
      | some b => if b.isWithin then some "ERR"
                  else some (showVec (windowSeries (intervalOf b r r) leads xs))
  | ["expand1", itimes, ileads, obs, ot, ol] => do
      let (itimes, ileads) := (← parseIntList? itimes, ← parseRatList? ileads)
      let obs ← parseVec? obs
      let a := mkArr3 itimes.length ileads.length 1 obs.toArray
      match ← parseXR? ot, ← parseXR? ol with
      | .fin ot, .fin ol => some (toString (expandCell itimes ileads a ot ol 0))
      | _, _ => none
  -- Spec ops (oracle)
  | ["spec_accum", w, ign, xs] => do
      let (w, ign, xs) := (← parseW? w, ← parseBool? ign, ← parseOptList? xs)
      let out := (List.range xs.length).map fun t => Spec.Scripts.toXR (match w with
        | none => Spec.Scripts.cumulative ign xs t
        | some w => Spec.Scripts.accum w ign xs t)
      some (showVec out)
  | ["spec_cdf", t, ens] => do
      match ← parseXR? t with
      | .fin t => some (toString (Spec.Scripts.toXR (Spec.Scripts.cdf t (← parseOptList? ens))))
      | _ => none
  | ["spec_pit", o, ens] => do
      some (toString (Spec.Scripts.toXR (Spec.Scripts.pit (← parseOptRat? o) (← parseOptList? ens))))
  | ["spec_q", q, ens] => do
      -- complete ensembles only: the members, put in ascending order by an insertion sort on ℚ
      let ens ← parseRatList? ens
      let sorted := ens.foldr (fun x acc =>
        (acc.takeWhile (fun y => decide (y < x))) ++ x :: acc.dropWhile (fun y => decide (y < x))) []
      match ← parseXR? q with
      | .fin q => some (toString (Spec.Scripts.toXR (Spec.Scripts.quantileSorted q sorted)))
      | _ => none
  | ["spec_expand", itimes, ileads, obs, ot, ol] => do
      let (itimes, ileads) := (← parseIntList? itimes, ← parseRatList? ileads)
      let obs ← parseVec? obs
      let a := mkArr3 itimes.length ileads.length 1 obs.toArray
      match ← parseXR? ot, ← parseXR? ol with
      | .fin ot, .fin ol =>
        some (toString (Spec.Scripts.expand (storedPairs itimes ileads a 0) (ot + 3600 * ol)))
      | _, _ => none
  | _ => none

/-- all ops of this topic: the plain ones and `pres` (rich files) -/
def handle (args : List String) : Option String :=
  match args with
  -- rich files: `pres <script> <options…> FILE(13) pit thr cdf qlv x other x0 x1 tfmt`
  | "pres" :: k :: rest => do
      let nopt := if k == "acc" then 3 else if k == "win" then 2 else if k == "e2p" then 3 else if k == "exp" then 4 else 99
      let opts := rest.take nopt
      let file := (rest.drop nopt).take 13
      let ex := (rest.drop (nopt + 13))
      match ex with
      | [_pit, _thr, _cdf, _qlv, _x, _other, x0, x1, _tfmt] =>
        let optXR (t : String) : Option XR := if t == "-" then none else parseXR? t
        let e : Extras := { x0 := optXR x0, x1 := optXR x1 }      -- the rest is dropped by every script (`carry`)
        let script := if k == "acc" then Script.accumulate else if k == "win" then .window
                      else if k == "e2p" then .ens2prob else .expandverif
        let c := carry script e
        let showO (v : Option XR) : String := match v with | some x => toString x | none => "none"
        let tail := s!" other=none x0={showO c.x0} x1={showO c.x1}"
        if k == "acc" || k == "win" then do
          let base ← handleBase ((if k == "acc" then "acc" else "win") :: opts ++ file)
          if base.startsWith "ERR" then some base
          else some (base ++ " ens=none thr=none cdf=none qlv=none x=none pit=none" ++ tail)
        else if k == "e2p" then do
          let base ← handleBase ("e2p" :: opts ++ file)
          if base.startsWith "ERR" then some base else some (base.replace " thr=" " ens=none thr=" ++ tail)
        else if k == "exp" then
          match opts with
          | [inits, oleads, t, q] => do
            if oleads == "-" then some "ERR"       -- `-lt` is a required option: argparse stops with its usage message
            else
              let base ← handleBase (["exp", inits, oleads] ++ file)
              if base.startsWith "ERR" then some base
              else
                let (t, q) := (← parseVec? t, ← parseVec? q)
                let p ← parseFile? file
                let nt := ((base.splitOn " times=").getD 1 "").splitOn " " |>.headD "" |>.splitOn "," |>.length
                let nl := (← parseVec? oleads).length
                let cells := nt * nl * p.S
                let stubs := expandStubs cells t q
                let showV (v : Option Var4) (c : Bool) : String := match v with
                  | some w => showVec (if c then w.coord else w.data)
                  | none => "none"
                let fc := showVec (List.replicate cells XR.nan)
                some (base ++ s!" fcst={fc} ens=none thr={showV stubs.1 true} cdf={showV stubs.1 false} qlv={showV stubs.2 true} x={showV stubs.2 false} pit=none" ++ tail)
          | _ => none
        else none
      | _ => none
  | _ => handleBase args

end VerifModel.Driver.Scripts
