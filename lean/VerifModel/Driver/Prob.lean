import VerifModel.Base.Proto
import VerifModel.Model.Prob
import VerifModel.Spec.Prob
import VerifModel.Driver.Cont
import VerifModel.Model.PitMass
/-
  Driver ops for the probabilistic scores (C08).

    prob <metric> <p-vec> <o-vec>            threshold family: event "X < 1/2" on obs = 1 - o with the
                                             stored CDF column p at threshold 1/2
    prob quantilescore <q-vec> <obs-vec> <level>
    prob pit|pithistdev|pithistslope|pithistshape <pit-vec> -
    pd <metric> <lo:hi:le:ue> <dataset> [<numStd>]      Metric.compute_single on a dataset
    thrf <t> <dataset> / qntf <q> <dataset>             get_scores([Threshold(t)]) / ([Quantile(q)])
    ensthr <t> <members> / ensq <q> <members>           one case, from the ensemble
    getp <lo:hi:le:ue> <cdf-lower|-> <cdf-upper|-> <obs>    get_p on one case with stored columns
    edges                                               the Brier bin edges of the model
    spec_prob <metric> …, spec_ensthr, spec_ensq        the Spec's answers (oracle)

  dataset = `k=v;k=v…`, keys obs fcst pit (vectors), thr qnt (`level:vec|level:vec`), ens (`vec|vec`,
  one member vector per case)
-/
namespace VerifModel.Driver.Prob
open VerifModel Proto VerifModel.Prob

def showOpt : Option XR → String
  | none => "ERR"
  | some v => toString v

def parseCols? (s : String) : Option (List (XR × Vec)) :=
  ((s.splitOn "|").filter (· ≠ "")).mapM fun c =>
    match c.splitOn ":" with
    | [t, v] => do some (← parseXR? t, ← parseVec? v)
    | _ => none

def parseDataset? (s : String) : Option PInput :=
  ((s.splitOn ";").filter (· ≠ "")).foldlM (fun (D : PInput) kv =>
    match kv.splitOn "=" with
    | ["obs", v] => do some { D with obs := ← parseVec? v }
    | ["fcst", v] => do some { D with fcst := some (← parseVec? v) }
    | ["pit", v] => do some { D with pit := some (← parseVec? v) }
    | ["thr", v] => do some { D with thr := ← parseCols? v }
    | ["qnt", v] => do some { D with qnt := ← parseCols? v }
    | ["ens", v] => do some { D with ens := some (← (v.splitOn "|").mapM parseVec?) }
    | _ => none) { obs := [] }

def ratsOf? (v : Vec) : Option (List Rat) :=
  v.mapM fun x => match x with | .fin q => some q | _ => none

def optRat? (s : String) : Option (Option Rat) :=
  if s == "-" then some none
  else match parseXR? s with
    | some (.fin q) => some (some q)
    | _ => none

def half : XR := .fin (1 / 2)

/-- the dataset the `prob` op stands for -/
def probDataset (name : String) (a b : Vec) (extra : Option XR) : Option (PInput × Interval) :=
  if ["pit", "pithistdev", "pithistslope", "pithistshape"].contains name then
    some ({ obs := a.map fun _ => .fin 0, pit := some a }, ⟨.ninf, .pinf, true, true⟩)
  else if name == "quantilescore" then
    extra.map fun l => ({ obs := b, qnt := [(l, a)] }, ⟨l, l, true, true⟩)
  else
    some ({ obs := b.map fun o => XR.fin 1 - o, thr := [(half, a)] }, ⟨.ninf, half, false, false⟩)

def specEval (T : Tr) (name : String) (os ps : List Rat) (extra : List String) : Option XR :=
  let n := os.length
  if n = 0 then some .nan
  else match name, extra with
  | "bs", [] => some (.fin (Spec.Prob.bs os ps))
  | "bsrel", [] => some (.fin (Spec.Prob.rel os ps))
  | "bsres", [] => some (.fin (Spec.Prob.res os ps))
  | "bsunc", [] => some (.fin (Spec.Prob.unc os))
  | "bss", [] => some (Spec.Prob.toXR (Spec.Prob.bss os ps))
  | "bssrel", [] => some (Spec.Prob.toXR (Spec.Prob.bssrel os ps))
  | "bssres", [] => some (Spec.Prob.toXR (Spec.Prob.bssres os ps))
  | "ign0", [] => some (Spec.Prob.ign0 T os ps)
  | "spherical", [] => some (Spec.Prob.spherical T os ps)
  | "marginalratio", [] => some (Spec.Prob.toXR (Spec.Prob.marginalRatio os ps))
  | "quantilescore", [l] =>
      match parseXR? l with
      | some (.fin τ) => some (.fin (Spec.Prob.quantileScore τ os ps))
      | _ => none
  | "spread", [] => some (.fin (Spec.Prob.spread os ps))
  | "pit", [] => some (.fin (Spec.Prob.mean os))
  | "pithistdev", [] => some (Spec.Prob.pitHistDev T os)
  | "pithistslope", [] => some (Spec.Prob.toXR (Spec.Prob.pitHistSlope os))
  | "pithistshape", [] => some (Spec.Prob.toXR (Spec.Prob.pitHistShape os))
  | _, _ => none

def zipOpt (os : List Rat) (a b : Option (List Rat)) : List (Rat × Option Rat × Option Rat) :=
  (List.range os.length).map fun j =>
    (os.getD j 0, (a.bind fun l => l[j]?), (b.bind fun l => l[j]?))

def family : List String :=
  ["bs", "bsrel", "bsres", "bsunc", "bss", "bssrel", "bssres", "ign0", "spherical", "marginalratio"]

def pairUp : List String → Option (List (String × String))
  | [] => some []
  | a :: b :: r => (pairUp r).map ((a, b) :: ·)
  | _ => none

/-- `pitmass <x0|-> <x1|-> <obs> <pit> <u0> <u1>` : the Pit field of a variable with discrete masses; the
numbers the generator drew are part of the op (all vectors finite and of one length) -/
def pitMass (x0 x1 obs pit u0 u1 : String) : Option String := do
  let opt (s : String) : Option (Option Rat) :=
    if s == "-" then some none else match parseXR? s with
      | some (.fin q) => some (some q)
      | _ => none
  let (x0, x1) := (← opt x0, ← opt x1)
  let (o, p, a, b) := (← ratsOf? (← parseVec? obs), ← ratsOf? (← parseVec? pit), ← ratsOf? (← parseVec? u0),
    ← ratsOf? (← parseVec? u1))
  if o.length != p.length || o.length != a.length || o.length != b.length then none else
  let cs : List PitMass.Case := (List.range o.length).map fun i =>
    ⟨o.getD i 0, p.getD i 0, a.getD i 0, b.getD i 0⟩
  some (showVec ((PitMass.randomize x0 x1 cs).map XR.fin))

def handle (args : List String) : Option String :=
  match args with
  | ["pitmass", x0, x1, obs, pit, u0, u1] => pitMass x0 x1 obs pit u0 u1
  | ["proball", p, o] => do
      let (p, o) := (← parseVec? p, ← parseVec? o)
      let (D, I) ← probDataset "bs" p o none
      let out := family.map fun name => showOpt (computeSingle floatTr name D I .nan)
      let c := showOpt (computeSingle floatTr "bs" D ⟨half, .pinf, true, false⟩ .nan)
      some (" ".intercalate (out ++ [c]))
  | ["spec_proball", os, ps] => do
      let (os, ps) := (← ratsOf? (← parseVec? os), ← ratsOf? (← parseVec? ps))
      let out := family.map fun name => showOpt (specEval floatTr name os ps [])
      let c := showOpt (specEval floatTr "bs" (os.map (1 - ·)) (ps.map (1 - ·)) [])
      some (" ".intercalate (out ++ [c]))
  | ["prob", name, a, b] => do
      let (a, b) := (← parseVec? a, ← parseVec? b)
      let (D, I) ← probDataset name a b none
      some (showOpt (computeSingle floatTr name D I .nan))
  | ["prob", name, a, b, extra] => do
      let (a, b) := (← parseVec? a, ← parseVec? b)
      let (D, I) ← probDataset name a b (← parseXR? extra)
      some (showOpt (computeSingle floatTr name D I .nan))
  | ["pd", name, I, D] => do
      let (I, D) := (← Driver.Cont.parseInterval? I, ← parseDataset? D)
      some (showOpt (computeSingle floatTr name D I .nan))
  | ["pd", name, I, D, ns] => do
      let (I, D) := (← Driver.Cont.parseInterval? I, ← parseDataset? D)
      some (showOpt (computeSingle floatTr name D I (← parseXR? ns)))
  -- several metrics evaluated one after the other on the same dataset (name, interval, name, interval, …): every
  -- score is a function of the dataset and the interval alone
  | "pdseq" :: D :: rest => do
      let D ← parseDataset? D
      let outs ← (← pairUp rest).mapM fun (name, I) => do
        some (showOpt (computeSingle floatTr name D (← Driver.Cont.parseInterval? I) .nan))
      some (" ".intercalate outs)
  | ["thrf", t, D] => do
      let D ← parseDataset? D
      some (match thresholdColumn D (← parseXR? t) with
            | none => "ERR"
            | some c => ";".intercalate ((getScores [c]).map showVec))
  | ["qntf", q, D] => do
      let D ← parseDataset? D
      some (match quantileColumn D (← parseXR? q) with
            | none => "ERR"
            | some c => ";".intercalate ((getScores [c]).map showVec))
  -- single ensemble members requested one after the other from the same dataset: member m is column m of the
  -- ensemble, over the cases where it is present ([nan] when there is none)
  | "ensseq" :: D :: ms => do
      let D ← parseDataset? D
      let ens ← D.ens
      let outs ← ms.mapM fun m => do
        let k ← m.toNat?
        let col := (ens.map fun row => row.getD k .nan).filter fun v => !v.isNan && !v.isInf
        some (showVec (if col.isEmpty then [XR.nan] else col))
      some (";".intercalate outs)
  | ["ensthr", t, ms] => do
      some (toString (ensProb (← parseXR? t) (← parseVec? ms)))
  | ["ensq", q, ms] => do
      match ← parseXR? q with
      | .fin qq => some (showOpt (ensQuantile qq (← parseVec? ms)))
      | _ => none
  | ["getp", I, c0, c1, o] => do
      let I ← Driver.Cont.parseInterval? I
      let o ← parseXR? o
      let thr0 ← if c0 == "-" then some [] else (parseXR? c0).map fun c => [(I.lower, [c])]
      let thr1 ← if c1 == "-" then some [] else (parseXR? c1).map fun c => [(I.upper, [c])]
      some (match getP { obs := [o], thr := thr0 ++ thr1 } I with
            | none => "ERR"
            | some (ob, p) => s!"{showVec ob} {showVec p}")
  | ["edges"] => some (showVec ((List.range 11).map fun i => XR.fin (edgeQ i)))
  | ["probperfect", name] => some (showOpt (Gen.Prob.perfect name))
  | ["probnames"] => some (",".intercalate Gen.Prob.names)
  | ["spec_ensthr", t, ms] => do
      match ← parseXR? t with
      | .fin tq =>
        let ms ← parseVec? ms
        let oms : List (Option Rat) := ms.map fun x => match x with | .fin q => some q | _ => none
        some (toString (Spec.Prob.toXR (Spec.Prob.ensProb oms tq)))
      | _ => none
  | ["spec_ensq", q, ms] => do
      match ← parseXR? q with
      | .fin qq => some (toString (Spec.Prob.toXR (Spec.Prob.quantile9 (← ratsOf? (← parseVec? ms)) qq)))
      | _ => none
  | ["spec_getp", c0, c1] => do
      some (toString (XR.fin (Spec.Prob.eventProb (← optRat? c0) (← optRat? c1))))
  | ["spec_prob", "quantilecoverage", os, q0, q1, le, ue] => do
      let os ← ratsOf? (← parseVec? os)
      let a ← if q0 == "-" then some none else (ratsOf? (← parseVec? q0)).map some
      let b ← if q1 == "-" then some none else (ratsOf? (← parseVec? q1)).map some
      if os.isEmpty then some "nan"
      else some (toString (XR.fin (Spec.Prob.coverage (le == "1") (ue == "1") (zipOpt os a b))))
  | ["spec_prob", "spreadskillratio", q0, q1, os, fs, ns] => do
      let (q0, q1, os, fs) := (← ratsOf? (← parseVec? q0), ← ratsOf? (← parseVec? q1),
                               ← ratsOf? (← parseVec? os), ← ratsOf? (← parseVec? fs))
      if os.isEmpty then some "nan"
      else some (toString (Spec.Prob.spreadSkill floatTr (← parseXR? ns) q0 q1 os fs))
  | "spec_prob" :: name :: os :: ps :: extra => do
      let (os, ps) := (← ratsOf? (← parseVec? os), ← ratsOf? (← parseVec? ps))
      some (showOpt (specEval floatTr name os ps extra))
  | _ => none

end VerifModel.Driver.Prob
