import VerifModel.Base.Proto
import VerifModel.Model.ParseNumbers
import VerifModel.Model.ArgLoop
import VerifModel.Gen.OptionTable
/- Driver ops for the command-line model (C13):
     parse_numbers s=<string> <0|1>      (parse_numbers_sub: same, run with a timeout by the harness)
     argv F=<valid input files, | separated> C=<name~tok|tok;name~tok…> A=<tok|tok|…>
     argvbad <kind> F=… C=… A=…          (same evaluation; the kind is for the oracle only)
-/
namespace VerifModel.Driver.Args
open VerifModel ParseNumbers ArgLoop

/-- the tables regenerated from /repo -/
def genTables : Tables where
  table := Gen.OptionTable.table
  arity0 := Gen.OptionTable.arity0
  defaults := Gen.OptionTable.defaults
  post := Gen.OptionTable.post
  dataKw := Gen.OptionTable.dataKw
  plAttrs := Gen.OptionTable.plAttrs
  outputs := Gen.OptionTable.outputs
  stdOutputs := Gen.OptionTable.stdOutputs
  entries := Gen.OptionTable.entries
  lists := Gen.OptionTable.lists
  axes := Gen.OptionTable.axes
  aggregators := Gen.OptionTable.aggregators
  fields := Gen.OptionTable.fields
  mapTypes := Gen.OptionTable.mapTypes
  plotTypes := Gen.OptionTable.plotTypes
  filesVar := Gen.OptionTable.filesVar
  metricVar := Gen.OptionTable.metricVar
  versionVar := Gen.OptionTable.versionVar
  configPrepass := Gen.OptionTable.configPrepass

def dropN (n : Nat) (s : String) : String := String.ofList (s.toList.drop n)
def hasPrefix (p s : String) : Bool := s.toList.take p.length == p.toList

def splitNE (s sep : String) : List String := (s.splitOn sep).filter (· ≠ "")

def showNums (l : List Rat) : String := if l.isEmpty then "[]" else ",".intercalate (l.map toString)

def parseConfigs (s : String) : List (String × List String) :=
  (splitNE s ";").map fun e =>
    match e.splitOn "~" with
    | [n] => (n, [])
    | n :: rest => (n, splitNE ("~".intercalate rest) "|")
    | [] => ("", [])

def runArgv (f c a : String) : Option String :=
  if hasPrefix "F=" f && hasPrefix "C=" c && hasPrefix "A=" a then
    let fs : FileSys := ⟨splitNE (dropN 2 f) "|", parseConfigs (dropN 2 c)⟩
    some (render genTables fs ((dropN 2 a).splitOn "|" |>.filter (· ≠ "")))
  else none

def handle (args : List String) : Option String :=
  match args with
  | ["parse_numbers", s, d] =>
    if hasPrefix "s=" s then
      some (Res.show showNums (parseNumbers (dropN 2 s) (d == "1")))
    else none
  | ["parse_numbers_sub", s, d] =>       -- same function; the harness runs it in a subprocess with a timeout
    if hasPrefix "s=" s then
      some (Res.show showNums (parseNumbers (dropN 2 s) (d == "1")))
    else none
  | ["argv", f, c, a] => runArgv f c a
  | ["argvbad", _, f, c, a] => runArgv f c a
  | _ => none

end VerifModel.Driver.Args
