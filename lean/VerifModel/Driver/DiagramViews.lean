import VerifModel.Base.Proto
import VerifModel.Model.DiagramViews
import VerifModel.Driver.Diagram
/-
  Driver ops for the views of C16 (harness/props/c16v.py):
    view <name> <opts> <in0> [<in1> …]        name: rank | impact | map | maprank | mapimpact
        opts   k=v;k=v or -     m (metric)  flip (1: positively oriented)  worse (label word)  r (edges)
                                lat, lon (vectors, one entry per location)
        in<k>  obs=v1|v2|…;fcst=v1|v2|…     valid-case vectors per slice, as fetched by Data.get_scores
      reply  <axes>:<kind>:<label>:<x>:<y>[:<col>…];…   |  -  |  ERR  |  UNMODELLED
-/
namespace VerifModel.Driver.DiagramViews
open VerifModel Proto VerifModel.Diagram VerifModel.DiagramViews
open VerifModel.Driver.Diagram (Inp parseInp getS get1 zipSl)

/-- Rat → Float for rationals whose numerator and denominator exceed the Float range (the variance of scores that are
themselves images of floats): both are shifted down to about 600 bits first -/
def ratToFloatBig (q : Rat) : Float :=
  let k := Nat.log2 q.den - 600
  Float.ofInt (q.num / ((2 ^ k : Nat) : Int)) / Float.ofNat (q.den / 2 ^ k)

def viewTr : Tr := { floatTr with sqrtQ := fun q => floatToRat (Float.sqrt (ratToFloatBig q)) }

structure VOpts where
  m : String := ""
  flip : Bool := false
  worse : String := "worse"
  r : Vec := []
  lat : Vec := []
  lon : Vec := []

def parseVOpts (s : String) : Option VOpts :=
  if s == "-" then some {} else
  (s.splitOn ";").foldlM (fun (o : VOpts) kv =>
    match kv.splitOn "=" with
    | [k, v] =>
      if k == "m" then some { o with m := v }
      else if k == "flip" then some { o with flip := v == "1" }
      else if k == "worse" then some { o with worse := v }
      else if k == "r" then (parseVec? v).map fun x => { o with r := x }
      else if k == "lat" then (parseVec? v).map fun x => { o with lat := x }
      else if k == "lon" then (parseVec? v).map fun x => { o with lon := x }
      else some o
    | _ => none) {}

def showV (s : VSeries) : String :=
  ":".intercalate ([toString s.ax, s.kind, s.label, showVec s.xs, showVec s.ys] ++ s.cols.map showVec)

def showFigV (l : List VSeries) : String := if l.isEmpty then "-" else ";".intercalate (l.map showV)

/-- the column of scores of one input: the metric of each slice -/
def scoreCol (T : Tr) (m : String) (i : Inp) : Vec := standardSeries T m (zipSl (getS i "obs") (getS i "fcst"))

def locsOf (o : VOpts) : List Loc := (o.lat.zip o.lon).map fun p => { lat := p.1, lon := p.2 }

def figureV (T : Tr) (name : String) (o : VOpts) (ins : List Inp) : Option (Option (List VSeries)) :=
  let cols := ins.map (scoreCol T o.m)
  match name with
  | "rank" => some (rankFigure T o.flip ins.length (transpose cols))
  | "impact" =>
    let i0 := ins.headD []
    let i1 := (ins.drop 1).headD []
    some (impactFigure ins.length o.r (get1 i0 "obs") (get1 i0 "fcst") (get1 i1 "fcst"))
  | "map" => some (some (mapFigure (locsOf o) cols))
  | "maprank" => some (some (maprankFigure T (locsOf o) cols))
  | "mapimpact" =>
    some (mapimpactFigure o.flip o.worse ins.length (locsOf o) ((cols[0]?).getD []) ((cols[1]?).getD []))
  | _ => none

def handle (args : List String) : Option String :=
  match args with
  | ["view", _, "unmodelled"] => some "UNMODELLED"
  | "view" :: name :: opts :: ins => do
      let o ← parseVOpts opts
      let ins ← ins.mapM parseInp
      match figureV viewTr name o ins with
      | some (some f) => some (showFigV f)
      | some none => some "ERR"
      | none => some "UNMODELLED"
  | _ => none

end VerifModel.Driver.DiagramViews
