import VerifModel.Base.Proto
import VerifModel.Model.Clean
/- Driver ops for the missing-value cleaners (C04). -/
namespace VerifModel.Driver.Clean
open VerifModel Proto

def handle (args : List String) : Option String :=
  match args with
  | ["ncclean", cells] =>
      -- cells: comma separated; `m` = masked, otherwise a number token
      let toks := cells.splitOn ","
      (toks.mapM fun t => if t == "m" then some NcCell.masked else (parseXR? t).map NcCell.val).map
        fun cs => showVec (cs.map clean)
  | ["textclean", toks] =>
      -- toks: comma separated; `bad` = float() raised ValueError, otherwise the parsed number
      ((toks.splitOn ",").mapM fun t => if t == "bad" then some Tok.bad else (parseXR? t).map Tok.num).map
        fun ts => showVec (ts.map textClean)
  | _ => none

end VerifModel.Driver.Clean
