import VerifModel.Model.Dispatch
/-
  Driver op for C19:
    dispatch <name> <axis|-> <type> <bintype|-> <r 0|1> <q count> <agg|-> [<T|-> <Tagg|-> <Tx|-> <clim 0|1>]
  reply:
    run <Class> <method> <axis> <thresholds source> bin=<bin type>
    ERR stub:<method> <Class> <axis> <thresholds source> bin=<bin type>     (base-class default: error message)
    ERR inrun:<why> <Class> <method> <axis> <thresholds source> bin=<bin type>   (error guard at the start of the method)
    ERR <why>                                                                (the driver stops before the run)
    UNHANDLED <what>
  dispatchcheck <name> <axis|-> <type> <r 0|1> <q count>  ->  good | bad <decision>
    (`good` of Model/Dispatch.lean: what C19_dispatch_total asserts for that combination)
-/
namespace VerifModel.Driver.Dispatch
open VerifModel VerifModel.Dispatch

def opt (s : String) : Option String := if s == "-" then none else some s

/-- `verif.util.is_number` on the tokens the harness sends: an unsigned decimal -/
def isNumber (s : String) : Bool :=
  let cs := s.toList
  cs.any Char.isDigit && cs.all (fun c => c.isDigit || c == '.') && (cs.filter (· == '.')).length ≤ 1

def parseAgg (s : String) : Option AggArg :=
  match opt s with
  | none => none
  | some a => if Gen.ClassTable.aggregators.contains a then some (.named a)
              else if isNumber a then some .number else some (.named a)

def whyName : Why → String
  | .unknownAxis => "unknownAxis" | .unknownAgg => "unknownAgg" | .typeNotUnderstood => "typeNotUnderstood"
  | .internalThresholdType => "internalThresholdType" | .tooFewQuantiles => "tooFewQuantiles"
  | .tooManyQuantiles => "tooManyQuantiles" | .stub m => "stub:" ++ m
  | .badT => "badT" | .nonPositiveT => "nonPositiveT" | .withinBinType => "withinBinType"

def render (c : Cmd) : String :=
  match nameD c.name with
  | none => "UNHANDLED verif.output-class"
  | some nd =>
    let td := typeD c.type
    let bin := (effBinType nd c.binType).getD "None"
    match dispatch c with
    | .run cls m axis src => s!"run {cls} {m} {axis} {src.name} bin={bin}"
    | .unhandled w => s!"UNHANDLED {w}"
    | .error (.stub core) =>
      let (ax, hasR) := effAxis nd (axisD c.axis) c.hasR
      let src := (match thresholdSource nd td hasR with
        | .ok s0 => (match quantileSource nd c.nQ s0 with | .ok s => s.name | .error _ => "?")
        | .error _ => "?")
      s!"ERR stub:{core} {nd.cls} {(finalAxis nd ax).1} {src} bin={bin}"
    | .error .withinBinType =>
      -- the message comes from inside `_plot_core`: the output object is the one the core decision selects
      (match dispatchD nd (axisD c.axis) td c.hasR c.nQ (aggOk c.agg) with
       | .run cls m axis src => s!"ERR inrun:withinBinType {cls} {m} {axis} {src.name} bin={bin}"
       | _ => "ERR withinBinType")
    | .error w => s!"ERR {whyName w}"

def handle (args : List String) : Option String :=
  match args with
  | ["dispatch", name, axis, type, bin, r, q, agg] => do
      let nq ← q.toNat?
      let c : Cmd := ⟨name, opt axis, type, opt bin, r == "1", nq, parseAgg agg⟩
      some (render c)
  | ["dispatch", name, axis, type, bin, r, q, agg, tlen, tagg, tx, clim] => do
      -- the same with -T <tlen> -Tagg <tagg> -Tx <tx> (each `-` when absent) and -c (clim = 1)
      let nq ← q.toNat?
      let c : Cmd := ⟨name, opt axis, type, opt bin, r == "1", nq, parseAgg agg⟩
      let len : Option TLen := (opt tlen).map fun s => match s.toInt? with
        | some v => .int v
        | none => .notInt
      let t : TArgs := { len := len, agg := parseAgg tagg, axis := opt tx, clim := clim == "1" }
      match tCheck t with
      | some w => some s!"ERR {whyName w}"
      | none => some (render c)
  | ["dispatchcheck", name, axis, type, r, q] => do
      -- the predicate the kernel evaluates in Proofs/C19 (C19_dispatch_total), for one combination
      let nq ← q.toNat?
      let c : Cmd := ⟨name, opt axis, type, none, r == "1", nq, none⟩
      some (if good c (dispatch c) then "good" else "bad " ++ render c)
  | ["dispatchnames"] => some (",".intercalate (Gen.ClassTable.metrics.filter (·.valid) |>.map (·.name)))
  | _ => none

end VerifModel.Driver.Dispatch
