import VerifModel.Base.Proto
import VerifModel.Gen.Abcd
import VerifModel.Driver.Cont
import VerifModel.Driver.Data
import VerifModel.Model.SubsetGen
import VerifModel.Model.BrierGen
import VerifModel.Gen.TextHeader
import VerifModel.Driver.Text
import VerifModel.Gen.Agg
import VerifModel.Gen.DateFilter
/-
  Driver ops that EXECUTE the definitions regenerated from /repo by harness/translate_more.py, so that the
  translator itself is validated on every run against the real functions (same op line on both sides):

    genabcd <bin> <t> <u> <fbin|-> <ft> <fu> <obs> <fcst>     Gen.Abcd.abcd        (C06, stream cont.genabcd)
    gensubset <cfg> <locs>        the verified location ids of a Data object built on ONE input with these stations and
                                  the options l lx lat lon elev of <cfg> (encodings of Driver/Data.lean), computed with
                                  `useLocationsGen` (Gen.Subset.* pieces); ERR = one of the error exits
                                                                                   (C03, stream data.gensubset)
    genbrier <name> <p> <o>       Gen.Brier.m_<name> (the fold over the probability bins) on the model's edges, called
                                  as compute_from_obs_fcst(o, p)                   (C08, stream prob.genbrier)
    genhdr <word>;<word>;…        for every header word (encoding of Driver/Text.lean) the classes the generated
                                  classifiers Gen.TextHeader.isQ / isP / isE / isOther put it in: letters q p e o,
                                  `-` for none, words separated by `,`              (C09, stream text.genhdr)
    genagg <name> <v>             the aggregator `verif.aggregator.get(name)` applied to the 1-d array v, computed with the
                                  GENERATED class bodies: a name of Gen.Agg.classNames (constructible without an argument)
                                  -> Gen.Agg.callByName; a decimal number that Gen.Agg.initRejects_quantile does not refuse
                                  -> the generated Quantile body at that level; EXC = NumPy raises, ERR = no such aggregator
                                                                                   (C15, stream agg.gen)
    gendates <cfg> <times>        the verified times of a Data object built on ONE input with these times and the options
                                  dates / tods of <cfg>, filtered with the GENERATED tests Gen.DateFilter.dateKeep / todKeep;
                                  EMPTY = no time left                             (C03, stream data.gendates)
-/
namespace VerifModel.Driver.GenMore
open VerifModel Proto

def showCells : Option Nat × Option Nat × Option Nat × Option Nat → String
  | (some a, some b, some c, some d) => s!"{a} {b} {c} {d}"
  | _ => "none"

def intervalOfTokens? (b t u : String) : Option Interval := do
  let b ← BinType.ofName? b
  some (intervalOf b (← parseXR? t) (← parseXR? u))

def handle (args : List String) : Option String :=
  match args with
  | ["genabcd", b, t, u, fb, ft, fu, obs, fcst] => do
      let I ← intervalOfTokens? b t u
      let J ← (if fb == "-" then some none else (intervalOfTokens? fb ft fu).map some)
      let (obs, fcst) := (← parseVec? obs, ← parseVec? fcst)
      some (showCells (Gen.Abcd.abcd I J obs fcst))
  | ["gensubset", cfg, locs] => do
      let c ← Driver.Data.parseCfg? cfg none
      let ls ← (Driver.Data.splitNE locs ";").mapM Driver.Data.parseLoc?
      let first : Input := { times := [.fin 0], leads := [.fin 0], locs := ls, fields := [] }
      match useLocationsGen first c with
      | .error _ => some "ERR"
      | .ok u =>
        let x := commonValues (some u) [ls.map (·.id)]
        some (if x.isEmpty then "ERR" else showVec x)
  | ["gendates", cfg, times] => do
      let c ← Driver.Data.parseCfg? cfg none
      let ts ← parseVec? times
      let tv := commonValues c.times [ts]
      let t1 := match c.dateStarts with
        | some ds => tv.filter fun t => Gen.DateFilter.dateKeep t ds
        | none => tv
      let t2 := match c.tods with
        | some hs => t1.filter fun t => Gen.DateFilter.todKeep t hs
        | none => t1
      some (if t2.isEmpty then "EMPTY" else showVec t2)
  | ["genbrier", name, p, o] => do
      let (p, o) := (← parseVec? p, ← parseVec? o)
      some (match Prob.brierGen floatTr name o p with
            | none => "ERR"
            | some v => toString v)
  | ["genhdr", ws] => do
      let words ← (ws.splitOn ";").mapM Driver.Text.parseWord
      let cls (w : TextInput.Word) : String :=
        let s := (if Gen.TextHeader.isQ w then "q" else "") ++ (if Gen.TextHeader.isP w then "p" else "")
          ++ (if Gen.TextHeader.isE w then "e" else "") ++ (if Gen.TextHeader.isOther w then "o" else "")
        if s == "" then "-" else s
      some (",".intercalate (words.map cls))
  | ["genagg", name, v] => do
      let v ← parseVec? v
      let show' (r : Option (Option XR)) : String := match r with
        | none => "ERR"
        | some none => "EXC"
        | some (some x) => toString x
      match Gen.Agg.classNames.lookup name with
      | some 0 => some (show' (Gen.Agg.callByName floatTr name .nan v))
      | some _ => some "EXC"                 -- aggregator() without its constructor argument: TypeError
      | none =>
        match Agg.parseDecimal? name with
        | none => some "ERR"
        | some q =>
          if Gen.Agg.initRejects_quantile (.fin q) then some "ERR"
          else some (show' (Gen.Agg.callByName floatTr "quantile" (.fin q) v))
  | _ => none

end VerifModel.Driver.GenMore
