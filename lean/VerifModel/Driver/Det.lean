import VerifModel.Base.Proto
import VerifModel.Model.DetMetrics
import VerifModel.Model.DetRank
import VerifModel.Spec.Det
import VerifModel.Spec.Rank
import VerifModel.Model.DetSingle
import VerifModel.Driver.Cont
import VerifModel.Model.Aggregator
/- Driver ops for the deterministic metrics (C05). -/
namespace VerifModel.Driver.Det
open VerifModel Proto

/-- the aggregators the C05 stream uses (the full set is modelled for C15) -/
def aggByName (T : Tr) (name : String) : Option (Vec → XR) :=
  match name with
  | "mean" => some Vec.mean
  | "sum" => some Vec.sum
  | "min" => some Vec.minimum
  | "max" => some Vec.maximum
  | "meanabs" => some fun v => Vec.mean (Vec.abs v)
  | "absmean" => some fun v => XR.abs (Vec.mean v)
  | "range" => some fun v => Vec.maximum v - Vec.minimum v
  | "variance" => some Vec.var
  | "std" => some (Vec.std T)
  | "median" => some fun v =>
      let s := Vec.sort v
      let n := s.length
      if n = 0 then .nan
      else if n % 2 = 1 then s.getD (n / 2) .nan
      else (s.getD (n / 2 - 1) .nan + s.getD (n / 2) .nan) / .fin 2
  -- count, iqr, change, abschange and the quantile levels ("0.3"): the C15 models (Model/Aggregator.lean);
  -- where NumPy raises on an empty array (`none`) the callers catch the exception / never get there: NaN
  | n => (Agg.get n).map fun a v => (Agg.apply T a v).getD .nan

def ratsOf? (v : Vec) : Option (List Rat) :=
  v.mapM fun x => match x with | .fin q => some q | _ => none

def showOpt : Option XR → String
  | none => "ERR"
  | some v => toString v

def specEval (T : Tr) (name : String) (agg : Vec → XR) (os fs : List Rat) : Option XR :=
  match name with
  | "mae" => some (Spec.Det.mae agg os fs) | "bias" => some (Spec.Det.bias agg os fs)
  | "diff" => some (Spec.Det.diff agg os fs) | "ratio" => some (Spec.Det.ratio agg os fs)
  | "ef" => some (Spec.Det.ef os fs) | "stderror" => some (Spec.Det.stderror T os fs)
  | "obsstddev" => some (Spec.Det.obsstddev T os) | "fcststddev" => some (Spec.Det.fcststddev T fs)
  | "rmse" => some (Spec.Det.rmse T agg os fs) | "cmae" => some (Spec.Det.cmae T agg os fs)
  | "nsec" => some (Spec.Det.nsec os fs) | "nnsec" => some (Spec.Det.nnsec os fs)
  | "alphaindex" => some (Spec.Det.alphaindex os fs) | "dmb" => some (Spec.Det.dmb os fs)
  | "mbias" => some (Spec.Det.mbias os fs) | "derror" => some (Spec.Det.derror os fs)
  | "rmsf" => some (Spec.Det.rmsf T agg os fs)
  | "corr" => some (Spec.Rank.pearson T os fs)
  | "rankcorr" => some (Spec.Rank.spearman T os fs)
  | "kendallcorr" => some (Spec.Rank.tauB T os fs)
  | "kge" => some (Spec.Rank.kge T os fs)
  | "leps" => some (Spec.Rank.leps os fs)
  | _ => none

def detOne (name agg obs fcst : String) : Option String := do
  let aggf ← aggByName floatTr agg
  let (obs, fcst) := (← parseVec? obs, ← parseVec? fcst)
  -- corr and kge are machine-translated (Gen.Det.m_corr / m_kge, np.corrcoef as the primitive corrCore) and go
  -- through detScore like the other translated formulas; GenEq.Det.corr_eq / kge_eq: = the models `corr` / `kge`
  if name == "rankcorr" then
    some (toString (computeFromObsFcst (rankcorr floatTr) obs fcst))
  else if name == "kendallcorr" then
    some (toString (computeFromObsFcst (kendallcorr floatTr) obs fcst))
  else if name == "leps" then
    some (toString (computeFromObsFcst leps obs fcst))
  else some (showOpt (detScore floatTr name aggf obs fcst))

def handle (args : List String) : Option String :=
  match args with
  | ["det", name, agg, obs, fcst] => detOne name agg obs fcst
  -- several metrics evaluated one after the other on the same data: a score is a function of the data alone,
  -- so the model answers each as if it were the only one
  | ["seq", obs, fcst, ms] => do
      let outs ← (ms.splitOn ",").mapM fun m => detOne m "mean" obs fcst
      some (" ".intercalate outs)
  | ["specdet", name, agg, os, fs] => do
      let aggf ← aggByName floatTr agg
      let (os, fs) := (← ratsOf? (← parseVec? os), ← ratsOf? (← parseVec? fs))
      if os.isEmpty || os.length != fs.length then some "nan"
      else some (showOpt (specEval floatTr name aggf os fs))
  | ["single", name, agg, ax, iv, obs, fcst] => do
      let aggf ← aggByName floatTr agg
      let I ← Driver.Cont.parseInterval? iv
      let a ← (match ax with | "obs" => some CondAxis.obs | "fcst" => some CondAxis.fcst | "no" => some CondAxis.none | _ => none)
      let (obs, fcst) := (← parseVec? obs, ← parseVec? fcst)
      if name == "obs" || name == "fcst" then
        some (toString (fromFieldSingle aggf (agg == "min" || agg == "max" || ((Agg.get agg).map (Agg.raisesOnEmpty floatTr)).getD false) (name == "obs") a I obs fcst))
      else if name == "within" then some (toString (withinSingle I obs fcst))
      else if name == "corr" then some (toString (obsFcstSingle (corr floatTr) a I obs fcst))
      else match Gen.Det.eval floatTr name aggf [] [] with
        | none => some "ERR"
        | some _ => some (toString (obsFcstSingle (fun o g => (Gen.Det.eval floatTr name aggf o g).getD .nan) a I obs fcst))
  | ["ffaux", agg, ax, iv, auxk, xs, obs, fcst] => do
      -- FromField(Other("x"), aux = none | Obs | Fcst) under -x no | obs | fcst
      let aggf ← aggByName floatTr agg
      let I ← Driver.Cont.parseInterval? iv
      let (xs, obs, fcst) := (← parseVec? xs, ← parseVec? obs, ← parseVec? fcst)
      let pick := fun (k : String) => match k with
        | "obs" => some (some obs) | "fcst" => some (some fcst) | "no" => some none | "none" => some none | _ => none
      let axisCol ← pick ax
      let aux ← pick auxk
      let r := agg == "min" || agg == "max" || ((Agg.get agg).map (Agg.raisesOnEmpty floatTr)).getD false
      some (toString (fromFieldAuxSingle aggf r I xs axisCol aux))
  | ["detperfect", name] => some (showOpt (Gen.Det.perfect name))
  | ["detorient", name] => some (showOpt (Gen.Det.orientation name))
  | ["detnames"] => some (",".intercalate Gen.Det.names)
  | _ => none

end VerifModel.Driver.Det
