import VerifModel.Base.Proto
import VerifModel.Model.OutputTable
import VerifModel.Model.TimeLabel
import VerifModel.Model.OutputDescs
/-
  Driver ops for the text / csv writers (C12).

    fmtg <p> <x>                          "%.{p}g" % x
    csv  <f> <names> <legend> <rows> …    Output.csv   (f = 1: a file name is set)
    text <f> <names> <legend> <rows> …    Output.text
    acc  <matrix>                         np.cumsum(np.nan_to_num(y), axis=0)
    tavg <nx> <matrix>                    threshold averaging of Standard._get_x_y
    seldesc <csv|text> <axis kind>        which descriptor columns the writer uses (T = thresholds, A = axis)
    value <chars>                         valueOf? (reads a %g numeral back)
    tlabel <axis> <t,t,…>                 Data.get_axis_descriptions on a time-like axis with these axis values
                                          (whole unix seconds): `Name:label,label,…`, blanks shown as `_`
    qdesc <csv|text> <metric> <bin|-> <r|-> <q|-> <stored thresholds|-> <stored quantiles|->
                                          the leading column of `-m <metric> -x threshold -type …`: `Threshold:v,v,…`
                                          (one value per row), `NONE` (no threshold column), `ERR` (the driver stops);
                                          `-` = option absent / nothing stored

  Encodings.  A string is `s` followed by its percent-encoded UTF-8 bytes; lists of strings are
  `;`-separated (`-` = empty list).  rows = `|`-separated `descs:ys` with descs a `;`-list of
  `s<pct>` (string), `n<num/den>` (number) or `A` (None) and ys a comma vector; matrix = `|`-
  separated comma vectors.  Trailing tokens (the scenario the harness replays) are ignored.
  Reply of csv/text: escaped stdout, TAB, escaped file content or `-`  (\\ ↦ \\\\, newline ↦ \\n,
  tab ↦ \\t).
-/
namespace VerifModel.Driver.Output
open VerifModel Proto Decimal OutputTable

def hexVal? (c : Char) : Option Nat :=
  if '0' ≤ c ∧ c ≤ '9' then some (c.toNat - 48)
  else if 'a' ≤ c ∧ c ≤ 'f' then some (c.toNat - 87)
  else if 'A' ≤ c ∧ c ≤ 'F' then some (c.toNat - 55)
  else none

def pctBytes : List Char → ByteArray → Option ByteArray
  | [], acc => some acc
  | '%' :: a :: b :: r, acc => do
      let x ← hexVal? a
      let y ← hexVal? b
      pctBytes r (acc.push (UInt8.ofNat (16 * x + y)))
  | '%' :: _, _ => none
  | c :: r, acc => if c.toNat < 128 then pctBytes r (acc.push (UInt8.ofNat c.toNat)) else none

def pctDecode (s : String) : Option Str := do
  let b ← pctBytes s.toList ByteArray.empty
  let t ← String.fromUTF8? b
  some t.toList

/-- `s<pct>` -/
def parseStr? (tok : String) : Option Str :=
  match tok.toList with
  | 's' :: r => pctDecode (String.ofList r)
  | _ => none

def parseList? {α} (sep : String) (f : String → Option α) (tok : String) : Option (List α) :=
  if tok == "-" then some [] else (tok.splitOn sep).mapM f

def parseDesc? (tok : String) : Option Desc :=
  match tok.toList with
  | 's' :: r => (pctDecode (String.ofList r)).map .str
  | 'n' :: r => (parseXR? (String.ofList r)).map .num
  | ['A'] => some .all
  | _ => none

def parseRow? {δ} (fd : String → Option δ) (tok : String) : Option (List δ × List XR) :=
  match tok.splitOn ":" with
  | [d, y] => do
      let ds ← parseList? ";" fd d
      let ys ← parseVec? y
      some (ds, ys)
  | _ => none

def parseTable? {δ} (fd : String → Option δ) (names legend rows : String) : Option (Table δ) := do
  let n ← parseList? ";" parseStr? names
  let l ← parseList? ";" parseStr? legend
  let r ← parseList? "|" (parseRow? fd) rows
  some ⟨n, l, r⟩

def parseMatrix? (tok : String) : Option (List (List XR)) := parseList? "|" parseVec? tok

def showMatrix (m : List (List XR)) : String :=
  if m.isEmpty then "-" else "|".intercalate (m.map showVec)

def esc (cs : Str) : String :=
  String.ofList (cs.flatMap fun c =>
    if c = '\\' then ['\\', '\\'] else if c = '\n' then ['\\', 'n'] else if c = '\t' then ['\\', 't']
    else [c])

def showEmitted (e : Emitted) : String :=
  esc e.stdout ++ "\t" ++ (match e.file with | none => "-" | some (_, c) => esc c)

def fileArg? (f : String) : Option (Option Str) :=
  if f == "0" then some none else if f == "1" then some (some ['f']) else none

def handle (args : List String) : Option String :=
  match args with
  | ["fmtg", p, x] => do
      let p ← p.toNat?
      let x ← parseXR? x
      some (fmtG p x)
  | "csv" :: f :: names :: legend :: rows :: _ => do
      let fn ← fileArg? f
      let t ← parseTable? parseStr? names legend rows
      some (showEmitted (emit fn (csvChars t)))
  | "text" :: f :: names :: legend :: rows :: _ => do
      let fn ← fileArg? f
      let t ← parseTable? parseDesc? names legend rows
      some (showEmitted (emit fn (textChars t)))
  | "acc" :: m :: _ => do
      let m ← parseMatrix? m
      some (showMatrix (acc m))
  | "tavg" :: nx :: m :: _ => do
      let nx ← nx.toNat?
      let m ← parseMatrix? m
      some (showVec (thresholdAvg nx m))
  | ["seldesc", kind, ax] => do
      let csv ← if kind == "csv" then some true else if kind == "text" then some false else none
      let ax ← if ax == "threshold" then some AxisKind.threshold else if ax == "obs" then some .obs
        else if ax == "fcst" then some .fcst else if ax == "other" then some .other else none
      some (";".intercalate ((selectDescs csv ax "T" [("AX".toList, "A")]).map fun (n, v) =>
        String.ofList n ++ ":" ++ v))
  | ["tlabel", ax, ts] => do
      let k ← Axis.Kind.ofName? ax
      let vals ← (ts.splitOn ",").mapM String.toInt?
      some (match TimeLabel.descriptions k vals with
        | none => "ERR"
        | some (h, ls) =>
          let shown := ls.map fun l => String.ofList (l.map fun c => if c = ' ' then '_' else c)
          String.ofList h ++ ":" ++ ",".intercalate shown)
  | ["qdesc", kind, metric, bin, r, q, st, sq] => do
      let _ ← if kind == "csv" || kind == "text" then some () else none
      let rats := fun (tok : String) => (parseVec? tok).bind fun v =>
        v.mapM fun x => match x with | XR.fin q => some q | _ => none
      let optRats := fun (tok : String) => if tok == "-" then some none else (rats tok).map some
      let r ← optRats r
      let q ← optRats q
      let st ← if st == "-" then some [] else rats st
      let sq ← if sq == "-" then some [] else rats sq
      let b := if bin == "-" then none else some bin
      some (match Dispatch.nameD metric with
        | none => "ERR"
        | some nd =>
          match OutputDescs.thresholdColumn nd (Dispatch.typeD kind) (Dispatch.axisD (some "threshold")) b
              ⟨r, q, st, sq⟩ with
          | .error _ => "ERR"
          | .ok none => "NONE"
          | .ok (some (h, vs)) => String.ofList h ++ ":" ++ (if vs.isEmpty then "-" else ",".intercalate (vs.map toString)))
  | ["value", s] => do
      let cs ← pctDecode s
      some (match valueOf? cs with | none => "ERR" | some v => toString v)
  | _ => none

end VerifModel.Driver.Output
