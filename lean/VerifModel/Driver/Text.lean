import VerifModel.Base.Proto
import VerifModel.Model.TextInput
/-
  Driver op for the text reader (C09):

    textfile <tag> <file>

  <tag> is ignored (the harness keeps the generator seed there).  <file> = lines separated
  by `|`, words separated by `;`; a comment line starts with the word `#`.  A word is
  `name[~val[~sfx]]`: name = raw text or `=<hex of the utf-8 bytes>`; val / sfx = `b` (float()
  raises), `n` (nan), `i` (inf), `j` (-inf) or an exact rational `num/den`; a word without `~`
  is an integer literal (val = that integer) or, failing that, a bad token; a missing sfx is `b`.

  Reply: the canonical dataset line
    T=<times> L=<leadtimes> IDS=<ids> LOC=<lat:lon:elev,…> obs=… fcst=… pit=… THR=… thr=… Q=… q=…
    M=… ens=… O=<hex name=vec;… sorted by hex name> V=<hex name>:<hex units>:<x0>:<x1>
  locations sorted by id (file has an id column; a location whose id token is missing sorts by
  the id the reader assigns to it) or by (lat, lon, elev) (ids assigned by the reader; IDS is then
  the ascending list of assigned ids), arrays row-major.
-/
/-
    textsplit <tag> <hex of one text line>  ->  `c:` or `r:` followed by the hex words (`;`)
-/
namespace VerifModel.Driver.Text
open VerifModel Proto TextInput

def hexVal (c : Char) : Option Nat :=
  if '0' ≤ c ∧ c ≤ '9' then some (c.toNat - '0'.toNat)
  else if 'a' ≤ c ∧ c ≤ 'f' then some (c.toNat - 'a'.toNat + 10)
  else none

def unhex : List Char → Option (List Char)
  | [] => some []
  | a :: b :: rest => do
      let x ← hexVal a
      let y ← hexVal b
      let r ← unhex rest
      some (Char.ofNat (16 * x + y) :: r)
  | _ => none

def hexDigit (n : Nat) : Char := if n < 10 then Char.ofNat (48 + n) else Char.ofNat (87 + n)

def hex (cs : List Char) : String :=
  String.ofList (cs.flatMap fun c => [hexDigit (c.toNat / 16 % 16), hexDigit (c.toNat % 16)])

def parseName (s : String) : Option (List Char) :=
  match s.toList with
  | '=' :: rest => unhex rest
  | cs => some cs

def parseTok (s : String) : Option Tok :=
  if s == "b" then some (.bad "")
  else if s == "n" then some .nan
  else if s == "i" then some .inf
  else if s == "j" then some .ninf
  else match parseXR? s with
    | some (.fin q) => some (.num q)
    | _ => none

def isIntLit (cs : List Char) : Bool :=
  let ds := match cs with | '-' :: r => r | r => r
  !ds.isEmpty && ds.all Char.isDigit

def parseWord (s : String) : Option Word :=
  match s.splitOn "~" with
  | [n] => do
      let name ← parseName n
      let v : Tok := if isIntLit name then
          (match (String.ofList name).toInt? with | some k => .num (k : Rat) | none => .bad n)
        else .bad n
      some ⟨name, v, .bad ""⟩
  | [n, v] => do some ⟨← parseName n, ← parseTok v, .bad ""⟩
  | [n, v, x] => do some ⟨← parseName n, ← parseTok v, ← parseTok x⟩
  | _ => none

def parseLine (s : String) : Option Line :=
  if s == "" then some (.row []) else
  match s.splitOn ";" with
  | "#" :: ws => (ws.mapM parseWord).map .comment
  | ws => (ws.mapM parseWord).map .row

def parseFile (s : String) : Option (List Line) := (s.splitOn "|").mapM parseLine

/-- insertion sort by a strict order -/
def isort {α} (lt : α → α → Bool) : List α → List α
  | [] => []
  | x :: xs =>
    let rec ins (x : α) : List α → List α
      | [] => [x]
      | y :: ys => if lt x y then x :: y :: ys else y :: ins x ys
    ins x (isort lt xs)

/-- canonical order of the reply: numbers ascending, a missing value (NaN) last -/
def keyLt (a b : XR) : Bool := if a.isNan then false else if b.isNan then true else XR.lt a b

def locLt (byId : Bool) (a b : Loc × XR) : Bool :=
  if byId then keyLt a.2 b.2      -- the id after the assignment loop (= the id read, when there is one)
  else keyLt a.1.lat b.1.lat || (decide (a.1.lat = b.1.lat) &&
    (keyLt a.1.lon b.1.lon || (decide (a.1.lon = b.1.lon) && keyLt a.1.elev b.1.elev)))

def showOpt (b : Bool) (v : List XR) : String := if b then showVec v else "none"

def joinWords (ws : List (List Char)) : List Char := (ws.intersperse [' ']).flatten

def render (P0 : Parsed) : String :=
  -- a missing time / lead time (NaN): `sorted()` of a set that holds a NaN has no specified order; the reply lists
  -- the NaN last (the harness does the same with the reader's arrays); without a NaN this is the identity
  let P : Parsed := { P0 with times := isort keyLt P0.times, leads := isort keyLt P0.leads }
  let pairs := isort (locLt P.hasId) (P.locs.zip (assignIds P.hasId P.locs))
  let locs := pairs.map (·.1)
  let ids := if P.hasId then pairs.map (·.2) else isort XR.lt (pairs.map (·.2))
  let loc := if locs.isEmpty then "-" else
    ",".intercalate (locs.map fun l => s!"{l.lat}:{l.lon}:{l.elev}")
  let oth := if P.others.isEmpty then "-" else
    ";".intercalate ((isort (fun a b => decide (a.1 < b.1)) (P.others.map fun n => (hex n, n))).map fun (h, n) =>
      s!"{h}={showVec (P.arr locs (.other n))}")
  let name := match P.var.name with | some ws => joinWords ws | none => "Unknown variable".toList
  let units := match P.var.units with | some ws => joinWords ws | none => "Unknown units".toList
  let so : Option XR → String := fun o => match o with | some x => toString x | none => "-"
  s!"T={showVec P.times} L={showVec P.leads} IDS={showVec ids} LOC={loc} " ++
  s!"obs={showOpt (P.has .obs) (P.arr locs .obs)} fcst={showOpt (P.has .fcst) (P.arr locs .fcst)} " ++
  s!"pit={showOpt (P.has .pit) (P.arr locs .pit)} " ++
  s!"THR={showVec P.thresholds} thr={showVec (P.arr4 locs .thr P.thresholds)} " ++
  s!"Q={showVec P.quantiles} q={showVec (P.arr4 locs .qtl P.quantiles)} " ++
  s!"M={showVec P.members} ens={showVec (P.arr4 locs .ens P.members)} " ++
  s!"O={oth} V={hex name}:{hex units}:{so P.var.x0}:{so P.var.x1}"

def handle (args : List String) : Option String :=
  match args with
  | ["textfile", _, file] =>
    match parseFile file with
    | none => some "ERR bad-encoding"
    | some ls =>
      match parse ls with
      | .error .exit => some "ERR"
      | .error .exc => some "EXC"
      | .ok P => some (render P)
  | ["textsplit", _, line] =>
    -- <hex of one line of the file> -> c|r : hex words
    match (if line == "-" then some [] else unhex line.toList) with
    | none => some "ERR bad-encoding"
    | some cs =>
      let (isC, ws) := cutLine cs
      some ((if isC then "c:" else "r:") ++ ";".intercalate (ws.map hex))
  | _ => none

end VerifModel.Driver.Text
