import VerifModel.Base.Proto
import VerifModel.Model.DiagramFss
import VerifModel.Driver.Diagram
/-
  Driver ops for the distance diagrams of C16 (harness/props/c16w.py, lean_op):
    diagw fss <axis> <b> <r> <T>,<L>,<X> <leads> <dist|-> <in0> [<in1> …]
        dist   rows r1|r2|… of the matrix of great-circle distances in METRES (input of the model); - for the temporal form
        in<k>  obs=<T*L*X values, C order>;fcst=<…>
      reply  0:line:in<k>:<scales>:<scores>;0:aux:unc:<scales>:<o(1-o)>;…   |  ERR
    diagw autocorr|autocov <axis> <simple 0|1> <edges> <q|def> <T>,<L>,<X> <axis values> <dist|-> <in0> …
        edges  the bin edges of the quantile lines (-r, or the default np.percentile edges computed by the harness)
        dist   rows of the distance matrix in KM for -x location, - otherwise (|difference| of the axis values)
      reply  0:line:<label>:<x>:<y>;…   |  ERR
-/
namespace VerifModel.Driver.DiagramFss
open VerifModel Proto VerifModel.DiagramFss
open VerifModel.Driver.Diagram (Inp parseInp get1)

def toRat? : XR → Option Rat
  | .fin q => some q
  | _ => none

def parseRats? (s : String) : Option (List Rat) := do (← parseVec? s).mapM toRat?

def parseRows? (s : String) : Option (List Vec) :=
  if s == "-" then some [] else (s.splitOn "|").mapM parseVec?

def parseDims? (s : String) : Option (Nat × Nat × Nat) :=
  match (s.splitOn ",").map String.toNat? with
  | [some t, some l, some x] => some (t, l, x)
  | _ => none

/-- a case counts iff observation and forecast are finite in every input -/
def validMask (n : Nat) (ins : List Inp) : List Bool :=
  (List.range n).map fun k => ins.all fun i =>
    (match (get1 i "obs")[k]? with | some v => v.isFinite | none => false) &&
    (match (get1 i "fcst")[k]? with | some v => v.isFinite | none => false)

def showSer (s : Ser) : String := s!"0:{s.kind}:{s.label}:{showVec s.xs}:{showVec s.ys}"

def optXR : Option Rat → XR
  | some q => .fin q
  | none => .nan

def handleFss (axis b r dims leads dist : String) (inputs : List String) : Option String := do
  let rv ← parseVec? r
  let (nT, nL, nX) ← parseDims? dims
  let lt ← parseRats? leads
  let dm ← (← parseRows? dist).mapM fun row => row.mapM toRat?
  let ins ← inputs.mapM parseInp
  match fssMode rv.length b axis with
  | none => some "ERR"
  | some mode =>
    let bt ← BT.parse b
    let t ← toRat? (← rv.head?)
    let valid := validMask (nT * nL * nX) ins
    let scales := if mode == .temporal then temporalScales lt else spatialScales
    let out := (ins.zip (List.range ins.length)).flatMap fun (i, k) =>
      let ob := get1 i "obs"
      let fc := get1 i "fcst"
      let cell (idx : Nat) : Cell :=
        match valid[idx]?, ob[idx]?, fc[idx]? with
        | some v, some o, some f => mkCell bt t v o f
        | _, _, _ => none
      let (ys, us) : Vec × Vec :=
        match mode with
        | .spatial =>
          let rows := (List.range nT).flatMap fun tt => (List.range nL).map fun l =>
            (List.range nX).map fun x => cell ((tt * nL + l) * nX + x)
          (scales.map fun s => optXR (spatialScore 3 dm rows s), scales.map fun s => XR.fin (spatialUnc 3 dm rows s))
        | .temporal =>
          let rows := (List.range nT).flatMap fun tt => (List.range nX).map fun x =>
            (List.range nL).map fun l => cell ((tt * nL + l) * nX + x)
          (scales.map fun s => optXR (temporalScore lt rows s), scales.map fun s => XR.fin (temporalUnc lt rows s))
      [showSer ⟨"line", s!"in{k}", scales.map XR.fin, ys⟩, showSer ⟨"aux", "unc", scales.map XR.fin, us⟩]
    some (if out.isEmpty then "-" else ";".intercalate out)

def handleAuto (corr : Bool) (axis simple edges q dims vals dist : String) (inputs : List String) : Option String := do
  let (nT, nL, nX) ← parseDims? dims
  let ev ← parseVec? edges
  let qs ← if q == "def" then some defaultLevels else parseRats? q
  let av ← parseVec? vals
  let dm ← parseRows? dist
  let ins ← inputs.mapM parseInp
  match autoAxis axis with
  | none => some "ERR"
  | some ax =>
    let n := match ax with | .loc => nX | .lead => nL | .time => nT
    let dmat := if axis == "location" then dm
                else absDiffMatrix av (if axis == "time" then .fin 3600 else .fin 1)
    let valid := validMask (nT * nL * nX) ins
    let out := (ins.zip (List.range ins.length)).flatMap fun (i, k) =>
      let ob := get1 i "obs"
      let fc := get1 i "fcst"
      let E : List (Option Rat) := (List.range (nT * nL * nX)).map fun idx =>
        match valid[idx]?, ob[idx]?, fc[idx]? with
        | some true, some (XR.fin o), some (XR.fin f) => some (o - f)
        | _, _, _ => none
      let S := (List.range n).map (sliceSeries ax nT nL nX E)
      (autoLines floatTr corr (simple == "1") dmat S ev qs s!"in{k}").map showSer
    some (if out.isEmpty then "-" else ";".intercalate out)

def handle (args : List String) : Option String :=
  match args with
  | "diagw" :: "fss" :: axis :: b :: r :: dims :: leads :: dist :: inputs =>
      some ((handleFss axis b r dims leads dist inputs).getD "ERR bad-op")
  | "diagw" :: "autocorr" :: axis :: simple :: edges :: q :: dims :: vals :: dist :: inputs =>
      some ((handleAuto true axis simple edges q dims vals dist inputs).getD "ERR bad-op")
  | "diagw" :: "autocov" :: axis :: simple :: edges :: q :: dims :: vals :: dist :: inputs =>
      some ((handleAuto false axis simple edges q dims vals dist inputs).getD "ERR bad-op")
  | _ => none

end VerifModel.Driver.DiagramFss
