import VerifModel.Base.Proto
import VerifModel.Model.Data
import VerifModel.Model.DataState
import VerifModel.Spec.DataCoord
/-
  Driver ops for the dataset model (C01–C04, C14, C18).

    data <cfg> <inputs> <reqs>
    specdata <cfg> <inputs> <reqs>     the coordinate-based SPECIFICATION (Spec/DataCoord.lean) on the same
                                       encoding; `HYP` if the dataset is outside the hypothesis of
                                       `getScores_refines` (arrays of the declared shape; cannot happen
                                       with this encoding)

  cfg    = `k=v;k=v…` or `-`;  keys: times leads dates tods l lx lat lon elev obsrange (ranges `lo:hi`),
           clim=1 (the last input is the climatology), div=1, obsfield=<name> (`-obs`), fcstfield=<name> (`-fcst`)
  inputs = input#input…;  input = times|leads|locs|fields;  locs = id:lat:lon:elev;…
           fields = name=flat-values;…  (row-major time, lead, location)
           names: obs fcst pit, `p@<t>` stored CDF column of threshold t, `q@<q>` stored quantile column,
           `e@<k>` ensemble member k, anything else = an other-score field (numbers as protocol tokens)
  reqs   = fields@input@axis@index;…   (fields `+`-separated, index `-` when not applicable; the LAST three `@`
           separate input, axis and index, so that field names may contain `@`)
  reply  = T=…;L=…;X=… | req-reply | …   (req-reply: field vectors `;`-separated, or ERR; DERIVED when a requested
           CDF / quantile column is not stored by an input that has ensemble members — the code then derives it,
           which is Model/Prob.lean's subject (C08) and outside this model)
-/
namespace VerifModel.Driver.Data
open VerifModel Proto

def splitNE (s : String) (sep : String) : List String := (s.splitOn sep).filter (· ≠ "")

def parseRange? (s : String) : Option (XR × XR) :=
  match s.splitOn ":" with
  | [a, b] => do some (← parseXR? a, ← parseXR? b)
  | _ => none

def reshape (nt nl nx : Nat) (v : Vec) : Arr3 :=
  (List.range nt).map fun t => (List.range nl).map fun l => (List.range nx).map fun x =>
    v.getD ((t * nl + l) * nx + x) .nan

def parseLoc? (s : String) : Option Loc :=
  match s.splitOn ":" with
  | [i, a, o, e] => do some ⟨← parseXR? i, ← parseXR? a, ← parseXR? o, ← parseXR? e⟩
  | _ => none

def parseInput? (s : String) : Option Input :=
  match s.splitOn "|" with
  | [ts, ls, xs, fs] => do
      let times ← parseVec? ts
      let leads ← parseVec? ls
      let locs ← (splitNE xs ";").mapM parseLoc?
      let fields ← (splitNE fs ";").mapM fun f =>
        match f.splitOn "=" with
        | [n, v] => do some (n, reshape times.length leads.length locs.length (← parseVec? v))
        | _ => none
      some { times := times, leads := leads, locs := locs, fields := fields }
  | _ => none

def parseCfg? (s : String) (clim : Option Input) : Option Cfg :=
  (splitNE (if s == "-" then "" else s) ";").foldlM (fun (c : Cfg) kv =>
    match kv.splitOn "=" with
    | ["times", v] => do some { c with times := some (← parseVec? v) }
    | ["leads", v] => do some { c with leads := some (← parseVec? v) }
    | ["dates", v] => do some { c with dateStarts := some (← parseVec? v) }
    | ["tods", v] => do some { c with tods := some (← parseVec? v) }
    | ["l", v] => do some { c with locations := some (← parseVec? v) }
    | ["lx", v] => do some { c with locationsX := some (← parseVec? v) }
    | ["lat", v] => do some { c with latRange := some (← parseRange? v) }
    | ["lon", v] => do some { c with lonRange := some (← parseRange? v) }
    | ["elev", v] => do some { c with elevRange := some (← parseRange? v) }
    | ["obsrange", v] => do some { c with obsRange := some (← parseRange? v) }
    | ["clim", _] => some { c with clim := clim }
    | ["div", v] => some { c with climDivide := v == "1" }
    | ["obsfield", v] => some { c with obsField := v }
    | ["fcstfield", v] => some { c with fcstField := v }
    | _ => none) {}

def leadDay (l : XR) : XR := match l with
  | .fin q => .fin ((q / 24).floor : Int)
  | x => x

/-- axis name + slice index → selector (data.py `_apply_axis`), from the verified times and lead times -/
def selOfDims (times leads : List XR) (axis : String) (k : Nat) : Option Sel :=
  match axis with
  | "all" => some .all
  | "no" | "threshold" | "obs" | "fcst" => some .none
  | "time" => some (.time k)
  | "location" | "lat" | "lon" | "elev" => some (.loc k)
  | "leadtime" => some (.leads (groupIdx leads k))
  | "leadtimeday" => some (.leads (groupIdx (leads.map leadDay) k))
  | "day" => some (.times (groupIdx (times.map dayStart) k))
  | "timeofday" => some (.times (groupIdx (times.map hourOfDay) k))
  | _ => none

def selOf (D : DataS) (axis : String) (k : Nat) : Option Sel := selOfDims D.times D.leads axis k

def showCols (cols : List Vec) : String := ";".intercalate (cols.map showVec)

/-- `fields@input@axis@index`, split at the last three `@` -/
def splitReq (s : String) : Option (String × String × String × String) :=
  match (s.splitOn "@").reverse with
  | k :: axis :: i :: f :: fs => some ("@".intercalate (f :: fs).reverse, i, axis, k)
  | _ => none

/-- is a requested field outside the model: a CDF / quantile column that some input does not store although it has
ensemble members (the code derives the column from the members) -/
def derived (inputs : List Input) (cfg : Cfg) (fields : List String) : Bool :=
  let eff := if cfg.clim.isSome && (fields.contains "obs" || fields.contains "fcst") then "fcst" :: fields else fields
  eff.any fun name =>
    let stored := cfg.storedName name
    name != "obs" && (stored.startsWith "p@" || stored.startsWith "q@") &&
      inputs.any fun I => (I.field? stored).isNone && I.fields.any fun f => f.1.startsWith "e@"

def runReq (raw : List Input) (D : DataS) (s : String) : String :=
  match splitReq s with
  | some (fs, i, axis, k) =>
    match i.toNat?, selOf D axis (k.toNat?.getD 0) with
    | some i, some sel =>
      if derived raw D.cfg (fs.splitOn "+") then "DERIVED" else
      match D.getScores { fields := fs.splitOn "+", input := i, sel := sel } with
      | .ok cols => showCols cols
      | .error _ => "ERR"
    | _, _ => "ERR bad-req"
  | none => "ERR bad-req"

def runData (cfg inputs reqs : String) : Option String := do
      let ins ← (splitNE inputs "#").mapM parseInput?
      let hasClim := (splitNE (if cfg == "-" then "" else cfg) ";").any (· == "clim=1")
      let (scored, clim) := if hasClim then (ins.dropLast, ins.getLast?) else (ins, none)
      let c ← parseCfg? cfg clim
      match Data.initF scored c with
      | .error _ => some "ERR init"
      | .ok D =>
        let head := s!"T={showVec D.times};L={showVec D.leads};X={showVec (D.locs.map (·.id))}"
        some (" | ".intercalate (head :: (splitNE reqs ";").map (runReq ins D)))

/-- one request answered by the specification -/
def runSpecReq (scored : List Input) (c : Cfg) (d : Spec.DataCoord.Dims) (s : String) : String :=
  match splitReq s with
  | some (fs, i, axis, k) =>
    match i.toNat?, selOfDims d.times d.leads axis (k.toNat?.getD 0) with
    | some i, some sel =>
      if derived (Spec.DataCoord.allInputs scored c) c (fs.splitOn "+") then "HYP" else
      match Spec.DataCoord.specScoresF scored c { fields := fs.splitOn "+", input := i, sel := sel } with
      | .ok cols => showCols cols
      | .error _ => "ERR"
    | _, _ => "ERR bad-req"
  | none => "ERR bad-req"

/-- the specification on the encoding of the `data` op -/
def runSpecData (cfg inputs reqs : String) : Option String := do
      let ins ← (splitNE inputs "#").mapM parseInput?
      let hasClim := (splitNE (if cfg == "-" then "" else cfg) ";").any (· == "clim=1")
      let (scored, clim) := if hasClim then (ins.dropLast, ins.getLast?) else (ins, none)
      let c ← parseCfg? cfg clim
      if !(Spec.DataCoord.allInputs scored c).all Spec.DataCoord.wfInput then some "HYP"
      else match Spec.DataCoord.specDimsF scored c with
      | none => some "ERR init"
      | some d =>
        let head := s!"T={showVec d.times};L={showVec d.leads};X={showVec d.locs}"
        some (" | ".intercalate (head :: (splitNE reqs ";").map (runSpecReq scored c d)))

def parseReq? (D : DataS) (s : String) : Option Req :=
  match splitReq s with
  | some (fs, i, axis, k) => do
      some { fields := fs.splitOn "+", input := ← i.toNat?, sel := ← selOf D axis (k.toNat?.getD 0) }
  | none => none

/-- a request HISTORY through the stateful model (both caches); stops at the first error -/
def runHist (cfg inputs reqs : String) : Option String := do
      let ins ← (splitNE inputs "#").mapM parseInput?
      let hasClim := (splitNE (if cfg == "-" then "" else cfg) ";").any (· == "clim=1")
      let (scored, clim) := if hasClim then (ins.dropLast, ins.getLast?) else (ins, none)
      let c ← parseCfg? cfg clim
      match Data.initF scored c with
      | .error _ => some "ERR init"
      | .ok D =>
        let rs ← (splitNE reqs ";").mapM (parseReq? D)
        let rec go (s : DState) (rs : List Req) (acc : List String) : List String :=
          match rs with
          | [] => acc.reverse
          | r :: rest =>
            match D.step s r with
            | .error _ => ("ERR" :: acc).reverse
            | .ok (s', cols) => go s' rest (showCols cols :: acc)
        some (" | ".intercalate (go DState.init rs []))

def handle (args : List String) : Option String :=
  match args with
  | ["data", cfg, inputs, reqs] => runData cfg inputs reqs
  | ["datahist", cfg, inputs, reqs] => runHist cfg inputs reqs
  | ["specdata", cfg, inputs, reqs] => runSpecData cfg inputs reqs
  -- permutation invariance is a theorem about the model (Proofs/C02.lean)
  | ["dataperm", _, _, _, _] => some "same"
  | "cliperm" :: _ => some "same"     -- (C02 cli.perm: implementation-only relation, see harness/props/c02.py)
  -- the text-file path must give what the in-memory path gives
  | ["datatxt", _, cfg, inputs, reqs] => runData cfg inputs reqs
  -- non-interference is a theorem about the model (Proofs/C01.lean): the model's reply is constant
  | ["datani", _, _, _] => some "same"
  | _ => none

end VerifModel.Driver.Data
