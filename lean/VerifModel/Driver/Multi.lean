import VerifModel.Base.Proto
import VerifModel.Model.Data
import VerifModel.Model.DetMetrics
import VerifModel.Model.DetSingle
import VerifModel.Model.Contingency
import VerifModel.Model.Prob
import VerifModel.Model.Axis
import VerifModel.Spec.DataCoord
import VerifModel.Driver.Data
import VerifModel.Driver.Det
import VerifModel.Driver.Cont
import VerifModel.Driver.Prob
/-
  Stream family `metric.multi` (C05, C06, C08 on top of C01): the score classes of verif/metric.py
  called the way the command line calls them — `Metric.compute(data, i, axis, interval)` and
  `compute_single(data, i, axis, k, interval)` — on a dataset with SEVERAL inputs, for every input
  index, axis and slice index.

  The model is a COMPOSITION of models that exist already:

      fields of the metric            `fieldRefs`   which fields ONE call of `get_scores` is asked for
      Data.get_scores                 `DataS.getScores` (Model/Data.lean) for (fields, i, axis, k)
      the metric's kernel             `kernel`      Model/DetMetrics, Gen/Det, Model/Contingency + Gen/Cont,
                                                    Model/Prob + Gen/Prob on the vectors returned

  `Proofs/Multi.lean` proves what makes the composition meaningful (the vectors are the
  coordinate specification's, the same cases for every input, slices partition the pooled cases).

  Probabilistic fields.  `Model/Data.lean` knows named 3-D fields only.  A stored CDF column for
  threshold t is the named field `T<t>`, a stored quantile column `Q<q>`, ensemble member m the field
  `E<m>`.  `resolveInput` adds to every input the array `_get_score` would load for a requested
  `Threshold(t)` / `Quantile(q)` field (the stored column whose level `np.isclose` the requested one,
  else derived from the ensemble cell by cell with `Prob.ensProb` / `Prob.ensQuantile`) under the
  key `thr:<t>` / `qnt:<q>`; from there on it is an ordinary named field (cut to the common
  coordinates, missing in one input ⇒ missing in all, …).

    mm <family> <cfg> <inputs> <reqs>
        family  det | cont | prob         (routing only)
        cfg, inputs                       as in the `data` op (Driver/Data.lean)
        reqs    req;req;…   req = metric@input@axis@index      index `*` = Metric.compute (all slices)
        metric  name~agg~lo:hi:le:ue[~numStd]     (det, prob)
                name~bintype~t~u                  (cont)
        reply   one token per request (a number, or the comma-separated vector of `compute`, or ERR),
                blank separated; `ERR init` when Data() exits
    mspec <op> & <op> & …                 the replies of the Spec ops (specdet / speccont / spec_prob)
                                          of the other drivers, ` & `-separated (`none` ↦ `-`)
-/
namespace VerifModel.Driver.Multi
open VerifModel Proto

/-! ### fields a metric requests -/

inductive FRef where
  | named (n : String)
  | thr (t : XR)
  | qnt (q : XR)
  deriving Repr, Inhabited, DecidableEq

/-- the name of the field in the resolved dataset -/
def FRef.key : FRef → String
  | .named n => n
  | .thr t => "thr:" ++ toString t
  | .qnt q => "qnt:" ++ toString q

/-- stored columns `T<level>` / `Q<level>` of an input -/
def storedCols (pre : Char) (I : Input) : List (XR × Arr3) :=
  I.fields.filterMap fun f =>
    if f.1.front == pre then (parseXR? (f.1.drop 1).toString).map fun t => (t, f.2) else none

/-- ensemble members `E0`, `E1`, … in stored order -/
def members (I : Input) : List Arr3 :=
  (I.fields.filter fun f => f.1.front == 'E').map (·.2)

/-- apply `f` to the member values of every cell -/
def cellwise (ms : List Arr3) (f : Vec → XR) : Arr3 :=
  match ms with
  | [] => []
  | m0 :: _ => mapIdx3 (fun t l x _ => f (ms.map fun m => m.get t l x)) m0

/-- the array `_get_score` loads from input `I` for the field, before cutting to the common
coordinates; `none` = error exit (no such column and no ensemble) or the failing `assert(len(I) == 1)` -/
def resolve (I : Input) : FRef → Option Arr3
  | .named n => I.field? n
  | .thr t =>
    match (storedCols 'T' I).filter (fun c => Prob.isclose c.1 t) with
    | [] => if (members I).isEmpty then none else some (cellwise (members I) (Prob.ensProb t))
    | [c] => some c.2
    | _ => none
  | .qnt q =>
    if !(XR.le (.fin 0) q && XR.le q (.fin 1)) then none
    else match (storedCols 'Q' I).filter (fun c => Prob.isclose c.1 q) with
    | [] =>
      match q with
      | .fin qq =>
        if (members I).isEmpty then none
        else some (cellwise (members I) fun v => (Prob.ensQuantile qq v).getD .nan)
      | _ => none
    | [c] => some c.2
    | _ => none

/-- the input with the requested threshold / quantile fields materialised as named fields -/
def resolveInput (refs : List FRef) (I : Input) : Input :=
  { I with fields := I.fields ++ refs.filterMap fun r =>
      match r with
      | .named _ => none
      | r => (resolve I r).map fun a => (r.key, a) }

/-! ### the metric request -/

structure MReq where
  family : String
  name : String
  agg : String := "mean"
  I : Interval := ⟨.ninf, .pinf, true, true⟩
  numStd : XR := .nan
  deriving Repr, Inhabited

def condAxisOf (axis : String) : CondAxis :=
  if axis == "obs" then .obs else if axis == "fcst" then .fcst else .none

def thresholdFamily : List String :=
  ["bs", "bsrel", "bsres", "bsunc", "bss", "bssrel", "bssres", "ign0", "spherical", "marginalratio"]

def obsFcstNames : List String := Gen.Det.names ++ ["corr", "kge"]

/-- the finite ends of the interval as threshold / quantile fields -/
def endRefs (mk : XR → FRef) (I : Interval) : List FRef :=
  (if I.lower.isInf then [] else [mk I.lower]) ++ (if I.upper.isInf then [] else [mk I.upper])

/-- the field list of the ONE `get_scores` call `compute_single` makes (metric.py); `none` = the metric is
not modelled, or the call ends in an error before any data is read -/
def fieldRefs (m : MReq) (axis : String) : Option (List FRef) :=
  let obs := FRef.named "obs"
  let fcst := FRef.named "fcst"
  if m.family == "det" then
    if obsFcstNames.contains m.name || m.name == "within" || m.name == "conditional"
        || m.name == "xconditional" then some [obs, fcst]
    else if m.name == "obs" then some (if axis == "fcst" then [obs, fcst] else [obs])
    else if m.name == "fcst" then some (if axis == "obs" then [fcst, obs] else [fcst])
    else if m.name == "countobs" then some [obs]
    else if m.name == "countfcst" then some [fcst]
    else none
  else if m.family == "cont" then
    (Gen.Cont.eval floatTr m.name .nan .nan .nan .nan).map fun _ => [obs, fcst]
  else if m.family == "prob" then
    if thresholdFamily.contains m.name then
      (if I_unbounded m.I then none else some (obs :: endRefs .thr m.I))
    else if m.name == "threshold" then
      (if I_unbounded m.I then none else some (endRefs .thr m.I))
    else if m.name == "quantile" then
      (if I_unbounded m.I then none else some (endRefs .qnt m.I))
    else if m.name == "quantilescore" then some [obs, .qnt m.I.lower]
    else if m.name == "quantilecoverage" then
      (if I_unbounded m.I then none else some (obs :: endRefs .qnt m.I))
    else if m.name == "spread" then some [.qnt m.I.lower, .qnt m.I.upper]
    else if m.name == "spreadskillratio" then some [.qnt m.I.lower, .qnt m.I.upper, fcst, obs]
    else if ["pit", "pithistdev", "pithistslope", "pithistshape"].contains m.name then some [.named "pit"]
    else none
  else none
where
  I_unbounded (I : Interval) : Bool := I.lower.isInf && I.upper.isInf

def fieldNames (m : MReq) (axis : String) : Option (List String) :=
  (fieldRefs m axis).map fun refs => refs.map FRef.key

/-! ### kernels: the score from the vectors `get_scores` returned -/

/-- `FromField.compute_single` after `get_scores`: `cols[0]` are the values, the last column the
subsetting field under `-x obs` / `-x fcst` (the values themselves when the metric's field is the axis field) -/
def fromFieldK (agg : Vec → XR) (raisesOnEmpty : Bool) (cax : CondAxis) (I : Interval) (cols : List Vec) :
    Option XR :=
  let fin := fun (vals : Vec) => if vals.isEmpty && raisesOnEmpty then XR.nan else agg vals
  match cax, cols with
  | .none, [v] => some (fin v)
  | .none, _ => none
  | _, [v] => some (fin (selectWithin I v v))
  | _, [v, a] => some (fin (selectWithin I a v))
  | _, _ => none

/-- `ObsFcstBased.compute_single` after `get_scores` -/
def obsFcstK (f : Vec → Vec → XR) (cax : CondAxis) (I : Interval) (o g : Vec) : XR :=
  match cax with
  | .obs => computeFromObsFcst f (selectWithin I o o) (selectWithin I o g)
  | .fcst => computeFromObsFcst f (selectWithin I g o) (selectWithin I g g)
  | .none => computeFromObsFcst f o g

/-- `Within.compute_from_obs_fcst`: `np.mean(interval.within(|o − f|)) * 100` (masked entries excluded) -/
def withinK (I : Interval) (o g : Vec) : XR :=
  let d := Vec.abs (Vec.sub o g)
  let hits := (d.filter fun x => I.within x = some true).length
  let n := (d.filter fun x => (I.within x).isSome).length
  if n = 0 then .nan else .fin ((hits : Rat) / (n : Rat) * 100)

/-- `Conditional` (mean of y where x is in the interval), `XConditional` (median of x there) and
`Count` (how many values are in the interval); NaN when nothing is selected -/
def conditionalK (I : Interval) (x y : Vec) : XR :=
  let v := selectWithin I x y
  if v.isEmpty then .nan else Vec.mean v
def xconditionalK (median : Vec → XR) (I : Interval) (x : Vec) : XR :=
  let v := selectWithin I x x
  if v.isEmpty then .nan else median v
def countK (I : Interval) (x : Vec) : XR :=
  let v := selectWithin I x x
  if v.isEmpty then .nan else XR.ofNat v.length

def detKernel (T : Tr) (m : MReq) (axis : String) (cols : List Vec) : Option XR := do
  let cax := condAxisOf axis
  if m.name == "obs" || m.name == "fcst" then
    let aggf ← Driver.Det.aggByName T m.agg
    fromFieldK aggf (m.agg == "min" || m.agg == "max") cax m.I cols
  else match cols with
  | [o, g] =>
    if m.name == "within" then some (withinK m.I o g)
    else if m.name == "conditional" then some (conditionalK m.I o g)
    else if m.name == "xconditional" then
      (Driver.Det.aggByName T "median").map fun med => xconditionalK med m.I o
    else if m.name == "corr" then some (obsFcstK (corr T) cax m.I o g)
    else if m.name == "kge" then some (obsFcstK (kge T) cax m.I o g)
    else do
      let aggf ← Driver.Det.aggByName T m.agg
      let _ ← Gen.Det.eval T m.name aggf [] []
      some (obsFcstK (fun a b => (Gen.Det.eval T m.name aggf a b).getD .nan) cax m.I o g)
  | [x] =>
    if m.name == "countobs" || m.name == "countfcst" then some (countK m.I x) else none
  | _ => none

def contKernel (T : Tr) (m : MReq) (cols : List Vec) : Option XR :=
  match cols with
  | [o, g] => contScore T m.name m.I m.I o g
  | _ => none

/-- `get_p` after `get_scores`: event indicator of the observation, `p1 − p0` -/
def obsAndP (I : Interval) (cols : List Vec) : Option (Vec × Vec) :=
  match I.lower.isInf, I.upper.isInf, cols with
  | false, false, [o, a, b] => some (List.map (Prob.obsP I) o, List.zipWith (Prob.eventProb I) a b)
  | false, true, [o, a] => some (List.map (Prob.obsP I) o, List.map (fun x => Prob.eventProb I x .nan) a)
  | true, false, [o, b] => some (List.map (Prob.obsP I) o, List.map (fun x => Prob.eventProb I .nan x) b)
  | _, _, _ => none

def probKernel (T : Tr) (m : MReq) (cols : List Vec) : Option XR :=
  let I := m.I
  let fam := fun (k : Vec → Vec → XR) => (obsAndP I cols).map fun op => k op.1 op.2
  match m.name with
  | "bs" => fam (Prob.bs T)
  | "bsrel" => fam Prob.bsrel
  | "bsres" => fam Prob.bsres
  | "bsunc" => fam (Prob.bsunc T)
  | "bss" => fam (Prob.bss T)
  | "bssrel" => fam Prob.bssrel
  | "bssres" => fam Prob.bssres
  | "ign0" => fam (Prob.ign0 T)
  | "spherical" => fam (Prob.spherical T)
  | "marginalratio" => fam Prob.marginalRatio
  | "quantilescore" =>
    match cols with
    | [o, q] => some (Prob.quantileScore T I.lower o q)
    | _ => none
  | "quantilecoverage" =>
    match I.lower.isInf, I.upper.isInf, cols with
    | true, false, [o, q1] => some (Prob.coverage I false true o q1 q1)
    | false, true, [o, q0] => some (Prob.coverage I true false o q0 q0)
    | false, false, [o, q0, q1] => some (Prob.coverage I true true o q0 q1)
    | _, _, _ => none
  | "spread" =>
    match cols with
    | [q0, q1] => some (Prob.spread q0 q1)
    | _ => none
  | "spreadskillratio" =>
    match cols with
    | [q0, q1, f, o] => some (Prob.spreadSkill T m.numStd q0 q1 f o)
    | _ => none
  | "quantile" | "threshold" =>
    match cols with
    | [q0, q1] => some (Vec.mean (Vec.sub q1 q0))
    | [q] => some (Vec.mean q)
    | _ => none
  | "pit" =>
    match cols with
    | [v] => (Driver.Det.aggByName T m.agg).map fun aggf => aggf v
    | _ => none
  | "pithistdev" =>
    match cols with
    | [v] => some (Prob.pitHistDev T v)
    | _ => none
  | "pithistslope" =>
    match cols with
    | [v] => some (Prob.pitHistSlope v)
    | _ => none
  | "pithistshape" =>
    match cols with
    | [v] => some (Prob.pitHistShape v)
    | _ => none
  | _ => none

def kernel (T : Tr) (m : MReq) (axis : String) (cols : List Vec) : Option XR :=
  if m.family == "det" then detKernel T m axis cols
  else if m.family == "cont" then contKernel T m cols
  else if m.family == "prob" then probKernel T m cols
  else none

/-! ### `compute_single` = one `get_scores` request, then the kernel -/

/-- the model of `Metric.compute_single(data, i, axis, k, interval)` on the model `D` of `data`,
`sel` being the selection (axis, k) names -/
def scoreOf (T : Tr) (m : MReq) (axis : String) (D : DataS) (i : Nat) (sel : Sel) : Except String XR :=
  match fieldNames m axis with
  | none => .error "metric"
  | some fs =>
    match D.getScores { fields := fs, input := i, sel := sel } with
    | .error e => .error e
    | .ok cols =>
      match kernel T m axis cols with
      | none => .error "kernel"
      | some v => .ok v

/-! ### axes: `get_axis_size`, `_apply_axis` -/

/-- lift a bucket function on rationals to coordinate values (non-finite values are their own bucket) -/
def liftQ (f : Rat → Rat) (t : XR) : XR :=
  match t with
  | .fin q => .fin (f q)
  | x => x

inductive AxisShape where
  | pooled                         -- no, threshold, obs, fcst
  | byTime
  | byLoc
  | timeBucket (f : XR → XR)
  | leadBucket (g : XR → XR)

def timeFn (k : Axis.Kind) : Option (XR → XR) :=
  k.timeBucket?.map fun f => liftQ fun q => f q.floor

def shapeOf (axis : String) : Option AxisShape :=
  match axis with
  | "no" | "threshold" | "obs" | "fcst" => some .pooled
  | "time" => some .byTime
  | "location" | "lat" | "lon" | "elev" => some .byLoc
  | "leadtime" => some (.leadBucket id)
  | "leadtimeday" => some (.leadBucket Driver.Data.leadDay)
  | "day" => some (.timeBucket dayStart)
  | "timeofday" => some (.timeBucket hourOfDay)
  | "month" => (timeFn .month).map .timeBucket
  | "year" => (timeFn .year).map .timeBucket
  | "week" => (timeFn .week).map .timeBucket
  | "monthofyear" => (timeFn .monthofyear).map .timeBucket
  | "dayofmonth" => (timeFn .dayofmonth).map .timeBucket
  | "dayofyear" => (timeFn .dayofyear).map .timeBucket
  | _ => none

/-- `get_axis_size(axis)` -/
def sizeOfShape (times leads : List XR) (nlocs : Nat) : AxisShape → Nat
  | .pooled => 1
  | .byTime => times.length
  | .byLoc => nlocs
  | .timeBucket f => (sortU (times.map f)).length
  | .leadBucket g => (sortU (leads.map g)).length

/-- `_apply_axis(…, axis, k)` as a selection -/
def selOfShape (times leads : List XR) : AxisShape → Nat → Sel
  | .pooled, _ => .none
  | .byTime, k => .time k
  | .byLoc, k => .loc k
  | .timeBucket f, k => .times (groupIdx (times.map f) k)
  | .leadBucket g, k => .leads (groupIdx (leads.map g) k)

/-- one selection per slice of the axis -/
def axisSels (times leads : List XR) (nlocs : Nat) (s : AxisShape) : List Sel :=
  (List.range (sizeOfShape times leads nlocs s)).map (selOfShape times leads s)

/-! ### the op -/

def parseMReq? (family : String) (s : String) : Option MReq :=
  match family, s.splitOn "~" with
  | "cont", [name, b, t, u] => do
      let b ← BinType.ofName? b
      some { family := family, name := name, I := intervalOf b (← parseXR? t) (← parseXR? u) }
  | _, [name, agg, iv] => do
      some { family := family, name := name, agg := agg, I := ← Driver.Cont.parseInterval? iv }
  | _, [name, agg, iv, ns] => do
      some { family := family, name := name, agg := agg, I := ← Driver.Cont.parseInterval? iv,
             numStd := ← parseXR? ns }
  | _, _ => none

def showRes : Except String XR → String
  | .ok v => toString v
  | .error _ => "ERR"

/-- one request on the dataset: resolve the probabilistic fields, build `Data`, `compute_single` (index `k`)
or `compute` (index `*`: every slice of the axis) -/
def runReq (family : String) (scored : List Input) (cfg : Cfg) (s : String) : String :=
  match s.splitOn "@" with
  | [ms, i, axis, k] =>
    match parseMReq? family ms, i.toNat?, shapeOf axis with
    | some m, some i, some shape =>
      let refs := (fieldRefs m axis).getD []
      let scored' := scored.map (resolveInput refs)
      let cfg' := { cfg with clim := cfg.clim.map (resolveInput refs) }
      if !(Spec.DataCoord.allInputs scored' cfg').all Spec.DataCoord.wfInput then "HYP"
      else match Data.init scored' cfg' with
      | .error _ => "ERR init"
      | .ok D =>
        if k == "*" then
          let outs := (axisSels D.times D.leads D.locs.length shape).map fun sel =>
            showRes (scoreOf floatTr m axis D i sel)
          -- the loop over the slices ends at the first error exit
          if outs.isEmpty then "-" else if outs.contains "ERR" then "ERR" else ",".intercalate outs
        else
          showRes (scoreOf floatTr m axis D i (selOfShape D.times D.leads shape (k.toNat?.getD 0)))
    | _, _, _ => "ERR bad-req"
  | _ => "ERR bad-req"

def runMulti (family cfg inputs reqs : String) : Option String := do
  let ins ← (Driver.Data.splitNE inputs "#").mapM Driver.Data.parseInput?
  let hasClim := (Driver.Data.splitNE (if cfg == "-" then "" else cfg) ";").any (· == "clim=1")
  let (scored, clim) := if hasClim then (ins.dropLast, ins.getLast?) else (ins, none)
  let c ← Driver.Data.parseCfg? cfg clim
  match Data.init scored c with
  | .error _ => some "ERR init"
  | .ok _ => some (" ".intercalate ((Driver.Data.splitNE reqs ";").map (runReq family scored c)))

/-- split a token list at the separator token -/
def splitAt (sep : String) : List String → List (List String)
  | [] => [[]]
  | t :: rest =>
    match splitAt sep rest with
    | g :: gs => if t == sep then [] :: g :: gs else (t :: g) :: gs
    | [] => [[t]]

def specHandlers : List (List String → Option String) :=
  [Driver.Det.handle, Driver.Cont.handle, Driver.Prob.handle]

def handle (args : List String) : Option String :=
  match args with
  | ["mm", family, cfg, inputs, reqs] => runMulti family cfg inputs reqs
  | "mspec" :: rest =>
    some (" & ".intercalate ((splitAt "&" rest).map fun g =>
      if g == ["none"] || g.isEmpty then "-"
      else (specHandlers.findSome? fun h => h g).getD "ERR bad-op"))
  | _ => none

end VerifModel.Driver.Multi
