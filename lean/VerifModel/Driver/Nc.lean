import VerifModel.Base.Proto
import VerifModel.Model.NcAssemble
/-
  Driver ops for the NetCDF reader model (C10).

    ncvars <dims> <vars> <attrs>       what netCDF4 shows of a file → canonical dataset line (or ERR)
        dims  = name:size,…            (`-` = none)
        vars  = name~dtype~dim*dim…~cells|…      cells comma separated, `m` = masked, `-` = no cells
        attrs = key=value;…            keys long_name standard_name units x0 x1 (`-` = none; blanks as `_`)
    ncdata <dims> <vars> <attrs>       the same file under verif.data.Data (one input, no options) →
                                       T=times;L=leadtimes;X=location ids;obs=vec|ERR;fcst=vec|ERR  (the verified
                                       dimensions and get_scores(field, 0) flattened), or ERR (no valid time / …)
    text2nc <dataset>                  canonical dataset line D → canonical line of the file text2nc.py
                                       writes for D, read back (r32 = i32 = id: float32-representable data)
    detect <isNc> <validNetcdf> <validComps> <validText>   (0/1)  → netcdf | comps | text | ERR
    nctext …                           → same   (C10_same_dataset: both formats denote the same dataset)
    ncmixed …                          → same   (C10_mixed_replace: a text file and its NetCDF twin are interchangeable in one Data)

  canonical dataset line (one token, no blanks; every dimension sorted ascending — NaN last, stable —
  with the data moved along, other fields sorted by name):
    T=vec;L=vec;X=id:lat:lon:elev,…;TH=vec;Q=vec;obs=arr;fcst=arr;pit=arr;ens=arr;cdf=arr;x=arr;
    O=name=arr|…;OF=name,…;V=name|units|x0|x1
  arr = `none` or d1*d2*…@vec
-/
namespace VerifModel.Driver.Nc
open VerifModel Proto Spec

def splitNE (s : String) (sep : String) : List String :=
  if s == "-" then [] else (s.splitOn sep).filter (· ≠ "")

/-! ### canonical form -/

/-- total order used for sorting coordinates: -inf < finite < inf < nan -/
def keyLt (a b : XR) : Bool := if a.isNan then false else if b.isNan then true else XR.lt a b

def insKey (x : XR × Nat) : List (XR × Nat) → List (XR × Nat)
  | [] => [x]
  | y :: ys => if keyLt y.1 x.1 then y :: insKey x ys else x :: y :: ys

/-- stable argsort -/
def argsort (keys : List XR) : List Nat :=
  ((keys.zip (List.range keys.length)).foldr insKey []).map (·.2)

def unflat : List Nat → Nat → List Nat
  | [], _ => []
  | _ :: ds, j => (j / Arr.prod ds) :: unflat ds (j % Arr.prod ds)

/-- `np.take(a, perm, axis)` when the axis exists and has the permutation's length; else unchanged -/
def takeAxis (a : Arr) (axis : Nat) (perm : List Nat) : Arr :=
  if a.dims[axis]? == some perm.length && a.data.length == Arr.prod a.dims then
    let src := a.data.toArray
    let p := perm.toArray
    ⟨a.dims, (List.range (Arr.prod a.dims)).map fun j =>
      let idx := unflat a.dims j
      let idx' := idx.set axis (p.getD (idx.getD axis 0) 0)
      src.getD (Arr.flatIndex a.dims idx') .nan⟩
  else a

def pick {α} [Inhabited α] (l : List α) (perm : List Nat) : List α :=
  let a := l.toArray
  perm.map fun i => a.getD i default

def showArr : Option Arr → String
  | none => "none"
  | some a => "*".intercalate (a.dims.map toString) ++ "@" ++ showVec a.data

def showLoc (l : Loc) : String := s!"{l.id}:{l.lat}:{l.lon}:{l.elev}"

def showOpt : Option XR → String
  | none => "none"
  | some v => toString v

def us (s : String) : String := s.replace " " "_"

def insName (x : String × Arr) : List (String × Arr) → List (String × Arr)
  | [] => [x]
  | y :: ys => if y.1 < x.1 then y :: insName x ys else x :: y :: ys

def insStr (x : String) : List String → List String
  | [] => [x]
  | y :: ys => if y < x then y :: insStr x ys else x :: y :: ys

def canon (D : Dataset) (otherFields : List String) : String :=
  let pt := argsort D.times
  let pl := argsort D.leads
  let px := argsort (D.locs.map (·.id))
  let ph := argsort D.thresholds
  let pq := argsort D.quantiles
  let f3 := fun (a : Arr) => takeAxis (takeAxis (takeAxis a 0 pt) 1 pl) 2 px
  let others := (D.others.foldr insName []).map fun p => p.1 ++ "=" ++ showArr (some (f3 p.2))
  let locs := (pick D.locs px).map showLoc
  ";".intercalate [
    "T=" ++ showVec (pick D.times pt), "L=" ++ showVec (pick D.leads pl),
    "X=" ++ (if locs.isEmpty then "-" else ",".intercalate locs),
    "TH=" ++ showVec (pick D.thresholds ph), "Q=" ++ showVec (pick D.quantiles pq),
    "obs=" ++ showArr (D.obs.map f3), "fcst=" ++ showArr (D.fcst.map f3), "pit=" ++ showArr (D.pit.map f3),
    "ens=" ++ showArr (D.ensemble.map f3),
    "cdf=" ++ showArr (D.cdf.map fun a => takeAxis (f3 a) 3 ph),
    "x=" ++ showArr (D.x.map fun a => takeAxis (f3 a) 3 pq),
    "O=" ++ (if others.isEmpty then "-" else "|".intercalate others),
    "OF=" ++ (if otherFields.isEmpty then "-" else ",".intercalate (otherFields.foldr insStr [])),
    "V=" ++ us D.var.name ++ "|" ++ us (String.ofList D.var.units) ++ "|" ++ showOpt D.var.x0 ++ "|" ++ showOpt D.var.x1]

/-! ### parsing -/

def parseCell? (t : String) : Option NcCell :=
  if t == "m" then some .masked else (parseXR? t).map .val

def parseDims? (s : String) : Option (List (String × Nat)) :=
  (splitNE s ",").mapM fun d => match d.splitOn ":" with
    | [n, k] => k.toNat?.map fun k => (n, k)
    | _ => none

def parseVar? (dims : List (String × Nat)) (s : String) : Option (String × NcArr) :=
  match s.splitOn "~" with
  | [n, _, ds, cells] => do
      let shape := (splitNE ds "*").map fun d => (dims.lookup d).getD 0
      let cs ← (splitNE cells ",").mapM parseCell?
      some (n, ⟨shape, cs⟩)
  | _ => none

def unus (s : String) : String := s.replace "_" " "

def parseNcVars? (dims vars attrs : String) : Option NcVars := do
  let ds ← parseDims? dims
  let vs ← (splitNE vars "|").mapM (parseVar? ds)
  (splitNE attrs ";").foldlM (fun (V : NcVars) kv =>
    match kv.splitOn "=" with
    | ["long_name", v] => some { V with longName := some (unus v) }
    | ["standard_name", v] => some { V with standardName := some (unus v) }
    | ["units", v] => some { V with units := some (unus v).toList }
    | ["x0", v] => (parseXR? v).map fun x => { V with x0 := some x }
    | ["x1", v] => (parseXR? v).map fun x => { V with x1 := some x }
    | _ => none) { dims := ds, vars := vs }

def parseArr? (s : String) : Option (Option Arr) :=
  if s == "none" then some none
  else match s.splitOn "@" with
    | [ds, v] => do
        let dims ← (splitNE ds "*").mapM (·.toNat?)
        let data ← parseVec? v
        some (some ⟨dims, data⟩)
    | _ => none

def parseLoc? (s : String) : Option Loc :=
  match s.splitOn ":" with
  | [i, a, o, e] => do some ⟨← parseXR? i, ← parseXR? a, ← parseXR? o, ← parseXR? e⟩
  | _ => none

def parseOpt? (s : String) : Option (Option XR) :=
  if s == "none" then some none else (parseXR? s).map some

def field? (kvs : List (String × String)) (k : String) : Option String := kvs.lookup k

/-- key=value on the FIRST `=` (array values of other fields contain none, names neither) -/
def kv? (s : String) : Option (String × String) :=
  match s.splitOn "=" with
  | k :: rest => if rest.isEmpty then none else some (k, "=".intercalate rest)
  | [] => none

def parseDataset? (s : String) : Option Dataset := do
  let kvs ← (s.splitOn ";").mapM kv?
  let others ← (splitNE (← field? kvs "O") "|").mapM fun e => do
    let (n, a) ← kv? e
    match ← parseArr? a with
    | some arr => some (n, arr)
    | none => none
  let var ← match (← field? kvs "V").splitOn "|" with
    | [n, u, a, b] => do
        some ({ name := unus n, units := (unus u).toList, x0 := ← parseOpt? a, x1 := ← parseOpt? b } : VarMeta)
    | _ => none
  some {
    times := ← parseVec? (← field? kvs "T"), leads := ← parseVec? (← field? kvs "L"),
    locs := ← (splitNE (← field? kvs "X") ",").mapM parseLoc?,
    thresholds := ← parseVec? (← field? kvs "TH"), quantiles := ← parseVec? (← field? kvs "Q"),
    obs := ← parseArr? (← field? kvs "obs"), fcst := ← parseArr? (← field? kvs "fcst"),
    pit := ← parseArr? (← field? kvs "pit"), ensemble := ← parseArr? (← field? kvs "ens"),
    cdf := ← parseArr? (← field? kvs "cdf"), x := ← parseArr? (← field? kvs "x"),
    others := others, var := var }

/-! ### ops -/

def runNc (V : NcVars) : String :=
  match detectNc V false with
  | .ok .netcdf =>
    match ncAssemble V with
    | .ok I => canon I.dataset I.otherFields
    | .error _ => "ERR assemble"
  | _ => "ERR"

def showScores (D : DataS) (name : String) : String :=
  match D.getScores { fields := [name], input := 0, sel := .all } with
  | .ok [v] => showVec v
  | _ => "ERR"

def runNcData (V : NcVars) : String :=
  match detectNc V false with
  | .ok .netcdf =>
    match ncData V with
    | .ok D =>
      s!"T={showVec D.times};L={showVec D.leads};X={showVec (D.locs.map (·.id))};obs={showScores D "obs"};fcst={showScores D "fcst"}"
    | .error _ => "ERR"
  | _ => "ERR"

def bool? (s : String) : Option Bool :=
  if s == "1" then some true else if s == "0" then some false else none

def idRounding : Rounding := ⟨id, id⟩

def handle (args : List String) : Option String :=
  match args with
  | ["ncvars", dims, vars, attrs] => (parseNcVars? dims vars attrs).map runNc
  | ["ncdata", dims, vars, attrs] => (parseNcVars? dims vars attrs).map runNcData
  | ["text2nc", d] => (parseDataset? d).map fun D => runNc (text2nc idRounding D)
  | ["detect", a, b, c, d] => do
      match detect (← bool? a) (← bool? b) (← bool? c) (← bool? d) with
      | .ok .netcdf => some "netcdf"
      | .ok .comps => some "comps"
      | .ok .text => some "text"
      | .error _ => some "ERR"
  | "nctext" :: _ => some "same"
  | "ncmixed" :: _ => some "same"   -- implementation-only relation; theorems C10_mixed_replace / C10_mixed_reordered
  | _ => none

end VerifModel.Driver.Nc
