import VerifModel.Driver.Args
import VerifModel.Model.ThresholdDefaults
import VerifModel.Model.InputClass
/-
  Driver ops of C13 with extra tokens after `A=`:

    argv F=… C=… A=… [D=<obs>;<fcst>;<thresholds>;<quantiles>;<fields>] [B=<name>:<class>|…]
    argvbad <kind> F=… C=… A=… [D=…] [B=…]

  D = the content of the dataset the driver sees (comma vectors of `num/den` / `nan`, `-` = empty; fields
  ∈ {of, o, f, -}: which of Obs / Fcst are in `data.get_fields()`): the reply then carries the VALUES of
  `pl.thresholds` / `pl.quantiles` (`Model/ThresholdDefaults.lean`).
  B = classified files present in the working directory (`Model/InputClass.lean`).
  In C=, the token `^` between `|`-separated tokens is a line break of the config file.
-/
namespace VerifModel.Driver.ArgsData
open VerifModel Proto ParseNumbers ArgLoop ThresholdDefaults InputClass Driver.Args

def parseSummary? (s : String) : Option Summary :=
  match s.splitOn ";" with
  | [o, f, t, q, fl] => do
      let o ← parseVec? o
      let f ← parseVec? f
      let t ← parseVec? t
      let q ← parseVec? q
      some ⟨o, f, t, q, fl.toList.contains 'o', fl.toList.contains 'f'⟩
  | _ => none

def parseClasses (s : String) : List (String × String) :=
  (splitNE s "|").map fun e =>
    match e.splitOn ":" with
    | [n, c] => (n, c)
    | _ => (e, "")

/-- config files with `^` line breaks -/
def parseConfigLines (s : String) : List (String × List (List String)) :=
  (splitNE s ";").map fun e =>
    match e.splitOn "~" with
    | [n] => (n, [])
    | n :: rest => (n, splitLines "^" (splitNE ("~".intercalate rest) "|"))
    | [] => ("", [])

def runX (f c a : String) (extras : List String) : Option String :=
  if hasPrefix "F=" f && hasPrefix "C=" c && hasPrefix "A=" a then
    let d := extras.find? (hasPrefix "D=")
    let b := extras.find? (hasPrefix "B=")
    let fs0 := ofLines (splitNE (dropN 2 f) "|") (parseConfigLines (dropN 2 c))
    let fs := match b with
      | some b => withClasses fs0 (parseClasses (dropN 2 b))
      | none => fs0
    let toks := (dropN 2 a).splitOn "|" |>.filter (· ≠ "")
    match d with
    | none => some (render genTables fs toks)
    | some d =>
      match parseSummary? (dropN 2 d) with
      | some sm => some (renderD genTables fs toks sm)
      | none => none
  else none

def handle (args : List String) : Option String :=
  match args with
  | "argv" :: f :: c :: a :: x :: xs => runX f c a (x :: xs)
  | "argvbad" :: _ :: f :: c :: a :: x :: xs => runX f c a (x :: xs)
  | _ => none

end VerifModel.Driver.ArgsData
