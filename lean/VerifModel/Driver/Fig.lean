import VerifModel.Model.FigProps
/-
  Driver ops for C17 (plot appearance options).

    figprops <plot> <n> <opts>
        plot  : a plot kind of Spec.Appearance.kinds — mae | loc | time | map | rank | impact | maprank | hist | sort |
                every documented diagram (qq, scatter, …, timeseries, meteo)
        n     : number of input files (= series)
        opts  : `-` or `;`-separated `flag=value` items in command-line order; a flag without value
                carries `1`; numbers are protocol tokens (`25/2`), an rgb colour is `[r:g:b]`, `-f`
                carries the output file name
        reply : canonical FigProps line — `name=value` for every property that is set and observable
                on that plot, in the order of `Field.all` (`-` if none); on a plot kind with a time-like axis
                the x limits / x ticks are dates and are shown as the day numbers that reach the axis
                (`EXC:ValueError` if one of them is no calendar date)

    figindep <plot> <n> <opts> <flag>
        reply : the flags (other than <flag> and those that documentedly depend on it) whose property
                differs between the figure with and without <flag>, `,`-separated (`-` if none)

    figwired <plot>     reply: the flags whose property is shown on the plot kind (PlotKinds.shown, from the wiring tables)
    figroute <flag>     reply: names of the properties the flag reaches in the regenerated tables
-/
namespace VerifModel.Driver.Fig
open VerifModel FigProps
open VerifModel.Spec.Appearance (Field)

def parseOpt (item : String) : Option (String × String) :=
  match item.splitOn "=" with
  | [] => none
  | [_] => none
  | f :: rest => some (f, "=".intercalate rest)

def parseOpts (s : String) : Option Opts :=
  if s == "-" then some [] else (s.splitOn ";").mapM parseOpt

def handle (args : List String) : Option String :=
  match args with
  | ["figprops", plot, n, opts] => do
      let n ← n.toNat?
      let os ← parseOpts opts
      let c : Cfg := ⟨plot, n, os⟩
      some (render c (applyOptions c))
  | ["figindep", plot, n, opts, flag] => do
      let n ← n.toNat?
      let os ← parseOpts opts
      let c : Cfg := ⟨plot, n, os⟩
      let c' : Cfg := ⟨plot, n, os.filter fun o => o.1 != flag⟩
      let keep := (os.map (·.1)).filter fun o =>
        o != flag && o != "-f" && !(Spec.Appearance.dependsOn.contains (o, flag))
      let d := differing c c' keep
      some (if d.isEmpty then "-" else ",".intercalate d)
  | ["figwired", plot] =>
      -- the documented flags whose property the model of the code (composed from the regenerated wiring tables:
      -- PlotKinds.shown) shows on this plot kind
      let fl := (Spec.Appearance.table.filter fun e => PlotKinds.shown plot e.field).map (·.flag)
      some (if (Spec.Appearance.kindOf plot).isNone then "ERR" else if fl.isEmpty then "-" else ",".intercalate fl)
  | ["figroute", flag] =>
      let r := route flag
      some (if r.isEmpty then "-" else ",".intercalate (r.map (·.name)))
  | _ => none

end VerifModel.Driver.Fig
