import VerifModel.Base.XR
import VerifModel.Base.Tr
import VerifModel.Model.Interval
import VerifModel.Spec.Events
