import VerifModel.Base.XR
import VerifModel.Base.Tr
import VerifModel.Model.Interval
import VerifModel.Spec.Events
import VerifModel.Base.Arr
import VerifModel.Model.Aggregator
import VerifModel.Model.Preagg
import VerifModel.Spec.Stats
