import VerifModel.Model.TextInput
import VerifModel.Spec.Table
import Proofs.Lemmas.TextInput
/-
  C09 — Text input files are read faithfully.
-/
namespace VerifModel.C09
open VerifModel TextInput Spec

/-! ### columns of a rendered file -/

private theorem filter_key_mem {α β} [BEq β] [LawfulBEq β] (f : α → β) (l : List α)
    (hn : (l.map f).Nodup) (c : α) (hc : c ∈ l) : l.filter (fun x => f x == f c) = [c] := by
  induction l with
  | nil => simp at hc
  | cons a t ih =>
    simp only [List.map_cons, List.nodup_cons, List.mem_map, not_exists, not_and] at hn
    rcases List.mem_cons.1 hc with rfl | hc'
    · have : t.filter (fun x => f x == f c) = [] := by
        rw [List.filter_eq_nil_iff]
        intro x hx h
        exact hn.1 x hx (by simpa using h)
      simp [this]
    · have hne : f a ≠ f c := fun e => hn.1 c hc' e.symm
      simp [hne, ih hn.2 hc']

private theorem getCol_render (T : Table) (L : Layout) (r : Case × Row) (key : List Char) :
    getCol (headerLine L) (dataLine T L r) key =
      ((L.cols.filter (fun c => colKey c == key)).getLast?).map (cellTok T L r) := by
  unfold getCol headerLine dataLine
  rw [List.zip_map', List.filter_map, List.getLast?_map, Option.map_map]
  rfl

private theorem getCol_iff (T : Table) (L : Layout) (hn : (L.cols.map colKey).Nodup)
    (r : Case × Row) (key : List Char) (t : Tok) :
    getCol (headerLine L) (dataLine T L r) key = some t ↔
      ∃ c ∈ L.cols, colKey c = key ∧ t = cellTok T L r c := by
  rw [getCol_render]
  constructor
  · intro h
    cases hl : (L.cols.filter (fun c => colKey c == key)).getLast? with
    | none => rw [hl] at h; simp at h
    | some c =>
      rw [hl] at h
      have hm := List.mem_of_getLast? hl
      rw [List.mem_filter] at hm
      exact ⟨c, hm.1, by simpa using hm.2, by simpa using h.symm⟩
  · rintro ⟨c, hc, rfl, rfl⟩
    rw [filter_key_mem colKey L.cols hn c hc]; rfl

private theorem getCol_none (T : Table) (L : Layout) (r : Case × Row) (key : List Char)
    (h : ∀ c ∈ L.cols, colKey c ≠ key) :
    getCol (headerLine L) (dataLine T L r) key = none := by
  rw [getCol_render]
  have : L.cols.filter (fun c => colKey c == key) = [] := by
    rw [List.filter_eq_nil_iff]; intro c hc h'; exact h c hc (by simpa using h')
  rw [this]; rfl

/-! ### classification of header words -/

def coordNames : List (List Char) :=
  [sDate, sHour, sUnixtime, sLeadtime, sOffset, sLocation, sId, sLat, sLon, sAltitude, sElev]

private theorem head_ne {n m : List Char} {c : Char} (h : n.head? = some c) (hm : m.head? ≠ some c) :
    n ≠ m := by
  intro e; subst e; exact hm h

/-- a data column's header word is none of the coordinate names and is not renamed -/
private theorem fld_name (f : Field) (w : Word) (h : wordOK f w) :
    w.name ∉ coordNames ∧ normName w.name = w.name := by
  have key : w.name ∉ coordNames → normName w.name = w.name := by
    intro hn
    have : w.name ≠ sOffset := fun e => hn (by rw [e]; decide)
    simp [normName, this]
  suffices w.name ∉ coordNames from ⟨this, key this⟩
  cases f with
  | obs => simp only [wordOK] at h; rw [h]; decide
  | fcst => simp only [wordOK] at h; rw [h]; decide
  | pit => simp only [wordOK] at h; rw [h.1]; decide
  | thr v =>
    intro hm
    simp only [coordNames, List.mem_cons, List.not_mem_nil, or_false] at hm
    rcases hm with e | e | e | e | e | e | e | e | e | e | e <;>
      exact head_ne h.1 (by decide) e
  | qtl v =>
    intro hm
    simp only [coordNames, List.mem_cons, List.not_mem_nil, or_false] at hm
    rcases hm with e | e | e | e | e | e | e | e | e | e | e <;>
      exact head_ne h.1 (by decide) e
  | ens v =>
    intro hm
    simp only [coordNames, List.mem_cons, List.not_mem_nil, or_false] at hm
    rcases hm with e | e | e | e | e | e | e | e | e | e | e <;>
      first
      | exact head_ne h.1 (by decide) e
      | exact h.2.1 e
  | other n =>
    obtain ⟨h1, h2, _⟩ := h
    rw [h1]
    intro hm
    apply h2
    simp only [coordNames, List.mem_cons, List.not_mem_nil, or_false] at hm
    rcases hm with e | e | e | e | e | e | e | e | e | e | e <;> (rw [e]; decide)


def isFixed : Col → Bool
  | .fld _ _ => false
  | _ => true

def aliasOf : Col → Col
  | .leadtime => .offset
  | .offset => .leadtime
  | c => c

private theorem colKey_fld {f : Field} {w : Word} (h : wordOK f w) : colKey (.fld f w) = w.name :=
  (fld_name f w h).2

private theorem colKey_fixed_mem (k : Col) (hk : isFixed k = true) : colKey k ∈ coordNames := by
  cases k <;> first | decide | simp [isFixed] at hk

private theorem key_fixed (c k : Col) (hc : colOK c) (hk : isFixed k = true)
    (h : colKey c = colKey k) : c = k ∨ c = aliasOf k := by
  cases c with
  | fld f w =>
    exfalso
    have := fld_name f w hc
    rw [colKey_fld hc] at h
    exact this.1 (h ▸ colKey_fixed_mem k hk)
  | _ => cases k <;> first | (simp [isFixed] at hk; done) | (revert h; decide)

private theorem getCol_fixed {T : Table} {L : Layout} (h : WF T L) (r : Case × Row) (k : Col)
    (hk : isFixed k = true) :
    getCol (headerLine L) (dataLine T L r) (colKey k) =
      if k ∈ L.cols then some (cellTok T L r k)
      else if aliasOf k ∈ L.cols then some (cellTok T L r (aliasOf k)) else none := by
  by_cases h1 : k ∈ L.cols
  · rw [if_pos h1]; exact (getCol_iff T L h.keys_nodup r _ _).2 ⟨k, h1, rfl, rfl⟩
  · rw [if_neg h1]
    by_cases h2 : aliasOf k ∈ L.cols
    · rw [if_pos h2]
      refine (getCol_iff T L h.keys_nodup r _ _).2 ⟨aliasOf k, h2, ?_, rfl⟩
      cases k <;> rfl
    · rw [if_neg h2]
      apply getCol_none
      intro c hc e
      rcases key_fixed c k (h.cols_ok c hc) hk e with rfl | rfl
      · exact h1 hc
      · exact h2 hc

/-! ### values -/

/-- a number that is none of the missing-value encodings (not -999, not above 1e30) reads as itself -/
private theorem clean_num (q : Rat) (h : numOK q) : cleanTok (.num q) = .fin q := by
  have h2 : ¬ big < q := Rat.not_lt.2 h.2
  simp [cleanTok, h.1, h2]

/-- the tokens the spec calls missing-value tokens are exactly those the reader cleans to NaN -/
theorem isMissTok_iff (t : Tok) : isMissTok t ↔ cleanTok t = .nan := by
  cases t with
  | num q =>
    show (q = -999 ∨ big < q) ↔ (if q = -999 ∨ big < q then XR.nan else XR.fin q) = XR.nan
    constructor
    · intro h; rw [if_pos h]
    · intro h; by_contra hn; rw [if_neg hn] at h; cases h
  | nan => simp [isMissTok, cleanTok]
  | inf => simp [isMissTok, cleanTok]
  | ninf => simp [isMissTok, cleanTok]
  | bad s => simp [isMissTok, cleanTok]

private theorem clean_render (v : XR) (m : Tok) (hv : valOK v) (hm : isMissTok m) :
    cleanTok (renderVal v m) = v := by
  cases v with
  | fin q => exact clean_num q hv
  | pinf => exact absurd hv (by simp [valOK])
  | ninf => rfl
  | nan => exact (isMissTok_iff m).1 hm

/-- a metadata cell reads as its value; a missing-value token reads as missing (NaN) -/
private theorem clean_meta (o : Option Rat) (m : Tok) (ho : metaOK o) (hm : isMissTok m) :
    cleanTok (metaTok o m) = metaVal o := by
  cases o with
  | none =>
    have : cleanTok m = .nan := (isMissTok_iff m).1 hm
    simp [metaTok, metaVal, this]
  | some q =>
    simp [metaTok, metaVal, clean_num q ho]

/-! ### one rendered data row -/

section Row
variable {T : Table} {L : Layout} (h : WF T L) (r : Case × Row) (hr : r ∈ T.rows)
include h hr

private theorem rowTime_render :
    rowTime (getCol (headerLine L) (dataLine T L r)) = some (.fin r.1.time) := by
  have e1 : sDate = colKey Col.date := by decide
  have e2 : sHour = colKey Col.hour := by decide
  have e3 : sUnixtime = colKey Col.unixtime := by decide
  have ht := h.time_ok r hr
  unfold rowTime
  rw [e1, e2, e3, getCol_fixed h r _ rfl, getCol_fixed h r _ rfl, getCol_fixed h r _ rfl]
  simp only [aliasOf]
  unfold timeOK at ht
  by_cases hd : Col.date ∈ L.cols
  · rw [if_pos hd] at ht
    obtain ⟨ut, hu, hpos, hrest⟩ := ht
    have hne : numOK ((L.dateOf r.1 : Nat) : Rat) := by
      refine ⟨?_, ?_⟩
      · have : (0 : Rat) ≤ (L.dateOf r.1 : Nat) := Nat.cast_nonneg _
        intro e; rw [e] at this; exact absurd this (by decide)
      · -- a valid date has a year ≤ 9999: far below 1e30
        have hv : L.dateOf r.1 < 100000000 := by
          unfold Cal.unixOfDate at hu
          by_cases hy : Cal.validYMD (L.dateOf r.1 / 10000) (L.dateOf r.1 / 100 % 100) (L.dateOf r.1 % 100) = true
          · simp only [Cal.validYMD, Bool.and_eq_true, decide_eq_true_eq] at hy
            omega
          · simp [hy] at hu
        have : ((L.dateOf r.1 : Nat) : Rat) ≤ ((100000000 : Nat) : Rat) := by
          exact_mod_cast hv.le
        exact le_trans this (by unfold maxNum; norm_num)
    have hdu : dateToUnix (.fin ((L.dateOf r.1 : Nat) : Rat)) = some ut := by
      have : ¬ (L.dateOf r.1 = 0) := by omega
      simp [dateToUnix, Rat.num_natCast, Rat.den_natCast, this, hu]
    by_cases hh : Col.hour ∈ L.cols
    · rw [if_pos hh] at hrest
      simp [hd, hh, cellTok, clean_num _ hne, hdu, clean_num _ hrest.2, XR.isNan]
      rw [← hrest.1]; rfl
    · rw [if_neg hh] at hrest
      simp [hd, hh, cellTok, clean_num _ hne, hdu, XR.isNan]
      rw [← hrest]
  · rw [if_neg hd] at ht
    by_cases hu : Col.unixtime ∈ L.cols
    · rw [if_pos hu] at ht
      simp [hd, hu, cellTok, clean_num _ ht]
    · rw [if_neg hu] at ht
      simp [hd, hu, ht]

private theorem rowLead_render :
    rowLead (getCol (headerLine L) (dataLine T L r)) = .fin r.1.lead := by
  have e1 : sLeadtime = colKey Col.leadtime := by decide
  have ht := h.lead_ok r hr
  unfold rowLead
  rw [e1, getCol_fixed h r _ rfl]
  unfold leadOK at ht
  simp only [aliasOf]
  by_cases h1 : Col.leadtime ∈ L.cols
  · rw [if_pos (Or.inl h1)] at ht
    simp [h1, cellTok, clean_num _ ht]
  · by_cases h2 : Col.offset ∈ L.cols
    · rw [if_pos (Or.inr h2)] at ht
      simp [h1, h2, cellTok, clean_num _ ht]
    · rw [if_neg (by tauto)] at ht
      simp [h1, h2, ht]

private theorem rowId_render :
    rowId (getCol (headerLine L) (dataLine T L r)) =
      if hasIdCol L then .fin r.1.loc else .nan := by
  have e1 : sLocation = colKey Col.location := by decide
  have e2 : sId = colKey Col.id := by decide
  have ht := h.id_ok r hr
  unfold rowId hasIdCol
  rw [e1, e2, getCol_fixed h r _ rfl, getCol_fixed h r _ rfl]
  simp only [aliasOf]
  by_cases h1 : Col.location ∈ L.cols
  · simp [h1, cellTok, clean_num _ ht]
  · by_cases h2 : Col.id ∈ L.cols
    · simp [h1, h2, cellTok, clean_num _ ht]
    · simp [h1, h2]

private theorem rowLat_render :
    (rowMeta (getCol (headerLine L) (dataLine T L r)) sLat) =
      if Col.lat ∈ L.cols then metaVal (T.station r.1.loc).lat else .fin 0 := by
  have e1 : sLat = colKey Col.lat := by decide
  have ht := (h.meta_ok r hr).1
  unfold rowMeta
  rw [e1, getCol_fixed h r _ rfl]
  simp only [aliasOf]
  by_cases h1 : Col.lat ∈ L.cols
  · simp [h1, cellTok, clean_meta _ _ ht (h.missMeta_ok _ _)]
  · simp [h1]

private theorem rowLon_render :
    (rowMeta (getCol (headerLine L) (dataLine T L r)) sLon) =
      if Col.lon ∈ L.cols then metaVal (T.station r.1.loc).lon else .fin 0 := by
  have e1 : sLon = colKey Col.lon := by decide
  have ht := (h.meta_ok r hr).2.1
  unfold rowMeta
  rw [e1, getCol_fixed h r _ rfl]
  simp only [aliasOf]
  by_cases h1 : Col.lon ∈ L.cols
  · simp [h1, cellTok, clean_meta _ _ ht (h.missMeta_ok _ _)]
  · simp [h1]

private theorem rowElev_render :
    (rowElev (getCol (headerLine L) (dataLine T L r))) =
      if Col.altitude ∈ L.cols ∨ Col.elev ∈ L.cols then metaVal (T.station r.1.loc).elev
      else .fin 0 := by
  have e1 : sAltitude = colKey Col.altitude := by decide
  have e2 : sElev = colKey Col.elev := by decide
  have ht := (h.meta_ok r hr).2.2
  unfold rowElev
  rw [e1, e2, getCol_fixed h r _ rfl, getCol_fixed h r _ rfl]
  simp only [aliasOf]
  by_cases h1 : Col.altitude ∈ L.cols
  · simp [h1, cellTok, clean_meta _ _ ht (h.missMeta_ok _ _)]
  · by_cases h2 : Col.elev ∈ L.cols
    · simp [h1, h2, cellTok, clean_meta _ _ ht (h.missMeta_ok _ _)]
    · simp [h1, h2]

end Row


/-! ### classification of the header words of a well-formed layout -/

def kindQ : Field → Bool | .qtl _ => true | _ => false
def kindE : Field → Bool | .ens _ => true | _ => false
def kindP : Field → Bool | .thr _ => true | _ => false
def kindO : Field → Bool | .other _ => true | .pit => true | _ => false

private theorem sw_lit (c : Char) (w : Word) (n : List Char) (hn : w.name = n) :
    startsWith c w = (n.head? == some c) := by
  simp [startsWith, hn]

private theorem sw_head (c d : Char) (w : Word) (hn : w.name.head? = some d) :
    startsWith c w = (d == c) := by
  simp [startsWith, hn]

private theorem cls_fixed (c : Col) (hc : isFixed c = true) :
    isQ (colWord c) = false ∧ isE (colWord c) = false ∧ isP (colWord c) = false ∧
      isOther (colWord c) = false := by
  cases c <;> first | (simp [isFixed] at hc; done) | decide

private theorem cls_fld (f : Field) (w : Word) (h : wordOK f w) :
    isQ w = kindQ f ∧ isE w = kindE f ∧ isP w = kindP f ∧ isOther w = kindO f := by
  cases f with
  | obs =>
    simp only [wordOK] at h
    have r : isRegular w = true := by simp only [isRegular, h]; decide
    simp only [isQ, isE, isP, isOther, sw_lit _ w _ h, r, kindQ, kindE, kindP, kindO]
    refine ⟨?_, ?_, ?_, ?_⟩ <;> simp
  | fcst =>
    simp only [wordOK] at h
    have r : isRegular w = true := by simp only [isRegular, h]; decide
    simp only [isQ, isE, isP, isOther, sw_lit _ w _ h, r, kindQ, kindE, kindP, kindO]
    refine ⟨?_, ?_, ?_, ?_⟩ <;> simp
  | pit =>
    simp only [wordOK] at h
    obtain ⟨h, hs⟩ := h
    have r : isRegular w = false := by simp only [isRegular, h]; decide
    have l : decide (w.name.length > 1) = true := by rw [h]; decide
    simp only [isQ, isE, isP, isOther, sw_lit _ w _ h, r, hs, kindQ, kindE, kindP, kindO, h]
    refine ⟨?_, ?_, ?_, ?_⟩ <;> simp
  | thr v =>
    obtain ⟨h1, h2, h3, h4⟩ := h
    have l : decide (w.name.length > 1) = true := by simpa using h3
    have n : w.sfx.isNumber = true := by rw [h4]; rfl
    have p : (w.name != sPit) = true := by rw [bne_iff_ne]; exact h2
    simp [isQ, isE, isP, isOther, sw_head _ _ w h1, l, n, p, kindQ, kindE, kindP, kindO]
  | qtl v =>
    obtain ⟨h1, h3, h4⟩ := h
    have l : decide (w.name.length > 1) = true := by simpa using h3
    have n : w.sfx.isNumber = true := by rw [h4]; rfl
    simp [isQ, isE, isP, isOther, sw_head _ _ w h1, l, n, kindQ, kindE, kindP, kindO]
  | ens v =>
    obtain ⟨h1, h2, h3, h4⟩ := h
    have l : decide (w.name.length > 1) = true := by simpa using h3
    have n : w.sfx.isNumber = true := by rw [h4]; rfl
    have p : (w.name != sElev) = true := by rw [bne_iff_ne]; exact h2
    simp [isQ, isE, isP, isOther, sw_head _ _ w h1, l, n, p, kindQ, kindE, kindP, kindO]
  | other nm =>
    obtain ⟨h1, h2, h3, h4⟩ := h
    have r : isRegular w = false := by
      simp only [isRegular, h1]
      simpa using h2
    simp only [isQ, isE, isP, isOther, startsWith, r, kindQ, kindE, kindP, kindO, h1]
    by_cases q : nm.head? = some 'q'
    · have := h4 (Or.inr (Or.inl q)); simp [q, this]
    · by_cases pp : nm.head? = some 'p'
      · have := h4 (Or.inl pp); simp [pp, this]
      · by_cases e : nm.head? = some 'e'
        · have := h4 (Or.inr (Or.inr e)); simp [e, this]
        · simp [q, pp, e]


/-! ### the cells of one rendered row -/

/-- dictionary keys a data column feeds (a `pit` column is also stored as the other-field "pit") -/
def keysOf : Field → List FKey
  | .pit => [.pit, .other sPit]
  | f => [fkey f]

private theorem name_base (f : Field) (w : Word) (h : wordOK f w) :
    (w.name = sObs → f = .obs) ∧ (w.name = sFcst → f = .fcst) ∧ (w.name = sPit → f = .pit) := by
  cases f with
  | obs => simp only [wordOK] at h; rw [h]; decide
  | fcst => simp only [wordOK] at h; rw [h]; decide
  | pit => simp only [wordOK] at h; rw [h.1]; decide
  | thr v =>
    refine ⟨fun e => ?_, fun e => ?_, fun e => ?_⟩
    · exact absurd e (head_ne h.1 (by decide))
    · exact absurd e (head_ne h.1 (by decide))
    · exact absurd e h.2.1
  | qtl v =>
    refine ⟨fun e => ?_, fun e => ?_, fun e => ?_⟩ <;> exact absurd e (head_ne h.1 (by decide))
  | ens v =>
    refine ⟨fun e => ?_, fun e => ?_, fun e => ?_⟩ <;> exact absurd e (head_ne h.1 (by decide))
  | other nm =>
    obtain ⟨h1, h2, h3, _⟩ := h
    refine ⟨fun e => ?_, fun e => ?_, fun e => ?_⟩
    · exact absurd (by rw [← h1, e]; decide) h2
    · exact absurd (by rw [← h1, e]; decide) h2
    · exact absurd (by rw [← h1, e]; rfl) h3

private theorem not_fixed (c : Col) (hf : ¬ isFixed c = true) : ∃ f w, c = .fld f w := by
  cases c <;> first | exact ⟨_, _, rfl⟩ | exact absurd rfl hf

section Cells
variable {T : Table} {L : Layout} (h : WF T L) (r : Case × Row) (hr : r ∈ T.rows)
include h

private theorem getCol_fld (f : Field) (w : Word) (hc : Col.fld f w ∈ L.cols) :
    getCol (headerLine L) (dataLine T L r) w.name = some (renderVal (r.2 f) (L.miss r.1 f)) := by
  have := (getCol_iff T L h.keys_nodup r (colKey (.fld f w)) _).2 ⟨_, hc, rfl, rfl⟩
  rwa [colKey_fld (h.cols_ok _ hc)] at this

include hr

private theorem cell_val (f : Field) : cleanTok (renderVal (r.2 f) (L.miss r.1 f)) = r.2 f :=
  clean_render _ _ (h.val_ok r hr f) (h.miss_ok _ _)

private theorem mem_fieldCells (p : Word → Bool) (mk : Word → FKey) (kind : Field → Bool)
    (hk : ∀ f w, wordOK f w → p w = kind f) (hfix : ∀ c, isFixed c = true → p (colWord c) = false)
    (fk : FKey) (v : XR) :
    (fk, v) ∈ fieldCells (headerLine L) (dataLine T L r) p mk ↔
      ∃ f w, Col.fld f w ∈ L.cols ∧ kind f = true ∧ fk = mk w ∧ v = r.2 f := by
  unfold fieldCells
  simp only [List.mem_filterMap, List.mem_filter]
  constructor
  · rintro ⟨w, ⟨hw, hp⟩, hopt⟩
    simp only [headerLine, List.mem_map] at hw
    obtain ⟨c, hc, rfl⟩ := hw
    by_cases hf : isFixed c = true
    · rw [hfix c hf] at hp; exact absurd hp (by simp)
    · obtain ⟨f, w, rfl⟩ := not_fixed c hf
      have hok := h.cols_ok _ hc
      simp only [colWord] at hp hopt
      rw [getCol_fld h r f w hc] at hopt
      simp only [Option.map_some, Option.some.injEq, Prod.mk.injEq] at hopt
      refine ⟨f, w, hc, ?_, hopt.1.symm, ?_⟩
      · rw [← hk f w hok]; exact hp
      · rw [← hopt.2, cell_val h r hr]
  · rintro ⟨f, w, hc, hkind, rfl, rfl⟩
    refine ⟨w, ⟨?_, ?_⟩, ?_⟩
    · simp only [headerLine, List.mem_map]; exact ⟨_, hc, rfl⟩
    · rw [hk f w (h.cols_ok _ hc)]; exact hkind
    · rw [getCol_fld h r f w hc]; simp [cell_val h r hr]

private theorem base_iff (key : List Char) (f : Field) (hname : ∀ w, wordOK f w → w.name = key)
    (hkey : key ∉ coordNames ∧ normName key = key)
    (honly : ∀ f' w, wordOK f' w → w.name = key → f' = f) (v : XR) :
    (∃ t, getCol (headerLine L) (dataLine T L r) key = some t ∧ v = cleanTok t) ↔
      ∃ w, Col.fld f w ∈ L.cols ∧ v = r.2 f := by
  constructor
  · rintro ⟨t, ht, rfl⟩
    obtain ⟨c, hc, hk, rfl⟩ := (getCol_iff T L h.keys_nodup r key t).1 ht
    by_cases hf : isFixed c = true
    · exact absurd (hk ▸ colKey_fixed_mem c hf) hkey.1
    · obtain ⟨f', w, rfl⟩ := not_fixed c hf
      have hok := h.cols_ok _ hc
      rw [colKey_fld hok] at hk
      have := honly f' w hok hk
      subst this
      exact ⟨w, hc, by simp only [cellTok]; rw [cell_val h r hr]⟩
  · rintro ⟨w, hc, rfl⟩
    refine ⟨_, ?_, (cell_val h r hr f).symm⟩
    rw [← hname w (h.cols_ok _ hc)]
    exact getCol_fld h r f w hc

private theorem rowCells_render (fk : FKey) (v : XR) :
    (fk, v) ∈ rowCells (headerLine L) (dataLine T L r) ↔
      ∃ f w, Col.fld f w ∈ L.cols ∧ fk ∈ keysOf f ∧ v = r.2 f := by
  have bO := base_iff h r hr sObs .obs (fun w hw => hw) (by decide)
    (fun f' w hw e => (name_base f' w hw).1 e) v
  have bF := base_iff h r hr sFcst .fcst (fun w hw => hw) (by decide)
    (fun f' w hw e => (name_base f' w hw).2.1 e) v
  have bP := base_iff h r hr sPit .pit (fun w hw => hw.1) (by decide)
    (fun f' w hw e => (name_base f' w hw).2.2 e) v
  have mQ := mem_fieldCells h r hr isQ (fun w => .qtl (sfxVal w)) kindQ
    (fun f w hw => (cls_fld f w hw).1) (fun c hc => (cls_fixed c hc).1) fk v
  have mE := mem_fieldCells h r hr isE (fun w => .ens (sfxVal w)) kindE
    (fun f w hw => (cls_fld f w hw).2.1) (fun c hc => (cls_fixed c hc).2.1) fk v
  have mP := mem_fieldCells h r hr isP (fun w => .thr (sfxVal w)) kindP
    (fun f w hw => (cls_fld f w hw).2.2.1) (fun c hc => (cls_fixed c hc).2.2.1) fk v
  have mO := mem_fieldCells h r hr isOther (fun w => .other w.name) kindO
    (fun f w hw => (cls_fld f w hw).2.2.2) (fun c hc => (cls_fixed c hc).2.2.2) fk v
  have mB : (fk, v) ∈ baseCells (getCol (headerLine L) (dataLine T L r)) ↔
      (fk = .obs ∧ ∃ t, getCol (headerLine L) (dataLine T L r) sObs = some t ∧ v = cleanTok t) ∨
      (fk = .fcst ∧ ∃ t, getCol (headerLine L) (dataLine T L r) sFcst = some t ∧ v = cleanTok t) ∨
      (fk = .pit ∧ ∃ t, getCol (headerLine L) (dataLine T L r) sPit = some t ∧ v = cleanTok t) := by
    simp only [baseCells, List.mem_filterMap, List.mem_cons, List.not_mem_nil, or_false,
      Option.map_eq_some_iff, Prod.mk.injEq]
    constructor
    · rintro ⟨a, (rfl | rfl | rfl), t, ht, rfl, rfl⟩
      · exact Or.inl ⟨rfl, t, ht, rfl⟩
      · exact Or.inr (Or.inl ⟨rfl, t, ht, rfl⟩)
      · exact Or.inr (Or.inr ⟨rfl, t, ht, rfl⟩)
    · rintro (⟨rfl, t, ht, rfl⟩ | ⟨rfl, t, ht, rfl⟩ | ⟨rfl, t, ht, rfl⟩)
      · exact ⟨_, Or.inl rfl, t, ht, rfl, rfl⟩
      · exact ⟨_, Or.inr (Or.inl rfl), t, ht, rfl, rfl⟩
      · exact ⟨_, Or.inr (Or.inr rfl), t, ht, rfl, rfl⟩
  unfold rowCells
  simp only [List.mem_append, mB, mQ, mE, mP, mO, bO, bF, bP]
  constructor
  · rintro ((((h1 | h1) | h1) | h1) | h1)
    · rcases h1 with ⟨rfl, w, hc, rfl⟩ | ⟨rfl, w, hc, rfl⟩ | ⟨rfl, w, hc, rfl⟩
      · exact ⟨_, w, hc, by simp [keysOf, fkey], rfl⟩
      · exact ⟨_, w, hc, by simp [keysOf, fkey], rfl⟩
      · exact ⟨_, w, hc, by simp [keysOf], rfl⟩
    · obtain ⟨f, w, hc, hk, rfl, rfl⟩ := h1
      cases f <;> simp [kindQ] at hk
      have := h.cols_ok _ hc
      exact ⟨_, w, hc, by simp [keysOf, fkey, sfxVal, this.2.2, Tok.toXR?], rfl⟩
    · obtain ⟨f, w, hc, hk, rfl, rfl⟩ := h1
      cases f <;> simp [kindE] at hk
      have := h.cols_ok _ hc
      exact ⟨_, w, hc, by simp [keysOf, fkey, sfxVal, this.2.2.2, Tok.toXR?], rfl⟩
    · obtain ⟨f, w, hc, hk, rfl, rfl⟩ := h1
      cases f <;> simp [kindP] at hk
      have := h.cols_ok _ hc
      exact ⟨_, w, hc, by simp [keysOf, fkey, sfxVal, this.2.2.2, Tok.toXR?], rfl⟩
    · obtain ⟨f, w, hc, hk, rfl, rfl⟩ := h1
      have := h.cols_ok _ hc
      cases f <;> simp [kindO] at hk
      · exact ⟨_, w, hc, by show FKey.other w.name ∈ [FKey.pit, FKey.other sPit]; rw [this.1]; simp [sPit], rfl⟩
      · exact ⟨_, w, hc, by simp [keysOf, fkey, this.1], rfl⟩
  · rintro ⟨f, w, hc, hk, rfl⟩
    have hok := h.cols_ok _ hc
    cases f with
    | obs =>
      simp only [keysOf, fkey, List.mem_singleton] at hk
      exact Or.inl (Or.inl (Or.inl (Or.inl (Or.inl ⟨hk, w, hc, rfl⟩))))
    | fcst =>
      simp only [keysOf, fkey, List.mem_singleton] at hk
      exact Or.inl (Or.inl (Or.inl (Or.inl (Or.inr (Or.inl ⟨hk, w, hc, rfl⟩)))))
    | pit =>
      simp only [keysOf, List.mem_cons, List.not_mem_nil, or_false] at hk
      rcases hk with hk | hk
      · exact Or.inl (Or.inl (Or.inl (Or.inl (Or.inr (Or.inr ⟨hk, w, hc, rfl⟩)))))
      · exact Or.inr ⟨.pit, w, hc, rfl, by rw [hk, hok.1]; rfl, rfl⟩
    | qtl v =>
      simp only [keysOf, fkey, List.mem_singleton] at hk
      exact Or.inl (Or.inl (Or.inl (Or.inr ⟨_, w, hc, rfl,
        by simp [hk, sfxVal, hok.2.2, Tok.toXR?], rfl⟩)))
    | ens v =>
      simp only [keysOf, fkey, List.mem_singleton] at hk
      exact Or.inl (Or.inl (Or.inr ⟨_, w, hc, rfl,
        by simp [hk, sfxVal, hok.2.2.2, Tok.toXR?], rfl⟩))
    | thr v =>
      simp only [keysOf, fkey, List.mem_singleton] at hk
      exact Or.inl (Or.inr ⟨_, w, hc, rfl, by simp [hk, sfxVal, hok.2.2.2, Tok.toXR?], rfl⟩)
    | other nm =>
      simp only [keysOf, fkey, List.mem_singleton] at hk
      exact Or.inr ⟨_, w, hc, rfl, by rw [hk, hok.1], rfl⟩

end Cells


/-! ### a whole rendered row -/

private theorem parseRow_render {T : Table} {L : Layout} (h : WF T L) (r : Case × Row)
    (hr : r ∈ T.rows) :
    ∃ p, parseRow (headerLine L) (dataLine T L r) = .ok p ∧ p.time = .fin r.1.time ∧
      p.lead = .fin r.1.lead ∧ p.id = (if hasIdCol L then .fin r.1.loc else .nan) ∧
      own p = locOf T L r.1.loc ∧ p.cells = rowCells (headerLine L) (dataLine T L r) := by
  have hl : ¬ (dataLine T L r).length ≠ (headerLine L).length := by simp [dataLine, headerLine]
  unfold parseRow
  rw [if_neg hl]
  simp only [rowTime_render h r hr]
  refine ⟨_, rfl, rfl, rowLead_render h r hr, rowId_render h r hr, ?_, rfl⟩
  simp only [own, locOf, rowId_render h r hr, rowLat_render h r hr, rowLon_render h r hr,
    rowElev_render h r hr]

/-! ### comment lines -/

private theorem flat_comment (bs : List (List (List Word))) :
    rows ((bs.map (·.map Line.comment)).flatten) = [] ∧
      comments ((bs.map (·.map Line.comment)).flatten) = bs.flatten := by
  induction bs with
  | nil => exact ⟨rfl, rfl⟩
  | cons b bs ih =>
    simp [rows_append, comments_append, rows_comment, comments_comment, ih.1, ih.2]

private theorem weave_lines (bs : List (List (List Word))) (ws : List (List Word)) :
    rows (weave (bs.map (·.map Line.comment)) (ws.map Line.row)) = ws ∧
      comments (weave (bs.map (·.map Line.comment)) (ws.map Line.row)) = bs.flatten := by
  induction bs generalizing ws with
  | nil => simp [weave, rows_row, comments_row]
  | cons b bs ih =>
    cases ws with
    | nil =>
      have := flat_comment bs
      simp [weave, rows_append, comments_append, rows_comment, comments_comment, this.1, this.2]
    | cons w ws =>
      have := ih ws
      simp [weave, rows_append, comments_append, rows_comment, comments_comment, rows, comments,
        this.1, this.2]

/-- what the table says about the variable -/
def metaOfTable (T : Table) : Meta :=
  ⟨T.varName, T.varUnits, T.x0.map XR.fin, T.x1.map XR.fin⟩

def upd (T : Table) : Cmt → Meta → Meta
  | .varName, m => match T.varName with | some ws => { m with name := some ws } | none => m
  | .units, m => match T.varUnits with | some ws => { m with units := some ws } | none => m
  | .x0 _, m => match T.x0 with | some q => { m with x0 := some (.fin q) } | none => m
  | .x1 _, m => match T.x1 with | some q => { m with x1 := some (.fin q) } | none => m
  | .other _, m => m

private theorem map_nameWord : ((fun x : Word => x.name) ∘ nameWord) = id := rfl

private theorem meta_flat (T : Table) (cs : List Cmt) (hok : ∀ c ∈ cs, cmtOK c) (m : Meta) :
    metaOf m (cs.flatMap (cmtLines T)) = some (cs.foldl (fun m c => upd T c m) m) := by
  induction cs generalizing m with
  | nil => rfl
  | cons c cs ih =>
    have ih' := fun m => ih (fun c hc => hok c (by simp [hc])) m
    have hc := hok c (by simp)
    simp only [List.flatMap_cons, List.foldl_cons]
    cases c with
    | varName =>
      cases hv : T.varName with
      | none =>
        have hu : upd T Cmt.varName m = m := by simp [upd, hv]
        rw [hu]; simp [cmtLines, hv, ih']
      | some ws =>
        have hu : upd T Cmt.varName m = { m with name := some ws } := by simp [upd, hv]
        have : (fixedWord "variable:").name = sVariable := rfl
        rw [hu]; simp [cmtLines, hv, metaOf, Meta.step, this, map_nameWord, ih']
    | units =>
      cases hv : T.varUnits with
      | none =>
        have hu : upd T Cmt.units m = m := by simp [upd, hv]
        rw [hu]; simp [cmtLines, hv, ih']
      | some ws =>
        have hu : upd T Cmt.units m = { m with units := some ws } := by simp [upd, hv]
        have e : (fixedWord "units:").name = sUnits := rfl
        have n1 : sUnits ≠ sVariable := by decide
        rw [hu]; simp [cmtLines, hv, metaOf, Meta.step, e, n1, map_nameWord, ih']
    | x0 ex =>
      cases hv : T.x0 with
      | none =>
        have hu : upd T (Cmt.x0 ex) m = m := by simp [upd, hv]
        rw [hu]; simp [cmtLines, hv, ih']
      | some q =>
        have hu : upd T (Cmt.x0 ex) m = { m with x0 := some (.fin q) } := by simp [upd, hv]
        have e : (fixedWord "x0:").name = sX0 := rfl
        have n1 : sX0 ≠ sVariable := by decide
        have n2 : sX0 ≠ sUnits := by decide
        rw [hu]; simp [cmtLines, hv, metaOf, Meta.step, e, n1, n2, Tok.toXR?, ih']
    | x1 ex =>
      cases hv : T.x1 with
      | none =>
        have hu : upd T (Cmt.x1 ex) m = m := by simp [upd, hv]
        rw [hu]; simp [cmtLines, hv, ih']
      | some q =>
        have hu : upd T (Cmt.x1 ex) m = { m with x1 := some (.fin q) } := by simp [upd, hv]
        have e : (fixedWord "x1:").name = sX1 := rfl
        have n1 : sX1 ≠ sVariable := by decide
        have n2 : sX1 ≠ sUnits := by decide
        have n3 : sX1 ≠ sX0 := by decide
        rw [hu]; simp [cmtLines, hv, metaOf, Meta.step, e, n1, n2, n3, Tok.toXR?, ih']
    | other ws =>
      obtain ⟨w, rest, rfl, hw⟩ := hc
      have hu : upd T (Cmt.other (w :: rest)) m = m := rfl
      have n1 : w.name ≠ sVariable := fun e => hw (by rw [e]; decide)
      have n2 : w.name ≠ sUnits := fun e => hw (by rw [e]; decide)
      have n3 : w.name ≠ sX0 := fun e => hw (by rw [e]; decide)
      have n4 : w.name ≠ sX1 := fun e => hw (by rw [e]; decide)
      rw [hu]; simp [cmtLines, metaOf, Meta.step, n1, n2, n3, n4, ih']

open Classical in
private theorem fold_meta (T : Table) (cs : List Cmt) (m : Meta) :
    (cs.foldl (fun m c => upd T c m) m).name =
        (if Cmt.varName ∈ cs then (T.varName <|> m.name) else m.name) ∧
    (cs.foldl (fun m c => upd T c m) m).units =
        (if Cmt.units ∈ cs then (T.varUnits <|> m.units) else m.units) ∧
    (cs.foldl (fun m c => upd T c m) m).x0 =
        (if ∃ e, Cmt.x0 e ∈ cs then (T.x0.map XR.fin <|> m.x0) else m.x0) ∧
    (cs.foldl (fun m c => upd T c m) m).x1 =
        (if ∃ e, Cmt.x1 e ∈ cs then (T.x1.map XR.fin <|> m.x1) else m.x1) := by
  induction cs generalizing m with
  | nil => simp
  | cons c cs ih =>
    obtain ⟨i1, i2, i3, i4⟩ := ih (upd T c m)
    simp only [List.foldl_cons, i1, i2, i3, i4]
    cases c with
    | varName => cases hv : T.varName <;> simp [upd, hv]
    | units => cases hv : T.varUnits <;> simp [upd, hv]
    | x0 ex =>
      cases hv : T.x0 <;> simp [upd, hv]
    | x1 ex =>
      cases hv : T.x1 <;> simp [upd, hv]
    | other ws => simp [upd]

open Classical in
private theorem meta_render {T : Table} {L : Layout} (h : WF T L) :
    metaOf {} (L.blocks.flatten.flatMap (cmtLines T)) = some (metaOfTable T) := by
  rw [meta_flat T _ (by
    intro c hc
    obtain ⟨b, hb, hcb⟩ := List.mem_flatten.1 hc
    exact h.cmt_ok b hb c hcb)]
  congr 1
  obtain ⟨i1, i2, i3, i4⟩ := fold_meta T L.blocks.flatten {}
  have e : ∀ m : Meta, m = ⟨m.name, m.units, m.x0, m.x1⟩ := fun m => rfl
  rw [e (List.foldl _ _ _), i1, i2, i3, i4]
  unfold metaOfTable
  congr 1
  · by_cases hm : Cmt.varName ∈ L.blocks.flatten
    · rw [if_pos hm]; cases hv : T.varName <;> rfl
    · rw [if_neg hm]
      cases hv : T.varName with
      | none => rfl
      | some ws => exact absurd (h.name_written (by simp [hv])) hm
  · by_cases hm : Cmt.units ∈ L.blocks.flatten
    · rw [if_pos hm]; cases hv : T.varUnits <;> rfl
    · rw [if_neg hm]
      cases hv : T.varUnits with
      | none => rfl
      | some ws => exact absurd (h.units_written (by simp [hv])) hm
  · by_cases hm : ∃ e, Cmt.x0 e ∈ L.blocks.flatten
    · rw [if_pos hm]; cases hv : T.x0 <;> rfl
    · rw [if_neg hm]
      cases hv : T.x0 with
      | none => rfl
      | some ws => exact absurd (h.x0_written (by simp [hv])) hm
  · by_cases hm : ∃ e, Cmt.x1 e ∈ L.blocks.flatten
    · rw [if_pos hm]; cases hv : T.x1 <;> rfl
    · rw [if_neg hm]
      cases hv : T.x1 with
      | none => rfl
      | some ws => exact absurd (h.x1_written (by simp [hv])) hm


/-! ### the parsed file -/

private theorem flatten_flatMap {α β} (f : α → List β) (l : List (List α)) :
    (l.map (fun b => b.flatMap f)).flatten = l.flatten.flatMap f := by
  induction l with
  | nil => rfl
  | cons a l ih => simp [ih]

private theorem nodup_map_inj {α β} (f : α → β) (l : List α) (h : (l.map f).Nodup) (a b : α)
    (ha : a ∈ l) (hb : b ∈ l) (e : f a = f b) : a = b := by
  induction l with
  | nil => simp at ha
  | cons x t ih =>
    simp only [List.map_cons, List.nodup_cons, List.mem_map, not_exists, not_and] at h
    rcases List.mem_cons.1 ha with ha1 | ha1
    · rcases List.mem_cons.1 hb with hb1 | hb1
      · rw [ha1, hb1]
      · subst ha1; exact absurd e.symm (h.1 b hb1)
    · rcases List.mem_cons.1 hb with hb1 | hb1
      · subst hb1; exact absurd e (h.1 a ha1)
      · exact ih h.2 ha1 hb1

private theorem locOf_id {T : Table} {L : Layout} (a b : Rat) (hi : hasIdCol L = true)
    (e : locOf T L a = locOf T L b) : a = b := by
  have := congrArg Loc.id e
  simpa [locOf, hi] using this

private theorem fkey_inj (f f' : Field) (e : fkey f = fkey f') : f = f' := by
  cases f <;> cases f' <;> simp_all [fkey]

private theorem mem_keysOf (f : Field) (fk : FKey) :
    fk ∈ keysOf f ↔ fk = fkey f ∨ (f = .pit ∧ fk = .other sPit) := by
  cases f <;> simp [keysOf, fkey]

/-- two data columns that feed the same dictionary key are the same field -/
private theorem keysOf_inj (f f' : Field) (w w' : Word) (hf : wordOK f w) (hf' : wordOK f' w')
    (fk : FKey) (h1 : fk ∈ keysOf f) (h2 : fk ∈ keysOf f') : f = f' := by
  rw [mem_keysOf] at h1 h2
  have no_pit : ∀ (g : Field) (u : Word), wordOK g u → fkey g ≠ .other sPit := by
    intro g u hg e
    cases g <;> simp [fkey] at e
    exact hg.2.2.1 e
  rcases h1 with h1 | ⟨h1, h1'⟩ <;> rcases h2 with h2 | ⟨h2, h2'⟩
  · exact fkey_inj f f' (h1 ▸ h2)
  · exact absurd (h1 ▸ h2') (no_pit f w hf)
  · exact absurd (h2 ▸ h1') (no_pit f' w' hf')
  · rw [h1, h2]

/-- the rows of the model for the rendered data lines -/
private def prows (T : Table) (L : Layout) : List PRow :=
  L.order.map fun r => rowOf (headerLine L) (dataLine T L r)

section Main
variable {T : Table} {L : Layout} (h : WF T L)
include h

private theorem mem_order (r : Case × Row) : r ∈ L.order ↔ r ∈ T.rows := h.order_perm.mem_iff

private theorem rowOf_render (r : Case × Row) (hr : r ∈ T.rows) :
    (rowOf (headerLine L) (dataLine T L r)).time = .fin r.1.time ∧
    (rowOf (headerLine L) (dataLine T L r)).lead = .fin r.1.lead ∧
    (rowOf (headerLine L) (dataLine T L r)).id = (if hasIdCol L then .fin r.1.loc else .nan) ∧
    own (rowOf (headerLine L) (dataLine T L r)) = locOf T L r.1.loc ∧
    (rowOf (headerLine L) (dataLine T L r)).cells = rowCells (headerLine L) (dataLine T L r) := by
  obtain ⟨p, hp, h1, h2, h3, h4, h5⟩ := parseRow_render h r hr
  have : rowOf (headerLine L) (dataLine T L r) = p := by simp [rowOf, hp]
  rw [this]; exact ⟨h1, h2, h3, h4, h5⟩

private theorem parse_render :
    parse (render T L) = .ok (assemble (headerLine L) (prows T L) (metaOfTable T)) := by
  have hw := weave_lines (L.blocks.map fun b => b.flatMap (cmtLines T))
    (headerLine L :: L.order.map (dataLine T L))
  have e1 : (L.blocks.map fun b => b.flatMap (cmtLines T)).map (·.map Line.comment) =
      L.blocks.map fun b => (b.flatMap (cmtLines T)).map Line.comment := by
    simp [List.map_map, Function.comp_def]
  have e2 : (headerLine L :: L.order.map (dataLine T L)).map Line.row =
      Line.row (headerLine L) :: L.order.map fun r => Line.row (dataLine T L r) := by
    simp [List.map_map, Function.comp_def]
  rw [e1, e2, flatten_flatMap] at hw
  unfold parse render
  rw [hw.1, hw.2]
  have hd : (headerLine L).any isDataWord = true := by
    obtain ⟨c, hc, hcd⟩ := h.data_word
    simp only [headerLine, List.any_map, List.any_eq_true, Function.comp]
    exact ⟨c, hc, hcd⟩
  have hrows := parseRows_ok (headerLine L) (L.order.map (dataLine T L)) (by
    intro x hx
    obtain ⟨r, hr, rfl⟩ := List.mem_map.1 hx
    obtain ⟨p, hp, _⟩ := parseRow_render h r ((mem_order h r).1 hr)
    exact ⟨p, hp⟩)
  simp only [hd, Bool.not_true, Bool.false_eq_true, if_false, hrows, meta_render h, List.map_map,
    prows, Function.comp_def]

private theorem prows_consistent : Consistent (prows T L) := by
  intro p hp p' hp' hn e
  obtain ⟨r, hr, rfl⟩ := List.mem_map.1 hp
  obtain ⟨r', hr', rfl⟩ := List.mem_map.1 hp'
  have f := rowOf_render h r ((mem_order h r).1 hr)
  have f' := rowOf_render h r' ((mem_order h r').1 hr')
  rw [f.2.2.2.1, f'.2.2.2.1]
  rw [f.2.2.1] at hn e
  rw [f'.2.2.1] at e
  by_cases hi : hasIdCol L = true
  · simp only [hi, if_true, XR.fin.injEq] at e
    rw [e]
  · simp [hi, XR.isNan] at hn

private theorem prows_fin : ∀ p ∈ prows T L, IsFin p.time ∧ IsFin p.lead := by
  intro p hp
  obtain ⟨r, hr, rfl⟩ := List.mem_map.1 hp
  have f := rowOf_render h r ((mem_order h r).1 hr)
  exact ⟨⟨_, f.1⟩, ⟨_, f.2.1⟩⟩

private theorem ex_prows (Q : PRow → Prop) :
    (∃ p ∈ prows T L, Q p) ↔ ∃ r ∈ T.rows, Q (rowOf (headerLine L) (dataLine T L r)) := by
  constructor
  · rintro ⟨p, hp, hq⟩
    obtain ⟨r, hr, rfl⟩ := List.mem_map.1 hp
    exact ⟨r, (mem_order h r).1 hr, hq⟩
  · rintro ⟨r, hr, hq⟩
    exact ⟨_, List.mem_map.2 ⟨r, (mem_order h r).2 hr, rfl⟩, hq⟩

/-- the bindings of the dictionary of a rendered table -/
private theorem dict_render (k : Key) (v : XR) :
    (k, v) ∈ (assemble (headerLine L) (prows T L) (metaOfTable T)).dict ↔
      ∃ r ∈ T.rows, ∃ f w, Col.fld f w ∈ L.cols ∧ k.f ∈ keysOf f ∧ v = r.2 f ∧
        k.t = .fin r.1.time ∧ k.l = .fin r.1.lead ∧ k.loc = locOf T L r.1.loc := by
  obtain ⟨_, _, _, _, _, _, i7⟩ := assemble_spec (headerLine L) (prows T L) (metaOfTable T)
    (prows_consistent h) (prows_fin h)
  rw [i7, ex_prows h]
  constructor
  · rintro ⟨r, hr, fk, hc, rfl⟩
    have f := rowOf_render h r hr
    rw [f.2.2.2.2, rowCells_render h r hr] at hc
    obtain ⟨f', w, hcol, hk, rfl⟩ := hc
    exact ⟨r, hr, f', w, hcol, hk, rfl, f.1, f.2.1, f.2.2.2.1⟩
  · rintro ⟨r, hr, f', w, hcol, hk, rfl, h1, h2, h3⟩
    have f := rowOf_render h r hr
    refine ⟨r, hr, k.f, ?_, ?_⟩
    · rw [f.2.2.2.2, rowCells_render h r hr]; exact ⟨f', w, hcol, hk, rfl⟩
    · rw [f.1, f.2.1, f.2.2.2.1, ← h1, ← h2, ← h3]

private theorem same_case (r' : Case × Row) (hr' : r' ∈ T.rows) (c : Case)
    (hloc : ∃ r ∈ T.rows, r.1.loc = c.loc)
    (e1 : XR.fin c.time = XR.fin r'.1.time) (e2 : XR.fin c.lead = XR.fin r'.1.lead)
    (e3 : locOf T L c.loc = locOf T L r'.1.loc) : r'.1 = c := by
  have hl : r'.1.loc = c.loc := by
    by_cases hi : hasIdCol L = true
    · exact (locOf_id _ _ hi e3).symm
    · obtain ⟨r0, hr0, e0⟩ := hloc
      rw [← e0] at e3 ⊢
      exact h.loc_inj (by simpa using hi) r' hr' r0 hr0 e3.symm
  obtain ⟨⟨t, l, s⟩, row⟩ := r'
  obtain ⟨t', l', s'⟩ := c
  simp only [XR.fin.injEq] at e1 e2
  simp only at hl
  simp [e1, e2, hl]

/-- every value sits at its own coordinates; absent combinations are missing -/
private theorem value_render (f : Field) (w : Word) (hc : Col.fld f w ∈ L.cols) (fk : FKey)
    (hfk : fk ∈ keysOf f) (c : Case) (hloc : ∃ r ∈ T.rows, r.1.loc = c.loc) :
    (assemble (headerLine L) (prows T L) (metaOfTable T)).get fk (.fin c.time) (.fin c.lead)
      (locOf T L c.loc) = T.value f c := by
  unfold Parsed.get Table.value Table.row?
  cases hfind : T.rows.find? (fun r => r.1 = c) with
  | none =>
    have hnone := List.find?_eq_none.1 hfind
    rw [dictGet_none]
    · rfl
    · intro v hv
      obtain ⟨r', hr', _, _, _, _, _, e1, e2, e3⟩ := (dict_render h _ v).1 hv
      have := same_case h r' hr' c hloc e1 e2 e3
      exact hnone r' hr' (by simpa using this)
  | some r =>
    have hr := List.mem_of_find?_eq_some hfind
    have hrc : r.1 = c := by simpa using List.find?_some hfind
    rw [dictGet_some _ _ (r.2 f)]
    · rfl
    · exact (dict_render h _ _).2 ⟨r, hr, f, w, hc, hfk, rfl, by rw [hrc], by rw [hrc], by rw [hrc]⟩
    · intro v' hv'
      obtain ⟨r', hr', f', w', hc', hk', rfl, e1, e2, e3⟩ := (dict_render h _ v').1 hv'
      have hcase := same_case h r' hr' c hloc e1 e2 e3
      have : r' = r := nodup_map_inj (·.1) T.rows h.cases_nodup r' r hr' hr (by rw [hcase, hrc])
      subst this
      have := keysOf_inj f f' w w' (h.cols_ok _ hc) (h.cols_ok _ hc') fk hfk hk'
      rw [this]

private theorem has_render (fk : FKey) :
    (assemble (headerLine L) (prows T L) (metaOfTable T)).has fk = true ↔
      T.rows ≠ [] ∧ ∃ f w, Col.fld f w ∈ L.cols ∧ fk ∈ keysOf f := by
  unfold Parsed.has
  rw [List.any_eq_true]
  constructor
  · rintro ⟨⟨k, v⟩, hm, hk⟩
    obtain ⟨r, hr, f, w, hc, hkf, _⟩ := (dict_render h k v).1 hm
    have : k.f = fk := by simpa using hk
    exact ⟨List.ne_nil_of_mem hr, f, w, hc, this ▸ hkf⟩
  · rintro ⟨hne, f, w, hc, hkf⟩
    obtain ⟨r, hr⟩ := List.exists_mem_of_ne_nil _ hne
    refine ⟨(⟨fk, .fin r.1.time, .fin r.1.lead, locOf T L r.1.loc⟩, r.2 f), ?_, by simp⟩
    exact (dict_render h _ _).2 ⟨r, hr, f, w, hc, hkf, rfl, rfl, rfl, rfl⟩

omit h in
private theorem sel_render (sel : FKey → Option XR) (mk : XR → FKey)
    (hsel : ∀ k v, sel k = some v ↔ k = mk v) (v : XR) :
    (∃ p ∈ (assemble (headerLine L) (prows T L) (metaOfTable T)).dict, sel p.1.f = some v) ↔
      (assemble (headerLine L) (prows T L) (metaOfTable T)).has (mk v) = true := by
  unfold Parsed.has
  rw [List.any_eq_true]
  constructor
  · rintro ⟨p, hp, hs⟩
    exact ⟨p, hp, by simpa using (hsel _ _).1 hs⟩
  · rintro ⟨p, hp, hs⟩
    exact ⟨p, hp, (hsel _ _).2 (by simpa using hs)⟩

private theorem thresholds_render :
    Asc (assemble (headerLine L) (prows T L) (metaOfTable T)).thresholds ∧
    ∀ v, v ∈ (assemble (headerLine L) (prows T L) (metaOfTable T)).thresholds ↔
      T.rows ≠ [] ∧ ∃ q w, Col.fld (.thr q) w ∈ L.cols ∧ v = .fin q := by
  have key : ∀ v, (∃ p ∈ (assemble (headerLine L) (prows T L) (metaOfTable T)).dict,
      (match p.1.f with | .thr v => some v | _ => none) = some v) ↔
      T.rows ≠ [] ∧ ∃ q w, Col.fld (.thr q) w ∈ L.cols ∧ v = .fin q := by
    intro v
    rw [sel_render (fun k => match k with | .thr v => some v | _ => none) FKey.thr
      (by intro k v; cases k <;> simp) v, has_render h]
    constructor
    · rintro ⟨hne, f, w, hc, hk⟩
      rw [mem_keysOf] at hk
      rcases hk with hk | ⟨_, hk⟩
      · cases f <;> simp [fkey] at hk
        exact ⟨hne, _, w, hc, hk⟩
      · simp at hk
    · rintro ⟨hne, q, w, hc, rfl⟩
      exact ⟨hne, _, w, hc, by simp [keysOf, fkey]⟩
  exact params_spec _ (fun k => match k with | .thr v => some v | _ => none) _ key
    (by rintro v ⟨_, q, _, _, rfl⟩; exact ⟨q, rfl⟩)

private theorem quantiles_render :
    Asc (assemble (headerLine L) (prows T L) (metaOfTable T)).quantiles ∧
    ∀ v, v ∈ (assemble (headerLine L) (prows T L) (metaOfTable T)).quantiles ↔
      T.rows ≠ [] ∧ ∃ q w, Col.fld (.qtl q) w ∈ L.cols ∧ v = .fin q := by
  have key : ∀ v, (∃ p ∈ (assemble (headerLine L) (prows T L) (metaOfTable T)).dict,
      (match p.1.f with | .qtl v => some v | _ => none) = some v) ↔
      T.rows ≠ [] ∧ ∃ q w, Col.fld (.qtl q) w ∈ L.cols ∧ v = .fin q := by
    intro v
    rw [sel_render (fun k => match k with | .qtl v => some v | _ => none) FKey.qtl
      (by intro k v; cases k <;> simp) v, has_render h]
    constructor
    · rintro ⟨hne, f, w, hc, hk⟩
      rw [mem_keysOf] at hk
      rcases hk with hk | ⟨_, hk⟩
      · cases f <;> simp [fkey] at hk
        exact ⟨hne, _, w, hc, hk⟩
      · simp at hk
    · rintro ⟨hne, q, w, hc, rfl⟩
      exact ⟨hne, _, w, hc, by simp [keysOf, fkey]⟩
  exact params_spec _ (fun k => match k with | .qtl v => some v | _ => none) _ key
    (by rintro v ⟨_, q, _, _, rfl⟩; exact ⟨q, rfl⟩)

private theorem members_render :
    Asc (assemble (headerLine L) (prows T L) (metaOfTable T)).members ∧
    ∀ v, v ∈ (assemble (headerLine L) (prows T L) (metaOfTable T)).members ↔
      T.rows ≠ [] ∧ ∃ q w, Col.fld (.ens q) w ∈ L.cols ∧ v = .fin q := by
  have key : ∀ v, (∃ p ∈ (assemble (headerLine L) (prows T L) (metaOfTable T)).dict,
      (match p.1.f with | .ens v => some v | _ => none) = some v) ↔
      T.rows ≠ [] ∧ ∃ q w, Col.fld (.ens q) w ∈ L.cols ∧ v = .fin q := by
    intro v
    rw [sel_render (fun k => match k with | .ens v => some v | _ => none) FKey.ens
      (by intro k v; cases k <;> simp) v, has_render h]
    constructor
    · rintro ⟨hne, f, w, hc, hk⟩
      rw [mem_keysOf] at hk
      rcases hk with hk | ⟨_, hk⟩
      · cases f <;> simp [fkey] at hk
        exact ⟨hne, _, w, hc, hk⟩
      · simp at hk
    · rintro ⟨hne, q, w, hc, rfl⟩
      exact ⟨hne, _, w, hc, by simp [keysOf, fkey]⟩
  exact params_spec _ (fun k => match k with | .ens v => some v | _ => none) _ key
    (by rintro v ⟨_, q, _, _, rfl⟩; exact ⟨q, rfl⟩)

/-- the name under which a data column appears among the other-fields -/
def otherName : Col → Option (List Char)
  | .fld (.other n) _ => some n
  | .fld .pit _ => some sPit
  | _ => none

omit h in
private theorem otherName_spec (c : Col) (hc : colOK c) :
    (isOther (colWord c) = true → otherName c = some (colWord c).name ∧ colKey c = (colWord c).name) ∧
    (isOther (colWord c) = false → otherName c = none) := by
  by_cases hf : isFixed c = true
  · have := (cls_fixed c hf).2.2.2
    refine ⟨fun e => absurd e (by simp [this]), fun _ => ?_⟩
    cases c <;> first | rfl | simp [isFixed] at hf
  · obtain ⟨f, w, rfl⟩ := not_fixed c hf
    have hk := (cls_fld f w hc).2.2.2
    simp only [colWord, hk, colKey_fld hc]
    cases f <;> simp [kindO, otherName]
    · exact hc.1.symm
    · exact hc.1.symm

omit h in
private theorem others_list (l : List Col) (hok : ∀ c ∈ l, colOK c) :
    ((l.map colWord).filter isOther).map (·.name) = l.filterMap otherName := by
  induction l with
  | nil => rfl
  | cons c t ih =>
    have i := ih (fun x hx => hok x (by simp [hx]))
    have sp := otherName_spec c (hok c (by simp))
    cases hb : isOther (colWord c) with
    | true => simp [hb, (sp.1 hb).1, i]
    | false => simp [hb, sp.2 hb, i]

omit h in
private theorem others_nodup (l : List Col) (hok : ∀ c ∈ l, colOK c) (hn : (l.map colKey).Nodup) :
    (l.filterMap otherName).Nodup := by
  induction l with
  | nil => simp
  | cons c t ih =>
    simp only [List.map_cons, List.nodup_cons] at hn
    have i := ih (fun x hx => hok x (by simp [hx])) hn.2
    have sp := otherName_spec c (hok c (by simp))
    cases hb : isOther (colWord c) with
    | false => simp [sp.2 hb, i]
    | true =>
      simp only [List.filterMap_cons, (sp.1 hb).1, List.nodup_cons]
      refine ⟨?_, i⟩
      intro hm
      obtain ⟨c', hc', e⟩ := List.mem_filterMap.1 hm
      have sp' := otherName_spec c' (hok c' (by simp [hc']))
      cases hb' : isOther (colWord c') with
      | false => rw [sp'.2 hb'] at e; simp at e
      | true =>
        rw [(sp'.1 hb').1] at e
        apply hn.1
        rw [(sp.1 hb).2, List.mem_map]
        exact ⟨c', hc', by rw [(sp'.1 hb').2]; simpa using e⟩

private theorem others_render :
    (assemble (headerLine L) (prows T L) (metaOfTable T)).others =
      if T.rows = [] then [] else L.cols.filterMap otherName := by
  have e : (prows T L).isEmpty = decide (T.rows = []) := by
    have := h.order_perm.length_eq
    cases ho : L.order with
    | nil => rw [ho] at this; simp [prows, ho, List.length_eq_zero_iff.1 this.symm]
    | cons a t =>
      rw [ho] at this
      have : T.rows ≠ [] := by intro e; rw [e] at this; simp at this
      simp [prows, ho, this]
  simp only [assemble, e, headerLine]
  by_cases hr : T.rows = []
  · simp [hr]
  · simp only [hr, decide_false, Bool.false_eq_true, if_false]
    rw [others_list L.cols h.cols_ok]
    exact dedupFirst_nodup _ (others_nodup L.cols h.cols_ok h.keys_nodup)

private theorem hasId_render :
    (assemble (headerLine L) (prows T L) (metaOfTable T)).hasId = hasIdCol L := by
  simp only [assemble, headerLine, hasIdCol]
  rw [Bool.eq_iff_iff]
  simp only [List.any_map, List.any_eq_true, Function.comp, Bool.or_eq_true, beq_iff_eq,
    decide_eq_true_eq]
  constructor
  · rintro ⟨c, hc, e | e⟩
    · have : colKey c = colKey Col.location := by
        show normName (colWord c).name = _; rw [e]; decide
      rcases key_fixed c _ (h.cols_ok c hc) rfl this with rfl | rfl
      · exact Or.inl hc
      · exact Or.inl hc
    · have : colKey c = colKey Col.id := by
        show normName (colWord c).name = _; rw [e]; decide
      rcases key_fixed c _ (h.cols_ok c hc) rfl this with rfl | rfl
      · exact Or.inr hc
      · exact Or.inr hc
  · rintro (hc | hc)
    · exact ⟨_, hc, Or.inl rfl⟩
    · exact ⟨_, hc, Or.inr rfl⟩

private theorem ids_render :
    assignIds (assemble (headerLine L) (prows T L) (metaOfTable T)).hasId
        (assemble (headerLine L) (prows T L) (metaOfTable T)).locs =
      if hasIdCol L then (assemble (headerLine L) (prows T L) (metaOfTable T)).locs.map (·.id)
      else (List.range (assemble (headerLine L) (prows T L) (metaOfTable T)).locs.length).map
        (fun (i : Nat) => XR.fin (i : Rat)) := by
  unfold assignIds
  rw [hasId_render h]

end Main


/-! ## The property theorems -/

/-- `P` is the dataset of table `T` as seen through layout `L`. -/
structure Faithful (T : Table) (L : Layout) (P : Parsed) : Prop where
  /-- dimensions = the coordinate sets of the table, ascending and duplicate-free -/
  times_asc : Asc P.times
  times_mem : ∀ x, x ∈ P.times ↔ ∃ r ∈ T.rows, x = .fin r.1.time
  leads_asc : Asc P.leads
  leads_mem : ∀ x, x ∈ P.leads ↔ ∃ r ∈ T.rows, x = .fin r.1.lead
  /-- one location per station of the table, carrying that station's metadata (`locOf`: a
  coordinate the station does not know — a missing-value token on its rows — reads NaN, as the same
  entry of a NetCDF file does (`C10_same_dataset`: `datasetOf` maps a missing entry to NaN); 0 is the
  default of a file WITHOUT that column) -/
  locs_nodup : P.locs.Nodup
  locs_mem : ∀ l, l ∈ P.locs ↔ ∃ r ∈ T.rows, l = locOf T L r.1.loc
  /-- ids: those of the file, or 0,1,2,… when the file has no id column -/
  ids : assignIds P.hasId P.locs = if hasIdCol L then P.locs.map (·.id)
          else (List.range P.locs.length).map (fun (i : Nat) => XR.fin (i : Rat))
  /-- every value is stored at its own (time, lead time, location) coordinate; combinations
  absent from the file are missing (`Table.value` is nan when the table has no such row) -/
  value : ∀ f w, Col.fld f w ∈ L.cols → ∀ fk ∈ keysOf f, ∀ c : Case,
      (∃ r ∈ T.rows, r.1.loc = c.loc) →
      P.get fk (.fin c.time) (.fin c.lead) (locOf T L c.loc) = T.value f c
  /-- the fields present are those of the data columns (none when there is no data row) -/
  has : ∀ fk, P.has fk = true ↔ T.rows ≠ [] ∧ ∃ f w, Col.fld f w ∈ L.cols ∧ fk ∈ keysOf f
  /-- thresholds / quantiles / members = the numeric values of the p… / q… / e… headers -/
  thresholds_asc : Asc P.thresholds
  thresholds_mem : ∀ v, v ∈ P.thresholds ↔
      T.rows ≠ [] ∧ ∃ q w, Col.fld (.thr q) w ∈ L.cols ∧ v = .fin q
  quantiles_asc : Asc P.quantiles
  quantiles_mem : ∀ v, v ∈ P.quantiles ↔
      T.rows ≠ [] ∧ ∃ q w, Col.fld (.qtl q) w ∈ L.cols ∧ v = .fin q
  members_asc : Asc P.members
  members_mem : ∀ v, v ∈ P.members ↔
      T.rows ≠ [] ∧ ∃ q w, Col.fld (.ens q) w ∈ L.cols ∧ v = .fin q
  /-- other fields in header order (a pit column is also an other-field named pit) -/
  others : P.others = if T.rows = [] then [] else L.cols.filterMap otherName
  hasId : P.hasId = hasIdCol L
  /-- the `# variable: / units: / x0: / x1:` lines set the variable metadata -/
  var : P.var = metaOfTable T

/-- **C09_roundtrip.** For every well-formed table and layout, reading the rendered file
succeeds and returns exactly the table. The dense arrays are `Parsed.arr`, by definition the
row-major tabulation of `Parsed.get` over times × lead times × locations. -/
theorem C09_roundtrip (T : Table) (L : Layout) (h : WF T L) :
    ∃ P, parse (render T L) = .ok P ∧ Faithful T L P := by
  refine ⟨_, parse_render h, ?_⟩
  obtain ⟨i1, i2, i3, i4, i5, i6, _⟩ := assemble_spec (headerLine L) (prows T L) (metaOfTable T)
    (prows_consistent h) (prows_fin h)
  have rw1 : ∀ x, (∃ p ∈ prows T L, x = p.time) ↔ ∃ r ∈ T.rows, x = XR.fin r.1.time := by
    intro x; rw [ex_prows h]
    constructor <;> rintro ⟨r, hr, e⟩ <;> exact ⟨r, hr, by simpa [(rowOf_render h r hr).1] using e⟩
  have rw2 : ∀ x, (∃ p ∈ prows T L, x = p.lead) ↔ ∃ r ∈ T.rows, x = XR.fin r.1.lead := by
    intro x; rw [ex_prows h]
    constructor <;> rintro ⟨r, hr, e⟩ <;> exact ⟨r, hr, by simpa [(rowOf_render h r hr).2.1] using e⟩
  have rw3 : ∀ l, (∃ p ∈ prows T L, l = own p) ↔ ∃ r ∈ T.rows, l = locOf T L r.1.loc := by
    intro x; rw [ex_prows h]
    constructor <;> rintro ⟨r, hr, e⟩ <;>
      exact ⟨r, hr, by simpa [(rowOf_render h r hr).2.2.2.1] using e⟩
  exact {
    times_asc := i1
    times_mem := fun x => (i2 x).trans (rw1 x)
    leads_asc := i3
    leads_mem := fun x => (i4 x).trans (rw2 x)
    locs_nodup := i5
    locs_mem := fun l => (i6 l).trans (rw3 l)
    ids := ids_render h
    value := fun f w hc fk hfk c hloc => value_render h f w hc fk hfk c hloc
    has := has_render h
    thresholds_asc := (thresholds_render h).1
    thresholds_mem := (thresholds_render h).2
    quantiles_asc := (quantiles_render h).1
    quantiles_mem := (quantiles_render h).2
    members_asc := (members_render h).1
    members_mem := (members_render h).2
    others := others_render h
    hasId := hasId_render h
    var := rfl }

theorem fkey_mem_keysOf (f : Field) : fkey f ∈ keysOf f := by
  cases f <;> simp [keysOf, fkey]

/-- **C09_layout_irrelevant.** Two layouts of the same table (other column order / subset,
other time, lead-time, id, elevation encodings, other row order, comments, missing tokens,
spellings) are read as the same dataset: same dimensions, same variable metadata, the same
value for every field both files carry at every case, the same locations when the same
location columns are present, the same thresholds when the same p-columns are present. -/
theorem C09_layout_irrelevant (T : Table) (L₁ L₂ : Layout) (h₁ : WF T L₁) (h₂ : WF T L₂)
    (P₁ P₂ : Parsed) (e₁ : parse (render T L₁) = .ok P₁) (e₂ : parse (render T L₂) = .ok P₂) :
    P₁.times = P₂.times ∧ P₁.leads = P₂.leads ∧ P₁.var = P₂.var ∧
    (∀ f w₁ w₂, Col.fld f w₁ ∈ L₁.cols → Col.fld f w₂ ∈ L₂.cols → ∀ c : Case,
      (∃ r ∈ T.rows, r.1.loc = c.loc) →
      P₁.get (fkey f) (.fin c.time) (.fin c.lead) (locOf T L₁ c.loc) =
        P₂.get (fkey f) (.fin c.time) (.fin c.lead) (locOf T L₂ c.loc)) ∧
    ((∀ id, locOf T L₁ id = locOf T L₂ id) → P₁.locs.Perm P₂.locs) ∧
    ((∀ q, (∃ w, Col.fld (.thr q) w ∈ L₁.cols) ↔ (∃ w, Col.fld (.thr q) w ∈ L₂.cols)) →
      P₁.thresholds = P₂.thresholds) := by
  obtain ⟨Q₁, q₁, F₁⟩ := C09_roundtrip T L₁ h₁
  obtain ⟨Q₂, q₂, F₂⟩ := C09_roundtrip T L₂ h₂
  rw [e₁] at q₁; rw [e₂] at q₂
  cases q₁; cases q₂
  refine ⟨?_, ?_, ?_, ?_, ?_, ?_⟩
  · exact asc_unique _ _ F₁.times_asc F₂.times_asc
      (fun x => (F₁.times_mem x).trans (F₂.times_mem x).symm)
  · exact asc_unique _ _ F₁.leads_asc F₂.leads_asc
      (fun x => (F₁.leads_mem x).trans (F₂.leads_mem x).symm)
  · rw [F₁.var, F₂.var]
  · intro f w₁ w₂ c₁ c₂ c hloc
    rw [F₁.value f w₁ c₁ _ (fkey_mem_keysOf f) c hloc, F₂.value f w₂ c₂ _ (fkey_mem_keysOf f) c hloc]
  · intro hl
    rw [List.perm_ext_iff_of_nodup F₁.locs_nodup F₂.locs_nodup]
    intro l
    rw [F₁.locs_mem, F₂.locs_mem]
    constructor <;> rintro ⟨r, hr, e⟩ <;> exact ⟨r, hr, by rw [e, hl]⟩
  · intro hq
    apply asc_unique _ _ F₁.thresholds_asc F₂.thresholds_asc
    intro v
    rw [F₁.thresholds_mem, F₂.thresholds_mem]
    constructor
    · rintro ⟨hne, q, w, hc, rfl⟩
      obtain ⟨w', hc'⟩ := (hq q).1 ⟨w, hc⟩
      exact ⟨hne, q, w', hc', rfl⟩
    · rintro ⟨hne, q, w, hc, rfl⟩
      obtain ⟨w', hc'⟩ := (hq q).2 ⟨w, hc⟩
      exact ⟨hne, q, w', hc', rfl⟩


/-- **C09_rows_perm** (also C02_rows_perm). Permuting the data rows of ANY file (not only a
rendered one) whose rows parse, carry one (lat, lon, elev) per id and finite time / lead-time
coordinates, and bind no dictionary key twice, leaves the parsed dataset unchanged: same
dimensions, same set of locations, the same stored value under every key, same metadata. -/
theorem C09_rows_perm (lines₁ lines₂ : List Line) (hdr : List Word) (rs₁ rs₂ : List (List Word))
    (hrows₁ : rows lines₁ = hdr :: rs₁) (hrows₂ : rows lines₂ = hdr :: rs₂)
    (hcm : comments lines₂ = comments lines₁) (hperm : rs₂.Perm rs₁)
    (P₁ : Parsed) (hp : parse lines₁ = .ok P₁) (ps₁ : List PRow)
    (hps : parseRows hdr rs₁ = .ok ps₁) (hc : Consistent ps₁)
    (hfin : ∀ p ∈ ps₁, IsFin p.time ∧ IsFin p.lead)
    (hfun : ∀ k v v', (k, v) ∈ P₁.dict → (k, v') ∈ P₁.dict → v = v') :
    ∃ P₂, parse lines₂ = .ok P₂ ∧ P₂.times = P₁.times ∧ P₂.leads = P₁.leads ∧
      P₂.locs.Perm P₁.locs ∧ (∀ k, dictGet P₂.dict k = dictGet P₁.dict k) ∧
      P₂.others = P₁.others ∧ P₂.hasId = P₁.hasId ∧ P₂.var = P₁.var := by
  obtain ⟨hall, hmap⟩ := parseRows_inv hdr rs₁ ps₁ hps
  -- shape of the first parse
  unfold parse at hp
  rw [hrows₁] at hp
  by_cases hd : hdr.any isDataWord = true
  swap
  · simp [hd] at hp
  simp only [hd, Bool.not_true, Bool.false_eq_true, if_false, hps] at hp
  cases hm : metaOf {} (comments lines₁) with
  | none => rw [hm] at hp; simp at hp
  | some m =>
    rw [hm] at hp
    simp only [Except.ok.injEq] at hp
    subst hp
    -- the second parse
    have hall₂ : ∀ r ∈ rs₂, ∃ p, parseRow hdr r = .ok p := fun r hr => hall r (hperm.mem_iff.1 hr)
    have hps₂ := parseRows_ok hdr rs₂ hall₂
    have hpp : (rs₂.map (rowOf hdr)).Perm ps₁ := by rw [hmap]; exact hperm.map _
    refine ⟨assemble hdr (rs₂.map (rowOf hdr)) m, ?_, ?_⟩
    · unfold parse
      rw [hrows₂]
      simp only [hd, Bool.not_true, Bool.false_eq_true, if_false, hps₂, hcm, hm]
    have hc₂ : Consistent (rs₂.map (rowOf hdr)) := by
      intro p hp p' hp' hn e
      exact hc p (hpp.mem_iff.1 hp) p' (hpp.mem_iff.1 hp') hn e
    have hfin₂ : ∀ p ∈ rs₂.map (rowOf hdr), IsFin p.time ∧ IsFin p.lead :=
      fun p hp => hfin p (hpp.mem_iff.1 hp)
    obtain ⟨a1, a2, a3, a4, a5, a6, a7⟩ := assemble_spec hdr ps₁ m hc hfin
    obtain ⟨b1, b2, b3, b4, b5, b6, b7⟩ := assemble_spec hdr (rs₂.map (rowOf hdr)) m hc₂ hfin₂
    have ex : ∀ Q : PRow → Prop, (∃ p ∈ rs₂.map (rowOf hdr), Q p) ↔ ∃ p ∈ ps₁, Q p := by
      intro Q
      constructor <;> rintro ⟨p, hp, hq⟩
      · exact ⟨p, hpp.mem_iff.1 hp, hq⟩
      · exact ⟨p, hpp.mem_iff.2 hp, hq⟩
    have hdict : ∀ k v, (k, v) ∈ (assemble hdr (rs₂.map (rowOf hdr)) m).dict ↔
        (k, v) ∈ (assemble hdr ps₁ m).dict := by
      intro k v; rw [a7, b7, ex]
    refine ⟨?_, ?_, ?_, ?_, ?_, rfl, rfl⟩
    · exact asc_unique _ _ b1 a1 (fun x => by rw [a2, b2, ex])
    · exact asc_unique _ _ b3 a3 (fun x => by rw [a4, b4, ex])
    · rw [List.perm_ext_iff_of_nodup b5 a5]
      intro l; rw [a6, b6, ex]
    · intro k
      by_cases hk : ∃ v, (k, v) ∈ (assemble hdr ps₁ m).dict
      · obtain ⟨v, hv⟩ := hk
        rw [dictGet_some _ k v hv (fun v' hv' => hfun k v' v hv' hv),
          dictGet_some _ k v ((hdict k v).2 hv)
            (fun v' hv' => hfun k v' v ((hdict k v').1 hv') hv)]
      · have hk' : ∀ v, (k, v) ∉ (assemble hdr ps₁ m).dict := fun v hv => hk ⟨v, hv⟩
        rw [dictGet_none _ k hk', dictGet_none _ k (fun v hv => hk' v ((hdict k v).1 hv))]
    · have gen : ∀ (a b : List PRow), a.length = b.length → a.isEmpty = b.isEmpty := by
        intro a b hab; cases a <;> cases b <;> simp at hab ⊢
      simp only [assemble, gen _ _ hpp.length_eq]

/-- **C09_classify.** Header classification is a partition: every header word (whose suffix
class is consistent with its text: `float("")` and `float("it")` fail) is exactly one of
regular (coordinate / obs / fcst), quantile, threshold, ensemble member, other. -/
theorem C09_classify (w : Word) (h1 : w.name.length ≤ 1 → w.sfx.isNumber = false)
    (h2 : w.name = sPit → w.sfx.isNumber = false) :
    (isRegular w).toNat + (isQ w).toNat + (isP w).toNat + (isE w).toNat + (isOther w).toNat = 1 := by
  by_cases hr : isRegular w = true
  · have hm : w.name ∈ regularNames := by simpa [isRegular] using hr
    simp only [regularNames, List.mem_cons, List.not_mem_nil, or_false] at hm
    have hq : startsWith 'q' w = false := by
      rcases hm with e | e | e | e | e | e | e | e | e | e | e | e | e <;>
        (rw [sw_lit _ w _ e]; decide)
    have hp : startsWith 'p' w = false := by
      rcases hm with e | e | e | e | e | e | e | e | e | e | e | e | e <;>
        (rw [sw_lit _ w _ e]; decide)
    have he : (startsWith 'e' w && w.name != sElev) = false := by
      rcases hm with e | e | e | e | e | e | e | e | e | e | e | e | e <;>
        (rw [sw_lit _ w _ e, e]; decide)
    have he' : isE w = false := by
      simp only [isE]; rw [he]; rfl
    simp [isQ, isP, isOther, hr, hq, hp, he']
  · have hr' : isRegular w = false := by simpa using hr
    have hne : w.name ≠ sElev := by
      intro e; apply hr; simp only [isRegular, e]; decide
    have hb : (w.name != sElev) = true := by rw [bne_iff_ne]; exact hne
    cases hn : w.sfx.isNumber with
    | false => simp [isQ, isP, isE, isOther, hr', hn]
    | true =>
      have hl : decide (w.name.length > 1) = true := by
        by_contra hl
        have := h1 (by simpa using hl)
        rw [this] at hn; exact absurd hn (by simp)
      have hpit : (w.name != sPit) = true := by
        rw [bne_iff_ne]; intro e; rw [h2 e] at hn; exact absurd hn (by simp)
      simp only [isQ, isP, isE, isOther, hr', hn, hl, hb, hpit, startsWith]
      cases hh : w.name.head? with
      | none => simp
      | some ch =>
        by_cases c1 : ch = 'q'
        · subst c1; simp
        · by_cases c2 : ch = 'p'
          · subst c2; simp
          · by_cases c3 : ch = 'e'
            · subst c3; simp
            · simp [beq_eq_false_iff_ne.2 c1, beq_eq_false_iff_ne.2 c2, beq_eq_false_iff_ne.2 c3]

/-- **C04_textclean.** `_clean` yields a missing value exactly for an unparseable token, a NaN
literal, and the two numeric missing-value encodings it shares with the NetCDF reader: -999 and
anything above 1e30 (`inf` included); every other number keeps its value, and so does -inf. -/
theorem C04_textclean (t : Tok) :
    (cleanTok t = .nan ↔ (∃ s, t = .bad s) ∨ t = .num (-999) ∨ t = .nan ∨ t = .inf ∨
        ∃ q, t = .num q ∧ 1000000000000000019884624838656 < q) ∧
    (∀ q, t = .num q → q ≠ -999 → q ≤ 1000000000000000019884624838656 → cleanTok t = .fin q) ∧
    (t = .ninf → cleanTok t = .ninf) := by
  refine ⟨?_, ?_, ?_⟩
  · rw [← isMissTok_iff]
    cases t with
    | num q =>
      show (q = -999 ∨ maxNum < q) ↔ _
      simp only [reduceCtorEq, Tok.num.injEq, exists_false, false_or, exists_eq_left']
      rfl
    | nan => simp [isMissTok]
    | inf => simp [isMissTok]
    | ninf => simp [isMissTok]
    | bad s => simp [isMissTok]
  · rintro q rfl hq hb; exact clean_num q ⟨hq, hb⟩
  · rintro rfl; rfl

/-- The text reader's missing-value tokens, as the SPEC lists them (`isMissTok`: not a number, nan,
inf, -999, above 1e30), are exactly the tokens `_clean` maps to NaN — see `isMissTok_iff` above. -/
theorem C09_missing_tokens (t : Tok) : cleanTok t = .nan ↔ isMissTok t := (isMissTok_iff t).symm

/-! ## Missing coordinate tokens (the repaired findings text-missing-lat/lon/elev-zero, -id-invented,
-date-crash): a missing-value token in a coordinate column is a missing coordinate, NaN — what the same entry
of a NetCDF file reads (`C10_same_dataset`, `C10_missing_coordinate`) — and the defaults are for ABSENT
columns only.  `Spec.Table` cannot hold a case without time or id (`Case.time`, `Case.loc : Rat`), so for
those two the statements are about the reader model directly, for every row / every location list. -/

/-- With a location / id column the ids are those of the file, for ALL location lists — in particular a
location whose id token is missing keeps id NaN; no id is invented.  Without such a column: 0, 1, 2, … -/
theorem C09_missing_id_kept (locs : List Loc) :
    assignIds true locs = locs.map (·.id) ∧
    assignIds false locs = (List.range locs.length).map (fun (i : Nat) => XR.fin (i : Rat)) := by
  constructor <;> simp [assignIds]

/-- A row whose `date` token is a missing-value token has a missing time (NaN), whatever the hour column
says — no exception; likewise a missing `unixtime` token. -/
theorem C09_missing_date_nan (col : List Char → Option Tok) (tk : Tok) (hm : isMissTok tk) :
    (col sDate = some tk → rowTime col = some .nan) ∧
    (col sDate = none → col sUnixtime = some tk → rowTime col = some .nan) := by
  have hc : cleanTok tk = .nan := (isMissTok_iff tk).1 hm
  constructor
  · intro hd
    simp [rowTime, hd, hc, XR.isNan]
  · intro hd hu
    simp [rowTime, hd, hu, hc]

/-- lat / lon / altitude / elev of a row: a missing-value token reads NaN; the default 0 only when the
column is absent. -/
theorem C09_missing_meta_nan (col : List Char → Option Tok) (key : List Char) (tk : Tok)
    (hm : isMissTok tk) :
    (col key = some tk → rowMeta col key = .nan) ∧ (col key = none → rowMeta col key = .fin 0) ∧
    (col sAltitude = some tk → rowElev col = .nan) ∧
    (col sAltitude = none → col sElev = some tk → rowElev col = .nan) ∧
    (col sAltitude = none → col sElev = none → rowElev col = .fin 0) := by
  have hc : cleanTok tk = .nan := (isMissTok_iff tk).1 hm
  refine ⟨?_, ?_, ?_, ?_, ?_⟩ <;> intros <;> simp_all [rowMeta, rowElev]

/-- non-vacuity: `NA` is a missing-value token; a location list with a NaN id keeps it -/
example : isMissTok (.bad "NA") ∧
    assignIds true [⟨.fin 7, .fin 60, .fin 10, .fin 5⟩, ⟨.nan, .fin 59, .fin 11, .nan⟩] = [.fin 7, .nan] := by
  constructor
  · simp [isMissTok]
  · simp [assignIds]

/-! ## Non-vacuity: a concrete 2 × 2 × 2 table, two different layouts -/

def row (a b : Rat) : Row := fun f =>
  match f with
  | .obs => .fin a
  | .fcst => .fin b
  | .thr _ => .fin (1/2)
  | _ => .nan

def rowM (b : Rat) : Row := fun f =>
  match f with
  | .fcst => .fin b
  | _ => .nan

/-- 2 times × 2 lead times × 2 locations, one case absent, one row with missing obs and p5;
the altitude of location 41 is not known (a missing-value token on each of its rows) -/
def T0 : Table where
  rows := [(⟨1325376000, 0, 3⟩, row 1 2), (⟨1325376000, 6, 3⟩, row 3 4),
           (⟨1325376000, 0, 41⟩, row 5 6), (⟨1325376000, 6, 41⟩, rowM 8),
           (⟨1325419200, 0, 3⟩, row 9 10), (⟨1325419200, 6, 3⟩, row 11 12),
           (⟨1325419200, 6, 41⟩, row 15 16)]
  station := fun id => if id = 3 then ⟨some 50, some 10, some 12⟩ else ⟨some 42, some 23, none⟩
  varName := some ["Weird".toList, "variable".toList]
  x0 := some 0

def wObs : Word := ⟨"obs".toList, .bad "", .bad ""⟩
def wFcst : Word := ⟨"fcst".toList, .bad "", .bad ""⟩
def wP5 : Word := ⟨"p5.0".toList, .bad "", .num 5⟩
def wP5' : Word := ⟨"p+5".toList, .bad "", .num 5⟩

/-- unixtime / leadtime / location / altitude, comments in front, NA / inf for missing -/
def La : Layout where
  cols := [.unixtime, .leadtime, .location, .lat, .lon, .altitude, .fld .obs wObs, .fld .fcst wFcst,
           .fld (.thr 5) wP5]
  order := T0.rows
  dateOf := fun _ => 0
  hourOf := fun _ => 0
  miss := fun c _ => if c.lead = 0 then .bad "NA" else .inf            -- `inf` is above 1e30: missing
  missMeta := fun _ _ => .bad "NA"
  spell := fun _ _ => ([], .bad "")
  blocks := [[.varName, .x0 []], [.other [⟨"comment".toList, .bad "", .bad ""⟩]]]

/-- date + hour / offset / id / elev, columns shuffled, rows reversed, -999 / 9.96921e+36 for missing,
metadata lines after the data -/
def Lb : Layout where
  cols := [.fld .fcst wFcst, .elev, .hour, .fld (.thr 5) wP5', .id, .date, .lon, .offset,
           .fld .obs wObs, .lat]
  order := T0.rows.reverse
  dateOf := fun _ => 20120101
  hourOf := fun c => if c.time = 1325376000 then 0 else 12
  -- -999 and the NetCDF default fill value 9.96921e+36 (above 1e30) both spell "missing"
  miss := fun c _ => if c.lead = 0 then .num (-999) else .num 9969210000000000000000000000000000000
  missMeta := fun c _ => if c.lead = 0 then .num (-999) else .nan
  spell := fun _ _ => ("x".toList, .bad "")
  blocks := [[], [], [.other [⟨"units".toList, .bad "", .bad ""⟩]], [], [], [], [], [],
             [.x0 [⟨"extra".toList, .bad "", .bad ""⟩], .varName]]

private theorem row_ok (a b : Rat) (ha : numOK a) (hb : numOK b) (f : Field) :
    valOK (row a b f) := by
  cases f <;> simp only [row, valOK] <;> first | exact ha | exact hb | trivial | skip
  exact ⟨by decide +kernel, by decide +kernel⟩

private theorem rowM_ok (b : Rat) (hb : numOK b) (f : Field) : valOK (rowM b f) := by
  cases f <;> simp only [rowM, valOK] <;> first | exact hb | trivial

private theorem T0_val : ∀ r ∈ T0.rows, ∀ f, valOK (r.2 f) := by
  intro r hr f
  simp only [T0, List.mem_cons, List.not_mem_nil, or_false] at hr
  rcases hr with rfl | rfl | rfl | rfl | rfl | rfl | rfl <;>
    first
    | exact row_ok _ _ ⟨by decide +kernel, by decide +kernel⟩ ⟨by decide +kernel, by decide +kernel⟩ f
    | exact rowM_ok _ ⟨by decide +kernel, by decide +kernel⟩ f

private theorem T0_cases (Q : Case → Prop) (h : ∀ c ∈ T0.rows.map (·.1), Q c) :
    ∀ r ∈ T0.rows, Q r.1 := fun r hr => h r.1 (List.mem_map_of_mem hr)

theorem wfa : WF T0 La where
  cases_nodup := by decide +kernel
  order_perm := List.Perm.refl _
  keys_nodup := by decide +kernel
  cols_ok := by
    intro c hc
    simp only [La, List.mem_cons, List.not_mem_nil, or_false] at hc
    rcases hc with rfl | rfl | rfl | rfl | rfl | rfl | rfl | rfl | rfl <;>
      simp [colOK, wordOK] <;> decide +kernel
  fields_inj := by
    intro f w w' h1 h2
    simp [La] at h1 h2
    rcases h1 with ⟨rfl, rfl⟩ | ⟨rfl, rfl⟩ | ⟨rfl, rfl⟩ <;>
      rcases h2 with ⟨h, rfl⟩ | ⟨h, rfl⟩ | ⟨h, rfl⟩ <;> first | rfl | simp at h
  data_word := ⟨.fld .obs wObs, by simp [La], by decide⟩
  one_time := by decide +kernel
  hour_date := by decide +kernel
  one_id := by decide +kernel
  one_elev := by decide +kernel
  time_ok := T0_cases (fun c => timeOK La c) (by
    have e : ∀ c, timeOK La c ↔ numOK c.time := by
      intro c; unfold timeOK; rw [if_neg (by decide +kernel), if_pos (by decide +kernel)]
    simp only [e]; decide +kernel)
  lead_ok := T0_cases (fun c => leadOK La c) (by
    have e : ∀ c, leadOK La c ↔ numOK c.lead := by
      intro c; unfold leadOK; rw [if_pos (by decide +kernel)]
    simp only [e]; decide +kernel)
  id_ok := T0_cases (fun c => numOK c.loc) (by decide +kernel)
  meta_ok := T0_cases (fun c => metaOK (T0.station c.loc).lat ∧
    metaOK (T0.station c.loc).lon ∧ metaOK (T0.station c.loc).elev) (by decide +kernel)
  missMeta_ok := fun _ _ => trivial
  loc_inj := fun hi => absurd hi (by decide +kernel)
  val_ok := T0_val
  miss_ok := fun c _ => by simp only [La]; split <;> decide +kernel
  cmt_ok := by
    intro b hb c hc
    simp only [La, List.mem_cons, List.not_mem_nil, or_false] at hb
    rcases hb with rfl | rfl <;> simp only [List.mem_cons, List.not_mem_nil, or_false] at hc
    · rcases hc with rfl | rfl <;> trivial
    · subst hc; exact ⟨_, _, rfl, by decide⟩
  name_written := fun _ => by decide +kernel
  units_written := fun hu => by simp [T0] at hu
  x0_written := fun _ => ⟨[], by decide +kernel⟩
  x1_written := fun hu => by simp [T0] at hu

theorem wfb : WF T0 Lb where
  cases_nodup := by decide +kernel
  order_perm := List.reverse_perm _
  keys_nodup := by decide +kernel
  cols_ok := by
    intro c hc
    simp only [Lb, List.mem_cons, List.not_mem_nil, or_false] at hc
    rcases hc with rfl | rfl | rfl | rfl | rfl | rfl | rfl | rfl | rfl | rfl <;>
      simp [colOK, wordOK] <;> decide +kernel
  fields_inj := by
    intro f w w' h1 h2
    simp [Lb] at h1 h2
    rcases h1 with ⟨rfl, rfl⟩ | ⟨rfl, rfl⟩ | ⟨rfl, rfl⟩ <;>
      rcases h2 with ⟨h, rfl⟩ | ⟨h, rfl⟩ | ⟨h, rfl⟩ <;> first | rfl | simp at h
  data_word := ⟨.fld .obs wObs, by simp [Lb], by decide⟩
  one_time := by decide +kernel
  hour_date := fun _ => by decide +kernel
  one_id := by decide +kernel
  one_elev := by decide +kernel
  time_ok := T0_cases (fun c => timeOK Lb c) (by
    intro c hc
    unfold timeOK
    rw [if_pos (by decide +kernel)]
    refine ⟨1325376000, by show Cal.unixOfDate 20120101 = some 1325376000; decide +kernel,
      by show 0 < 20120101; decide, ?_⟩
    rw [if_pos (by decide +kernel)]
    simp only [T0, List.map_cons, List.map_nil, List.mem_cons, List.not_mem_nil, or_false] at hc
    rcases hc with rfl | rfl | rfl | rfl | rfl | rfl | rfl <;> decide +kernel)
  lead_ok := T0_cases (fun c => leadOK Lb c) (by
    have e : ∀ c, leadOK Lb c ↔ numOK c.lead := by
      intro c; unfold leadOK; rw [if_pos (by decide +kernel)]
    simp only [e]; decide +kernel)
  id_ok := T0_cases (fun c => numOK c.loc) (by decide +kernel)
  meta_ok := T0_cases (fun c => metaOK (T0.station c.loc).lat ∧
    metaOK (T0.station c.loc).lon ∧ metaOK (T0.station c.loc).elev) (by decide +kernel)
  missMeta_ok := fun c _ => by simp only [Lb]; split <;> decide +kernel
  loc_inj := fun hi => absurd hi (by decide +kernel)
  val_ok := T0_val
  miss_ok := fun c _ => by simp only [Lb]; split <;> decide +kernel
  cmt_ok := by
    intro b hb c hc
    simp only [Lb, List.mem_cons, List.not_mem_nil, or_false] at hb
    rcases hb with rfl | rfl | rfl | rfl | rfl | rfl | rfl | rfl | rfl <;>
      simp only [List.mem_cons, List.not_mem_nil, or_false] at hc
    · subst hc; exact ⟨_, _, rfl, by decide⟩
    · rcases hc with rfl | rfl <;> trivial
  name_written := fun _ => by decide +kernel
  units_written := fun hu => by simp [T0] at hu
  x0_written := fun _ => ⟨[⟨"extra".toList, .bad "", .bad ""⟩], by decide +kernel⟩
  x1_written := fun hu => by simp [T0] at hu

/-- the model really computes the table from the first file (location 41, whose altitude cells
are `NA`, has a missing elevation: NaN — not 0, and not the 12 of location 3 on the rows before it) … -/
def checkA : Bool :=
  match parse (render T0 La) with
  | .ok P =>
    decide (P.times = [.fin 1325376000, .fin 1325419200]) && decide (P.leads = [.fin 0, .fin 6]) &&
    decide (P.locs = [⟨.fin 3, .fin 50, .fin 10, .fin 12⟩, ⟨.fin 41, .fin 42, .fin 23, .nan⟩]) &&
    decide (P.arr P.locs .obs = [.fin 1, .fin 5, .fin 3, .nan, .fin 9, .nan, .fin 11, .fin 15]) &&
    decide (P.arr4 P.locs .thr P.thresholds =
      [.fin (1/2), .fin (1/2), .fin (1/2), .nan, .fin (1/2), .nan, .fin (1/2), .fin (1/2)]) &&
    decide (P.thresholds = [.fin 5]) && decide (assignIds P.hasId P.locs = [.fin 3, .fin 41]) &&
    decide (P.var = ⟨some ["Weird".toList, "variable".toList], none, some (.fin 0), none⟩)
  | .error _ => false

example : checkA = true := by decide +kernel

/-- … and from the second, completely different-looking file (locations in the other order) -/
def checkB : Bool :=
  match parse (render T0 Lb) with
  | .ok P =>
    decide (P.times = [.fin 1325376000, .fin 1325419200]) && decide (P.leads = [.fin 0, .fin 6]) &&
    decide (P.locs = [⟨.fin 41, .fin 42, .fin 23, .nan⟩, ⟨.fin 3, .fin 50, .fin 10, .fin 12⟩]) &&
    decide (P.arr P.locs .obs = [.fin 5, .fin 1, .nan, .fin 3, .nan, .fin 9, .fin 15, .fin 11]) &&
    decide (P.thresholds = [.fin 5]) &&
    decide (P.var = ⟨some ["Weird".toList, "variable".toList], none, some (.fin 0), none⟩)
  | .error _ => false

example : checkB = true := by decide +kernel

/-- the hypotheses of the theorems are satisfiable: both layouts are well-formed, so the round
trip and the layout-irrelevance theorem apply to this table -/
example : ∃ P, parse (render T0 La) = .ok P ∧ Faithful T0 La P := C09_roundtrip T0 La wfa
example : ∃ P, parse (render T0 Lb) = .ok P ∧ Faithful T0 Lb P := C09_roundtrip T0 Lb wfb

example (P₁ P₂ : Parsed) (e₁ : parse (render T0 La) = .ok P₁) (e₂ : parse (render T0 Lb) = .ok P₂) :
    P₁.times = P₂.times ∧ P₁.leads = P₂.leads ∧ P₁.var = P₂.var :=
  let r := C09_layout_irrelevant T0 La Lb wfa wfb P₁ P₂ e₁ e₂
  ⟨r.1, r.2.1, r.2.2.1⟩

/-- C09_classify is not vacuous: one word of each class -/
example : isRegular wObs = true ∧ isQ ⟨"q0.25".toList, .bad "", .num (1/4)⟩ = true ∧
    isP wP5 = true ∧ isE ⟨"e10".toList, .bad "", .num 10⟩ = true ∧
    isOther ⟨"pit".toList, .bad "", .bad ""⟩ = true ∧ isOther ⟨"q".toList, .bad "", .bad ""⟩ = true ∧
    isOther ⟨"p5x".toList, .bad "", .bad ""⟩ = true := by decide +kernel

end VerifModel.C09
