import VerifModel.Model.ThresholdDefaults
import VerifModel.Spec.Options
import Proofs.Lemmas.XR
import Mathlib.Tactic.Ring
import Mathlib.Tactic.FieldSimp
import Mathlib.Tactic.Linarith
/-
  C13 — the thresholds / quantiles the driver chooses when `-r` / `-q` are absent
  (`Model/ThresholdDefaults.lean`, driver.py:511-572).

  * `C13_default_thresholds`  the automatic list is the documented one: 20 values, the first the smallest
                              and the last the largest observed / forecast value, evenly spaced;
  * `C13_data_thresholds`     scores of stored probabilities get exactly the thresholds stored in the files
                              ("No thresholds available" iff there are none), quantile scores exactly the
                              stored quantiles;
  * `C13_quantile_count`      the count errors fire exactly outside [min, max].
-/
namespace VerifModel.C13
open VerifModel ThresholdDefaults Dispatch Spec.Options XR

/-! ### minimum and maximum of the values -/

/-- the finite values of a vector -/
def finVals (v : List XR) : List Rat := v.filterMap fun x => match x with | .fin q => some q | _ => none

/-- the values the automatic thresholds are computed from: the finite observations (if the files have
observations) followed by the finite forecasts (if they have forecasts) -/
def dataVals (d : Summary) : List Rat :=
  (if d.hasObs then finVals d.obs else []) ++ (if d.hasFcst then finVals d.fcst else [])

private def rmin (a b : Rat) : Rat := if b < a then b else a
private def rmax (a b : Rat) : Rat := if a < b then b else a

private theorem min_fin (a b : Rat) : XR.min (.fin a) (.fin b) = .fin (rmin a b) := by
  simp only [XR.min, XR.lt, rmin]
  by_cases h : b < a <;> simp [h]

private theorem max_fin (a b : Rat) : XR.max (.fin a) (.fin b) = .fin (rmax a b) := by
  simp only [XR.max, XR.lt, rmax]
  by_cases h : a < b <;> simp [h]

private theorem foldl_min_fin (qs : List Rat) (q : Rat) :
    (qs.map XR.fin).foldl XR.min (.fin q) = .fin (qs.foldl rmin q) := by
  induction qs generalizing q with
  | nil => rfl
  | cons x xs ih => simp only [List.map_cons, List.foldl_cons, min_fin, ih]

private theorem foldl_max_fin (qs : List Rat) (q : Rat) :
    (qs.map XR.fin).foldl XR.max (.fin q) = .fin (qs.foldl rmax q) := by
  induction qs generalizing q with
  | nil => rfl
  | cons x xs ih => simp only [List.map_cons, List.foldl_cons, max_fin, ih]

private theorem foldl_rmin_spec (qs : List Rat) (q : Rat) : IsMin (q :: qs) (qs.foldl rmin q) := by
  induction qs generalizing q with
  | nil => exact ⟨by simp, by intro v hv; simp at hv; subst hv; exact le_refl _⟩
  | cons x xs ih =>
    obtain ⟨hm, hle⟩ := ih (rmin q x)
    have hr : rmin q x ≤ q ∧ rmin q x ≤ x ∧ (rmin q x = q ∨ rmin q x = x) := by
      unfold rmin
      split
      · next h => exact ⟨le_of_lt h, le_refl _, Or.inr rfl⟩
      · next h => exact ⟨le_refl _, not_lt.1 h, Or.inl rfl⟩
    refine ⟨?_, ?_⟩
    · simp only [List.foldl_cons]
      rcases List.mem_cons.1 hm with h | h
      · rw [h]; rcases hr.2.2 with e | e <;> rw [e] <;> simp
      · exact List.mem_cons_of_mem _ (List.mem_cons_of_mem _ h)
    · intro v hv
      simp only [List.foldl_cons]
      have hbase := hle (rmin q x) (by simp)
      rcases List.mem_cons.1 hv with h | h
      · rw [h]; exact le_trans hbase hr.1
      · rcases List.mem_cons.1 h with h | h
        · rw [h]; exact le_trans hbase hr.2.1
        · exact hle v (List.mem_cons_of_mem _ h)

private theorem foldl_rmax_spec (qs : List Rat) (q : Rat) : IsMax (q :: qs) (qs.foldl rmax q) := by
  induction qs generalizing q with
  | nil => exact ⟨by simp, by intro v hv; simp at hv; subst hv; exact le_refl _⟩
  | cons x xs ih =>
    obtain ⟨hm, hle⟩ := ih (rmax q x)
    have hr : q ≤ rmax q x ∧ x ≤ rmax q x ∧ (rmax q x = q ∨ rmax q x = x) := by
      unfold rmax
      split
      · next h => exact ⟨le_of_lt h, le_refl _, Or.inr rfl⟩
      · next h => exact ⟨le_refl _, not_lt.1 h, Or.inl rfl⟩
    refine ⟨?_, ?_⟩
    · simp only [List.foldl_cons]
      rcases List.mem_cons.1 hm with h | h
      · rw [h]; rcases hr.2.2 with e | e <;> rw [e] <;> simp
      · exact List.mem_cons_of_mem _ (List.mem_cons_of_mem _ h)
    · intro v hv
      simp only [List.foldl_cons]
      have hbase := hle (rmax q x) (by simp)
      rcases List.mem_cons.1 hv with h | h
      · rw [h]; exact le_trans hr.1 hbase
      · rcases List.mem_cons.1 h with h | h
        · rw [h]; exact le_trans hr.2.1 hbase
        · exact hle v (List.mem_cons_of_mem _ h)

private theorem filter_notNan (v : List XR) (h : ∀ x ∈ v, x.isInf = false) :
    v.filter notNan = (finVals v).map XR.fin := by
  induction v with
  | nil => rfl
  | cons x xs ih =>
    have ih' := ih (fun y hy => h y (List.mem_cons_of_mem _ hy))
    have hx := h x (by simp)
    cases x with
    | fin q => simp [finVals, notNan, XR.isNan] at ih' ⊢; exact ih'
    | nan => simp [finVals, notNan, XR.isNan] at ih' ⊢; exact ih'
    | pinf => simp [XR.isInf] at hx
    | ninf => simp [XR.isInf] at hx

private theorem nanmin_spec (v : List XR) (h : ∀ x ∈ v, x.isInf = false) (hne : finVals v ≠ []) :
    ∃ m, nanmin v = .fin m ∧ IsMin (finVals v) m := by
  unfold nanmin
  rw [filter_notNan v h]
  cases hv : finVals v with
  | nil => exact absurd hv hne
  | cons q qs =>
    simp only [List.map_cons]
    exact ⟨_, foldl_min_fin qs q, foldl_rmin_spec qs q⟩

private theorem nanmax_spec (v : List XR) (h : ∀ x ∈ v, x.isInf = false) (hne : finVals v ≠ []) :
    ∃ m, nanmax v = .fin m ∧ IsMax (finVals v) m := by
  unfold nanmax
  rw [filter_notNan v h]
  cases hv : finVals v with
  | nil => exact absurd hv hne
  | cons q qs =>
    simp only [List.map_cons]
    exact ⟨_, foldl_max_fin qs q, foldl_rmax_spec qs q⟩

private theorem min_pinf (a : Rat) : XR.min (.fin a) .pinf = .fin a := by simp [XR.min, XR.lt]
private theorem max_ninf (a : Rat) : XR.max (.fin a) .ninf = .fin a := by simp [XR.max, XR.lt]

private theorem isMin_append {l1 l2 : List Rat} {a b : Rat} (h1 : IsMin l1 a) (h2 : IsMin l2 b) :
    IsMin (l1 ++ l2) (rmin b a) := by
  unfold rmin
  by_cases h : a < b
  · simp only [h, if_true]
    refine ⟨List.mem_append_left _ h1.1, ?_⟩
    intro v hv
    rcases List.mem_append.1 hv with hv | hv
    · exact h1.2 v hv
    · exact le_trans (le_of_lt h) (h2.2 v hv)
  · simp only [h, if_false]
    refine ⟨List.mem_append_right _ h2.1, ?_⟩
    intro v hv
    rcases List.mem_append.1 hv with hv | hv
    · exact le_trans (not_lt.1 h) (h1.2 v hv)
    · exact h2.2 v hv

private theorem isMax_append {l1 l2 : List Rat} {a b : Rat} (h1 : IsMax l1 a) (h2 : IsMax l2 b) :
    IsMax (l1 ++ l2) (rmax b a) := by
  unfold rmax
  by_cases h : b < a
  · simp only [h, if_true]
    refine ⟨List.mem_append_left _ h1.1, ?_⟩
    intro v hv
    rcases List.mem_append.1 hv with hv | hv
    · exact h1.2 v hv
    · exact le_trans (h2.2 v hv) (le_of_lt h)
  · simp only [h, if_false]
    refine ⟨List.mem_append_right _ h2.1, ?_⟩
    intro v hv
    rcases List.mem_append.1 hv with hv | hv
    · exact le_trans (h1.2 v hv) (not_lt.1 h)
    · exact h2.2 v hv

/-- the hypotheses under which the documentation determines the automatic thresholds: no infinite
value, at least one of obs / fcst among the fields, and every field that is there has a value -/
structure HasValues (d : Summary) : Prop where
  noInf : ∀ x ∈ d.obs ++ d.fcst, x.isInf = false
  some : d.hasObs = true ∨ d.hasFcst = true
  obs : d.hasObs = true → finVals d.obs ≠ []
  fcst : d.hasFcst = true → finVals d.fcst ≠ []

private theorem smin_spec (d : Summary) (h : HasValues d) : ∃ lo, smin d = .fin lo ∧ IsMin (dataVals d) lo := by
  have ho : ∀ x ∈ d.obs, x.isInf = false := fun x hx => h.noInf x (List.mem_append_left _ hx)
  have hf : ∀ x ∈ d.fcst, x.isInf = false := fun x hx => h.noInf x (List.mem_append_right _ hx)
  unfold smin dataVals
  cases hO : d.hasObs <;> cases hF : d.hasFcst
  · rcases h.some with e | e
    · rw [hO] at e; cases e
    · rw [hF] at e; cases e
  · obtain ⟨m, e, hm⟩ := nanmin_spec d.fcst hf (h.fcst hF)
    exact ⟨m, by simp [e, min_pinf], by simpa using hm⟩
  · obtain ⟨m, e, hm⟩ := nanmin_spec d.obs ho (h.obs hO)
    exact ⟨m, by simp [e, min_pinf], by simpa using hm⟩
  · obtain ⟨m, e, hm⟩ := nanmin_spec d.obs ho (h.obs hO)
    obtain ⟨m', e', hm'⟩ := nanmin_spec d.fcst hf (h.fcst hF)
    refine ⟨rmin m' m, ?_, ?_⟩
    · simp [e, e', min_pinf, min_fin]
    · simpa using isMin_append hm hm'

private theorem smax_spec (d : Summary) (h : HasValues d) : ∃ hi, smax d = .fin hi ∧ IsMax (dataVals d) hi := by
  have ho : ∀ x ∈ d.obs, x.isInf = false := fun x hx => h.noInf x (List.mem_append_left _ hx)
  have hf : ∀ x ∈ d.fcst, x.isInf = false := fun x hx => h.noInf x (List.mem_append_right _ hx)
  unfold smax dataVals
  cases hO : d.hasObs <;> cases hF : d.hasFcst
  · rcases h.some with e | e
    · rw [hO] at e; cases e
    · rw [hF] at e; cases e
  · obtain ⟨m, e, hm⟩ := nanmax_spec d.fcst hf (h.fcst hF)
    exact ⟨m, by simp [e, max_ninf], by simpa using hm⟩
  · obtain ⟨m, e, hm⟩ := nanmax_spec d.obs ho (h.obs hO)
    exact ⟨m, by simp [e, max_ninf], by simpa using hm⟩
  · obtain ⟨m, e, hm⟩ := nanmax_spec d.obs ho (h.obs hO)
    obtain ⟨m', e', hm'⟩ := nanmax_spec d.fcst hf (h.fcst hF)
    refine ⟨rmax m' m, ?_, ?_⟩
    · simp [e, e', max_ninf, max_fin]
    · simpa using isMax_append hm hm'

/-! ### linspace -/

private theorem linspace_fin (a b : Rat) (n : Nat) (hn : n ≠ 0) :
    linspace (.fin a) (.fin b) n =
      ((List.range n).map fun (k : Nat) => XR.fin (a + (k : Rat) * ((b - a) / (n : Rat)))) ++ [XR.fin b] := by
  have hq : (n : Rat) ≠ 0 := by exact_mod_cast hn
  simp only [linspace]
  congr 1
  apply List.map_congr_left
  intro k _
  simp only [XR.ofNat, fin_sub, fin_div_ne _ _ hq, fin_mul, fin_add]

/-- **C13_default_thresholds.**  When the score needs thresholds on the observed / forecast values and
`-r` is absent, the list the driver builds is the documented one: it has 20 entries, starts at the
smallest and ends at the largest finite observed / forecast value (of the fields the files have), and
neighbouring entries are the same distance apart — for every dataset without infinite values in which
every field that is present has at least one value. -/
theorem C13_default_thresholds (d : Summary) (h : HasValues d) :
    ∃ l : List Rat, defaultThresholds d = l.map XR.fin ∧ IsAutoThresholds (dataVals d) l := by
  obtain ⟨lo, elo, hlo⟩ := smin_spec d h
  obtain ⟨hi, ehi, hhi⟩ := smax_spec d h
  let f : Nat → Rat := fun k => lo + (k : Rat) * ((hi - lo) / ((19 : Nat) : Rat))
  refine ⟨(List.range 19).map f ++ [hi], ?_, lo, hi, (hi - lo) / 19, hlo, hhi, by simp, ?_, ?_, ?_⟩
  · unfold defaultThresholds nDefault
    rw [elo, ehi, linspace_fin lo hi 19 (by decide)]
    simp [f]
  · simp [f]
  · rw [List.getElem?_append_right (by simp)]; simp
  · intro k hk
    by_cases hk' : k + 1 < 19
    · refine ⟨f k, f (k + 1), ?_, ?_, ?_⟩
      · rw [List.getElem?_append_left (by simp; omega)]; simp [hk]
      · rw [List.getElem?_append_left (by simp; omega)]; simp [hk']
      · simp only [f]; push_cast; ring
    · have e : k = 18 := by omega
      subst e
      refine ⟨f 18, hi, ?_, ?_, ?_⟩
      · rw [List.getElem?_append_left (by simp)]; simp
      · rw [List.getElem?_append_right (by simp)]; simp
      · simp only [f]; push_cast; ring

/-- non-vacuity: obs 3, NaN, 5 and fcst 7, 6 give 3, 3 + 4/19, …, 7 -/
example : HasValues ⟨[.fin 3, .nan, .fin 5], [.fin 7, .fin 6], [], [], true, true⟩ :=
  ⟨by intro x hx; simp at hx; rcases hx with h | h | h | h | h <;> subst h <;> rfl, Or.inl rfl,
   fun _ => by decide, fun _ => by decide⟩

example : defaultThresholds ⟨[.fin 3, .nan, .fin 5], [.fin 7, .fin 6], [], [], true, true⟩ =
    (List.range 20).map fun (k : Nat) => XR.fin (3 + (k : Rat) * 4 / 19) := by decide +kernel

/-! ### thresholds and quantiles stored in the files, count limits -/

/-- **C13_data_thresholds.**  A score of stored probabilities (threshold source `data`) without `-r`
gets exactly the thresholds stored in the files, in their order, and the run stops with the error message
exactly when there are none; a score that needs quantiles without `-q` gets exactly the stored
quantiles (subject to the count limits, `C13_quantile_count`). -/
theorem C13_data_thresholds (nd : NameD) (td : TypeD) (axis : Option (String × AxisKind))
    (q : Option (List XR)) (d : Summary)
    (hsrc : thresholdSource nd td (effAxis nd axis false).2 = .ok .dataThresholds) :
    (needsQuantiles nd = false →
      defaults nd td axis none q d =
        if d.thresholds.isEmpty then .error else .vals (some d.thresholds) q) ∧
    (needsQuantiles nd = true → d.thresholds.isEmpty = false → countOk nd d.quantiles.length = true →
      defaults nd td axis none none d = .vals (some d.quantiles) (some d.quantiles)) := by
  constructor
  · intro hq
    simp only [defaults, Option.isSome_none, hsrc, evalThr, quantileSource, hq, Bool.false_eq_true, if_false]
    by_cases he : d.thresholds.isEmpty = true <;> simp [he]
  · intro hq he hc
    simp only [defaults, Option.isSome_none, hsrc, evalThr, he, quantileSource, hq, if_true,
      Option.map_none, Option.getD_none, hc]
    simp

/-- the effective number of quantiles: those given with `-q`, else those stored in the files -/
def nQuantiles (q : Option (List XR)) (d : Summary) : Nat :=
  match q with
  | some l => l.length
  | none => d.quantiles.length

/-- **C13_quantile_count.**  For a score that needs quantiles and has count limits `lo … hi`
(`min_num_thresholds`, `max_num_thresholds`), once the threshold part is settled the run stops with the
error message exactly when the number of quantiles in effect (given with `-q`, else stored in the files) is
outside `[lo, hi]`, and otherwise `pl.thresholds` and `pl.quantiles` both hold exactly those quantiles. -/
theorem C13_quantile_count (nd : NameD) (td : TypeD) (axis : Option (String × AxisKind))
    (r q : Option (List XR)) (d : Summary) (lo hi : Nat)
    (hq : needsQuantiles nd = true) (hlo : nd.minQ = some lo) (hhi : nd.maxQ = some hi)
    (hthr : ∃ s0 t, thresholdSource nd td (effAxis nd axis r.isSome).2 = .ok s0 ∧ evalThr s0 r d = some t)
    (hne : ∀ l, q = some l → l ≠ []) :
    (nQuantiles q d < lo ∨ hi < nQuantiles q d → defaults nd td axis r q d = .error) ∧
    (lo ≤ nQuantiles q d ∧ nQuantiles q d ≤ hi →
      defaults nd td axis r q d = .vals (some (q.getD d.quantiles)) (some (q.getD d.quantiles))) := by
  obtain ⟨s0, t, hs, ht⟩ := hthr
  cases q with
  | none =>
    simp only [nQuantiles, defaults, hs, ht, quantileSource, hq, if_true, Option.map_none, Option.getD_none,
      countOk, hlo, hhi]
    constructor
    · intro h
      have : (decide (lo ≤ d.quantiles.length) && decide (d.quantiles.length ≤ hi)) = false := by
        rcases h with h | h <;> simp <;> omega
      simp [this]
    · intro h
      have : (decide (lo ≤ d.quantiles.length) && decide (d.quantiles.length ≤ hi)) = true := by
        simp; omega
      simp [this]
  | some l =>
    have hl : l.length ≠ 0 := by
      intro e; exact hne l rfl (List.length_eq_zero_iff.1 e)
    have hb : (l.length == 0) = false := by simp [hl]
    simp only [nQuantiles, defaults, hs, ht, quantileSource, hq, if_true, Option.map_some, Option.getD_some,
      hb, hlo, hhi, Bool.false_eq_true, if_false]
    constructor
    · intro h
      rcases h with h | h
      · simp [h]
      · by_cases h1 : l.length < lo <;> simp [h1, h]
    · intro h
      have h1 : ¬ l.length < lo := by omega
      have h2 : ¬ hi < l.length := by omega
      simp [h1, h2]

/-- non-vacuity on the regenerated class table: `quantilecoverage` needs quantiles and accepts 1 or 2,
`spread` and `spreadskillratio` exactly 2 — the counts the metric descriptions document -/
example : documentedQuantileCounts.all (fun e =>
    match nameD e.1 with
    | some nd => needsQuantiles nd && nd.minQ == some e.2.1 && nd.maxQ == some e.2.2
    | none => false) = true := by decide +kernel

/-- … `bs` takes the thresholds stored in the files, `ets` the automatic ones, `mae` none -/
example : (nameD "bs").map (fun nd => thresholdSource nd (typeD "plot") false) = some (.ok .dataThresholds) ∧
    (nameD "ets").map (fun nd => thresholdSource nd (typeD "plot") false) = some (.ok .detDefault) ∧
    (nameD "mae").map (fun nd => thresholdSource nd (typeD "plot") false) = some (.ok .none) ∧
    (nameD "mae").map (fun nd => thresholdSource nd (typeD "impact") false) = some (.ok .detDefault) := by
  decide +kernel

end VerifModel.C13
