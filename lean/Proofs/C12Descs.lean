import VerifModel.Model.OutputDescs
/-
  C12 — what the leading "Threshold" column of a text / csv table holds (`-x threshold`).

  Model: `Model/OutputDescs.lean` (`plThresholds` = what the driver leaves in `pl.thresholds`,
  `thresholdColumn` = header name and one value per row).  The theorems hold for every metric /
  output description `nd`, every `-type`, axis, bin type and every `-r`, `-q`, stored thresholds and
  stored quantiles; they do not depend on the content of the regenerated class table.

  * `C12_descs_quantile`        for a metric that requires quantiles the column holds the QUANTILE LEVELS
                                (`-q`, or the quantiles stored in the files), whatever `-r` says;
  * `C12_descs_not_quantile`    for every other metric `-q` has no influence on the column;
  * `C12_descs_given`           a metric that takes thresholds shows the `-r` values when `-r` is given and
                                the axis is kept;
  * `C12_threshold_column_rows` the column is headed `Threshold` and row i shows value i of that list, one
                                row per interval: all n values for `below*` / `above*`, the first n − 1 (the
                                lower edges) for the `within` family.
-/
namespace VerifModel.C12
open VerifModel Dispatch OutputDescs

private theorem quantileSource_q (nd : NameD) (nQ : Nat) (s0 src : ThrSrc)
    (hq : needsQuantiles nd = true) (h : quantileSource nd nQ s0 = .ok src) :
    (nQ = 0 ∧ src = .qData) ∨ (nQ ≠ 0 ∧ src = .qGiven) := by
  unfold quantileSource at h
  rw [if_pos hq] at h
  by_cases hn : nQ = 0
  · subst hn
    simp only [beq_self_eq_true, if_true, Except.ok.injEq] at h
    exact Or.inl ⟨rfl, h.symm⟩
  · have hb : (nQ == 0) = false := by simpa using hn
    rw [hb] at h
    simp only [Bool.false_eq_true, if_false] at h
    cases hmin : nd.minQ <;> cases hmax : nd.maxQ <;> simp only [hmin, hmax] at h <;>
      (repeat' split at h) <;> cases h <;> exact Or.inr ⟨hn, rfl⟩

/-- **Quantile metrics: the Threshold column holds the quantile levels.**  If the output or the metric
requires quantiles (`require_threshold_type == "quantile"`) and the driver gets as far as the table,
`pl.thresholds` is the list given with `-q` or, without `-q`, the quantiles stored in the files — never
the `-r` values. -/
theorem C12_descs_quantile (nd : NameD) (td : TypeD) (axis : Option (String × AxisKind)) (g : Given)
    (hq : needsQuantiles nd = true) (hne : g.q ≠ some [])
    (ax : Option (String × AxisKind)) (col : Col) (h : plThresholds nd td axis g = .ok (ax, col)) :
    col = .values (match g.q with | some v => v | none => g.storedQ) := by
  unfold plThresholds at h
  generalize effAxis nd axis g.r.isSome = ea at h
  obtain ⟨ax', hasR'⟩ := ea
  simp only at h
  cases hs : thresholdSource nd td hasR' with
  | error w => rw [hs] at h; cases h
  | ok s0 =>
    rw [hs] at h
    simp only at h
    split at h
    · cases h
    · cases hqs : quantileSource nd g.nQ s0 with
      | error w => rw [hqs] at h; cases h
      | ok src =>
        rw [hqs] at h
        simp only at h
        rcases quantileSource_q nd g.nQ s0 src hq hqs with ⟨hn, rfl⟩ | ⟨hn, rfl⟩
        · simp only at h
          cases hc : countOk nd g.storedQ.length with
          | error e => rw [hc] at h; cases h
          | ok u =>
            rw [hc] at h
            simp only [Except.map, Except.ok.injEq, Prod.mk.injEq] at h
            rw [← h.2]
            cases hgq : g.q with
            | none => rfl
            | some v =>
              exfalso
              simp only [Given.nQ, hgq, List.length_eq_zero_iff] at hn
              exact hne (by rw [hgq, hn])
        · simp only [Except.ok.injEq, Prod.mk.injEq] at h
          rw [← h.2]
          cases hgq : g.q with
          | none => exact absurd (by simp [Given.nQ, hgq]) hn
          | some v => simp [colOf, hgq]

/-- the threshold step of the driver never chooses a quantile source -/
private theorem thresholdSource_not_q (nd : NameD) (td : TypeD) (hasR : Bool) (s : ThrSrc)
    (h : thresholdSource nd td hasR = .ok s) : s ≠ .qGiven ∧ s ≠ .qData := by
  unfold thresholdSource at h
  repeat' split at h
  all_goals cases h
  all_goals exact ⟨by decide, by decide⟩

/-- **Other metrics: `-q` does not reach the table.** -/
theorem C12_descs_not_quantile (nd : NameD) (td : TypeD) (axis : Option (String × AxisKind)) (g : Given)
    (hq : needsQuantiles nd = false) (q' : Option (List Rat)) :
    (plThresholds nd td axis { g with q := q' }).map (·.2) = (plThresholds nd td axis g).map (·.2) := by
  unfold plThresholds
  generalize effAxis nd axis g.r.isSome = ea
  obtain ⟨ax', hasR'⟩ := ea
  simp only
  cases hs : thresholdSource nd td hasR' with
  | error w => rfl
  | ok s0 =>
    simp only
    split
    · rfl
    · unfold quantileSource
      simp only [hq, Bool.false_eq_true, if_false]
      have hnq := thresholdSource_not_q nd td hasR' s0 hs
      cases s0 <;> first | exact absurd rfl hnq.1 | exact absurd rfl hnq.2 | rfl

/-- **`-r` is shown when it is used.**  For a metric that does not require quantiles, when `-r` is
given and the driver keeps it (`effAxis` returns `hasR = true`: `-x` is supported, or is not a threshold
/ field axis), the column holds exactly the `-r` values. -/
theorem C12_descs_given (nd : NameD) (td : TypeD) (axis : Option (String × AxisKind)) (g : Given)
    (hq : needsQuantiles nd = false) (v : List Rat) (hr : g.r = some v)
    (hkeep : (effAxis nd axis true).2 = true) :
    (plThresholds nd td axis g).map (·.2) = .ok (.values v) := by
  unfold plThresholds
  rw [hr]
  simp only [Option.isSome_some]
  generalize hea : effAxis nd axis true = ea at hkeep
  obtain ⟨ax', hasR'⟩ := ea
  simp only at hkeep
  subst hkeep
  simp only [thresholdSource, if_true]
  simp only [show ((ThrSrc.given == ThrSrc.dataThresholds) = false) from rfl, Bool.false_and,
    Bool.false_eq_true, if_false]
  unfold quantileSource
  simp only [hq, Bool.false_eq_true, if_false, Except.map, colOf, hr]

/-- **One row per interval, row i shows value i.**  Whenever the table has a threshold column it is
headed `Threshold` and consists of the first `k` values of `pl.thresholds`, `k` = number of intervals:
`n` for `below`, `below=`, `above`, `above=`; `n − 1` (the lower edges) for `within`, `=within`, `within=`,
`=within=`. -/
theorem C12_threshold_column_rows (nd : NameD) (td : TypeD) (axis : Option (String × AxisKind))
    (b : Option String) (g : Given) (hd : OutputTable.Str) (vs : List Rat)
    (h : thresholdColumn nd td axis b g = .ok (some (hd, vs))) :
    hd = "Threshold".toList ∧
    ∃ ax v k, plThresholds nd td axis g = .ok (ax, .values v) ∧
      numIntervals ((effBinType nd b).getD "above") v.length = some k ∧ vs = v.take k ∧
      (k = v.length ∨ k = v.length - 1) := by
  unfold thresholdColumn at h
  cases hp : plThresholds nd td axis g with
  | error e => rw [hp] at h; cases h
  | ok p =>
    obtain ⟨ax, col⟩ := p
    rw [hp] at h
    simp only at h
    split at h
    · cases h
    · cases col with
      | absent => cases h
      | dataDependent => cases h
      | values v =>
        simp only at h
        cases hk : numIntervals ((effBinType nd b).getD "above") v.length with
        | none => rw [hk] at h; cases h
        | some k =>
          rw [hk] at h
          simp only [Except.ok.injEq, Option.some.injEq, Prod.mk.injEq] at h
          refine ⟨h.1.symm, ax, v, k, rfl, hk, h.2.symm, ?_⟩
          unfold numIntervals at hk
          split at hk
          · right; exact (Option.some.inj hk).symm
          · split at hk
            · left; exact (Option.some.inj hk).symm
            · cases hk

/-! ### non-vacuity: the regenerated class table -/

/-- `-m quantilescore -x threshold -q 0.1,0.9 -r 1,2`: the column shows 0.1 and 0.9; `-m spread` (bin
type `within`) shows the lower level only; `-m bs -b within -r 0,2.5,5` shows 0 and 2.5 -/
private def columnIs (m kind : String) (b : Option String) (g : Given) (want : List Rat) : Bool :=
  match nameD m with
  | none => false
  | some nd =>
    match thresholdColumn nd (typeD kind) (axisD (some "threshold")) b g with
    | .ok (some (h, vs)) => h == "Threshold".toList && vs == want
    | _ => false

example :
    columnIs "quantilescore" "csv" none ⟨some [1, 2], some [1/10, 9/10], [0, 5], [1/2]⟩ [1/10, 9/10] = true ∧
    columnIs "spread" "text" none ⟨none, some [1/10, 9/10], [], []⟩ [1/10] = true ∧
    columnIs "bs" "csv" (some "within") ⟨some [0, 5/2, 5], none, [0], []⟩ [0, 5/2] = true ∧
    (nameD "quantilescore").map needsQuantiles = some true ∧ (nameD "bs").map needsQuantiles = some false := by
  decide +kernel

end VerifModel.C12
