import VerifModel.Model.PreaggData
import VerifModel.Spec.DataCoord
import VerifModel.Spec.Stats
import Proofs.C15
import Proofs.DataRefine
/-
  C15, `-T` with SEVERAL inputs (gap a of the audit).

  Full statement: with `-T h` every observation, forecast, PIT value, other score and ensemble member
  that `Data` hands to a score for input i at (time t, lead time l, location x) is the aggregate of
  the series stored by the input that SUPPLIES that field to i (i itself; for observations the first
  input that stores them when i stores none), over the trailing window (l − h, l] (or (t − 3600 h, t])
  of the SUPPLIER's OWN lead-time (time) grid — all stored coordinates take part, verified or not,
  because the pre-aggregation happens before the common subset is cut — and after that the ordinary
  rules of `Data` apply (values looked up by coordinate, a case missing in one input is missing in all).

    C15_multi_cell          preagg3 = some r → every cell of r is `f (trailing window of its own series)`
    C15_multi_field         the same for a field of an input: shape kept, coordinates kept
    C15_multi_wf            the replaced input is well-formed again
    C15_multi_input         getScoresT = the coordinate-based specification of `Data` (Spec/DataCoord)
                            evaluated on the inputs whose fields are replaced by their own-grid aggregates
    C15_multi_borrowed_obs  an input without observations gets the LENDER's pre-aggregated observations
-/
namespace VerifModel.C15
open VerifModel XR Spec.DataCoord
open VerifModel.Spec
open VerifModel.PreaggData

private theorem mapM_some' {α β : Type} (f : α → Option β) (l : List α) (r : List β)
    (h : l.mapM f = some r) :
    r.length = l.length ∧ ∀ i (hi : i < l.length), r[i]? = f l[i] := by
  induction l generalizing r with
  | nil =>
    simp only [List.mapM_nil] at h
    cases h
    exact ⟨rfl, fun i hi => absurd hi (by simp)⟩
  | cons a xs ih =>
    rw [List.mapM_cons] at h
    cases hfa : f a with
    | none => rw [hfa] at h; simp at h
    | some b =>
      rw [hfa] at h
      cases hxs : xs.mapM f with
      | none => rw [hxs] at h; simp at h
      | some bs =>
        rw [hxs] at h
        simp only [Option.pure_def, Option.bind_eq_bind, Option.bind_some, Option.some.injEq] at h
        subst h
        obtain ⟨hl, hi⟩ := ih bs hxs
        refine ⟨by simp [hl], ?_⟩
        intro i hi'
        cases i with
        | zero => simp [hfa]
        | succ j =>
          simp only [List.getElem?_cons_succ, List.getElem_cons_succ]
          exact hi j (by simpa using hi')

/-- what a successful `preagg3` returns: same nested shape, every cell is `cell` -/
private theorem preagg3_spec (f : Vec → Option XR) (scale h : XR) (coords : List XR) (k : Nat) (a r : Arr3)
    (hr : preagg3 f scale h coords k a = some r) :
    coords.length = axisLen k a ∧ r.length = a.length ∧
    ∀ t, t < a.length →
      (r.getD t []).length = (a.getD t []).length ∧
      ∀ l, l < (a.getD t []).length →
        ((r.getD t []).getD l []).length = ((a.getD t []).getD l []).length ∧
        ∀ x, x < ((a.getD t []).getD l []).length →
          cell f scale h coords k a t l x = some (r.get t l x) := by
  unfold preagg3 at hr
  split at hr
  · simp at hr
  · rename_i hlen
    obtain ⟨h1, g1⟩ := mapM_some' _ _ r hr
    simp only [List.length_range] at h1 g1
    refine ⟨by simpa using hlen, h1, ?_⟩
    intro t ht
    have e1 := g1 t ht
    simp only [List.getElem_range] at e1
    cases hrt : r[t]? with
    | none => rw [hrt] at e1; exact absurd e1.symm (by
        intro hh
        have : r[t]? ≠ none := by
          rw [List.getElem?_eq_getElem (by omega)]; simp
        exact this hrt)
    | some rt =>
      rw [hrt] at e1
      have hgetD : r.getD t [] = rt := by simp [List.getD_eq_getElem?_getD, hrt]
      obtain ⟨h2, g2⟩ := mapM_some' _ _ rt e1.symm
      simp only [List.length_range] at h2 g2
      rw [hgetD]
      refine ⟨h2, ?_⟩
      intro l hl
      have e2 := g2 l hl
      simp only [List.getElem_range] at e2
      cases hrl : rt[l]? with
      | none =>
        exfalso
        have : rt[l]? ≠ none := by rw [List.getElem?_eq_getElem (by omega)]; simp
        exact this hrl
      | some rl =>
        rw [hrl] at e2
        have hgetD2 : rt.getD l [] = rl := by simp [List.getD_eq_getElem?_getD, hrl]
        obtain ⟨h3, g3⟩ := mapM_some' _ _ rl e2.symm
        simp only [List.length_range] at h3 g3
        rw [hgetD2]
        refine ⟨h3, ?_⟩
        intro x hx
        have e3 := g3 x hx
        simp only [List.getElem_range] at e3
        rw [← e3]
        unfold Arr3.get
        rw [hgetD, hgetD2]
        rw [List.getElem?_eq_getElem (by omega)]
        simp [List.getD_eq_getElem?_getD, List.getElem?_eq_getElem (show x < rl.length by omega)]

/-- **Every cell of the pre-aggregated 3-D array is the aggregate of the trailing window of its own
series.**  For every aggregator `f`, window length, list of rational coordinates in ANY order (k = 0:
times, scale 3600; otherwise lead times, scale 1) and every array: if the call returns (`some r`) then
`r` has the nested shape of `a` and the cell (t, l, x) holds `f` applied to exactly the stored values
of the series through (t, l, x) whose coordinate lies in (c − h·scale, c], c the cell's own coordinate. -/
theorem C15_multi_cell (f : Vec → Option XR) (h scale : Rat) (cs : List Rat) (k : Nat) (a r : Arr3)
    (hr : preagg3 f (fin scale) (fin h) (cs.map fin) k a = some r) :
    r.length = a.length ∧
    ∀ t, t < a.length → (r.getD t []).length = (a.getD t []).length ∧
      ∀ l, l < (a.getD t []).length →
        ((r.getD t []).getD l []).length = ((a.getD t []).getD l []).length ∧
        ∀ x, x < ((a.getD t []).getD l []).length →
          ∀ (hp : (if k = 0 then t else l) < cs.length),
            some (r.get t l x) =
              f (Stats.window cs (series k cs.length a t l x) (h * scale) (cs[if k = 0 then t else l]'hp)) := by
  obtain ⟨_, h1, g⟩ := preagg3_spec _ _ _ _ _ _ _ hr
  refine ⟨h1, fun t ht => ?_⟩
  obtain ⟨h2, g2⟩ := g t ht
  refine ⟨h2, fun l hl => ?_⟩
  obtain ⟨h3, g3⟩ := g2 l hl
  refine ⟨h3, fun x hx hp => ?_⟩
  rw [← g3 x hx]
  unfold cell
  simp only [List.length_map]
  exact C15_window f h scale cs _ _ hp

/-! ### a field of an input -/

/-- the three coordinate lists are untouched, only `fields` changes -/
private theorem preaggInput_coords (f : Vec → Option XR) (scale h : XR) (k : Nat) (names : List String)
    (I I' : Input) (hI : preaggInput f scale h k names I = some I') :
    I'.times = I.times ∧ I'.leads = I.leads ∧ I'.locs = I.locs ∧
    I.fields.mapM (fun p =>
      if names.contains p.1 then (preagg3 f scale h (coordsOf k I) k p.2).map fun r => (p.1, r)
      else some p) = some I'.fields := by
  unfold preaggInput at hI
  cases hm : I.fields.mapM (fun p =>
      if names.contains p.1 then (preagg3 f scale h (coordsOf k I) k p.2).map fun r => (p.1, r)
      else some p) with
  | none => rw [hm] at hI; simp at hI
  | some fs =>
    rw [hm] at hI
    simp only [Option.map_some, Option.some.injEq] at hI
    subst hI
    exact ⟨rfl, rfl, rfl, rfl⟩

/-- lookup in an association list mapped entry by entry with keys kept -/
private theorem lookup_mapM (g : String × Arr3 → Option (String × Arr3))
    (hg : ∀ p q, g p = some q → q.1 = p.1) (fs fs' : List (String × Arr3))
    (h : fs.mapM g = some fs') (name : String) :
    fs'.lookup name = (fs.lookup name).bind fun a => (g (name, a)).map (·.2) := by
  induction fs generalizing fs' with
  | nil =>
    simp only [List.mapM_nil] at h
    cases h
    rfl
  | cons p ps ih =>
    rw [List.mapM_cons] at h
    cases hgp : g p with
    | none => rw [hgp] at h; simp at h
    | some q =>
      rw [hgp] at h
      cases hps : ps.mapM g with
      | none => rw [hps] at h; simp at h
      | some qs =>
        rw [hps] at h
        simp only [Option.pure_def, Option.bind_eq_bind, Option.bind_some, Option.some.injEq] at h
        subst h
        have hk := hg p q hgp
        obtain ⟨pn, pa⟩ := p
        obtain ⟨qn, qa⟩ := q
        simp only at hk
        subst hk
        simp only [List.lookup_cons]
        by_cases hn : name == qn
        · simp only [hn]
          have : name = qn := by simpa using hn
          subst this
          simp [hgp]
        · simp only [hn]
          exact ih qs hps

/-- a successful entry-by-entry map succeeded on the entry a lookup finds -/
private theorem lookup_mapM_isSome (g : String × Arr3 → Option (String × Arr3))
    (fs fs' : List (String × Arr3)) (h : fs.mapM g = some fs') (name : String) (a : Arr3)
    (hl : fs.lookup name = some a) : ∃ q, g (name, a) = some q := by
  induction fs generalizing fs' with
  | nil => simp [List.lookup] at hl
  | cons p ps ih =>
    rw [List.mapM_cons] at h
    cases hgp : g p with
    | none => rw [hgp] at h; simp at h
    | some q =>
      rw [hgp] at h
      cases hps : ps.mapM g with
      | none => rw [hps] at h; simp at h
      | some qs =>
        obtain ⟨pn, pa⟩ := p
        simp only [List.lookup_cons] at hl
        by_cases hn : name == pn
        · simp only [hn] at hl
          have : name = pn := by simpa using hn
          subst this
          cases hl
          exact ⟨q, hgp⟩
        · simp only [hn] at hl
          exact ih qs hps hl

/-- a requested field of the replaced input is the pre-aggregate of the stored field -/
private theorem preaggInput_field (f : Vec → Option XR) (scale h : XR) (k : Nat) (names : List String)
    (I I' : Input) (hI : preaggInput f scale h k names I = some I') (name : String) :
    I'.field? name = (I.field? name).bind fun a =>
      if names.contains name then preagg3 f scale h (coordsOf k I) k a else some a := by
  obtain ⟨_, _, _, hm⟩ := preaggInput_coords f scale h k names I I' hI
  unfold Input.field?
  rw [lookup_mapM _ ?_ _ _ hm name]
  · cases I.fields.lookup name with
    | none => rfl
    | some a =>
      simp only [Option.bind_some]
      by_cases hc : names.contains name
      · simp only [hc, if_true, Option.map_map]
        cases preagg3 f scale h (coordsOf k I) k a <;> rfl
      · have hc' : ¬ name ∈ names := by simpa using hc
        simp [hc']
  · intro p q hpq
    by_cases hc : names.contains p.1
    · simp only [hc, if_true] at hpq
      cases hx : preagg3 f scale h (coordsOf k I) k p.2 with
      | none => rw [hx] at hpq; simp at hpq
      | some r => rw [hx] at hpq; simp at hpq; rw [← hpq]
    · simp only [hc] at hpq
      simp at hpq
      rw [← hpq]

private theorem getD_mem {α : Type} (l : List α) (t : Nat) (d : α) (ht : t < l.length) : l.getD t d ∈ l := by
  rw [List.getD_eq_getElem?_getD, List.getElem?_eq_getElem ht]
  exact List.getElem_mem ht

private theorem mem_getD {α : Type} (l : List α) (p : α) (d : α) (hp : p ∈ l) : ∃ t, t < l.length ∧ l.getD t d = p := by
  obtain ⟨t, ht, e⟩ := List.getElem_of_mem hp
  exact ⟨t, ht, by rw [List.getD_eq_getElem?_getD, List.getElem?_eq_getElem ht]; simpa using e⟩

/-- a pre-aggregated array has the declared shape again -/
private theorem shapeOK_preagg (f : Vec → Option XR) (scale h : XR) (coords : List XR) (k : Nat)
    (I I' : Input) (hT : I'.times = I.times) (hL : I'.leads = I.leads) (hX : I'.locs = I.locs)
    (a r : Arr3) (ha : shapeOK I a = true) (hr : preagg3 f scale h coords k a = some r) :
    shapeOK I' r = true := by
  obtain ⟨s1, s2⟩ := (DataRefine.shapeOK_iff I a).1 ha
  obtain ⟨_, h1, g⟩ := preagg3_spec _ _ _ _ _ _ _ hr
  rw [DataRefine.shapeOK_iff, hT, hL, hX]
  refine ⟨by omega, ?_⟩
  intro p hp
  obtain ⟨t, ht, e⟩ := mem_getD r p [] hp
  have hta : t < a.length := by omega
  obtain ⟨h2, g2⟩ := g t hta
  have hpa := s2 _ (getD_mem a t [] hta)
  refine ⟨by rw [← e, h2]; exact hpa.1, ?_⟩
  intro row hrow
  rw [← e] at hrow
  obtain ⟨l, hl, e2⟩ := mem_getD _ row [] hrow
  have hla : l < (a.getD t []).length := by omega
  obtain ⟨h3, _⟩ := g2 l hla
  rw [← e2, h3]
  exact hpa.2 _ (getD_mem _ l [] hla)

/-- **A field of an input under `-T`.**  If input `I` stores field `name` as an array `a` of the declared
shape, its own coordinates along the aggregation axis are the rationals `cs`, and the field is among
those the request loads, then the replaced input `I'` has the same times, lead times and locations,
stores an array `r` of the same shape under that name, and for every position (t, l, x) of the input
— verified or not — `r` holds the aggregate of the trailing window of `I`'s OWN stored series on `I`'s
OWN grid. -/
theorem C15_multi_field (f : Vec → Option XR) (h scale : Rat) (k : Nat) (names : List String)
    (I I' : Input) (cs : List Rat) (hcs : coordsOf k I = cs.map fin)
    (hI : preaggInput f (fin scale) (fin h) k names I = some I')
    (name : String) (hn : names.contains name = true) (a : Arr3) (hf : I.field? name = some a)
    (ha : shapeOK I a = true) :
    I'.times = I.times ∧ I'.leads = I.leads ∧ I'.locs = I.locs ∧
    ∃ r, I'.field? name = some r ∧ shapeOK I' r = true ∧
      ∀ t l x, t < I.times.length → l < I.leads.length → x < I.locs.length →
        ∀ (hp : (if k = 0 then t else l) < cs.length),
          some (r.get t l x) =
            f (Stats.window cs (series k cs.length a t l x) (h * scale) (cs[if k = 0 then t else l]'hp)) := by
  obtain ⟨hT, hL, hX, _⟩ := preaggInput_coords _ _ _ _ _ _ _ hI
  refine ⟨hT, hL, hX, ?_⟩
  have hfield := preaggInput_field _ _ _ _ _ _ _ hI name
  rw [hf] at hfield
  simp only [Option.bind_some, hn, if_true, hcs] at hfield
  cases hr : preagg3 f (fin scale) (fin h) (cs.map fin) k a with
  | none =>
    exfalso
    obtain ⟨_, _, _, hm⟩ := preaggInput_coords _ _ _ _ _ _ _ hI
    obtain ⟨q, hq⟩ := lookup_mapM_isSome _ _ _ hm name a hf
    simp only [hn, if_true, hcs, hr, Option.map_none] at hq
    exact absurd hq (by simp)
  | some r =>
    rw [hr] at hfield
    refine ⟨r, hfield, shapeOK_preagg _ _ _ _ _ I I' hT hL hX a r ha hr, ?_⟩
    obtain ⟨s1, s2⟩ := (DataRefine.shapeOK_iff I a).1 ha
    obtain ⟨_, g⟩ := C15_multi_cell f h scale cs k a r hr
    intro t l x ht hl hx hp
    have hta : t < a.length := by omega
    have hpa := s2 _ (getD_mem a t [] hta)
    obtain ⟨_, g2⟩ := g t hta
    have hla : l < (a.getD t []).length := by omega
    obtain ⟨_, g3⟩ := g2 l hla
    have hrow := hpa.2 _ (getD_mem _ l [] hla)
    exact g3 x (by omega) hp

/-! ### the whole request -/

/-- shapes are a matter of the three coordinate lists' lengths only -/
private theorem shapeOK_congr (I I' : Input) (hT : I'.times = I.times) (hL : I'.leads = I.leads)
    (hX : I'.locs = I.locs) (a : Arr3) (ha : shapeOK I a = true) : shapeOK I' a = true := by
  rw [DataRefine.shapeOK_iff] at ha ⊢
  rw [hT, hL, hX]; exact ha

/-- the replaced input is well-formed again: every field, replaced or not, has the declared shape -/
theorem C15_multi_wf (f : Vec → Option XR) (scale h : XR) (k : Nat) (names : List String)
    (I I' : Input) (hw : wfInput I = true) (hI : preaggInput f scale h k names I = some I') :
    wfInput I' = true := by
  obtain ⟨hT, hL, hX, hm⟩ := preaggInput_coords _ _ _ _ _ _ _ hI
  obtain ⟨hlen, gm⟩ := mapM_some' _ _ _ hm
  unfold wfInput at hw ⊢
  rw [List.all_eq_true] at hw ⊢
  intro q hq
  obtain ⟨i, hi, e⟩ := List.getElem_of_mem hq
  have hi' : i < I.fields.length := by omega
  have hg := gm i hi'
  rw [List.getElem?_eq_getElem hi, e] at hg
  have hp := hw _ (List.getElem_mem hi')
  by_cases hc : names.contains I.fields[i].1
  · simp only [hc, if_true] at hg
    cases hr : preagg3 f scale h (coordsOf k I) k I.fields[i].2 with
    | none => rw [hr] at hg; simp at hg
    | some r =>
      rw [hr] at hg
      simp only [Option.map_some, Option.some.injEq] at hg
      rw [hg]
      exact shapeOK_preagg _ _ _ _ _ I I' hT hL hX _ r hp hr
  · simp only [hc] at hg
    simp only [Bool.false_eq_true, if_false, Option.some.injEq] at hg
    rw [hg]
    exact shapeOK_congr I I' hT hL hX _ hp

private theorem mapM_all_wf (g : Input → Option Input)
    (hg : ∀ I I', wfInput I = true → g I = some I' → wfInput I' = true)
    (l l' : List Input) (hl : l.all wfInput = true) (h : l.mapM g = some l') : l'.all wfInput = true := by
  obtain ⟨hlen, gm⟩ := mapM_some' _ _ _ h
  rw [List.all_eq_true] at hl ⊢
  intro q hq
  obtain ⟨i, hi, e⟩ := List.getElem_of_mem hq
  have hi' : i < l.length := by omega
  have := gm i hi'
  rw [List.getElem?_eq_getElem hi, e] at this
  exact hg _ _ (hl _ (List.getElem_mem hi')) this.symm

/-- **`-T` with several inputs, end to end.**  Whenever the `Data` object can be built and NumPy does not
raise, the answer of `Data(inputs, dim_agg_*).get_scores(r)` is the coordinate-based specification of
`Data` (Spec/DataCoord: verified dimensions = values every input has; values looked up by coordinate;
observations of an input that stores none = those of the first input that stores them; a case counts
iff every input has a usable value) evaluated on the inputs `scored'` / climatology `clim'` whose
loaded fields are, by `C15_multi_field`, the trailing-window aggregates of each input's own series on
its own grid.  In particular the pre-aggregation precedes the cut to the common subset, and a borrowed
observation is aggregated on the lender's grid (`C15_multi_borrowed_obs`). -/
theorem C15_multi_input (f : Vec → Option XR) (scale h : XR) (k : Nat) (scored : List Input) (cfg : Cfg)
    (r : Req) (hw : (allInputs scored cfg).all wfInput = true)
    (scored' : List Input) (clim' : Option Input)
    (hs : scored.mapM (preaggInput f scale h k (loaded cfg r.fields)) = some scored')
    (hc : cfg.clim.mapM (preaggInput f scale h k (loaded cfg r.fields)) = some clim')
    (D0 D : DataS) (h0 : Data.init scored cfg = .ok D0)
    (hD : Data.init scored' { cfg with clim := clim' } = .ok D) :
    getScoresT f scale h k scored cfg r = some (specScores scored' { cfg with clim := clim' } r) := by
  unfold getScoresT
  rw [h0]
  simp only [hs, hc, hD]
  congr 1
  apply DataRefine.getScores_refines scored' _ D hD
  unfold allInputs at hw ⊢
  rw [List.all_append] at hw ⊢
  rw [Bool.and_eq_true] at hw ⊢
  refine ⟨mapM_all_wf _ (fun I I' => C15_multi_wf f scale h k _ I I') _ _ hw.1 hs, ?_⟩
  simp only
  cases hcl : cfg.clim with
  | none =>
    rw [hcl] at hc
    simp [Option.mapM] at hc
    subst hc; rfl
  | some C =>
    rw [hcl] at hc hw
    cases hC : preaggInput f scale h k (loaded cfg r.fields) C with
    | none => simp [Option.mapM, hC] at hc
    | some C' =>
      simp [Option.mapM, hC] at hc
      subst hc
      have := C15_multi_wf f scale h k _ C C' (by simpa using hw.2) hC
      simpa using this

/-- an input that stores no observations is given the observations of the first input that stores
them — under `-T` those are the LENDER's pre-aggregated values (its own series, its own grid) -/
theorem C15_multi_borrowed_obs (inputs : List Input) (I J : Input) (c : Coord)
    (hI : hasField "obs" I = false) (hJ : inputs.find? (hasField "obs") = some J) :
    fieldValue inputs "obs" I c = DataRefine.ownValue J "obs" c := by
  rw [DataRefine.fieldValue_eq]
  unfold supplier
  simp [hI, hJ]

/-! ### non-vacuity: two inputs on different lead-time grids, the second without observations -/

/-- input A: lead times 0, 1, 2, 4 — input B: lead times 4, 1, 3 (NetCDF order), no observations -/
def mA : Input :=
  { times := [0], leads := [0, 1, 2, 4], locs := [⟨1, 0, 0, 0⟩],
    fields := [("obs", [[[1], [2], [4], [8]]]), ("fcst", [[[10], [20], [40], [80]]])] }
def mB : Input :=
  { times := [0], leads := [4, 1, 3], locs := [⟨1, 0, 0, 0⟩],
    fields := [("fcst", [[[100], [200], [400]]])] }

/-- `-T 2 -Tagg sum`: verified lead times 1 and 4.  Input B's forecast at lead 4 is 100 + 400 (its own
leads 4 and 3 lie in (2, 4]; lead 3 is not verified), A's is 80 (A has no lead 3); B's observations
are A's: 1 + 2 at lead 1, 8 at lead 4 — aggregated on A's grid, not on B's. -/
example :
    getScoresT (Agg.apply ⟨id, id, id, id⟩ .sum) (fin 1) (fin 2) 1 [mA, mB] {}
      { fields := ["obs", "fcst"], input := 1, sel := .all } = some (.ok [[3, 8], [200, 500]])
    ∧ getScoresT (Agg.apply ⟨id, id, id, id⟩ .sum) (fin 1) (fin 2) 1 [mA, mB] {}
      { fields := ["fcst"], input := 0, sel := .all } = some (.ok [[30, 80]])
    ∧ (allInputs [mA, mB] {}).all wfInput = true
    ∧ hasField "obs" mB = false := by
  refine ⟨?_, ?_, ?_, ?_⟩ <;> decide +kernel

end VerifModel.C15
