import VerifModel.Model.AxisAll
/-
  C11 for the axis `All` (the default axis of `Data.get_scores`, absent from `Axis.Kind` because its
  reply is not a compressed slice): one slice that holds every case, NaN in place at the invalid
  cases.  Its non-NaN entries are exactly the pooled valid cases of `-x no`, in the same (row-major)
  order; so `All` partitions the valid cases trivially.
-/
namespace VerifModel.C11
open VerifModel.Axis

private theorem filterMap_mask {α : Type} (p : α → Bool) (l : List α) :
    (l.map fun c => if p c then some c else none).filterMap id = l.filter p := by
  induction l with
  | nil => rfl
  | cons x xs ih =>
    by_cases h : p x
    · simp only [List.map_cons, h, if_true, List.filterMap_cons, id, List.filter_cons]
      simpa using ih
    · simp only [List.map_cons, h, List.filterMap_cons, id, List.filter_cons]
      simpa using ih

/-- Axis `All`: (1) there is exactly one slice; (2) it has one entry per case of the dataset, in the
order of the cases (nothing is removed: invalid cases stay, as holes); (3) entry `i` is the `i`-th
case if that case is valid and a hole (NaN) otherwise; (4) the non-NaN entries, in order, are exactly
the pooled valid cases of axis `no` (same row-major order); (5) hence every valid case lies in
exactly one slice (the partition statement of C11 for this axis). -/
theorem C11_all_axis (D : Dims) (valid : Case → Bool) :
    (slicesAll D valid).length = 1 ∧
    (sliceAll D valid).length = D.allCases.length ∧
    (∀ i : Nat, (sliceAll D valid)[i]? =
        (D.allCases[i]?).map fun c => if valid c then some c else none) ∧
    (sliceAll D valid).filterMap id = pooled D valid ∧
    (∀ c, c ∈ pooled D valid →
        ((slicesAll D valid).filter fun s => s.contains (some c)).length = 1) := by
  refine ⟨rfl, by simp [sliceAll], fun i => by simp [sliceAll], filterMap_mask valid _, ?_⟩
  intro c hc
  have hmem : some c ∈ sliceAll D valid := by
    simp only [pooled, List.mem_filter] at hc
    simp only [sliceAll, List.mem_map]
    exact ⟨c, hc.1, by simp [hc.2]⟩
  simp [slicesAll, hmem]

/-- non-vacuity: 2 times x 1 lead time x 2 locations, case (0,0,1) invalid -/
example : sliceAll ⟨[0, 86400], [0], [⟨1, 0, 0, 0⟩, ⟨2, 0, 0, 0⟩]⟩ (fun c => c != (0, 0, 1)) =
    [some (0, 0, 0), none, some (1, 0, 0), some (1, 0, 1)] ∧
    pooled ⟨[0, 86400], [0], [⟨1, 0, 0, 0⟩, ⟨2, 0, 0, 0⟩]⟩ (fun c => c != (0, 0, 1)) =
    [(0, 0, 0), (1, 0, 0), (1, 0, 1)] := by decide

end VerifModel.C11
