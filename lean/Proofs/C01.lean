import Proofs.Lemmas.Arr3
/-
  C01 — Fair comparison: every input is scored on the identical set of cases.
  Theorems about the pure model of Data (Model/Data.lean).
-/
namespace VerifModel.C01
open VerifModel XR

/-- NaN pattern of an array: NaN where missing, 0 elsewhere -/
def nanF (v : XR) : XR := if isValid v then .fin 0 else .nan

theorem nanF_nan : nanF .nan = .nan := by decide

/-- After loading, the value of input `i` at a cell is missing iff the cell is missing in ANY
input (including the climatology); otherwise the input keeps its own value. -/
theorem C01_propagate_cell (arrs : List Arr3) (i t l x : Nat) (a : Arr3) (v : XR)
    (ha : arrs[i]? = some a) (hv : a.cell t l x = some v) :
    ((propagate arrs).getD i []).cell t l x
      = some (if anyNanAt arrs t l x then .nan else v) := by
  unfold propagate
  simp only [List.getD_eq_getElem?_getD, List.getElem?_map, ha, Option.map_some, Option.getD_some]
  rw [mapIdx3_cell, hv]
  rfl

theorem C01_propagate_nan_iff (arrs : List Arr3) (i t l x : Nat) (a : Arr3) (v : XR)
    (ha : arrs[i]? = some a) (hv : a.cell t l x = some v) :
    (!isValid (((propagate arrs).getD i []).get t l x)) = anyNanAt arrs t l x := by
  have h := C01_propagate_cell arrs i t l x a v ha hv
  rw [Arr3.get_of_cell h]
  by_cases hn : anyNanAt arrs t l x = true
  · simp [hn, isValid, XR.isNan]
  · have hown : isValid v = true := by
      cases hvn : isValid v with
      | true => rfl
      | false =>
        exfalso; apply hn
        unfold anyNanAt
        rw [List.any_eq_true]
        exact ⟨a, List.mem_of_getElem? ha, by rw [Arr3.get_of_cell hv]; simp [hvn]⟩
    simp [hn, hown]

theorem C01_propagate_keeps (arrs : List Arr3) (i t l x : Nat) (a : Arr3) (v : XR)
    (ha : arrs[i]? = some a) (hv : a.cell t l x = some v) (hno : anyNanAt arrs t l x = false) :
    ((propagate arrs).getD i []).get t l x = v := by
  have h := C01_propagate_cell arrs i t l x a v ha hv
  rw [Arr3.get_of_cell h]; simp [hno]

/-- The missing-value pattern of a loaded field is the same for every input: all inputs are
scored on cells that are non-missing in all of them. -/
theorem C01_same_validity (arrs : List Arr3) (i j : Nat) (a b : Arr3)
    (ha : arrs[i]? = some a) (hb : arrs[j]? = some b) (hshape : a.shape = b.shape) :
    Arr3.map nanF ((propagate arrs).getD i []) = Arr3.map nanF ((propagate arrs).getD j []) := by
  unfold propagate
  simp only [List.getD_eq_getElem?_getD, List.getElem?_map, ha, hb, Option.map_some,
    Option.getD_some, Arr3.map_mapIdx3]
  have key : ∀ (c : Arr3), c ∈ arrs →
      mapIdx3 (fun t l x v => nanF (if anyNanAt arrs t l x then .nan else v)) c
        = mapIdx3 (fun t l x _ => if anyNanAt arrs t l x then .nan else .fin 0) c := by
    intro c hc
    apply mapIdx3_congr
    intro t l x v hv
    by_cases hn : anyNanAt arrs t l x = true
    · simp [hn, nanF, isValid, XR.isNan]
    · have hown : isValid v = true := by
        cases hvn : isValid v with
        | true => rfl
        | false =>
          exfalso; apply hn
          unfold anyNanAt
          rw [List.any_eq_true]
          exact ⟨c, hc, by rw [Arr3.get_of_cell hv]; simp [hvn]⟩
      simp [hn, nanF, hown]
  rw [key a (List.mem_of_getElem? ha), key b (List.mem_of_getElem? hb)]
  exact mapIdx3_const_of_shape _ a b hshape

/-- … and so is the pattern of every slice taken from it (`_apply_axis` for any axis). -/
theorem C01_same_cases (arrs : List Arr3) (i j : Nat) (a b : Arr3) (sel : Sel)
    (ha : arrs[i]? = some a) (hb : arrs[j]? = some b) (hshape : a.shape = b.shape) :
    List.map nanF (applySel ((propagate arrs).getD i []) sel)
      = List.map nanF (applySel ((propagate arrs).getD j []) sel) := by
  rw [← applySel_map nanF nanF_nan, ← applySel_map nanF nanF_nan,
    C01_same_validity arrs i j a b ha hb hshape]

/-- arrays cut to the common indices all have the same shape -/
theorem cut_shape (a b : Arr3) (It It' Il Il' Ix Ix' : List Nat)
    (h1 : It.length = It'.length) (h2 : Il.length = Il'.length) (h3 : Ix.length = Ix'.length) :
    (cut a It Il Ix).shape = (cut b It' Il' Ix').shape := by
  unfold cut Arr3.shape Arr3.map
  simp only [List.map_map, Function.comp_def]
  have rep : ∀ {α β : Type} (l l' : List α) (c : β), l.length = l'.length →
      l.map (fun _ => c) = l'.map (fun _ => c) := by
    intro α β l l' c h
    induction l generalizing l' with
    | nil => cases l' <;> simp_all
    | cons x xs ih =>
      cases l' with
      | nil => simp at h
      | cons y ys => simp [ih ys (by simpa using h)]
  rw [rep Ix Ix' (XR.fin 0) h3, rep Il Il' _ h2, rep It It' _ h1]

/-- Observations: an input that stores none is given the array of the first input that does
(`obsOwner`), cut with THAT input's indices; an input that stores observations uses its own. -/
theorem C01_obs_borrowed (D : DataS) (arrs : List Arr3) (h : D.loadAll "obs" = .ok arrs) (i : Nat)
    (hi : i < D.inputs.length) :
    arrs[i]? = some (D.cutFor (D.obsOwner i) (((D.inputs.getD (D.obsOwner i) default).field? "obs").getD []))
    ∧ (((D.inputs.getD i default).field? "obs").isSome = true → D.obsOwner i = i)
    ∧ (((D.inputs.getD i default).field? "obs").isSome = false →
        ((D.inputs.getD (D.obsOwner i) default).field? "obs").isSome = true
        ∧ ∀ j < D.obsOwner i, ((D.inputs.getD j default).field? "obs").isSome = false) := by
  unfold DataS.loadAll at h
  simp only [beq_self_eq_true, if_true] at h
  split at h
  · rename_i hany
    injection h with h
    subst h
    refine ⟨by simp [List.getElem?_map, List.getElem?_range hi], ?_, ?_⟩
    · intro hs; unfold DataS.obsOwner; rw [if_pos hs]
    · intro hs
      rw [List.any_eq_true] at hany
      obtain ⟨j0, hj0, hj0s⟩ := hany
      have hex : ∃ j, (List.range D.inputs.length).find? (fun j => ((D.inputs.getD j default).field? "obs").isSome) = some j := by
        cases hf : (List.range D.inputs.length).find? (fun j => ((D.inputs.getD j default).field? "obs").isSome) with
        | some j => exact ⟨j, rfl⟩
        | none =>
          rw [List.find?_eq_none] at hf
          exact absurd hj0s (hf j0 hj0)
      obtain ⟨j, hj⟩ := hex
      have hown : D.obsOwner i = j := by
        unfold DataS.obsOwner
        rw [if_neg (by rw [hs]; decide), hj]; rfl
      rw [hown]
      refine ⟨by simpa using List.find?_some hj, ?_⟩
      intro k hk
      rw [List.find?_eq_some_iff_getElem] at hj
      obtain ⟨_, m, hm, hmj, hbefore⟩ := hj
      simp only [List.getElem_range] at hmj
      subst hmj
      have := hbefore k hk
      simpa [List.getElem_range] using this
  · simp at h

/-- Non-interference: replacing the array of another input by one with the same missing-value
pattern (i.e. changing only non-missing values into other non-missing values) leaves input `i`'s
loaded field unchanged — its scores cannot change. -/
theorem C01_noninterference (arrs arrs' : List Arr3) (i : Nat) (hi : arrs'[i]? = arrs[i]?)
    (hpat : ∀ t l x, anyNanAt arrs' t l x = anyNanAt arrs t l x) :
    (propagate arrs').getD i [] = (propagate arrs).getD i [] := by
  unfold propagate
  simp only [List.getD_eq_getElem?_getD, List.getElem?_map, hi]
  cases arrs[i]? with
  | none => rfl
  | some a => simp [hpat]

/-- the hypothesis of non-interference holds when one array is replaced by an array of the same
missing-value pattern -/
theorem anyNanAt_set (arrs : List Arr3) (j : Nat) (b : Arr3) (hj : j < arrs.length)
    (hpat : ∀ t l x, isValid (b.get t l x) = isValid ((arrs.getD j []).get t l x)) (t l x : Nat) :
    anyNanAt (arrs.set j b) t l x = anyNanAt arrs t l x := by
  unfold anyNanAt
  induction arrs generalizing j with
  | nil => simp at hj
  | cons a rest ih =>
    cases j with
    | zero => simp [List.set, hpat t l x]
    | succ j =>
      simp only [List.set, List.any_cons]
      rw [ih j (by simpa using hj) (by intro t l x; simpa using hpat t l x)]

/-- non-vacuity: two inputs, the second missing one cell: both end up missing there, the other
cells keep their own values -/
example : propagate [[[[1, 2]]], [[[XR.nan, 5]]]] = [[[[XR.nan, 2]]], [[[XR.nan, 5]]]] := by
  decide +kernel

end VerifModel.C01
