import Proofs.GenEq.Cont
import Proofs.C07
import VerifModel.Model.Contingency
/-
  C06 — Categorical scores equal their 2x2 contingency-table definitions.
  Property theorems (the 25 formula theorems are in Proofs/GenEq/Cont.lean, re-proved on
  every run against the regenerated definitions).
-/
namespace VerifModel.C06
open VerifModel XR

private theorem countP_four {α : Type} (l : List α) (p q : α → Bool) :
    l.countP (fun x => p x && q x) + l.countP (fun x => p x && !q x)
      + l.countP (fun x => !p x && q x) + l.countP (fun x => !p x && !q x) = l.length := by
  induction l with
  | nil => rfl
  | cons x xs ih =>
    simp only [List.countP_cons, List.length_cons]
    cases p x <;> cases q x <;> simp <;> omega

/-- The four counts sum to the number of valid pairs (pairs with neither value missing), and
each is the number of valid pairs with the corresponding (forecast event, observed event)
combination — the event being membership in the same kind of interval for both. -/
theorem C06_counts (I J : Interval) (obs fcst : Vec) (t : Table) (h : abcd I J obs fcst = some t) :
    t.total = (validPairs obs fcst).length
    ∧ t.a = (validPairs obs fcst).countP (fun p => J.withinVal p.2 && I.withinVal p.1)
    ∧ t.b = (validPairs obs fcst).countP (fun p => J.withinVal p.2 && !I.withinVal p.1)
    ∧ t.c = (validPairs obs fcst).countP (fun p => !J.withinVal p.2 && I.withinVal p.1)
    ∧ t.d = (validPairs obs fcst).countP (fun p => !J.withinVal p.2 && !I.withinVal p.1) := by
  unfold abcd at h
  split at h
  · simp at h
  · simp only at h
    split at h
    · simp at h
    · injection h with h
      subst h
      refine ⟨?_, rfl, rfl, rfl, rfl⟩
      simp only [Table.total]
      exact countP_four _ (fun p : XR × XR => J.withinVal p.2) (fun p : XR × XR => I.withinVal p.1)

/-- a table that exists has at least one case -/
theorem C06_total_pos (I J : Interval) (obs fcst : Vec) (t : Table)
    (h : abcd I J obs fcst = some t) : 0 < t.total := by
  have hc := (C06_counts I J obs fcst t h).1
  unfold abcd at h
  split at h
  · simp at h
  · simp only at h
    split at h
    · simp at h
    · rename_i _ hne
      rw [hc]
      cases hv : validPairs obs fcst with
      | nil => simp [hv] at hne
      | cons _ _ => simp

/-- missing values are in no cell: a pair with a NaN member is not counted -/
theorem C06_missing_not_counted (obs fcst : Vec) (p : XR × XR) (hp : p ∈ validPairs obs fcst) :
    p.1.isNan = false ∧ p.2.isNan = false := by
  simp [validPairs] at hp
  exact ⟨hp.2.1, hp.2.2⟩

private theorem validPairs_swap (obs fcst : Vec) :
    validPairs fcst obs = (validPairs obs fcst).map Prod.swap := by
  unfold validPairs
  induction obs generalizing fcst with
  | nil => cases fcst <;> simp
  | cons o os ih =>
    cases fcst with
    | nil => simp
    | cons f fs =>
      simp only [List.zip_cons_cons, List.filter_cons]
      cases o.isNan <;> cases f.isNan <;> simp [ih]

/-- Exchanging observations and forecasts (and their intervals) exchanges misses and false alarms. -/
theorem C06_swap (I J : Interval) (obs fcst : Vec) (hl : obs.length = fcst.length) :
    abcd J I fcst obs = (abcd I J obs fcst).map Table.swap := by
  have he : obs.isEmpty = fcst.isEmpty := by
    cases obs <;> cases fcst <;> simp_all
  unfold abcd
  rw [he, validPairs_swap]
  split
  · rfl
  · simp only [List.isEmpty_map, List.countP_map]
    split
    · rfl
    · simp only [Option.map_some, Table.swap, Option.some.injEq, Table.mk.injEq]
      refine ⟨?_, ?_, ?_, ?_⟩ <;> congr 1 <;> funext p <;> simp [Function.comp, Bool.and_comm]

/-- Complementing the event (an interval pair whose membership is the negation on every
non-missing value) exchanges hits and correct rejections, and false alarms and misses. -/
theorem C06_complement (I J I' J' : Interval) (obs fcst : Vec)
    (hI : ∀ x, I'.withinVal x = !I.withinVal x) (hJ : ∀ x, J'.withinVal x = !J.withinVal x) :
    abcd I' J' obs fcst = (abcd I J obs fcst).map Table.compl := by
  unfold abcd
  split
  · rfl
  · simp only
    split
    · rfl
    · simp only [Option.map_some, Table.compl, hI, hJ, Bool.not_not]

/-- `above t` is such a complement of `below= t` (C07), so the theorem applies to verif's events. -/
example (t : Rat) (x : Rat) :
    (intervalOf .above (fin t) (fin t)).withinVal (fin x)
      = !(intervalOf .belowEq (fin t) (fin t)).withinVal (fin x) := by
  have := C07.C07_above_compl t x
  simp [Interval.within, XR.isNan] at this
  exact this

/-- The score is the textbook formula of the four counts; undefined formulas give NaN, never
±inf: for every metric name that has a textbook definition, every table with at least one case
and every `Tr`.  (Instances: the 25 theorems of GenEq.Cont.) -/
theorem C06_formula (T : Tr) (a b c d : Nat) (hN : 0 < a + b + c + d) :
    Gen.Cont.m_a T (fin a) (fin b) (fin c) (fin d) = Spec.Cont.toXR (Spec.Cont.fa_ a b c d)
    ∧ Gen.Cont.m_b T (fin a) (fin b) (fin c) (fin d) = Spec.Cont.toXR (Spec.Cont.fb_ a b c d)
    ∧ Gen.Cont.m_c T (fin a) (fin b) (fin c) (fin d) = Spec.Cont.toXR (Spec.Cont.fc_ a b c d)
    ∧ Gen.Cont.m_d T (fin a) (fin b) (fin c) (fin d) = Spec.Cont.toXR (Spec.Cont.fd_ a b c d)
    ∧ Gen.Cont.m_n T (fin a) (fin b) (fin c) (fin d) = Spec.Cont.toXR (Spec.Cont.n a b c d)
    ∧ Gen.Cont.m_ets T (fin a) (fin b) (fin c) (fin d) = Spec.Cont.toXR (Spec.Cont.ets a b c d)
    ∧ Gen.Cont.m_fcstrate T (fin a) (fin b) (fin c) (fin d) = Spec.Cont.toXR (Spec.Cont.fcstrate a b c d)
    ∧ Gen.Cont.m_baserate T (fin a) (fin b) (fin c) (fin d) = Spec.Cont.toXR (Spec.Cont.baserate a b c d)
    ∧ Gen.Cont.m_pc T (fin a) (fin b) (fin c) (fin d) = Spec.Cont.toXR (Spec.Cont.pc a b c d)
    ∧ Gen.Cont.m_dscore T (fin a) (fin b) (fin c) (fin d) = Spec.Cont.toXR (Spec.Cont.dscore a b c d)
    ∧ Gen.Cont.m_threat T (fin a) (fin b) (fin c) (fin d) = Spec.Cont.toXR (Spec.Cont.threat a b c)
    ∧ Gen.Cont.m_biasfreq T (fin a) (fin b) (fin c) (fin d) = Spec.Cont.toXR (Spec.Cont.biasfreq a b c)
    ∧ Gen.Cont.m_hss T (fin a) (fin b) (fin c) (fin d) = Spec.Cont.toXR (Spec.Cont.hss a b c d)
    ∧ Gen.Cont.m_or T (fin a) (fin b) (fin c) (fin d) = Spec.Cont.toXR (Spec.Cont.or_ a b c d)
    ∧ Gen.Cont.m_lor T (fin a) (fin b) (fin c) (fin d) = Spec.Cont.toXR (Spec.Cont.lor T a b c d)
    ∧ Gen.Cont.m_yulesq T (fin a) (fin b) (fin c) (fin d) = Spec.Cont.toXR (Spec.Cont.yulesq a b c d)
    ∧ Gen.Cont.m_kss T (fin a) (fin b) (fin c) (fin d) = Spec.Cont.toXR (Spec.Cont.kss a b c d)
    ∧ Gen.Cont.m_hit T (fin a) (fin b) (fin c) (fin d) = Spec.Cont.toXR (Spec.Cont.hit a c)
    ∧ Gen.Cont.m_miss T (fin a) (fin b) (fin c) (fin d) = Spec.Cont.toXR (Spec.Cont.miss a c)
    ∧ Gen.Cont.m_fa T (fin a) (fin b) (fin c) (fin d) = Spec.Cont.toXR (Spec.Cont.fa b d)
    ∧ Gen.Cont.m_far T (fin a) (fin b) (fin c) (fin d) = Spec.Cont.toXR (Spec.Cont.far a b)
    ∧ Gen.Cont.m_edi T (fin a) (fin b) (fin c) (fin d) = Spec.Cont.toXR (Spec.Cont.edi T a b c d)
    ∧ Gen.Cont.m_sedi T (fin a) (fin b) (fin c) (fin d) = Spec.Cont.toXR (Spec.Cont.sedi T a b c d)
    ∧ Gen.Cont.m_eds T (fin a) (fin b) (fin c) (fin d) = Spec.Cont.toXR (Spec.Cont.eds T a b c d)
    ∧ Gen.Cont.m_seds T (fin a) (fin b) (fin c) (fin d) = Spec.Cont.toXR (Spec.Cont.seds T a b c d) := by
  open GenEq.Cont in
  exact ⟨a_eq T a b c d hN, b_eq T a b c d hN, c_eq T a b c d hN, d_eq T a b c d hN,
    n_eq T a b c d hN, ets_eq T a b c d hN, fcstrate_eq T a b c d hN, baserate_eq T a b c d hN,
    pc_eq T a b c d hN, dscore_eq T a b c d hN, threat_eq T a b c d hN, biasfreq_eq T a b c d hN,
    hss_eq T a b c d hN, or_eq T a b c d hN, lor_eq T a b c d hN, yulesq_eq T a b c d hN,
    kss_eq T a b c d hN, hit_eq T a b c d hN, miss_eq T a b c d hN, fa_eq T a b c d hN,
    far_eq T a b c d hN, edi_eq T a b c d hN, sedi_eq T a b c d hN, eds_eq T a b c d hN,
    seds_eq T a b c d hN⟩

/-- a value of the form `toXR _` is a finite number or NaN, never ±inf -/
theorem C06_never_inf (o : Option Rat) : (Spec.Cont.toXR o).isInf = false := by
  cases o <;> rfl

/-! ### Perfect forecasts (no false alarms, no misses) attain the documented perfect value
wherever the score is defined (`none` = undefined, reported as NaN) -/
section perfect
open Spec.Cont
set_option linter.unusedSimpArgs false

macro "perf" : tactic => `(tactic| (
  simp only [hit, threat, ets, pc, hss, kss, yulesq, dscore, biasfreq, miss, fa, far, H, F, N, sdiv,
    Nat.cast_zero, add_zero, zero_add, mul_zero, zero_mul, sub_zero, zero_div,
    Option.bind_eq_bind, Option.bind_none, Option.bind_some, Option.pure_def]
  try (split_ifs <;> simp_all)))

theorem p_hit (a : Nat) : hit a 0 = none ∨ hit a 0 = some 1 := by perf
theorem p_threat (a : Nat) : threat a 0 0 = none ∨ threat a 0 0 = some 1 := by perf
theorem p_pc (a d : Nat) : pc a 0 0 d = none ∨ pc a 0 0 d = some 1 := by perf
theorem p_kss (a d : Nat) : kss a 0 0 d = none ∨ kss a 0 0 d = some 1 := by perf
theorem p_yulesq (a d : Nat) : yulesq a 0 0 d = none ∨ yulesq a 0 0 d = some 1 := by perf
theorem p_dscore (a d : Nat) : dscore a 0 0 d = none ∨ dscore a 0 0 d = some 1 := by perf
theorem p_biasfreq (a : Nat) : biasfreq a 0 0 = none ∨ biasfreq a 0 0 = some 1 := by perf
theorem p_miss (a : Nat) : miss a 0 = none ∨ miss a 0 = some 0 := by perf
theorem p_fa (d : Nat) : fa 0 d = none ∨ fa 0 d = some 0 := by perf
theorem p_far (a : Nat) : far a 0 = none ∨ far a 0 = some 0 := by perf
theorem p_hss (a d : Nat) : hss a 0 0 d = none ∨ hss a 0 0 d = some 1 := by
  simp only [hss, sdiv, Nat.cast_zero, add_zero, zero_add, mul_zero, zero_mul, sub_zero]
  split_ifs with h
  · simp
  · right; congr 1; rw [div_eq_one_iff_eq h]; ring
theorem p_ets (a d : Nat) : ets a 0 0 d = none ∨ ets a 0 0 d = some 1 := by
  simp only [ets, N, sdiv, Nat.cast_zero, add_zero, zero_add, mul_zero, zero_mul, sub_zero,
    Option.bind_eq_bind]
  split_ifs with h
  · simp
  · simp only [Option.bind_some]
    split_ifs with h2
    · simp
    · right; congr 1; exact div_self h2
theorem p_edi (T : Tr) (a d : Nat) : edi T a 0 0 d = none := by
  simp only [edi, F, sdiv, slog, Nat.cast_zero, zero_add, zero_div, lt_irrefl, if_false, Option.bind_eq_bind]
  split_ifs <;> simp
theorem p_sedi (T : Tr) (a d : Nat) : sedi T a 0 0 d = none := by
  simp only [sedi, F, sdiv, slog, Nat.cast_zero, zero_add, zero_div, lt_irrefl, if_false, Option.bind_eq_bind]
  split_ifs <;> simp
theorem p_eds (T : Tr) (hT : T.Lawful) (a d : Nat) : eds T a 0 0 d = none ∨ eds T a 0 0 d = some 1 := by
  have h1 := hT.log_one
  simp only [eds, H, N, sdiv, slog, Nat.cast_zero, add_zero, Option.bind_eq_bind]
  by_cases h2 : (a:Rat) = 0
  · simp [h2]
  by_cases h4 : (a:Rat) + d = 0
  · simp [h2, h4]
  simp only [h2, h4, if_false, Option.bind_some, div_self, ne_eq, not_false_eq_true, zero_lt_one, if_true, h1, sub_zero, add_zero]
  generalize (a:Rat) / (a + d) = p
  by_cases hp : 0 < p
  · by_cases hl : T.logQ p = 0
    · simp [hp, hl]
    · simp [hp, hl]
  · simp [hp]
theorem p_seds (T : Tr) (hT : T.Lawful) (a d : Nat) : seds T a 0 0 d = none ∨ seds T a 0 0 d = some 1 := by
  have h1 := hT.log_one
  simp only [seds, H, N, sdiv, slog, Nat.cast_zero, add_zero, Option.bind_eq_bind]
  by_cases h2 : (a:Rat) = 0
  · simp [h2]
  by_cases h4 : (a:Rat) + d = 0
  · simp [h2, h4]
  simp only [h2, h4, if_false, Option.bind_some, div_self, ne_eq, not_false_eq_true, zero_lt_one, if_true, h1, sub_zero, add_zero]
  generalize (a:Rat) / (a + d) = p
  by_cases hp : 0 < p
  · by_cases hl : T.logQ p = 0
    · simp [hp, hl]
    · simp [hp, hl]
  · simp [hp]

/-- all of the above as one statement -/
theorem C06_perfect (T : Tr) (hT : T.Lawful) (a d : Nat) :
    (hit a 0 = none ∨ hit a 0 = some 1) ∧ (threat a 0 0 = none ∨ threat a 0 0 = some 1)
    ∧ (ets a 0 0 d = none ∨ ets a 0 0 d = some 1) ∧ (pc a 0 0 d = none ∨ pc a 0 0 d = some 1)
    ∧ (hss a 0 0 d = none ∨ hss a 0 0 d = some 1) ∧ (kss a 0 0 d = none ∨ kss a 0 0 d = some 1)
    ∧ (yulesq a 0 0 d = none ∨ yulesq a 0 0 d = some 1)
    ∧ (dscore a 0 0 d = none ∨ dscore a 0 0 d = some 1)
    ∧ (biasfreq a 0 0 = none ∨ biasfreq a 0 0 = some 1)
    ∧ (miss a 0 = none ∨ miss a 0 = some 0) ∧ (fa 0 d = none ∨ fa 0 d = some 0)
    ∧ (far a 0 = none ∨ far a 0 = some 0) ∧ edi T a 0 0 d = none ∧ sedi T a 0 0 d = none
    ∧ (eds T a 0 0 d = none ∨ eds T a 0 0 d = some 1)
    ∧ (seds T a 0 0 d = none ∨ seds T a 0 0 d = some 1) :=
  ⟨p_hit a, p_threat a, p_ets a d, p_pc a d, p_hss a d, p_kss a d, p_yulesq a d, p_dscore a d,
   p_biasfreq a, p_miss a, p_fa d, p_far a, p_edi T a d, p_sedi T a d, p_eds T hT a d,
   p_seds T hT a d⟩

/-- non-vacuity: on a concrete perfect table the scores are defined and perfect -/
example : hit 3 0 = some 1 ∧ ets 3 0 0 2 = some 1 ∧ far 3 0 = some 0 ∧ hss 3 0 0 2 = some 1 := by
  refine ⟨by decide +kernel, by decide +kernel, by decide +kernel, by decide +kernel⟩

/-- The `perfect_score` class attributes read from metric.py (regenerated table) are the
documented perfect values used above. -/
theorem C06_declared_perfect :
    ∀ name ∈ ["hit", "threat", "ets", "pc", "hss", "kss", "yulesq", "dscore", "biasfreq", "miss",
              "fa", "far", "edi", "sedi", "eds", "seds"],
      Gen.Cont.perfect name = (Spec.Cont.perfect name).map XR.fin := by
  decide +kernel

/-- a lawful `Tr` exists (the hypotheses of C06_perfect are satisfiable) -/
example : Tr.Lawful ⟨fun q => q, fun q => q - 1, fun q => q + 1, fun q => q⟩ :=
  ⟨rfl, fun _ h => h, fun _ _ _ h => h, by simp, fun p q _ h => by simpa using h, rfl,
   fun _ h => h, by simp⟩

end perfect
end VerifModel.C06
