import VerifModel.Model.PitMass
import Mathlib.Tactic.Linarith
import Mathlib.Tactic.Ring
import Mathlib.Tactic.Positivity
/-
  C08 — "… and the PIT statistics equal their definitions on the valid cases": the PIT value handed to them when the
  variable has a discrete mass.  For every sequence of numbers the generator may produce (0 ≤ u < 1).
-/
namespace VerifModel.C08
open VerifModel.PitMass

/-- off the masses the stored value is used as it is -/
theorem C08_pitmass_off (x0 x1 : Option Rat) (o p u0 u1 : Rat) (h0 : x0 ≠ some o) (h1 : x1 ≠ some o) :
    randomize1 x0 x1 o p u0 u1 = p := by
  unfold randomize1
  cases x0 with
  | none => cases x1 with
    | none => rfl
    | some b => have : o ≠ b := fun h => h1 (by rw [h]); simp [this]
  | some a =>
    have ha : o ≠ a := fun h => h0 (by rw [h])
    cases x1 with
    | none => simp [ha]
    | some b => have : o ≠ b := fun h => h1 (by rw [h]); simp [ha, this]

/-- on the lower mass (and not on the upper one) the value is `p · u0`: the uniform number scaled into [0, p],
strictly below `p` when `p > 0` — whether or not an upper mass is declared as well -/
theorem C08_pitmass_lower (a : Rat) (x1 : Option Rat) (p u0 u1 : Rat) (h1 : x1 ≠ some a)
    (hp : 0 ≤ p) (hu : 0 ≤ u0) (hu' : u0 < 1) :
    randomize1 (some a) x1 a p u0 u1 = p * u0
    ∧ 0 ≤ randomize1 (some a) x1 a p u0 u1 ∧ randomize1 (some a) x1 a p u0 u1 ≤ p
    ∧ (0 < p → randomize1 (some a) x1 a p u0 u1 < p) := by
  have e : randomize1 (some a) x1 a p u0 u1 = p * u0 := by
    unfold randomize1
    cases x1 with
    | none => simp
    | some b => have : a ≠ b := fun h => h1 (by rw [h]); simp [this]
  rw [e]
  refine ⟨rfl, by positivity, ?_, ?_⟩
  · nlinarith
  · intro hp'; nlinarith

/-- on the upper mass (and not on the lower one) the value is `1 − (1 − p) · u1`: in [p, 1], strictly above `p`
when `p < 1` -/
theorem C08_pitmass_upper (x0 : Option Rat) (b : Rat) (p u0 u1 : Rat) (h0 : x0 ≠ some b)
    (hp : p ≤ 1) (hu : 0 ≤ u1) (hu' : u1 < 1) :
    randomize1 x0 (some b) b p u0 u1 = 1 - (1 - p) * u1
    ∧ p ≤ randomize1 x0 (some b) b p u0 u1 ∧ randomize1 x0 (some b) b p u0 u1 ≤ 1
    ∧ (p < 1 → p < randomize1 x0 (some b) b p u0 u1) := by
  have e : randomize1 x0 (some b) b p u0 u1 = 1 - (1 - p) * u1 := by
    unfold randomize1
    cases x0 with
    | none => simp
    | some a => have : b ≠ a := fun h => h0 (by rw [h]); simp [this]
  rw [e]
  refine ⟨rfl, ?_, ?_, ?_⟩
  · nlinarith
  · nlinarith
  · intro hp'; nlinarith

/-- Model ⊨ Spec for every case with 0 ≤ p ≤ 1 and every pair of numbers in [0, 1) -/
theorem C08_pitmass_spec (x0 x1 : Option Rat) (o p u0 u1 : Rat) (hp0 : 0 ≤ p) (hp1 : p ≤ 1)
    (h00 : 0 ≤ u0) (h01 : u0 < 1) (h10 : 0 ≤ u1) (h11 : u1 < 1) :
    Spec x0 x1 o p (randomize1 x0 x1 o p u0 u1) := by
  unfold Spec
  by_cases a0 : x0 = some o <;> by_cases a1 : x1 = some o
  · subst a0; subst a1
    simp only [ne_eq, not_true_eq_false, and_false, if_false, and_self, if_true]
    simp only [randomize1, if_true]
    have h1 : 0 ≤ p * u0 := mul_nonneg hp0 h00
    have h2 : p * u0 ≤ 1 := by nlinarith
    have h3 : 0 ≤ (1 - p * u0) * u1 := mul_nonneg (by linarith) h10
    have h4 : (1 - p * u0) * u1 ≤ 1 := by nlinarith
    constructor <;> linarith
  · subst a0
    have := C08_pitmass_lower o x1 p u0 u1 a1 hp0 h00 h01
    simp only [ne_eq, a1, not_false_eq_true, and_self, if_true]
    exact ⟨this.2.1, this.2.2.1⟩
  · subst a1
    have := C08_pitmass_upper x0 o p u0 u1 a0 hp1 h10 h11
    simp only [a0, ne_eq, not_true_eq_false, and_false, if_false, not_false_eq_true, and_self, if_true,
      false_and]
    exact ⟨this.2.1, this.2.2.1⟩
  · simp only [a0, a1, false_and, if_false]
    exact C08_pitmass_off x0 x1 o p u0 u1 a0 a1

/-- length and order of the cases are kept -/
theorem C08_pitmass_length (x0 x1 : Option Rat) (cs : List Case) : (randomize x0 x1 cs).length = cs.length := by
  simp [randomize]

/-- non-vacuity (relative humidity: masses at 0 and 100): a case on the lower mass, one on the upper, one off -/
example : randomize (some 0) (some 100) [⟨0, 1/2, 1/4, 3/4⟩, ⟨100, 1/2, 1/4, 3/4⟩, ⟨50, 1/2, 1/4, 3/4⟩]
    = [1/8, 5/8, 1/2] := by decide +kernel

end VerifModel.C08
