import VerifModel.Model.FigProps
import Proofs.C17
/-
  C17 — plot kinds: the documented table `Spec.Appearance.applicable` (which property exists on which
  diagram) against the plotting code of the output class behind each plot kind, on the tables that the
  translator regenerates from /repo's driver.py, output.py and axis.py on every run
  (Gen/PlotWiring.lean).

  What is proved here:
    * C17_kinds_wired     — for every plot kind of the check (every documented diagram, `-hist`, `-sort`,
                            the standard plot on three axes, `-type map / rank / impact / maprank`): the
                            driver selects an output class and an entry method; the entry method runs the
                            class's `_…_core` method, then `_adjust_axes`, then saves; the dictionary of
                            `_get_plot_options` is handed to the drawing call (`mpl.plot(**opts)`, the
                            colour / outline width of `mpl.bar`) exactly on the kinds for which the Spec
                            says that per-input styles apply; every panel is adjusted exactly on the kinds
                            the Spec lists as made of panels; a legend whose size follows `-legfs` (and
                            that `-legfs 0` hides) exists exactly where the Spec says a legend exists; the
                            class's axis is time-like exactly on the kinds whose x-axis shows dates; and
                            `skip_log` is set on the two deterministic ROC diagrams only.
    * C17_shown_partial   — every documented property of every plot kind is shown by the model of the code
                            (`PlotKinds.shown`), EXCEPT the log scales on `droc` / `droc0`.
      Full statement (false of the code, known findings droc-xlog … droc0-ylog):
          ∀ k ∈ kinds, ∀ f, applicable k.name f = true → shown k.name f = true
      `C17_droc_log_not_shown` proves its negation on the witnesses the harness replays
      (`verif … -m droc -r 5 -xlog`).
    * C17_render_shows    — a property that is set, shown on the plot kind and not made void by a documented
                            dependency appears in the canonical line of the model with the value the
                            effect theorems of Proofs/C17.lean give it.
  What is NOT proved but tied by the streams fig.core / fig.single on the live figure: that
  `mpl.plot(**opts)` draws the line with these styles, the panels of the maps (adjusted inside
  `_map_core`), and everything matplotlib does.
-/
namespace VerifModel.C17Kinds
open VerifModel.FigProps VerifModel.PlotKinds
open VerifModel.Spec.Appearance (Field Kind kinds applicable)
open VerifModel.Gen.PlotWiring

/-! ## 1. Decidable checks on the regenerated tables -/

/-- the entry method runs the core method first, adjusts the axes and saves -/
def entryOK (k : Kind) : Bool :=
  match entryOf k, coreOf k with
  | some e, some m =>
    (stepsOf e).head? == some m && (stepsOf e).contains "_adjust_axes" && (stepsOf e).getLast? == some "_save_plot" &&
    m == (match k.ptype with
          | "" => "_plot_core" | "map" => "_map_core" | "maprank" => "_map_core" | "rank" => "_plot_rank_core"
          | "impact" => "_plot_impact_core" | _ => "?")
  | _, _ => false

def isBar (k : Kind) : Bool := Spec.Appearance.barKinds.contains k.name

/-- per-input styles reach the drawing call exactly where the Spec says they apply -/
def stylesOK (k : Kind) : Bool :=
  let u := usesOf k
  let line := u.contains ("mpl.plot", "**")
  (applicable k.name .seriesColor == (if isBar k then u.contains ("mpl.bar", "color=color") else line)) &&
  (applicable k.name .seriesMarker == (line && !isBar k)) &&
  (applicable k.name .seriesMarkerSize == (line && !isBar k)) &&
  -- a line style / width needs a line: the Spec's point diagrams hand the options on all the same (the line
  -- style is then overridden by `include_line=False`), so this direction only
  (!applicable k.name .seriesStyle || line) &&
  (!applicable k.name .seriesWidth || line || u.contains ("mpl.bar", "lw=lw"))

/-- every panel is adjusted exactly on the kinds made of panels (the maps adjust inside `_map_core`) -/
def panelsOK (k : Kind) : Bool :=
  k.ptype == "map" || k.ptype == "maprank" ||
  adjustOf k == some (if Spec.Appearance.panelKinds.contains k.name then "all" else "gca")

/-- a legend that follows `-legfs` exists exactly where the Spec says there is a legend -/
def legendOK (k : Kind) : Bool :=
  let l := legendsOf k
  if applicable k.name .legendSize then
    (l.contains "legend" || l.contains "mpl.legend:legfs") && !l.contains "pass" && !l.contains "other" &&
      !l.contains "mpl.legend:"
  else k.ptype == "map" || l == ["pass"]

def logOK (k : Kind) : Bool := skipLog k == (k.name == "droc" || k.name == "droc0")

def datesOK (k : Kind) : Bool := timeLike k == Spec.Appearance.dateAxis k.name

def kindOK (k : Kind) : Bool :=
  (classOf k).isSome && entryOK k && stylesOK k && panelsOK k && legendOK k && logOK k && datesOK k

/-- the only (plot kind, property) pairs on which the code deviates from the documented table -/
def deviates (plot : String) (f : Field) : Bool :=
  ((plot == "droc" || plot == "droc0") && (f == .xLog || f == .yLog)) ||
  (plot == "meteo" && (f == .xTickLabels || f == .xTickRotation))

def shownOK (k : Kind) : Bool :=
  Field.all.all fun f => !applicable k.name f || deviates k.name f || shown k.name f

/-- every field is in `Field.all`, kind names are distinct (so that `kindOf` finds the kind itself) -/
def tablesOK : Bool :=
  problems.isEmpty && kinds.all fun k => Spec.Appearance.kindOf k.name == some k

private theorem all_ok : (kinds.all kindOK && kinds.all shownOK && tablesOK) = true := by decide +kernel

private theorem field_mem_all (f : Field) : f ∈ Field.all := by cases f <;> decide

/-! ## 2. The wiring of every plot kind -/

structure Wired (k : Kind) : Prop where
  /-- driver.run selects an output class for the kind's `-m` (and `-hist` / `-sort`) -/
  cls : ∃ c, classOf k = some c
  /-- `-type` selects an entry method that runs the kind's `_…_core` method first, calls `_adjust_axes` and ends
      with `_save_plot` -/
  entry : entryOK k = true
  /-- the dictionary of `_get_plot_options` goes to the drawing call exactly where per-input styles apply -/
  styles : stylesOK k = true
  /-- `_adjust_axis` on every panel exactly on the kinds made of panels -/
  panels : panelsOK k = true
  /-- a legend under a test of `self.legfs` exactly where the Spec says there is a legend -/
  legend : legendOK k = true
  /-- `skip_log` on the deterministic ROC diagrams only -/
  log : skipLog k = (k.name == "droc" || k.name == "droc0")
  /-- the output's axis is time-like exactly on the kinds whose x-axis shows dates -/
  dates : timeLike k = Spec.Appearance.dateAxis k.name

/-- **C17_kinds_wired.** -/
theorem C17_kinds_wired : ∀ k ∈ kinds, Wired k := by
  intro k hk
  have h := all_ok
  simp only [Bool.and_eq_true] at h
  have hk' := List.all_eq_true.mp h.1.1 k hk
  simp only [kindOK, Bool.and_eq_true] at hk'
  obtain ⟨⟨⟨⟨⟨⟨h0, h1⟩, h2⟩, h3⟩, h4⟩, h5⟩, h6⟩ := hk'
  refine ⟨?_, h1, h2, h3, h4, ?_, ?_⟩
  · cases hc : classOf k with
    | none => simp [hc] at h0
    | some c => exact ⟨c, rfl⟩
  · simpa [logOK] using h5
  · simpa [datesOK] using h6

/-- **C17_shown_partial.**  Every documented property of every plot kind is shown by the model of the code,
    except the log scales of the deterministic ROC diagrams and the labels / rotation of the x ticks of the
    meteogram (known findings). -/
theorem C17_shown_partial (k : Kind) (hk : k ∈ kinds) (f : Field) (ha : applicable k.name f = true)
    (hd : ¬ ((k.name = "droc" ∨ k.name = "droc0") ∧ (f = .xLog ∨ f = .yLog)))
    (hm : ¬ (k.name = "meteo" ∧ (f = .xTickLabels ∨ f = .xTickRotation))) : shown k.name f = true := by
  have h := all_ok
  simp only [Bool.and_eq_true] at h
  have hk' := List.all_eq_true.mp h.1.2 k hk
  have hf := List.all_eq_true.mp hk' f (field_mem_all f)
  simp only [Bool.or_eq_true, Bool.not_eq_true'] at hf
  rcases hf with (hf | hf) | hf
  · rw [ha] at hf; cases hf
  · exfalso
    simp only [deviates, Bool.and_eq_true, Bool.or_eq_true, beq_iff_eq] at hf
    rcases hf with hf | hf
    · exact hd hf
    · exact hm hf
  · exact hf

/-- the negation of the full statement, on the witnesses of the known findings -/
theorem C17_droc_log_not_shown :
    applicable "droc" .xLog = true ∧ shown "droc" .xLog = false ∧ shown "droc" .yLog = false ∧
    applicable "droc0" .yLog = true ∧ shown "droc0" .xLog = false ∧ shown "droc0" .yLog = false := by
  decide +kernel

/-! ## 3. The canonical line shows what the effect theorems give -/

/-- **C17_render_shows.**  A property that is set to `v`, shown on the plot kind and not made void by a
    documented dependency is part of the model's canonical line, rendered from `v`. -/
theorem C17_render_shows (c : Cfg) (fp : FigProps) (f : Field) (v : String) (hv : fp f = some v)
    (ho : observable c fp f = true) : (f, renderField c f v) ∈ shownParts c fp := by
  simp only [shownParts, List.mem_filterMap]
  exact ⟨f, field_mem_all f, by simp [hv, ho]⟩

/-- the dependency clause of `observable`: grid styling needs a grid, legend text / place a visible legend,
    annotation contents annotations, the boundary locations margins -/
def depsAllow (fp : FigProps) (f : Field) : Bool :=
  match f with
  | .gridColor | .gridStyle | .gridWidth => (fp .gridOff).isNone
  | .legendEntries | .legendLoc => fp .legendSize != some "0"
  | .annotationFields | .annotationSize => (fp .annotate).isSome
  | .marginLeft | .marginRight | .marginTop | .marginBottom => (fp .marginsRemoved).isNone
  | _ => true

private theorem observable_eq (c : Cfg) (fp : FigProps) (f : Field) :
    observable c fp f = (shown c.plot f && depsAllow fp f) := by
  cases f <;> rfl

/-- **C17_wired_effect.**  For EVERY plot kind of the check (all 28 documented diagrams, `-hist`, `-sort`, the
    standard plot on three axes, the four `-type`s) and EVERY documented appearance option `e` (all 43 rows of the
    Spec's table): if the property of `e` exists on the kind (`applicable`, the documented table), the pair is not
    one of the recorded deviations, the option is given value `v` anywhere on the command line and not again
    later, and no documented dependency makes it void, then the canonical line of the model of the code — which
    `_adjust_axis` applies to `gca` resp. to every panel of the kinds made of panels (`Wired.panels`) — shows the
    property with the documented value of `v`. -/
theorem C17_wired_effect (k : Kind) (hk : k ∈ kinds) (e : Spec.Appearance.Entry) (he : e ∈ Spec.Appearance.table)
    (ha : applicable k.name e.field = true) (hd : deviates k.name e.field = false)
    (n : Nat) (pre post : Opts) (v : String) (h : ∀ x ∈ post, x.1 ≠ e.flag)
    (hdep : depsAllow (applyOptions ⟨k.name, n, pre ++ (e.flag, v) :: post⟩) e.field = true) :
    (e.field, renderField ⟨k.name, n, pre ++ (e.flag, v) :: post⟩ e.field (Spec.Appearance.value e.flag v))
      ∈ shownParts ⟨k.name, n, pre ++ (e.flag, v) :: post⟩ (applyOptions ⟨k.name, n, pre ++ (e.flag, v) :: post⟩) := by
  have hs : shown k.name e.field = true := by
    have h0 := all_ok
    simp only [Bool.and_eq_true] at h0
    have hk' := List.all_eq_true.mp h0.1.2 k hk
    have hf := List.all_eq_true.mp hk' e.field (field_mem_all e.field)
    simp only [Bool.or_eq_true, Bool.not_eq_true'] at hf
    rcases hf with (hf | hf) | hf
    · rw [ha] at hf; cases hf
    · rw [hd] at hf; cases hf
    · exact hf
  apply C17_render_shows _ _ _ _ (VerifModel.C17.C17_effect_documented e he k.name n pre post v h)
  rw [observable_eq]
  simp only [hs, hdep, Bool.and_self]

/-- the negation of the full statement on the witnesses of the known findings meteo-xticklabels / meteo-xrot:
    documented, not shown by the code (`-xrot`: unless the proposed patch is merged, `meteoXrotRepaired`) -/
theorem C17_meteo_labels_not_shown :
    applicable "meteo" .xTickLabels = true ∧ shown "meteo" .xTickLabels = false ∧
    applicable "meteo" .xTickRotation = true ∧ shown "meteo" .xTickRotation = meteoXrotRepaired ∧
    shown "meteo" .xTicks = true ∧ shown "meteo" .yTickRotation = true ∧ shown "timeseries" .xTickRotation = true := by
  decide +kernel

/-! ## 4. Non-vacuity -/

example : kinds.length = 37 := by decide

/-- the hypotheses of C17_shown_partial are satisfiable, and its conclusion is used: the Q-Q plot shows line colours -/
example : shown "qq" .seriesColor = true :=
  C17_shown_partial ⟨"qq", "qq", "", "", ""⟩ (by decide) .seriesColor (by decide) (by decide) (by decide)

/-- C17_wired_effect is used on a new (option, diagram) pair: `-m taylor -gc red -xrot 45` shows the rotation 45 -/
example : (Field.xTickRotation, renderField ⟨"taylor", 2, [("-gc", "red"), ("-xrot", "45")]⟩ .xTickRotation
      (Spec.Appearance.value "-xrot" "45")) ∈
    shownParts ⟨"taylor", 2, [("-gc", "red"), ("-xrot", "45")]⟩ (applyOptions ⟨"taylor", 2, [("-gc", "red"), ("-xrot", "45")]⟩) :=
  C17_wired_effect ⟨"taylor", "taylor", "", "", ""⟩ (by decide) ⟨"-xrot", .xTickRotation, .number⟩ (by decide)
    (by decide) (by decide) 2 [("-gc", "red")] [] "45" (by simp) (by rfl)

/-- the wiring clauses are not vacuous: the Q-Q plot hands the options to `mpl.plot`, the PIT histogram nowhere,
    the discrimination diagram to the bars; the ignorance-contribution diagram adjusts all panels -/
example : usesOf ⟨"qq", "qq", "", "", ""⟩ = [("mpl.plot", "**")] ∧ usesOf ⟨"pithist", "pithist", "", "", ""⟩ = [] ∧
    (usesOf ⟨"discrimination", "discrimination", "", "", ""⟩).contains ("mpl.bar", "lw=lw") = true ∧
    adjustOf ⟨"igncontrib", "igncontrib", "", "", ""⟩ = some "all" := by decide +kernel

/-- the properties in a line of the model: the title is shown on the rank plot (C17_effect_title gives its value) -/
example : (shownParts ⟨"rank", 2, [("-title", "T")]⟩ (applyOptions ⟨"rank", 2, [("-title", "T")]⟩)).map (·.1)
    = [.titleText] := by decide +kernel

/-- the known findings in the model: `-m droc -xlog -ylog` leaves the log properties out of the line,
    `-m roc -xlog -ylog` shows them -/
example : (shownParts ⟨"droc", 2, [("-xlog", "1"), ("-ylog", "1")]⟩
      (applyOptions ⟨"droc", 2, [("-xlog", "1"), ("-ylog", "1")]⟩)).map (·.1) = [] ∧
    (shownParts ⟨"roc", 2, [("-xlog", "1"), ("-ylog", "1")]⟩
      (applyOptions ⟨"roc", 2, [("-xlog", "1"), ("-ylog", "1")]⟩)).map (·.1) = [.xLog, .yLog] := by decide +kernel

end VerifModel.C17Kinds
