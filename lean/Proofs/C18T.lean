import Proofs.C18
import Proofs.DataRefine
import VerifModel.Model.PreaggHist
/-
  C18 with `-T` pre-aggregation on.

  `C18_history_independent` (Proofs/C18.lean) is stated for EVERY `D : DataS`: the heap model of the two caches
  reads the inputs only through `D.loadAll` (cut of the named field of `D.inputs`), and the proof uses nothing
  about where `D.inputs` came from.  The proof is therefore parametric in the loader in this sense: a pure loader
  `load : Input → Option Input` — "the input as `_get_score` reads it" — gives another dataset, and the theorem
  holds for that dataset (`C18_history_independent_loader`).  Two instances:

    * -T off: `load = some` (the input's own arrays)                    — `C18_history_independent_plain`
    * -T on : `load = PreaggHist.tInput f scale h k derived`            — `C18_history_independent_T`
      (every 3-D field pre-aggregated on the input's own grid into a NEW array, stored CDF / quantile columns
       dropped, the requested ones derived from the pre-aggregated ensemble members)

  What is NOT a theorem here and is checked on the real code instead (streams data.histT.exh / .rand): that
  `Data.preaggregate` and the aggregators it calls are pure functions of their arguments (they neither write into
  the input's array nor keep state) — the model's loader is pure by construction.
-/
namespace VerifModel.C18
open VerifModel

/-- a dataset built by `Data.init` has its scored inputs among its inputs -/
theorem init_nScored_le (scored : List Input) (cfg : Cfg) (D : DataS) (h : Data.init scored cfg = .ok D) :
    D.nScored ≤ D.inputs.length := by
  have F := DataRefine.init_facts scored cfg D h
  rw [F.hN, F.hInputs]
  simp [Spec.DataCoord.allInputs]

/-- **History independence for an arbitrary pure loader.**  `load` is what `_get_score` makes of an input before
anything is cached (`none` = NumPy raises).  For the dataset of the loaded inputs every answer of every request
history through both caches is the pure answer of that request on a fresh dataset. -/
theorem C18_history_independent_loader (load : Input → Option Input) (scored : List Input) (cfg : Cfg)
    (scored' : List Input) (clim' : Option Input) (D : DataS)
    (_hs : scored.mapM load = some scored') (_hc : cfg.clim.mapM load = some clim')
    (hD : Data.initF scored' { cfg with clim := clim' } = .ok D) :
    ∀ (rs : List Req) (s : DState), Inv D s →
      ∀ s' answers, D.run s rs = .ok (s', answers) →
        Inv D s' ∧ List.map (fun r => D.getScores r) rs = List.map Except.ok answers :=
  C18_history_independent D (init_nScored_le _ _ D hD)

/-- instance 1: -T off, the loader hands over the input as it is -/
theorem C18_history_independent_plain (scored : List Input) (cfg : Cfg) (D : DataS)
    (hD : Data.initF scored cfg = .ok D) :
    ∀ (rs : List Req) (s : DState), Inv D s →
      ∀ s' answers, D.run s rs = .ok (s', answers) →
        Inv D s' ∧ List.map (fun r => D.getScores r) rs = List.map Except.ok answers :=
  C18_history_independent D (init_nScored_le _ _ D hD)

/-- `initT` is `Data.initF` on the loaded inputs -/
theorem initT_ok (f : Vec → Option XR) (scale h : XR) (k : Nat) (derived : List (String × PreaggHist.Derive))
    (scored : List Input) (cfg : Cfg) (D : DataS)
    (hT : PreaggHist.initT f scale h k derived scored cfg = some (.ok D)) :
    ∃ scored' clim', scored.mapM (PreaggHist.tInput f scale h k derived) = some scored'
      ∧ cfg.clim.mapM (PreaggHist.tInput f scale h k derived) = some clim'
      ∧ Data.initF scored' { cfg with clim := clim' } = .ok D := by
  unfold PreaggHist.initT at hT
  cases hs : scored.mapM (PreaggHist.tInput f scale h k derived) with
  | none => simp [hs] at hT
  | some scored' =>
    cases hc : cfg.clim.mapM (PreaggHist.tInput f scale h k derived) with
    | none => simp [hs, hc] at hT
    | some clim' =>
      simp only [hs, hc] at hT
      exact ⟨scored', clim', rfl, rfl, Option.some.inj hT⟩

/-- **History independence with -T on** (instance 2).  For the dataset whose loader pre-aggregates
(`PreaggHist.initT`: `Data(inputs, dim_agg_length = h, dim_agg_method = f, dim_agg_axis = k)`), for every request
history — any length, order, repetition; obs / fcst / PIT / other fields, ensemble members, CDF and quantile columns
derived from the pre-aggregated members — every answer through both caches equals the pure answer of that request
alone on a fresh dataset, and the invariant of the caches is kept. -/
theorem C18_history_independent_T (f : Vec → Option XR) (scale h : XR) (k : Nat)
    (derived : List (String × PreaggHist.Derive)) (scored : List Input) (cfg : Cfg) (D : DataS)
    (hT : PreaggHist.initT f scale h k derived scored cfg = some (.ok D)) :
    ∀ (rs : List Req) (s : DState), Inv D s →
      ∀ s' answers, D.run s rs = .ok (s', answers) →
        Inv D s' ∧ List.map (fun r => D.getScores r) rs = List.map Except.ok answers := by
  obtain ⟨scored', clim', hs, hc, hD⟩ := initT_ok f scale h k derived scored cfg D hT
  exact C18_history_independent_loader _ scored cfg scored' clim' D hs hc hD

/-- from the empty caches, with -T on -/
theorem C18_from_fresh_T (f : Vec → Option XR) (scale h : XR) (k : Nat)
    (derived : List (String × PreaggHist.Derive)) (scored : List Input) (cfg : Cfg) (D : DataS)
    (hT : PreaggHist.initT f scale h k derived scored cfg = some (.ok D))
    (rs : List Req) (s' : DState) (answers : List (List Vec)) (hrun : D.run DState.init rs = .ok (s', answers)) :
    List.map (fun r => D.getScores r) rs = List.map Except.ok answers :=
  (C18_history_independent_T f scale h k derived scored cfg D hT rs DState.init (inv_init D) s' answers hrun).2

/-- the loader leaves the coordinates of an input alone: with -T on the dimensions of the dataset are those of the
original inputs -/
theorem tInput_coords (f : Vec → Option XR) (scale h : XR) (k : Nat) (derived : List (String × PreaggHist.Derive))
    (I I' : Input) (hI : PreaggHist.tInput f scale h k derived I = some I') :
    I'.times = I.times ∧ I'.leads = I.leads ∧ I'.locs = I.locs := by
  unfold PreaggHist.tInput at hI
  simp only at hI
  split at hI
  · cases hI
  · rename_i I1 h1
    unfold PreaggData.preaggInput at h1
    simp only [Option.map_eq_some_iff] at h1
    obtain ⟨fs, _, hfs⟩ := h1
    injection hI with hI
    subst hI; subst hfs
    exact ⟨rfl, rfl, rfl⟩

/-! ### non-vacuity: the hypotheses hold on a dataset with two inputs on different lead-time grids, a stored CDF column
that -T makes the loader ignore, three / one ensemble members, borrowed observations -/
namespace ExampleT
open XR

def tA : Input :=
  { times := [0], leads := [0, 1, 2], locs := [⟨1, 50, 10, 100⟩],
    fields := [("obs", [[[1], [2], [3]]]), ("fcst", [[[2], [0], [1]]]), ("p@1", [[[1/2], [1/2], [1/2]]]),
               ("e@0", [[[0], [1], [2]]]), ("e@1", [[[1], [1], [0]]]), ("e@2", [[[3], [0], [0]]])] }

def tB : Input :=
  { times := [0], leads := [2, 1], locs := [⟨1, 50, 10, 100⟩],
    fields := [("fcst", [[[5], [7]]]), ("e@0", [[[4], [1]]])] }

def tDer : List (String × PreaggHist.Derive) := [("p@1", .cdf 1), ("q@1/2", .quantile (1/2))]

def tHist : List Req :=
  [⟨["obs", "p@1"], 0, .all⟩, ⟨["q@1/2", "fcst"], 1, .all⟩, ⟨["obs", "p@1"], 0, .all⟩, ⟨["p@1"], 1, .none⟩]

/-- -T 2 with the sum over lead time: `initT` succeeds, the history runs without error; the answers: windows of input
0 are (0,1] → leads {0,1} and {1,2} on ITS grid (obs 1+2, 2+3), the CDF column is the fraction of the three
pre-aggregated members ≤ 1 (1/3, 2/3 — not the stored 1/2), asked again it is the same -/
example :
    (match PreaggHist.initT (Agg.apply ⟨id, id, id, id⟩ .sum) (fin 1) (fin 2) 1 tDer [tA, tB] {} with
     | some (.ok D) => (D.run DState.init tHist).toOption.map (·.2)
     | _ => none)
    = some [[[3, 5], [fin (1/3), fin (2/3)]], [[1, 5], [7, 12]], [[3, 5], [fin (1/3), fin (2/3)]], [[1, 0]]] := by
  decide +kernel

end ExampleT

end VerifModel.C18
