import Proofs.C04
import Proofs.Multi
import VerifModel.Driver.Multi
/-
  C04 — deletion invariance at the level of `get_scores` and of the SCORE (stream `metric.delete.data`).

  `Proofs/C04.lean` proves `C04_delete_invariance(_many)` for `finish` (the validity filter of `get_scores`).
  Here the statement is lifted
    * to `DataS.getScores` (Model/Data.lean): two datasets whose columns for a request differ by inserted
      cases that hold a missing value in a requested column answer the request identically;
    * to the score: `Driver.Multi.scoreOf` (one `get_scores` request, then the metric kernel — the model of
      `Metric.compute_single`) and, in fact, ANY function of the answer.

  Two levels:
    * COLUMN level (`…_partial`): hypothesis = the raw columns of D' are `insertRows rows` of those of D.  Partial because
      the step from the inputs to the columns (Data.init, common coordinates, index cut, applySel) is not part of it.
    * INPUT level (`C04_dataset_delete_invariance`, `C04_dataset_score_delete_invariance`): both datasets are built by
      `Data.init` from their inputs; the relation between them (`SplicedData`) is stated by COORDINATES through the
      coordinate specification (Spec/DataCoord.lean): the old cases are the same, valid and valued as before, every new
      case holds a missing value of a used field in some input.  Uses `getScores_over_specCases` (DataRefine).
      Not proved: that a SYNTACTIC splice of the stored arrays (np.insert along an axis) yields `SplicedData` — the
      stream `metric.delete.data` performs exactly that splice on the real code and compares with the model on D.
-/
namespace VerifModel.C04Data
open VerifModel XR C04 Driver.Multi

/-- `finish` does not see inserted invalid cases (restatement of `C04_delete_invariance_many`
with the hypotheses bundled) -/
def SplicedCols (cols cols' : List Vec) : Prop :=
  ∃ (n : Nat) (rows : List (Nat × List XR)),
    cols ≠ [] ∧ (∀ c ∈ cols, c.length = n) ∧ BadRows cols.length n rows ∧ cols' = insertRows rows cols

theorem finish_insertRow (sel : Sel) (hsel : sel ≠ .all) (nf : Nat) (cols cols' : List Vec)
    (h : SplicedCols cols cols') : finish sel nf cols' = finish sel nf cols := by
  obtain ⟨n, rows, hne, hlen, hbad, rfl⟩ := h
  exact C04_delete_invariance_many sel hsel nf n cols rows hne hlen hbad

/-- **`get_scores` does not see cases with a missing value.**  `D` and `D'` are two datasets; for the
request `r` (any field list, input and selection other than the whole array) the raw columns of `D'`
are those of `D` with any number of cases inserted, each holding a missing value (NaN, ±inf) in at
least one requested column (the other columns arbitrary).  Then the two answers are equal. -/
theorem C04_insert_case_getScores_partial (D D' : DataS) (r : Req) (hsel : r.sel ≠ .all)
    (hi : r.input < D.nScored) (hi' : r.input < D'.nScored)
    (clim clim' : Option Vec) (hc : D.climP r = .ok clim) (hc' : D'.climP r = .ok clim')
    (cols cols' : List Vec)
    (hcols : r.fields.mapM (D.column r clim) = .ok cols)
    (hcols' : r.fields.mapM (D'.column r clim') = .ok cols')
    (h : SplicedCols cols cols') :
    D'.getScores r = D.getScores r := by
  unfold DataS.getScores
  rw [if_neg (by omega), if_neg (by omega), hc, hc']
  simp only [hcols, hcols']
  rw [finish_insertRow r.sel hsel r.fields.length cols cols' h]

/-- … hence ANY function of the answer — every score — is unchanged. -/
theorem C04_score_delete_invariance_any {β : Type} (k : List Vec → β) (D D' : DataS) (r : Req)
    (hsel : r.sel ≠ .all) (hi : r.input < D.nScored) (hi' : r.input < D'.nScored)
    (clim clim' : Option Vec) (hc : D.climP r = .ok clim) (hc' : D'.climP r = .ok clim')
    (cols cols' : List Vec)
    (hcols : r.fields.mapM (D.column r clim) = .ok cols)
    (hcols' : r.fields.mapM (D'.column r clim') = .ok cols')
    (h : SplicedCols cols cols') :
    (D'.getScores r).map k = (D.getScores r).map k := by
  rw [C04_insert_case_getScores_partial D D' r hsel hi hi' clim clim' hc hc' cols cols' hcols hcols' h]

/-- **The score is unchanged.**  The model of `Metric.compute_single(data, i, axis, k, interval)`
(`Driver.Multi.scoreOf`: the metric's field list, one `get_scores` request, the metric kernel — for
every deterministic, contingency and probabilistic class the driver knows) gives the same score on
`D'` as on `D`. -/
theorem C04_score_delete_invariance_partial (T : Tr) (m : MReq) (axis : String) (D D' : DataS)
    (i : Nat) (sel : Sel) (hsel : sel ≠ .all) (hi : i < D.nScored) (hi' : i < D'.nScored)
    (fs : List String) (hf : fieldNames m axis = some fs)
    (clim clim' : Option Vec)
    (hc : D.climP ⟨fs, i, sel⟩ = .ok clim) (hc' : D'.climP ⟨fs, i, sel⟩ = .ok clim')
    (cols cols' : List Vec)
    (hcols : fs.mapM (D.column ⟨fs, i, sel⟩ clim) = .ok cols)
    (hcols' : fs.mapM (D'.column ⟨fs, i, sel⟩ clim') = .ok cols')
    (h : SplicedCols cols cols') :
    scoreOf T m axis D' i sel = scoreOf T m axis D i sel := by
  unfold scoreOf
  rw [hf]
  simp only []
  rw [C04_insert_case_getScores_partial D D' ⟨fs, i, sel⟩ hsel hi hi' clim clim' hc hc' cols cols'
    hcols hcols' h]

/-! ### a slice without any valid case -/

theorem compress_all_false (m : List Bool) (hm : ∀ b ∈ m, b = false) (v : Vec) : compress m v = [] := by
  unfold compress
  rw [List.filterMap_eq_nil_iff]
  intro p hp
  have := hm p.1 (List.of_mem_zip hp).1
  simp [this]

/-- **No valid case ⇒ NaN placeholder, never a number.**  When every case of the slice holds a missing
value in some requested column, every column `get_scores` hands on is the single-NaN placeholder —
whatever (placeholder, fill or ordinary) numbers the other columns hold. -/
theorem C04_no_valid_case_nan (sel : Sel) (hsel : sel ≠ .all) (nf : Nat) (cols : List Vec)
    (hall : ∀ b ∈ validMask cols, b = false) :
    finish sel nf cols = List.replicate nf [nan] := by
  have hout : ((cols.map (compress (validMask cols))).headD []).isEmpty = true := by
    cases cols with
    | nil => rfl
    | cons c cs =>
      simp only [List.map_cons, List.headD_cons]
      rw [compress_all_false _ hall]; rfl
  unfold finish
  cases sel with
  | all => exact absurd rfl hsel
  | none => simp only [hout, if_true]
  | time i => simp only [hout, if_true]
  | times idx => simp only [hout, if_true]
  | leads idx => simp only [hout, if_true]
  | loc i => simp only [hout, if_true]

/-- non-vacuity of `SplicedCols` and of the no-valid-case hypothesis: two columns, three cases, two
inserted cases (one with `+inf` in the first column and the ordinary number 9 in the second, one with
NaN in the second); and a slice whose two cases are each invalid in one column yields `[NaN]` twice -/
example :
    SplicedCols [[fin 1, fin 2, fin 3], [fin 4, nan, fin 6]]
      [[fin 1, pinf, fin 2, fin 3, fin 7], [fin 4, fin 9, nan, fin 6, nan]] :=
  ⟨3, [(1, [pinf, fin 9]), (4, [fin 7, nan])], by decide, by decide +kernel,
    ⟨by decide, rfl, ⟨pinf, by decide +kernel, rfl⟩, by decide, rfl, ⟨nan, by decide +kernel, rfl⟩, trivial⟩,
    by decide +kernel⟩

example :
    (∀ b ∈ validMask [[pinf, fin 2], [fin 3, nan]], b = false)
    ∧ finish (.time 0) 2 [[pinf, fin 2], [fin 3, nan]] = [[nan], [nan]] := by
  decide +kernel

/-! ### from the INPUTS: two datasets that differ by cases holding a missing value

`getScores_over_specCases` (Proofs/DataRefine.lean) says that for a dataset built by `Data.init` the answer
of `get_scores` is the requested fields listed over the coordinate specification's valid cases.  So the
inputs→columns step can be made at the level of the coordinate specification. -/

open Spec.DataCoord DataRefine in
/-- `(scored', cfg')` is `(scored, cfg)` with extra cases: the cases of the selection that are `isOld`
are exactly the cases of the original selection, in the same order; the old cases are valid as before
and hold the values they held; every NEW case holds a missing value (NaN, ±inf) of a field the request
uses in SOME input (scored or climatology) — the other fields and inputs are arbitrary. -/
structure SplicedData (scored scored' : List Input) (cfg cfg' : Cfg) (r : Req) (d d' : Dims)
    (I I' : Input) (isOld : Coord → Bool) : Prop where
  cases_old : (selCases d' r.sel).filter isOld = selCases d r.sel
  new_missing : ∀ c ∈ selCases d' r.sel, isOld c = false →
    ∃ name ∈ effFields cfg' r.fields, ∃ J ∈ allInputs scored' cfg',
      isValid (fieldValue (allInputs scored' cfg') name J c) = false
  old_valid : ∀ c ∈ selCases d r.sel,
    caseValid (allInputs scored' cfg') cfg' r.fields I' c = caseValid (allInputs scored cfg) cfg r.fields I c
  old_value : ∀ c ∈ selCases d r.sel, ∀ name ∈ r.fields,
    adjusted (allInputs scored' cfg') cfg' r.fields I' name c = adjusted (allInputs scored cfg) cfg r.fields I name c

theorem filter_filter_of_bad {α : Type} (p q : α → Bool) (l : List α)
    (h : ∀ x ∈ l, q x = false → p x = false) : l.filter p = (l.filter q).filter p := by
  induction l with
  | nil => rfl
  | cons x xs ih =>
    have ih' := ih (fun y hy => h y (List.mem_cons_of_mem _ hy))
    cases hq : q x with
    | true =>
      cases hp : p x with
      | true => simp only [List.filter_cons, hq, hp, if_true]; rw [ih']
      | false => simp only [List.filter_cons, hq, hp, if_true]; simpa using ih'
    | false =>
      have hp := h x (List.mem_cons_self ..) hq
      simp only [List.filter_cons, hq, hp]
      simpa using ih'

open Spec.DataCoord DataRefine in
/-- the valid cases of the two datasets are the same list of coordinates -/
theorem specCases_spliced (scored scored' : List Input) (cfg cfg' : Cfg) (r : Req) (d d' : Dims)
    (I I' : Input) (isOld : Coord → Bool)
    (hd : specDims scored cfg = some d) (hd' : specDims scored' cfg' = some d')
    (hI : scored[r.input]? = some I) (hI' : scored'[r.input]? = some I')
    (hs : SplicedData scored scored' cfg cfg' r d d' I I' isOld) :
    specCases scored' cfg' r = specCases scored cfg r := by
  unfold specCases
  rw [hd, hd', hI, hI']
  simp only []
  rw [filter_filter_of_bad _ isOld, hs.cases_old]
  · apply List.filter_congr
    intro c hc
    exact hs.old_valid c hc
  · intro c hc hold
    obtain ⟨name, hname, J, hJ, hbad⟩ := hs.new_missing c hc hold
    unfold caseValid
    have : ((effFields cfg' r.fields).all fun name =>
        (allInputs scored' cfg').all fun J => isValid (fieldValue (allInputs scored' cfg') name J c)) = false := by
      rw [List.all_eq_false]
      refine ⟨name, hname, ?_⟩
      rw [Bool.not_eq_true, List.all_eq_false]
      exact ⟨J, hJ, by rw [hbad]; simp⟩
    rw [this]; rfl

open Spec.DataCoord DataRefine in
/-- **Deletion invariance of `get_scores` for datasets given by their inputs.**  Both datasets are built
by `Data.init` from well-formed inputs; the second has extra cases, each holding a missing value of a
used field in some input (`SplicedData`).  Then every request (selection other than the whole array)
gets the same answer. -/
theorem C04_dataset_delete_invariance (scored scored' : List Input) (cfg cfg' : Cfg) (D D' : DataS)
    (h : Data.init scored cfg = .ok D) (h' : Data.init scored' cfg' = .ok D')
    (hw : (allInputs scored cfg).all wfInput = true) (hw' : (allInputs scored' cfg').all wfInput = true)
    (r : Req) (hall : isAllSel r.sel = false) (d d' : Dims) (I I' : Input) (isOld : Coord → Bool)
    (hd : specDims scored cfg = some d) (hd' : specDims scored' cfg' = some d')
    (hI : scored[r.input]? = some I) (hI' : scored'[r.input]? = some I')
    (hs : SplicedData scored scored' cfg cfg' r d d' I I' isOld)
    (out out' : List Vec) (hout : D.getScores r = .ok out) (hout' : D'.getScores r = .ok out') :
    out' = out := by
  obtain ⟨J, hJ, e⟩ := getScores_over_specCases scored cfg D h hw r hall out hout
  obtain ⟨J', hJ', e'⟩ := getScores_over_specCases scored' cfg' D' h' hw' r hall out' hout'
  rw [hI] at hJ; rw [hI'] at hJ'
  injection hJ with hJ; injection hJ' with hJ'
  subst hJ; subst hJ'
  rw [e, e', specCases_spliced scored scored' cfg cfg' r d d' I I' isOld hd hd' hI hI' hs]
  have hcols : (r.fields.map fun name =>
        (specCases scored cfg r).map (adjusted (allInputs scored' cfg') cfg' r.fields I' name))
      = (r.fields.map fun name =>
        (specCases scored cfg r).map (adjusted (allInputs scored cfg) cfg r.fields I name)) := by
    apply List.map_congr_left
    intro name hname
    apply List.map_congr_left
    intro c hc
    have hc' : c ∈ selCases d r.sel := by
      unfold specCases at hc
      rw [hd, hI] at hc
      exact (List.mem_filter.mp hc).1
    exact hs.old_value c hc' name hname
  simp only [hcols]

open Spec.DataCoord DataRefine in
/-- … and the model of `Metric.compute_single` (`scoreOf`: every kernel of Driver/Multi.lean) gives the
same score on both datasets, whenever it gives one. -/
theorem C04_dataset_score_delete_invariance (T : Tr) (m : MReq) (axis : String)
    (scored scored' : List Input) (cfg cfg' : Cfg) (D D' : DataS)
    (h : Data.init scored cfg = .ok D) (h' : Data.init scored' cfg' = .ok D')
    (hw : (allInputs scored cfg).all wfInput = true) (hw' : (allInputs scored' cfg').all wfInput = true)
    (i : Nat) (sel : Sel) (hall : isAllSel sel = false) (fs : List String) (hf : fieldNames m axis = some fs)
    (d d' : Dims) (I I' : Input) (isOld : Coord → Bool)
    (hd : specDims scored cfg = some d) (hd' : specDims scored' cfg' = some d')
    (hI : scored[i]? = some I) (hI' : scored'[i]? = some I')
    (hs : SplicedData scored scored' cfg cfg' ⟨fs, i, sel⟩ d d' I I' isOld)
    (v v' : XR) (hv : scoreOf T m axis D i sel = .ok v) (hv' : scoreOf T m axis D' i sel = .ok v') :
    v' = v := by
  unfold scoreOf at hv hv'
  rw [hf] at hv hv'
  simp only [] at hv hv'
  cases hg : D.getScores { fields := fs, input := i, sel := sel } with
  | error e => rw [hg] at hv; cases hv
  | ok out =>
    cases hg' : D'.getScores { fields := fs, input := i, sel := sel } with
    | error e => rw [hg'] at hv'; cases hv'
    | ok out' =>
      have := C04_dataset_delete_invariance scored scored' cfg cfg' D D' h h' hw hw' ⟨fs, i, sel⟩ hall
        d d' I I' isOld hd hd' hI hI' hs out out' hg hg'
      subst this
      rw [hg] at hv; rw [hg'] at hv'
      simp only [] at hv hv'
      rw [hv] at hv'
      injection hv' with hv'
      exact hv'.symm

/-! non-vacuity: `exA` of Proofs/DataRefine.lean (2 times × 2 lead times × 2 locations, all valid) and the same
input with a third time 172800 spliced in BETWEEN the two (stored order 0, 172800, 86400) whose four cells
hold NaN / +inf / -inf in obs or fcst and ordinary numbers (9, 7) elsewhere -/
namespace Example
open Spec.DataCoord DataRefine DataRefine.Example

def exA2 : Input :=
  { times := [0, 172800, 86400], leads := [0, 6],
    locs := [⟨1, 50, 10, 100⟩, ⟨2, 60, 20, 200⟩],
    fields := [("obs", [[[1, 2], [3, 4]], [[.nan, 9], [9, .ninf]], [[5, 6], [7, 8]]]),
               ("fcst", [[[2, 3], [4, 5]], [[7, .pinf], [.nan, 7]], [[6, 7], [8, 9]]])] }

def noCfg : Cfg := {}
def rq : Req := ⟨["obs", "fcst"], 0, .none⟩
def old (c : Coord) : Bool := !XR.eqb c.1 (fin 172800)

example : (Data.init [exA] noCfg).toOption.isSome = true ∧ (Data.init [exA2] noCfg).toOption.isSome = true
    ∧ (allInputs [exA] noCfg).all wfInput = true ∧ (allInputs [exA2] noCfg).all wfInput = true
    ∧ specDims [exA] noCfg = some ⟨[0, 86400], [0, 6], [1, 2]⟩
    ∧ specDims [exA2] noCfg = some ⟨[0, 86400, 172800], [0, 6], [1, 2]⟩ := by
  refine ⟨?_, ?_, ?_, ?_, ?_, ?_⟩ <;> decide +kernel

example : SplicedData [exA] [exA2] noCfg noCfg rq ⟨[0, 86400], [0, 6], [1, 2]⟩
    ⟨[0, 86400, 172800], [0, 6], [1, 2]⟩ exA exA2 old :=
  ⟨by decide +kernel, by decide +kernel, by decide +kernel, by decide +kernel⟩

/-- … and the conclusion, evaluated: both datasets give MAE = 1 over the same eight cases -/
example : (match Data.init [exA] noCfg, Data.init [exA2] noCfg with
           | .ok D, .ok D' => [(scoreOf Multi.Example.idTr Multi.Example.mae "no" D 0 .none).toOption,
                               (scoreOf Multi.Example.idTr Multi.Example.mae "no" D' 0 .none).toOption]
           | _, _ => []) = [some 1, some 1]
    ∧ (specCases [exA2] noCfg rq).length = 8 := by
  constructor <;> decide +kernel

end Example

end VerifModel.C04Data
