import VerifModel.Model.TextInput
import Mathlib.Tactic.Linarith
import Mathlib.Tactic.Ring
/-
  Generic lemmas about the text-reader model (C09): sorted sets, dictionaries, the row loop.
-/
namespace VerifModel.TextInput
open VerifModel

/-! ### sorted duplicate-free lists -/

def IsFin (x : XR) : Prop := ∃ q, x = XR.fin q

/-- strictly ascending (hence duplicate-free) -/
def Asc (l : List XR) : Prop := l.Pairwise (fun a b => XR.lt a b = true)

theorem lt_irrefl (a : XR) : XR.lt a a = false := by
  cases a <;> simp [XR.lt]

theorem lt_asymm (a b : XR) (h : XR.lt a b = true) : XR.lt b a = false := by
  cases a <;> cases b <;> simp_all [XR.lt]
  exact le_of_lt h

theorem mem_insertSorted (x z : XR) (l : List XR) : z ∈ insertSorted x l ↔ z = x ∨ z ∈ l := by
  induction l with
  | nil => simp [insertSorted]
  | cons y ys ih =>
    simp only [insertSorted]
    split_ifs with h1 h2
    · subst h1; simp
    · simp
    · simp only [List.mem_cons, ih]; tauto

theorem mem_sortDedup (z : XR) (l : List XR) : z ∈ sortDedup l ↔ z ∈ l := by
  induction l with
  | nil => simp [sortDedup]
  | cons y ys ih =>
    have : sortDedup (y :: ys) = insertSorted y (sortDedup ys) := rfl
    rw [this, mem_insertSorted, ih]; simp

theorem asc_insertSorted (x : XR) (l : List XR) (hx : IsFin x) (hl : ∀ y ∈ l, IsFin y)
    (h : Asc l) : Asc (insertSorted x l) := by
  induction l with
  | nil => simp [insertSorted, Asc]
  | cons y ys ih =>
    obtain ⟨q, rfl⟩ := hx
    obtain ⟨p, rfl⟩ := hl y (by simp)
    have hys : ∀ z ∈ ys, IsFin z := fun z hz => hl z (by simp [hz])
    simp only [Asc, List.pairwise_cons] at h
    simp only [insertSorted]
    split_ifs with h1 h2
    · simpa [Asc, List.pairwise_cons] using h
    · simp only [Asc, List.pairwise_cons, List.mem_cons]
      refine ⟨?_, h⟩
      rintro z (rfl | hz)
      · exact h2
      · obtain ⟨r, rfl⟩ := hys z hz
        have := h.1 _ hz
        simp only [XR.lt, decide_eq_true_eq] at this h2 ⊢
        linarith
    · simp only [Asc, List.pairwise_cons]
      refine ⟨?_, ih hys h.2⟩
      intro z hz
      rcases (mem_insertSorted _ _ _).1 hz with rfl | hz
      · simp only [XR.lt, decide_eq_true_eq] at h2 ⊢
        have : q ≠ p := fun e => h1 (by rw [e])
        rcases lt_trichotomy q p with h' | h' | h'
        · exact absurd h' h2
        · exact absurd h' this
        · exact h'
      · exact h.1 _ hz

theorem asc_sortDedup (l : List XR) (hl : ∀ y ∈ l, IsFin y) : Asc (sortDedup l) := by
  induction l with
  | nil => simp [sortDedup, Asc]
  | cons y ys ih =>
    have : sortDedup (y :: ys) = insertSorted y (sortDedup ys) := rfl
    rw [this]
    refine asc_insertSorted _ _ (hl y (by simp)) ?_ (ih fun z hz => hl z (by simp [hz]))
    intro z hz
    exact hl z (by simp [(mem_sortDedup z ys).1 hz])

/-- an ascending list is determined by its set of members -/
theorem asc_unique (l₁ l₂ : List XR) (h₁ : Asc l₁) (h₂ : Asc l₂) (hm : ∀ x, x ∈ l₁ ↔ x ∈ l₂) :
    l₁ = l₂ := by
  induction l₁ generalizing l₂ with
  | nil =>
    cases l₂ with
    | nil => rfl
    | cons b t => exact absurd ((hm b).2 (by simp)) (by simp)
  | cons a s ih =>
    cases l₂ with
    | nil => exact absurd ((hm a).1 (by simp)) (by simp)
    | cons b t =>
      simp only [Asc, List.pairwise_cons] at h₁ h₂
      have hab : a = b := by
        have ha := (hm a).1 (by simp)
        have hb := (hm b).2 (by simp)
        simp only [List.mem_cons] at ha hb
        rcases ha with rfl | ha
        · rfl
        rcases hb with rfl | hb
        · rfl
        have e1 := h₂.1 _ ha
        have e2 := h₁.1 _ hb
        rw [lt_asymm _ _ e1] at e2
        exact absurd e2 (by simp)
      subst hab
      congr 1
      refine ih t h₁.2 h₂.2 ?_
      intro x
      constructor
      · intro hx
        have := (hm x).1 (by simp [hx])
        simp only [List.mem_cons] at this
        rcases this with rfl | h
        · have := h₁.1 _ hx; rw [lt_irrefl] at this; exact absurd this (by simp)
        · exact h
      · intro hx
        have := (hm x).2 (by simp [hx])
        simp only [List.mem_cons] at this
        rcases this with rfl | h
        · have := h₂.1 _ hx; rw [lt_irrefl] at this; exact absurd this (by simp)
        · exact h

/-! ### dictionaries -/

theorem dictGet_some (d : Dict) (k : Key) (v : XR) (hm : (k, v) ∈ d)
    (hf : ∀ v', (k, v') ∈ d → v' = v) : dictGet d k = some v := by
  unfold dictGet
  cases h : d.find? (fun p => p.1 == k) with
  | none =>
    have := List.find?_eq_none.1 h (k, v) hm
    simp at this
  | some p =>
    have h1 := List.find?_some h
    have h2 := List.mem_of_find?_eq_some h
    have : p.1 = k := by simpa using h1
    obtain ⟨k', v'⟩ := p
    simp only at this; subst this
    simp [hf v' h2]

theorem dictGet_none (d : Dict) (k : Key) (h : ∀ v, (k, v) ∉ d) : dictGet d k = none := by
  unfold dictGet
  cases h' : d.find? (fun p => p.1 == k) with
  | none => rfl
  | some p =>
    have h1 := List.find?_some h'
    have h2 := List.mem_of_find?_eq_some h'
    have : p.1 = k := by simpa using h1
    obtain ⟨k', v'⟩ := p
    simp only at this; subst this
    exact absurd h2 (h v')

/-! ### the row loop -/

/-- the `Location` a row describes by itself -/
def own (p : PRow) : Loc := ⟨p.id, p.lat, p.lon, p.elev⟩

/-- one (lat, lon, elev) per id -/
def Consistent (all : List PRow) : Prop :=
  ∀ p ∈ all, ∀ p' ∈ all, p.id.isNan = false → p'.id = p.id → own p' = own p

def rowBinds (p : PRow) (k : Key) (v : XR) : Prop :=
  ∃ fk, (fk, v) ∈ p.cells ∧ k = ⟨fk, p.time, p.lead, own p⟩

def LocInv (all : List PRow) (locs : List Loc) : Prop := ∀ l ∈ locs, ∃ p ∈ all, l = own p

theorem resolve_own (all : List PRow) (hc : Consistent all) (locs : List Loc)
    (hinv : LocInv all locs) (p : PRow) (hp : p ∈ all) : resolve locs p = own p := by
  unfold resolve
  by_cases hn : p.id.isNan = true
  · simp [hn, own]
  · have hn' : p.id.isNan = false := by simpa using hn
    simp only [hn', Bool.false_eq_true, if_false]
    cases hf : locs.find? (fun l => l.id == p.id) with
    | none => rfl
    | some l =>
      have h1 := List.find?_some hf
      have h2 := List.mem_of_find?_eq_some hf
      obtain ⟨p', hp', rfl⟩ := hinv l h2
      have : p'.id = p.id := by simpa [own] using h1
      exact hc p hp p' hp' hn' this

theorem mem_addLoc (locs : List Loc) (l x : Loc) : x ∈ addLoc locs l ↔ x ∈ locs ∨ x = l := by
  unfold addLoc
  split_ifs with h
  · constructor
    · exact Or.inl
    · rintro (h' | rfl)
      · exact h'
      · exact h
  · simp

theorem nodup_addLoc (locs : List Loc) (l : Loc) (h : locs.Nodup) : (addLoc locs l).Nodup := by
  unfold addLoc
  split_ifs with h'
  · exact h
  · rw [List.nodup_append]
    refine ⟨h, by simp, ?_⟩
    intro a ha b hb
    simp only [List.mem_singleton] at hb
    subst hb
    intro e; subst e; exact h' ha

theorem exists_cons {α} (P : α → Prop) (a : α) (l : List α) :
    (∃ x ∈ a :: l, P x) ↔ P a ∨ ∃ x ∈ l, P x := by
  constructor
  · rintro ⟨x, hx, h⟩
    rcases List.mem_cons.1 hx with rfl | hx
    · exact Or.inl h
    · exact Or.inr ⟨x, hx, h⟩
  · rintro (h | ⟨x, hx, h⟩)
    · exact ⟨a, by simp, h⟩
    · exact ⟨x, by simp [hx], h⟩

theorem foldl_step_spec (all : List PRow) (hc : Consistent all) :
    ∀ (ps : List PRow), (∀ p ∈ ps, p ∈ all) → ∀ (S : St), LocInv all S.locs →
      LocInv all (ps.foldl St.step S).locs ∧
      (∀ x, x ∈ (ps.foldl St.step S).times ↔ x ∈ S.times ∨ ∃ p ∈ ps, x = p.time) ∧
      (∀ x, x ∈ (ps.foldl St.step S).leads ↔ x ∈ S.leads ∨ ∃ p ∈ ps, x = p.lead) ∧
      (∀ l, l ∈ (ps.foldl St.step S).locs ↔ l ∈ S.locs ∨ ∃ p ∈ ps, l = own p) ∧
      (S.locs.Nodup → (ps.foldl St.step S).locs.Nodup) ∧
      (∀ k v, (k, v) ∈ (ps.foldl St.step S).dict ↔ (k, v) ∈ S.dict ∨ ∃ p ∈ ps, rowBinds p k v) := by
  intro ps
  induction ps with
  | nil => intro _ S hinv; simp [hinv]
  | cons p ps ih =>
    intro hps S hinv
    have hp : p ∈ all := hps p (by simp)
    have hres := resolve_own all hc S.locs hinv p hp
    have hinv' : LocInv all (S.step p).locs := by
      intro l hl
      simp only [St.step, hres] at hl
      rcases (mem_addLoc _ _ _).1 hl with h | rfl
      · exact hinv l h
      · exact ⟨p, hp, rfl⟩
    obtain ⟨i1, i2, i3, i4, i5, i6⟩ := ih (fun q hq => hps q (by simp [hq])) (S.step p) hinv'
    simp only [List.foldl_cons]
    refine ⟨i1, ?_, ?_, ?_, ?_, ?_⟩
    · intro x; rw [i2, exists_cons]; simp only [St.step, List.mem_cons]; tauto
    · intro x; rw [i3, exists_cons]; simp only [St.step, List.mem_cons]; tauto
    · intro l; rw [i4, exists_cons]; simp only [St.step, hres, mem_addLoc]; tauto
    · intro hn; apply i5; simp only [St.step, hres]; exact nodup_addLoc _ _ hn
    · intro k v; rw [i6, exists_cons]
      have : (k, v) ∈ (S.step p).dict ↔ rowBinds p k v ∨ (k, v) ∈ S.dict := by
        simp only [St.step, hres, List.mem_append, List.mem_reverse, List.mem_map, rowBinds]
        constructor
        · rintro (⟨c, hc1, hc2⟩ | h)
          · left
            refine ⟨c.1, ?_, ?_⟩
            · have : c.2 = v := by simpa using congrArg Prod.snd hc2
              rw [← this]; exact hc1
            · simpa using (congrArg Prod.fst hc2).symm
          · right; exact h
        · rintro (⟨fk, h1, h2⟩ | h)
          · left; exact ⟨(fk, v), h1, by rw [h2]⟩
          · right; exact h
      rw [this]; tauto


/-! ### all rows -/

def rowOf (hdr r : List Word) : PRow :=
  match parseRow hdr r with
  | .ok p => p
  | .error _ => default

theorem parseRows_ok (hdr : List Word) (rs : List (List Word))
    (h : ∀ r ∈ rs, ∃ p, parseRow hdr r = .ok p) : parseRows hdr rs = .ok (rs.map (rowOf hdr)) := by
  induction rs with
  | nil => rfl
  | cons r rs ih =>
    obtain ⟨p, hp⟩ := h r (by simp)
    have := ih (fun q hq => h q (by simp [hq]))
    simp [parseRows, hp, this, rowOf]

theorem parseRows_inv (hdr : List Word) (rs : List (List Word)) (ps : List PRow)
    (h : parseRows hdr rs = .ok ps) :
    (∀ r ∈ rs, ∃ p, parseRow hdr r = .ok p) ∧ ps = rs.map (rowOf hdr) := by
  induction rs generalizing ps with
  | nil => simp [parseRows] at h; simp [h]
  | cons r rs ih =>
    simp only [parseRows] at h
    cases hp : parseRow hdr r with
    | error e => rw [hp] at h; simp at h
    | ok p =>
      rw [hp] at h
      cases hq : parseRows hdr rs with
      | error e => rw [hq] at h; simp at h
      | ok qs =>
        rw [hq] at h
        obtain ⟨i1, i2⟩ := ih qs hq
        simp only [Except.ok.injEq] at h
        refine ⟨?_, ?_⟩
        · intro x hx
          rcases List.mem_cons.1 hx with rfl | hx
          · exact ⟨p, hp⟩
          · exact i1 x hx
        · rw [← h, i2]; simp [rowOf, hp]

/-- what `assemble` stores, for rows with one (lat,lon,elev) per id and finite coordinates -/
theorem assemble_spec (hdr : List Word) (ps : List PRow) (m : Meta) (hc : Consistent ps)
    (hfin : ∀ p ∈ ps, IsFin p.time ∧ IsFin p.lead) :
    Asc (assemble hdr ps m).times ∧ (∀ x, x ∈ (assemble hdr ps m).times ↔ ∃ p ∈ ps, x = p.time) ∧
    Asc (assemble hdr ps m).leads ∧ (∀ x, x ∈ (assemble hdr ps m).leads ↔ ∃ p ∈ ps, x = p.lead) ∧
    (assemble hdr ps m).locs.Nodup ∧ (∀ l, l ∈ (assemble hdr ps m).locs ↔ ∃ p ∈ ps, l = own p) ∧
    (∀ k v, (k, v) ∈ (assemble hdr ps m).dict ↔ ∃ p ∈ ps, rowBinds p k v) := by
  obtain ⟨_, i2, i3, i4, i5, i6⟩ :=
    foldl_step_spec ps hc ps (fun _ hp => hp) {} (by intro l hl; simp at hl)
  simp only [List.not_mem_nil, false_or] at i2 i3 i4 i6
  refine ⟨?_, ?_, ?_, ?_, i5 (by simp), i4, i6⟩
  · apply asc_sortDedup
    intro y hy
    obtain ⟨p, hp, rfl⟩ := (i2 y).1 hy
    exact (hfin p hp).1
  · intro x; simp only [assemble, mem_sortDedup]; exact i2 x
  · apply asc_sortDedup
    intro y hy
    obtain ⟨p, hp, rfl⟩ := (i3 y).1 hy
    exact (hfin p hp).2
  · intro x; simp only [assemble, mem_sortDedup]; exact i3 x

/-! ### comment and row lines -/

theorem rows_append (a b : List Line) : rows (a ++ b) = rows a ++ rows b := by
  induction a with
  | nil => rfl
  | cons l a ih => cases l <;> simp [rows, ih]

theorem comments_append (a b : List Line) : comments (a ++ b) = comments a ++ comments b := by
  induction a with
  | nil => rfl
  | cons l a ih => cases l <;> simp [comments, ih]

theorem rows_comment (l : List (List Word)) : rows (l.map Line.comment) = [] := by
  induction l with
  | nil => rfl
  | cons a l ih => simp [rows, ih]

theorem comments_comment (l : List (List Word)) : comments (l.map Line.comment) = l := by
  induction l with
  | nil => rfl
  | cons a l ih => simp [comments, ih]

theorem rows_row (l : List (List Word)) : rows (l.map Line.row) = l := by
  induction l with
  | nil => rfl
  | cons a l ih => simp [rows, ih]

theorem comments_row (l : List (List Word)) : comments (l.map Line.row) = [] := by
  induction l with
  | nil => rfl
  | cons a l ih => simp [comments, ih]


/-! ### other-field names, location ids -/

theorem dedupFirst_nodup {α} [DecidableEq α] (l : List α) (h : l.Nodup) : dedupFirst l = l := by
  induction l with
  | nil => rfl
  | cons x xs ih =>
    simp only [List.nodup_cons] at h
    simp only [dedupFirst, ih h.2]
    congr 1
    rw [List.filter_eq_self]
    intro a ha
    simp only [ne_eq, decide_not, Bool.not_eq_eq_eq_not, Bool.not_true, decide_eq_false_iff_not]
    intro e; subst e; exact h.1 ha

/-- thresholds / quantiles / members: ascending, and exactly the selected keys of the dictionary -/
theorem params_spec (d : Dict) (sel : FKey → Option XR) (S : XR → Prop)
    (hS : ∀ v, (∃ p ∈ d, sel p.1.f = some v) ↔ S v) (hfin : ∀ v, S v → IsFin v) :
    Asc (sortDedup (d.filterMap fun p => sel p.1.f)) ∧
      ∀ v, v ∈ sortDedup (d.filterMap fun p => sel p.1.f) ↔ S v := by
  have hm : ∀ v, v ∈ d.filterMap (fun p => sel p.1.f) ↔ S v := by
    intro v; rw [List.mem_filterMap]; exact hS v
  refine ⟨asc_sortDedup _ (fun y hy => hfin y ((hm y).1 hy)), ?_⟩
  intro v; rw [mem_sortDedup]; exact hm v

end VerifModel.TextInput
