import VerifModel.Model.OutputTable
/-
  Helper lemmas for C12 (core Lean only): splitting and joining character lists, `strip`,
  the character class of formatted numbers, the cell layout of `Output.text`.
  The property theorems are in `Proofs/C12.lean`.
-/
namespace VerifModel.C12
open VerifModel Decimal OutputTable



/-- split on a separator character (Python's `s.split(sep)` for a one-character separator) -/
def splitC (sep : Char) : Str → List Str
  | [] => [[]]
  | c :: cs =>
    if c = sep then [] :: splitC sep cs
    else match splitC sep cs with
      | [] => [[c]]
      | h :: t => (c :: h) :: t

theorem splitC_ne_nil (sep : Char) (s : Str) : splitC sep s ≠ [] := by
  induction s with
  | nil => simp [splitC]
  | cons c cs ih =>
    simp only [splitC]
    split
    · simp
    · split <;> simp

theorem splitC_append (sep : Char) (f rest : Str) (hf : sep ∉ f) :
    splitC sep (f ++ sep :: rest) = f :: splitC sep rest := by
  induction f with
  | nil => simp [splitC]
  | cons c cs ih =>
    have hc : c ≠ sep := by intro h; exact hf (by simp [h])
    have hcs : sep ∉ cs := by intro h; exact hf (by simp [h])
    simp only [List.cons_append, splitC, hc, if_false, ih hcs]

theorem splitC_single (sep : Char) (f : Str) (hf : sep ∉ f) : splitC sep f = [f] := by
  induction f with
  | nil => simp [splitC]
  | cons c cs ih =>
    have hc : c ≠ sep := by intro h; exact hf (by simp [h])
    have hcs : sep ∉ cs := by intro h; exact hf (by simp [h])
    simp only [splitC, hc, if_false, ih hcs]

/-- split ∘ join = id on separator-free fields -/
theorem splitC_join (sep : Char) (fs : List Str) (hne : fs ≠ []) (h : ∀ f ∈ fs, sep ∉ f) :
    splitC sep (join [sep] fs) = fs := by
  induction fs with
  | nil => exact absurd rfl hne
  | cons f rest ih =>
    cases rest with
    | nil => simpa [join] using splitC_single sep f (h f (by simp))
    | cons g rest =>
      have := ih (by simp) (fun x hx => h x (by simp [hx]))
      simp only [join, List.append_assoc, List.singleton_append]
      rw [splitC_append sep f _ (h f (by simp)), this]




/-- no leading / trailing Python-whitespace (the empty string qualifies) -/
def trimmed (f : Str) : Bool :=
  (match f.head? with | some c => !pyIsSpace c | none => true) &&
  (match f.getLast? with | some c => !pyIsSpace c | none => true)

theorem dropWhile_all {α} (p : α → Bool) (w x : List α) (hw : ∀ c ∈ w, p c = true) :
    (w ++ x).dropWhile p = x.dropWhile p := by
  induction w with
  | nil => rfl
  | cons c cs ih =>
    simp only [List.cons_append, List.dropWhile_cons, hw c (by simp), if_true]
    exact ih (fun d hd => hw d (by simp [hd]))

theorem dropWhile_head {α} (p : α → Bool) (x : List α) (h : ∀ c, x.head? = some c → p c = false) :
    x.dropWhile p = x := by
  cases x with
  | nil => rfl
  | cons c cs => simp [h c (by simp)]

theorem strip_pad (w1 f w2 : Str) (h1 : ∀ c ∈ w1, pyIsSpace c = true) (h2 : ∀ c ∈ w2, pyIsSpace c = true)
    (hf : trimmed f = true) : strip (w1 ++ f ++ w2) = f := by
  unfold strip
  rw [List.append_assoc, dropWhile_all _ _ _ h1]
  cases f with
  | nil =>
    have : w2.dropWhile pyIsSpace = [] := by
      have := dropWhile_all pyIsSpace w2 [] h2
      simpa using this
    simp [this]
  | cons c cs =>
    simp only [trimmed, List.head?_cons, Bool.and_eq_true, Bool.not_eq_true'] at hf
    have hhead : ((c :: cs) ++ w2).dropWhile pyIsSpace = (c :: cs) ++ w2 :=
      dropWhile_head _ _ (by intro d hd; simp at hd; subst hd; exact hf.1)
    rw [hhead, List.reverse_append]
    rw [dropWhile_all _ _ _ (by intro d hd; exact h2 d (by simpa using hd))]
    rw [dropWhile_head, List.reverse_reverse]
    intro d hd
    rw [List.head?_reverse] at hd
    have := hf.2
    rw [hd] at this
    simpa using this




def isNumChar (c : Char) : Bool :=
  isDigitC c || c == '.' || c == 'e' || c == '+' || c == '-' || c == 'n' || c == 'a' || c == 'i' || c == 'f'

theorem digitChar_isDigit : ∀ d, d < 10 → isDigitC (digitChar d) = true := by decide

theorem digitChar_num (d : Nat) (h : d < 10) : isNumChar (digitChar d) = true := by
  simp [isNumChar, digitChar_isDigit d h]

theorem digitsRevF_lt (f n : Nat) (h : n < 10 ^ f) : ∀ d ∈ digitsRevF f n, d < 10 := by
  induction f generalizing n with
  | zero => intro d hd; simp [digitsRevF] at hd; simp at h; omega
  | succ f ih =>
    intro d hd
    simp only [digitsRevF] at hd
    split at hd
    · simp at hd; omega
    · simp only [List.mem_cons] at hd
      rcases hd with rfl | hd
      · exact Nat.mod_lt _ (by decide)
      · exact ih (n / 10) (by rw [Nat.div_lt_iff_lt_mul (by decide)]; rw [Nat.pow_succ] at h; exact h) d hd

theorem digitsRevF_ne (f n : Nat) : digitsRevF f n ≠ [] := by
  cases f <;> simp [digitsRevF]; split <;> simp

theorem natChars_num (n : Nat) : ∀ c ∈ natChars n, isNumChar c = true := by
  intro c hc
  simp only [natChars, digitsRev, List.mem_map, List.mem_reverse] at hc
  obtain ⟨d, hd, rfl⟩ := hc
  exact digitChar_num d (digitsRevF_lt n n (Nat.lt_pow_self (by decide)) d hd)

theorem natChars_ne (n : Nat) : natChars n ≠ [] := by
  simp [natChars, digitsRev, digitsRevF_ne]

theorem padRev_lt (k n : Nat) : ∀ d ∈ padRev k n, d < 10 := by
  induction k generalizing n with
  | zero => simp [padRev]
  | succ k ih =>
    intro d hd
    simp only [padRev, List.mem_cons] at hd
    rcases hd with rfl | hd
    · exact Nat.mod_lt _ (by decide)
    · exact ih _ d hd

theorem fracChars_num (k n : Nat) : ∀ c ∈ fracChars k n, isNumChar c = true := by
  intro c hc
  simp only [fracChars] at hc
  split at hc
  · simp at hc
  · simp only [List.mem_cons, List.mem_map, List.mem_reverse] at hc
    rcases hc with rfl | ⟨d, hd, rfl⟩
    · decide
    · exact digitChar_num d (padRev_lt k n d ((List.dropWhile_sublist _).subset hd))

theorem expChars_num (X : Int) : ∀ c ∈ expChars X, isNumChar c = true := by
  intro c hc
  simp only [expChars, List.mem_cons] at hc
  rcases hc with rfl | hc | hc
  · decide
  · split at hc <;> (subst hc; decide)
  · split at hc
    · simp only [List.mem_cons] at hc
      rcases hc with rfl | hc
      · decide
      · exact natChars_num _ c hc
    · exact natChars_num _ c hc

theorem fmtGChars_num (p : Nat) (x : XR) : ∀ c ∈ fmtGChars p x, isNumChar c = true := by
  intro c hc
  cases x with
  | nan => simp [fmtGChars] at hc; rcases hc with rfl | rfl | rfl <;> decide
  | pinf => simp [fmtGChars] at hc; rcases hc with rfl | rfl | rfl <;> decide
  | ninf => simp [fmtGChars] at hc; rcases hc with rfl | rfl | rfl | rfl <;> decide
  | fin q =>
    simp only [fmtGChars] at hc
    split at hc
    · simp at hc; subst hc; decide
    · simp only [fmtRatChars, List.mem_append] at hc
      rcases hc with hc | hc
      · split at hc
        · simp at hc; subst hc; decide
        · simp at hc
      · split at hc
        · simp only [fixedChars, List.mem_append] at hc
          rcases hc with hc | hc
          · exact natChars_num _ c hc
          · exact fracChars_num _ _ c hc
        · simp only [sciChars, List.mem_append] at hc
          rcases hc with (hc | hc) | hc
          · exact natChars_num _ c hc
          · exact fracChars_num _ _ c hc
          · exact expChars_num _ c hc

theorem fmtGChars_ne (p : Nat) (x : XR) : fmtGChars p x ≠ [] := by
  cases x with
  | nan => simp [fmtGChars]
  | pinf => simp [fmtGChars]
  | ninf => simp [fmtGChars]
  | fin q =>
    simp only [fmtGChars]
    split
    · simp
    · have hb : ∀ (a b : Str), b ≠ [] → a ++ b ≠ [] := by intro a b hb; simp [hb]
      simp only [fmtRatChars]
      apply hb
      split
      · simp [fixedChars, natChars_ne]
      · simp [sciChars, natChars_ne]


/-- a character of a formatted number is neither a separator, a newline nor whitespace -/
def plainChar (c : Char) : Bool := c != ',' && c != '|' && c != '\n' && !pyIsSpace c


theorem numChar_plain (c : Char) (h : isNumChar c = true) : plainChar c = true := by
  simp only [isNumChar, Bool.or_eq_true, beq_iff_eq] at h
  rcases h with (((((((h | h) | h) | h) | h) | h) | h) | h) | h
  · simp only [isDigitC, Bool.and_eq_true, decide_eq_true_eq] at h
    have h1 : 48 ≤ c.toNat := by
      have := h.1; rw [Char.le_def] at this
      simpa using UInt32.le_iff_toNat_le.mp this
    have h2 : c.toNat ≤ 57 := by
      have := h.2; rw [Char.le_def] at this
      simpa using UInt32.le_iff_toNat_le.mp this
    have e1 : c ≠ ',' := by rintro rfl; simp at h1
    have e2 : c ≠ '|' := by rintro rfl; simp at h2
    have e3 : c ≠ '\n' := by rintro rfl; simp at h1
    simp only [plainChar, pyIsSpace, bne_iff_ne, ne_eq, e1, e2, e3, not_false_eq_true, Bool.and_eq_true,
      Bool.not_eq_true']
    simp; omega
  all_goals (subst h; decide)


theorem join_cons_cons (sep f g : Str) (r : List Str) :
    join sep (f :: g :: r) = f ++ sep ++ join sep (g :: r) := rfl

/-- `sep.join(a) + sep + sep.join(b)` is `sep.join(a + b)` -/
theorem join_append (sep : Str) (a b : List Str) (ha : a ≠ []) (hb : b ≠ []) :
    join sep (a ++ b) = join sep a ++ sep ++ join sep b := by
  induction a with
  | nil => exact absurd rfl ha
  | cons f rest ih =>
    cases rest with
    | nil =>
      cases b with
      | nil => exact absurd rfl hb
      | cons g b => simp [join]
    | cons g rest =>
      have := ih (by simp)
      simp only [List.cons_append] at this ⊢
      rw [join_cons_cons, this, join_cons_cons]
      simp [List.append_assoc]

/-- `sep.join(a)` followed by `sep + x` for every x of b -/
theorem join_append_map (sep : Str) (a b : List Str) (ha : a ≠ []) :
    join sep (a ++ b) = join sep a ++ (b.map fun x => sep ++ x).flatten := by
  cases b with
  | nil => simp
  | cons g b =>
    rw [join_append sep a (g :: b) ha (by simp)]
    suffices h : ∀ (g : Str) (b : List Str), sep ++ join sep (g :: b) = ((g :: b).map fun x => sep ++ x).flatten by
      rw [List.append_assoc, h]
    intro g b
    induction b generalizing g with
    | nil => simp [join]
    | cons g' b ih =>
      rw [join_cons_cons, List.map_cons, List.flatten_cons, ← ih g']
      simp [List.append_assoc]

/-- every line followed by a newline = lines joined by newlines, plus a final newline -/
theorem flatten_lines (nl : Str) (ls : List Str) (h : ls ≠ []) :
    (ls.map fun l => l ++ nl).flatten = join nl ls ++ nl := by
  induction ls with
  | nil => exact absurd rfl h
  | cons l rest ih =>
    cases rest with
    | nil => simp [join]
    | cons l' rest =>
      have := ih (by simp)
      rw [List.map_cons, List.flatten_cons, this, join_cons_cons]
      simp [List.append_assoc]

theorem mem_join (sep : Str) (fs : List Str) (c : Char) (h : c ∈ join sep fs) :
    c ∈ sep ∨ ∃ f ∈ fs, c ∈ f := by
  induction fs with
  | nil => simp [join] at h
  | cons f rest ih =>
    cases rest with
    | nil => simp only [join] at h; exact Or.inr ⟨f, by simp, h⟩
    | cons g rest =>
      rw [join_cons_cons] at h
      simp only [List.mem_append] at h
      rcases h with (h | h) | h
      · exact Or.inr ⟨f, by simp, h⟩
      · exact Or.inl h
      · rcases ih h with h | ⟨x, hx, hc⟩
        · exact Or.inl h
        · exact Or.inr ⟨x, by simp at hx ⊢; exact Or.inr hx, hc⟩

/-- non-empty with no leading/trailing whitespace -/
def edgeOk (f : Str) : Bool := !f.isEmpty && trimmed f

theorem edgeOk_iff (f : Str) : edgeOk f = true ↔
    ∃ a b, f.head? = some a ∧ f.getLast? = some b ∧ pyIsSpace a = false ∧ pyIsSpace b = false := by
  cases f with
  | nil => simp [edgeOk]
  | cons c cs =>
    simp only [edgeOk, trimmed, List.isEmpty_cons, Bool.not_false, Bool.true_and, List.head?_cons]
    cases h : (c :: cs).getLast? with
    | none => simp at h
    | some b => simp

theorem head?_join (sep f : Str) (rest : List Str) (hf : f ≠ []) :
    (join sep (f :: rest)).head? = f.head? := by
  cases rest with
  | nil => rfl
  | cons g rest =>
    rw [join_cons_cons]
    cases f with
    | nil => exact absurd rfl hf
    | cons c cs => simp

theorem getLast?_join (sep : Str) (fs : List Str) (l : Str) (hl : l ≠ []) :
    (join sep (fs ++ [l])).getLast? = l.getLast? := by
  induction fs with
  | nil => simp [join]
  | cons f rest ih =>
    have : f :: rest ++ [l] = f :: (rest ++ [l]) := rfl
    rw [this]
    cases hr : rest ++ [l] with
    | nil => simp at hr
    | cons g r =>
      rw [join_cons_cons, ← hr, List.getLast?_append, ih]
      cases h : l.getLast? with
      | none => simp [List.getLast?_eq_none_iff] at h; exact absurd h hl
      | some b => simp

theorem edgeOk_join (sep : Str) (fs : List Str) (hne : fs ≠ []) (h : ∀ f ∈ fs, edgeOk f = true) :
    edgeOk (join sep fs) = true := by
  obtain ⟨f, rest, rfl⟩ := List.exists_cons_of_ne_nil hne
  obtain ⟨init, l, hl⟩ : ∃ init l, f :: rest = init ++ [l] :=
    ⟨(f :: rest).dropLast, (f :: rest).getLast (by simp), (List.dropLast_concat_getLast (by simp)).symm⟩
  have hf := (edgeOk_iff f).1 (h f (by simp))
  have hlm : l ∈ f :: rest := by rw [hl]; simp
  have hl' := (edgeOk_iff l).1 (h l hlm)
  obtain ⟨a, _, ha, _, hsa, _⟩ := hf
  obtain ⟨_, b, _, hb, _, hsb⟩ := hl'
  rw [edgeOk_iff]
  refine ⟨a, b, ?_, ?_, hsa, hsb⟩
  · rw [head?_join sep f rest (by intro h; simp [h] at ha)]; exact ha
  · rw [hl, getLast?_join sep init l (by intro h; simp [h] at hb)]; exact hb




theorem edgeOk_of_all (f : Str) (hne : f ≠ []) (h : ∀ c ∈ f, pyIsSpace c = false) : edgeOk f = true := by
  rw [edgeOk_iff]
  cases f with
  | nil => exact absurd rfl hne
  | cons c cs =>
    refine ⟨c, (c :: cs).getLast (by simp), by simp, List.getLast?_eq_some_getLast (by simp), h c (by simp), h _ (List.getLast_mem _)⟩

theorem fmtGChars_plain (p : Nat) (x : XR) : ∀ c ∈ fmtGChars p x, plainChar c = true :=
  fun c hc => numChar_plain c (fmtGChars_num p x c hc)

theorem plain_iff (c : Char) : plainChar c = true ↔ c ≠ ',' ∧ c ≠ '|' ∧ c ≠ '\n' ∧ pyIsSpace c = false := by
  simp [plainChar, and_assoc]

theorem fmtGChars_edgeOk (p : Nat) (x : XR) : edgeOk (fmtGChars p x) = true :=
  edgeOk_of_all _ (fmtGChars_ne p x) (fun c hc => ((plain_iff c).1 (fmtGChars_plain p x c hc)).2.2.2)

/-! ### csv -/

/-- a csv field the round trip can recover: no comma, no newline, non-empty, no blank at either end -/
def csvFieldOk (s : Str) : Bool := s.all (fun c => c != ',' && c != '\n') && edgeOk s

/-- domain of the csv round trip (decidable): header and legend non-empty, every header / legend /
descriptor string a recoverable field, every row with one descriptor per header name and one score
per legend entry -/
def CsvOk (t : Table Str) : Bool :=
  !t.names.isEmpty && !t.legend.isEmpty && t.names.all csvFieldOk && t.legend.all csvFieldOk &&
  t.rows.all fun r => r.1.length == t.names.length && r.2.length == t.legend.length && r.1.all csvFieldOk

/-- the fields of one data line: the descriptors, then one `%g` score per input -/
def csvFields (r : List Str × List XR) : List Str := r.1 ++ r.2.map (fmtGChars 6)

/-- plain reading of a csv text: lines, then comma-separated fields -/
def parseCsv (s : Str) : List (List Str) := (splitC '\n' s).map (splitC ',')

theorem csvFieldOk_fmtG (x : XR) : csvFieldOk (fmtGChars 6 x) = true := by
  simp only [csvFieldOk, Bool.and_eq_true, List.all_eq_true, fmtGChars_edgeOk, and_true]
  intro c hc
  have := (plain_iff c).1 (fmtGChars_plain 6 x c hc)
  simp [this.1, this.2.2.1]

theorem csvFieldOk_iff (s : Str) : csvFieldOk s = true ↔ (',' ∉ s ∧ '\n' ∉ s) ∧ edgeOk s = true := by
  simp only [csvFieldOk, Bool.and_eq_true, List.all_eq_true, bne_iff_ne, ne_eq]
  constructor
  · rintro ⟨h, he⟩
    exact ⟨⟨fun hc => (h _ hc).1 rfl, fun hc => (h _ hc).2 rfl⟩, he⟩
  · rintro ⟨⟨h1, h2⟩, he⟩
    exact ⟨fun c hc => ⟨fun e => h1 (e ▸ hc), fun e => h2 (e ▸ hc)⟩, he⟩

/-- what the round trip needs of a list of fields making up a line -/
theorem line_facts (F : List Str) (hne : F ≠ []) (h : ∀ f ∈ F, csvFieldOk f = true) :
    splitC ',' (join [','] F) = F ∧ '\n' ∉ join [','] F ∧ edgeOk (join [','] F) = true := by
  refine ⟨splitC_join ',' F hne (fun f hf => ((csvFieldOk_iff f).1 (h f hf)).1.1), ?_,
    edgeOk_join _ F hne (fun f hf => ((csvFieldOk_iff f).1 (h f hf)).2)⟩
  intro hc
  rcases mem_join _ _ _ hc with hc | ⟨f, hf, hc⟩
  · simp at hc
  · exact ((csvFieldOk_iff f).1 (h f hf)).1.2 hc

/-! ### text -/

/-- a text cell the round trip can recover: no bar, no newline, no blank at either end (may be empty) -/
def textFieldOk (s : Str) : Bool := s.all (fun c => c != '|' && c != '\n') && trimmed s

def descOk : Desc → Bool
  | .str s => textFieldOk s
  | _ => true

def TextOk (t : Table Desc) : Bool :=
  (match t.names with | [] => false | n :: _ => edgeOk n) &&
  t.names.all textFieldOk && t.legend.all textFieldOk &&
  t.rows.all fun r => r.1.length == t.names.length && r.2.length == t.legend.length && r.1.all descOk

def textFields (r : List Desc × List XR) : List Str := r.1.map descStr ++ r.2.map (fmtGChars 4)

/-- one line of the text layout: split on the bar, drop what follows the last bar, trim the cells -/
def parseLine (l : Str) : List Str := ((splitC '|' l).dropLast).map strip

def parseText (s : Str) : List (List Str) := (splitC '\n' s).map parseLine

/-- the cells of a line, as (width, content) -/
def cellsLine (cs : List (Nat × Str)) : Str := (cs.map fun c => cell c.1 c.2).flatten

/-- the same without the blank after the last bar -/
def barLine : List (Nat × Str) → Str
  | [] => []
  | [c] => padRight c.1 c.2 ++ ['|']
  | c :: d :: r => padRight c.1 c.2 ++ ['|', ' '] ++ barLine (d :: r)

theorem cellsLine_eq (cs : List (Nat × Str)) (h : cs ≠ []) : cellsLine cs = barLine cs ++ [' '] := by
  induction cs with
  | nil => exact absurd rfl h
  | cons c rest ih =>
    cases rest with
    | nil => simp [cellsLine, barLine, cell]
    | cons d r =>
      have := ih (by simp)
      simp only [cellsLine, List.map_cons, List.flatten_cons] at this ⊢
      rw [this]
      simp [barLine, cell, List.append_assoc]

theorem textFieldOk_iff (s : Str) : textFieldOk s = true ↔ ('|' ∉ s ∧ '\n' ∉ s) ∧ trimmed s = true := by
  simp only [textFieldOk, Bool.and_eq_true, List.all_eq_true, bne_iff_ne, ne_eq]
  constructor
  · rintro ⟨h, he⟩
    exact ⟨⟨fun hc => (h _ hc).1 rfl, fun hc => (h _ hc).2 rfl⟩, he⟩
  · rintro ⟨⟨h1, h2⟩, he⟩
    exact ⟨fun c hc => ⟨fun e => h1 (e ▸ hc), fun e => h2 (e ▸ hc)⟩, he⟩

theorem mem_padRight (w : Nat) (s : Str) (c : Char) (h : c ∈ padRight w s) : c ∈ s ∨ c = ' ' := by
  simp only [padRight, List.mem_append, List.mem_replicate] at h
  rcases h with h | h
  · exact Or.inl h
  · exact Or.inr h.2

theorem strip_cell (pre : Str) (w : Nat) (f : Str) (hpre : ∀ c ∈ pre, pyIsSpace c = true)
    (hf : trimmed f = true) : strip (pre ++ padRight w f) = f := by
  have := strip_pad pre f (List.replicate (w - f.length) ' ') hpre
    (by intro c hc; rw [List.mem_replicate] at hc; rw [hc.2]; decide) hf
  simpa [padRight, List.append_assoc] using this

theorem parse_barLine (cs : List (Nat × Str)) (hne : cs ≠ []) (h : ∀ c ∈ cs, textFieldOk c.2 = true)
    (pre tail : Str) (hpre : ∀ c ∈ pre, pyIsSpace c = true) (hpre' : '|' ∉ pre) (htail : '|' ∉ tail) :
    ((splitC '|' (pre ++ barLine cs ++ tail)).dropLast).map strip = cs.map (·.2) := by
  induction cs generalizing pre with
  | nil => exact absurd rfl hne
  | cons c rest ih =>
    have hc := (textFieldOk_iff c.2).1 (h c (by simp))
    have hbar : '|' ∉ pre ++ padRight c.1 c.2 := by
      intro hm
      rcases List.mem_append.1 hm with hm | hm
      · exact hpre' hm
      · rcases mem_padRight _ _ _ hm with hm | hm
        · exact hc.1.1 hm
        · exact absurd hm (by decide)
    cases rest with
    | nil =>
      have e : pre ++ barLine [c] ++ tail = (pre ++ padRight c.1 c.2) ++ '|' :: tail := by
        simp [barLine, List.append_assoc]
      rw [e, splitC_append '|' _ _ hbar, splitC_single '|' tail htail]
      simp [strip_cell pre _ _ hpre hc.2]
    | cons d r =>
      have e : pre ++ barLine (c :: d :: r) ++ tail =
          (pre ++ padRight c.1 c.2) ++ '|' :: ([' '] ++ barLine (d :: r) ++ tail) := by
        simp [barLine, List.append_assoc]
      rw [e, splitC_append '|' _ _ hbar]
      have hne' := splitC_ne_nil '|' ([' '] ++ barLine (d :: r) ++ tail)
      have ih' := ih (by simp) (fun x hx => h x (by simp at hx ⊢; exact Or.inr hx)) [' ']
        (by intro x hx; simp at hx; subst hx; decide) (by decide)
      cases hs : splitC '|' ([' '] ++ barLine (d :: r) ++ tail) with
      | nil => exact absurd hs hne'
      | cons x xs =>
        rw [hs] at ih'
        rw [List.dropLast_cons_cons, List.map_cons, ih', strip_cell pre _ _ hpre hc.2]
        rfl




theorem zipWith_eq_map_zip {α β γ} (f : α → β → γ) (a : List α) (b : List β) :
    List.zipWith f a b = (List.zip a b).map (fun p => f p.1 p.2) := by
  induction a generalizing b with
  | nil => simp
  | cons x a ih => cases b with
    | nil => simp
    | cons y b => simp [ih]

theorem map_snd_zip' {α β} (a : List α) (b : List β) (h : a.length = b.length) :
    (List.zip a b).map (·.2) = b := by
  induction a generalizing b with
  | nil => cases b with
    | nil => rfl
    | cons y b => simp at h
  | cons x a ih => cases b with
    | nil => simp at h
    | cons y b => simp at h; simp [ih b h]

theorem mem_barLine (cs : List (Nat × Str)) (c : Char) (h : c ∈ barLine cs) :
    c = '|' ∨ c = ' ' ∨ ∃ x ∈ cs, c ∈ x.2 := by
  induction cs with
  | nil => simp [barLine] at h
  | cons x rest ih =>
    cases rest with
    | nil =>
      simp only [barLine, List.mem_append, List.mem_singleton] at h
      rcases h with h | h
      · rcases mem_padRight _ _ _ h with h | h
        · exact Or.inr (Or.inr ⟨x, by simp, h⟩)
        · exact Or.inr (Or.inl h)
      · exact Or.inl h
    | cons d r =>
      simp only [barLine, List.mem_append, List.mem_cons, List.not_mem_nil, or_false] at h
      rcases h with (h | h | h) | h
      · rcases mem_padRight _ _ _ h with h | h
        · exact Or.inr (Or.inr ⟨x, by simp, h⟩)
        · exact Or.inr (Or.inl h)
      · exact Or.inl h
      · exact Or.inr (Or.inl h)
      · rcases ih h with h | h | ⟨y, hy, hc⟩
        · exact Or.inl h
        · exact Or.inr (Or.inl h)
        · exact Or.inr (Or.inr ⟨y, by simp at hy ⊢; exact Or.inr hy, hc⟩)

theorem barLine_head? (c : Nat × Str) (rest : List (Nat × Str)) (h : c.2 ≠ []) :
    (barLine (c :: rest)).head? = c.2.head? := by
  obtain ⟨a, as, ha⟩ := List.exists_cons_of_ne_nil h
  cases rest <;> simp [barLine, padRight, ha]

theorem barLine_getLast? (cs : List (Nat × Str)) (h : cs ≠ []) : (barLine cs).getLast? = some '|' := by
  induction cs with
  | nil => exact absurd rfl h
  | cons c rest ih =>
    cases rest with
    | nil => simp [barLine]
    | cons d r =>
      have := ih (by simp)
      have hne : barLine (d :: r) ≠ [] := by intro e; rw [e] at this; simp at this
      simp only [barLine]
      rw [List.getLast?_append, this]; rfl

/-- split ∘ join when the joiner is `a ++ [sep]`: every line but the last keeps the trailing `a` -/
theorem map_splitC_join2 {β} (sep : Char) (a : Str) (g : Str → β) (fs : List Str) (hne : fs ≠ [])
    (h : ∀ f ∈ fs, sep ∉ f) (ha : sep ∉ a) (hg : ∀ f ∈ fs, g (f ++ a) = g f) :
    (splitC sep (join (a ++ [sep]) fs)).map g = fs.map g := by
  induction fs with
  | nil => exact absurd rfl hne
  | cons f rest ih =>
    cases rest with
    | nil => simp [join, splitC_single sep f (h f (by simp))]
    | cons f' r =>
      have e : join (a ++ [sep]) (f :: f' :: r) = (f ++ a) ++ sep :: join (a ++ [sep]) (f' :: r) := by
        rw [join_cons_cons]; simp [List.append_assoc]
      have hfa : sep ∉ f ++ a := by
        intro hm; rcases List.mem_append.1 hm with hm | hm
        · exact h f (by simp) hm
        · exact ha hm
      rw [e, splitC_append sep _ _ hfa, List.map_cons, hg f (by simp),
        ih (by simp) (fun x hx => h x (by simp at hx ⊢; exact Or.inr hx))
          (fun x hx => hg x (by simp at hx ⊢; exact Or.inr hx))]
      rfl

def hdrCells (t : Table Desc) : List (Nat × Str) :=
  t.names.map (fun w => (descWidth w, w)) ++ t.legend.map (fun l => (labelWidth l, l))

def rowCells (t : Table Desc) (r : List Desc × List XR) : List (Nat × Str) :=
  List.zip (t.names.map descWidth) (r.1.map descStr) ++ List.zip (t.legend.map labelWidth) (r.2.map (fmtGChars 4))

theorem textFieldOk_fmtG (p : Nat) (x : XR) : textFieldOk (fmtGChars p x) = true := by
  rw [textFieldOk_iff]
  refine ⟨⟨?_, ?_⟩, ?_⟩
  · intro hc; have := (plain_iff _).1 (fmtGChars_plain p x _ hc); exact this.2.1 rfl
  · intro hc; have := (plain_iff _).1 (fmtGChars_plain p x _ hc); exact this.2.2.1 rfl
  · have := fmtGChars_edgeOk p x
    simp only [edgeOk, Bool.and_eq_true] at this; exact this.2

theorem textFieldOk_descStr (d : Desc) (h : descOk d = true) : textFieldOk (descStr d) = true := by
  cases d with
  | str s => exact h
  | num x => exact textFieldOk_fmtG 6 x
  | all => decide


end VerifModel.C12
