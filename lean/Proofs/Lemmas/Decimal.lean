import VerifModel.Base.Decimal
import Mathlib.Tactic.Ring
import Mathlib.Tactic.FieldSimp
import Mathlib.Tactic.Linarith
import Mathlib.Tactic.Positivity
import Mathlib.Tactic.NormNum
import Mathlib.Data.Rat.Cast.Order
import Mathlib.Algebra.Order.Field.Power
/-
  Decimal — correctness of the `%.{p}g` model of `VerifModel/Base/Decimal.lean`:
  the digit generator (`toDec`) is a correctly rounded P-significant-digit decimal of the
  exact rational, and the rendered character list reads back (with `valueOf?`) as that
  decimal.
-/
namespace VerifModel.Decimal
open VerifModel

theorem ilog10F_spec (f : Nat) : ∀ n : Nat, 0 < n → n < 10 ^ (f + 1) →
    10 ^ ilog10F f n ≤ n ∧ n < 10 ^ (ilog10F f n + 1) := by
  induction f with
  | zero => intro n h0 h1; simp [ilog10F] at *; omega
  | succ f ih =>
    intro n h0 h1
    unfold ilog10F
    split
    · simp; omega
    · have h2 : 0 < n / 10 := by omega
      have h3 : n / 10 < 10 ^ (f + 1) := by
        rw [Nat.div_lt_iff_lt_mul (by norm_num)]; rw [pow_succ] at h1; exact h1
      obtain ⟨a, b⟩ := ih (n / 10) h2 h3
      generalize ilog10F f (n / 10) = k at *
      constructor
      · rw [pow_succ]; omega
      · rw [pow_succ]; omega

theorem ilog10_spec (n : Nat) (h : 0 < n) : 10 ^ ilog10 n ≤ n ∧ n < 10 ^ (ilog10 n + 1) := by
  apply ilog10F_spec n n h
  calc n < 10 ^ n := Nat.lt_pow_self (by norm_num)
    _ ≤ 10 ^ (n + 1) := Nat.pow_le_pow_right (by norm_num) (by omega)

theorem pow10_eq_zpow (e : Int) : pow10 e = (10 : Rat) ^ e := by
  unfold pow10
  split
  · next h =>
    obtain ⟨k, rfl⟩ := Int.eq_ofNat_of_zero_le h
    simp
  · next h =>
    obtain ⟨k, rfl⟩ : ∃ k : Nat, e = -(k : Int) := ⟨(-e).toNat, by omega⟩
    simp [Rat.mkRat_eq_div]

theorem pow10_pos (e : Int) : 0 < pow10 e := by
  rw [pow10_eq_zpow]; positivity

theorem pow10_add (a b : Int) : pow10 (a + b) = pow10 a * pow10 b := by
  simp only [pow10_eq_zpow]; rw [zpow_add₀ (by norm_num)]

theorem pow10_natCast (k : Nat) : pow10 (k : Int) = (10 : Rat) ^ k := by
  rw [pow10_eq_zpow]; simp

theorem pow10_neg (a : Int) : pow10 (-a) = (pow10 a)⁻¹ := by
  simp only [pow10_eq_zpow, zpow_neg]

theorem floorLog10_spec (n m : Nat) (hn : 0 < n) (hm : 0 < m) :
    pow10 (floorLog10 n m) ≤ (n : Rat) / m ∧ (n : Rat) / m < pow10 (floorLog10 n m + 1) := by
  have hmq : (0 : Rat) < m := by exact_mod_cast hm
  have hnq : (0 : Rat) < n := by exact_mod_cast hn
  unfold floorLog10
  split
  · next h =>
    have h1 : 0 < n / m := Nat.div_pos h hm
    obtain ⟨a, b⟩ := ilog10_spec (n / m) h1
    generalize ilog10 (n / m) = k at *
    rw [Nat.le_div_iff_mul_le hm] at a
    rw [Nat.div_lt_iff_lt_mul hm] at b
    have e1 : ((k : Int) + 1) = ((k + 1 : Nat) : Int) := by simp
    rw [e1, pow10_natCast, pow10_natCast, le_div_iff₀ hmq, div_lt_iff₀ hmq]
    constructor
    · exact_mod_cast a
    · exact_mod_cast b
  · next h =>
    have h1 : 0 < (m - 1) / n := Nat.div_pos (by omega) hn
    obtain ⟨a, b⟩ := ilog10_spec ((m - 1) / n) h1
    generalize ilog10 ((m - 1) / n) = k at *
    rw [Nat.le_div_iff_mul_le hn] at a
    rw [Nat.div_lt_iff_lt_mul hn] at b
    have a' : 10 ^ k * n < m := by omega
    have b' : m ≤ 10 ^ (k + 1) * n := by omega
    have e1 : (-((k : Int) + 1)) = -((k + 1 : Nat) : Int) := by simp
    have e2 : (-((k : Int) + 1) + 1) = -((k : Nat) : Int) := by omega
    rw [e2, e1, pow10_neg, pow10_neg, pow10_natCast, pow10_natCast, le_div_iff₀ hmq, div_lt_iff₀ hmq]
    have p1 : (0 : Rat) < 10 ^ (k + 1) := by positivity
    have p2 : (0 : Rat) < 10 ^ k := by positivity
    constructor
    · rw [inv_mul_le_iff₀ p1]; exact_mod_cast b'
    · rw [lt_inv_mul_iff₀ p2]; exact_mod_cast a'

theorem roundHalfEven_spec (N D : Nat) (hD : 0 < D) :
    |((roundHalfEven N D : Nat) : Rat) - (N : Rat) / D| ≤ 1 / 2 := by
  have hDq : (0 : Rat) < D := by exact_mod_cast hD
  have hN : (N : Rat) = D * (N / D : Nat) + (N % D : Nat) := by exact_mod_cast (Nat.div_add_mod N D).symm
  have hr : N % D < D := Nat.mod_lt _ hD
  have hrq : ((N % D : Nat) : Rat) < D := by exact_mod_cast hr
  have hr0 : (0 : Rat) ≤ ((N % D : Nat) : Rat) := by positivity
  have key : (N : Rat) / D = (N / D : Nat) + ((N % D : Nat) : Rat) / D := by
    rw [hN]; field_simp
  unfold roundHalfEven
  generalize N / D = q at *
  generalize N % D = r at *
  have c1 : 2 * r ≤ D → |((q : Nat) : Rat) - (N : Rat) / D| ≤ 1 / 2 := by
    intro h
    have hq : (2 : Rat) * r ≤ D := by exact_mod_cast h
    have ht : (r : Rat) / D ≤ 1 / 2 := by rw [div_le_iff₀ hDq]; linarith
    have ht0 : 0 ≤ (r : Rat) / D := by positivity
    rw [key, abs_le]; constructor <;> linarith
  have c2 : D ≤ 2 * r → |((q + 1 : Nat) : Rat) - (N : Rat) / D| ≤ 1 / 2 := by
    intro h
    have hq : (D : Rat) ≤ 2 * r := by exact_mod_cast h
    have ht : 1 / 2 ≤ (r : Rat) / D := by rw [le_div_iff₀ hDq]; linarith
    have ht1 : (r : Rat) / D < 1 := by rw [div_lt_iff₀ hDq]; linarith
    rw [key, abs_le]; push_cast; constructor <;> linarith
  simp only
  split
  · exact c1 (by omega)
  · split
    · exact c2 (by omega)
    · split
      · exact c1 (by omega)
      · exact c2 (by omega)

theorem Dec.value_eq (P : Nat) (d : Dec) :
    d.value P = (d.digits : Rat) * pow10 (d.exp - ((P : Int) - 1)) := by
  unfold Dec.value pow10
  simp only
  split
  · push_cast; rfl
  · rw [Rat.mkRat_eq_div, Rat.mkRat_eq_div]; push_cast; ring

/-- rounding is monotone against natural bounds -/
theorem roundHalfEven_ge (N D a : Nat) (hD : 0 < D) (h : a * D ≤ N) : a ≤ roundHalfEven N D := by
  have h1 : a ≤ N / D := (Nat.le_div_iff_mul_le hD).2 h
  unfold roundHalfEven
  simp only
  split
  · exact h1
  · split
    · omega
    · split <;> omega

theorem roundHalfEven_le (N D b : Nat) (hD : 0 < D) (h : N < b * D) : roundHalfEven N D ≤ b := by
  have h1 : N / D < b := (Nat.div_lt_iff_lt_mul hD).2 h
  unfold roundHalfEven
  simp only
  split
  · omega
  · split
    · omega
    · split <;> omega

theorem scaleND_pos (n m : Nat) (s : Int) (hm : 0 < m) : 0 < (scaleND n m s).2 := by
  unfold scaleND
  split
  · exact Nat.mul_pos hm (Nat.pow_pos (by norm_num))
  · exact hm

theorem scaleND_val (n m : Nat) (s : Int) :
    ((scaleND n m s).1 : Rat) / (scaleND n m s).2 = (n : Rat) / m * pow10 (-s) := by
  unfold scaleND
  split
  · next h =>
    obtain ⟨k, rfl⟩ := Int.eq_ofNat_of_zero_le h
    rw [pow10_neg, pow10_natCast]; simp only [Int.toNat_natCast]; push_cast
    rw [div_mul_eq_div_div, div_eq_mul_inv ((n : Rat) / m)]
  · next h =>
    obtain ⟨k, rfl⟩ : ∃ k : Nat, s = -(k : Int) := ⟨(-s).toNat, by omega⟩
    rw [neg_neg, pow10_natCast]; simp only [Int.toNat_natCast]; push_cast
    ring

/-- the un-normalised rounding step of `toDec` -/
theorem toDec_core (P n m : Nat) (hP : 1 ≤ P) (hn : 0 < n) (hm : 0 < m) :
    ∃ d : Nat, 10 ^ (P - 1) ≤ d ∧ d ≤ 10 ^ P ∧
      |(d : Rat) - (n : Rat) / m * pow10 (-(floorLog10 n m - ((P : Int) - 1)))| ≤ 1 / 2 ∧
      toDec P n m = if d = 10 ^ P then ⟨10 ^ (P - 1), floorLog10 n m + 1⟩ else ⟨d, floorLog10 n m⟩ := by
  obtain ⟨lo, hi⟩ := floorLog10_spec n m hn hm
  generalize he : floorLog10 n m = e at *
  have hD := scaleND_pos n m (e - ((P : Int) - 1)) hm
  have hv := scaleND_val n m (e - ((P : Int) - 1))
  have ht : toDec P n m =
      if roundHalfEven (scaleND n m (e - ((P : Int) - 1))).1 (scaleND n m (e - ((P : Int) - 1))).2 = 10 ^ P
      then ⟨10 ^ (P - 1), e + 1⟩
      else ⟨roundHalfEven (scaleND n m (e - ((P : Int) - 1))).1 (scaleND n m (e - ((P : Int) - 1))).2, e⟩ := by
    unfold toDec; simp only [he]
  generalize (scaleND n m (e - ((P : Int) - 1))).1 = N at *
  generalize (scaleND n m (e - ((P : Int) - 1))).2 = D at *
  have hDq : (0 : Rat) < D := by exact_mod_cast hD
  have hpp : 0 < pow10 (-(e - ((P : Int) - 1))) := pow10_pos _
  have e1 : pow10 e * pow10 (-(e - ((P : Int) - 1))) = (10 : Rat) ^ (P - 1) := by
    rw [← pow10_add, ← pow10_natCast]; congr 1; omega
  have e2 : pow10 (e + 1) * pow10 (-(e - ((P : Int) - 1))) = (10 : Rat) ^ P := by
    rw [← pow10_add, ← pow10_natCast]; congr 1; omega
  have lo' : (10 : Rat) ^ (P - 1) ≤ (N : Rat) / D := by
    rw [hv, ← e1]; exact mul_le_mul_of_nonneg_right lo hpp.le
  have hi' : (N : Rat) / D < (10 : Rat) ^ P := by
    rw [hv, ← e2]; exact mul_lt_mul_of_pos_right hi hpp
  rw [le_div_iff₀ hDq] at lo'
  rw [div_lt_iff₀ hDq] at hi'
  refine ⟨roundHalfEven N D, ?_, ?_, ?_, ?_⟩
  · apply roundHalfEven_ge _ _ _ hD
    exact_mod_cast lo'
  · apply roundHalfEven_le _ _ _ hD
    exact_mod_cast hi'
  · rw [← hv]; exact roundHalfEven_spec _ _ hD
  · exact ht

theorem toDec_digits (P n m : Nat) (hP : 1 ≤ P) (hn : 0 < n) (hm : 0 < m) :
    10 ^ (P - 1) ≤ (toDec P n m).digits ∧ (toDec P n m).digits < 10 ^ P := by
  obtain ⟨d, h1, h2, _, h4⟩ := toDec_core P n m hP hn hm
  have hlt : 10 ^ (P - 1) < 10 ^ P := Nat.pow_lt_pow_right (by norm_num) (by omega)
  rw [h4]
  split
  · exact ⟨le_refl _, hlt⟩
  · exact ⟨h1, by simp only; omega⟩

theorem toDec_sound (P n m : Nat) (hP : 1 ≤ P) (hn : 0 < n) (hm : 0 < m) :
    |(toDec P n m).value P - (n : Rat) / m|
      ≤ (1 / 2) * pow10 ((toDec P n m).exp - ((P : Int) - 1)) := by
  obtain ⟨d, h1, h2, h3, h4⟩ := toDec_core P n m hP hn hm
  generalize floorLog10 n m = e at *
  generalize (n : Rat) / m = x at *
  rw [Dec.value_eq, h4]
  have hs := pow10_pos (e - ((P : Int) - 1))
  have hinv : pow10 (-(e - ((P : Int) - 1))) * pow10 (e - ((P : Int) - 1)) = 1 := by
    rw [← pow10_add]; simp [pow10]
  -- |d·10^s - x| = 10^s · |d - x·10^(-s)|
  have key : |(d : Rat) * pow10 (e - ((P : Int) - 1)) - x| ≤ (1 / 2) * pow10 (e - ((P : Int) - 1)) := by
    have : (d : Rat) * pow10 (e - ((P : Int) - 1)) - x
        = ((d : Rat) - x * pow10 (-(e - ((P : Int) - 1)))) * pow10 (e - ((P : Int) - 1)) := by
      rw [sub_mul, mul_assoc, hinv, mul_one]
    rw [this, abs_mul, abs_of_pos hs]
    exact mul_le_mul_of_nonneg_right h3 hs.le
  split
  · next hd =>
    simp only
    have e3 : ((10 ^ (P - 1) : Nat) : Rat) * pow10 (e + 1 - ((P : Int) - 1))
        = (d : Rat) * pow10 (e - ((P : Int) - 1)) := by
      rw [hd]; push_cast
      rw [← pow10_natCast, ← pow10_natCast, ← pow10_add, ← pow10_add]; congr 1; omega
    rw [e3]
    refine le_trans key ?_
    have : pow10 (e + 1 - ((P : Int) - 1)) = 10 * pow10 (e - ((P : Int) - 1)) := by
      rw [show e + 1 - ((P : Int) - 1) = 1 + (e - ((P : Int) - 1)) by omega, pow10_add]
      simp [pow10]
    rw [this]; linarith
  · exact key

/-- a `Dec` with exactly P significant digits has decimal exponent `exp` -/
theorem Dec.value_bounds (P : Nat) (d : Dec) (hP : 1 ≤ P)
    (h1 : 10 ^ (P - 1) ≤ d.digits) (h2 : d.digits < 10 ^ P) :
    pow10 d.exp ≤ d.value P ∧ d.value P < pow10 (d.exp + 1) := by
  rw [Dec.value_eq]
  have hs := pow10_pos (d.exp - ((P : Int) - 1))
  have e1 : pow10 d.exp = (10 : Rat) ^ (P - 1) * pow10 (d.exp - ((P : Int) - 1)) := by
    rw [← pow10_natCast, ← pow10_add]; congr 1; omega
  have e2 : pow10 (d.exp + 1) = (10 : Rat) ^ P * pow10 (d.exp - ((P : Int) - 1)) := by
    rw [← pow10_natCast, ← pow10_add]; congr 1; omega
  rw [e1, e2]
  constructor
  · exact mul_le_mul_of_nonneg_right (by exact_mod_cast h1) hs.le
  · exact mul_lt_mul_of_pos_right (by exact_mod_cast h2) hs

/-- the exponent of `toDec` is the decimal exponent of the ROUNDED value (this is what the
fixed / scientific switch of `%g` tests) -/
theorem toDec_exp (P n m : Nat) (hP : 1 ≤ P) (hn : 0 < n) (hm : 0 < m) :
    pow10 (toDec P n m).exp ≤ (toDec P n m).value P ∧
      (toDec P n m).value P < pow10 ((toDec P n m).exp + 1) := by
  obtain ⟨h1, h2⟩ := toDec_digits P n m hP hn hm
  exact Dec.value_bounds P _ hP h1 h2

/-! ### the rendered characters -/

/-- value of a digit list, least significant digit first -/
def valRev : List Nat → Nat
  | [] => 0
  | d :: ds => d + 10 * valRev ds

theorem digitChar_spec : ∀ d : Nat, d < 10 →
    isDigitC (digitChar d) = true ∧ digitVal? (digitChar d) = some d := by decide

theorem isDigitC_digitChar (d : Nat) (h : d < 10) : isDigitC (digitChar d) = true :=
  (digitChar_spec d h).1
theorem digitVal_digitChar (d : Nat) (h : d < 10) : digitVal? (digitChar d) = some d :=
  (digitChar_spec d h).2

theorem digitsVal_snoc (cs : List Char) (c : Char) :
    digitsVal? (cs ++ [c]) = (digitsVal? cs).bind fun a => (digitVal? c).bind fun d => some (10 * a + d) := by
  unfold digitsVal?
  rw [List.foldl_append]
  rfl

theorem digitsVal_nil : digitsVal? [] = some 0 := rfl

theorem digitsVal_rev (l : List Nat) (h : ∀ d ∈ l, d < 10) :
    digitsVal? (l.reverse.map digitChar) = some (valRev l) := by
  induction l with
  | nil => rfl
  | cons d ds ih =>
    have h1 : d < 10 := h d (by simp)
    have h2 := ih (fun x hx => h x (by simp [hx]))
    rw [List.reverse_cons, List.map_append, List.map_singleton, digitsVal_snoc, h2,
      digitVal_digitChar d h1]
    simp [valRev]; omega

theorem valRev_digitsRevF (f : Nat) : ∀ n, valRev (digitsRevF f n) = n := by
  induction f with
  | zero => intro n; simp [digitsRevF, valRev]
  | succ f ih =>
    intro n; unfold digitsRevF; split
    · simp [valRev]
    · simp [valRev, ih]; omega

theorem digitsRevF_lt (f : Nat) : ∀ n, n < 10 ^ (f + 1) → ∀ d ∈ digitsRevF f n, d < 10 := by
  induction f with
  | zero => intro n h d hd; simp [digitsRevF] at hd; omega
  | succ f ih =>
    intro n h d hd; unfold digitsRevF at hd; split at hd
    · simp at hd; omega
    · simp at hd
      rcases hd with rfl | hd
      · omega
      · exact ih (n / 10) (by rw [Nat.div_lt_iff_lt_mul (by norm_num)]; rw [pow_succ] at h; exact h) d hd

theorem digitsRevF_ne_nil (f n : Nat) : digitsRevF f n ≠ [] := by
  cases f <;> unfold digitsRevF <;> (try split) <;> simp

theorem valRev_digitsRev (n : Nat) : valRev (digitsRev n) = n := valRev_digitsRevF n n
theorem digitsRev_lt (n : Nat) : ∀ d ∈ digitsRev n, d < 10 :=
  digitsRevF_lt n n (calc n < 10 ^ n := Nat.lt_pow_self (by norm_num)
    _ ≤ 10 ^ (n + 1) := Nat.pow_le_pow_right (by norm_num) (by omega))

theorem padRev_length (k : Nat) : ∀ n, (padRev k n).length = k := by
  induction k with
  | zero => intro n; rfl
  | succ k ih => intro n; simp [padRev, ih]

theorem padRev_lt (k : Nat) : ∀ n, ∀ d ∈ padRev k n, d < 10 := by
  induction k with
  | zero => intro n d hd; simp [padRev] at hd
  | succ k ih =>
    intro n d hd; simp [padRev] at hd
    rcases hd with rfl | hd
    · omega
    · exact ih _ d hd

theorem valRev_padRev (k : Nat) : ∀ n, valRev (padRev k n) = n % 10 ^ k := by
  induction k with
  | zero => intro n; simp [padRev, valRev, Nat.mod_one]
  | succ k ih =>
    intro n; simp only [padRev, valRev, ih]
    rw [pow_succ', Nat.mod_mul]

theorem valRev_dropZeros (l : List Nat) :
    (valRev (l.dropWhile (· == 0)) : Rat) / 10 ^ (l.dropWhile (· == 0)).length
      = (valRev l : Rat) / 10 ^ l.length := by
  induction l with
  | nil => rfl
  | cons d ds ih =>
    by_cases hd : d = 0
    · subst hd
      simp only [List.dropWhile_cons, beq_self_eq_true, if_true, ih, valRev, List.length_cons]
      push_cast; rw [pow_succ]; field_simp; ring
    · have : (d == 0) = false := by simp [hd]
      simp [this]

theorem dropZeros_lt (l : List Nat) (h : ∀ d ∈ l, d < 10) : ∀ d ∈ l.dropWhile (· == 0), d < 10 :=
  fun d hd => h d ((List.dropWhile_sublist _).subset hd)

theorem span_digits (l rest : List Char) (hl : ∀ c ∈ l, isDigitC c = true)
    (hr : ∀ c ∈ rest.head?, isDigitC c = false) :
    (l ++ rest).span isDigitC = (l, rest) := by
  rw [List.span_eq_takeWhile_dropWhile, List.takeWhile_append_of_pos hl,
    List.dropWhile_append_of_pos hl]
  cases rest with
  | nil => simp
  | cons c r =>
    have : isDigitC c = false := hr c (by simp)
    simp [this]

theorem natChars_digits (n : Nat) : ∀ c ∈ natChars n, isDigitC c = true := by
  intro c hc
  simp only [natChars, List.mem_map, List.mem_reverse] at hc
  obtain ⟨d, hd, rfl⟩ := hc
  exact isDigitC_digitChar d (digitsRev_lt n d hd)

theorem natChars_val (n : Nat) : digitsVal? (natChars n) = some n := by
  unfold natChars
  rw [digitsVal_rev _ (digitsRev_lt n), valRev_digitsRev]

theorem natChars_ne_nil (n : Nat) : natChars n ≠ [] := by
  simp [natChars, digitsRev, digitsRevF_ne_nil]

/-- what `fracChars` renders: nothing, or a point and a digit string denoting `r / 10^k` -/
theorem fracChars_spec (k r : Nat) (hr : r < 10 ^ k) :
    ∃ fr : List Char, (∀ c ∈ fr, isDigitC c = true) ∧
      (fracChars k r = if fr.isEmpty then [] else '.' :: fr) ∧
      ∃ f : Nat, digitsVal? fr = some f ∧ (f : Rat) / 10 ^ fr.length = (r : Rat) / 10 ^ k := by
  refine ⟨(((padRev k r).dropWhile (· == 0)).reverse).map digitChar, ?_, ?_,
    valRev ((padRev k r).dropWhile (· == 0)), ?_, ?_⟩
  · intro c hc
    simp only [List.mem_map, List.mem_reverse] at hc
    obtain ⟨d, hd, rfl⟩ := hc
    exact isDigitC_digitChar d (dropZeros_lt _ (padRev_lt k r) d hd)
  · simp [fracChars]
  · exact digitsVal_rev _ (dropZeros_lt _ (padRev_lt k r))
  · have := valRev_dropZeros (padRev k r)
    simp only [List.length_map, List.length_reverse]
    rw [this, valRev_padRev, padRev_length, Nat.mod_eq_of_lt hr]

/-- the exponent suffix read by `unsignedVal?` -/
def expVal? (m : Rat) : List Char → Option Rat
  | [] => some m
  | 'e' :: s :: ds =>
      if ds.isEmpty then none else do
        let a ← digitsVal? ds
        if s = '+' then some (m * pow10 a)
        else if s = '-' then some (m * pow10 (-(a : Int)))
        else none
  | _ => none

def fracVal? (i : Nat) : List Char → Option Rat
  | '.' :: r =>
      (digitsVal? (r.span isDigitC).1).bind fun f =>
        expVal? ((i : Rat) + mkRat f (10 ^ (r.span isDigitC).1.length)) (r.span isDigitC).2
  | r => expVal? ((i : Rat) + mkRat 0 (10 ^ 0)) r

theorem unsignedVal_eq (cs : List Char) :
    unsignedVal? cs =
      if (cs.span isDigitC).1.isEmpty then none
      else (digitsVal? (cs.span isDigitC).1).bind fun i => fracVal? i (cs.span isDigitC).2 := by
  unfold unsignedVal?
  generalize cs.span isDigitC = p
  obtain ⟨ip, r1⟩ := p
  simp only
  split
  · rfl
  · cases digitsVal? ip with
    | none => rfl
    | some i =>
      simp only [Option.bind_eq_bind, Option.bind_some]
      unfold fracVal?
      split
      · simp only
        cases digitsVal? (List.span isDigitC _).1 with
        | none => rfl
        | some f =>
          simp only [Option.bind_some]
          unfold expVal?
          split <;> simp_all
      · rename_i hdot
        have : fracVal? i r1 = expVal? ((i : Rat) + mkRat 0 (10 ^ 0)) r1 := by
          unfold fracVal?
          split
          · exact absurd rfl (hdot _)
          · rfl
        unfold fracVal? at this
        rw [this]
        simp only [digitsVal_nil, Option.bind_some]
        unfold expVal?
        split <;> simp_all

theorem unsignedVal_parts (i : Nat) (fr tl : List Char) (f : Nat)
    (hfr : ∀ c ∈ fr, isDigitC c = true) (hf : digitsVal? fr = some f)
    (htl : tl = [] ∨ ∃ r, tl = 'e' :: r) :
    unsignedVal? (natChars i ++ ((if fr.isEmpty then [] else '.' :: fr) ++ tl))
      = expVal? ((i : Rat) + (f : Rat) / 10 ^ fr.length) tl := by
  have htl' : ∀ c ∈ tl.head?, isDigitC c = false := by
    rcases htl with rfl | ⟨r, rfl⟩
    · simp
    · simp; decide
  have hne : (natChars i).isEmpty = false := by
    cases h : natChars i with
    | nil => exact absurd h (natChars_ne_nil i)
    | cons => rfl
  rw [unsignedVal_eq]
  cases fr with
  | nil =>
    simp only [List.isEmpty_nil, if_true, List.nil_append]
    rw [span_digits _ _ (natChars_digits i) htl']
    simp only [hne, natChars_val]
    have hf0 : f = 0 := by rw [digitsVal_nil] at hf; exact (Option.some.inj hf).symm
    subst hf0
    have : fracVal? i tl = expVal? ((i : Rat) + mkRat 0 (10 ^ 0)) tl := by
      rcases htl with rfl | ⟨r, rfl⟩ <;> rfl
    simp [this, Rat.mkRat_eq_div]
  | cons c fr' =>
    simp only [List.isEmpty_cons]
    rw [span_digits _ _ (natChars_digits i) (by simp; decide)]
    simp only [hne, natChars_val]
    simp only [Bool.false_eq_true, if_false, Option.bind_some, List.cons_append, fracVal?]
    rw [← List.cons_append, span_digits _ _ hfr htl']
    simp [hf, Rat.mkRat_eq_div]

theorem natCast_div_add_mod (a b : Nat) (hb : 0 < b) :
    ((a / b : Nat) : Rat) + ((a % b : Nat) : Rat) / b = (a : Rat) / b := by
  have hbq : (b : Rat) ≠ 0 := by exact_mod_cast hb.ne'
  have h : (a : Rat) = b * (a / b : Nat) + (a % b : Nat) := by exact_mod_cast (Nat.div_add_mod a b).symm
  rw [eq_div_iff hbq, add_mul, div_mul_cancel₀ _ hbq]; linarith

/-- mantissa rendering shared by the fixed and the scientific style -/
theorem unsignedVal_mant (n k : Nat) (tl : List Char) (htl : tl = [] ∨ ∃ r, tl = 'e' :: r) :
    unsignedVal? (natChars (n / 10 ^ k) ++ fracChars k (n % 10 ^ k) ++ tl)
      = expVal? ((n : Rat) / 10 ^ k) tl := by
  have hk : 0 < 10 ^ k := Nat.pow_pos (by norm_num)
  obtain ⟨fr, hfr, hfc, f, hf, hval⟩ := fracChars_spec k (n % 10 ^ k) (Nat.mod_lt _ hk)
  rw [hfc, List.append_assoc, unsignedVal_parts _ fr tl f hfr hf htl, hval]
  have := natCast_div_add_mod n (10 ^ k) hk
  push_cast at this
  rw [this]

/-- fixed notation (`-4 ≤ X < P` in `%g`; only `X < P` is needed) reads back exactly -/
theorem unsignedVal_fixed (P : Nat) (d : Dec) (_hP : 1 ≤ P) (hx : d.exp < (P : Int)) :
    unsignedVal? (fixedChars P d) = some (d.value P) := by
  obtain ⟨k, hk⟩ : ∃ k : Nat, (P : Int) - 1 - d.exp = k := ⟨((P : Int) - 1 - d.exp).toNat, by omega⟩
  have := unsignedVal_mant d.digits k [] (Or.inl rfl)
  rw [List.append_nil] at this
  unfold fixedChars
  simp only [hk, Int.toNat_natCast]
  rw [this, Dec.value_eq, show d.exp - ((P : Int) - 1) = -(k : Int) by omega, pow10_neg, pow10_natCast]
  rfl

theorem digitsVal_zero_cons (cs : List Char) : digitsVal? ('0' :: cs) = digitsVal? cs := by
  unfold digitsVal?
  rw [List.foldl_cons]
  rfl

theorem expVal_expChars (m : Rat) (X : Int) : expVal? m (expChars X) = some (m * pow10 X) := by
  unfold expChars
  simp only
  generalize hds : (if X.natAbs < 10 then '0' :: natChars X.natAbs else natChars X.natAbs) = ds
  have hne : ds.isEmpty = false := by
    subst hds
    split
    · rfl
    · cases h : natChars X.natAbs with
      | nil => exact absurd h (natChars_ne_nil _)
      | cons => rfl
  have hv : digitsVal? ds = some X.natAbs := by
    subst hds
    split
    · rw [digitsVal_zero_cons, natChars_val]
    · exact natChars_val _
  unfold expVal?
  simp only [hne, hv]
  by_cases hX : X < 0
  · simp [hX]
    left; rw [abs_of_neg hX, neg_neg]
  · simp [hX]
    left; rw [abs_of_nonneg (by omega)]

/-- scientific notation reads back exactly -/
theorem unsignedVal_sci (P : Nat) (d : Dec) (hP : 1 ≤ P) :
    unsignedVal? (sciChars P d) = some (d.value P) := by
  unfold sciChars
  rw [unsignedVal_mant d.digits (P - 1) (expChars d.exp) (Or.inr ⟨_, rfl⟩), expVal_expChars,
    Dec.value_eq, show d.exp - ((P : Int) - 1) = d.exp + -((P - 1 : Nat) : Int) by omega, pow10_add,
    pow10_neg, pow10_natCast]
  congr 1; ring

theorem useFixed_exp_lt (P : Nat) (d : Dec) (h : useFixed P d = true) : d.exp < (P : Int) := by
  simp [useFixed] at h; exact h.2

/-- whichever style `%g` picks, the rendered digits read back as the `Dec` -/
theorem unsignedVal_render (P : Nat) (d : Dec) (hP : 1 ≤ P) :
    unsignedVal? (if useFixed P d then fixedChars P d else sciChars P d) = some (d.value P) := by
  split
  · next h => exact unsignedVal_fixed P d hP (useFixed_exp_lt P d h)
  · exact unsignedVal_sci P d hP

theorem unsignedVal_head (cs : List Char) (v : Rat) (h : unsignedVal? cs = some v) :
    ∃ c r, cs = c :: r ∧ isDigitC c = true := by
  rw [unsignedVal_eq] at h
  cases cs with
  | nil => simp [List.span_eq_takeWhile_dropWhile] at h
  | cons c r =>
    refine ⟨c, r, rfl, ?_⟩
    by_contra hc
    simp [List.span_eq_takeWhile_dropWhile, hc] at h

theorem valueOf_pos (cs : List Char) (v : Rat) (h : unsignedVal? cs = some v) :
    valueOf? cs = some (.fin v) := by
  obtain ⟨c, r, rfl, hc⟩ := unsignedVal_head cs v h
  have h1 : c ≠ 'n' := by rintro rfl; revert hc; decide
  have h2 : c ≠ 'i' := by rintro rfl; revert hc; decide
  have h3 : c ≠ '-' := by rintro rfl; revert hc; decide
  unfold valueOf?
  simp only [List.cons.injEq, h1, h2, h3, false_and, if_false]
  split
  · next heq => simp only [List.cons.injEq] at heq; exact absurd heq.1 h3
  · rw [h]; rfl

theorem valueOf_neg (cs : List Char) (v : Rat) (h : unsignedVal? cs = some v) :
    valueOf? ('-' :: cs) = some (.fin (-v)) := by
  obtain ⟨c, r, rfl, hc⟩ := unsignedVal_head cs v h
  have h2 : c ≠ 'i' := by rintro rfl; revert hc; decide
  unfold valueOf?
  have e1 : ('-' : Char) ≠ 'n' := by decide
  have e2 : ('-' : Char) ≠ 'i' := by decide
  simp only [List.cons.injEq, e1, e2, h2, false_and, and_false, if_false]
  rw [h]; rfl

theorem precOf_pos (p : Nat) : 1 ≤ precOf p := by
  unfold precOf; split <;> omega

theorem natAbs_div_den (q : Rat) : (q.num.natAbs : Rat) / q.den = |q| := by
  have hd : (0 : Rat) < q.den := by exact_mod_cast q.den_pos
  conv_rhs => rw [← Rat.num_div_den q]
  rw [abs_div, abs_of_pos hd, Nat.cast_natAbs, Int.cast_abs]

/-- what `%.{p}g` of a non-zero rational reads back as: the signed `toDec` value -/
theorem fmtG_reads (p : Nat) (q : Rat) (hq : q ≠ 0) :
    valueOf? (fmtGChars p (.fin q)) = some (.fin
      (if q < 0 then -((toDec (precOf p) q.num.natAbs q.den).value (precOf p))
       else (toDec (precOf p) q.num.natAbs q.den).value (precOf p))) := by
  have hr := unsignedVal_render (precOf p) (toDec (precOf p) q.num.natAbs q.den) (precOf_pos p)
  simp only [fmtGChars, hq, if_false, fmtRatChars]
  by_cases hneg : q < 0
  · simp only [hneg, if_true, List.singleton_append]
    exact valueOf_neg _ _ hr
  · simp only [hneg, if_false, List.nil_append]
    exact valueOf_pos _ _ hr

/-- `%.{p}g` of a non-zero rational reads back as a number within half a unit of the
last printed significant digit of the exact value (fixed and scientific notation) -/
theorem fmtG_sound (p : Nat) (q : Rat) (hq : q ≠ 0) :
    ∃ v : Rat, valueOf? (fmtGChars p (.fin q)) = some (.fin v) ∧
      |v - q| ≤ (1 / 2) * pow10 ((toDec (precOf p) q.num.natAbs q.den).exp
        - (((precOf p : Nat) : Int) - 1)) := by
  have hP := precOf_pos p
  have hn : 0 < q.num.natAbs := Int.natAbs_pos.2 (Rat.num_ne_zero.2 hq)
  have hs := toDec_sound (precOf p) q.num.natAbs q.den hP hn q.den_pos
  rw [natAbs_div_den] at hs
  refine ⟨_, fmtG_reads p q hq, ?_⟩
  by_cases hneg : q < 0
  · rw [abs_of_neg hneg] at hs
    rw [if_pos hneg, ← abs_neg]
    convert hs using 2
    ring
  · rw [abs_of_nonneg (not_lt.1 hneg)] at hs
    rw [if_neg hneg]
    exact hs

/-- zero and the specials are rendered and read back exactly -/
theorem fmtG_zero (p : Nat) : valueOf? (fmtGChars p (.fin 0)) = some (.fin 0) := by
  simp only [fmtGChars, if_true]; decide +kernel
theorem fmtG_nan (p : Nat) : valueOf? (fmtGChars p .nan) = some .nan := by
  simp only [fmtGChars]; decide +kernel
theorem fmtG_pinf (p : Nat) : valueOf? (fmtGChars p .pinf) = some .pinf := by
  simp only [fmtGChars]; decide +kernel
theorem fmtG_ninf (p : Nat) : valueOf? (fmtGChars p .ninf) = some .ninf := by
  simp only [fmtGChars]; decide +kernel

theorem fmtG_fixed_sound (p : Nat) (q : Rat) (hq : q ≠ 0)
    (_hf : useFixed (precOf p) (toDec (precOf p) q.num.natAbs q.den) = true) :
    ∃ v : Rat, valueOf? (fmtGChars p (.fin q)) = some (.fin v) ∧
      |v - q| ≤ (1 / 2) * pow10 ((toDec (precOf p) q.num.natAbs q.den).exp
        - (((precOf p : Nat) : Int) - 1)) :=
  fmtG_sound p q hq

/-! ### tests (kernel evaluation of the executable definitions on spot values) -/

-- TEST: 999999.5 rounds up to seven digits and switches to scientific notation
example : fmtGChars 6 (.fin ((1999999 : Rat) / 2)) = ['1', 'e', '+', '0', '6'] := by decide +kernel
-- TEST: 1/3 at six significant digits
example : fmtGChars 6 (.fin ((1 : Rat) / 3)) = ['0', '.', '3', '3', '3', '3', '3', '3'] := by
  decide +kernel
-- TEST: -1234.5 at four digits is a tie, rounds to even
example : fmtGChars 4 (.fin (-(2469 : Rat) / 2)) = ['-', '1', '2', '3', '4'] := by decide +kernel
-- TEST: 0.5 → "0.5", 100000 → "100000", 1000000 → "1e+06", 0.0001 → "0.0001", 0.00001 → "1e-05"
example : fmtGChars 6 (.fin ((1 : Rat) / 2)) = ['0', '.', '5'] := by decide +kernel
example : fmtGChars 6 (.fin (100000 : Rat)) = ['1', '0', '0', '0', '0', '0'] := by decide +kernel
example : fmtGChars 6 (.fin (1000000 : Rat)) = ['1', 'e', '+', '0', '6'] := by decide +kernel
example : fmtGChars 6 (.fin ((1 : Rat) / 10000)) = ['0', '.', '0', '0', '0', '1'] := by decide +kernel
example : fmtGChars 6 (.fin ((1 : Rat) / 100000)) = ['1', 'e', '-', '0', '5'] := by decide +kernel
-- TEST: 2.5e-5 at 4 digits; 123456.5 at 6 digits is a tie → 123456
example : fmtGChars 4 (.fin ((25 : Rat) / 1000000)) = ['2', '.', '5', 'e', '-', '0', '5'] := by
  decide +kernel
example : fmtGChars 6 (.fin ((246913 : Rat) / 2)) = ['1', '2', '3', '4', '5', '6'] := by decide +kernel
-- TEST: zero and the specials
example : fmtGChars 6 (.fin 0) = ['0'] := by decide +kernel
example : fmtGChars 6 .nan = ['n', 'a', 'n'] := by decide +kernel
example : fmtGChars 4 .ninf = ['-', 'i', 'n', 'f'] := by decide +kernel
-- TEST: the reader
example : valueOf? ['1', 'e', '+', '0', '6'] = some (.fin 1000000) := by decide +kernel
example : valueOf? ['-', '1', '2', '.', '5', 'e', '-', '0', '1'] = some (.fin (-(5 : Rat) / 4)) := by
  decide +kernel
example : valueOf? ['0', '.', '3', '3'] = some (.fin ((33 : Rat) / 100)) := by decide +kernel
example : valueOf? ['-', 'i', 'n', 'f'] = some .ninf := by decide +kernel
example : valueOf? ['1', 'e'] = none := by decide +kernel
example : valueOf? ['.', '5'] = none := by decide +kernel
example : valueOf? [] = none := by decide +kernel
-- TEST: the digit generator
example : toDec 6 1999999 2 = ⟨100000, 6⟩ := by decide +kernel
example : toDec 6 1 3 = ⟨333333, -1⟩ := by decide +kernel

end VerifModel.Decimal
