import Proofs.Lemmas.XR
import VerifModel.Base.Vec
/-
  Helper lemmas: NumPy-style vector operations on vectors of finite values
  (`List.map fin xs`) reduce to the corresponding operations on rational lists.
-/
namespace VerifModel.Vec
open VerifModel XR

@[simp] theorem ofRats_nil : ofRats [] = [] := rfl
@[simp] theorem ofRats_cons (x : Rat) (xs : List Rat) : ofRats (x :: xs) = fin x :: ofRats xs := rfl
theorem ofRats_map (xs : List Rat) : ofRats xs = List.map fin xs := rfl
@[simp] theorem ofRats_length (xs : List Rat) : (ofRats xs).length = xs.length := by simp [ofRats]

theorem foldl_add_fin (xs : List Rat) (acc : Rat) :
    List.foldl (· + ·) (fin acc) (ofRats xs) = fin (acc + xs.sum) := by
  induction xs generalizing acc with
  | nil => simp
  | cons x xs ih => simp [List.foldl_cons, ih, add_assoc]

@[simp] theorem sum_ofRats (xs : List Rat) : Vec.sum (ofRats xs) = fin xs.sum := by
  unfold Vec.sum
  have := foldl_add_fin xs 0
  simpa using this

@[simp] theorem len_ofRats (xs : List Rat) : Vec.len (ofRats xs) = fin (xs.length : Rat) := by
  simp [Vec.len, XR.ofNat]

theorem mean_ofRats (xs : List Rat) (h : xs ≠ []) :
    Vec.mean (ofRats xs) = fin (xs.sum / xs.length) := by
  have hl : (xs.length : Rat) ≠ 0 := by
    have : 0 < xs.length := List.length_pos_iff.mpr h
    exact_mod_cast this.ne'
  simp [Vec.mean, hl]

@[simp] theorem sub_ofRats (xs ys : List Rat) :
    Vec.sub (ofRats xs) (ofRats ys) = ofRats (List.zipWith (· - ·) xs ys) := by
  unfold Vec.sub
  induction xs generalizing ys with
  | nil => simp
  | cons x xs ih => cases ys <;> simp [ih]

@[simp] theorem add_ofRats (xs ys : List Rat) :
    Vec.add (ofRats xs) (ofRats ys) = ofRats (List.zipWith (· + ·) xs ys) := by
  unfold Vec.add
  induction xs generalizing ys with
  | nil => simp
  | cons x xs ih => cases ys <;> simp [ih]

@[simp] theorem abs_ofRats (xs : List Rat) : Vec.abs (ofRats xs) = ofRats (xs.map (fun x => |x|)) := by
  unfold Vec.abs
  induction xs with
  | nil => rfl
  | cons x xs ih =>
    simp only [ofRats_cons, List.map_cons, ih, List.cons.injEq, and_true]
    simp only [XR.abs]
    congr 1
    by_cases h : x < 0
    · simp [h, abs_of_neg h]
    · simp [h, abs_of_nonneg (not_lt.mp h)]

@[simp] theorem npow_ofRats (xs : List Rat) (n : Nat) :
    Vec.npow (ofRats xs) n = ofRats (xs.map (· ^ n)) := by
  simp [Vec.npow, ofRats_map, Function.comp_def]

@[simp] theorem subS_ofRats (xs : List Rat) (m : Rat) :
    Vec.subS (ofRats xs) (fin m) = ofRats (xs.map (· - m)) := by
  simp [Vec.subS, ofRats_map, Function.comp_def]

@[simp] theorem addS_ofRats (xs : List Rat) (m : Rat) :
    Vec.addS (ofRats xs) (fin m) = ofRats (xs.map (· + m)) := by
  simp [Vec.addS, ofRats_map, Function.comp_def]

theorem isNan_ofRats (xs : List Rat) : List.filter (fun x => !x.isNan) (ofRats xs) = ofRats xs := by
  induction xs with
  | nil => rfl
  | cons x xs ih => simp_all

theorem nanmean_ofRats (xs : List Rat) : Vec.nanmean (ofRats xs) = Vec.mean (ofRats xs) := by
  unfold Vec.nanmean; rw [isNan_ofRats]

theorem var_ofRats (xs : List Rat) (h : xs ≠ []) :
    Vec.var (ofRats xs) =
      fin ((xs.map (fun x => (x - xs.sum / xs.length) * (x - xs.sum / xs.length))).sum / xs.length) := by
  unfold Vec.var
  rw [mean_ofRats xs h]
  simp only [subS_ofRats]
  have : List.map (fun x => x * x) (ofRats (List.map (fun x => x - xs.sum / ↑xs.length) xs))
      = ofRats (xs.map (fun x => (x - xs.sum / xs.length) * (x - xs.sum / xs.length))) := by
    simp [ofRats_map, Function.comp_def]
  rw [this, mean_ofRats _ (by simpa using h)]
  simp

end VerifModel.Vec
