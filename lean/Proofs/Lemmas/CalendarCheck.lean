import VerifModel.Model.CalendarLite
import VerifModel.Spec.CivilDate
/-
  Definitions for: the model's calendar (`civil`, `days`) against the textbook successor `Spec.Options.nextDay`,
  for every day from 1900-01-01 to 2100-12-31 (73 414 days), by kernel evaluation on `Nat`.
  Kept in its own module so that it is rebuilt only when the calendar changes.
-/
namespace VerifModel.ParseNumbers.CalendarLite
open VerifModel.Spec.Options

/-- what C13 needs to know about day number `n` -/
def dayOK (n : Nat) : Bool :=
  (civil n).valid && days (civil n) == n && decide (civil (n + 1) = nextDay (civil n))

/-! The kernel evaluates lazily and does not share the `let`-bound intermediates of `civil`; the
check is therefore phrased in continuation-passing style where every intermediate is forced to a
literal once (`force`), and proved equal to `dayOK`. -/

def force (x : Nat) (k : Nat → Bool) : Bool :=
  match x with
  | 0 => k 0
  | x' + 1 => k (x' + 1)

theorem force_eq (x : Nat) (k : Nat → Bool) : force x k = k x := by cases x <;> rfl

def civilK (n : Nat) (k : Nat → Nat → Nat → Bool) : Bool :=
  force (n / 146097) fun era =>
  force (n % 146097) fun doe =>
  force ((doe - doe / 1460 + doe / 36524 - doe / 146096) / 365) fun yoe =>
  force (yoe + era * 400) fun y =>
  force (doe - (365 * yoe + yoe / 4 - yoe / 100)) fun doy =>
  force ((5 * doy + 2) / 153) fun mp =>
  force (doy - (153 * mp + 2) / 5 + 1) fun d =>
  force (if mp < 10 then mp + 3 else mp - 9) fun m =>
  force (if m ≤ 2 then y + 1 else y) fun y' => k y' m d

theorem civilK_eq (n : Nat) (k : Nat → Nat → Nat → Bool) :
    civilK n k = k (civil n).y (civil n).m (civil n).d := by
  simp only [civilK, force_eq]; rfl

def checkDay (n : Nat) : Bool :=
  civilK n fun y m d => civilK (n + 1) fun y2 m2 d2 =>
    (Date.valid ⟨y, m, d⟩ && days ⟨y, m, d⟩ == n && decide ((⟨y2, m2, d2⟩ : Date) = nextDay ⟨y, m, d⟩))

theorem checkDay_eq (n : Nat) : checkDay n = dayOK n := by
  simp only [checkDay, civilK_eq, dayOK]

def allFrom (lo : Nat) : Nat → Bool
  | 0 => true
  | k + 1 => force lo fun l => checkDay l && allFrom (l + 1) k

theorem allFrom_spec (lo k : Nat) (h : allFrom lo k = true) (n : Nat) (h1 : lo ≤ n) (h2 : n < lo + k) :
    dayOK n = true := by
  induction k generalizing lo with
  | zero => omega
  | succ k ih =>
    simp only [allFrom, force_eq, Bool.and_eq_true] at h
    by_cases e : n = lo
    · subst e; rw [← checkDay_eq]; exact h.1
    · exact ih (lo + 1) h.2 (by omega) (by omega)

end VerifModel.ParseNumbers.CalendarLite
