import VerifModel.Base.XR
import VerifModel.Base.Tr
import Mathlib.Tactic.Ring
import Mathlib.Tactic.FieldSimp
import Mathlib.Tactic.Linarith
import Mathlib.Tactic.Positivity
import Mathlib.Data.Rat.Cast.Order
/-
  Helper lemmas: XR arithmetic exposed to `simp` through `rfl`-lemmas.
-/
namespace VerifModel.XR

@[simp] theorem fin_add (x y : Rat) : (fin x + fin y : XR) = fin (x + y) := rfl
@[simp] theorem fin_sub (x y : Rat) : (fin x - fin y : XR) = fin (x - y) := by
  show add (fin x) (neg (fin y)) = _
  simp [add, neg, Rat.sub_eq_add_neg]
@[simp] theorem fin_mul (x y : Rat) : (fin x * fin y : XR) = fin (x * y) := rfl
@[simp] theorem fin_neg (x : Rat) : (-(fin x) : XR) = fin (-x) := rfl
theorem fin_div (x y : Rat) :
    (fin x / fin y : XR) = if y = 0 then infOfSign x else fin (x / y) := rfl
@[simp] theorem fin_div_ne (x y : Rat) (h : y ≠ 0) : (fin x / fin y : XR) = fin (x / y) := by
  rw [fin_div]; simp [h]
@[simp] theorem eqb_fin (x y : Rat) : eqb (fin x) (fin y) = decide (x = y) := rfl
@[simp] theorem eq0_fin (x : Rat) : eq0 (fin x) = decide (x = 0) := rfl
@[simp] theorem ofNat_eq (n : Nat) : (OfNat.ofNat n : XR) = fin (n : Rat) := rfl
@[simp] theorem isInf_fin (x : Rat) : isInf (fin x) = false := rfl
@[simp] theorem isInf_nan : isInf nan = false := rfl
@[simp] theorem isNan_fin (x : Rat) : isNan (fin x) = false := rfl
@[simp] theorem isNan_nan : isNan nan = true := rfl
@[simp] theorem npow_fin (x : Rat) (n : Nat) : npow (fin x) n = fin (x ^ n) := by
  induction n with
  | zero => simp [npow]
  | succ n ih => simp only [npow, ih, pow_succ]; rfl

@[simp] theorem nan_add (x : XR) : (nan + x : XR) = nan := by cases x <;> rfl
@[simp] theorem add_nan (x : XR) : (x + nan : XR) = nan := by cases x <;> rfl
@[simp] theorem nan_mul (x : XR) : (nan * x : XR) = nan := by cases x <;> rfl
@[simp] theorem mul_nan (x : XR) : (x * nan : XR) = nan := by cases x <;> rfl
@[simp] theorem nan_div (x : XR) : (nan / x : XR) = nan := by cases x <;> rfl
@[simp] theorem div_nan (x : XR) : (x / nan : XR) = nan := by cases x <;> rfl
@[simp] theorem nan_sub (x : XR) : (nan - x : XR) = nan := by cases x <;> rfl
@[simp] theorem sub_nan (x : XR) : (x - nan : XR) = nan := by cases x <;> rfl
@[simp] theorem eqb_nan_left (x : XR) : eqb nan x = false := by cases x <;> rfl
@[simp] theorem eqb_nan_right (x : XR) : eqb x nan = false := by cases x <;> rfl

end VerifModel.XR

namespace VerifModel.Tr
open VerifModel XR

theorem log_fin (T : Tr) (q : Rat) :
    T.log (fin q) = if q < 0 then nan else if q = 0 then ninf else fin (T.logQ q) := rfl

@[simp] theorem log_fin_pos (T : Tr) (q : Rat) (h : 0 < q) : T.log (fin q) = fin (T.logQ q) := by
  rw [log_fin]
  have h1 : ¬ q < 0 := by linarith
  have h2 : q ≠ 0 := by linarith
  simp [h1, h2]

theorem sqrt_fin (T : Tr) (q : Rat) :
    T.sqrt (fin q) = if q < 0 then nan else fin (T.sqrtQ q) := rfl

end VerifModel.Tr
