import Proofs.Lemmas.CalendarCheck
/- one slice of the 1900–2100 calendar check (kernel evaluation); separate modules build in parallel -/
namespace VerifModel.ParseNumbers.CalendarLite

theorem chunk0 : allFrom 693901 5000 = true := by decide +kernel

end VerifModel.ParseNumbers.CalendarLite
