import Proofs.Lemmas.CalendarCheck
import Proofs.Lemmas.CalChunk.Chunk0
import Proofs.Lemmas.CalChunk.Chunk1
import Proofs.Lemmas.CalChunk.Chunk2
import Proofs.Lemmas.CalChunk.Chunk3
import Proofs.Lemmas.CalChunk.Chunk4
import Proofs.Lemmas.CalChunk.Chunk5
import Proofs.Lemmas.CalChunk.Chunk6
import Proofs.Lemmas.CalChunk.Chunk7
import Proofs.Lemmas.CalChunk.Chunk8
import Proofs.Lemmas.CalChunk.Chunk9
import Proofs.Lemmas.CalChunk.Chunk10
import Proofs.Lemmas.CalChunk.Chunk11
import Proofs.Lemmas.CalChunk.Chunk12
import Proofs.Lemmas.CalChunk.Chunk13
import Proofs.Lemmas.CalChunk.Chunk14
/-
  The model's calendar (`civil`, `days`) against the textbook successor `Spec.Options.nextDay`,
  for every day from 1900-01-01 to 2100-12-31 (73 414 days), by kernel evaluation on `Nat`
  (15 slices in Proofs/Lemmas/CalChunk/, built in parallel, rebuilt only when the calendar changes).
-/
namespace VerifModel.ParseNumbers.CalendarLite
open VerifModel.Spec.Options

/-- 1900-01-01 and 2100-12-31 as day numbers -/
def day1900 : Nat := 693901
def day2100 : Nat := 767314

example : civil day1900 = ⟨1900, 1, 1⟩ ∧ civil day2100 = ⟨2100, 12, 31⟩ := by decide


/-- every day 1900-01-01 … 2100-12-31: `civil n` is a valid date, `days (civil n) = n`, and the next
day number is the textbook next day. -/
theorem calendar_1900_2100 (n : Nat) (h1 : day1900 ≤ n) (h2 : n ≤ day2100) : dayOK n = true := by
  unfold day1900 at h1; unfold day2100 at h2
  have H : ∀ lo k, allFrom lo k = true → lo ≤ n → n < lo + k → dayOK n = true :=
    fun lo k h a b => allFrom_spec lo k h n a b
  by_cases a1 : n < 698901
  · exact H _ _ chunk0 h1 (by omega)
  by_cases a2 : n < 703901
  · exact H _ _ chunk1 (by omega) (by omega)
  by_cases a3 : n < 708901
  · exact H _ _ chunk2 (by omega) (by omega)
  by_cases a4 : n < 713901
  · exact H _ _ chunk3 (by omega) (by omega)
  by_cases a5 : n < 718901
  · exact H _ _ chunk4 (by omega) (by omega)
  by_cases a6 : n < 723901
  · exact H _ _ chunk5 (by omega) (by omega)
  by_cases a7 : n < 728901
  · exact H _ _ chunk6 (by omega) (by omega)
  by_cases a8 : n < 733901
  · exact H _ _ chunk7 (by omega) (by omega)
  by_cases a9 : n < 738901
  · exact H _ _ chunk8 (by omega) (by omega)
  by_cases a10 : n < 743901
  · exact H _ _ chunk9 (by omega) (by omega)
  by_cases a11 : n < 748901
  · exact H _ _ chunk10 (by omega) (by omega)
  by_cases a12 : n < 753901
  · exact H _ _ chunk11 (by omega) (by omega)
  by_cases a13 : n < 758901
  · exact H _ _ chunk12 (by omega) (by omega)
  by_cases a14 : n < 763901
  · exact H _ _ chunk13 (by omega) (by omega)
  · exact H _ _ chunk14 (by omega) (by omega)

end VerifModel.ParseNumbers.CalendarLite
