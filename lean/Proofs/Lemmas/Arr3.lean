import VerifModel.Model.Data
/-
  Helper lemmas about nested-list 3-D arrays: cells, indexed maps, slicing naturality.
  Core Lean only.
-/
namespace VerifModel
open XR

/-- the cell (t, l, x) of a 3-D array, if it exists -/
def Arr3.cell (a : Arr3) (t l x : Nat) : Option XR :=
  (a[t]?).bind fun row => (row[l]?).bind fun r => r[x]?

theorem Arr3.get_of_cell {a : Arr3} {t l x : Nat} {v : XR} (h : a.cell t l x = some v) :
    a.get t l x = v := by
  unfold Arr3.cell at h
  unfold Arr3.get
  cases h1 : a[t]? with
  | none => simp [h1] at h
  | some row =>
    simp only [h1, Option.bind_some] at h
    cases h2 : row[l]? with
    | none => simp [h2] at h
    | some r =>
      simp only [h2, Option.bind_some] at h
      simp [List.getD_eq_getElem?_getD, h1, h2, h]

theorem mapIdx3_cell (f : Nat → Nat → Nat → XR → XR) (a : Arr3) (t l x : Nat) :
    (mapIdx3 f a).cell t l x = (a.cell t l x).map (f t l x) := by
  unfold mapIdx3 Arr3.cell
  simp only [List.getElem?_mapIdx]
  cases a[t]? with
  | none => rfl
  | some row =>
    simp only [Option.map_some, Option.bind_some, List.getElem?_mapIdx]
    cases row[l]? with
    | none => rfl
    | some r => simp [List.getElem?_mapIdx]

private theorem mapIdx_congr' {α β : Type} (l : List α) (f g : Nat → α → β)
    (h : ∀ i v, l[i]? = some v → f i v = g i v) : l.mapIdx f = l.mapIdx g := by
  apply List.ext_getElem?
  intro i
  simp only [List.getElem?_mapIdx]
  cases hv : l[i]? with
  | none => rfl
  | some v => simp [h i v hv]

/-- two indexed maps agree if they agree on every existing cell -/
theorem mapIdx3_congr (f g : Nat → Nat → Nat → XR → XR) (a : Arr3)
    (h : ∀ t l x v, a.cell t l x = some v → f t l x v = g t l x v) : mapIdx3 f a = mapIdx3 g a := by
  unfold mapIdx3
  apply mapIdx_congr'
  intro t row ht
  apply mapIdx_congr'
  intro l r hl
  apply mapIdx_congr'
  intro x v hx
  apply h
  simp [Arr3.cell, ht, hl, hx]

private theorem map_mapIdx' {α β γ : Type} (l : List α) (f : Nat → α → β) (g : β → γ) :
    (l.mapIdx f).map g = l.mapIdx (fun i v => g (f i v)) := by
  apply List.ext_getElem?
  intro i
  simp only [List.getElem?_map, List.getElem?_mapIdx]
  cases l[i]? <;> rfl

private theorem mapIdx_map' {α β γ : Type} (l : List α) (g : α → β) (f : Nat → β → γ) :
    (l.map g).mapIdx f = l.mapIdx (fun i v => f i (g v)) := by
  apply List.ext_getElem?
  intro i
  simp only [List.getElem?_map, List.getElem?_mapIdx]
  cases l[i]? <;> rfl

theorem Arr3.map_mapIdx3 (k : XR → XR) (f : Nat → Nat → Nat → XR → XR) (a : Arr3) :
    Arr3.map k (mapIdx3 f a) = mapIdx3 (fun t l x v => k (f t l x v)) a := by
  unfold Arr3.map mapIdx3
  simp only [map_mapIdx']

/-- the shape of an array: all cells replaced by 0 -/
def Arr3.shape (a : Arr3) : Arr3 := Arr3.map (fun _ => XR.fin 0) a

theorem mapIdx3_const_of_shape (f : Nat → Nat → Nat → XR) (a b : Arr3) (h : a.shape = b.shape) :
    mapIdx3 (fun t l x _ => f t l x) a = mapIdx3 (fun t l x _ => f t l x) b := by
  have ha : mapIdx3 (fun t l x _ => f t l x) a = mapIdx3 (fun t l x _ => f t l x) a.shape := by
    unfold Arr3.shape Arr3.map mapIdx3
    simp only [mapIdx_map']
  have hb : mapIdx3 (fun t l x _ => f t l x) b = mapIdx3 (fun t l x _ => f t l x) b.shape := by
    unfold Arr3.shape Arr3.map mapIdx3
    simp only [mapIdx_map']
  rw [ha, hb, h]

/-! ### slicing commutes with cellwise maps -/

theorem applySel_map (f : XR → XR) (hf : f .nan = .nan) (a : Arr3) (sel : Sel) :
    applySel (Arr3.map f a) sel = List.map f (applySel a sel) := by
  cases sel with
  | all => simp [applySel, Arr3.flat, Arr3.map, List.map_flatten]
  | none => simp [applySel, Arr3.flat, Arr3.map, List.map_flatten]
  | time i =>
    simp only [applySel, Arr3.map, List.getD_eq_getElem?_getD, List.getElem?_map]
    cases a[i]? <;> simp [List.map_flatten]
  | times idx =>
    simp only [applySel, Arr3.flat, Arr3.map, List.map_flatten, List.map_map]
    congr 2
    apply List.map_congr_left
    intro t _
    simp only [Function.comp, List.getD_eq_getElem?_getD, List.getElem?_map]
    cases a[t]? <;> simp
  | leads idx =>
    simp only [applySel, Arr3.flat, Arr3.map, List.map_flatten, List.map_map]
    congr 2
    apply List.map_congr_left
    intro row _
    simp only [Function.comp, List.map_map]
    apply List.map_congr_left
    intro l _
    simp only [Function.comp, List.getD_eq_getElem?_getD, List.getElem?_map]
    cases row[l]? <;> simp
  | loc i =>
    simp only [applySel, Arr3.map, List.map_flatten, List.map_map]
    congr 1
    apply List.map_congr_left
    intro row _
    simp only [Function.comp, List.map_map]
    apply List.map_congr_left
    intro r _
    simp only [Function.comp, List.getD_eq_getElem?_getD, List.getElem?_map]
    cases r[i]? <;> simp [hf]

end VerifModel
