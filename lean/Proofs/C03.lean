import Proofs.Lemmas.Arr3
import Proofs.Lemmas.XR
/-
  C03 — Verified dimensions = intersection of inputs and the user's subset.
-/
namespace VerifModel.C03
open VerifModel XR

/-! ### order facts on XR (non-NaN values are totally ordered by `lt`, `eqb` is equality) -/

theorem eqb_eq {a b : XR} (h : XR.eqb a b = true) : a = b := by
  cases a <;> cases b <;> simp_all [XR.eqb]

theorem eqb_refl_of_notNan {a : XR} (h : a.isNan = false) : XR.eqb a a = true := by
  cases a <;> simp_all [XR.eqb, XR.isNan]

theorem lt_trichotomy' {a b : XR} (ha : a.isNan = false) (hb : b.isNan = false)
    (h1 : XR.lt a b = false) (h2 : XR.eqb a b = false) : XR.lt b a = true := by
  cases a <;> cases b <;> simp_all [XR.lt, XR.eqb, XR.isNan]
  rename_i x y
  exact lt_of_le_of_ne h1 (fun h => h2 h.symm)

theorem lt_trans' {a b c : XR} (h1 : XR.lt a b = true) (h2 : XR.lt b c = true) : XR.lt a c = true := by
  cases a <;> cases b <;> cases c <;> simp_all [XR.lt]
  exact lt_trans h1 h2

theorem lt_irrefl' (a : XR) : XR.lt a a = false := by
  cases a <;> simp [XR.lt]

/-- strictly ascending w.r.t. IEEE `<` -/
def StrictAsc : List XR → Prop
  | a :: b :: rest => XR.lt a b = true ∧ StrictAsc (b :: rest)
  | _ => True

def NoNan (xs : List XR) : Prop := ∀ x ∈ xs, x.isNan = false

/-- every element of the tail is above the head -/
theorem head_lt_of_strictAsc {a : XR} {rest : List XR} (h : StrictAsc (a :: rest)) :
    ∀ y ∈ rest, XR.lt a y = true := by
  induction rest generalizing a with
  | nil => intro y hy; cases hy
  | cons b rest ih =>
    intro y hy
    simp only [StrictAsc] at h
    cases hy with
    | head => exact h.1
    | tail _ hy => exact lt_trans' h.1 (ih h.2 y hy)

private theorem insertU_props (x : XR) (hx : x.isNan = false) (ys : List XR) (hs : StrictAsc ys)
    (hn : NoNan ys) :
    StrictAsc (insertU x ys) ∧ NoNan (insertU x ys)
      ∧ (∀ v, memX v (insertU x ys) = (XR.eqb v x || memX v ys))
      ∧ (∀ z, (∀ y ∈ ys, XR.lt z y = true) → XR.lt z x = true → ∀ y ∈ insertU x ys, XR.lt z y = true) := by
  induction ys with
  | nil =>
    refine ⟨trivial, ?_, ?_, ?_⟩
    · intro y hy; simp [insertU] at hy; subst hy; exact hx
    · intro v; simp [insertU, memX]
    · intro z _ hz y hy; simp [insertU] at hy; subst hy; exact hz
  | cons y ys ih =>
    have hny : y.isNan = false := hn y (by simp)
    have hs' : StrictAsc ys := by
      cases ys with
      | nil => trivial
      | cons _ _ => exact hs.2
    have hn' : NoNan ys := fun z hz => hn z (List.mem_cons_of_mem _ hz)
    obtain ⟨i1, i2, i3, i4⟩ := ih hs' hn'
    unfold insertU
    by_cases h1 : XR.lt x y = true
    · simp only [h1, if_true]
      refine ⟨⟨h1, hs⟩, ?_, ?_, ?_⟩
      · intro z hz
        cases hz with
        | head => exact hx
        | tail _ hz => exact hn z hz
      · intro v; simp [memX]
      · intro z hz hzx w hw
        cases hw with
        | head => exact hzx
        | tail _ hw => exact hz w hw
    · have h1' : XR.lt x y = false := by simpa using h1
      simp only [h1', Bool.false_eq_true, if_false]
      by_cases h2 : XR.eqb x y = true
      · simp only [h2, if_true]
        refine ⟨hs, hn, ?_, ?_⟩
        · intro v
          have := eqb_eq h2
          subst this
          simp only [memX, List.any_cons]
          cases XR.eqb v x <;> simp
        · intro z hz _ w hw; exact hz w hw
      · have h2' : XR.eqb x y = false := by simpa using h2
        simp only [h2', Bool.false_eq_true, if_false]
        have hyx : XR.lt y x = true := lt_trichotomy' hx hny h1' h2'
        refine ⟨?_, ?_, ?_, ?_⟩
        · have hall := i4 y (head_lt_of_strictAsc hs) hyx
          cases hins : insertU x ys with
          | nil => trivial
          | cons w ws =>
            rw [hins] at i1 hall
            exact ⟨hall w (by simp), i1⟩
        · intro z hz
          cases hz with
          | head => exact hny
          | tail _ hz => exact i2 z hz
        · intro v
          simp only [memX, List.any_cons] at i3 ⊢
          rw [i3 v]
          cases XR.eqb v y <;> cases XR.eqb v x <;> simp
        · intro z hz hzx w hw
          cases hw with
          | head => exact hz y (by simp)
          | tail _ hw => exact i4 z (fun u hu => hz u (List.mem_cons_of_mem _ hu)) hzx w hw

/-- `sortU` (np.sort + np.unique, NaN removed): ascending, duplicate-free, NaN-free, same members. -/
private theorem foldr_insertU (ys : List XR) (hn : NoNan ys) :
    StrictAsc (ys.foldr insertU []) ∧ NoNan (ys.foldr insertU [])
      ∧ ∀ v, memX v (ys.foldr insertU []) = memX v ys := by
  induction ys with
  | nil => exact ⟨trivial, (fun _ h => by cases h), (fun _ => rfl)⟩
  | cons x rest ih =>
    obtain ⟨a1, a2, a3⟩ := ih (fun z hz => hn z (List.mem_cons_of_mem _ hz))
    obtain ⟨b1, b2, b3, _⟩ := insertU_props x (hn x (by simp)) _ a1 a2
    refine ⟨b1, b2, ?_⟩
    intro v
    simp only [List.foldr_cons]
    rw [b3 v, a3 v]
    simp [memX]

/-- `sortU` (np.sort + np.unique, NaN removed): ascending, duplicate-free, NaN-free, same members. -/
theorem C03_sortU (xs : List XR) :
    StrictAsc (sortU xs) ∧ NoNan (sortU xs)
      ∧ ∀ v, memX v (sortU xs) = memX v (xs.filter fun x => !x.isNan) := by
  unfold sortU
  apply foldr_insertU
  intro x hx
  simp only [List.mem_filter, Bool.not_eq_true'] at hx
  exact hx.2

/-- a filtered strictly ascending list is strictly ascending -/
theorem strictAsc_filter (p : XR → Bool) (xs : List XR) (h : StrictAsc xs) : StrictAsc (xs.filter p) := by
  induction xs with
  | nil => trivial
  | cons a rest ih =>
    have hrest : StrictAsc rest := by
      cases rest with
      | nil => trivial
      | cons _ _ => exact h.2
    have hlt := head_lt_of_strictAsc h
    simp only [List.filter_cons]
    split
    · cases hf : rest.filter p with
      | nil => trivial
      | cons b bs =>
        have hb : b ∈ rest.filter p := by rw [hf]; simp
        refine ⟨hlt b (List.mem_filter.mp hb).1, ?_⟩
        rw [← hf]; exact ih hrest
    · exact ih hrest

theorem memX_filter (v : XR) (c start : List XR) :
    memX v (start.filter fun w => memX w c) = (memX v start && memX v c) := by
  unfold memX
  induction start with
  | nil => simp
  | cons s ss ihs =>
    simp only [List.filter_cons]
    by_cases hs : (c.any (XR.eqb s)) = true
    · simp only [hs, if_true, List.any_cons, ihs]
      by_cases hv : XR.eqb v s = true
      · have := eqb_eq hv; subst this; simp [hv, hs]
      · simp [hv]
    · simp only [hs, Bool.false_eq_true, if_false, List.any_cons, ihs]
      by_cases hv : XR.eqb v s = true
      · have := eqb_eq hv; subst this
        have hs' : c.any (XR.eqb v) = false := by simpa using hs
        simp [hs']
      · simp [hv]

private theorem foldl_filter_props (cols : List (List XR)) (start : List XR) :
    (∀ v, memX v (cols.foldl (fun acc c => acc.filter fun v => memX v c) start)
        = (memX v start && cols.all fun c => memX v c))
    ∧ (StrictAsc start → StrictAsc (cols.foldl (fun acc c => acc.filter fun v => memX v c) start))
    ∧ (NoNan start → NoNan (cols.foldl (fun acc c => acc.filter fun v => memX v c) start)) := by
  induction cols generalizing start with
  | nil => simp
  | cons c cs ih =>
    obtain ⟨i1, i2, i3⟩ := ih (start.filter fun v => memX v c)
    refine ⟨?_, ?_, ?_⟩
    · intro v
      simp only [List.foldl_cons, List.all_cons]
      rw [i1 v]
      have := memX_filter v c start
      rw [this, Bool.and_assoc]
    · intro h; exact i2 (strictAsc_filter _ _ h)
    · intro h; exact i3 (fun x hx => h x (List.mem_filter.mp hx).1)

/-- The verified times / lead times / location ids: a value is verified iff it is in the user's
list (when one is given; otherwise in the first input), in EVERY input (incl. the climatology) and
is not NaN; the list is strictly ascending (hence duplicate-free) and NaN-free. -/
theorem C03_commonValues (aux : Option (List XR)) (c : List XR) (cols : List (List XR)) :
    (∀ v, memX v (commonValues aux (c :: cols))
        = (memX v ((aux.getD c).filter fun x => !x.isNan) && (c :: cols).all fun k => memX v k))
    ∧ StrictAsc (commonValues aux (c :: cols)) ∧ NoNan (commonValues aux (c :: cols)) := by
  have key : commonValues aux (c :: cols)
      = (c :: cols).foldl (fun acc k => acc.filter fun v => memX v k) (sortU (aux.getD c)) := by
    unfold commonValues
    cases aux <;> rfl
  rw [key]
  obtain ⟨s1, s2, s3⟩ := C03_sortU (aux.getD c)
  obtain ⟨f1, f2, f3⟩ := foldl_filter_props (c :: cols) (sortU (aux.getD c))
  refine ⟨?_, f2 s1, f3 s2⟩
  intro v
  rw [f1 v, s3 v]

/-- range options are inclusive at both ends -/
theorem C03_ranges_inclusive (lo hi v : Rat) :
    inRange (fin lo, fin hi) (fin v) = decide (lo ≤ v ∧ v ≤ hi) := by
  simp [inRange, XR.ge, XR.le]

example : inRange (fin 40, fin 50) (fin 40) = true ∧ inRange (fin 40, fin 50) (fin 50) = true
    ∧ inRange (fin 40, fin 50) (fin (501/10)) = false := by decide +kernel

/-- `-obsrange`: an observation is kept iff it lies in the inclusive range; other fields untouched -/
theorem C03_obsrange_value (lo hi v : Rat) :
    (maskObsRange (some (fin lo, fin hi)) "obs" [[[fin v]]]) =
      [[[if lo ≤ v ∧ v ≤ hi then fin v else nan]]] := by
  simp only [maskObsRange, Arr3.map, List.map, XR.lt, XR.gt, beq_self_eq_true, if_true]
  by_cases h1 : v < lo <;> by_cases h2 : hi < v <;> simp [h1, h2] <;> intro h <;> linarith

theorem C03_obsrange_other (r : Option (XR × XR)) (name : String) (h : name ≠ "obs") (a : Arr3) :
    maskObsRange r name a = a := by
  unfold maskObsRange
  cases r with
  | none => rfl
  | some p => simp [h]

/-- Nothing left ⇒ never a numeric score: no valid case gives NaN for every requested field. -/
theorem C03_empty_nan (sel : Sel) (n : Nat) (cols : List Vec) (hsel : sel ≠ .all)
    (hnone : ∀ b ∈ validMask cols, b = false) :
    finish sel n cols = List.replicate n [nan] ∨ cols = [] := by
  cases cols with
  | nil => right; rfl
  | cons c cs =>
    left
    have hc : ∀ (v : Vec), compress (validMask (c :: cs)) v = [] := by
      intro v
      unfold compress
      rw [List.filterMap_eq_nil_iff]
      intro p hp
      have := hnone p.1 (List.of_mem_zip hp).1
      simp [this]
    unfold finish
    cases sel <;> simp_all

/-- … and an empty dimension stops the program with an error: `Data.init` passes the three
verified lists through `checkNonEmpty`, which succeeds only if none is empty. -/
theorem C03_empty_error (t l x : List XR) :
    checkNonEmpty t l x = .ok () ↔ t ≠ [] ∧ l ≠ [] ∧ x ≠ [] := by
  unfold checkNonEmpty
  cases t <;> cases l <;> cases x <;> simp

end VerifModel.C03
