import Proofs.C04
import Proofs.GenEq.Det
/-
  C14 — Anomaly scores use the climatology at the same coordinates.
-/
namespace VerifModel.C14
open VerifModel XR Spec.Det

/-- With -c the climatology's value for the same case is subtracted from observation and forecast … -/
theorem C14_subtract (name : String) (h : name = "obs" ∨ name = "fcst") (v c : Vec) :
    climAdjust false name v (some c) = Vec.sub v c := by
  rcases h with h | h <;> subst h <;> rfl

/-- … with -C it divides them … -/
theorem C14_divide (name : String) (h : name = "obs" ∨ name = "fcst") (v c : Vec) :
    climAdjust true name v (some c) = Vec.div v c := by
  rcases h with h | h <;> subst h <;> rfl

/-- … and only observation and forecast values are altered. -/
theorem C14_only_obs_fcst (div : Bool) (name : String) (h1 : name ≠ "obs") (h2 : name ≠ "fcst")
    (v : Vec) (clim : Option Vec) : climAdjust div name v clim = v := by
  unfold climAdjust
  cases clim with
  | none => rfl
  | some c => simp [h1, h2]

theorem C14_no_clim (div : Bool) (name : String) (v : Vec) : climAdjust div name v none = v := rfl

/-- The value at position k is the input's value minus (over) the climatology's value at the
SAME position, i.e. for the same (time, lead time, location) case. -/
theorem C14_same_case (v c : Vec) (k : Nat) (x y : XR) (hx : v[k]? = some x) (hy : c[k]? = some y) :
    (Vec.sub v c)[k]? = some (x - y) ∧ (Vec.div v c)[k]? = some (x / y) := by
  unfold Vec.sub Vec.div
  simp [List.getElem?_zipWith, hx, hy]

/-- A case where the climatology is missing, or the quotient is not finite, is invalid — for
every scored input alike (the climatology vector does not depend on the input). -/
theorem C14_dropped (v c : Vec) (k : Nat) (x : XR) (hx : v[k]? = some x) :
    (c[k]? = some nan → ∃ z, (Vec.sub v c)[k]? = some z ∧ isValid z = false)
    ∧ (c[k]? = some nan → ∃ z, (Vec.div v c)[k]? = some z ∧ isValid z = false)
    ∧ (c[k]? = some (fin 0) → ∃ z, (Vec.div v c)[k]? = some z ∧ isValid z = false) := by
  obtain ⟨h1, h2, h3⟩ := C04.C04_nonfinite_clim x
  refine ⟨?_, ?_, ?_⟩
  · intro hc; exact ⟨_, (C14_same_case v c k x nan hx hc).1, h1⟩
  · intro hc; exact ⟨_, (C14_same_case v c k x nan hx hc).2, h2⟩
  · intro hc; exact ⟨_, (C14_same_case v c k x (fin 0) hx hc).2, h3⟩

/-- the climatology column of a request does not depend on which input is scored -/
theorem C14_clim_same_for_all (D : DataS) (r r' : Req) (hf : r.fields = r'.fields) (hs : r.sel = r'.sel) :
    D.climP r = D.climP r' := by
  unfold DataS.climP DataS.doClim
  rw [hf, hs]

/-- The climatology is never a scored input: requests for it are rejected. -/
theorem C14_not_scored (D : DataS) (r : Req) (h : D.nScored ≤ r.input) :
    D.getScores r = .error "input_index out of range" := by
  unfold DataS.getScores
  simp [h]

/-! ### shift invariance: scores that do not change under a common shift -/

private theorem err_shift (os fs ks : List Rat) (h1 : os.length = ks.length) (h2 : fs.length = ks.length) :
    err (List.zipWith (· - ·) os ks) (List.zipWith (· - ·) fs ks) = err os fs := by
  unfold err
  induction ks generalizing os fs with
  | nil => cases os <;> cases fs <;> simp_all
  | cons k ks ih =>
    cases os with
    | nil => simp at h1
    | cons o os =>
      cases fs with
      | nil => simp at h2
      | cons f fs =>
        simp only [List.zipWith_cons_cons, List.cons.injEq]
        exact ⟨by ring, ih os fs (by simpa using h1) (by simpa using h2)⟩

/-- MAE, RMSE, standard error and bias of (obs − clim, fcst − clim) equal those of (obs, fcst):
under -c these scores equal the ones obtained without the climatology on the same cases. -/
theorem C14_shift_invariant (T : Tr) (agg : Vec → XR) (os fs ks : List Rat)
    (h1 : os.length = ks.length) (h2 : fs.length = ks.length) :
    mae agg (List.zipWith (· - ·) os ks) (List.zipWith (· - ·) fs ks) = mae agg os fs
    ∧ rmse T agg (List.zipWith (· - ·) os ks) (List.zipWith (· - ·) fs ks) = rmse T agg os fs
    ∧ stderror T (List.zipWith (· - ·) os ks) (List.zipWith (· - ·) fs ks) = stderror T os fs
    ∧ bias agg (List.zipWith (· - ·) os ks) (List.zipWith (· - ·) fs ks) = bias agg os fs := by
  have he := err_shift os fs ks h1 h2
  have he' := err_shift fs os ks h2 h1
  refine ⟨by simp [mae, he], by simp [rmse, he], by simp [stderror, he], ?_⟩
  unfold bias
  unfold err at he'
  rw [he']

example : mae Vec.mean [3, 5] [4, 7] = fin (3 / 2)
    ∧ mae Vec.mean (List.zipWith (· - ·) [3, 5] [1, 2]) (List.zipWith (· - ·) [4, 7] [1, 2]) = fin (3 / 2) := by
  constructor <;> decide +kernel

end VerifModel.C14
