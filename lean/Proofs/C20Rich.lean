import VerifModel.Model.ScriptsRich
/-
  C20 — "All of them preserve times, lead times, location metadata and the fields they do not transform",
  for everything a verif file can hold besides obs and fcst (`Extras`: ensemble, stored pit, stored cdf / x,
  other score fields, the attributes x0 / x1).  `carry s e` is what script `s` writes of `e`.

  Full statement (what the property says — FALSE for the code, see `C20_preserve_negation`):

      theorem C20_preserve_full (s : Script) (e : Extras) : carry s e = e

  (for ens2prob: up to the cdf / x / pit it is asked to compute; for expandverif: up to the re-indexing
  onto the new (time, lead time) grid).  None of the four scripts copies a variable it does not list in
  its output section: known findings accumulate- / window- / ens2prob- / expandverif-drops-fields and
  expandverif-never-written.  Proved: what IS carried (with `C20_preserve` of Proofs/C20.lean: name,
  units, times, lead times, location metadata, obs / fcst), exactly when the full statement holds, and its
  negation on a one-member witness for every script.
-/
namespace VerifModel.C20
open VerifModel Scripts XR

/-- **Preservation (partial).**  Every script carries the discrete-mass attributes x0 / x1 of the input
over unchanged (since the repair; they steer the PIT randomisation downstream) — next to what
`C20_preserve` lists.  Missing for the full statement: every other member of `Extras`. -/
theorem C20_preserve_partial (s : Script) (e : Extras) :
    (carry s e).x0 = e.x0 ∧ (carry s e).x1 = e.x1 := ⟨rfl, rfl⟩

/-- the full statement holds for exactly the files that hold nothing a script could drop -/
theorem C20_preserve_full_iff (s : Script) (e : Extras) :
    carry s e = e ↔ (e.ens = none ∧ e.pit = none ∧ e.cdf = none ∧ e.x = none ∧ e.other = []) := by
  cases e with
  | mk ens pit cdf x other x0 x1 =>
    simp only [carry, Extras.mk.injEq]
    constructor
    · rintro ⟨h1, h2, h3, h4, h5, _, _⟩
      exact ⟨h1.symm, h2.symm, h3.symm, h4.symm, h5.symm⟩
    · rintro ⟨h1, h2, h3, h4, h5⟩
      subst h1 h2 h3 h4 h5
      simp

/-- **The negation of the full statement, for every script**, on the recorded witness: a file whose only
extra is a one-member ensemble with the value 1 comes out without it -/
theorem C20_preserve_negation :
    ∀ s : Script, carry s { ens := some [fin 1] } ≠ { ens := some [fin 1] } ∧
      (carry s { ens := some [fin 1] }).ens = none := by
  intro s
  cases s <;> exact ⟨by decide, rfl⟩

/-- expandverif's `-t` / `-q` variables hold nothing but missing values, whatever the input -/
theorem C20_expand_never_written (cells : Nat) (t q : Vec) :
    (∀ v, (expandStubs cells t q).1 = some v → v.coord = t ∧ ∀ c ∈ v.data, c = nan) ∧
    (∀ v, (expandStubs cells t q).2 = some v → v.coord = q ∧ ∀ c ∈ v.data, c = nan) := by
  unfold expandStubs
  constructor
  · intro v hv
    simp only at hv
    by_cases ht : t.isEmpty = true
    · rw [if_pos ht] at hv; cases hv
    · rw [if_neg ht] at hv
      cases hv
      exact ⟨rfl, fun c hc => (List.mem_replicate.1 hc).2⟩
  · intro v hv
    simp only at hv
    by_cases hq : q.isEmpty = true
    · rw [if_pos hq] at hv; cases hv
    · rw [if_neg hq] at hv
      cases hv
      exact ⟨rfl, fun c hc => (List.mem_replicate.1 hc).2⟩

/-- non-vacuity: with `-t 1,2` on 3 cells a cdf variable of 6 missing values appears -/
example : (expandStubs 3 [fin 1, fin 2] []).1 = some ⟨[fin 1, fin 2], List.replicate 6 nan⟩ ∧
    (expandStubs 3 [fin 1, fin 2] []).2 = none := by decide

end VerifModel.C20
