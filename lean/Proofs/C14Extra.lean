import Proofs.C14
import Proofs.DataRefine
import VerifModel.Model.DetMetrics
/-
  C14, the "Hence …" clause: `verif A -c K` scores what `verif A K` scores in its first columns, for
  scores that are invariant to a common shift.

  Real semantics (data.py): the climatology is the LAST element of `self._inputs` in both runs, and
  `_get_score` propagates missing values of a field over ALL of `self._inputs` (climatology included)
  in both runs.  So the arrays behind both runs are the same; what differs is which fields a request
  touches: with `-c` the climatology's FORECAST is read for every request that contains obs or fcst
  (and a missing climatology forecast — or a missing forecast of any input, through propagation —
  drops the case), as an extra input only the REQUESTED fields of K are read.  The exact condition for
  the same case list is therefore:  the request contains "fcst"  (every deterministic metric asks for
  [obs, fcst]).  A request for the observation alone is the witness that the condition is necessary
  (`C14_extra_needs_fcst`).  The observations of K (own or borrowed) take part in both runs alike.
-/
namespace VerifModel.C14
open VerifModel XR Spec.DataCoord Spec.Det DataRefine

/-- the same options without `-c` -/
def noClim (cfg : Cfg) : Cfg := { cfg with clim := none }

theorem allInputs_extra (ins : List Input) (cfg : Cfg) (K : Input) (hK : cfg.clim = some K) :
    allInputs (ins ++ [K]) (noClim cfg) = allInputs ins cfg := by
  unfold allInputs noClim
  simp [hK]

/-- the verified dimensions are the same in both runs -/
theorem C14_extra_dims (ins : List Input) (cfg : Cfg) (K : Input) (hK : cfg.clim = some K) :
    specDims (ins ++ [K]) (noClim cfg) = specDims ins cfg := by
  unfold specDims
  rw [allInputs_extra ins cfg K hK]
  rfl

private theorem isValid_fin_sub {v k : XR} (hv : isValid v = true) (hk : isValid k = true) :
    isValid (v - k) = true := by
  obtain ⟨a, rfl⟩ := (isValid_iff_fin v).1 hv
  obtain ⟨b, rfl⟩ := (isValid_iff_fin k).1 hk
  rfl

/-- per case: with "fcst" among the requested fields, a case is valid under `-c K` (subtract) iff it is valid
with K as one more input -/
theorem caseValid_extra (inputs : List Input) (cfg : Cfg) (K : Input) (hK : cfg.clim = some K)
    (hKin : K ∈ inputs) (hsub : cfg.climDivide = false) (fields : List String) (hf : "fcst" ∈ fields)
    (I : Input) (hI : I ∈ inputs) (c : Coord) :
    caseValid inputs cfg fields I c = caseValid inputs (noClim cfg) fields I c := by
  have hdx : doClim (noClim cfg) fields = false := by simp [doClim, noClim]
  have hdc : doClim cfg fields = true := by
    simp only [doClim, hK, Option.isSome_some, Bool.true_and, Bool.or_eq_true, List.contains_iff_mem]
    exact Or.inr hf
  rw [Bool.eq_iff_iff, caseValid_iff, caseValid_iff]
  constructor
  · rintro ⟨h1, h2, _⟩
    have h1' : ∀ name ∈ fields, anyMissing inputs c name = false :=
      fun name hn => h1 name (mem_eff cfg fields name hn)
    refine ⟨?_, h2, ?_⟩
    · intro name hn
      unfold effFields at hn
      rw [hdx] at hn
      exact h1' name hn
    · intro name hn
      have := (anyMissing_false_iff inputs c name).1 (h1' name hn)
      rw [List.all_eq_true] at this
      unfold adjusted
      rw [hdx]
      exact this I hI
  · rintro ⟨h1, h2, _⟩
    have h1' : ∀ name ∈ fields, anyMissing inputs c name = false := by
      intro name hn
      apply h1
      unfold effFields
      rw [hdx]
      exact hn
    have hval : ∀ name ∈ fields, ∀ J ∈ inputs, isValid (fieldValue inputs name J c) = true := by
      intro name hn
      have := (anyMissing_false_iff inputs c name).1 (h1' name hn)
      rwa [List.all_eq_true] at this
    refine ⟨?_, h2, ?_⟩
    · intro name hn
      unfold effFields at hn
      rw [hdc] at hn
      rcases List.mem_cons.1 hn with e | hn
      · rw [e]; exact h1' "fcst" hf
      · exact h1' name hn
    · intro name hn
      unfold adjusted
      rw [hdc, hsub]
      simp only [Bool.true_and, Bool.false_eq_true, if_false]
      split
      · apply isValid_fin_sub (hval name hn I hI)
        unfold climValue
        rw [hK]
        exact hval "fcst" hf K hKin
      · exact hval name hn I hI

/-- **(a)** same valid cases in the same order: the coordinates contributing to a request that contains the
forecast are the same under `-c K` (subtract) and with K given as an additional input. -/
theorem C14_extra_same_cases_partial (ins : List Input) (cfg : Cfg) (K : Input) (hK : cfg.clim = some K)
    (hsub : cfg.climDivide = false) (r : Req) (hi : r.input < ins.length) (hf : "fcst" ∈ r.fields) :
    specCases ins cfg r = specCases (ins ++ [K]) (noClim cfg) r := by
  unfold specCases
  rw [C14_extra_dims ins cfg K hK, allInputs_extra ins cfg K hK, List.getElem?_append_left hi]
  cases specDims ins cfg with
  | none => rfl
  | some d =>
    simp only [List.getElem?_eq_getElem hi]
    apply List.filter_congr
    intro c _
    have hall : allInputs ins cfg = ins ++ [K] := by unfold allInputs; simp [hK]
    apply caseValid_extra _ cfg K hK _ hsub _ hf
    · rw [hall]; exact List.mem_append_left _ (List.getElem_mem hi)
    · rw [hall]; simp

/-- the climatology's value at a case = the forecast of the additional input K at that case -/
def climAt (inputs : List Input) (K : Input) (c : Coord) : XR := fieldValue inputs "fcst" K c

/-- **(b)** the values: under `-c K` (subtract) observation and forecast are the extra-input run's values minus
K's forecast at the same case; every other field is the same value. -/
theorem C14_extra_values (inputs : List Input) (cfg : Cfg) (K : Input) (hK : cfg.clim = some K)
    (hsub : cfg.climDivide = false) (fields : List String) (hf : "fcst" ∈ fields) (I : Input) (name : String)
    (c : Coord) :
    adjusted inputs cfg fields I name c =
      (if name = "obs" ∨ name = "fcst" then adjusted inputs (noClim cfg) fields I name c - climAt inputs K c
       else adjusted inputs (noClim cfg) fields I name c) := by
  have hdx : doClim (noClim cfg) fields = false := by simp [doClim, noClim]
  have hdc : doClim cfg fields = true := by
    simp only [doClim, hK, Option.isSome_some, Bool.true_and, Bool.or_eq_true, List.contains_iff_mem]
    exact Or.inr hf
  unfold adjusted climAt climValue
  rw [hdx, hdc, hsub, hK]
  by_cases h : name = "obs" ∨ name = "fcst"
  · have : (name == "obs" || name == "fcst") = true := by
      rcases h with h | h <;> subst h <;> rfl
    simp [h, this]
  · have : (name == "obs" || name == "fcst") = false := by
      rw [Bool.or_eq_false_iff]
      constructor
      · exact beq_false_of_ne (fun e => h (Or.inl e))
      · exact beq_false_of_ne (fun e => h (Or.inr e))
    simp [h, this]

/-! ### shift-invariant scores -/

/-- a score of the (observation, forecast) columns that does not change when the same per-case shift is
subtracted from both, i.e. that depends on the pairs only through the differences fcst − obs -/
def ShiftInvariant (s : Vec → Vec → XR) : Prop :=
  ∀ os fs ks : List Rat, os.length = ks.length → fs.length = ks.length →
    s (Vec.ofRats (List.zipWith (· - ·) os ks)) (Vec.ofRats (List.zipWith (· - ·) fs ks))
      = s (Vec.ofRats os) (Vec.ofRats fs)

private theorem si_of (s : Vec → Vec → XR) (sp : List Rat → List Rat → XR)
    (heq : ∀ os fs : List Rat, os ≠ [] → os.length = fs.length → s (Vec.ofRats os) (Vec.ofRats fs) = sp os fs)
    (hsp : ∀ os fs ks : List Rat, os.length = ks.length → fs.length = ks.length →
      sp (List.zipWith (· - ·) os ks) (List.zipWith (· - ·) fs ks) = sp os fs) : ShiftInvariant s := by
  intro os fs ks h1 h2
  cases os with
  | nil =>
    have hk : ks = [] := List.eq_nil_of_length_eq_zero (by simpa using h1.symm)
    subst hk
    have hf : fs = [] := List.eq_nil_of_length_eq_zero (by simpa using h2)
    subst hf
    rfl
  | cons o os =>
    cases ks with
    | nil => simp at h1
    | cons k ks =>
      cases fs with
      | nil => simp at h2
      | cons f fs =>
        rw [heq _ _ (by simp) (by simp only [List.zipWith_cons_cons, List.length_cons, List.length_zipWith]; simp at h1 h2; omega),
          heq _ _ (by simp) (by simp at h1 h2 ⊢; omega)]
        exact hsp _ _ _ h1 h2

/-- the generated models of the code's MAE, bias, RMSE and standard error are shift invariant -/
theorem C14_shiftInvariant_metrics (T : Tr) (agg : Vec → XR) :
    ShiftInvariant (Gen.Det.m_mae T agg) ∧ ShiftInvariant (Gen.Det.m_bias T agg)
    ∧ ShiftInvariant (Gen.Det.m_rmse T agg) ∧ ShiftInvariant (Gen.Det.m_stderror T agg) := by
  refine ⟨?_, ?_, ?_, ?_⟩
  · exact si_of _ (mae agg) (fun os fs hne hl => GenEq.Det.mae_eq T agg os fs hne hl)
      (fun os fs ks h1 h2 => (C14_shift_invariant T agg os fs ks h1 h2).1)
  · exact si_of _ (bias agg) (fun os fs hne hl => GenEq.Det.bias_eq T agg os fs hne hl)
      (fun os fs ks h1 h2 => (C14_shift_invariant T agg os fs ks h1 h2).2.2.2)
  · exact si_of _ (rmse T agg) (fun os fs hne hl => GenEq.Det.rmse_eq T agg os fs hne hl)
      (fun os fs ks h1 h2 => (C14_shift_invariant T agg os fs ks h1 h2).2.1)
  · exact si_of _ (stderror T) (fun os fs hne hl => GenEq.Det.stderror_eq T agg os fs hne hl)
      (fun os fs ks h1 h2 => (C14_shift_invariant T agg os fs ks h1 h2).2.2.1)


/-! ### the model's answers -/

/-- the `[NaN]` placeholder rule of `get_scores` -/
def placeholder (n : Nat) (cols : List Vec) : List Vec :=
  if (cols.headD []).isEmpty then List.replicate n [.nan] else cols

/-- **(a)+(b) on the model's answers.**  For a request that contains the forecast (any other fields too), a selection
other than the whole array: when both runs answer, the `-c K` run and the run with K as an additional input list
their values over the SAME cases in the same order, and the `-c K` values are the extra-input values minus K's forecast
at the case for observation and forecast, the same values for every other field.

Full statement (without `"fcst" ∈ r.fields`) is FALSE: `C14_extra_needs_fcst`. -/
theorem C14_extra_getScores_partial (ins : List Input) (cfg : Cfg) (K : Input) (hK : cfg.clim = some K)
    (hsub : cfg.climDivide = false) (Dc Dx : DataS)
    (hc : Data.init ins cfg = .ok Dc) (hx : Data.init (ins ++ [K]) (noClim cfg) = .ok Dx)
    (hw : (ins ++ [K]).all wfInput = true) (r : Req) (hf : "fcst" ∈ r.fields) (hall : isAllSel r.sel = false)
    (outc outx : List Vec) (hoc : Dc.getScores r = .ok outc) (hox : Dx.getScores r = .ok outx) :
    ∃ I, ins[r.input]? = some I ∧
      outx = placeholder r.fields.length (r.fields.map fun name =>
        (specCases (ins ++ [K]) (noClim cfg) r).map (adjusted (ins ++ [K]) (noClim cfg) r.fields I name))
      ∧ outc = placeholder r.fields.length (r.fields.map fun name =>
        (specCases (ins ++ [K]) (noClim cfg) r).map fun c =>
          if name = "obs" ∨ name = "fcst" then adjusted (ins ++ [K]) (noClim cfg) r.fields I name c - climAt (ins ++ [K]) K c
          else adjusted (ins ++ [K]) (noClim cfg) r.fields I name c) := by
  have hallc : allInputs ins cfg = ins ++ [K] := by unfold allInputs; simp [hK]
  have hallx : allInputs (ins ++ [K]) (noClim cfg) = ins ++ [K] := by rw [allInputs_extra ins cfg K hK, hallc]
  obtain ⟨I, hI, h1⟩ := getScores_over_specCases ins cfg Dc hc (by rw [hallc]; exact hw) r hall outc hoc
  obtain ⟨I', hI', h2⟩ := getScores_over_specCases (ins ++ [K]) (noClim cfg) Dx hx (by rw [hallx]; exact hw) r hall outx hox
  have hi : r.input < ins.length := by
    rcases Nat.lt_or_ge r.input ins.length with h | h
    · exact h
    · rw [List.getElem?_eq_none h] at hI; cases hI
  rw [List.getElem?_append_left hi, hI] at hI'
  cases hI'
  refine ⟨I, hI, ?_, ?_⟩
  · rw [h2, hallx]; rfl
  · rw [h1, hallc, C14_extra_same_cases_partial ins cfg K hK hsub r hi hf]
    simp only [placeholder]
    have : (fun name => List.map (adjusted (ins ++ [K]) cfg r.fields I name) (specCases (ins ++ [K]) (noClim cfg) r))
        = (fun name => List.map (fun c =>
          if name = "obs" ∨ name = "fcst" then adjusted (ins ++ [K]) (noClim cfg) r.fields I name c - climAt (ins ++ [K]) K c
          else adjusted (ins ++ [K]) (noClim cfg) r.fields I name c) (specCases (ins ++ [K]) (noClim cfg) r)) := by
      funext name
      apply List.map_congr_left
      intro c _
      exact C14_extra_values (ins ++ [K]) cfg K hK hsub r.fields hf I name c
    rw [this]


/-- both runs construct (or both stop with an error), on the same dimensions; the climatology is not counted:
`num_inputs` is the number of scored inputs under `-c`, one more with K as an additional input -/
theorem C14_extra_init (ins : List Input) (cfg : Cfg) (K : Input) (hK : cfg.clim = some K) (Dc : DataS)
    (hc : Data.init ins cfg = .ok Dc) :
    ∃ Dx, Data.init (ins ++ [K]) (noClim cfg) = .ok Dx ∧ Dx.times = Dc.times ∧ Dx.leads = Dc.leads
      ∧ Dx.locs.map (·.id) = Dc.locs.map (·.id) ∧ Dx.inputs = Dc.inputs
      ∧ Dc.nScored = ins.length ∧ Dx.nScored = ins.length + 1 := by
  have Fc := init_facts ins cfg Dc hc
  cases hx : Data.init (ins ++ [K]) (noClim cfg) with
  | error e =>
    have := C03_dims_error _ _ e hx
    rw [C14_extra_dims ins cfg K hK, Fc.hDims] at this
    cases this
  | ok Dx =>
    have Fx := init_facts _ _ Dx hx
    have hd := Fx.hDims
    rw [C14_extra_dims ins cfg K hK, Fc.hDims] at hd
    simp only [Option.some.injEq, Dims.mk.injEq] at hd
    refine ⟨Dx, rfl, hd.1.symm, hd.2.1.symm, hd.2.2.symm, ?_, Fc.hN, ?_⟩
    · rw [Fx.hInputs, Fc.hInputs, allInputs_extra ins cfg K hK]
    · rw [Fx.hN]; simp

/-- the rational behind a finite value -/
def ratOf : XR → Rat
  | .fin q => q
  | _ => 0

private theorem map_fin (cs : List Coord) (a : Coord → XR) (ha : ∀ c ∈ cs, isValid (a c) = true) :
    cs.map a = Vec.ofRats (cs.map fun c => ratOf (a c)) := by
  unfold Vec.ofRats
  rw [List.map_map]
  apply List.map_congr_left
  intro c hc
  obtain ⟨q, hq⟩ := (isValid_iff_fin _).1 (ha c hc)
  simp [hq, ratOf]

private theorem map_sub_fin (cs : List Coord) (a k : Coord → XR) (ha : ∀ c ∈ cs, isValid (a c) = true)
    (hk : ∀ c ∈ cs, isValid (k c) = true) :
    cs.map (fun c => a c - k c)
      = Vec.ofRats (List.zipWith (· - ·) (cs.map fun c => ratOf (a c)) (cs.map fun c => ratOf (k c))) := by
  induction cs with
  | nil => rfl
  | cons c cs ih =>
    obtain ⟨q, hq⟩ := (isValid_iff_fin _).1 (ha c List.mem_cons_self)
    obtain ⟨q', hq'⟩ := (isValid_iff_fin _).1 (hk c List.mem_cons_self)
    have := ih (fun c hc => ha c (List.mem_cons_of_mem _ hc)) (fun c hc => hk c (List.mem_cons_of_mem _ hc))
    simp only [List.map_cons, List.zipWith_cons_cons, this, Vec.ofRats, hq, hq', ratOf, XR.fin_sub]

private theorem cfof_fin (s : Vec → Vec → XR) (A B : List Rat) (hl : A.length = B.length) (hne : A ≠ []) :
    computeFromObsFcst s (Vec.ofRats A) (Vec.ofRats B) = s (Vec.ofRats A) (Vec.ofRats B) := by
  have hz : validObsFcst (Vec.ofRats A) (Vec.ofRats B) = (Vec.ofRats A).zip (Vec.ofRats B) := by
    unfold validObsFcst
    rw [List.filter_eq_self]
    intro p hp
    have h1 := (List.of_mem_zip hp).1
    have h2 := (List.of_mem_zip hp).2
    unfold Vec.ofRats at h1 h2
    obtain ⟨a, _, ha⟩ := List.mem_map.1 h1
    obtain ⟨b, _, hb⟩ := List.mem_map.1 h2
    rw [← ha, ← hb]; rfl
  have hlen : (Vec.ofRats A).length = (Vec.ofRats B).length := by simp [Vec.ofRats, hl]
  unfold computeFromObsFcst
  simp only [hz]
  rw [List.map_fst_zip (Nat.le_of_eq hlen), List.map_snd_zip (Nat.le_of_eq hlen.symm)]
  have : ((Vec.ofRats A).zip (Vec.ofRats B)).isEmpty = false := by
    cases A with
    | nil => exact absurd rfl hne
    | cons a A =>
      cases B with
      | nil => simp at hl
      | cons b B => rfl
  rw [this]; rfl

/-- **(c)** Hence: for every shift-invariant score `s` of the (observation, forecast) columns — `m_mae`, `m_bias`,
`m_rmse`, `m_stderror` by `C14_shiftInvariant_metrics` — the `-c K` run and the run with K as an additional input
score the same for every scored input and every slice: `s` of the `-c K` answer = `s` of the extra-input answer
(also through `compute_from_obs_fcst`, which only removes missing pairs: the columns are the arguments). -/
theorem C14_extra_score (ins : List Input) (cfg : Cfg) (K : Input) (hK : cfg.clim = some K)
    (hsub : cfg.climDivide = false) (Dc Dx : DataS)
    (hc : Data.init ins cfg = .ok Dc) (hx : Data.init (ins ++ [K]) (noClim cfg) = .ok Dx)
    (hw : (ins ++ [K]).all wfInput = true) (i : Nat) (sel : Sel) (hall : isAllSel sel = false)
    (oc fc ox fx : Vec) (hoc : Dc.getScores ⟨["obs", "fcst"], i, sel⟩ = .ok [oc, fc])
    (hox : Dx.getScores ⟨["obs", "fcst"], i, sel⟩ = .ok [ox, fx])
    (s : Vec → Vec → XR) (hs : ShiftInvariant s) :
    s oc fc = s ox fx ∧ computeFromObsFcst s oc fc = computeFromObsFcst s ox fx := by
  obtain ⟨I, hI, h2, h1⟩ := C14_extra_getScores_partial ins cfg K hK hsub Dc Dx hc hx hw
    ⟨["obs", "fcst"], i, sel⟩ (by simp) hall _ _ hoc hox
  have hi : i < ins.length := by
    rcases Nat.lt_or_ge i ins.length with h | h
    · exact h
    · rw [List.getElem?_eq_none h] at hI; cases hI
  have hIe : I = ins[i] := by
    rw [List.getElem?_eq_getElem hi] at hI; exact (Option.some.inj hI).symm
  generalize hcs : specCases (ins ++ [K]) (noClim cfg) ⟨["obs", "fcst"], i, sel⟩ = cs at h1 h2
  -- at the contributing cases everything is finite
  have hv : ∀ c ∈ cs, isValid (adjusted (ins ++ [K]) (noClim cfg) ["obs", "fcst"] I "obs" c) = true
      ∧ isValid (adjusted (ins ++ [K]) (noClim cfg) ["obs", "fcst"] I "fcst" c) = true
      ∧ isValid (climAt (ins ++ [K]) K c) = true := by
    intro c hcm
    rw [← hcs] at hcm
    unfold specCases at hcm
    have hallx : allInputs (ins ++ [K]) (noClim cfg) = ins ++ [K] := by
      rw [allInputs_extra ins cfg K hK]; unfold allInputs; simp [hK]
    rw [hallx] at hcm
    cases hd : specDims (ins ++ [K]) (noClim cfg) with
    | none => rw [hd] at hcm; cases hcm
    | some d =>
      rw [hd] at hcm
      simp only [List.getElem?_append_left hi, List.getElem?_eq_getElem hi, List.mem_filter] at hcm
      obtain ⟨h1', _, h3'⟩ := (caseValid_iff _ _ _ _ _).1 hcm.2
      rw [hIe]
      refine ⟨h3' "obs" (by simp), h3' "fcst" (by simp), ?_⟩
      have := (anyMissing_false_iff (ins ++ [K]) c "fcst").1 (h1' "fcst" (mem_eff _ _ _ (by simp)))
      rw [List.all_eq_true] at this
      exact this K (by simp)
  have key : s oc fc = s ox fx ∧ computeFromObsFcst s oc fc = computeFromObsFcst s ox fx := by
    simp only [placeholder, List.map_cons, List.map_nil, List.headD_cons, List.length_cons, List.length_nil,
      true_or, or_true, if_true] at h1 h2
    cases cs with
    | nil =>
      simp only [List.map_nil, List.isEmpty_nil, if_true] at h1 h2
      rw [← h2] at h1
      simp only [List.cons.injEq, and_true] at h1
      rw [h1.1, h1.2]
      exact ⟨rfl, rfl⟩
    | cons c0 cs0 =>
      simp only [List.map_cons, List.isEmpty_cons, Bool.false_eq_true, if_false, List.cons.injEq, and_true] at h1 h2
      have e1 := map_sub_fin (c0 :: cs0) _ _ (fun c hc => (hv c hc).1) (fun c hc => (hv c hc).2.2)
      have e2 := map_sub_fin (c0 :: cs0) _ _ (fun c hc => (hv c hc).2.1) (fun c hc => (hv c hc).2.2)
      have e3 := map_fin (c0 :: cs0) _ (fun c hc => (hv c hc).1)
      have e4 := map_fin (c0 :: cs0) _ (fun c hc => (hv c hc).2.1)
      simp only [List.map_cons] at e1 e2 e3 e4
      rw [h1.1, h1.2, h2.1, h2.2, e1, e2, e3, e4]
      refine ⟨hs _ _ _ (by simp) (by simp), ?_⟩
      rw [cfof_fin s _ _ (by simp) (by simp), cfof_fin s _ _ (by simp) (by simp)]
      exact hs _ _ _ (by simp) (by simp)
  exact key


/-! ### `-C`: a zero climatology, and a missing one, drop the case for every input -/

/-- With `-C` (divide) a case whose climatology value is 0 contributes for NO scored input, whatever the input's
values are (request with the observation or the forecast). -/
theorem C14_divide_zero_dropped (inputs : List Input) (cfg : Cfg) (K : Input) (hK : cfg.clim = some K)
    (hdiv : cfg.climDivide = true) (fields : List String) (hf : "obs" ∈ fields ∨ "fcst" ∈ fields) (c : Coord)
    (hz : climAt inputs K c = fin 0) (I : Input) : caseValid inputs cfg fields I c = false := by
  have hdc : doClim cfg fields = true := by
    simp only [doClim, hK, Option.isSome_some, Bool.true_and, Bool.or_eq_true, List.contains_iff_mem]
    exact hf
  cases hcv : caseValid inputs cfg fields I c with
  | false => rfl
  | true =>
    obtain ⟨_, _, h3⟩ := (caseValid_iff _ _ _ _ _).1 hcv
    have bad : ∀ name, name = "obs" ∨ name = "fcst" → isValid (adjusted inputs cfg fields I name c) = false := by
      intro name hn
      have hb : (name == "obs" || name == "fcst") = true := by rcases hn with h | h <;> subst h <;> rfl
      unfold adjusted
      rw [hdc, hdiv, hb]
      simp only [Bool.and_self, if_true]
      unfold climValue
      rw [hK]
      unfold climAt at hz
      simp only [hz]
      exact (C04.C04_nonfinite_clim _).2.2
    rcases hf with h | h
    · have := h3 "obs" h; rw [bad "obs" (Or.inl rfl)] at this; exact this.symm
    · have := h3 "fcst" h; rw [bad "fcst" (Or.inr rfl)] at this; exact this.symm

/-- … and in both modes a case where the climatology has no usable value (missing, ±inf) contributes for no scored
input. -/
theorem C14_missing_clim_dropped (inputs : List Input) (cfg : Cfg) (K : Input) (hK : cfg.clim = some K)
    (hKin : K ∈ inputs) (fields : List String) (hf : "obs" ∈ fields ∨ "fcst" ∈ fields) (c : Coord)
    (hz : isValid (climAt inputs K c) = false) (I : Input) : caseValid inputs cfg fields I c = false := by
  have hdc : doClim cfg fields = true := by
    simp only [doClim, hK, Option.isSome_some, Bool.true_and, Bool.or_eq_true, List.contains_iff_mem]
    exact hf
  cases hcv : caseValid inputs cfg fields I c with
  | false => rfl
  | true =>
    obtain ⟨h1, _, _⟩ := (caseValid_iff _ _ _ _ _).1 hcv
    have := (anyMissing_false_iff inputs c "fcst").1 (h1 "fcst" (by unfold effFields; rw [hdc]; exact List.mem_cons_self))
    rw [List.all_eq_true] at this
    have := this K hKin
    unfold climAt at hz
    rw [hz] at this
    cases this

/-! ### the hypothesis `"fcst" ∈ r.fields` is necessary; non-vacuity -/

namespace Witness
open DataRefine.Example

def wLocs : List Loc := [⟨1, 50, 10, 100⟩, ⟨2, 60, 20, 200⟩]
/-- one scored input, two cases -/
def wA : Input := ⟨[0], [0], [⟨1, 50, 10, 100⟩, ⟨2, 60, 20, 200⟩],
    [("obs", [[[1, 2]]]), ("fcst", [[[3, 5]]])]⟩
/-- a climatology whose forecast is missing at the first case (its observations are complete) -/
def wK : Input := ⟨[0], [0], [⟨1, 50, 10, 100⟩, ⟨2, 60, 20, 200⟩],
    [("obs", [[[1, 2]]]), ("fcst", [[[.nan, 1]]])]⟩
/-- a complete climatology -/
def wK2 : Input := ⟨[0], [0], [⟨1, 50, 10, 100⟩, ⟨2, 60, 20, 200⟩],
    [("obs", [[[1, 2]]]), ("fcst", [[[4, 1]]])]⟩

def runOn (scored : List Input) (cfg : Cfg) (r : Req) : Except String (List Vec) :=
  match Data.init scored cfg with
  | .ok D => D.getScores r
  | .error e => .error e

/-- **Necessity of the hypothesis.**  A request for the observation alone: under `-c K` the case where K's forecast is
missing is dropped, with K as an additional input it is kept (only K's observation is read).  Case lists of the
specification and answers of the model differ.  (Replayed on the real code: corpus/C14.txt, stream data.climcols.) -/
theorem C14_extra_needs_fcst :
    specCases [wA] { clim := some wK } ⟨["obs"], 0, .none⟩ = [(0, 0, 2)]
    ∧ specCases ([wA] ++ [wK]) (noClim { clim := some wK }) ⟨["obs"], 0, .none⟩ = [(0, 0, 1), (0, 0, 2)]
    ∧ runOn [wA] { clim := some wK } ⟨["obs"], 0, .none⟩ = .ok [[1]]
    ∧ runOn ([wA] ++ [wK]) (noClim { clim := some wK }) ⟨["obs"], 0, .none⟩ = .ok [[1, 2]] := by
  refine ⟨?_, ?_, ?_, ?_⟩ <;> decide +kernel

/-- non-vacuity of `C14_extra_getScores_partial` / `C14_extra_score`: both runs construct, the arrays are well formed,
and the answers are (obs − k, fcst − k) and (obs, fcst) over the same two cases; with the incomplete climatology
over the same single case -/
example : ([wA] ++ [wK2]).all wfInput = true
    ∧ runOn [wA] { clim := some wK2 } ⟨["obs", "fcst"], 0, .none⟩ = .ok [[-3, 1], [-1, 4]]
    ∧ runOn ([wA] ++ [wK2]) (noClim { clim := some wK2 }) ⟨["obs", "fcst"], 0, .none⟩ = .ok [[1, 2], [3, 5]]
    ∧ runOn [wA] { clim := some wK } ⟨["obs", "fcst"], 0, .none⟩ = .ok [[1], [4]]
    ∧ runOn ([wA] ++ [wK]) (noClim { clim := some wK }) ⟨["obs", "fcst"], 0, .none⟩ = .ok [[2], [5]] := by
  refine ⟨?_, ?_, ?_, ?_, ?_⟩ <;> decide +kernel

/-- non-vacuity of `C14_divide_zero_dropped`: a zero climatology value at the first case -/
example : climAt [wA, ⟨[0], [0], wLocs, [("fcst", [[[0, 1]]])]⟩] ⟨[0], [0], wLocs, [("fcst", [[[0, 1]]])]⟩ (0, 0, 1) = fin 0 := by
  decide +kernel

/-- non-vacuity of `ShiftInvariant`: MAE of (obs − k, fcst − k) and of (obs, fcst) on the example -/
example (T : Tr) : Gen.Det.m_mae T Vec.mean (Vec.ofRats (List.zipWith (· - ·) [1, 2] [4, 1]))
      (Vec.ofRats (List.zipWith (· - ·) [3, 5] [4, 1]))
    = Gen.Det.m_mae T Vec.mean (Vec.ofRats [1, 2]) (Vec.ofRats [3, 5]) :=
  (C14_shiftInvariant_metrics T Vec.mean).1 _ _ _ rfl rfl
end Witness

end VerifModel.C14
