import Proofs.C05
import VerifModel.Spec.Cond
import VerifModel.Driver.Multi
/-
  C05 — the conditional classes of verif/metric.py (Conditional, XConditional, Count) and FromField with a
  value field other than obs / fcst and an `aux` field: model = the documented statistic of the cases
  that qualify.  The kernels are the ones the streams `metric.multi` (Driver/Multi.lean: conditionalK,
  xconditionalK, countK) and `metric.single.aux` (Model/DetSingle.lean: fromFieldAuxSingle) execute.
-/
namespace VerifModel.C05
open VerifModel XR Driver.Multi

theorem zip_self_filter (P : XR → Bool) (xs : Vec) :
    ((List.zip xs xs).filter fun p => P p.1).map (·.2) = List.filter P xs := by
  induction xs with
  | nil => rfl
  | cons x xs ih =>
    simp only [List.zip_cons_cons, List.filter_cons]
    by_cases h : P x = true <;> simp [h, ih]

theorem selectWithin_self (I : Interval) (xs : Vec) :
    selectWithin I xs xs = Spec.Cond.valuesIn I xs := by
  rw [C05_selectWithin]
  exact zip_self_filter (fun x => decide (I.within x = some true)) xs

/-- **Conditional** = the average y over the cases whose x lies in the range; NaN when there is none. -/
theorem C05_conditional_def (I : Interval) (xs ys : Vec) :
    conditionalK I xs ys = Spec.Cond.condMean I xs ys := by
  unfold conditionalK Spec.Cond.condMean Spec.Cond.casesIn
  rw [C05_selectWithin]
  simp only [List.isEmpty_iff, List.map_eq_nil_iff]

/-- **XConditional** = the statistic (median) of the x values that lie in the range; NaN when none. -/
theorem C05_xconditional_def (stat : Vec → XR) (I : Interval) (xs : Vec) :
    xconditionalK stat I xs = Spec.Cond.xcond stat I xs := by
  unfold xconditionalK Spec.Cond.xcond
  rw [selectWithin_self]

/-- **Count** = the number of values in the range; NaN when none. -/
theorem C05_count_def (I : Interval) (xs : Vec) :
    countK I xs = Spec.Cond.countIn I xs := by
  unfold countK Spec.Cond.countIn
  rw [selectWithin_self]
  simp only [List.isEmpty_iff, List.length_eq_zero_iff]

/-- **FromField(field, aux), no subsetting axis**: the aggregate of the values of the cases at which
both the value field and the aux field are present (`getCols` = the rows valid in every column). -/
theorem C05_fromfield_aux (agg : Vec → XR) (r : Bool) (I : Interval) (vals aux v u : Vec)
    (h : getCols [vals, aux] = [v, u]) :
    fromFieldAuxSingle agg r I vals none (some aux) = (if v.isEmpty && r then nan else agg v) := by
  simp [fromFieldAuxSingle, h]

/-- **FromField(field, aux) under `-x obs` / `-x fcst`**: the aggregate of the values of the cases at
which value field, axis field and aux field are all present and the AXIS value lies in the interval. -/
theorem C05_fromfield_aux_by_axis (agg : Vec → XR) (r : Bool) (I : Interval) (vals ax aux v a u : Vec)
    (h : getCols [vals, ax, aux] = [v, a, u]) :
    fromFieldAuxSingle agg r I vals (some ax) (some aux)
      = (let sel := ((List.zip a v).filter fun p => I.within p.1 = some true).map (·.2)
         if sel.isEmpty && r then nan else agg sel) := by
  have h' : getCols ([vals] ++ (some ax).toList ++ (some aux).toList) = [v, a, u] := h
  unfold fromFieldAuxSingle
  simp only [h', List.headD_cons, List.getD_cons_succ, List.getD_cons_zero]
  rw [C05_selectWithin]

/-- non-vacuity: x = obs in [1, 3]: cases (1, 10) and (3, 30) qualify (2.. the NaN does not): mean y = 20,
median x = 2, count 2; an empty range gives NaN for all three -/
example :
    conditionalK ⟨fin 1, fin 3, true, true⟩ [fin 1, fin 5, nan, fin 3] [fin 10, fin 7, fin 8, fin 30] = fin 20
    ∧ countK ⟨fin 1, fin 3, true, true⟩ [fin 1, fin 5, nan, fin 3] = fin 2
    ∧ countK ⟨fin 8, fin 9, true, true⟩ [fin 1, fin 5, nan, fin 3] = nan
    ∧ conditionalK ⟨fin 8, fin 9, true, true⟩ [fin 1, fin 5] [fin 10, fin 7] = nan := by
  decide +kernel

/-- non-vacuity of the `getCols` hypotheses: the case with a missing aux value is dropped, then the
forecast (axis) selects -/
example :
    getCols [[fin 1, fin 2, fin 3], [fin 0, fin 5, fin 1], [fin 7, nan, fin 7]]
      = [[fin 1, fin 3], [fin 0, fin 1], [fin 7, fin 7]]
    ∧ fromFieldAuxSingle Vec.sum false ⟨fin 1, fin 9, true, true⟩ [fin 1, fin 2, fin 3]
        (some [fin 0, fin 5, fin 1]) (some [fin 7, nan, fin 7]) = fin 3 := by
  decide +kernel

end VerifModel.C05
