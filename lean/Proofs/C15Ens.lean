import VerifModel.Model.Preagg
import VerifModel.Model.PreaggHist
/-
  C15: the fields that `Data._get_score` DERIVES from the ensemble when -T is on (data.py 512-527, 536-543):

      temp = preaggregate(input.ensemble)                     # window aggregate of every member
      p@t  = nanmean(temp <= t, axis = members)               Preagg.probLE
      q@q  = np.quantile(temp, q, axis = members, method = "normal_unbiased")      Prob.ensQuantile (C08, repair 3ab2f86)

  i.e. the composition  derive ∘ (window aggregate of the members) — the derivation never sees the raw members, and
  a stored column is not read.
-/
namespace VerifModel.C15Ens
open VerifModel Preagg

/-- the derived column, cell by cell: position (t, l, x) of `deriveArr g ms` is `g` of the members' values at that
position (inside the shape of the first member) -/
theorem C15_ens_cell (g : Vec → XR) (m0 : Arr3) (rest : List Arr3) (t l x : Nat)
    (ht : t < m0.length) (hl : l < (m0.getD t []).length) (hx : x < ((m0.getD t []).getD l []).length) :
    (PreaggHist.deriveArr g (m0 :: rest)).get t l x = g ((m0 :: rest).map fun m => m.get t l x) := by
  have e1 : m0.getD t [] = m0[t] := by simp [List.getD, ht]
  rw [e1] at hl hx
  have e2 : (m0[t]).getD l [] = m0[t][l] := by simp [List.getD, hl]
  rw [e2] at hx
  simp [PreaggHist.deriveArr, Arr3.get, List.getD, ht, hl, hx]

/-- **Ensemble-derived fields under -T** (single input, `Preagg.dataScore`, stream agg.data).
The threshold field is `probLE · thr` and the quantile field is `Prob.ensQuantile q`, applied to the member chunks of
the PRE-AGGREGATED 4-D ensemble (pre-aggregated over the input's full series), and only then cut to the selected
times / lead times.  PARTIAL: this is the composition at array level; the full statement — every cell equals the
derivation applied to `f (Stats.window …)` of each member's own series through that cell — additionally needs the
cell-wise reading of `preaggArr` on a 4-D array (C15_window gives it for vectors, C15_multi_field for 3-D fields of
`preaggInput`, which is the form `PreaggHist.tInput` + `C15_ens_cell` uses). -/
theorem C15_ens_fields_partial (f : Vec → Option XR) (scale : XR) (k : Nat) (h : XR)
    (times leads : List XR) (obs fcst ens : Arr) (selT selL : Option (List XR)) (thr : XR) (q : Rat) :
    let coords := if k = 0 then times else leads
    let cut := fun (a : Arr) => (takeAxis a 0 (commonIdx times selT)).bind fun a => takeAxis a 1 (commonIdx leads selL)
    let cells := Arr.prod obs.dims
    let m := (ens.dims[3]?).getD 0
    dataScore f scale k h times leads obs fcst ens (.threshold thr) selT selL =
      some ((preaggArr f scale h coords k ens).bind fun a =>
        cut ⟨obs.dims, (chunks m a.data cells).map fun c => probLE c thr⟩) ∧
    dataScore f scale k h times leads obs fcst ens (.quantile q) selT selL =
      some ((preaggArr f scale h coords k ens).bind fun a =>
        ((chunks m a.data cells).mapM fun c => Prob.ensQuantile q c).bind fun d => cut ⟨obs.dims, d⟩) :=
  ⟨rfl, rfl⟩

/-- no field is UNMODELLED any more: `dataScore` answers every field selector -/
theorem C15_ens_fields_modelled (f : Vec → Option XR) (scale : XR) (k : Nat) (h : XR)
    (times leads : List XR) (obs fcst ens : Arr) (selT selL : Option (List XR)) (fld : FieldSel) :
    (dataScore f scale k h times leads obs fcst ens fld selT selL).isSome = true := by
  cases fld <;> rfl

/-- non-vacuity: two lead times, two members, sum over a window that covers both lead times: the members become
(1, 1+3) and (2, 2+6); P(member ≤ 3) = (1, 0); the median = (3/2, 6) -/
example :
    dataScore (Agg.apply ⟨id, id, id, id⟩ .sum) (.fin 1) 1 (.fin 5) [.fin 0] [.fin 0, .fin 1]
      ⟨[1, 2, 1], [.fin 0, .fin 0]⟩ ⟨[1, 2, 1], [.fin 0, .fin 0]⟩ ⟨[1, 2, 1, 2], [.fin 1, .fin 2, .fin 3, .fin 6]⟩
      (.threshold (.fin 3)) none none = some (some ⟨[1, 2, 1], [.fin 1, .fin 0]⟩)
    ∧ dataScore (Agg.apply ⟨id, id, id, id⟩ .sum) (.fin 1) 1 (.fin 5) [.fin 0] [.fin 0, .fin 1]
      ⟨[1, 2, 1], [.fin 0, .fin 0]⟩ ⟨[1, 2, 1], [.fin 0, .fin 0]⟩ ⟨[1, 2, 1, 2], [.fin 1, .fin 2, .fin 3, .fin 6]⟩
      (.quantile (1/2)) none none = some (some ⟨[1, 2, 1], [.fin (3/2), .fin 6]⟩) := by
  constructor <;> decide +kernel

end VerifModel.C15Ens
