import VerifModel.Model.Axis
import VerifModel.Spec.Slicing
import VerifModel.Spec.Calendar
import VerifModel.Spec.LeadTime
import Proofs.C11Calendar
import Mathlib.Tactic.Ring
import Mathlib.Tactic.FieldSimp
import Mathlib.Tactic.Linarith
import Mathlib.Data.Rat.Cast.Order
import Mathlib.Data.Rat.Floor
/-
  C11 — Slicing along -x partitions the cases using correct calendar buckets.
  Property theorems only (helper lemmas are private).  The closed calendar facts decided by
  the kernel live in `Proofs/C11Calendar.lean`.
-/
namespace VerifModel.C11
open VerifModel VerifModel.Axis VerifModel.Calendar VerifModel.Spec.Slicing

/-! ## 1. Slices are a partition (any bucket function, any list of cases) -/

section generic
variable {α : Type} {β : Type} [DecidableEq β]

private theorem filter_append_perm (p q : α → Bool) (l : List α)
    (hdisj : ∀ a ∈ l, ¬(p a = true ∧ q a = true)) :
    (l.filter p ++ l.filter q).Perm (l.filter fun a => p a || q a) := by
  induction l with
  | nil => simp
  | cons a l ih =>
    have ih' := ih (fun b hb => hdisj b (List.mem_cons_of_mem _ hb))
    have ha := hdisj a (List.mem_cons_self ..)
    cases hp : p a <;> cases hq : q a
    · simpa [List.filter_cons, hp, hq] using ih'
    · simp only [List.filter_cons, hp, hq, Bool.false_eq_true, if_false, if_true, Bool.or_true]
      exact List.perm_middle.trans (List.Perm.cons a ih')
    · simp only [List.filter_cons, hp, hq, Bool.false_eq_true, if_false, if_true, Bool.or_false,
        List.cons_append]
      exact List.Perm.cons a ih'
    · exact absurd ⟨hp, hq⟩ ha

private theorem flatten_slices_perm (key : α → β) (labels : List β) (hnd : labels.Nodup)
    (l : List α) :
    (slicesBy key labels l).flatten.Perm (l.filter fun c => decide (key c ∈ labels)) := by
  induction labels with
  | nil => simp [slicesBy]
  | cons u us ih =>
    have hu : u ∉ us := (List.nodup_cons.mp hnd).1
    have ih' := ih (List.nodup_cons.mp hnd).2
    simp only [slicesBy, List.map_cons, List.flatten_cons] at ih' ⊢
    refine (List.Perm.append_left _ ih').trans ?_
    have := filter_append_perm (fun c => decide (key c = u)) (fun c => decide (key c ∈ us)) l
      (by
        intro a _ h
        simp only [decide_eq_true_eq] at h
        exact hu (h.1 ▸ h.2))
    simp only [sliceOf]
    refine this.trans ?_
    have e : (fun c => decide (key c = u) || decide (key c ∈ us)) =
        fun c => decide (key c ∈ u :: us) := by
      funext c; simp [List.mem_cons]
    rw [e]

/-- **Partition.**  For any bucket function `key`, any validity predicate and any list of cases:
if the slice labels are pairwise distinct and every case's bucket is among them (as is the case for
the sorted, de-duplicated `np.unique` of the buckets, see `C11_partition_unique`), then the slices
of the valid cases, put together, are a permutation of the pooled valid cases: every valid case
occurs in the slices exactly as often as in the pooled data (once), nothing else occurs. -/
theorem C11_partition (key : α → β) (valid : α → Bool) (labels : List β) (cases : List α)
    (hnd : labels.Nodup) (hcov : ∀ c ∈ cases, key c ∈ labels) :
    IsPartition (slicesBy key labels (cases.filter valid)) (cases.filter valid) := by
  unfold IsPartition
  refine (flatten_slices_perm key labels hnd _).trans ?_
  rw [List.filter_eq_self.mpr]
  intro c hc
  simp [hcov c (List.mem_filter.mp hc).1]

example : IsPartition (slicesBy (fun c : Nat => c % 3) [0, 1, 2] ([4, 9, 2, 7, 3].filter (· ≠ 9)))
    ([4, 9, 2, 7, 3].filter (· ≠ 9)) :=
  C11_partition _ _ _ _ (by decide) (by decide)

/-- **Exactly one slice.**  A case belongs to the slice labelled `u` iff its bucket is `u`, and
exactly one label equals its bucket. -/
theorem C11_exactly_one (key : α → β) (labels : List β) (cases : List α)
    (hnd : labels.Nodup) (hcov : ∀ c ∈ cases, key c ∈ labels) (c : α) (hc : c ∈ cases) :
    (∀ u, c ∈ sliceOf key cases u ↔ key c = u) ∧ labels.count (key c) = 1 := by
  refine ⟨fun u => ?_, by rw [hnd.count]; simp [hcov c hc]⟩
  simp [sliceOf, hc]

example : ([0, 1, 2] : List Nat).count ((fun c : Nat => c % 3) 7) = 1 :=
  (C11_exactly_one (fun c : Nat => c % 3) [0, 1, 2] [4, 9, 2, 7, 3] (by decide) (by decide) 7
    (by decide)).2

/-- **Counts.**  The slice counts add up to the pooled count. -/
theorem C11_counts (key : α → β) (valid : α → Bool) (labels : List β) (cases : List α)
    (hnd : labels.Nodup) (hcov : ∀ c ∈ cases, key c ∈ labels) :
    ((slicesBy key labels (cases.filter valid)).map List.length).sum =
      (cases.filter valid).length := by
  have h := (C11_partition key valid labels cases hnd hcov).length_eq
  rwa [List.length_flatten] at h

example : ((slicesBy (fun c : Nat => c % 3) [0, 1, 2] [4, 9, 2, 7, 3]).map List.length).sum = 5 :=
  C11_counts (fun c : Nat => c % 3) (fun _ => true) [0, 1, 2] [4, 9, 2, 7, 3] (by decide) (by decide)

private theorem perm_sum_map (f : α → Rat) {l₁ l₂ : List α} (h : l₁.Perm l₂) :
    (l₁.map f).sum = (l₂.map f).sum := by
  induction h with
  | nil => rfl
  | cons a _ ih => simp [ih]
  | swap a b l => simp only [List.map_cons, List.sum_cons]; ring
  | trans _ _ ih1 ih2 => exact ih1.trans ih2

private theorem sum_map_flatten (f : α → Rat) (ls : List (List α)) :
    (ls.flatten.map f).sum = (ls.map fun s => (s.map f).sum).sum := by
  induction ls with
  | nil => rfl
  | cons s ls ih =>
    simp only [List.flatten_cons, List.map_append, List.sum_append, List.map_cons, List.sum_cons, ih]

/-- **Weighted mean, sum form.**  For any per-case quantity `f` (absolute error, error, squared
error, obs, fcst, Brier term, …) the pooled sum is the sum of the slice sums — i.e. Σ nₖ·meanₖ
= n·mean without any division. -/
theorem C11_weighted_sum (key : α → β) (valid : α → Bool) (labels : List β) (cases : List α)
    (hnd : labels.Nodup) (hcov : ∀ c ∈ cases, key c ∈ labels) (f : α → Rat) :
    ((slicesBy key labels (cases.filter valid)).map fun s => (s.map f).sum).sum =
      ((cases.filter valid).map f).sum := by
  rw [← sum_map_flatten]
  exact perm_sum_map f (C11_partition key valid labels cases hnd hcov)

/-- mean of a list of rationals; only used for non-empty lists below -/
def mean (xs : List Rat) : Rat := xs.sum / xs.length

private theorem weighted_aux (f : α → Rat) (ls : List (List α)) (hne : ∀ s ∈ ls, s ≠ []) :
    (ls.map fun s => (s.length : Rat) * mean (s.map f)).sum = (ls.map fun s => (s.map f).sum).sum := by
  induction ls with
  | nil => rfl
  | cons s ls ih =>
    have hs : (s.length : Rat) ≠ 0 := by
      have : s ≠ [] := hne s (List.mem_cons_self ..)
      have : 0 < s.length := List.length_pos_iff.mpr this
      exact_mod_cast this.ne'
    simp only [List.map_cons, List.sum_cons, ih (fun t ht => hne t (List.mem_cons_of_mem _ ht))]
    congr 1
    simp only [mean, List.length_map]
    field_simp

/-- **Weighted mean.**  If no slice is empty (and so the pooled data is not empty unless there is
no slice at all; we ask for pooled ≠ [] explicitly), the mean-aggregated score of the pooled valid
cases equals the count-weighted mean of the slice scores:
`mean pooled = (Σₖ nₖ · meanₖ) / Σₖ nₖ`. -/
theorem C11_weighted_mean (key : α → β) (valid : α → Bool) (labels : List β) (cases : List α)
    (hnd : labels.Nodup) (hcov : ∀ c ∈ cases, key c ∈ labels) (f : α → Rat)
    (hne : ∀ s ∈ slicesBy key labels (cases.filter valid), s ≠ []) :
    mean ((cases.filter valid).map f) =
      ((slicesBy key labels (cases.filter valid)).map fun s =>
          (s.length : Rat) * mean (s.map f)).sum /
        (((slicesBy key labels (cases.filter valid)).map List.length).sum : Nat) := by
  rw [weighted_aux f _ hne, C11_weighted_sum key valid labels cases hnd hcov f,
    C11_counts key valid labels cases hnd hcov]
  simp [mean]

example : mean (([1, 2, 3, 4] : List Nat).map fun c => (c : Rat)) =
    ((slicesBy (fun c : Nat => c % 2) [0, 1] [1, 2, 3, 4]).map fun s =>
      (s.length : Rat) * mean (s.map fun c => (c : Rat))).sum /
      (((slicesBy (fun c : Nat => c % 2) [0, 1] [1, 2, 3, 4]).map List.length).sum : Nat) :=
  C11_weighted_mean (fun c : Nat => c % 2) (fun _ => true) [0, 1] [1, 2, 3, 4] (by decide)
    (by decide) _ (by decide)

private theorem sum_filter_nonempty (g : List α → Rat) (hg : g [] = 0) (ls : List (List α)) :
    ((ls.filter fun s => !s.isEmpty).map g).sum = (ls.map g).sum := by
  induction ls with
  | nil => rfl
  | cons s ls ih =>
    cases s with
    | nil => simp [hg, ih]
    | cons a s => simp [ih]

private theorem length_filter_nonempty (ls : List (List α)) :
    ((ls.filter fun s => !s.isEmpty).map List.length).sum = (ls.map List.length).sum := by
  induction ls with
  | nil => rfl
  | cons s ls ih =>
    cases s with
    | nil => simp [ih]
    | cons a s => simp [ih]

/-- **Weighted mean, empty slices skipped.**  Without any hypothesis on the slices: slices whose
cases are all invalid have no score (verif returns NaN for them) and weight 0; the count-weighted
mean over the non-empty slices is the pooled mean whenever there is a valid case at all. -/
theorem C11_weighted_mean_nonempty (key : α → β) (valid : α → Bool) (labels : List β)
    (cases : List α) (hnd : labels.Nodup) (hcov : ∀ c ∈ cases, key c ∈ labels) (f : α → Rat) :
    let ne := (slicesBy key labels (cases.filter valid)).filter fun s => !s.isEmpty
    mean ((cases.filter valid).map f) =
      (ne.map fun s => (s.length : Rat) * mean (s.map f)).sum / ((ne.map List.length).sum : Nat) := by
  intro ne
  have h1 : (ne.map fun s => (s.length : Rat) * mean (s.map f)).sum =
      (ne.map fun s => (s.map f).sum).sum := by
    apply weighted_aux
    intro s hs
    have := (List.mem_filter.mp hs).2
    intro h; simp [h] at this
  have h2 : (ne.map fun s => (s.map f).sum).sum =
      ((slicesBy key labels (cases.filter valid)).map fun s => (s.map f).sum).sum :=
    sum_filter_nonempty (fun s => (s.map f).sum) (by simp) _
  rw [h1, h2, C11_weighted_sum key valid labels cases hnd hcov f, length_filter_nonempty,
    C11_counts key valid labels cases hnd hcov]
  simp [mean]

end generic

/-! ## 2. `np.unique` supplies admissible labels -/

private theorem mem_insertU (x a : Rat) (l : List Rat) : a ∈ insertU x l ↔ a = x ∨ a ∈ l := by
  induction l with
  | nil => simp [insertU]
  | cons y ys ih =>
    unfold insertU
    split
    · simp
    · split
      · rename_i h; subst h; simp
      · simp only [List.mem_cons, ih]
        constructor
        · rintro (h | h | h) <;> simp [h]
        · rintro (h | h | h) <;> simp [h]

private theorem sorted_insertU (x : Rat) (l : List Rat) (h : l.Pairwise (· < ·)) :
    (insertU x l).Pairwise (· < ·) := by
  induction l with
  | nil => simp [insertU]
  | cons y ys ih =>
    have hy := List.pairwise_cons.mp h
    unfold insertU
    split
    · rename_i hxy
      refine List.pairwise_cons.mpr ⟨?_, h⟩
      intro b hb
      rcases List.mem_cons.mp hb with hb | hb
      · subst hb; exact hxy
      · exact lt_trans hxy (hy.1 b hb)
    · split
      · exact h
      · rename_i h1 h2
        refine List.pairwise_cons.mpr ⟨?_, ih hy.2⟩
        intro b hb
        rcases (mem_insertU x b ys).mp hb with hb | hb
        · subst hb
          exact lt_of_le_of_ne (not_lt.mp h1) (Ne.symm h2)
        · exact hy.1 b hb

theorem mem_unique (a : Rat) (l : List Rat) : a ∈ unique l ↔ a ∈ l := by
  induction l with
  | nil => simp [unique]
  | cons x xs ih =>
    have : unique (x :: xs) = insertU x (unique xs) := rfl
    rw [this, mem_insertU, ih, List.mem_cons]

/-- the model of `np.unique` returns a strictly increasing list … -/
theorem sorted_unique (l : List Rat) : (unique l).Pairwise (· < ·) := by
  induction l with
  | nil => simp [unique]
  | cons x xs ih => exact sorted_insertU x _ ih

/-- … hence without repetitions -/
theorem nodup_unique (l : List Rat) : (unique l).Nodup :=
  (sorted_unique l).imp (fun h => ne_of_lt h)

/-- **Partition, as verif labels the slices**: the labels are `np.unique` of the bucket values
(sorted, de-duplicated); the slices of these labels partition the valid cases. -/
theorem C11_partition_unique {α : Type} (key : α → Rat) (valid : α → Bool) (cases : List α) :
    IsPartition (slicesBy key (unique (cases.map key)) (cases.filter valid)) (cases.filter valid) ∧
      (unique (cases.map key)).Pairwise (· < ·) :=
  ⟨C11_partition key valid _ cases (nodup_unique _)
    (fun _ hc => (mem_unique _ _).mpr (List.mem_map_of_mem hc)), sorted_unique _⟩

/-! ## 3. The model of `get_axis_values` / `_apply_axis` / `get_scores` partitions, for every axis -/

private theorem map_range_getElem? {γ δ : Type} (l : List γ) (g : Nat → δ) (f : γ → δ)
    (h : ∀ a u, l[a]? = some u → g a = f u) : (List.range l.length).map g = l.map f := by
  induction l generalizing g with
  | nil => rfl
  | cons x xs ih =>
    rw [List.length_cons, List.range_succ_eq_map, List.map_cons, List.map_map, List.map_cons]
    congr 1
    · exact h 0 x rfl
    · exact ih (g ∘ Nat.succ) (fun a u hu => h (a + 1) u (by simpa using hu))

private theorem block_fst (p : Nat → Bool) (i : Nat) (J K : List Nat) :
    ((J.flatMap fun j => K.map fun k => ((i, j, k) : Case)).filter fun c => p c.1) =
      if p i = true then (J.flatMap fun j => K.map fun k => ((i, j, k) : Case)) else [] := by
  split
  · rename_i hp
    apply List.filter_eq_self.mpr
    intro c hc
    simp only [List.mem_flatMap, List.mem_map] at hc
    obtain ⟨j, _, k, _, rfl⟩ := hc
    exact hp
  · rename_i hp
    apply List.filter_eq_nil_iff.mpr
    intro c hc
    simp only [List.mem_flatMap, List.mem_map] at hc
    obtain ⟨j, _, k, _, rfl⟩ := hc
    exact hp

private theorem cases3_filter_fst (p : Nat → Bool) (I J K : List Nat) :
    cases3 (I.filter p) J K = (cases3 I J K).filter fun c => p c.1 := by
  induction I with
  | nil => rfl
  | cons i I ih =>
    unfold cases3 at ih ⊢
    rw [List.flatMap_cons, List.filter_append, block_fst, ← ih]
    by_cases hp : p i = true
    · rw [List.filter_cons_of_pos hp, List.flatMap_cons, if_pos hp]
    · rw [List.filter_cons_of_neg hp, if_neg hp, List.nil_append]

private theorem cases3_filter_snd (p : Nat → Bool) (I J K : List Nat) :
    cases3 I (J.filter p) K = (cases3 I J K).filter fun c => p c.2.1 := by
  simp only [cases3, List.filter_flatMap]
  congr 1
  funext i
  induction J with
  | nil => rfl
  | cons j J ih =>
    by_cases hp : p j = true
    · simp only [List.filter_cons, hp, if_true, List.flatMap_cons, ih]
      congr 1
      rw [List.filter_eq_self.mpr]
      intro c hc
      simp only [List.mem_map] at hc
      obtain ⟨k, _, rfl⟩ := hc
      exact hp
    · simp only [List.filter_cons, hp, Bool.false_eq_true, if_false, List.flatMap_cons, ih]
      rw [List.filter_eq_nil_iff.mpr, List.nil_append]
      intro c hc
      simp only [List.mem_map] at hc
      obtain ⟨k, _, rfl⟩ := hc
      exact hp

private theorem cases3_filter_trd (p : Nat → Bool) (I J K : List Nat) :
    cases3 I J (K.filter p) = (cases3 I J K).filter fun c => p c.2.2 := by
  simp only [cases3, List.filter_flatMap]
  congr 1
  funext i
  congr 1
  funext j
  rw [List.filter_map]
  rfl

private theorem range_filter_eq (n a : Nat) (h : a < n) :
    (List.range n).filter (fun i => decide (i = a)) = [a] := by
  induction n with
  | zero => omega
  | succ n ih =>
    rw [List.range_succ, List.filter_append]
    by_cases ha : a = n
    · subst ha
      rw [List.filter_eq_nil_iff.mpr]
      · simp
      · intro i hi
        have := List.mem_range.mp hi
        simp; omega
    · rw [ih (by omega)]
      simp [Ne.symm ha]

private theorem mem_cases3 (I J K : List Nat) (c : Case) :
    c ∈ cases3 I J K ↔ c.1 ∈ I ∧ c.2.1 ∈ J ∧ c.2.2 ∈ K := by
  obtain ⟨i, j, k⟩ := c
  simp only [cases3, List.mem_flatMap, List.mem_map, Prod.mk.injEq]
  constructor
  · rintro ⟨i', hi, j', hj, k', hk, rfl, rfl, rfl⟩; exact ⟨hi, hj, hk⟩
  · rintro ⟨hi, hj, hk⟩; exact ⟨i, hi, j, hj, k, hk, rfl, rfl, rfl⟩

private theorem model_perm {β : Type} [DecidableEq β] (D : Dims) (valid : Case → Bool)
    (labels : List β) (key : Case → β) (hnd : labels.Nodup)
    (hcov : ∀ c ∈ D.allCases, key c ∈ labels) (raw : Nat → List Case)
    (hraw : ∀ a u, labels[a]? = some u →
      raw a = D.allCases.filter fun c => decide (key c = u)) :
    ((List.range labels.length).map fun a => (raw a).filter valid).flatten.Perm
      (D.allCases.filter valid) := by
  have e : ((List.range labels.length).map fun a => (raw a).filter valid) =
      slicesBy key labels (D.allCases.filter valid) := by
    rw [slicesBy]
    apply map_range_getElem?
    intro a u hu
    rw [hraw a u hu, sliceOf, List.filter_filter, List.filter_filter]
    congr 1
    funext c
    exact Bool.and_comm _ _
  rw [e]
  exact C11_partition key valid labels D.allCases hnd hcov

private theorem getElem?_mem_unique (vals : List Rat) (i : Nat) (h : i < vals.length) :
    ∃ v, vals[i]? = some v ∧ v ∈ unique vals :=
  ⟨vals[i], List.getElem?_eq_getElem h, (mem_unique _ _).mpr (List.getElem_mem h)⟩

private theorem nodup_map_some {γ : Type} (l : List γ) (h : l.Nodup) : (l.map some).Nodup :=
  List.pairwise_map.mpr (h.imp fun hne e => hne (Option.some.inj e))

/-- **The model partitions, for all 19 axes.**  For every axis kind, every verified dimension set
and every validity mask, the slices `get_scores(…, axis, a)`, `a < get_axis_size(axis)`, as the model
of `_apply_axis` computes them, are together a permutation of the pooled valid cases (`-x no`). -/
theorem C11_model_partition (k : Kind) (D : Dims) (valid : Case → Bool) :
    (slices k D valid).flatten.Perm (pooled D valid) := by
  unfold slices pooled
  have hslice : slice k D valid = fun a => (sliceRaw k D a).filter valid := rfl
  rw [hslice]
  cases hs : k.shape with
  | byTime =>
    have hl : (axisValues k D).length = (List.range D.times.length).length := by
      simp [axisValues, hs]
    rw [hl]
    refine model_perm D valid (List.range D.times.length) (fun c => c.1) List.nodup_range ?_ _ ?_
    · intro c hc
      exact ((mem_cases3 _ _ _ c).mp hc).1
    · intro a u hu
      obtain ⟨ha, rfl⟩ : a < D.times.length ∧ a = u := by
        rw [List.getElem?_eq_some_iff] at hu
        obtain ⟨h1, h2⟩ := hu
        simp at h1 h2
        exact ⟨h1, h2⟩
      simp only [sliceRaw, hs, ha, if_true, Dims.allCases]
      rw [← range_filter_eq _ _ ha, cases3_filter_fst]
  | timeBucket f =>
    have hl : (axisValues k D).length = ((unique (D.times.map f)).map some).length := by
      simp [axisValues, hs]
    rw [hl]
    refine model_perm D valid _ (fun c => (D.times.map f)[c.1]?)
      (nodup_map_some _ (nodup_unique _)) ?_ _ ?_
    · intro c hc
      have hc1 := List.mem_range.mp ((mem_cases3 _ _ _ c).mp hc).1
      obtain ⟨v, hv, hm⟩ := getElem?_mem_unique (D.times.map f) c.1 (by simpa using hc1)
      simp only [hv]
      exact List.mem_map_of_mem hm
    · intro a ou hu
      rw [List.getElem?_map] at hu
      cases hua : (unique (D.times.map f))[a]? with
      | none => simp [hua] at hu
      | some u =>
        simp only [hua, Option.map_some, Option.some.injEq] at hu
        subst hu
        simp only [sliceRaw, hs, hua, Dims.allCases, whereEq, List.length_map]
        rw [cases3_filter_fst]
        congr 1
        funext c
        simp [beq_eq_decide]
  | leadBucket g =>
    have hl : (axisValues k D).length = ((unique (D.leadtimes.map g)).map some).length := by
      simp [axisValues, hs]
    rw [hl]
    refine model_perm D valid _ (fun c => (D.leadtimes.map g)[c.2.1]?)
      (nodup_map_some _ (nodup_unique _)) ?_ _ ?_
    · intro c hc
      have hc1 := List.mem_range.mp ((mem_cases3 _ _ _ c).mp hc).2.1
      obtain ⟨v, hv, hm⟩ := getElem?_mem_unique (D.leadtimes.map g) c.2.1 (by simpa using hc1)
      simp only [hv]
      exact List.mem_map_of_mem hm
    · intro a ou hu
      rw [List.getElem?_map] at hu
      cases hua : (unique (D.leadtimes.map g))[a]? with
      | none => simp [hua] at hu
      | some u =>
        simp only [hua, Option.map_some, Option.some.injEq] at hu
        subst hu
        simp only [sliceRaw, hs, hua, Dims.allCases, whereEq, List.length_map]
        rw [cases3_filter_snd]
        congr 1
        funext c
        simp [beq_eq_decide]
  | byLocation field =>
    have hl : (axisValues k D).length = (List.range D.locs.length).length := by
      simp [axisValues, hs]
    rw [hl]
    refine model_perm D valid (List.range D.locs.length) (fun c => c.2.2) List.nodup_range ?_ _ ?_
    · intro c hc
      exact ((mem_cases3 _ _ _ c).mp hc).2.2
    · intro a u hu
      obtain ⟨ha, rfl⟩ : a < D.locs.length ∧ a = u := by
        rw [List.getElem?_eq_some_iff] at hu
        obtain ⟨h1, h2⟩ := hu
        simp at h1 h2
        exact ⟨h1, h2⟩
      simp only [sliceRaw, hs, ha, if_true, Dims.allCases]
      rw [← range_filter_eq _ _ ha, cases3_filter_trd]
  | pooledAll =>
    simp [axisValues, sliceRaw, hs, Dims.allCases]

example : (slices .month ⟨[946684800, 951696000, 951800400], [0, 24], [⟨3, 61, 10, 5⟩]⟩
    (fun c => c.1 != 1 || c.2.1 != 0)).length = 2 := by decide +kernel

/-- **Counts, model.**  For every axis the slice counts add up to the pooled count. -/
theorem C11_model_counts (k : Kind) (D : Dims) (valid : Case → Bool) :
    ((slices k D valid).map List.length).sum = (pooled D valid).length := by
  have h := (C11_model_partition k D valid).length_eq
  rwa [List.length_flatten] at h

/-- **Weighted mean, model.**  For every axis and per-case quantity the pooled sum is the sum of
the slice sums (Σ nₖ·meanₖ = n·mean). -/
theorem C11_model_weighted_sum (k : Kind) (D : Dims) (valid : Case → Bool) (f : Case → Rat) :
    ((slices k D valid).map fun s => (s.map f).sum).sum = ((pooled D valid).map f).sum := by
  rw [← sum_map_flatten]
  exact perm_sum_map f (C11_model_partition k D valid)

/-- **Location-like axes**: one slice per verified location, labelled by its id / latitude /
longitude / elevation; slice `a` holds exactly the valid cases of location `a`. -/
theorem C11_location_axes (D : Dims) (valid : Case → Bool) :
    axisValues .location D = D.locs.map (·.id) ∧ axisValues .lat D = D.locs.map (·.lat) ∧
    axisValues .lon D = D.locs.map (·.lon) ∧ axisValues .elev D = D.locs.map (·.elev) ∧
    ∀ k ∈ [Kind.location, .lat, .lon, .elev], ∀ a, a < D.locs.length →
      slice k D valid a = (pooled D valid).filter fun c => decide (c.2.2 = a) := by
  refine ⟨rfl, rfl, rfl, rfl, ?_⟩
  intro k hk a ha
  have hs : ∃ field, k.shape = .byLocation field := by
    simp only [List.mem_cons, List.mem_nil_iff, or_false] at hk
    rcases hk with rfl | rfl | rfl | rfl <;> exact ⟨_, rfl⟩
  obtain ⟨field, hs⟩ := hs
  simp only [slice, sliceRaw, hs, ha, if_true, pooled, Dims.allCases]
  rw [← range_filter_eq _ _ ha, cases3_filter_trd, List.filter_filter, List.filter_filter]
  congr 1
  funext c
  exact Bool.and_comm _ _

/-- **Pooled axes** (`no`, and `threshold`/`obs`/`fcst`, whose bins are made later from the pooled
data): a single slice holding all valid cases. -/
theorem C11_pooled_axes (D : Dims) (valid : Case → Bool) :
    ∀ k ∈ [Kind.no, .threshold, .obs, .fcst], slices k D valid = [pooled D valid] := by
  intro k hk
  simp only [List.mem_cons, List.mem_nil_iff, or_false] at hk
  rcases hk with rfl | rfl | rfl | rfl <;> rfl

/-! ## 4. Calendar buckets (finite by the property: every second of every day 1900-2100) -/

section calendar
open VerifModel.C11Cal VerifModel.Spec.Cal

/-- 1900-01-01T00:00:00Z -/
def tLo : Int := -2208988800
/-- 2101-01-01T00:00:00Z (exclusive end: 2100-12-31T23:59:59Z is the last instant covered) -/
def tEnd : Int := 4133980800

/-- the civil date of day number `z` by the textbook calendar: start at 1900-01-01 (day number
`lo`) and take "the day after" `z - lo` times -/
def textbookDate (z : Nat) : Date := addDays ⟨1900, 1, 1⟩ (z - lo)

/-- for dates from 1970 on this is the textbook date counted from the unix epoch -/
theorem textbookDate_epoch (k : Nat) : textbookDate (epoch + k) = dateOfEpochDay k := by
  have h : addDays ⟨1900, 1, 1⟩ (epoch - lo) = ⟨1970, 1, 1⟩ := by
    have := (day_facts epoch (by decide) (by decide)).textbook
    rw [civil_epoch] at this
    exact this.symm
  unfold textbookDate dateOfEpochDay
  rw [show epoch + k - lo = (epoch - lo) + k by simp [epoch, lo]; omega, addDays_add, h]

/-- Hinnant's `civil_from_days` is the textbook calendar on 1900-01-01 … 2101-01-01 -/
theorem civil_textbook (z : Nat) (h0 : lo ≤ z) (h1 : z ≤ lo + count) :
    civilFromDays z = textbookDate z := by
  by_cases h : z < lo + count
  · exact (day_facts z h0 h).textbook
  · have hz : z = lo + count := by omega
    subst hz
    rw [civil_end]
    unfold textbookDate
    have e : lo + count - lo = (lo + count - 1 - lo) + 1 := by simp [lo, count]
    rw [e, addDays, ← (day_facts (lo + count - 1) (by decide) (by decide)).textbook, civil_last]
    decide

private theorem t_range (t : Int) (h0 : tLo ≤ t) (h1 : t < tEnd) :
    lo ≤ dayIndex t ∧ dayIndex t < lo + count ∧
      t = unixOfDays (dayIndex t) + (secOfDay t : Int) ∧ secOfDay t < 86400 := by
  simp only [dayIndex, secOfDay, unixOfDays, epoch, lo, count, tLo, tEnd] at *
  omega

private theorem unixOfDays_le {a b : Nat} (h : a ≤ b) : unixOfDays a ≤ unixOfDays b := by
  simp only [unixOfDays]; omega

private theorem dayIndex_unixOfDays (z : Nat) : dayIndex (unixOfDays z) = z := by
  simp only [dayIndex, unixOfDays, epoch]; omega

private theorem secOfDay_unixOfDays (z : Nat) : secOfDay (unixOfDays z) = 0 := by
  simp only [secOfDay, unixOfDays, epoch]; omega

/-- **Calendar buckets.**  For every instant `t` from 1900-01-01T00:00:00Z to 2100-12-31T23:59:59Z
(in particular every initialisation time 1970-2100), with `z` the day containing `t`, `s` the second
of that day and `c` the textbook civil date of `z`:

* `t = 86400·(z - epoch) + s`, `s < 86400`; `datetime.utcfromtimestamp` gives `c`, a valid date;
  `dayofmonth`/`monthofyear` are its components;
* the `day` bucket is the first instant of that day: `≤ t <` + 86400;
* the `year` bucket is midnight of a day `z0 ≤ z` whose textbook date is 1 January of `c.y`, and `t`
  is before midnight of the day `z1` whose textbook date is 1 January of `c.y + 1`;
* the `month` bucket is midnight of a day `z0 ≤ z` whose textbook date is the 1st of month `c.m` of
  year `c.y`, and `t` is before midnight of day `z0 + daysInMonth c.y c.m`. -/
theorem C11_calendar (t : Int) (h0 : tLo ≤ t) (h1 : t < tEnd) :
    let z := dayIndex t
    let c := textbookDate z
    (t = unixOfDays z + (secOfDay t : Int) ∧ secOfDay t < 86400) ∧
    (civil t = c ∧ validDate c = true ∧ dayOfMonth t = c.d ∧ monthOfYear t = c.m) ∧
    (dayStart t = unixOfDays z ∧ dayStart t ≤ t ∧ t < dayStart t + 86400) ∧
    (∃ z0 z1, yearStart t = unixOfDays z0 ∧ textbookDate z0 = ⟨c.y, 1, 1⟩ ∧
      textbookDate z1 = ⟨c.y + 1, 1, 1⟩ ∧ z0 ≤ z ∧ z < z1 ∧ yearStart t ≤ t ∧ t < unixOfDays z1) ∧
    (∃ z0, monthStart t = unixOfDays z0 ∧ textbookDate z0 = ⟨c.y, c.m, 1⟩ ∧ z0 ≤ z ∧
      z < z0 + daysInMonth c.y c.m ∧ monthStart t ≤ t ∧
      t < unixOfDays (z0 + daysInMonth c.y c.m)) := by
  intro z c
  have hz : dayIndex t = z := rfl
  have hcd : textbookDate z = c := rfl
  clear_value c z
  obtain ⟨hz0, hz1, hdec, hs⟩ := t_range t h0 h1
  rw [hz] at hz0 hz1 hdec
  have F := day_facts z hz0 hz1
  have hc : civilFromDays z = c := by rw [← hcd]; exact F.textbook
  have hciv : civil t = c := by simp only [civil, hz, hc]
  rw [hc] at F
  have hY := month_ok c.y 1 F.ylo F.yhi (by omega) (by omega)
  refine ⟨⟨hdec, hs⟩, ⟨hciv, F.valid, by simp [dayOfMonth, hciv], by simp [monthOfYear, hciv]⟩,
    ?_, ?_, ?_⟩
  · have e : dayStart t = unixOfDays z := by
      simp only [dayStart, hciv, F.roundtrip]
    rw [e]
    refine ⟨rfl, ?_, ?_⟩ <;> omega
  · refine ⟨daysFromCivil c.y 1 1, daysFromCivil (c.y + 1) 1 1, by simp [yearStart, hciv], ?_, ?_,
      F.year_le, F.year_lt, ?_, ?_⟩
    · rw [← civil_textbook _ hY.lo_le (by have := F.year_le; omega)]
      exact F.year_civil
    · by_cases hy : c.y + 1 ≤ 2100
      · have M := month_ok (c.y + 1) 1 (by have := F.ylo; omega) hy (by omega) (by omega)
        have hb := M.hi_le
        have hn := M.next
        rw [← civil_textbook _ M.lo_le (by omega)]
        exact M.civil
      · have hy' : c.y = 2100 := by have := F.yhi; omega
        rw [hy', days_2101, ← civil_textbook _ (by decide) (by decide)]
        exact civil_end
    · have := unixOfDays_le F.year_le
      simp only [yearStart, hciv]
      omega
    · have h := F.year_lt
      have : unixOfDays (z + 1) ≤ unixOfDays (daysFromCivil (c.y + 1) 1 1) := unixOfDays_le h
      simp only [unixOfDays] at this hdec ⊢
      omega
  · have hlen := F.month_len
    have hlt := F.month_lt
    rw [hlen] at hlt
    refine ⟨daysFromCivil c.y c.m 1, by simp [monthStart, hciv], ?_, F.month_le, hlt, ?_, ?_⟩
    · have M := month_ok c.y c.m F.ylo F.yhi
        (by have := F.valid; simp [validDate] at this; omega)
        (by have := F.valid; simp [validDate] at this; omega)
      rw [← civil_textbook _ M.lo_le (by have := F.month_le; omega)]
      exact F.month_civil
    · have := unixOfDays_le F.month_le
      simp only [monthStart, hciv]
      omega
    · have : unixOfDays (z + 1) ≤ unixOfDays (daysFromCivil c.y c.m 1 + daysInMonth c.y c.m) :=
        unixOfDays_le hlt
      simp only [unixOfDays] at this hdec ⊢
      omega

/-- the hypotheses are satisfiable (2000-02-29T05:00Z); the buckets on that instant: -/
example := C11_calendar 951800400 (by decide) (by decide)
example : yearStart 951800400 = 946684800 ∧ monthStart 951800400 = 949363200 ∧
    dayStart 951800400 = 951782400 ∧ civil 951800400 = ⟨2000, 2, 29⟩ := by decide +kernel

/-- **Week bucket.**  The `week` bucket of `t` is midnight (00:00:00Z) of a Monday, at most `t` and
less than 7 days before `t`.  (Weekdays by the textbook rule: 1970-01-01 was a Thursday and
weekdays repeat every 7 days; Monday = 0.) -/
theorem C11_week (t : Int) (h0 : tLo ≤ t) (h1 : t < tEnd) :
    let z := dayIndex t
    weekStart t = unixOfDays (z - weekday z) ∧ weekday (z - weekday z) = 0 ∧
      secOfDay (weekStart t) = 0 ∧ weekStart t ≤ t ∧ t < weekStart t + 7 * 86400 ∧
      (epoch ≤ z → weekday z = weekdayOfEpochDay (z - epoch)) := by
  intro z
  have hz : dayIndex t = z := rfl
  clear_value z
  obtain ⟨hz0, hz1, hdec, hs⟩ := t_range t h0 h1
  rw [hz] at hz0 hz1 hdec
  have F := day_facts z hz0 hz1
  have e : weekStart t = unixOfDays (z - weekday z) := by
    have hr := F.roundtrip
    simp only [weekStart, civil, hz]
    rw [hr]
  have hw : weekday z < 7 := Nat.mod_lt _ (by decide)
  have hzw : weekday z ≤ z := by simp only [lo] at hz0; omega
  refine ⟨e, ?_, ?_, ?_, ?_, ?_⟩
  · simp only [weekday] at hzw ⊢; omega
  · rw [e]; exact secOfDay_unixOfDays _
  · rw [e]
    have := unixOfDays_le (Nat.sub_le z (weekday z))
    omega
  · rw [e]
    simp only [unixOfDays] at hdec ⊢
    omega
  · intro he
    simp only [weekday, weekdayOfEpochDay, epoch] at he ⊢
    omega

example := C11_week 951800400 (by decide) (by decide)
example : weekStart 951800400 = 951696000 ∧ weekday (dayIndex 951696000) = 0 := by decide +kernel

/-- **Day-of-year bucket** (verif's variant).  The bucket is the ordinal that the date's month and
day have in a leap year (so 1 March is always 61); it coincides with the ordinal of the day within
its own year in leap years and in January/February, and is one larger from March on in common
years.  In particular two instants get the same bucket iff they fall on the same month and day. -/
theorem C11_dayofyear (t : Int) (h0 : tLo ≤ t) (h1 : t < tEnd) :
    let z := dayIndex t
    let c := textbookDate z
    dayOfYear t = leapOrdinal c.m c.d ∧
      ∃ z0, textbookDate z0 = ⟨c.y, 1, 1⟩ ∧ z0 ≤ z ∧
        dayOfYear t = (z - z0) + (if isLeap c.y || decide (c.m ≤ 2) then 1 else 2) := by
  intro z c
  have hz : dayIndex t = z := rfl
  have hcd : textbookDate z = c := rfl
  clear_value c z
  obtain ⟨hz0, hz1, _, _⟩ := t_range t h0 h1
  rw [hz] at hz0 hz1
  have F := day_facts z hz0 hz1
  have hc : civilFromDays z = c := by rw [← hcd]; exact F.textbook
  rw [hc] at F
  have hY := month_ok c.y 1 F.ylo F.yhi (by omega) (by omega)
  have e : dayOfYear t = leapOrdinal c.m c.d := by
    simp only [dayOfYear, civil, hz, hc]
    exact F.doy_model
  refine ⟨e, daysFromCivil c.y 1 1, ?_, F.year_le, ?_⟩
  · rw [← civil_textbook _ hY.lo_le (by have := F.year_le; omega)]
    exact F.year_civil
  · rw [e]; exact F.doy_true

example := C11_dayofyear 951800400 (by decide) (by decide)
example : dayOfYear 951800400 = 60 ∧ dayOfYear 983404800 = 61 := by decide +kernel

/-- **Time of day** (any instant): the bucket is the second of the day in hours, in [0, 24). -/
theorem C11_timeofday (t : Int) :
    timeOfDay t = (secOfDay t : Rat) / 3600 ∧ 0 ≤ timeOfDay t ∧ timeOfDay t < 24 := by
  have h0 : 0 ≤ t % 86400 := Int.emod_nonneg _ (by decide)
  have h1 : t % 86400 < 86400 := Int.emod_lt_of_pos _ (by decide)
  have e : ((secOfDay t : Nat) : Rat) = ((t % 86400 : Int) : Rat) := by
    simp only [secOfDay]
    have : ((t % 86400).toNat : Int) = t % 86400 := Int.toNat_of_nonneg h0
    exact_mod_cast congrArg (fun x : Int => (x : Rat)) this
  have q0 : (0 : Rat) ≤ ((t % 86400 : Int) : Rat) := by exact_mod_cast h0
  have q1 : ((t % 86400 : Int) : Rat) < 86400 := by exact_mod_cast h1
  refine ⟨by rw [e]; rfl, ?_, ?_⟩
  · simp only [timeOfDay]; positivity
  · simp only [timeOfDay]
    rw [div_lt_iff₀ (by norm_num)]
    linarith

/-- **Lead-time day**, every lead time `l` (hours, of either sign).  The bucket `n` is the whole
number of 24 h periods contained in `l`, counted with the sign of `l` (the integer part of `l / 24`;
Python's `int()` truncates toward zero, made explicit here):

* `n = wholeDays l` = `⌊l/24⌋` for `l ≥ 0`, `-⌊-l/24⌋` for `l < 0`;
* `l ≥ 0`: `n ≥ 0` and `24·n ≤ l < 24·(n+1)`;
* `l ≤ 0`: `n ≤ 0` and `24·(n-1) < l ≤ 24·n` — so the bucket 0 holds all of `-24 < l < 24`;
* the bucket of `-l` is `-n`. -/
theorem C11_leadtimeday (l : Rat) :
    leadtimeDay l = Spec.LeadTime.wholeDays l ∧
    (0 ≤ l → 0 ≤ leadtimeDay l ∧ (leadtimeDay l : Rat) * 24 ≤ l ∧ l < ((leadtimeDay l : Rat) + 1) * 24) ∧
    (l ≤ 0 → leadtimeDay l ≤ 0 ∧ ((leadtimeDay l : Rat) - 1) * 24 < l ∧ l ≤ (leadtimeDay l : Rat) * 24) ∧
    leadtimeDay (-l) = -leadtimeDay l := by
  have c : l / 24 * 24 = l := by field_simp
  have pos : ∀ x : Rat, 0 ≤ x → leadtimeDay x = (x / 24).floor ∧ 0 ≤ (x / 24).floor ∧
      ((x / 24).floor : Rat) * 24 ≤ x ∧ x < (((x / 24).floor : Rat) + 1) * 24 := by
    intro x hx
    have hq : 0 ≤ x / 24 := by positivity
    have a := Rat.floor_le (x / 24)
    have b := Rat.lt_floor_add_one (x / 24)
    have c : x / 24 * 24 = x := by field_simp
    refine ⟨by simp [leadtimeDay, truncate, hq], Rat.le_floor_iff.mpr (by simpa using hq), ?_, ?_⟩
    · linarith
    · push_cast at b; linarith
  have neg : ∀ x : Rat, x < 0 → leadtimeDay x = -((-x) / 24).floor := by
    intro x hx
    have hq : ¬ (0 ≤ x / 24) := by
      rw [not_le]; exact div_neg_of_neg_of_pos hx (by norm_num)
    simp only [leadtimeDay, truncate, hq, if_false, Rat.ceil_eq_neg_floor_neg]
    congr 2; ring
  have hodd : leadtimeDay (-l) = -leadtimeDay l := by
    rcases lt_trichotomy l 0 with h | h | h
    · rw [neg l h, (pos (-l) (by linarith)).1]; simp
    · subst h; decide +kernel
    · rw [neg (-l) (by linarith), (pos l h.le).1]; simp
  refine ⟨?_, ?_, ?_, hodd⟩
  · unfold Spec.LeadTime.wholeDays
    split
    · rename_i h; exact (pos l h).1
    · rename_i h; exact neg l (not_le.mp h)
  · intro h
    obtain ⟨e, p0, p1, p2⟩ := pos l h
    rw [e]; exact ⟨p0, p1, p2⟩
  · intro h
    obtain ⟨e, p0, p1, p2⟩ := pos (-l) (by linarith)
    have e' : leadtimeDay l = -((-l) / 24).floor := by
      have := hodd; rw [e] at this; omega
    rw [e']
    refine ⟨by omega, ?_, ?_⟩
    · push_cast; linarith
    · push_cast; linarith

example : leadtimeDay (479 / 10) = 1 ∧ leadtimeDay 48 = 2 ∧ leadtimeDay (1 / 2) = 0 ∧
    leadtimeDay (-1 / 2) = 0 ∧ leadtimeDay (-49 / 2) = -1 ∧ leadtimeDay (-479 / 10) = -1 ∧
    leadtimeDay (-24) = -1 := by
  decide +kernel

/-- the same convention next to floor division: for a negative lead time that is not a multiple of
24 h the bucket is one above `⌊l / 24⌋` (`int()` is not `floor`) -/
theorem C11_leadtimeday_vs_floor (l : Rat) :
    (0 ≤ l → leadtimeDay l = (l / 24).floor) ∧
    (l < 0 → leadtimeDay l = (l / 24).ceil ∧
      (((l / 24).floor : Rat) ≠ l / 24 → leadtimeDay l = (l / 24).floor + 1)) := by
  refine ⟨fun h => ?_, fun h => ?_⟩
  · have hq : 0 ≤ l / 24 := by positivity
    simp [leadtimeDay, truncate, hq]
  · have hq : ¬ (0 ≤ l / 24) := by
      rw [not_le]; exact div_neg_of_neg_of_pos h (by norm_num)
    have e : leadtimeDay l = (l / 24).ceil := by simp [leadtimeDay, truncate, hq]
    refine ⟨e, fun hne => ?_⟩
    rw [e]
    have hlt : ((l / 24).floor : Rat) < l / 24 := lt_of_le_of_ne (Rat.floor_le _) hne
    have h1 : (l / 24).floor < (l / 24).ceil := Rat.lt_ceil_iff.mpr hlt
    have h2 : (l / 24).ceil ≤ (l / 24).floor + 1 := by
      rw [Rat.ceil_le_iff]
      have := Rat.lt_floor_add_one (l / 24)
      push_cast at this ⊢
      linarith
    omega

example : leadtimeDay (-49 / 2) = ((-49 / 2 : Rat) / 24).floor + 1 := by decide +kernel

end calendar

/-! ## 5. Date conversions are mutually inverse (every day 1900-01-01 … 2100-12-31) -/

section conversions
open VerifModel.C11Cal VerifModel.Spec.Cal

private theorem ofYmd_toYmd (c : Date) (h : validDate c = true) : Date.ofYmd c.toYmd = c := by
  obtain ⟨y, m, d⟩ := c
  simp only [validDate, Bool.and_eq_true, decide_eq_true_eq] at h
  have hd : d ≤ 31 := by
    have : daysInMonth y m ≤ 31 := by
      unfold daysInMonth; split <;> (try split) <;> omega
    omega
  simp only [Date.ofYmd, Date.toYmd, Date.mk.injEq]
  omega

private theorem floor_div_86400 (t : Int) : ((t : Rat) / 86400).floor = t / 86400 := by
  show ⌊(t : Rat) / 86400⌋ = _
  simpa using Rat.floor_intCast_div_natCast t 86400

/-- **Conversions.**  For every day `z` from 1900-01-01 to 2100-12-31, with `d` its textbook date
written `YYYYMMDD` and `t0 = 86400·(z - epoch)` its midnight in unix time:

* `date_to_unixtime d = t0`, `unixtime_to_date t0 = d` (so each is the inverse of the other on dates
  and on day-aligned unix times), and `unixtime_to_date` is constant over the whole day;
* `date_to_datenum d = z - epoch` (whole days since 1970-01-01), `datenum_to_date` of it is `d`;
* `unixtime_to_datenum t = t / 86400` exactly, i.e. `(z - epoch) + s/86400` at second `s` of the day,
  it agrees with `date_to_datenum` at midnight, and `datenum_to_date (unixtime_to_datenum t)
  = unixtime_to_date t` for every second of the day. -/
theorem C11_conversions (z : Nat) (h0 : lo ≤ z) (h1 : z < lo + count) :
    let d := (textbookDate z).toYmd
    let t0 := unixOfDays z
    dateToUnixtime d = t0 ∧ unixtimeToDate t0 = d ∧
    unixtimeToDate (dateToUnixtime d) = d ∧ dateToUnixtime (unixtimeToDate t0) = t0 ∧
    (∀ s : Nat, s < 86400 → unixtimeToDate (t0 + s) = d) ∧
    dateToDatenum d = (z : Int) - epoch ∧ datenumToDate ((dateToDatenum d : Int) : Rat) = d ∧
    (∀ s : Nat, s < 86400 →
      unixtimeToDatenum (t0 + s) = (((z : Int) - epoch : Int) : Rat) + (s : Rat) / 86400 ∧
      datenumToDate (unixtimeToDatenum (t0 + s)) = unixtimeToDate (t0 + s)) ∧
    unixtimeToDatenum t0 = ((dateToDatenum d : Int) : Rat) := by
  intro d t0
  have F := day_facts z h0 h1
  have hc : civilFromDays z = textbookDate z := F.textbook
  rw [hc] at F
  have hof : Date.ofYmd d = textbookDate z := ofYmd_toYmd _ F.valid
  have hdays : daysOf (Date.ofYmd d) = z := by rw [hof]; exact F.roundtrip
  have hday : ∀ s : Nat, s < 86400 → dayIndex (t0 + s) = z := by
    intro s hs
    simp only [t0, dayIndex, unixOfDays, epoch]; omega
  have hu : ∀ s : Nat, s < 86400 → unixtimeToDate (t0 + s) = d := by
    intro s hs
    simp only [unixtimeToDate, civil, hday s hs, hc, d]
  have hu0 : unixtimeToDate t0 = d := by simpa using hu 0 (by decide)
  have h1' : dateToUnixtime d = t0 := by simp only [dateToUnixtime, hdays, t0]
  have hdn : dateToDatenum d = (z : Int) - epoch := by simp only [dateToDatenum, hdays]
  have hnd : ∀ n : Int, n = (z : Int) - epoch → datenumToDate (n : Rat) = d := by
    intro n hn
    simp only [datenumToDate, Rat.floor_intCast, hn]
    rw [show ((z : Int) - (epoch : Int) + (epoch : Int)).toNat = z by omega, hc]
  refine ⟨h1', hu0, by rw [h1', hu0], by rw [hu0, h1'], hu, hdn, hnd _ hdn, ?_, ?_⟩
  · intro s hs
    have hfl : ((((t0 + s : Int)) : Rat) / 86400).floor = (z : Int) - epoch := by
      rw [floor_div_86400]
      simp only [t0, unixOfDays, epoch]; omega
    refine ⟨?_, ?_⟩
    · simp only [unixtimeToDatenum, t0, unixOfDays]
      push_cast
      field_simp
    · rw [hu s hs]
      simp only [datenumToDate, unixtimeToDatenum]
      rw [hfl, show ((z : Int) - (epoch : Int) + (epoch : Int)).toNat = z by omega, hc]
  · simp only [unixtimeToDatenum, hdn, t0, unixOfDays]
    push_cast
    field_simp

/-- non-vacuous: day number 730484 is 2000-02-29 -/
example := C11_conversions 730484 (by decide) (by decide)
example : dateToUnixtime 20000229 = 951782400 ∧ unixtimeToDate 951782400 = 20000229 ∧
    dateToDatenum 20000229 = 11016 ∧ datenumToDate 11016 = 20000229 ∧
    unixtimeToDate (-2208988800) = 19000101 := by decide +kernel

/-- **`get_date`.**  For every day `z` of 1900-2100 and every (possibly negative) number of days
`k` that stays in 1900-2100: `get_date d k` is the textbook date of day `z + k`, i.e. `k` civil
days later (earlier). -/
theorem C11_get_date (z : Nat) (h0 : lo ≤ z) (h1 : z < lo + count) (k : Int)
    (hk0 : (lo : Int) ≤ z + k) (hk1 : (z : Int) + k < lo + count) :
    getDate (textbookDate z).toYmd k = (textbookDate ((z : Int) + k).toNat).toYmd ∧
      (0 ≤ k → textbookDate ((z : Int) + k).toNat = addDays (textbookDate z) k.toNat) := by
  have F := day_facts z h0 h1
  have hc : civilFromDays z = textbookDate z := F.textbook
  rw [hc] at F
  have hof : Date.ofYmd (textbookDate z).toYmd = textbookDate z := ofYmd_toYmd _ F.valid
  refine ⟨?_, ?_⟩
  · simp only [getDate, hof, F.roundtrip]
    rw [civil_textbook _ (by omega) (by omega)]
  · intro hk
    have e : ((z : Int) + k).toNat - lo = (z - lo) + k.toNat := by omega
    unfold textbookDate
    rw [← addDays_add, e]

example := C11_get_date 730484 (by decide) (by decide) (-60) (by decide) (by decide)
example : getDate 20000228 2 = 20000301 ∧ getDate 20000301 (-1) = 20000229 := by decide +kernel

end conversions

end VerifModel.C11
