import VerifModel.Model.Aggregator
import Proofs.C15
/-
  C15, "along any array dimension" for the aggregator CLASSES (gap c of the audit).

  `C15_axis` / `C15_axis_rank` (Proofs/C15.lean) say what a fiber-wise reduction along axis k computes,
  for any rank.  This file ties the call `aggregator(array, axis)` of aggregator.py to that reduction.

  `C15_axis_any`: every aggregator reduces along dimension `axis` (counted from the back when negative)
  of an array of any rank.  (`Change` / `AbsChange` used to implement `axis ∈ {0, …, 4}` only and raised
  NotImplementedError otherwise — repaired in /repo; the two witnesses stay in corpus/C15.txt and the
  streams agg.axis.neg / agg.axis.high as regression tests.)
-/
namespace VerifModel.C15
open VerifModel XR

/-- the numbering of dimensions: `axis` names dimension `axis` from the front, `axis − rank` the same
dimension from the back; nothing else is a dimension -/
theorem C15_axis_norm (rank : Nat) (axis : Int) (k : Nat) :
    Agg.normAxis rank axis = some k ↔
      (k < rank ∧ (axis = (k : Int) ∨ axis = (k : Int) - (rank : Int))) := by
  unfold Agg.normAxis
  constructor
  · intro h
    split at h
    · rename_i hc
      simp only [Option.some.injEq] at h
      omega
    · split at h
      · rename_i hc
        simp only [Option.some.injEq] at h
        omega
      · simp at h
  · rintro ⟨hk, h | h⟩
    · subst h
      simp [hk]
    · subst h
      have h1 : ¬ (0 ≤ (k : Int) - (rank : Int) ∧ (k : Int) - (rank : Int) < (rank : Int)) := by omega
      have h2 : (k : Int) - (rank : Int) < 0 ∧ -(rank : Int) ≤ (k : Int) - (rank : Int) := by omega
      rw [if_neg h1, if_pos h2]
      congr 1
      omega

/-- every dimension of an array of any rank can be named, from the front and from the back -/
theorem C15_axis_every_dimension (rank k : Nat) (hk : k < rank) :
    Agg.normAxis rank (k : Int) = some k ∧ Agg.normAxis rank ((k : Int) - (rank : Int)) = some k :=
  ⟨(C15_axis_norm rank _ k).2 ⟨hk, Or.inl rfl⟩, (C15_axis_norm rank _ k).2 ⟨hk, Or.inr rfl⟩⟩

/-- **Along any array dimension.**  For every aggregator, every array of every rank and every `axis`
that names a dimension (−rank ≤ axis < rank: dimension `axis` from the front, or `axis + rank` when
negative), the call `aggregator(array, axis)` is the fiber-wise reduction along that dimension — so
`C15_axis`, `C15_axis_rank`, `C15_axis_shape` describe its result cell by cell, and the
`C15_agg_*` theorems say what each cell is. -/
theorem C15_axis_any (T : Tr) (a : Agg) (axis : Int) (arr : Arr) (k : Nat)
    (hk : Agg.normAxis arr.dims.length axis = some k) :
    Agg.callAxis T a axis arr = Arr.aggAxis (Agg.apply T a) k arr := by
  simp only [Agg.callAxis, hk, Option.bind_some]

/-- … cell by cell: the result has the shape with that dimension removed and the cell at multi-index
`idx` is the aggregator applied to the fiber through `idx` -/
theorem C15_axis_any_cells (T : Tr) (a : Agg) (axis : Int) (arr r : Arr) (k n : Nat)
    (hk : Agg.normAxis arr.dims.length axis = some k) (hn : arr.dims[k]? = some n)
    (h : Agg.callAxis T a axis arr = some r)
    (idx : List Nat) (hb : Arr.InBounds (arr.dims.eraseIdx k) idx) :
    r.dims = arr.dims.eraseIdx k ∧
    r.data[Arr.flatIndex r.dims idx]? =
      Agg.apply T a ((List.range n).map fun j =>
        (arr.data[Arr.flatIndex arr.dims (idx.take k ++ j :: idx.drop k)]?).getD nan) := by
  rw [C15_axis_any T a axis arr k hk] at h
  exact ⟨(C15_axis _ k arr r n hn h).1, C15_axis_rank _ k arr r n hn h idx hb⟩

/-- an `axis` that names no dimension raises for every aggregator (AxisError) -/
theorem C15_axis_out_of_range (T : Tr) (a : Agg) (axis : Int) (arr : Arr)
    (h : Agg.normAxis arr.dims.length axis = none) : Agg.callAxis T a axis arr = none := by
  simp only [Agg.callAxis, h, Option.bind_none]

/-- Non-vacuity, and the two former witnesses: the last dimension of a 2×3×4 array named as `axis = −1`
and dimension 5 of a rank-6 array, for `change` / `abschange` as for `mean` / `sum`. -/
example :
    let a3 : Arr := ⟨[2, 3, 4], (List.range 24).map fun i => fin (i : Rat)⟩
    let a6 : Arr := ⟨[2, 2, 2, 2, 2, 2], (List.range 64).map fun i => fin (i : Rat)⟩
    let T : Tr := ⟨id, id, id, id⟩
    Agg.normAxis 3 (-1) = some 2 ∧
    (Agg.callAxis T .mean (-1) a3).map (·.dims) = some [2, 3] ∧
    (Agg.callAxis T .change (-1) a3).map (·.data.take 3) = some [fin 3, fin 3, fin 3] ∧
    (Agg.callAxis T .abschange (-3) a3).map (·.data.take 2) = some [fin 12, fin 12] ∧
    (Agg.callAxis T .sum 5 a6).map (·.dims) = some [2, 2, 2, 2, 2] ∧
    (Agg.callAxis T .change 5 a6).map (·.data.take 2) = some [fin 1, fin 1] ∧
    Agg.callAxis T .change 3 a3 = none ∧ Agg.callAxis T .sum (-4) a3 = none := by
  decide +kernel

example :
    Agg.callAxis ⟨id, id, id, id⟩ .sum (-1) ⟨[2, 3], [fin 1, fin 2, fin 3, fin 4, fin 5, fin 6]⟩
      = some ⟨[2], [fin 6, fin 15]⟩ ∧
    Arr.InBounds ([2, 3].eraseIdx 1) [1] := by
  refine ⟨by decide +kernel, by simp [Arr.InBounds]⟩

end VerifModel.C15
