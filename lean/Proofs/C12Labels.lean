import VerifModel.Model.TimeLabel
import Proofs.C11
/-
  C12 — the leading field of a text / csv row on a time-like axis identifies the slice.

  Property theorems about `Model/TimeLabel.lean` (`label` = the time-like branch of
  `Data.get_axis_descriptions`), for every whole second from 1900-01-01T00:00:00Z to
  2100-12-31T23:59:59Z (the range on which `Proofs/C11Calendar.lean` ties the calendar arithmetic to
  the textbook calendar):

  * `C12_time_label`        the `-x time` label of an initialisation time is its textbook civil date
                            and its hour, minute and second of the day, `YYYY-MM-DD HH:MM:SS`;
  * `C12_time_label_inj`    two initialisation times with the same label are the same instant — in
                            particular the 00 and 12 UTC runs of one day never share a label;
  * `C12_time_labels_nodup` hence the rows of a `-x time` table carry pairwise distinct labels;
  * `C12_bucket_label`      on `-x day | month | year` the printed label (of the bucket's first
                            instant) is the label of every instant of the bucket;
  * `C12_bucket_label_iff`  two instants get the same day / month / year label exactly when they are in
                            the same bucket.
  The `week` label (`%Y/%U`) is modelled and tied by stream `out.tlabel`; no theorem is stated for it.
-/
namespace VerifModel.C12
open VerifModel VerifModel.Calendar VerifModel.Axis VerifModel.TimeLabel VerifModel.C11Cal
  VerifModel.Spec.Cal VerifModel.C11

/-! ### digits -/

private theorem digitFin_inj : ∀ x y : Fin 10, digit x.val = digit y.val → x = y := by decide

private theorem digit_mod (n : Nat) : digit n = digit (n % 10) := by
  simp only [digit, Nat.mod_mod]

theorem digit_inj {a b : Nat} (h : digit a = digit b) : a % 10 = b % 10 := by
  rw [digit_mod a, digit_mod b] at h
  have := digitFin_inj ⟨a % 10, Nat.mod_lt _ (by decide)⟩ ⟨b % 10, Nat.mod_lt _ (by decide)⟩ h
  exact Fin.mk.inj_iff.1 this

theorem pad2_inj {a b : Nat} (ha : a < 100) (hb : b < 100) (h : pad2 a = pad2 b) : a = b := by
  simp only [pad2, List.cons.injEq, and_true] at h
  have h1 := digit_inj h.1
  have h2 := digit_inj h.2
  omega

theorem pad4_inj {a b : Nat} (ha : a < 10000) (hb : b < 10000) (h : pad4 a = pad4 b) : a = b := by
  simp only [pad4, List.cons.injEq, and_true] at h
  have h1 := digit_inj h.1
  have h2 := digit_inj h.2.1
  have h3 := digit_inj h.2.2.1
  have h4 := digit_inj h.2.2.2
  omega

/-! ### the instants of 1900-2100 -/

private theorem t_range (t : Int) (h0 : tLo ≤ t) (h1 : t < tEnd) :
    lo ≤ dayIndex t ∧ dayIndex t < lo + count ∧
      t = unixOfDays (dayIndex t) + (secOfDay t : Int) ∧ secOfDay t < 86400 := by
  simp only [dayIndex, secOfDay, unixOfDays, epoch, lo, count, tLo, tEnd] at *
  omega

private theorem facts (t : Int) (h0 : tLo ≤ t) (h1 : t < tEnd) : DayFacts (dayIndex t) (civil t) :=
  day_facts _ (t_range t h0 h1).1 (t_range t h0 h1).2.1

private theorem valid_bounds {c : Date} (h : validDate c = true) :
    1 ≤ c.m ∧ c.m ≤ 12 ∧ 1 ≤ c.d ∧ c.d ≤ 31 := by
  simp only [validDate, Bool.and_eq_true, decide_eq_true_eq] at h
  obtain ⟨⟨⟨h1, h2⟩, h3⟩, h4⟩ := h
  refine ⟨h1, h2, h3, ?_⟩
  have : daysInMonth c.y c.m ≤ 31 := by
    unfold daysInMonth; split <;> (try split) <;> omega
  omega

private theorem label_pos (k : Kind) (t : Int) (h0 : tLo ≤ t) (h1 : t < tEnd) :
    label k t =
      match k with
      | .time => some (ymdChars '-' (civil t) ++ ' ' :: hmsChars t)
      | .day => some (ymdChars '/' (civil t))
      | .month => some (pad4 (civil t).y ++ '/' :: pad2 (civil t).m)
      | .year => some (pad4 (civil t).y)
      | .week => some (pad4 (civil t).y ++ '/' :: pad2 (weekU t))
      | _ => none := by
  have F := facts t h0 h1
  have hy : 1000 ≤ (civil t).y ∧ (civil t).y ≤ 9999 := ⟨by have := F.ylo; omega, by have := F.yhi; omega⟩
  cases k <;> simp only [label, if_pos hy]

private theorem civil_eq_of_fields {t₁ t₂ : Int} (h0 : tLo ≤ t₁) (h1 : t₁ < tEnd) (h0' : tLo ≤ t₂)
    (h1' : t₂ < tEnd) (hy : pad4 (civil t₁).y = pad4 (civil t₂).y)
    (hm : pad2 (civil t₁).m = pad2 (civil t₂).m) (hd : pad2 (civil t₁).d = pad2 (civil t₂).d) :
    civil t₁ = civil t₂ := by
  have F₁ := facts t₁ h0 h1
  have F₂ := facts t₂ h0' h1'
  have b₁ := valid_bounds F₁.valid
  have b₂ := valid_bounds F₂.valid
  have ey := pad4_inj (by have := F₁.yhi; omega) (by have := F₂.yhi; omega) hy
  have em := pad2_inj (by omega) (by omega) hm
  have ed := pad2_inj (by omega) (by omega) hd
  generalize civil t₁ = c₁ at *
  generalize civil t₂ = c₂ at *
  cases c₁; cases c₂
  simp only at ey em ed
  subst ey em ed
  rfl

/-! ### `-x time` -/

/-- **The label of an initialisation time.**  For every whole second `t` of 1900-2100, with `c` the
textbook civil date of the UTC day containing `t` and `s` the second of that day
(`t = 86400·(day - epoch) + s`, `s = 3600·H + 60·M + S` with `H < 24`, `M < 60`, `S < 60`), the row
label of the slice `t` on the `time` axis is `YYYY-MM-DD HH:MM:SS` of exactly these numbers. -/
theorem C12_time_label (t : Int) (h0 : tLo ≤ t) (h1 : t < tEnd) :
    let c := textbookDate (dayIndex t)
    let s := secOfDay t
    let H := s / 3600
    let M := s / 60 % 60
    let S := s % 60
    label .time t = some (pad4 c.y ++ '-' :: pad2 c.m ++ '-' :: pad2 c.d ++ ' ' ::
        pad2 H ++ ':' :: pad2 M ++ ':' :: pad2 S) ∧
      validDate c = true ∧ 1900 ≤ c.y ∧ c.y ≤ 2100 ∧
      t = unixOfDays (dayIndex t) + (s : Int) ∧ s = 3600 * H + 60 * M + S ∧ H < 24 ∧ M < 60 ∧ S < 60 := by
  intro c s H M S
  have F := facts t h0 h1
  obtain ⟨_, _, hdec, hs⟩ := t_range t h0 h1
  have hc : civil t = c := F.textbook
  refine ⟨?_, ?_, ?_, ?_, hdec, ?_, ?_, ?_, ?_⟩
  · rw [label_pos .time t h0 h1, hc]
    simp only [ymdChars, hmsChars, hour, minute, second, List.append_assoc, List.cons_append]
    rfl
  · rw [← hc]; exact F.valid
  · rw [← hc]; exact F.ylo
  · rw [← hc]; exact F.yhi
  · show s = 3600 * (s / 3600) + 60 * (s / 60 % 60) + s % 60
    omega
  · show s / 3600 < 24
    have : s < 86400 := hs
    omega
  · show s / 60 % 60 < 60
    omega
  · show s % 60 < 60
    omega

/-- **The label identifies the slice.**  Two initialisation times of 1900-2100 with the same `-x time`
label are the same instant. -/
theorem C12_time_label_inj (t₁ t₂ : Int) (h0 : tLo ≤ t₁) (h1 : t₁ < tEnd) (h0' : tLo ≤ t₂)
    (h1' : t₂ < tEnd) (h : label .time t₁ = label .time t₂) : t₁ = t₂ := by
  rw [label_pos .time t₁ h0 h1, label_pos .time t₂ h0' h1'] at h
  simp only [ymdChars, hmsChars, Option.some.injEq, List.append_assoc, List.cons_append] at h
  obtain ⟨_, _, hdec₁, hs₁⟩ := t_range t₁ h0 h1
  obtain ⟨_, _, hdec₂, hs₂⟩ := t_range t₂ h0' h1'
  -- split the 19 characters into their fields
  have hlen : ∀ n, (pad4 n).length = 4 := fun _ => rfl
  have hy := List.append_inj_left h (by simp [hlen])
  have h := List.append_inj_right h (by simp [hlen])
  simp only [List.cons.injEq, true_and] at h
  have hlen2 : ∀ n, (pad2 n).length = 2 := fun _ => rfl
  have hm := List.append_inj_left h (by simp [hlen2])
  have h := List.append_inj_right h (by simp [hlen2])
  simp only [List.cons.injEq, true_and] at h
  have hd := List.append_inj_left h (by simp [hlen2])
  have h := List.append_inj_right h (by simp [hlen2])
  simp only [List.cons.injEq, true_and] at h
  have hH := List.append_inj_left h (by simp [hlen2])
  have h := List.append_inj_right h (by simp [hlen2])
  simp only [List.cons.injEq, true_and] at h
  have hM := List.append_inj_left h (by simp [hlen2])
  have h := List.append_inj_right h (by simp [hlen2])
  simp only [List.cons.injEq, true_and] at h
  have hc := civil_eq_of_fields h0 h1 h0' h1' hy hm hd
  have eH := pad2_inj (by simp only [hour]; omega) (by simp only [hour]; omega) hH
  have eM := pad2_inj (by simp only [minute]; omega) (by simp only [minute]; omega) hM
  have eS := pad2_inj (by simp only [second]; omega) (by simp only [second]; omega) h
  simp only [hour, minute, second] at eH eM eS
  have es : secOfDay t₁ = secOfDay t₂ := by omega
  have ez : dayIndex t₁ = dayIndex t₂ := by
    rw [← (facts t₁ h0 h1).roundtrip, ← (facts t₂ h0' h1').roundtrip, hc]
  rw [hdec₁, hdec₂, es, ez]

/-- the rows of a `-x time` table carry pairwise distinct labels: distinct initialisation times
(`data.times` is a set of instants) never print the same leading field -/
theorem C12_time_labels_nodup (ts : List Int) (hr : ∀ t ∈ ts, tLo ≤ t ∧ t < tEnd) (hn : ts.Nodup) :
    (ts.map (label .time)).Nodup := by
  induction ts with
  | nil => simp
  | cons t ts ih =>
    rw [List.nodup_cons] at hn
    rw [List.map_cons, List.nodup_cons]
    refine ⟨?_, ih (fun u hu => hr u (List.mem_cons_of_mem _ hu)) hn.2⟩
    intro hmem
    obtain ⟨u, hu, hlab⟩ := List.mem_map.1 hmem
    have ht := hr t (List.mem_cons_self ..)
    have hu' := hr u (List.mem_cons_of_mem _ hu)
    have := C12_time_label_inj u t hu'.1 hu'.2 ht.1 ht.2 hlab
    exact hn.1 (this ▸ hu)

/-- non-vacuity and the seeded case: the 00 and 12 UTC runs of 2018-01-01 -/
example : label .time 1514764800 = some "2018-01-01 00:00:00".toList ∧
    label .time 1514808000 = some "2018-01-01 12:00:00".toList ∧
    label .time 951827696 = some "2000-02-29 12:34:56".toList ∧
    label .week 1325376000 = some "2012/01".toList ∧ label .week 1325289600 = some "2011/52".toList := by
  decide +kernel
example := C12_time_label 1514808000 (by decide) (by decide)

/-! ### `-x day`, `-x month`, `-x year` -/

private theorem dayIndex_unixOfDays (z : Nat) : dayIndex (unixOfDays z) = z := by
  simp only [dayIndex, unixOfDays, epoch]; omega

/-- the label printed for a bucket (the label of its first instant, which is the axis value) is the
label of every instant in it -/
theorem C12_bucket_label (t : Int) (h0 : tLo ≤ t) (h1 : t < tEnd) :
    label .day (dayStart t) = label .day t ∧ label .month (monthStart t) = label .month t ∧
      label .year (yearStart t) = label .year t := by
  have F := facts t h0 h1
  have hy : 1000 ≤ (civil t).y ∧ (civil t).y ≤ 9999 := ⟨by have := F.ylo; omega, by have := F.yhi; omega⟩
  have e1 : civil (dayStart t) = civil t := by
    simp only [civil, dayStart, dayIndex_unixOfDays]
    have := F.roundtrip
    simp only [civil] at this
    rw [this]
  have e2 : civil (monthStart t) = ⟨(civil t).y, (civil t).m, 1⟩ := by
    simp only [civil, monthStart, dayIndex_unixOfDays]
    exact F.month_civil
  have e3 : civil (yearStart t) = ⟨(civil t).y, 1, 1⟩ := by
    simp only [civil, yearStart, dayIndex_unixOfDays]
    exact F.year_civil
  refine ⟨?_, ?_, ?_⟩
  · simp only [label, e1]
  · simp only [label, e2, if_pos hy]
  · simp only [label, e3, if_pos hy]

/-- two instants of 1900-2100 get the same day / month / year label exactly when they lie in the same
day / month / year bucket (slice) -/
theorem C12_bucket_label_iff (t₁ t₂ : Int) (h0 : tLo ≤ t₁) (h1 : t₁ < tEnd) (h0' : tLo ≤ t₂)
    (h1' : t₂ < tEnd) :
    (label .day t₁ = label .day t₂ ↔ dayStart t₁ = dayStart t₂) ∧
    (label .month t₁ = label .month t₂ ↔ monthStart t₁ = monthStart t₂) ∧
    (label .year t₁ = label .year t₂ ↔ yearStart t₁ = yearStart t₂) := by
  have F₁ := facts t₁ h0 h1
  have F₂ := facts t₂ h0' h1'
  have b₁ := valid_bounds F₁.valid
  have b₂ := valid_bounds F₂.valid
  have hlen : ∀ n, (pad4 n).length = 4 := fun _ => rfl
  have hlen2 : ∀ n, (pad2 n).length = 2 := fun _ => rfl
  have hinj : ∀ a b : Nat, unixOfDays a = unixOfDays b → a = b := by
    intro a b h; simp only [unixOfDays] at h; omega
  refine ⟨⟨?_, ?_⟩, ⟨?_, ?_⟩, ⟨?_, ?_⟩⟩
  · intro h
    rw [label_pos .day t₁ h0 h1, label_pos .day t₂ h0' h1'] at h
    simp only [ymdChars, Option.some.injEq, List.append_assoc, List.cons_append] at h
    have hy := List.append_inj_left h (by simp [hlen])
    have h := List.append_inj_right h (by simp [hlen])
    simp only [List.cons.injEq, true_and] at h
    have hm := List.append_inj_left h (by simp [hlen2])
    have h := List.append_inj_right h (by simp [hlen2])
    simp only [List.cons.injEq, true_and] at h
    simp only [dayStart, civil_eq_of_fields h0 h1 h0' h1' hy hm h]
  · intro h
    have e : daysOf (civil t₁) = daysOf (civil t₂) := hinj _ _ h
    have ez : dayIndex t₁ = dayIndex t₂ := by rw [← F₁.roundtrip, ← F₂.roundtrip]; exact e
    have : civil t₁ = civil t₂ := by simp only [civil, ez]
    simp only [label, this]
  · intro h
    rw [label_pos .month t₁ h0 h1, label_pos .month t₂ h0' h1'] at h
    simp only [Option.some.injEq] at h
    have hy := List.append_inj_left h (by simp [hlen])
    have h := List.append_inj_right h (by simp [hlen])
    simp only [List.cons.injEq, true_and] at h
    have ey := pad4_inj (by have := F₁.yhi; omega) (by have := F₂.yhi; omega) hy
    have em := pad2_inj (by omega) (by omega) h
    simp only [monthStart, ey, em]
  · intro h
    have e : daysFromCivil (civil t₁).y (civil t₁).m 1 = daysFromCivil (civil t₂).y (civil t₂).m 1 :=
      hinj _ _ h
    have c₁ := F₁.month_civil
    have c₂ := F₂.month_civil
    rw [e] at c₁
    have := c₁.symm.trans c₂
    simp only [Date.mk.injEq, and_true] at this
    rw [label_pos .month t₁ h0 h1, label_pos .month t₂ h0' h1']
    simp only [this.1, this.2]
  · intro h
    rw [label_pos .year t₁ h0 h1, label_pos .year t₂ h0' h1'] at h
    simp only [Option.some.injEq] at h
    have ey := pad4_inj (by have := F₁.yhi; omega) (by have := F₂.yhi; omega) h
    simp only [yearStart, ey]
  · intro h
    have e : daysFromCivil (civil t₁).y 1 1 = daysFromCivil (civil t₂).y 1 1 := hinj _ _ h
    have c₁ := F₁.year_civil
    have c₂ := F₂.year_civil
    rw [e] at c₁
    have := c₁.symm.trans c₂
    simp only [Date.mk.injEq, and_true] at this
    rw [label_pos .year t₁ h0 h1, label_pos .year t₂ h0' h1']
    simp only [this]

end VerifModel.C12
