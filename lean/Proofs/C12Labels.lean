import VerifModel.Model.TimeLabel
import Proofs.C11
/-
  C12 — the leading field of a text / csv row on a time-like axis identifies the slice.

  Property theorems about `Model/TimeLabel.lean` (`label` = the time-like branch of
  `Data.get_axis_descriptions`), for every whole second from 1900-01-01T00:00:00Z to
  2100-12-31T23:59:59Z (the range on which `Proofs/C11Calendar.lean` ties the calendar arithmetic to
  the textbook calendar):

  * `C12_time_label`        the `-x time` label of an initialisation time is its textbook civil date
                            and its hour, minute and second of the day, `YYYY-MM-DD HH:MM:SS`;
  * `C12_time_label_inj`    two initialisation times with the same label are the same instant — in
                            particular the 00 and 12 UTC runs of one day never share a label;
  * `C12_time_labels_nodup` hence the rows of a `-x time` table carry pairwise distinct labels;
  * `C12_bucket_label`      on `-x day | month | year` the printed label (of the bucket's first
                            instant) is the label of every instant of the bucket;
  * `C12_bucket_label_iff`  two instants get the same day / month / year label exactly when they are in
                            the same bucket.
  * `C12_week_label_iff_false`, `C12_week_same_label_two_weeks`, `C12_week_one_week_two_labels`
                            the week label `%Y/%U` (Sunday-based week number) does NOT match the Monday-based
                            week bucket: the full equivalence is false (concrete witnesses);
  * `C12_week_rows_distinct` (headline) distinct week buckets print distinct labels and one bucket has one
                            label: the rows of a `-x week` table carry pairwise distinct leading fields;
  * `C12_week_label_printed` the labels a `-x week` table prints (label of the bucket's Monday) are pairwise
                            distinct for distinct buckets;
  * `C12_week_label_own`, `C12_week_label_iff_partial`  an instant carries the label of its week row iff it
                            is not a Sunday and in the same year as its Monday; for such instants equal
                            labels ⇔ same bucket.
-/
namespace VerifModel.C12
open VerifModel VerifModel.Calendar VerifModel.Axis VerifModel.TimeLabel VerifModel.C11Cal
  VerifModel.Spec.Cal VerifModel.C11

/-! ### digits -/

private theorem digitFin_inj : ∀ x y : Fin 10, digit x.val = digit y.val → x = y := by decide

private theorem digit_mod (n : Nat) : digit n = digit (n % 10) := by
  simp only [digit, Nat.mod_mod]

theorem digit_inj {a b : Nat} (h : digit a = digit b) : a % 10 = b % 10 := by
  rw [digit_mod a, digit_mod b] at h
  have := digitFin_inj ⟨a % 10, Nat.mod_lt _ (by decide)⟩ ⟨b % 10, Nat.mod_lt _ (by decide)⟩ h
  exact Fin.mk.inj_iff.1 this

theorem pad2_inj {a b : Nat} (ha : a < 100) (hb : b < 100) (h : pad2 a = pad2 b) : a = b := by
  simp only [pad2, List.cons.injEq, and_true] at h
  have h1 := digit_inj h.1
  have h2 := digit_inj h.2
  omega

theorem pad4_inj {a b : Nat} (ha : a < 10000) (hb : b < 10000) (h : pad4 a = pad4 b) : a = b := by
  simp only [pad4, List.cons.injEq, and_true] at h
  have h1 := digit_inj h.1
  have h2 := digit_inj h.2.1
  have h3 := digit_inj h.2.2.1
  have h4 := digit_inj h.2.2.2
  omega

/-! ### the instants of 1900-2100 -/

private theorem t_range (t : Int) (h0 : tLo ≤ t) (h1 : t < tEnd) :
    lo ≤ dayIndex t ∧ dayIndex t < lo + count ∧
      t = unixOfDays (dayIndex t) + (secOfDay t : Int) ∧ secOfDay t < 86400 := by
  simp only [dayIndex, secOfDay, unixOfDays, epoch, lo, count, tLo, tEnd] at *
  omega

private theorem facts (t : Int) (h0 : tLo ≤ t) (h1 : t < tEnd) : DayFacts (dayIndex t) (civil t) :=
  day_facts _ (t_range t h0 h1).1 (t_range t h0 h1).2.1

private theorem valid_bounds {c : Date} (h : validDate c = true) :
    1 ≤ c.m ∧ c.m ≤ 12 ∧ 1 ≤ c.d ∧ c.d ≤ 31 := by
  simp only [validDate, Bool.and_eq_true, decide_eq_true_eq] at h
  obtain ⟨⟨⟨h1, h2⟩, h3⟩, h4⟩ := h
  refine ⟨h1, h2, h3, ?_⟩
  have : daysInMonth c.y c.m ≤ 31 := by
    unfold daysInMonth; split <;> (try split) <;> omega
  omega

private theorem label_pos (k : Kind) (t : Int) (h0 : tLo ≤ t) (h1 : t < tEnd) :
    label k t =
      match k with
      | .time => some (ymdChars '-' (civil t) ++ ' ' :: hmsChars t)
      | .day => some (ymdChars '/' (civil t))
      | .month => some (pad4 (civil t).y ++ '/' :: pad2 (civil t).m)
      | .year => some (pad4 (civil t).y)
      | .week => some (pad4 (civil t).y ++ '/' :: pad2 (weekU t))
      | _ => none := by
  have F := facts t h0 h1
  have hy : 1000 ≤ (civil t).y ∧ (civil t).y ≤ 9999 := ⟨by have := F.ylo; omega, by have := F.yhi; omega⟩
  cases k <;> simp only [label, if_pos hy]

private theorem civil_eq_of_fields {t₁ t₂ : Int} (h0 : tLo ≤ t₁) (h1 : t₁ < tEnd) (h0' : tLo ≤ t₂)
    (h1' : t₂ < tEnd) (hy : pad4 (civil t₁).y = pad4 (civil t₂).y)
    (hm : pad2 (civil t₁).m = pad2 (civil t₂).m) (hd : pad2 (civil t₁).d = pad2 (civil t₂).d) :
    civil t₁ = civil t₂ := by
  have F₁ := facts t₁ h0 h1
  have F₂ := facts t₂ h0' h1'
  have b₁ := valid_bounds F₁.valid
  have b₂ := valid_bounds F₂.valid
  have ey := pad4_inj (by have := F₁.yhi; omega) (by have := F₂.yhi; omega) hy
  have em := pad2_inj (by omega) (by omega) hm
  have ed := pad2_inj (by omega) (by omega) hd
  generalize civil t₁ = c₁ at *
  generalize civil t₂ = c₂ at *
  cases c₁; cases c₂
  simp only at ey em ed
  subst ey em ed
  rfl

/-! ### `-x time` -/

/-- **The label of an initialisation time.**  For every whole second `t` of 1900-2100, with `c` the
textbook civil date of the UTC day containing `t` and `s` the second of that day
(`t = 86400·(day - epoch) + s`, `s = 3600·H + 60·M + S` with `H < 24`, `M < 60`, `S < 60`), the row
label of the slice `t` on the `time` axis is `YYYY-MM-DD HH:MM:SS` of exactly these numbers. -/
theorem C12_time_label (t : Int) (h0 : tLo ≤ t) (h1 : t < tEnd) :
    let c := textbookDate (dayIndex t)
    let s := secOfDay t
    let H := s / 3600
    let M := s / 60 % 60
    let S := s % 60
    label .time t = some (pad4 c.y ++ '-' :: pad2 c.m ++ '-' :: pad2 c.d ++ ' ' ::
        pad2 H ++ ':' :: pad2 M ++ ':' :: pad2 S) ∧
      validDate c = true ∧ 1900 ≤ c.y ∧ c.y ≤ 2100 ∧
      t = unixOfDays (dayIndex t) + (s : Int) ∧ s = 3600 * H + 60 * M + S ∧ H < 24 ∧ M < 60 ∧ S < 60 := by
  intro c s H M S
  have F := facts t h0 h1
  obtain ⟨_, _, hdec, hs⟩ := t_range t h0 h1
  have hc : civil t = c := F.textbook
  refine ⟨?_, ?_, ?_, ?_, hdec, ?_, ?_, ?_, ?_⟩
  · rw [label_pos .time t h0 h1, hc]
    simp only [ymdChars, hmsChars, hour, minute, second, List.append_assoc, List.cons_append]
    rfl
  · rw [← hc]; exact F.valid
  · rw [← hc]; exact F.ylo
  · rw [← hc]; exact F.yhi
  · show s = 3600 * (s / 3600) + 60 * (s / 60 % 60) + s % 60
    omega
  · show s / 3600 < 24
    have : s < 86400 := hs
    omega
  · show s / 60 % 60 < 60
    omega
  · show s % 60 < 60
    omega

/-- **The label identifies the slice.**  Two initialisation times of 1900-2100 with the same `-x time`
label are the same instant. -/
theorem C12_time_label_inj (t₁ t₂ : Int) (h0 : tLo ≤ t₁) (h1 : t₁ < tEnd) (h0' : tLo ≤ t₂)
    (h1' : t₂ < tEnd) (h : label .time t₁ = label .time t₂) : t₁ = t₂ := by
  rw [label_pos .time t₁ h0 h1, label_pos .time t₂ h0' h1'] at h
  simp only [ymdChars, hmsChars, Option.some.injEq, List.append_assoc, List.cons_append] at h
  obtain ⟨_, _, hdec₁, hs₁⟩ := t_range t₁ h0 h1
  obtain ⟨_, _, hdec₂, hs₂⟩ := t_range t₂ h0' h1'
  -- split the 19 characters into their fields
  have hlen : ∀ n, (pad4 n).length = 4 := fun _ => rfl
  have hy := List.append_inj_left h (by simp [hlen])
  have h := List.append_inj_right h (by simp [hlen])
  simp only [List.cons.injEq, true_and] at h
  have hlen2 : ∀ n, (pad2 n).length = 2 := fun _ => rfl
  have hm := List.append_inj_left h (by simp [hlen2])
  have h := List.append_inj_right h (by simp [hlen2])
  simp only [List.cons.injEq, true_and] at h
  have hd := List.append_inj_left h (by simp [hlen2])
  have h := List.append_inj_right h (by simp [hlen2])
  simp only [List.cons.injEq, true_and] at h
  have hH := List.append_inj_left h (by simp [hlen2])
  have h := List.append_inj_right h (by simp [hlen2])
  simp only [List.cons.injEq, true_and] at h
  have hM := List.append_inj_left h (by simp [hlen2])
  have h := List.append_inj_right h (by simp [hlen2])
  simp only [List.cons.injEq, true_and] at h
  have hc := civil_eq_of_fields h0 h1 h0' h1' hy hm hd
  have eH := pad2_inj (by simp only [hour]; omega) (by simp only [hour]; omega) hH
  have eM := pad2_inj (by simp only [minute]; omega) (by simp only [minute]; omega) hM
  have eS := pad2_inj (by simp only [second]; omega) (by simp only [second]; omega) h
  simp only [hour, minute, second] at eH eM eS
  have es : secOfDay t₁ = secOfDay t₂ := by omega
  have ez : dayIndex t₁ = dayIndex t₂ := by
    rw [← (facts t₁ h0 h1).roundtrip, ← (facts t₂ h0' h1').roundtrip, hc]
  rw [hdec₁, hdec₂, es, ez]

/-- the rows of a `-x time` table carry pairwise distinct labels: distinct initialisation times
(`data.times` is a set of instants) never print the same leading field -/
theorem C12_time_labels_nodup (ts : List Int) (hr : ∀ t ∈ ts, tLo ≤ t ∧ t < tEnd) (hn : ts.Nodup) :
    (ts.map (label .time)).Nodup := by
  induction ts with
  | nil => simp
  | cons t ts ih =>
    rw [List.nodup_cons] at hn
    rw [List.map_cons, List.nodup_cons]
    refine ⟨?_, ih (fun u hu => hr u (List.mem_cons_of_mem _ hu)) hn.2⟩
    intro hmem
    obtain ⟨u, hu, hlab⟩ := List.mem_map.1 hmem
    have ht := hr t (List.mem_cons_self ..)
    have hu' := hr u (List.mem_cons_of_mem _ hu)
    have := C12_time_label_inj u t hu'.1 hu'.2 ht.1 ht.2 hlab
    exact hn.1 (this ▸ hu)

/-- non-vacuity and the seeded case: the 00 and 12 UTC runs of 2018-01-01 -/
example : label .time 1514764800 = some "2018-01-01 00:00:00".toList ∧
    label .time 1514808000 = some "2018-01-01 12:00:00".toList ∧
    label .time 951827696 = some "2000-02-29 12:34:56".toList ∧
    label .week 1325376000 = some "2012/01".toList ∧ label .week 1325289600 = some "2011/52".toList := by
  decide +kernel
example := C12_time_label 1514808000 (by decide) (by decide)

/-! ### `-x day`, `-x month`, `-x year` -/

private theorem dayIndex_unixOfDays (z : Nat) : dayIndex (unixOfDays z) = z := by
  simp only [dayIndex, unixOfDays, epoch]; omega

/-- the label printed for a bucket (the label of its first instant, which is the axis value) is the
label of every instant in it -/
theorem C12_bucket_label (t : Int) (h0 : tLo ≤ t) (h1 : t < tEnd) :
    label .day (dayStart t) = label .day t ∧ label .month (monthStart t) = label .month t ∧
      label .year (yearStart t) = label .year t := by
  have F := facts t h0 h1
  have hy : 1000 ≤ (civil t).y ∧ (civil t).y ≤ 9999 := ⟨by have := F.ylo; omega, by have := F.yhi; omega⟩
  have e1 : civil (dayStart t) = civil t := by
    simp only [civil, dayStart, dayIndex_unixOfDays]
    have := F.roundtrip
    simp only [civil] at this
    rw [this]
  have e2 : civil (monthStart t) = ⟨(civil t).y, (civil t).m, 1⟩ := by
    simp only [civil, monthStart, dayIndex_unixOfDays]
    exact F.month_civil
  have e3 : civil (yearStart t) = ⟨(civil t).y, 1, 1⟩ := by
    simp only [civil, yearStart, dayIndex_unixOfDays]
    exact F.year_civil
  refine ⟨?_, ?_, ?_⟩
  · simp only [label, e1]
  · simp only [label, e2, if_pos hy]
  · simp only [label, e3, if_pos hy]

/-- two instants of 1900-2100 get the same day / month / year label exactly when they lie in the same
day / month / year bucket (slice) -/
theorem C12_bucket_label_iff (t₁ t₂ : Int) (h0 : tLo ≤ t₁) (h1 : t₁ < tEnd) (h0' : tLo ≤ t₂)
    (h1' : t₂ < tEnd) :
    (label .day t₁ = label .day t₂ ↔ dayStart t₁ = dayStart t₂) ∧
    (label .month t₁ = label .month t₂ ↔ monthStart t₁ = monthStart t₂) ∧
    (label .year t₁ = label .year t₂ ↔ yearStart t₁ = yearStart t₂) := by
  have F₁ := facts t₁ h0 h1
  have F₂ := facts t₂ h0' h1'
  have b₁ := valid_bounds F₁.valid
  have b₂ := valid_bounds F₂.valid
  have hlen : ∀ n, (pad4 n).length = 4 := fun _ => rfl
  have hlen2 : ∀ n, (pad2 n).length = 2 := fun _ => rfl
  have hinj : ∀ a b : Nat, unixOfDays a = unixOfDays b → a = b := by
    intro a b h; simp only [unixOfDays] at h; omega
  refine ⟨⟨?_, ?_⟩, ⟨?_, ?_⟩, ⟨?_, ?_⟩⟩
  · intro h
    rw [label_pos .day t₁ h0 h1, label_pos .day t₂ h0' h1'] at h
    simp only [ymdChars, Option.some.injEq, List.append_assoc, List.cons_append] at h
    have hy := List.append_inj_left h (by simp [hlen])
    have h := List.append_inj_right h (by simp [hlen])
    simp only [List.cons.injEq, true_and] at h
    have hm := List.append_inj_left h (by simp [hlen2])
    have h := List.append_inj_right h (by simp [hlen2])
    simp only [List.cons.injEq, true_and] at h
    simp only [dayStart, civil_eq_of_fields h0 h1 h0' h1' hy hm h]
  · intro h
    have e : daysOf (civil t₁) = daysOf (civil t₂) := hinj _ _ h
    have ez : dayIndex t₁ = dayIndex t₂ := by rw [← F₁.roundtrip, ← F₂.roundtrip]; exact e
    have : civil t₁ = civil t₂ := by simp only [civil, ez]
    simp only [label, this]
  · intro h
    rw [label_pos .month t₁ h0 h1, label_pos .month t₂ h0' h1'] at h
    simp only [Option.some.injEq] at h
    have hy := List.append_inj_left h (by simp [hlen])
    have h := List.append_inj_right h (by simp [hlen])
    simp only [List.cons.injEq, true_and] at h
    have ey := pad4_inj (by have := F₁.yhi; omega) (by have := F₂.yhi; omega) hy
    have em := pad2_inj (by omega) (by omega) h
    simp only [monthStart, ey, em]
  · intro h
    have e : daysFromCivil (civil t₁).y (civil t₁).m 1 = daysFromCivil (civil t₂).y (civil t₂).m 1 :=
      hinj _ _ h
    have c₁ := F₁.month_civil
    have c₂ := F₂.month_civil
    rw [e] at c₁
    have := c₁.symm.trans c₂
    simp only [Date.mk.injEq, and_true] at this
    rw [label_pos .month t₁ h0 h1, label_pos .month t₂ h0' h1']
    simp only [this.1, this.2]
  · intro h
    rw [label_pos .year t₁ h0 h1, label_pos .year t₂ h0' h1'] at h
    simp only [Option.some.injEq] at h
    have ey := pad4_inj (by have := F₁.yhi; omega) (by have := F₂.yhi; omega) h
    simp only [yearStart, ey]
  · intro h
    have e : daysFromCivil (civil t₁).y 1 1 = daysFromCivil (civil t₂).y 1 1 := hinj _ _ h
    have c₁ := F₁.year_civil
    have c₂ := F₂.year_civil
    rw [e] at c₁
    have := c₁.symm.trans c₂
    simp only [Date.mk.injEq, and_true] at this
    rw [label_pos .year t₁ h0 h1, label_pos .year t₂ h0' h1']
    simp only [this]

/-! ### `-x week`

`Week.fmt` is `%Y/%U` — `%U` numbers the weeks that start on SUNDAY — while the `week` bucket of
`axis.Week.compute_from_times` is the MONDAY-based week (`d - timedelta(days=d.weekday())`).  The full
statement "two instants get the same week label exactly when they lie in the same week bucket" is
therefore FALSE (`C12_week_label_iff_false`, concrete witnesses, replayed on the real tool: a Sunday
carries the label of the week that starts the day after, and a week that contains 1 January carries two
labels).  What holds, and is what a table shows, is proved below: the labels that are PRINTED (the
label of the bucket's first instant, a Monday) are pairwise distinct for distinct week buckets
(`C12_week_label_printed`), and an instant's own `%Y/%U` label is the label printed for its bucket
exactly when the instant is not on a Sunday and lies in the same year as the Monday of its week
(`C12_week_label_own`); for such instants the full equivalence holds (`C12_week_label_iff_partial`). -/

/-- the full-strength statement (FALSE, see `C12_week_label_iff_false`): on every whole second of
1900-2100 two instants have the same `-x week` label iff they are in the same week bucket -/
def WeekLabelIff : Prop :=
  ∀ t₁ t₂ : Int, tLo ≤ t₁ → t₁ < tEnd → tLo ≤ t₂ → t₂ < tEnd →
    (label .week t₁ = label .week t₂ ↔ weekStart t₁ = weekStart t₂)

/-- **Two different weeks, one label.**  2012-01-01T00:00Z (a Sunday) and 2012-01-02T00:00Z (the Monday
after) both have the label `2012/01`, but lie in the week buckets of Monday 2011-12-26 and of Monday
2012-01-02. -/
theorem C12_week_same_label_two_weeks :
    label .week 1325376000 = some "2012/01".toList ∧ label .week 1325462400 = some "2012/01".toList ∧
      weekStart 1325376000 = 1324857600 ∧ weekStart 1325462400 = 1325462400 := by
  decide +kernel

/-- **One week, two labels.**  Saturday 2011-12-31 and Sunday 2012-01-01 lie in the same week bucket
(Monday 2011-12-26) and have the labels `2011/52` and `2012/01`. -/
theorem C12_week_one_week_two_labels :
    weekStart 1325289600 = weekStart 1325376000 ∧
      label .week 1325289600 = some "2011/52".toList ∧ label .week 1325376000 = some "2012/01".toList := by
  decide +kernel

/-- the negation of the full statement, on the first witness -/
theorem C12_week_label_iff_false : ¬ WeekLabelIff := by
  intro h
  have hw := C12_week_same_label_two_weeks
  have := (h 1325376000 1325462400 (by decide) (by decide) (by decide) (by decide)).1
    (by rw [hw.1, hw.2.1])
  rw [hw.2.2.1, hw.2.2.2] at this
  exact absurd this (by decide)

/-- a year has at most 366 days -/
private theorem year_len (y : Nat) (hy : 1 ≤ y) :
    daysFromCivil (y + 1) 1 1 ≤ daysFromCivil y 1 1 + 366 := by
  simp only [daysFromCivil]
  simp only [show (1 : Nat) ≤ 2 from by decide, show ¬ (1 : Nat) > 2 from by decide, if_true, if_false]
  omega

private theorem weekU_lt (t : Int) (h0 : tLo ≤ t) (h1 : t < tEnd) : weekU t < 100 := by
  have F := facts t h0 h1
  have h1' := F.year_le
  have h2 := F.year_lt
  have h3 := year_len (civil t).y (by have := F.ylo; omega)
  have hw : wdaySun t < 7 := Nat.mod_lt _ (by decide)
  simp only [weekU, yday]
  omega

/-- equal week labels = equal year and equal `%U` number -/
private theorem week_label_eq_iff (t₁ t₂ : Int) (h0 : tLo ≤ t₁) (h1 : t₁ < tEnd) (h0' : tLo ≤ t₂)
    (h1' : t₂ < tEnd) :
    label .week t₁ = label .week t₂ ↔ (civil t₁).y = (civil t₂).y ∧ weekU t₁ = weekU t₂ := by
  have F₁ := facts t₁ h0 h1
  have F₂ := facts t₂ h0' h1'
  rw [label_pos .week t₁ h0 h1, label_pos .week t₂ h0' h1']
  simp only [Option.some.injEq]
  constructor
  · intro h
    have hlen : ∀ n, (pad4 n).length = 4 := fun _ => rfl
    have hy := List.append_inj_left h (by simp [hlen])
    have h := List.append_inj_right h (by simp [hlen])
    simp only [List.cons.injEq, true_and] at h
    exact ⟨pad4_inj (by have := F₁.yhi; omega) (by have := F₂.yhi; omega) hy,
      pad2_inj (weekU_lt t₁ h0 h1) (weekU_lt t₂ h0' h1') h⟩
  · intro h
    rw [h.1, h.2]

/-- the week bucket of an instant of 1900-2100: day number, range, weekday (1900-01-01 is a Monday, so
the bucket of an instant of the range is in the range) -/
private theorem weekStart_facts (t : Int) (h0 : tLo ≤ t) (h1 : t < tEnd) :
    weekStart t = unixOfDays (dayIndex t - weekday (dayIndex t)) ∧
      dayIndex (weekStart t) = dayIndex t - weekday (dayIndex t) ∧
      tLo ≤ weekStart t ∧ weekStart t < tEnd := by
  have W := C11_week t h0 h1
  simp only at W
  obtain ⟨hz0, hz1, _, _⟩ := t_range t h0 h1
  refine ⟨W.1, ?_, ?_, ?_⟩
  · rw [W.1, dayIndex_unixOfDays]
  · rw [W.1]
    simp only [unixOfDays, weekday, tLo, epoch, lo] at hz0 ⊢
    omega
  · have := W.2.2.2.1
    omega

/-- **The printed week labels identify the rows.**  The label a table shows for a week bucket is the
label of the bucket's first instant (its Monday, the axis value); for instants of 1900-2100 two
buckets are shown with the same label iff they are the same bucket — no two rows of a `-x week`
table share their leading field. -/
theorem C12_week_label_printed (t₁ t₂ : Int) (h0 : tLo ≤ t₁) (h1 : t₁ < tEnd) (h0' : tLo ≤ t₂)
    (h1' : t₂ < tEnd) :
    label .week (weekStart t₁) = label .week (weekStart t₂) ↔ weekStart t₁ = weekStart t₂ := by
  constructor
  · intro h
    obtain ⟨e₁, d₁, r₁, s₁⟩ := weekStart_facts t₁ h0 h1
    obtain ⟨e₂, d₂, r₂, s₂⟩ := weekStart_facts t₂ h0' h1'
    have hh := (week_label_eq_iff _ _ r₁ s₁ r₂ s₂).1 h
    have G₁ := facts _ r₁ s₁
    have G₂ := facts _ r₂ s₂
    have a₁ := G₁.year_le
    have a₂ := G₂.year_le
    have hy := hh.1
    have hu := hh.2
    simp only [weekU, yday, wdaySun] at hu
    rw [hy] at a₁ hu
    rw [d₁] at a₁ hu
    rw [d₂] at a₂ hu
    have hz : dayIndex t₁ - weekday (dayIndex t₁) = dayIndex t₂ - weekday (dayIndex t₂) := by
      obtain ⟨l₁, _, _, _⟩ := t_range t₁ h0 h1
      obtain ⟨l₂, _, _, _⟩ := t_range t₂ h0' h1'
      simp only [weekday, lo] at *
      omega
    rw [e₁, e₂, hz]
  · intro h
    rw [h]

/-- **Headline (row level): the rows of a `-x week` table carry pairwise distinct labels, and one
bucket has one label.**  The axis values of the `week` axis are the bucket starts `weekStart t` of the
verified initialisation times `ts` (`np.unique`, so pairwise distinct); the leading field printed for a
bucket is a function of the bucket alone (the label of its Monday), and distinct buckets print distinct
labels.  So the leading field identifies the slice, which is what C12 asks; that the number shown is the
`%U` (Sunday-based) week number of that Monday is a matter of convention (see above). -/
theorem C12_week_rows_distinct (ts : List Int) (hr : ∀ t ∈ ts, tLo ≤ t ∧ t < tEnd)
    (bs : List Int) (hb : ∀ b ∈ bs, ∃ t ∈ ts, b = weekStart t) (hn : bs.Nodup) :
    (bs.map (label .week)).Nodup ∧
    ∀ t₁ ∈ ts, ∀ t₂ ∈ ts, (weekStart t₁ = weekStart t₂ →
        label .week (weekStart t₁) = label .week (weekStart t₂)) ∧
      (weekStart t₁ ≠ weekStart t₂ → label .week (weekStart t₁) ≠ label .week (weekStart t₂)) := by
  constructor
  · induction bs with
    | nil => simp
    | cons b bs ih =>
      rw [List.nodup_cons] at hn
      rw [List.map_cons, List.nodup_cons]
      refine ⟨?_, ih (fun u hu => hb u (List.mem_cons_of_mem _ hu)) hn.2⟩
      intro hmem
      obtain ⟨u, hu, hlab⟩ := List.mem_map.1 hmem
      obtain ⟨t, ht, rfl⟩ := hb b (List.mem_cons_self ..)
      obtain ⟨t', ht', rfl⟩ := hb u (List.mem_cons_of_mem _ hu)
      have := (C12_week_label_printed t' t (hr t' ht').1 (hr t' ht').2 (hr t ht).1 (hr t ht).2).1 hlab
      exact hn.1 (this ▸ hu)
  · intro t₁ h₁ t₂ h₂
    have := C12_week_label_printed t₁ t₂ (hr t₁ h₁).1 (hr t₁ h₁).2 (hr t₂ h₂).1 (hr t₂ h₂).2
    exact ⟨fun e => this.2 e, fun ne e => ne (this.1 e)⟩

/-- non-vacuity: the four initialisation times of the witness file (Sat 2011-12-31, Sun 2012-01-01,
Mon 2012-01-02, Sun 2012-01-08) make two week rows, labelled 2011/52 and 2012/01 -/
example : [1325289600, 1325376000, 1325462400, 1325980800].map weekStart =
      [1324857600, 1324857600, 1325462400, 1325462400] ∧
    [1324857600, 1325462400].map (label .week) = [some "2011/52".toList, some "2012/01".toList] := by
  decide +kernel
example := C12_week_rows_distinct [1325289600, 1325376000, 1325462400, 1325980800]
  (by intro t ht; simp only [List.mem_cons, List.not_mem_nil, or_false] at ht
      rcases ht with rfl | rfl | rfl | rfl <;> decide)
  [1324857600, 1325462400]

/-- an instant's own `%Y/%U` label is the one its week row shows -/
def WeekLabelAgrees (t : Int) : Prop :=
  weekday (dayIndex t) ≠ 6 ∧ (civil t).y = (civil (weekStart t)).y

/-- **Which instants carry the label of their week row.**  For an instant of 1900-2100 the label
`%Y/%U` of the instant itself equals the label printed for its week bucket iff the instant is not on a
Sunday (weekday 6, Monday = 0) and lies in the same year as the Monday of its week.  Every Sunday,
and the days before the first Monday-week boundary after New Year, are reported in a row that shows
another label. -/
theorem C12_week_label_own (t : Int) (h0 : tLo ≤ t) (h1 : t < tEnd) :
    label .week t = label .week (weekStart t) ↔ WeekLabelAgrees t := by
  obtain ⟨e, d, r, s⟩ := weekStart_facts t h0 h1
  have F := facts t h0 h1
  have G := facts _ r s
  have a := F.year_le
  have b := G.year_le
  rw [week_label_eq_iff t _ h0 h1 r s]
  simp only [WeekLabelAgrees, weekU, yday, wdaySun]
  rw [d] at b ⊢
  obtain ⟨l, _, _, _⟩ := t_range t h0 h1
  constructor
  · intro ⟨hy, hu⟩
    refine ⟨?_, hy⟩
    rw [← hy] at b hu
    simp only [weekday, lo] at *
    omega
  · intro ⟨hw, hy⟩
    refine ⟨hy, ?_⟩
    rw [← hy] at b ⊢
    simp only [weekday, lo] at *
    omega

/-- **`C12_week_label_iff`, the part that holds** (the full statement `WeekLabelIff` is false,
`C12_week_label_iff_false`; missing: instants on a Sunday and instants of a week's tail that falls into
the next year): for instants of 1900-2100 whose own label is the label of their week row, equal labels
⇔ same week bucket. -/
theorem C12_week_label_iff_partial (t₁ t₂ : Int) (h0 : tLo ≤ t₁) (h1 : t₁ < tEnd) (h0' : tLo ≤ t₂)
    (h1' : t₂ < tEnd) (a₁ : WeekLabelAgrees t₁) (a₂ : WeekLabelAgrees t₂) :
    label .week t₁ = label .week t₂ ↔ weekStart t₁ = weekStart t₂ := by
  rw [(C12_week_label_own t₁ h0 h1).2 a₁, (C12_week_label_own t₂ h0' h1').2 a₂]
  exact C12_week_label_printed t₁ t₂ h0 h1 h0' h1'

/-- non-vacuity: Tuesday 2012-01-03T06:00Z and Saturday 2012-01-07T18:00Z agree with their week row
(Monday 2012-01-02, label 2012/01) -/
example : WeekLabelAgrees 1325570400 ∧ WeekLabelAgrees 1325959200 ∧
    weekStart 1325570400 = 1325462400 ∧ weekStart 1325959200 = 1325462400 ∧
    label .week 1325570400 = some "2012/01".toList := by
  unfold WeekLabelAgrees
  decide +kernel
example := C12_week_label_iff_partial 1325570400 1325959200 (by decide) (by decide) (by decide) (by decide)
example := C12_week_label_printed 1325376000 1325462400 (by decide) (by decide) (by decide) (by decide)

end VerifModel.C12
