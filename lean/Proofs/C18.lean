import Proofs.Lemmas.Arr3
import VerifModel.Model.DataState
/-
  C18 — Query results are independent of query history and repeatable.

  The stateful model (two caches, arrays shared by reference, -obsrange applied
  in place) always answers what the pure model `DataS.getScores` answers for
  the same request on a fresh dataset: an invariant over reachable states,
  induction over the request history.
-/
namespace VerifModel.C18
open VerifModel XR

/-- the array the pure model assigns to (field, input) -/
def pureArr (arrs : List Arr3) (i : Nat) : Arr3 := (propagate arrs).getD i []

private theorem maskVal_idem (lo hi v : XR) :
    (fun v => if XR.lt v lo || XR.gt v hi then nan else v)
      ((fun v => if XR.lt v lo || XR.gt v hi then nan else v) v)
      = (fun v => if XR.lt v lo || XR.gt v hi then nan else v) v := by
  simp only
  by_cases h : (XR.lt v lo || XR.gt v hi) = true
  · simp only [h, if_true]
    have : (XR.lt nan lo || XR.gt nan hi) = false := by cases lo <;> cases hi <;> rfl
    simp [this]
  · simp [h]

theorem maskObsRange_idem (r : Option (XR × XR)) (name : String) (a : Arr3) :
    maskObsRange r name (maskObsRange r name a) = maskObsRange r name a := by
  unfold maskObsRange
  cases r with
  | none => rfl
  | some p =>
    obtain ⟨lo, hi⟩ := p
    simp only
    split
    · simp only [Arr3.map, List.map_map]
      congr 1; funext row; simp only [Function.comp, List.map_map]
      congr 1; funext r; simp only [Function.comp, List.map_map]
      congr 1; funext v
      exact maskVal_idem lo hi v
    · rfl

/-- equal input arrays are propagated to equal arrays -/
theorem pureArr_alias (arrs : List Arr3) (i j : Nat) (h : arrs[i]? = arrs[j]?) (hi : i < arrs.length) :
    pureArr arrs i = pureArr arrs j := by
  unfold pureArr propagate
  simp only [List.getD_eq_getElem?_getD, List.getElem?_map, h]

/-- State invariant. -/
structure Inv (D : DataS) (s : DState) : Prop where
  /-- every cached reference points at the propagated array of that field and input, possibly
  already masked by -obsrange -/
  sound : ∀ name i r, s.cache name i = some r →
    ∃ arrs a, D.loadAll name = .ok arrs ∧ i < D.inputs.length ∧ s.store[r]? = some a ∧
      (a = pureArr arrs i ∨ a = maskObsRange D.cfg.obsRange name (pureArr arrs i))
  /-- two cache entries share a reference only for the same field and equal arrays -/
  alias : ∀ name i name' j r, s.cache name i = some r → s.cache name' j = some r →
    name = name' ∧ ∀ arrs, D.loadAll name = .ok arrs → pureArr arrs i = pureArr arrs j
  /-- cached answers are the pure answers -/
  answers : ∀ r ans, s.answers r = some ans → D.getScores r = .ok ans

theorem inv_init (D : DataS) : Inv D DState.init :=
  ⟨fun _ _ _ h => by simp [DState.init] at h, fun _ _ _ _ _ h => by simp [DState.init] at h,
   fun _ _ h => by simp [DState.init] at h⟩

/-- arrays of inputs with the same owner are the same array -/
theorem loadAll_owner (D : DataS) (name : String) (arrs : List Arr3) (h : D.loadAll name = .ok arrs)
    (i j : Nat) (hi : i < D.inputs.length) (hj : j < D.inputs.length)
    (ho : D.ownerOf name i = D.ownerOf name j) : arrs[i]? = arrs[j]? := by
  simp only [DataS.loadAll] at h
  unfold DataS.ownerOf at ho
  by_cases hn : (name == "obs") = true
  · simp only [hn, if_true] at h ho
    split at h
    · injection h with h; subst h
      simp [List.getElem?_map, List.getElem?_range hi, List.getElem?_range hj, ho]
    · cases h
  · simp only [hn, Bool.false_eq_true, if_false] at h ho
    subst ho; rfl

theorem loadAll_length (D : DataS) (name : String) (arrs : List Arr3) (h : D.loadAll name = .ok arrs) :
    arrs.length = D.inputs.length := by
  simp only [DataS.loadAll] at h
  split at h
  · split at h
    · injection h with h; subst h; simp
    · cases h
  · split at h
    · injection h with h; subst h; simp
    · cases h

theorem ownerOf_lt (D : DataS) (name : String) (i : Nat) (hi : i < D.inputs.length) :
    D.ownerOf name i < D.inputs.length := by
  unfold DataS.ownerOf DataS.obsOwner
  split
  · split
    · exact hi
    · cases hf : (List.range D.inputs.length).find? fun j => ((D.inputs.getD j default).field? "obs").isSome with
      | none => simpa using hi
      | some j =>
        have := List.mem_of_find?_eq_some hf
        simpa using this
  · exact hi

theorem ownerOf_idem (D : DataS) (name : String) (i : Nat) :
    D.ownerOf name (D.ownerOf name i) = D.ownerOf name i := by
  unfold DataS.ownerOf
  split
  · unfold DataS.obsOwner
    split
    · rename_i h; simp [h]
    · cases hf : (List.range D.inputs.length).find? fun j => ((D.inputs.getD j default).field? "obs").isSome with
      | none => rename_i h; simp [h]
      | some j =>
        have := List.find?_some hf
        simp only [Option.getD_some]
        simp [this]
  · rfl

/-- `_get_score`: the reference returned points at the pure array (possibly masked); the
invariant is preserved; a failure is a failure of the pure loader. -/
theorem getRef_spec (D : DataS) (s : DState) (hinv : Inv D s) (name : String) (i : Nat)
    (hi : i < D.inputs.length) :
    (∀ s' r, D.getRef s name i = .ok (s', r) → Inv D s' ∧ s'.cache name i = some r
        ∧ s'.answers = s.answers)
    ∧ (∀ e, D.getRef s name i = .error e → D.loadAll name = .error e) := by
  unfold DataS.getRef
  cases hc : s.cache name i with
  | some r =>
    refine ⟨?_, by intro e h; cases h⟩
    intro s' r' h
    injection h with h
    injection h with h1 h2
    subst h1; subst h2
    exact ⟨hinv, hc, rfl⟩
  | none =>
    cases hl : D.loadAll name with
    | error e =>
      refine ⟨by intro s' r h; simp [bind, Except.bind] at h, ?_⟩
      intro e' h
      simp only [bind, Except.bind] at h
      injection h with h; subst h; rfl
    | ok arrs =>
      refine ⟨?_, by intro e h; simp [bind, Except.bind] at h⟩
      intro s' r h
      simp only [bind, Except.bind] at h
      injection h with h
      injection h with h1 h2
      subst h1; subst h2
      have hlen := loadAll_length D name arrs hl
      have hplen : (propagate arrs).length = D.inputs.length := by simp [propagate, hlen]
      refine ⟨⟨?_, ?_, ?_⟩, by simp [hi], rfl⟩
      · -- sound
        intro f j r hr
        simp only at hr
        by_cases hf : (f == name && decide (j < D.inputs.length)) = true
        · simp only [hf, if_true] at hr
          injection hr with hr
          simp only [Bool.and_eq_true, beq_iff_eq, decide_eq_true_eq] at hf
          obtain ⟨hfn, hj⟩ := hf
          have hoj := ownerOf_lt D name j hj
          refine ⟨arrs, pureArr arrs j, by rw [hfn]; exact hl, hj, ?_, Or.inl rfl⟩
          rw [← hr, List.getElem?_append_right (Nat.le_add_right _ _)]
          simp only [Nat.add_sub_cancel_left]
          have hal := pureArr_alias arrs (D.ownerOf name j) j
            (loadAll_owner D name arrs hl _ _ hoj hj (ownerOf_idem D name j)) (by omega)
          unfold pureArr at hal ⊢
          simp only [List.getD_eq_getElem?_getD] at hal ⊢
          have hlt : D.ownerOf name j < (propagate arrs).length := by omega
          rw [List.getElem?_eq_getElem hlt] at hal ⊢
          simp only [Option.getD_some] at hal
          rw [hal]
        · simp only [hf, Bool.false_eq_true, if_false] at hr
          obtain ⟨arrs', a, h1, h2, h3, h4⟩ := hinv.sound f j r hr
          refine ⟨arrs', a, h1, h2, ?_, h4⟩
          have hrl : r < s.store.length := by
            rcases Nat.lt_or_ge r s.store.length with h | h
            · exact h
            · rw [List.getElem?_eq_none h] at h3; cases h3
          rw [List.getElem?_append_left hrl]; exact h3
      · -- alias
        intro f j f' j' r h1 h2
        simp only at h1 h2
        have old_lt : ∀ (g : String) (k : Nat) (r : Nat), s.cache g k = some r → r < s.store.length := by
          intro g k r hr
          obtain ⟨_, _, _, _, h3, _⟩ := hinv.sound g k r hr
          rcases Nat.lt_or_ge r s.store.length with h | h
          · exact h
          · rw [List.getElem?_eq_none h] at h3; cases h3
        by_cases hf : (f == name && decide (j < D.inputs.length)) = true <;>
          by_cases hf' : (f' == name && decide (j' < D.inputs.length)) = true
        · simp only [hf, hf', if_true] at h1 h2
          injection h1 with h1; injection h2 with h2
          simp only [Bool.and_eq_true, beq_iff_eq, decide_eq_true_eq] at hf hf'
          obtain ⟨hfn, hj⟩ := hf
          obtain ⟨hfn', hj'⟩ := hf'
          refine ⟨hfn.trans hfn'.symm, ?_⟩
          intro arrs' hl'
          rw [hfn] at hl'
          have ho : D.ownerOf name j = D.ownerOf name j' := by omega
          exact pureArr_alias arrs' j j' (loadAll_owner D name arrs' hl' j j' hj hj' ho)
            (by rw [loadAll_length D name arrs' hl']; exact hj)
        · simp only [hf, if_true, hf', Bool.false_eq_true, if_false] at h1 h2
          injection h1 with h1
          have hlt := old_lt f' j' r h2
          exfalso; omega
        · simp only [hf', if_true, hf, Bool.false_eq_true, if_false] at h1 h2
          injection h2 with h2
          have := old_lt f j r h1
          exfalso; omega
        · simp only [hf, hf', Bool.false_eq_true, if_false] at h1 h2
          exact hinv.alias f j f' j' r h1 h2
      · exact hinv.answers

theorem maskObsRange_other (r : Option (XR × XR)) (name : String) (h : name ≠ "obs") (a : Arr3) :
    maskObsRange r name a = a := by
  unfold maskObsRange
  cases r with
  | none => rfl
  | some p => simp [h]

/-- Fetching one field's array: the value handed on is the pure array with -obsrange applied,
whatever happened before; the invariant survives the in-place masking (aliases included). -/
theorem getArr_spec (D : DataS) (s : DState) (hinv : Inv D s) (name : String) (i : Nat)
    (hi : i < D.inputs.length) :
    (∀ s' a, D.getArr s name i = .ok (s', a) → Inv D s' ∧ s'.answers = s.answers
        ∧ ∃ arrs, D.loadAll name = .ok arrs ∧ a = maskObsRange D.cfg.obsRange name (pureArr arrs i))
    ∧ (∀ e, D.getArr s name i = .error e → D.loadAll name = .error e) := by
  obtain ⟨hok, herr⟩ := getRef_spec D s hinv name i hi
  unfold DataS.getArr
  cases hg : D.getRef s name i with
  | error e =>
    refine ⟨by intro s' a h; simp [bind, Except.bind] at h, ?_⟩
    intro e' h
    simp only [bind, Except.bind] at h
    injection h with h; subst h
    exact herr e hg
  | ok p =>
    obtain ⟨s1, r⟩ := p
    obtain ⟨hinv1, hc1, hans1⟩ := hok s1 r hg
    refine ⟨?_, by intro e h; simp [bind, Except.bind] at h⟩
    intro s' a h
    simp only [bind, Except.bind] at h
    injection h with h
    injection h with h1 h2
    obtain ⟨arrs, a0, hl, _, hst, ha0⟩ := hinv1.sound name i r hc1
    have hget : s1.store.getD r [] = a0 := by simp [List.getD_eq_getElem?_getD, hst]
    have hval : maskObsRange D.cfg.obsRange name a0 = maskObsRange D.cfg.obsRange name (pureArr arrs i) := by
      rcases ha0 with h | h
      · rw [h]
      · rw [h, maskObsRange_idem]
    rw [hget] at h1 h2
    subst h1; subst h2
    refine ⟨⟨?_, ?_, ?_⟩, hans1, arrs, hl, hval⟩
    · intro f j r' hr'
      simp only at hr'
      obtain ⟨arrs', a', hl', hj, hst', ha'⟩ := hinv1.sound f j r' hr'
      by_cases hrr : r' = r
      · subst hrr
        obtain ⟨hfn, hal⟩ := hinv1.alias f j name i r' hr' hc1
        subst hfn
        have harr : arrs' = arrs := by rw [hl'] at hl; injection hl
        subst harr
        have hrl : r' < s1.store.length := by
          rcases Nat.lt_or_ge r' s1.store.length with h | h
          · exact h
          · rw [List.getElem?_eq_none h] at hst; cases hst
        refine ⟨arrs', maskObsRange D.cfg.obsRange f a0, hl', hj,
          by simp [List.getElem?_set_self hrl], Or.inr ?_⟩
        rw [hval, hal arrs' hl']
      · refine ⟨arrs', a', hl', hj, ?_, ha'⟩
        simp only
        rw [List.getElem?_set_ne (Ne.symm hrr)]; exact hst'
    · intro f j f' j' r' h1 h2; exact hinv1.alias f j f' j' r' h1 h2
    · intro q ans hq; exact hinv1.answers q ans (by simpa using hq)

/-- The columns computed through the caches are the pure columns. -/
theorem colsS_spec (D : DataS) (r : Req) (clim : Option Vec) (hi : r.input < D.inputs.length)
    (fields : List String) :
    ∀ s, Inv D s →
      (∀ s' cols, D.colsS r clim s fields = .ok (s', cols) →
        Inv D s' ∧ s'.answers = s.answers ∧ fields.mapM (D.column r clim) = .ok cols)
      ∧ (∀ e, D.colsS r clim s fields = .error e → ∃ e', fields.mapM (D.column r clim) = .error e') := by
  induction fields with
  | nil =>
    intro s hinv
    refine ⟨?_, by intro e h; simp [DataS.colsS] at h⟩
    intro s' cols h
    simp only [DataS.colsS] at h
    injection h with h; injection h with h1 h2
    subst h1; subst h2
    exact ⟨hinv, rfl, rfl⟩
  | cons name rest ih =>
    intro s hinv
    obtain ⟨hok, herr⟩ := getArr_spec D s hinv name r.input hi
    have hcol : ∀ arrs, D.loadAll name = .ok arrs →
        D.column r clim name = .ok (climAdjust D.cfg.climDivide name
          (applySel (maskObsRange D.cfg.obsRange name (pureArr arrs r.input)) r.sel) clim) := by
      intro arrs hl
      simp [DataS.column, DataS.fieldArr, hl, bind, Except.bind, pure, Except.pure, pureArr]
    have hcolerr : ∀ e, D.loadAll name = .error e → D.column r clim name = .error e := by
      intro e hl
      simp [DataS.column, DataS.fieldArr, hl, bind, Except.bind]
    simp only [DataS.colsS]
    cases hg : D.getArr s name r.input with
    | error e =>
      refine ⟨by intro s' cols h; simp [bind, Except.bind] at h, ?_⟩
      intro e' _
      refine ⟨e, ?_⟩
      simp [List.mapM_cons, hcolerr e (herr e hg), bind, Except.bind]
    | ok p =>
      obtain ⟨s1, a⟩ := p
      obtain ⟨hinv1, hans1, arrs, hl, ha⟩ := hok s1 a hg
      obtain ⟨ihok, iherr⟩ := ih s1 hinv1
      simp only [bind, Except.bind]
      cases hrest : D.colsS r clim s1 rest with
      | error e =>
        refine ⟨by intro s' cols h; simp at h, ?_⟩
        intro e' _
        obtain ⟨e'', he''⟩ := iherr e hrest
        refine ⟨e'', ?_⟩
        simp [List.mapM_cons, hcol arrs hl, he'', bind, Except.bind]
      | ok q =>
        obtain ⟨s2, cols⟩ := q
        obtain ⟨hinv2, hans2, hm⟩ := ihok s2 cols hrest
        refine ⟨?_, by intro e h; simp at h⟩
        intro s' cols' h
        injection h with h; injection h with h1 h2
        subst h1; subst h2
        refine ⟨hinv2, hans2.trans hans1, ?_⟩
        simp [List.mapM_cons, hcol arrs hl, hm, bind, Except.bind, pure, Except.pure, ha]

theorem climS_spec (D : DataS) (s : DState) (hinv : Inv D s) (r : Req) (hpos : 0 < D.inputs.length) :
    (∀ s1 clim, D.climS s r = .ok (s1, clim) →
        Inv D s1 ∧ s1.answers = s.answers ∧ D.climP r = .ok clim)
    ∧ (∀ e, D.climS s r = .error e → ∃ e', D.climP r = .error e') := by
  have hlast : D.inputs.length - 1 < D.inputs.length := by omega
  unfold DataS.climS DataS.climP
  by_cases hd : D.doClim r = true
  · simp only [hd, if_true]
    obtain ⟨hok, herr⟩ := getRef_spec D s hinv "fcst" (D.inputs.length - 1) hlast
    cases hg : D.getRef s "fcst" (D.inputs.length - 1) with
    | error e =>
      refine ⟨by intro s1 clim h; simp at h, ?_⟩
      intro e' _
      refine ⟨e, ?_⟩
      simp [DataS.fieldArr, herr e hg, bind, Except.bind]
    | ok p =>
      obtain ⟨s1', ref⟩ := p
      refine ⟨?_, by intro e h; simp at h⟩
      intro s1 clim h
      injection h with h; injection h with h1 h2
      subst h1; subst h2
      obtain ⟨hinv1, hc1, hans1⟩ := hok s1' ref hg
      obtain ⟨arrs, a0, hl, _, hst, ha0⟩ := hinv1.sound "fcst" _ ref hc1
      have hget : s1'.store.getD ref [] = pureArr arrs (D.inputs.length - 1) := by
        simp only [List.getD_eq_getElem?_getD, hst, Option.getD_some]
        rcases ha0 with h | h
        · exact h
        · rw [h, maskObsRange_other _ _ (by decide)]
      refine ⟨hinv1, hans1, ?_⟩
      rw [hget]
      simp [DataS.fieldArr, hl, bind, Except.bind, pure, Except.pure, pureArr]
  · simp only [hd, Bool.false_eq_true, if_false]
    refine ⟨?_, by intro e h; simp at h⟩
    intro s1 clim h
    injection h with h; injection h with h1 h2
    subst h1; subst h2
    exact ⟨hinv, rfl, rfl⟩

/-- One request through the caches: same answer as the pure model on a fresh dataset, and the
invariant is preserved; if the request fails, the pure model fails too. -/
theorem step_spec (D : DataS) (hD : D.nScored ≤ D.inputs.length) (s : DState) (hinv : Inv D s)
    (r : Req) :
    (∀ s' ans, D.step s r = .ok (s', ans) → Inv D s' ∧ D.getScores r = .ok ans)
    ∧ (∀ e, D.step s r = .error e → ∃ e', D.getScores r = .error e') := by
  unfold DataS.step DataS.getScores
  cases hc : s.answers r with
  | some cached =>
    refine ⟨?_, by intro e h; simp at h⟩
    intro s' ans h
    injection h with h; injection h with h1 h2
    subst h1; subst h2
    have := hinv.answers r cached hc
    unfold DataS.getScores at this
    exact ⟨hinv, this⟩
  | none =>
    simp only
    by_cases hrange : r.input ≥ D.nScored
    · simp only [hrange, if_true]
      exact ⟨by intro s' ans h; simp at h, by intro e _; exact ⟨_, rfl⟩⟩
    · have hi : r.input < D.inputs.length := by omega
      simp only [hrange, if_false]
      obtain ⟨cok, cerr⟩ := climS_spec D s hinv r (by omega)
      cases hcs : D.climS s r with
      | error e =>
        obtain ⟨e', he'⟩ := cerr e hcs
        simp only [he']
        exact ⟨by intro s' ans h; simp at h, by intro e _; exact ⟨_, rfl⟩⟩
      | ok p =>
        obtain ⟨s1, clim⟩ := p
        obtain ⟨hinv1, hans1, hcp⟩ := cok s1 clim hcs
        simp only [hcp]
        obtain ⟨kok, kerr⟩ := colsS_spec D r clim hi r.fields s1 hinv1
        cases hk : D.colsS r clim s1 r.fields with
        | error e =>
          obtain ⟨e', he'⟩ := kerr e hk
          simp only [he']
          exact ⟨by intro s' ans h; simp at h, by intro e _; exact ⟨_, rfl⟩⟩
        | ok q =>
          obtain ⟨s2, cols⟩ := q
          obtain ⟨hinv2, hans2, hm⟩ := kok s2 cols hk
          simp only [hm]
          refine ⟨?_, by intro e h; simp at h⟩
          intro s' ans h
          injection h with h; injection h with h1 h2
          subst h1; subst h2
          refine ⟨⟨hinv2.sound, hinv2.alias, ?_⟩, rfl⟩
          intro q ans hq
          simp only at hq
          by_cases hqr : q = r
          · subst hqr
            simp only [if_true] at hq
            injection hq with hq; subst hq
            unfold DataS.getScores
            simp [hrange, hcp, hm]
          · simp only [hqr, if_false] at hq
            exact hinv2.answers q ans hq

/-- **History independence.**  For every request history, every answer obtained through the
caches equals the answer of the pure model (a freshly built dataset) for that request alone —
whatever was asked before, in whatever order, however often. -/
theorem C18_history_independent (D : DataS) (hD : D.nScored ≤ D.inputs.length) :
    ∀ (rs : List Req) (s : DState), Inv D s →
      ∀ s' answers, D.run s rs = .ok (s', answers) →
        Inv D s' ∧ List.map (fun r => D.getScores r) rs = List.map Except.ok answers := by
  intro rs
  induction rs with
  | nil =>
    intro s hinv s' answers h
    simp only [DataS.run] at h
    injection h with h; injection h with h1 h2
    subst h1; subst h2
    exact ⟨hinv, rfl⟩
  | cons r rest ih =>
    intro s hinv s' answers h
    simp only [DataS.run, bind, Except.bind] at h
    cases hs : D.step s r with
    | error e => simp [hs] at h
    | ok p =>
      obtain ⟨s1, a⟩ := p
      simp only [hs] at h
      obtain ⟨hinv1, hpure⟩ := (step_spec D hD s hinv r).1 s1 a hs
      cases hr : D.run s1 rest with
      | error e => simp [hr] at h
      | ok q =>
        obtain ⟨s2, as⟩ := q
        simp only [hr] at h
        injection h with h; injection h with h1 h2
        subst h1; subst h2
        obtain ⟨hinv2, hrest⟩ := ih s1 hinv1 s2 as hr
        exact ⟨hinv2, by simp [hpure, hrest]⟩

/-- from the initial (empty-cache) state -/
theorem C18_from_fresh (D : DataS) (hD : D.nScored ≤ D.inputs.length) (rs : List Req)
    (s' : DState) (answers : List (List Vec)) (h : D.run DState.init rs = .ok (s', answers)) :
    List.map (fun r => D.getScores r) rs = List.map Except.ok answers :=
  (C18_history_independent D hD rs DState.init (inv_init D) s' answers h).2

/-- **Repeatability**: asking the same request twice in a row gives the same answer. -/
theorem C18_repeat (D : DataS) (hD : D.nScored ≤ D.inputs.length) (s : DState) (hinv : Inv D s)
    (r : Req) (s1 s2 : DState) (a1 a2 : List Vec)
    (h1 : D.step s r = .ok (s1, a1)) (h2 : D.step s1 r = .ok (s2, a2)) : a1 = a2 := by
  obtain ⟨hinv1, hp1⟩ := (step_spec D hD s hinv r).1 s1 a1 h1
  obtain ⟨_, hp2⟩ := (step_spec D hD s1 hinv1 r).1 s2 a2 h2
  rw [hp1] at hp2; injection hp2

/-- a failing request fails on a fresh dataset too (errors are not artefacts of the history) -/
theorem C18_errors_pure (D : DataS) (hD : D.nScored ≤ D.inputs.length) (s : DState) (hinv : Inv D s)
    (r : Req) (e : String) (h : D.step s r = .error e) : ∃ e', D.getScores r = .error e' :=
  (step_spec D hD s hinv r).2 e h

end VerifModel.C18
