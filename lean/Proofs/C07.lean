import VerifModel.Model.Interval
import VerifModel.Spec.Events
/-
  C07 — Event definitions (-b) are the documented open/closed intervals.
  Property theorems only (helper lemmas are local and private).
-/
namespace VerifModel.C07
open VerifModel XR

/-- The eight bin types denote exactly the documented events: the interval that
`get_intervals` builds for (b, t, u), asked about a finite value x, answers
`Spec.event b t u x`. -/
theorem C07_within_denotes (b : BinType) (t u x : Rat) :
    (intervalOf b (fin t) (fin u)).within (fin x) = some (decide (Spec.event b t u x)) := by
  cases b <;>
    simp [intervalOf, Interval.within, Interval.withinVal, Spec.event, XR.isNan, XR.gt, XR.lt,
      XR.eqb] <;> grind

/-- Missing values belong to no event: membership is masked, thresholding keeps NaN. -/
theorem C07_missing_no_event (I : Interval) : I.within nan = none := rfl

theorem C07_missing_threshold (b : BinType) (t u : XR) :
    applyThreshold b t (some u) nan = some nan := by
  cases b <;> rfl

/-- Binary thresholding agrees with interval membership for every finite or missing value. -/
theorem C07_threshold_agrees (b : BinType) (t u : Rat) (x : XR) (hx : x.isInf = false) :
    applyThreshold b (fin t) (some (fin u)) x =
      some (match (intervalOf b (fin t) (fin u)).within x with
            | none => nan
            | some v => boolToXR v) := by
  cases x with
  | nan => cases b <;> rfl
  | pinf => simp [XR.isInf] at hx
  | ninf => simp [XR.isInf] at hx
  | fin x =>
    cases b <;>
      simp [applyThreshold, intervalOf, Interval.within, Interval.withinVal, XR.isNan, XR.gt,
        XR.ge, XR.lt, XR.le, XR.eqb, boolToXR] <;> grind

/-- Thresholding denotes the documented event (1 = event, 0 = no event). -/
theorem C07_threshold_denotes (b : BinType) (t u x : Rat) :
    applyThreshold b (fin t) (some (fin u)) (fin x) =
      some (if Spec.event b t u x then fin 1 else fin 0) := by
  cases b <;>
    simp [applyThreshold, XR.isNan, XR.gt, XR.ge, XR.lt, XR.le, boolToXR, Spec.event] <;> grind

/-- below/above family needs no upper threshold; the within family is rejected without one. -/
theorem C07_threshold_needs_upper (b : BinType) (t x : XR) :
    (applyThreshold b t none x).isSome = !b.isWithin := by
  cases b <;> rfl

/-- `get_intervals`: one interval per threshold (below/above family) … -/
theorem C07_getIntervals_single (b : BinType) (hb : b.isWithin = false) (ts : List XR) :
    getIntervals b (some ts) = ts.map (fun t => intervalOf b t t) := by
  simp [getIntervals, hb]

/-- … and one per consecutive pair (within family); none without thresholds is the real line. -/
theorem C07_getIntervals_within (b : BinType) (hb : b.isWithin = true) (ts : List XR) :
    getIntervals b (some ts) = (pairs ts).map (fun p => intervalOf b p.1 p.2) := by
  simp [getIntervals, hb]

theorem C07_pairs_length (ts : List XR) : (pairs ts).length = ts.length - 1 := by
  induction ts with
  | nil => rfl
  | cons a rest ih =>
    cases rest with
    | nil => rfl
    | cons b rest => simp [pairs, ih]

theorem C07_getIntervals_none (b : BinType) (x : Rat) :
    (getIntervals b none).map (fun I => I.within (fin x)) = [some true] := by
  simp [getIntervals, Interval.within, Interval.withinVal, XR.isNan, XR.gt, XR.lt, XR.eqb]

/-- 'above' is the complement of 'below=' (and 'above=' of 'below') on non-missing values. -/
theorem C07_above_compl (t x : Rat) :
    (intervalOf .above (fin t) (fin t)).within (fin x) =
      ((intervalOf .belowEq (fin t) (fin t)).within (fin x)).map not := by
  simp [C07_within_denotes, Spec.event]; grind

theorem C07_aboveEq_compl (t x : Rat) :
    (intervalOf .aboveEq (fin t) (fin t)).within (fin x) =
      ((intervalOf .below (fin t) (fin t)).within (fin x)).map not := by
  simp [C07_within_denotes, Spec.event]; grind

/-! ### Partition by `within=` events -/

def StrictInc : List Rat → Prop
  | a :: b :: rest => a < b ∧ StrictInc (b :: rest)
  | _ => True

def ratPairs : List Rat → List (Rat × Rat)
  | a :: b :: rest => (a, b) :: ratPairs (b :: rest)
  | _ => []

/-- number of consecutive `within=` events (t_i, t_{i+1}] that contain x -/
def countIn (ts : List Rat) (x : Rat) : Nat :=
  ((ratPairs ts).filter (fun p => decide (Spec.event .withinEq p.1 p.2 x))).length

def lastOf : Rat → List Rat → Rat
  | a, [] => a
  | _, b :: rest => lastOf b rest

private theorem le_last (a : Rat) (rest : List Rat) (h : StrictInc (a :: rest)) :
    a ≤ lastOf a rest := by
  induction rest generalizing a with
  | nil => simp [lastOf]
  | cons b rest ih =>
    simp only [StrictInc] at h
    have := ih b h.2
    simp only [lastOf]
    grind

/-- For increasing thresholds the `within=` events of consecutive pairs are disjoint and
jointly cover (first, last]: a value lies in exactly one of them if first < x ≤ last,
and in none otherwise. -/
theorem C07_withinEq_partition (a : Rat) (rest : List Rat) (h : StrictInc (a :: rest)) (x : Rat) :
    countIn (a :: rest) x = if a < x ∧ x ≤ lastOf a rest then 1 else 0 := by
  induction rest generalizing a with
  | nil => simp [countIn, ratPairs, lastOf]; grind
  | cons b rest ih =>
    simp only [StrictInc] at h
    have hb := ih b h.2
    have hl := le_last b rest h.2
    simp only [countIn, ratPairs, lastOf, List.filter_cons, Spec.event] at hb ⊢
    by_cases h1 : a < x <;> by_cases h2 : x ≤ b <;> by_cases h3 : b < x <;>
      by_cases h4 : x ≤ lastOf b rest <;> simp_all <;> grind

/-- The model's own intervals for `within=` are the Spec events of the consecutive pairs. -/
theorem C07_withinEq_model (ts : List Rat) (x : Rat) :
    ((getIntervals .withinEq (some (ts.map fin))).filter
        (fun I => I.within (fin x) == some true)).length = countIn ts x := by
  induction ts with
  | nil => rfl
  | cons a rest ih =>
    cases rest with
    | nil => rfl
    | cons b rest =>
      have := C07_within_denotes .withinEq a b x
      simp only [getIntervals, BinType.isWithin, if_true, List.map_cons, pairs, countIn, ratPairs,
        List.filter_cons] at ih ⊢
      simp only [this]
      by_cases hx : Spec.event .withinEq a b x <;> simp [hx] <;> exact ih

/-- Event probabilities, all eight bin types: P(X≤t) for the below family, 1 − P(X≤t) for the above
family, P(X≤u) − P(X≤t) for every within type (full statement since the repair 94ea3f0 of
`apply_threshold_prob`; before it `=within` / `=within=` returned P(X≤t)); without an upper CDF the
within family is rejected. -/
theorem C07_prob (p pu : XR) :
    applyThresholdProb .below p none = some p ∧
    applyThresholdProb .belowEq p none = some p ∧
    applyThresholdProb .above p none = some (fin 1 - p) ∧
    applyThresholdProb .aboveEq p none = some (fin 1 - p) ∧
    (∀ b : BinType, b.isWithin = true → applyThresholdProb b p (some pu) = some (pu - p)) ∧
    (∀ b : BinType, b.isWithin = true → applyThresholdProb b p none = none) := by
  refine ⟨rfl, rfl, rfl, rfl, ?_, ?_⟩
  · intro b hb; cases b <;> simp_all [BinType.isWithin, applyThresholdProb]
  · intro b hb; cases b <;> simp_all [BinType.isWithin, applyThresholdProb]

/-- the probability of an event and of its complement add up to one; the probabilities of the within
events of consecutive thresholds add up to the probability of the union (telescoping) -/
theorem C07_prob_complement (p : Rat) :
    (do let a ← applyThresholdProb .belowEq (fin p) none
        let b ← applyThresholdProb .above (fin p) none
        pure (a + b)) = some (fin 1) := by
  simp only [applyThresholdProb, Option.bind_eq_bind, Option.bind_some, Option.pure_def]
  show some (XR.add (fin p) (XR.add (fin 1) (XR.neg (fin p)))) = some (fin 1)
  simp only [XR.add, XR.neg]
  congr 2; grind

/-- Non-vacuity: a concrete strictly increasing list, values in / on the edge / outside. -/
example : StrictInc [0, 1, 5/2, 4] ∧ countIn [0, 1, 5/2, 4] 1 = 1 ∧ countIn [0, 1, 5/2, 4] 0 = 0
    ∧ countIn [0, 1, 5/2, 4] 4 = 1 ∧ countIn [0, 1, 5/2, 4] 5 = 0 := by
  refine ⟨by simp [StrictInc]; decide +kernel, by decide +kernel, by decide +kernel, by decide +kernel, by decide +kernel⟩

end VerifModel.C07
