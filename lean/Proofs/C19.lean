import Proofs.C19.Core
import Proofs.C19.P0
import Proofs.C19.P1
import Proofs.C19.P2
import Proofs.C19.P3
/-
  C19 — Documented metric / axis / output combinations never crash.

  The property quantifies over a finite table: the documented names, `-x` dimensions, `-type`
  values, bin types and aggregators (Spec/Dispatch.lean, written from the help text).  The class
  tables (`Gen/ClassTable.lean`) are regenerated from /repo's source on every run, so every theorem
  below is re-checked against the working tree by `lake build`.

  What is proved: the *dispatch* — which class and method the driver selects, with which axis and
  thresholds — never falls into an undefined method or an unsupported axis, and every base-class
  default is an error message.  What happens inside the selected method (NumPy, SciPy, matplotlib)
  is not modelled; stream `cli.cross` executes every combination on the real tool.
-/
namespace VerifModel.C19
open VerifModel Dispatch Gen

private theorem core : CoreOn Spec.Dispatch.names := by
  intro n hn
  rw [names_chunks] at hn
  simp only [List.mem_append] at hn
  rcases hn with ((h | h) | h) | h
  · exact core_part0 n h
  · exact core_part1 n h
  · exact core_part2 n h
  · exact core_part3 n h

private theorem aggOk_documented : ∀ g ∈ aggArgs, aggOk g = true := by decide +kernel

private theorem mem_bools (r : Bool) : r ∈ [true, false] := by cases r <;> simp

/-- turning a run into the explicit error of the within-type guard keeps a decision good -/
private theorem good_refine (nd : NameD) (ax : Option (String × AxisKind)) (td : TypeD) (r : Bool)
    (b : Option String) (d : Decision) (h : goodD nd ax td r d = true) :
    goodD nd ax td r (refineWithin nd b d) = true := by
  cases d with
  | error w => exact h
  | unhandled w => exact h
  | run cls m a src =>
    show goodD nd ax td r (if (m == "_plot_core" && ClassTable.refusesWithin.contains cls &&
      isWithinType (effBinType nd b)) = true then .error .withinBinType else .run cls m a src) = true
    by_cases hc : (m == "_plot_core" && ClassTable.refusesWithin.contains cls &&
      isWithinType (effBinType nd b)) = true
    · rw [if_pos hc]; rfl
    · rw [if_neg hc]; exact h

/-- **C19 (dispatch).**  For every documented metric or diagram, `-x` dimension (or none), `-type`,
    bin type (or none), with or without `-r`, with 0–3 `-q` values and every documented aggregator (or
    none, or a number), the driver's decision is either an explicit error exit or a run of a method
    that the selected output class really defines (not the base-class default), on an axis that the
    class and the metric support, with thresholds / quantiles available whenever
    `require_threshold_type` (or `-type impact`) demands them.  (`good` is `false` on `unhandled`.) -/
theorem C19_dispatch_total :
    ∀ n ∈ Spec.Dispatch.names, ∀ a ∈ axisArgs, ∀ t ∈ Spec.Dispatch.types, ∀ b ∈ binArgs, ∀ r : Bool,
    ∀ q ∈ qCounts, ∀ g ∈ aggArgs,
      good ⟨n, a, t, b, r, q, g⟩ (dispatch ⟨n, a, t, b, r, q, g⟩) = true := by
  intro n hn a ha t ht b _ r q hq g hg
  have h := core n hn a ha t ht r (mem_bools r) q hq
  have hg' := aggOk_documented g hg
  simp only [checkN] at h
  simp only [good, dispatch, hg']
  cases hnd : nameD n with
  | none => simp [hnd] at h
  | some nd =>
    simp only [hnd, Bool.and_eq_true] at h ⊢
    exact good_refine nd _ _ _ b _ h.1

/-- no documented combination reaches a base-class default that raises, or a class that does not exist -/
theorem C19_never_unhandled :
    ∀ n ∈ Spec.Dispatch.names, ∀ a ∈ axisArgs, ∀ t ∈ Spec.Dispatch.types, ∀ b ∈ binArgs, ∀ r : Bool,
    ∀ q ∈ qCounts, ∀ g ∈ aggArgs, ∀ w, dispatch ⟨n, a, t, b, r, q, g⟩ ≠ .unhandled w := by
  intro n hn a ha t ht b hb r q hq g hg w hw
  have h := C19_dispatch_total n hn a ha t ht b hb r q hq g hg
  rw [hw] at h
  simp only [good] at h
  cases hnd : nameD n <;> simp [hnd, goodD] at h

/-- what `good … = true` says for a run -/
theorem good_run {c : Cmd} {cls m ax : String} {src : ThrSrc} (h : good c (.run cls m ax src) = true) :
    ∃ nd, nameD c.name = some nd ∧ cls = nd.cls ∧ m ∈ nd.overrides ∧
      axisSupported nd (finalAxis nd (effAxis nd (axisD c.axis) c.hasR).1).2 = true ∧
      thresholdsAvailable nd (typeD c.type) src = true := by
  simp only [good] at h
  cases hnd : nameD c.name with
  | none => simp [hnd] at h
  | some nd =>
    simp only [hnd, goodD, Bool.and_eq_true, beq_iff_eq, List.contains_iff_mem] at h
    exact ⟨nd, rfl, h.1.1.1, h.1.1.2, h.1.2.2, h.2⟩

/-- does `-m n` select `Standard` with the valid metric class of that name -/
def resolvesAsMetric (n : String) : Bool :=
  match resolve n with
  | some ⟨pl, some m⟩ => pl.cls == "Standard" && m.name == n && m.valid
  | _ => false

/-- does `-m n` select a diagram class that output.py defines and documents under that name -/
def resolvesAsDiagram (n : String) : Bool :=
  match resolve n with
  | some ⟨pl, none⟩ => pl.cls != "Standard" && ClassTable.outputs.any (fun r => r.name == n && r.valid)
  | _ => false

/-- **C19 (names).**  Every documented metric name resolves to its valid metric class (run through
    `Standard`), every documented diagram name to an output class that exists. -/
theorem C19_known_names :
    (∀ n ∈ Spec.Dispatch.metrics, resolvesAsMetric n = true) ∧
    (∀ n ∈ Spec.Dispatch.diagrams, resolvesAsDiagram n = true) := by
  constructor <;> decide +kernel

/-- the `_…_core` methods an entry point of `Output` can fall back to -/
def coreMethods : List String :=
  ["_plot_core", "_get_x_y", "_map_core", "_plot_rank_core", "_plot_impact_core", "_plot_mapimpact_core"]

/-- **C19 (stubs).**  Each base-class default of `verif.output.Output` is a call of
    `verif.util.error` (message + exit status 1), not an exception; and every documented `-type`
    leads to an entry point whose fallback is one of them. -/
theorem C19_stub_is_error :
    (∀ m ∈ coreMethods, lookup m ClassTable.stubs = some "error") ∧
    (∀ t ∈ Spec.Dispatch.types, (typeD t).stubIsError = true ∧
        ∃ c ∈ coreMethods, (typeD t).core = some c) := by
  constructor
  · decide +kernel
  · decide +kernel

/-- **C19 (arguments).**  No documented argument value is rejected as unknown: every documented `-x`
    dimension is a class of axis.py, every documented aggregator is accepted by `verif.aggregator.get`,
    every documented `-type` passes the driver's test for standard metrics. -/
theorem C19_documented_arguments_accepted :
    (∀ a ∈ Spec.Dispatch.axes, axisKnown a = true) ∧
    (∀ g ∈ aggArgs, aggOk g = true) ∧
    (∀ t ∈ Spec.Dispatch.types, (typeD t).standardOk = true) := by
  refine ⟨?_, aggOk_documented, ?_⟩ <;> decide +kernel

/-
  Full-strength statement (FALSE on this tree, see the witness below):
    every run on the threshold axis has thresholds or quantiles, for every documented name.
  `metric.Threshold` declares `require_threshold_type = "thresholds"`, a value no branch of the driver
  recognises, so `-m threshold` without `-r` runs on its default axis `threshold` with
  `thresholds = None` (`-type csv` then raised TypeError until /repo commit 0650bfa; the x-axis value is still
  the centre of (-∞, ∞)).
-/
/-- **partial**: for every documented name except `threshold`. -/
theorem C19_threshold_axis_has_thresholds_partial :
    ∀ n ∈ Spec.Dispatch.names, n ≠ "threshold" → ∀ a ∈ axisArgs, ∀ t ∈ Spec.Dispatch.types, ∀ r : Bool,
    ∀ q ∈ qCounts, ∀ nd, nameD n = some nd →
      thrAxisOk nd (axisD a) r (dispatchD nd (axisD a) (typeD t) r q true) = true := by
  intro n hn hne a ha t ht r q hq nd hnd
  have h := core n hn a ha t ht r (mem_bools r) q hq
  simp only [checkN, hnd, Bool.and_eq_true, Bool.or_eq_true, beq_iff_eq] at h
  rcases h.2 with h2 | h2
  · exact absurd h2 hne
  · exact h2

/-- the witness: `verif file -m threshold -x threshold -type csv` runs `_get_x_y` on axis `threshold` with no thresholds -/
example : dispatch ⟨"threshold", some "threshold", "csv", none, false, 0, none⟩ = .run "Standard" "_get_x_y" "threshold" .none := by
  decide +kernel

/-
  Full-strength statement (FALSE on this tree): every class declares a `require_threshold_type` the
  driver understands (None, "deterministic", "threshold", "quantile").
-/
/-- **partial**: every metric and output class except `metric.Threshold`. -/
theorem C19_require_type_recognised_partial :
    (∀ r ∈ ClassTable.metrics, r.cls ≠ "Threshold" → Req.parse r.requireThresholdType ≠ .other) ∧
    (∀ r ∈ ClassTable.outputs, Req.parse r.requireThresholdType ≠ .other) := by
  constructor <;> decide +kernel

example : (getMetric "threshold").map (fun r => Req.parse r.requireThresholdType) = some .other := by
  decide +kernel

/-! non-vacuity: the table is not all errors — a standard metric and a diagram really run, a stub really is hit -/
example : dispatch ⟨"mae", some "location", "map", none, false, 0, none⟩ = .run "Standard" "_map_core" "location" .none := by
  decide +kernel
example : dispatch ⟨"ets", none, "text", some "within", false, 0, some (.named "median")⟩
    = .run "Standard" "_get_x_y" "threshold" .detDefault := by decide +kernel
example : dispatch ⟨"reliability", some "time", "plot", none, true, 0, none⟩ = .run "Reliability" "_plot_core" "leadtime" .given := by
  decide +kernel
example : dispatch ⟨"qq", none, "map", none, false, 0, none⟩ = .error (.stub "_map_core") := by decide +kernel
example : dispatch ⟨"spread", none, "plot", none, false, 1, none⟩ = .error .tooFewQuantiles := by decide +kernel
example : Spec.Dispatch.names.length = 98 ∧ axisArgs.length = 20 ∧ Spec.Dispatch.types.length = 8 := by decide

/-! ### the within-type guard of the single-threshold diagrams -/

/-- the documented names whose `_plot_core` refuses within-type bins (read from the generated table) -/
def singleThresholdDiagrams : List String :=
  Spec.Dispatch.names.filter fun n => match nameD n with
    | some nd => ClassTable.refusesWithin.contains nd.cls
    | none => false

/-- a decision whose `-type` leads to a method the class overrides is an error exit or a run of THAT method of
    THAT class (for all arguments, documented or not) -/
private theorem dispatchD_run_or_error (nd : NameD) (ax : Option (String × AxisKind)) (td : TypeD) (r : Bool)
    (q : Nat) (ok : Bool) (m : String) (hf : finish nd.overrides td = .run m) :
    (∃ w, dispatchD nd ax td r q ok = .error w) ∨ ∃ a src, dispatchD nd ax td r q ok = .run nd.cls m a src := by
  unfold dispatchD
  split
  · exact Or.inl ⟨_, rfl⟩
  · split
    · exact Or.inl ⟨_, rfl⟩
    · split
      · exact Or.inl ⟨_, rfl⟩
      · split
        split
        · exact Or.inl ⟨_, rfl⟩
        · split
          · exact Or.inl ⟨_, rfl⟩
          · split
            · exact Or.inl ⟨_, rfl⟩
            · rw [hf]
              exact Or.inr ⟨_, _, rfl⟩

/-- per diagram of the list: `-type plot` leads to `_plot_core`, which the class overrides -/
private theorem single_plot_core :
    (singleThresholdDiagrams.all fun n => match nameD n with
      | some nd => finish nd.overrides (typeD "plot") == .run "_plot_core" && ClassTable.refusesWithin.contains nd.cls
      | none => false) = true := by
  decide +kernel

/-- **C19 (within-type bins).**  For every diagram of that list (the documented names whose output class carries the
    guard), EVERY `-x` value, every within-type `-b`, with or without `-r`, any number of `-q` values and any
    `-agg` value, `-type plot` ends in an explicit error (never in a run that indexes the empty interval list). -/
theorem C19_within_refused :
    ∀ n ∈ singleThresholdDiagrams, ∀ a : Option String, ∀ b ∈ ["within", "=within", "within=", "=within="],
    ∀ r : Bool, ∀ q : Nat, ∀ g : Option AggArg, ∃ w, dispatch ⟨n, a, "plot", some b, r, q, g⟩ = .error w := by
  intro n hn a b hb r q g
  have key := single_plot_core
  rw [List.all_eq_true] at key
  have k := key n hn
  have hw : isWithinType (some b) = true := by
    simp only [List.mem_cons, List.not_mem_nil, or_false] at hb
    rcases hb with rfl | rfl | rfl | rfl <;> decide
  simp only [dispatch]
  cases hnd : nameD n with
  | none => rw [hnd] at k; simp at k
  | some nd =>
    rw [hnd] at k
    simp only [Bool.and_eq_true, beq_iff_eq] at k
    rcases dispatchD_run_or_error nd (axisD a) (typeD "plot") r q (aggOk g) "_plot_core" k.1 with ⟨w, hw'⟩ | ⟨a', src, hr⟩
    · exact ⟨w, by simp only [hw', refineWithin]⟩
    · refine ⟨.withinBinType, ?_⟩
      simp only [hr, refineWithin, effBinType, hw, k.2, Bool.and_self, beq_self_eq_true, if_true]

/-- the list is not empty: `roc`, `reliability` and `discrimination` have carried the guard all along (the
    repaired `performance`, `droc`, `droc0`, `bsdecomp` join it once the guard is in the source) -/
example : "roc" ∈ singleThresholdDiagrams ∧
    dispatch ⟨"roc", none, "plot", some "within", true, 0, none⟩ = .error .withinBinType ∧
    dispatch ⟨"roc", none, "plot", some "above", true, 0, none⟩ = .run "Roc" "_plot_core" "leadtime" .given := by
  refine ⟨by decide +kernel, by decide +kernel, by decide +kernel⟩

/-! ### `-T` / `-Tagg` / `-Tx` and `-c` -/

/-- **C19 (dispatch, with pre-aggregation and climatology arguments).**  For every documented
    combination of `C19_dispatch_total` and EVERY value of `-T` (an integer of any sign, or a string that
    is no integer, or absent), every `-Tagg` (documented, a number, or an unknown name), every `-Tx`
    (any string) and with or without `-c`, the decision is an explicit error exit or a good run. -/
theorem C19_dispatch_total_T :
    ∀ n ∈ Spec.Dispatch.names, ∀ a ∈ axisArgs, ∀ t ∈ Spec.Dispatch.types, ∀ b ∈ binArgs, ∀ r : Bool,
    ∀ q ∈ qCounts, ∀ g ∈ aggArgs, ∀ ta : TArgs,
      good ⟨n, a, t, b, r, q, g⟩ (dispatchT ⟨⟨n, a, t, b, r, q, g⟩, ta⟩) = true := by
  intro n hn a ha t ht b hb r q hq g hg ta
  have h := C19_dispatch_total n hn a ha t ht b hb r q hq g hg
  unfold dispatchT
  cases hc : tCheck ta with
  | none => simpa using h
  | some w =>
    simp only [good] at h ⊢
    cases hnd : nameD n with
    | none => simp [hnd] at h
    | some nd => simp [goodD]

/-- the documented uses are accepted: a positive whole number of hours, a documented aggregator (or a
    quantile level), `-Tx time` or `-Tx leadtime`, with or without a climatology file — the decision is
    then the one of the command line without these arguments -/
theorem C19_T_documented_accepted (v : Int) (hv : 0 < v) :
    ∀ g ∈ aggArgs, ∀ tx ∈ [none, some "time", some "leadtime"], ∀ clim : Bool, ∀ c : Cmd,
      dispatchT ⟨c, ⟨some (.int v), g, tx, clim⟩⟩ = dispatch c := by
  intro g hg tx htx clim c
  have hg' := aggOk_documented g hg
  have hx : ∀ tx ∈ [none, some "time", some "leadtime"], tAxisBad tx = false := by decide +kernel
  have hx' := hx tx htx
  have : tCheck ⟨some (.int v), g, tx, clim⟩ = none := by
    unfold tCheck
    have : ¬ v ≤ 0 := by omega
    simp [hg', hx', this]
  simp only [dispatchT, this]

/-- what is not a positive integer is refused with a message (never handed to `Data`) -/
theorem C19_T_rejected (ta : TArgs) (h : ta.len = some .notInt ∨ ∃ v, ta.len = some (.int v) ∧ v ≤ 0) (c : Cmd) :
    ∃ w, dispatchT ⟨c, ta⟩ = .error w := by
  have : ∃ w, tCheck ta = some w := by
    unfold tCheck
    rcases h with h | ⟨v, h, hv⟩
    · exact ⟨.badT, by simp [h]⟩
    · rw [h]
      generalize aggOk ta.agg = x
      generalize tAxisBad ta.axis = y
      cases x <;> cases y <;> simp [hv]
  obtain ⟨w, hw⟩ := this
  exact ⟨w, by simp only [dispatchT, hw]⟩

/-- `-c` / `-C` do not enter the dispatch: class, method, axis and thresholds are those of the
    command line without it -/
theorem C19_clim_irrelevant (c : Cmd) (ta : TArgs) (b : Bool) :
    dispatchT ⟨c, { ta with clim := b }⟩ = dispatchT ⟨c, ta⟩ := rfl

example : dispatchT ⟨⟨"mae", some "location", "csv", none, false, 0, none⟩, ⟨some (.int 2), some (.named "sum"), some "time", true⟩⟩
    = .run "Standard" "_get_x_y" "location" .none := by decide +kernel
example : dispatchT ⟨⟨"mae", none, "plot", none, false, 0, none⟩, ⟨some (.int 0), none, none, false⟩⟩ = .error .nonPositiveT := by
  decide +kernel
example : dispatchT ⟨⟨"mae", none, "plot", none, false, 0, none⟩, ⟨some (.int 2), some (.named "foo"), none, false⟩⟩ = .error .unknownAgg := by
  decide +kernel

end VerifModel.C19
