import Proofs.C19.Core
import Proofs.C19.P0
import Proofs.C19.P1
import Proofs.C19.P2
import Proofs.C19.P3
/-
  C19 — Documented metric / axis / output combinations never crash.

  The property quantifies over a finite table: the documented names, `-x` dimensions, `-type`
  values, bin types and aggregators (Spec/Dispatch.lean, written from the help text).  The class
  tables (`Gen/ClassTable.lean`) are regenerated from /repo's source on every run, so every theorem
  below is re-checked against the working tree by `lake build`.

  What is proved: the *dispatch* — which class and method the driver selects, with which axis and
  thresholds — never falls into an undefined method or an unsupported axis, and every base-class
  default is an error message.  What happens inside the selected method (NumPy, SciPy, matplotlib)
  is not modelled; stream `cli.cross` executes every combination on the real tool.
-/
namespace VerifModel.C19
open VerifModel Dispatch Gen

private theorem core : CoreOn Spec.Dispatch.names := by
  intro n hn
  rw [names_chunks] at hn
  simp only [List.mem_append] at hn
  rcases hn with ((h | h) | h) | h
  · exact core_part0 n h
  · exact core_part1 n h
  · exact core_part2 n h
  · exact core_part3 n h

private theorem aggOk_documented : ∀ g ∈ aggArgs, aggOk g = true := by decide +kernel

private theorem mem_bools (r : Bool) : r ∈ [true, false] := by cases r <;> simp

/-- **C19 (dispatch).**  For every documented metric or diagram, `-x` dimension (or none), `-type`,
    bin type (or none), with or without `-r`, with 0–3 `-q` values and every documented aggregator (or
    none, or a number), the driver's decision is either an explicit error exit or a run of a method
    that the selected output class really defines (not the base-class default), on an axis that the
    class and the metric support, with thresholds / quantiles available whenever
    `require_threshold_type` (or `-type impact`) demands them.  (`good` is `false` on `unhandled`.) -/
theorem C19_dispatch_total :
    ∀ n ∈ Spec.Dispatch.names, ∀ a ∈ axisArgs, ∀ t ∈ Spec.Dispatch.types, ∀ b ∈ binArgs, ∀ r : Bool,
    ∀ q ∈ qCounts, ∀ g ∈ aggArgs,
      good ⟨n, a, t, b, r, q, g⟩ (dispatch ⟨n, a, t, b, r, q, g⟩) = true := by
  intro n hn a ha t ht b _ r q hq g hg
  have h := core n hn a ha t ht r (mem_bools r) q hq
  have hg' := aggOk_documented g hg
  simp only [checkN] at h
  simp only [good, dispatch, hg']
  cases hnd : nameD n with
  | none => simp [hnd] at h
  | some nd =>
    simp only [hnd, Bool.and_eq_true] at h ⊢
    exact h.1

/-- no documented combination reaches a base-class default that raises, or a class that does not exist -/
theorem C19_never_unhandled :
    ∀ n ∈ Spec.Dispatch.names, ∀ a ∈ axisArgs, ∀ t ∈ Spec.Dispatch.types, ∀ b ∈ binArgs, ∀ r : Bool,
    ∀ q ∈ qCounts, ∀ g ∈ aggArgs, ∀ w, dispatch ⟨n, a, t, b, r, q, g⟩ ≠ .unhandled w := by
  intro n hn a ha t ht b hb r q hq g hg w hw
  have h := C19_dispatch_total n hn a ha t ht b hb r q hq g hg
  rw [hw] at h
  simp only [good] at h
  cases hnd : nameD n <;> simp [hnd, goodD] at h

/-- what `good … = true` says for a run -/
theorem good_run {c : Cmd} {cls m ax : String} {src : ThrSrc} (h : good c (.run cls m ax src) = true) :
    ∃ nd, nameD c.name = some nd ∧ cls = nd.cls ∧ m ∈ nd.overrides ∧
      axisSupported nd (finalAxis nd (effAxis nd (axisD c.axis) c.hasR).1).2 = true ∧
      thresholdsAvailable nd (typeD c.type) src = true := by
  simp only [good] at h
  cases hnd : nameD c.name with
  | none => simp [hnd] at h
  | some nd =>
    simp only [hnd, goodD, Bool.and_eq_true, beq_iff_eq, List.contains_iff_mem] at h
    exact ⟨nd, rfl, h.1.1.1, h.1.1.2, h.1.2.2, h.2⟩

/-- does `-m n` select `Standard` with the valid metric class of that name -/
def resolvesAsMetric (n : String) : Bool :=
  match resolve n with
  | some ⟨pl, some m⟩ => pl.cls == "Standard" && m.name == n && m.valid
  | _ => false

/-- does `-m n` select a diagram class that output.py defines and documents under that name -/
def resolvesAsDiagram (n : String) : Bool :=
  match resolve n with
  | some ⟨pl, none⟩ => pl.cls != "Standard" && ClassTable.outputs.any (fun r => r.name == n && r.valid)
  | _ => false

/-- **C19 (names).**  Every documented metric name resolves to its valid metric class (run through
    `Standard`), every documented diagram name to an output class that exists. -/
theorem C19_known_names :
    (∀ n ∈ Spec.Dispatch.metrics, resolvesAsMetric n = true) ∧
    (∀ n ∈ Spec.Dispatch.diagrams, resolvesAsDiagram n = true) := by
  constructor <;> decide +kernel

/-- the `_…_core` methods an entry point of `Output` can fall back to -/
def coreMethods : List String :=
  ["_plot_core", "_get_x_y", "_map_core", "_plot_rank_core", "_plot_impact_core", "_plot_mapimpact_core"]

/-- **C19 (stubs).**  Each base-class default of `verif.output.Output` is a call of
    `verif.util.error` (message + exit status 1), not an exception; and every documented `-type`
    leads to an entry point whose fallback is one of them. -/
theorem C19_stub_is_error :
    (∀ m ∈ coreMethods, lookup m ClassTable.stubs = some "error") ∧
    (∀ t ∈ Spec.Dispatch.types, (typeD t).stubIsError = true ∧
        ∃ c ∈ coreMethods, (typeD t).core = some c) := by
  constructor
  · decide +kernel
  · decide +kernel

/-- **C19 (arguments).**  No documented argument value is rejected as unknown: every documented `-x`
    dimension is a class of axis.py, every documented aggregator is accepted by `verif.aggregator.get`,
    every documented `-type` passes the driver's test for standard metrics. -/
theorem C19_documented_arguments_accepted :
    (∀ a ∈ Spec.Dispatch.axes, axisKnown a = true) ∧
    (∀ g ∈ aggArgs, aggOk g = true) ∧
    (∀ t ∈ Spec.Dispatch.types, (typeD t).standardOk = true) := by
  refine ⟨?_, aggOk_documented, ?_⟩ <;> decide +kernel

/-
  Full-strength statement (FALSE on this tree, see the witness below):
    every run on the threshold axis has thresholds or quantiles, for every documented name.
  `metric.Threshold` declares `require_threshold_type = "thresholds"`, a value no branch of the driver
  recognises, so `-m threshold` without `-r` runs on its default axis `threshold` with
  `thresholds = None` (`-type csv` then raised TypeError until /repo commit 0650bfa; the x-axis value is still
  the centre of (-∞, ∞)).
-/
/-- **partial**: for every documented name except `threshold`. -/
theorem C19_threshold_axis_has_thresholds_partial :
    ∀ n ∈ Spec.Dispatch.names, n ≠ "threshold" → ∀ a ∈ axisArgs, ∀ t ∈ Spec.Dispatch.types, ∀ r : Bool,
    ∀ q ∈ qCounts, ∀ nd, nameD n = some nd →
      thrAxisOk nd (axisD a) r (dispatchD nd (axisD a) (typeD t) r q true) = true := by
  intro n hn hne a ha t ht r q hq nd hnd
  have h := core n hn a ha t ht r (mem_bools r) q hq
  simp only [checkN, hnd, Bool.and_eq_true, Bool.or_eq_true, beq_iff_eq] at h
  rcases h.2 with h2 | h2
  · exact absurd h2 hne
  · exact h2

/-- the witness: `verif file -m threshold -x threshold -type csv` runs `_get_x_y` on axis `threshold` with no thresholds -/
example : dispatch ⟨"threshold", some "threshold", "csv", none, false, 0, none⟩ = .run "Standard" "_get_x_y" "threshold" .none := by
  decide +kernel

/-
  Full-strength statement (FALSE on this tree): every class declares a `require_threshold_type` the
  driver understands (None, "deterministic", "threshold", "quantile").
-/
/-- **partial**: every metric and output class except `metric.Threshold`. -/
theorem C19_require_type_recognised_partial :
    (∀ r ∈ ClassTable.metrics, r.cls ≠ "Threshold" → Req.parse r.requireThresholdType ≠ .other) ∧
    (∀ r ∈ ClassTable.outputs, Req.parse r.requireThresholdType ≠ .other) := by
  constructor <;> decide +kernel

example : (getMetric "threshold").map (fun r => Req.parse r.requireThresholdType) = some .other := by
  decide +kernel

/-! non-vacuity: the table is not all errors — a standard metric and a diagram really run, a stub really is hit -/
example : dispatch ⟨"mae", some "location", "map", none, false, 0, none⟩ = .run "Standard" "_map_core" "location" .none := by
  decide +kernel
example : dispatch ⟨"ets", none, "text", some "within", false, 0, some (.named "median")⟩
    = .run "Standard" "_get_x_y" "threshold" .detDefault := by decide +kernel
example : dispatch ⟨"reliability", some "time", "plot", none, true, 0, none⟩ = .run "Reliability" "_plot_core" "leadtime" .given := by
  decide +kernel
example : dispatch ⟨"qq", none, "map", none, false, 0, none⟩ = .error (.stub "_map_core") := by decide +kernel
example : dispatch ⟨"spread", none, "plot", none, false, 1, none⟩ = .error .tooFewQuantiles := by decide +kernel
example : Spec.Dispatch.names.length = 98 ∧ axisArgs.length = 20 ∧ Spec.Dispatch.types.length = 8 := by decide

end VerifModel.C19
