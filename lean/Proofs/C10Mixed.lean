import Proofs.C10

/-!
# C10, mixed formats in one `verif.data.Data`

`Data([f₀, f₁, …])` reads every file through `verif.input.get_input` and from then on uses only what the
reader object shows (times, lead times, locations, the fields).  The model makes that explicit:
a file of either format is first turned into its `ParsedInput` (the format-independent `Spec.Dataset`),
and `mixedData` runs the `Data` model (`Model/Data.lean`) on the `Input` views of the parsed datasets.
Consequences proved here:

* `C10_mixed_congr`    — `mixedData` depends on each file only through its parsed dataset;
* `C10_mixed_single`   — for one NetCDF file it is the `ncData` of the `nc.data` correspondence stream;
* `C10_mixed_replace`  — if the text reader yields `datasetOf T` for the text file in position `j`, then
  putting the documented NetCDF layout of `T` (any encoding of its missing cells) in position `j` gives the
  very same `DataS`, hence the same verified dimensions and the same `getScores` answer for every input and
  every request (`C10_same_dataset` composed with the congruence);
* `C10_mixed_reordered` — the same when the text reader lists the dimension values in another order (it
  sorts them, NetCDF keeps file order) or is merely `InputEquiv`alent: composition with `DataRefine`'s
  `C02_order_irrelevant`.

The text reader is a parameter `parseText` (its own theorem is C09's; the bridge from C09's `Parsed` to
`Dataset` is not formalised — the hypothesis `parseText t = .ok (datasetOf T)` stands for it and is what the
`nc.text` / `nc.mixed` streams test on real files).
-/
namespace VerifModel.C10
open VerifModel XR Spec Spec.DataCoord DataRefine

/-- what a reader object of either format hands to `Data` -/
abbrev ParsedInput := Dataset

/-- the parsed dataset as `Data` sees it (coordinates + the 3-D fields obs, fcst, pit, other fields);
by `dataInput_dataset` this is `NcInput.dataInput` -/
def parsedDataInput (P : ParsedInput) : Input where
  times := P.times
  leads := P.leads
  locs := P.locs
  fields := ((([("obs", P.obs), ("fcst", P.fcst), ("pit", P.pit)] : List (String × Option Arr)).filterMap
      fun p => p.2.map fun a => (p.1, a.toArr3))
    ++ P.others.map fun p => (p.1, p.2.toArr3))

theorem dataInput_dataset (I : NcInput) : I.dataInput = parsedDataInput I.dataset := rfl

/-- a file given to `Data`: text (of some type `Text` of file contents) or NetCDF -/
inductive Source (Text : Type) where
  | text (t : Text)
  | nc (V : NcVars)

/-- `verif.input.get_input(file)`, up to the format-independent view -/
def Source.parse {Text : Type} (parseText : Text → Except String ParsedInput) :
    Source Text → Except String ParsedInput
  | .text t => parseText t
  | .nc V => (ncAssemble V).map NcInput.dataset

/-- all files parsed, left to right; the first failure aborts -/
def parseAll {Text : Type} (parseText : Text → Except String ParsedInput) :
    List (Source Text) → Except String (List ParsedInput)
  | [] => .ok []
  | s :: rest =>
    match s.parse parseText with
    | .error e => .error e
    | .ok p =>
      match parseAll parseText rest with
      | .error e => .error e
      | .ok ps => .ok (p :: ps)

/-- `verif.data.Data([get_input(f) for f in files], …)` -/
def mixedData {Text : Type} (parseText : Text → Except String ParsedInput) (srcs : List (Source Text))
    (cfg : Cfg := {}) : Except String DataS :=
  match parseAll parseText srcs with
  | .error e => .error e
  | .ok ps => Data.init (ps.map parsedDataInput) cfg

/-- `get_scores` on the mixed object -/
def mixedScores {Text : Type} (parseText : Text → Except String ParsedInput) (srcs : List (Source Text))
    (cfg : Cfg) (r : Req) : Except String (List Vec) :=
  match mixedData parseText srcs cfg with
  | .error e => .error e
  | .ok D => D.getScores r

private theorem parseAll_congr {Text Text' : Type} (p : Text → Except String ParsedInput)
    (p' : Text' → Except String ParsedInput) (a : List (Source Text)) (b : List (Source Text'))
    (h : a.map (Source.parse p) = b.map (Source.parse p')) : parseAll p a = parseAll p' b := by
  induction a generalizing b with
  | nil => cases b with
    | nil => rfl
    | cons _ _ => simp at h
  | cons s rest ih =>
    cases b with
    | nil => simp at h
    | cons s' rest' =>
      simp only [List.map_cons, List.cons.injEq] at h
      simp only [parseAll, h.1, ih rest' h.2]

/-- **C10, mixed formats: congruence.**  Two lists of files (of whatever formats, read by whatever text
readers) whose files parse to the same datasets position by position give the same `Data` object — the
same error or the same verified dimensions, index lists and hence `getScores` answers. -/
theorem C10_mixed_congr {Text Text' : Type} (p : Text → Except String ParsedInput)
    (p' : Text' → Except String ParsedInput) (a : List (Source Text)) (b : List (Source Text'))
    (h : a.map (Source.parse p) = b.map (Source.parse p')) (cfg : Cfg) :
    mixedData p a cfg = mixedData p' b cfg ∧ ∀ r, mixedScores p a cfg r = mixedScores p' b cfg r := by
  have e : mixedData p a cfg = mixedData p' b cfg := by
    unfold mixedData; rw [parseAll_congr p p' a b h]
  exact ⟨e, fun r => by unfold mixedScores; rw [e]⟩

/-- one NetCDF file: `mixedData` is the `ncData` that the `nc.data` stream compares with the real
`Data([get_input(file)])` -/
theorem C10_mixed_single {Text : Type} (p : Text → Except String ParsedInput) (V : NcVars) (cfg : Cfg) :
    mixedData p [.nc V] cfg = ncData V cfg := by
  simp only [mixedData, ncData, parseAll, Source.parse]
  cases ncAssemble V with
  | error e => rfl
  | ok I => rfl

private theorem map_set_self {α β : Type} (f : α → β) (l : List α) (j : Nat) (a b : α)
    (hj : l[j]? = some a) (hab : f b = f a) : (l.set j b).map f = l.map f := by
  induction l generalizing j with
  | nil => rfl
  | cons x xs ih =>
    cases j with
    | zero =>
      simp only [List.getElem?_cons_zero, Option.some.injEq] at hj
      subst hj
      simp [hab]
    | succ j =>
      simp only [List.getElem?_cons_succ] at hj
      simp [ih j hj]

/-- **C10, mixed formats: a text file replaced by its NetCDF twin.**  Let the text reader yield the dataset
of table `T` for the file in position `j` (C09).  Put the documented NetCDF layout of `T` — any encoding of
its missing cells — in that position instead, leaving every other file (text or NetCDF) as it is: `Data`
is the same object, so the verified dimensions and every `getScores` answer of EVERY input (the replaced
one and all the others) are unchanged. -/
theorem C10_mixed_replace {Text : Type} (p : Text → Except String ParsedInput) (srcs : List (Source Text))
    (j : Nat) (t : Text) (L : NcLayout) (T : DenseTable) (hwf : T.WF)
    (hj : srcs[j]? = some (.text t)) (ht : p t = .ok (datasetOf T)) (cfg : Cfg) :
    mixedData p (srcs.set j (.nc (toNcVars L T))) cfg = mixedData p srcs cfg
    ∧ ∀ r, mixedScores p (srcs.set j (.nc (toNcVars L T))) cfg r = mixedScores p srcs cfg r := by
  apply C10_mixed_congr
  apply map_set_self _ _ _ _ _ hj
  show (ncAssemble (toNcVars L T)).map NcInput.dataset = p t
  rw [ht]
  exact C10_same_dataset L T hwf

/-! non-vacuity: a text reader that yields `datasetOf Tm` for the file `()`; `Data([text, nc])`,
`Data([nc, text])` and `Data([text, text])` are one object, and it exists -/
private def Tm : DenseTable :=
  { times := [some 0], leads := [some 0], nloc := 1, obs := some ⟨[1, 1, 1], [some 1]⟩,
    fcst := some ⟨[1, 1, 1], [some 2]⟩ }

private theorem Tm_wf : Tm.WF := by
  constructor <;> simp [Tm, okNum, CArr.ok, colOk, reservedNames] <;> norm_num

private def pm : Unit → Except String ParsedInput := fun _ => .ok (datasetOf Tm)
private def Lm : NcLayout := ⟨fun _ _ => .masked, true⟩

example : mixedData pm [.text (), .nc (toNcVars Lm Tm)] = mixedData pm [.text (), .text ()]
    ∧ mixedData pm [.nc (toNcVars Lm Tm), .text ()] = mixedData pm [.text (), .text ()]
    ∧ (mixedData pm [.text (), .text ()]).toOption.isSome = true :=
  ⟨(C10_mixed_replace pm [.text (), .text ()] 1 () Lm Tm Tm_wf rfl rfl {}).1,
   (C10_mixed_replace pm [.text (), .text ()] 0 () Lm Tm Tm_wf rfl rfl {}).1, by decide +kernel⟩

/-! ### the two readers list the dimension values in different orders -/

private theorem parseAll_ok_map {Text : Type} (p : Text → Except String ParsedInput) (srcs : List (Source Text))
    (ps : List ParsedInput) (h : parseAll p srcs = .ok ps) : srcs.map (Source.parse p) = ps.map .ok := by
  induction srcs generalizing ps with
  | nil => simp only [parseAll, Except.ok.injEq] at h; subst h; rfl
  | cons s rest ih =>
    simp only [parseAll] at h
    cases hs : s.parse p with
    | error e => rw [hs] at h; cases h
    | ok q =>
      rw [hs] at h
      cases hr : parseAll p rest with
      | error e => rw [hr] at h; cases h
      | ok qs =>
        rw [hr] at h
        simp only [Except.ok.injEq] at h
        subst h
        simp [ih qs hr, hs]

private theorem parseAll_of_map {Text : Type} (p : Text → Except String ParsedInput) (srcs : List (Source Text))
    (ps : List ParsedInput) (h : srcs.map (Source.parse p) = ps.map .ok) : parseAll p srcs = .ok ps := by
  induction srcs generalizing ps with
  | nil => cases ps with
    | nil => rfl
    | cons _ _ => simp at h
  | cons s rest ih =>
    cases ps with
    | nil => simp at h
    | cons q qs =>
      simp only [List.map_cons, List.cons.injEq] at h
      simp only [parseAll, h.1, ih qs h.2]

private theorem forall2_set {l : List Input} {j : Nat} {a b : Input} (hj : l[j]? = some a)
    (e : InputEquiv a b) : List.Forall₂ InputEquiv l (l.set j b) := by
  induction l generalizing j with
  | nil => simp at hj
  | cons x xs ih =>
    cases j with
    | zero =>
      simp only [List.getElem?_cons_zero, Option.some.injEq] at hj
      subst hj
      exact List.Forall₂.cons e (forall2_refl xs)
    | succ j =>
      simp only [List.getElem?_cons_succ] at hj
      exact List.Forall₂.cons (InputEquiv.refl x) (ih hj)

/-- **C10, mixed formats, different orders.**  As `C10_mixed_replace`, but the text reader may present
the table differently from the NetCDF file: its parsed dataset `P` only has to be `InputEquiv`alent to
`datasetOf T` as a `Data` input (the same coordinate values in any order with the data moved along — the
text reader sorts, NetCDF keeps the file's order; `DataRefine.Reordered.equiv`).  If `Data` on the original
files succeeds with well-formed inputs, then with the NetCDF twin in position `j` it succeeds too, verifies
the same times, lead times and location ids, and every request on every input gets the same answer. -/
theorem C10_mixed_reordered {Text : Type} (p : Text → Except String ParsedInput) (srcs : List (Source Text))
    (j : Nat) (t : Text) (L : NcLayout) (T : DenseTable) (hwf : T.WF) (P : ParsedInput)
    (hj : srcs[j]? = some (.text t)) (ht : p t = .ok P)
    (e : InputEquiv (parsedDataInput P) (parsedDataInput (datasetOf T)))
    (hwT : wfInput (parsedDataInput (datasetOf T)) = true)
    (cfg : Cfg) (ps : List ParsedInput) (hps : parseAll p srcs = .ok ps)
    (hw : (allInputs (ps.map parsedDataInput) cfg).all wfInput = true)
    (D : DataS) (h : mixedData p srcs cfg = .ok D) :
    ∃ D', mixedData p (srcs.set j (.nc (toNcVars L T))) cfg = .ok D'
      ∧ D'.times = D.times ∧ D'.leads = D.leads ∧ D'.locs.map (·.id) = D.locs.map (·.id)
      ∧ ∀ r : Req, D'.getScores r = D.getScores r := by
  have hm := parseAll_ok_map p srcs ps hps
  -- position j of the parsed list is P
  have hpj : ps[j]? = some P := by
    have := congrArg (fun l => l[j]?) hm
    simp only [List.getElem?_map, hj, Option.map_some, Source.parse, ht] at this
    cases hq : ps[j]? with
    | none => rw [hq] at this; cases this
    | some q => rw [hq] at this; simp only [Option.map_some, Option.some.injEq, Except.ok.injEq] at this; rw [this]
  -- the new list parses to ps with datasetOf T in position j
  have hps' : parseAll p (srcs.set j (.nc (toNcVars L T))) = .ok (ps.set j (datasetOf T)) := by
    apply parseAll_of_map
    have hnc : Source.parse p (.nc (toNcVars L T)) = .ok (datasetOf T) := C10_same_dataset L T hwf
    rw [List.map_set, List.map_set, hm, hnc]
  unfold mixedData at h ⊢
  rw [hps] at h
  rw [hps']
  simp only [List.map_set]
  have hIj : (ps.map parsedDataInput)[j]? = some (parsedDataInput P) := by
    rw [List.getElem?_map, hpj]; rfl
  have hS := forall2_set hIj e
  have hw' : (allInputs ((ps.map parsedDataInput).set j (parsedDataInput (datasetOf T)))
      { cfg with clim := cfg.clim }).all wfInput = true := by
    rw [List.all_eq_true] at hw ⊢
    intro I hI
    unfold allInputs at hI hw
    rcases List.mem_append.mp hI with h1 | h2
    · rcases List.mem_or_eq_of_mem_set h1 with h3 | h3
      · exact hw I (List.mem_append_left _ h3)
      · rw [h3]; exact hwT
    · exact hw I (List.mem_append_right _ h2)
  obtain ⟨D', h', e1, e2, e3, hreq⟩ := C02_order_irrelevant _ _ cfg cfg.clim D h hw hw'
    (datasetEquiv_same_order hS (optEquiv_refl _))
  exact ⟨D', h', e1, e2, e3, fun r => hreq r r rfl rfl (forall2_getElem? hS r.input)⟩

/-- non-vacuity of `C10_mixed_reordered`: all hypotheses hold for two text files carrying `Tm` -/
example : ∃ D', mixedData pm [.nc (toNcVars Lm Tm), .text ()] {} = .ok D' := by
  cases h : mixedData pm [.text (), .text ()] {} with
  | error e =>
    have hs : (mixedData pm [.text (), .text ()] {}).toOption.isSome = true := by decide +kernel
    rw [h] at hs
    cases hs
  | ok D =>
    obtain ⟨D', h', _⟩ := C10_mixed_reordered pm [.text (), .text ()] 0 () Lm Tm Tm_wf (datasetOf Tm) rfl rfl
      (InputEquiv.refl _) (by decide +kernel) {} [datasetOf Tm, datasetOf Tm] rfl (by decide +kernel) D h
    exact ⟨D', h'⟩

end VerifModel.C10
