import Proofs.C04
import Proofs.DataRefine
import VerifModel.Model.NcAssemble
import VerifModel.Spec.Dataset
import VerifModel.Spec.NcLayout
/-
  C10 — NetCDF input is read faithfully and agrees with the text format.
-/
namespace VerifModel.C10
open VerifModel XR Spec

/-! ### cells -/

/-- a stored number that is neither the missing-value code nor above 1e30 survives cleaning -/
private theorem clean_ok (q : Rat) (h : okNum q) : clean (.val (fin q)) = fin q :=
  (C04.C04_clean (.val (fin q))).2.1 q h.1 h.2

/-- every encoding of a missing cell reads as NaN -/
private theorem clean_enc (e : Enc) : clean e.cell = nan := by
  cases e with
  | masked => exact ((C04.C04_clean .masked).1).2 (Or.inl rfl)
  | nan => exact ((C04.C04_clean (.val nan)).1).2 (Or.inr (Or.inl rfl))
  | m999 => exact ((C04.C04_clean (.val (fin (-999)))).1).2 (Or.inr (Or.inr (Or.inl rfl)))
  | pinf => exact ((C04.C04_clean (.val pinf)).1).2 (Or.inr (Or.inr (Or.inr (Or.inl rfl))))
  | big q h => exact ((C04.C04_clean (.val (fin q))).1).2 (Or.inr (Or.inr (Or.inr (Or.inr ⟨q, rfl, h⟩))))

private theorem clean_encCell (e : Enc) (c : Cell) (h : ∀ q, c = some q → okNum q) :
    clean (encCell e c) = cellXR c := by
  cases c with
  | none => exact clean_enc e
  | some q => exact clean_ok q (h q rfl)

private theorem cleanArr_encArr (L : NcLayout) (n : String) (a : CArr) (h : a.ok) :
    cleanArr (encArr L n a) = a.toArr := by
  unfold cleanArr encArr CArr.toArr
  congr 1
  apply List.ext_getElem?
  intro k
  simp only [List.getElem?_map, List.getElem?_mapIdx, Option.map_map]
  cases hk : a.data[k]? with
  | none => rfl
  | some c =>
    simp only [Option.map_some, Function.comp_apply, Option.some.injEq]
    apply clean_encCell
    intro q hq
    subst hq
    exact h q (List.mem_of_getElem? hk)

/-- a coordinate variable reads as its column: a present entry is its number, a missing entry — in
whatever encoding — is NaN -/
private theorem cleanArr_encVec (L : NcLayout) (n : String) (l : List Cell) (h : colOk l) :
    (cleanArr (encVec L n l)).data = l.map cellXR := by
  unfold encVec
  rw [cleanArr_encArr L n ⟨[l.length], l⟩ h]
  rfl

/-! ### looking a variable up in the documented layout -/

private theorem lookup_optVar_ne (k n : String) (o : Option NcArr) (h : k ≠ n) :
    (optVar n o).lookup k = none := by
  cases o <;> simp [optVar, h]

private theorem lookup_optVar_eq (n : String) (o : Option NcArr) : (optVar n o).lookup n = o := by
  cases o <;> simp [optVar]

private theorem lookup_map_none {β : Type} (f : String → β → NcArr) (k : String) (os : List (String × β))
    (h : ∀ p ∈ os, p.1 ≠ k) :
    (os.map fun p => (p.1, f p.1 p.2)).lookup k = none := by
  induction os with
  | nil => rfl
  | cons p ps ih =>
    have h1 : (k == p.1) = false := by
      have := h p (List.mem_cons_self)
      simp [Ne.symm this]
    simp only [List.map_cons, List.lookup_cons, h1]
    exact ih fun q hq => h q (List.mem_cons_of_mem _ hq)

private theorem lookup_others_none (L : NcLayout) (k : String) (os : List (String × CArr))
    (h : ∀ p ∈ os, p.1 ≠ k) :
    (os.map fun p => (p.1, encArr L p.1 p.2)).lookup k = none :=
  lookup_map_none (fun n a => encArr L n a) k os h

private theorem others_ne (T : DenseTable) (hwf : T.WF) (k : String) (hk : k ∈ reservedNames) :
    ∀ p ∈ T.others, p.1 ≠ k := by
  intro p hp h
  exact (hwf.others_ok p hp).1 (h ▸ hk)

/-- an other field is found under its own name -/
private theorem lookup_map_mem {β : Type} (f : String → β → NcArr) (k : String) (a : β)
    (os : List (String × β)) (hmem : (k, a) ∈ os) (hnd : (os.map (·.1)).Nodup) :
    (os.map fun p => (p.1, f p.1 p.2)).lookup k = some (f k a) := by
  induction os with
  | nil => cases hmem
  | cons p ps ih =>
    simp only [List.map_cons, List.nodup_cons] at hnd
    rcases List.mem_cons.mp hmem with h | h
    · subst h
      simp [List.lookup_cons]
    · have hne : (k == p.1) = false := by
        have : p.1 ≠ k := fun e => hnd.1 (e ▸ List.mem_map_of_mem (f := (·.1)) h)
        simp [Ne.symm this]
      simp only [List.map_cons, List.lookup_cons, hne]
      exact ih h hnd.2

private theorem lookup_others_mem (L : NcLayout) (k : String) (a : CArr) (os : List (String × CArr))
    (hmem : (k, a) ∈ os) (hnd : (os.map (·.1)).Nodup) :
    (os.map fun p => (p.1, encArr L p.1 p.2)).lookup k = some (encArr L k a) :=
  lookup_map_mem (fun n a => encArr L n a) k a os hmem hnd

section lookups
variable (L : NcLayout) (T : DenseTable) (hwf : T.WF)

local macro "lookup_tac" k:str : tactic =>
  `(tactic| (
    have := lookup_others_none L $k T.others (others_ne T hwf $k (by decide))
    simp [NcVars.var?, toNcVars, List.lookup_cons, List.lookup_append, lookup_optVar_ne, lookup_optVar_eq, this]))

include hwf
private theorem var_time : (toNcVars L T).var? "time" = some (encVec L "time" T.times) := by lookup_tac "time"
private theorem var_lead : (toNcVars L T).var? "leadtime" = some (encVec L "leadtime" T.leads) := by lookup_tac "leadtime"
private theorem var_loc : (toNcVars L T).var? "location" = T.ids.map (encVec L "location") := by lookup_tac "location"
private theorem var_lat : (toNcVars L T).var? "lat" = T.lats.map (encVec L "lat") := by lookup_tac "lat"
private theorem var_lon : (toNcVars L T).var? "lon" = T.lons.map (encVec L "lon") := by lookup_tac "lon"
private theorem var_alt : (toNcVars L T).var? "altitude" = T.elevs.map (encVec L "altitude") := by lookup_tac "altitude"
private theorem var_obs : (toNcVars L T).var? "obs" = T.obs.map (encArr L "obs") := by lookup_tac "obs"
private theorem var_fcst : (toNcVars L T).var? "fcst" = T.fcst.map (encArr L "fcst") := by lookup_tac "fcst"
private theorem var_pit : (toNcVars L T).var? "pit" = T.pit.map (encArr L "pit") := by lookup_tac "pit"
private theorem var_thr : (toNcVars L T).var? "threshold" = T.prob.map (fun p => encVec L "threshold" p.1) := by
  lookup_tac "threshold"
private theorem var_cdf : (toNcVars L T).var? "cdf" = T.prob.map (fun p => encArr L "cdf" p.2) := by
  lookup_tac "cdf"
private theorem var_qtl : (toNcVars L T).var? "quantile" = T.quant.map (fun p => encVec L "quantile" p.1) := by
  lookup_tac "quantile"
private theorem var_x : (toNcVars L T).var? "x" = T.quant.map (fun p => encArr L "x" p.2) := by lookup_tac "x"
private theorem var_ens : (toNcVars L T).var? "ensemble" = T.ens.map (encArr L "ensemble") := by
  lookup_tac "ensemble"


private theorem var_other (k : String) (a : CArr) (hmem : (k, a) ∈ T.others) :
    (toNcVars L T).var? k = some (encArr L k a) := by
  have hres := (hwf.others_ok (k, a) hmem).1
  simp only [reservedNames, List.mem_cons, List.not_mem_nil, or_false, not_or] at hres
  have := lookup_others_mem L k a T.others hmem hwf.others_nodup
  have h1 : (k == "time") = false := by simp [hres]
  have h2 : (k == "leadtime") = false := by simp [hres]
  simp [NcVars.var?, toNcVars, List.lookup_cons, List.lookup_append, lookup_optVar_ne, hres, this, h1, h2]

end lookups

/-! ### the reader, attribute by attribute -/

/-- `ncAssemble` succeeds exactly when time, leadtime and the locations can be read, and then every
attribute is the cleaned variable of that name (or the documented default) -/
private theorem assemble_ok (V : NcVars) (I : NcInput) (h : ncAssemble V = .ok I) :
    ∃ t l, V.var? "time" = some t ∧ V.var? "leadtime" = some l ∧ ncLocations V = .ok I.locs ∧
      I = { times := (cleanArr t).data, leads := (cleanArr l).data, locs := I.locs,
            thresholds := V.vec "threshold" [], quantiles := V.vec "quantile" [],
            varName := ncVarName V, units := ncUnits V.units, x0 := V.x0, x1 := V.x1,
            otherFields := ncOtherFields V,
            obs := (V.var? "obs").map cleanArr, fcst := (V.var? "fcst").map cleanArr,
            pit := (V.var? "pit").map cleanArr, ensemble := (V.var? "ensemble").map cleanArr,
            thresholdScores := (V.var? "cdf").map cleanArr, quantileScores := (V.var? "x").map cleanArr,
            others := (ncOtherFields V).filterMap fun n => (V.var? n).map fun a => (n, cleanArr a) } := by
  unfold ncAssemble at h
  split at h
  · cases h
  · rename_i t ht
    split at h
    · cases h
    · rename_i l hl
      split at h
      · cases h
      · rename_i locs hlocs
        injection h with h
        subst h
        exact ⟨t, l, ht, hl, hlocs, rfl⟩

/-! ### locations -/

private theorem mkLocs_eq : ∀ (lat id lon elev : List XR), id.length = lat.length →
    lon.length = lat.length → elev.length = lat.length →
    mkLocs lat id lon elev = .ok (zipLocs id lat lon elev)
  | [], id, lon, elev, h1, h2, h3 => by
    cases id <;> cases lon <;> cases elev <;> simp_all [mkLocs, zipLocs]
  | a :: as, [], _, _, h1, _, _ => by simp at h1
  | a :: as, _ :: _, [], _, _, h2, _ => by simp at h2
  | a :: as, _ :: _, _ :: _, [], _, _, h3 => by simp at h3
  | a :: as, i :: is, o :: os, e :: es, h1, h2, h3 => by
    have := mkLocs_eq as is os es (by simpa using h1) (by simpa using h2) (by simpa using h3)
    simp [mkLocs, zipLocs, this]

private theorem metaCol_length (n : Nat) (o : Option (List Cell)) (d : Nat → Rat)
    (h : ∀ l, o = some l → l.length = n) : (metaCol n o d).length = n := by
  cases o with
  | none => simp [metaCol]
  | some l => simp [metaCol, h l rfl]

private theorem vec_meta (L : NcLayout) (V : NcVars) (name : String) (n : Nat) (o : Option (List Cell))
    (d : Nat → Rat) (dflt : List XR) (hv : V.var? name = o.map (encVec L name))
    (hok : ∀ l, o = some l → l.length = n ∧ colOk l)
    (hd : dflt = (List.range n).map fun i => XR.fin (d i)) :
    V.vec name dflt = metaCol n o d := by
  unfold NcVars.vec
  rw [hv]
  cases o with
  | none => simp [metaCol, hd]
  | some l => simp only [Option.map_some, metaCol]; exact cleanArr_encVec L name l (hok l rfl).2

private theorem locs_nc (L : NcLayout) (T : DenseTable) (hwf : T.WF) :
    ncLocations (toNcVars L T) =
      .ok (zipLocs (metaCol T.nloc T.ids fun i => (i : Rat)) (metaCol T.nloc T.lats fun _ => 0)
            (metaCol T.nloc T.lons fun _ => 0) (metaCol T.nloc T.elevs fun _ => 0)) := by
  unfold ncLocations
  have hd : (toNcVars L T).dim? "location" = some T.nloc := by
    simp [NcVars.dim?, toNcVars, List.lookup_cons]
  simp only [hd]
  have hlat := vec_meta L (toNcVars L T) "lat" T.nloc T.lats (fun _ => 0) (List.replicate T.nloc (.fin 0))
    (var_lat L T hwf) hwf.lats_ok (by simp)
  have hlon := vec_meta L (toNcVars L T) "lon" T.nloc T.lons (fun _ => 0) (List.replicate T.nloc (.fin 0))
    (var_lon L T hwf) hwf.lons_ok (by simp)
  have hlen : (metaCol T.nloc T.lats fun _ => 0).length = T.nloc :=
    metaCol_length _ _ _ fun l h => (hwf.lats_ok l h).1
  rw [hlat, hlon, hlen]
  have hid := vec_meta L (toNcVars L T) "location" T.nloc T.ids (fun i => (i : Rat))
    ((List.range T.nloc).map fun (i : Nat) => XR.fin (i : Rat)) (var_loc L T hwf) hwf.ids_ok rfl
  rw [hid]
  have helev := vec_meta L (toNcVars L T) "altitude" T.nloc T.elevs (fun _ => 0)
    ((metaCol T.nloc T.lats fun _ => 0).map fun _ => XR.fin 0) (var_alt L T hwf) hwf.elevs_ok
    (by rw [List.map_const', hlen]; simp)
  rw [helev]
  apply mkLocs_eq
  · rw [hlen]; exact metaCol_length _ _ _ fun l h => (hwf.ids_ok l h).1
  · rw [hlen]; exact metaCol_length _ _ _ fun l h => (hwf.lons_ok l h).1
  · rw [hlen]; exact metaCol_length _ _ _ fun l h => (hwf.elevs_ok l h).1

/-! ### other fields -/

/-- per variable name: the entry it contributes to `dataset.others` -/
private def oth (V : NcVars) (n : String) : Option (String × Arr) :=
  if (!ncRegularNames.contains n) = true then
    Option.filter (fun p => !spuriousOther.contains p.1) ((V.var? n).map fun a => (n, cleanArr a))
  else none

private theorem oth_none (V : NcVars) (n : String) (h : n ∈ reservedNames) : oth V n = none := by
  unfold oth
  by_cases hr : n ∈ ncRegularNames
  · simp [hr]
  · have hs : n ∈ spuriousOther := by
      simp only [reservedNames, List.mem_cons, List.not_mem_nil, or_false] at h
      simp only [ncRegularNames, List.mem_cons, List.not_mem_nil, or_false, not_or] at hr
      simp only [spuriousOther, List.mem_cons, List.not_mem_nil, or_false]
      grind
    cases V.var? n <;> simp [Option.filter, hs]

private theorem mem_optVar (n k : String) (o : Option NcArr) (h : n ∈ (optVar k o).map (·.1)) : n = k := by
  cases o <;> simp_all [optVar]

private theorem dataset_others (V : NcVars) :
    (((ncOtherFields V).filterMap fun n => (V.var? n).map fun a => (n, cleanArr a)).filter
      fun p => !spuriousOther.contains p.1) = (V.vars.map (·.1)).filterMap (oth V) := by
  unfold ncOtherFields
  rw [List.filter_filterMap, List.filterMap_filter]
  rfl

private theorem others_general {β : Type} (V : NcVars) (pre : List String) (os : List (String × β))
    (f : String → β → NcArr) (g : β → Arr)
    (hnames : V.vars.map (·.1) = pre ++ os.map (·.1))
    (hpre : ∀ n ∈ pre, n ∈ reservedNames)
    (hos : ∀ p ∈ os, p.1 ∉ reservedNames ∧ V.var? p.1 = some (f p.1 p.2) ∧ cleanArr (f p.1 p.2) = g p.2) :
    (V.vars.map (·.1)).filterMap (oth V) = os.map fun p => (p.1, g p.2) := by
  rw [hnames, List.filterMap_append]
  have hnil : ∀ ns : List String, (∀ n ∈ ns, n ∈ reservedNames) → ns.filterMap (oth V) = [] := by
    intro ns h
    induction ns with
    | nil => rfl
    | cons n ns ih =>
      simp only [List.filterMap_cons, oth_none V n (h n List.mem_cons_self)]
      exact ih fun m hm => h m (List.mem_cons_of_mem _ hm)
  rw [hnil pre hpre, List.nil_append, List.filterMap_map, ← List.filterMap_eq_map]
  apply List.filterMap_congr
  intro p hp
  obtain ⟨hres, hv, hc⟩ := hos p hp
  have hreg : p.1 ∉ ncRegularNames := by
    simp only [reservedNames, List.mem_cons, List.not_mem_nil, or_false, not_or] at hres
    simp [ncRegularNames, hres]
  have hsp : p.1 ∉ spuriousOther := by
    simp only [reservedNames, List.mem_cons, List.not_mem_nil, or_false, not_or] at hres
    simp [spuriousOther, hres]
  simp [oth, hreg, hsp, hv, Option.filter, hc]

private theorem others_nc (L : NcLayout) (T : DenseTable) (hwf : T.WF) :
    ((toNcVars L T).vars.map (·.1)).filterMap (oth (toNcVars L T)) =
      T.others.map fun p => (p.1, p.2.toArr) := by
  apply others_general (toNcVars L T)
    ("time" :: "leadtime" :: ((optVar "location" (T.ids.map (encVec L "location"))).map (·.1)
        ++ (optVar "lat" (T.lats.map (encVec L "lat"))).map (·.1)
        ++ (optVar "lon" (T.lons.map (encVec L "lon"))).map (·.1)
        ++ (optVar "altitude" (T.elevs.map (encVec L "altitude"))).map (·.1)
        ++ (optVar "obs" (T.obs.map (encArr L "obs"))).map (·.1)
        ++ (optVar "fcst" (T.fcst.map (encArr L "fcst"))).map (·.1)
        ++ (optVar "pit" (T.pit.map (encArr L "pit"))).map (·.1)
        ++ (optVar "threshold" (T.prob.map fun p => encVec L "threshold" p.1)).map (·.1)
        ++ (optVar "cdf" (T.prob.map fun p => encArr L "cdf" p.2)).map (·.1)
        ++ (optVar "quantile" (T.quant.map fun p => encVec L "quantile" p.1)).map (·.1)
        ++ (optVar "x" (T.quant.map fun p => encArr L "x" p.2)).map (·.1)
        ++ (optVar "ensemble" (T.ens.map (encArr L "ensemble"))).map (·.1)))
    T.others (fun n a => encArr L n a) CArr.toArr
  · simp [toNcVars, List.map_append, Function.comp_def]
  · intro n hn
    simp only [List.mem_cons, List.mem_append, or_assoc] at hn
    rcases hn with h | h | h | h | h | h | h | h | h | h | h | h | h | h
    all_goals first
      | (subst h; decide)
      | (have := mem_optVar _ _ _ h; subst this; decide)
  · intro p hp
    exact ⟨(hwf.others_ok p hp).1, var_other L T hwf p.1 p.2 hp,
      cleanArr_encArr L p.1 p.2 (hwf.others_ok p hp).2⟩

/-! ### NetCDF = table -/

private theorem field_nc (L : NcLayout) (n : String) (o : Option CArr) (v : Option NcArr)
    (hv : v = o.map (encArr L n)) (hok : ∀ a, o = some a → a.ok) :
    v.map cleanArr = o.map CArr.toArr := by
  subst hv
  cases o with
  | none => rfl
  | some a => simp [cleanArr_encArr L n a (hok a rfl)]

private theorem units_nc (u : Option (List Char)) : ncUnits u = displayUnits u := by
  cases u <;> rfl

private theorem name_nc (L : NcLayout) (T : DenseTable) :
    ncVarName (toNcVars L T) = T.name.getD "Unknown variable" := by
  unfold ncVarName toNcVars
  cases L.useLongName <;> cases T.name <;> simp

private theorem assemble_eq (V : NcVars) (t l : NcArr) (locs : List Loc) (ht : V.var? "time" = some t)
    (hl : V.var? "leadtime" = some l) (hlocs : ncLocations V = .ok locs) :
    ncAssemble V = .ok
      { times := (cleanArr t).data, leads := (cleanArr l).data, locs := locs,
        thresholds := V.vec "threshold" [], quantiles := V.vec "quantile" [],
        varName := ncVarName V, units := ncUnits V.units, x0 := V.x0, x1 := V.x1,
        otherFields := ncOtherFields V,
        obs := (V.var? "obs").map cleanArr, fcst := (V.var? "fcst").map cleanArr,
        pit := (V.var? "pit").map cleanArr, ensemble := (V.var? "ensemble").map cleanArr,
        thresholdScores := (V.var? "cdf").map cleanArr, quantileScores := (V.var? "x").map cleanArr,
        others := (ncOtherFields V).filterMap fun n => (V.var? n).map fun a => (n, cleanArr a) } := by
  unfold ncAssemble
  simp only [ht, hl, hlocs]

private theorem dataset_ext (A B : Dataset) (h1 : A.times = B.times) (h2 : A.leads = B.leads)
    (h3 : A.locs = B.locs) (h4 : A.thresholds = B.thresholds) (h5 : A.quantiles = B.quantiles)
    (h6 : A.obs = B.obs) (h7 : A.fcst = B.fcst) (h8 : A.pit = B.pit) (h9 : A.ensemble = B.ensemble)
    (h10 : A.cdf = B.cdf) (h11 : A.x = B.x) (h12 : A.others = B.others) (h13 : A.var.name = B.var.name)
    (h14 : A.var.units = B.var.units) (h15 : A.var.x0 = B.var.x0) (h16 : A.var.x1 = B.var.x1) : A = B := by
  cases A with | mk _ _ _ _ _ _ _ _ _ _ _ _ va =>
  cases B with | mk _ _ _ _ _ _ _ _ _ _ _ _ vb =>
  cases va; cases vb
  simp_all

/-- C10, main statement: a NetCDF file in the documented layout denotes the same dataset as the table it
was written from, whatever encodings the writer chose for the missing cells — same dimensions, location
metadata (absent ids 0,1,2,…; absent lat / lon / altitude 0), thresholds / quantiles, every field cell by
cell (each encoding of a missing cell reads NaN, every other number unchanged), other fields and variable
metadata; every optional part present or absent.  The COORDINATE variables are covered in the same way:
any entry of time / leadtime / location / lat / lon / altitude / threshold / quantile may be missing in the
table, may be written in any encoding, and reads NaN (`datasetOf` maps a missing coordinate entry to NaN;
nothing is invented in its place — in particular not unix time 0).  What a NaN coordinate means for the
verification is `C10_missing_coordinate`.  (`datasetOf T` is also what the text reader must yield for a
text file carrying `T`: C09_roundtrip proves it for tables whose time / lead time / id entries are present, with
lat / lon / elevation known or not — an unknown one reads NaN in both formats (`Spec.metaVal`); for a missing id / date
token the model of the text reader gives NaN as well: `C09_missing_id_kept`, `C09_missing_date_nan`; the cross-format
relation itself is checked on the real readers by stream nc.text.) -/
theorem C10_same_dataset (L : NcLayout) (T : DenseTable) (hwf : T.WF) :
    (ncAssemble (toNcVars L T)).map NcInput.dataset = .ok (datasetOf T) := by
  have htime := var_time L T hwf
  have hlead := var_lead L T hwf
  have hlocs := locs_nc L T hwf
  have hthr := var_thr L T hwf
  have hqtl := var_qtl L T hwf
  have hobs := var_obs L T hwf
  have hfcst := var_fcst L T hwf
  have hpit := var_pit L T hwf
  have hens := var_ens L T hwf
  have hcdf := var_cdf L T hwf
  have hx := var_x L T hwf
  have hoth := others_nc L T hwf
  have hname := name_nc L T
  have hunits : (toNcVars L T).units = T.units := rfl
  have hx0 : (toNcVars L T).x0 = T.x0.map XR.fin := rfl
  have hx1 : (toNcVars L T).x1 = T.x1.map XR.fin := rfl
  generalize toNcVars L T = V at *
  rw [assemble_eq V _ _ _ htime hlead hlocs]
  show Except.ok (NcInput.dataset _) = Except.ok _
  congr 1
  apply dataset_ext
  · exact cleanArr_encVec L "time" _ hwf.times_ok
  · exact cleanArr_encVec L "leadtime" _ hwf.leads_ok
  · rfl
  · show V.vec "threshold" [] = _
    unfold NcVars.vec
    rw [hthr]
    simp only [datasetOf]
    cases hp : T.prob with
    | none => rfl
    | some p => exact cleanArr_encVec L "threshold" _ (hwf.prob_ok p hp).1
  · show V.vec "quantile" [] = _
    unfold NcVars.vec
    rw [hqtl]
    simp only [datasetOf]
    cases hp : T.quant with
    | none => rfl
    | some p => exact cleanArr_encVec L "quantile" _ (hwf.quant_ok p hp).1
  · exact field_nc L "obs" _ _ hobs hwf.obs_ok
  · exact field_nc L "fcst" _ _ hfcst hwf.fcst_ok
  · exact field_nc L "pit" _ _ hpit hwf.pit_ok
  · exact field_nc L "ensemble" _ _ hens hwf.ens_ok
  · show (V.var? "cdf").map cleanArr = _
    rw [hcdf]
    simp only [datasetOf]
    cases hp : T.prob with
    | none => rfl
    | some p => simp [cleanArr_encArr L "cdf" p.2 (hwf.prob_ok p hp).2]
  · show (V.var? "x").map cleanArr = _
    rw [hx]
    simp only [datasetOf]
    cases hp : T.quant with
    | none => rfl
    | some p => simp [cleanArr_encArr L "x" p.2 (hwf.quant_ok p hp).2]
  · show List.filter _ _ = _
    rw [dataset_others, hoth]
    rfl
  · exact hname
  · show ncUnits V.units = _
    rw [hunits]; exact units_nc _
  · exact hx0
  · exact hx1

private def T0 : DenseTable :=
  { times := [some 0], leads := [some 0], nloc := 1, obs := some ⟨[1, 1, 1], [some 1]⟩ }

private theorem T0_wf : T0.WF := by
  constructor <;> simp [T0, okNum, CArr.ok, colOk, reservedNames] <;> norm_num

/-- one location, no lat / lon / altitude variable (the input that used to read elevation NaN): the NetCDF
reader yields the location (0, 0, 0, 0), as the table denotes -/
example : (ncAssemble (toNcVars ⟨fun _ _ => .masked, true⟩ T0)).map NcInput.dataset = .ok (datasetOf T0) ∧
    (datasetOf T0).locs = [⟨.fin 0, .fin 0, .fin 0, .fin 0⟩] :=
  ⟨C10_same_dataset _ T0 T0_wf, by decide +kernel⟩

/-! ### a missing coordinate entry: NaN in the dataset, in no verification -/

/-- `np.where(value == coordinates)[0][0]` never lands on a NaN slot -/
private theorem indicesOf_not_nan (avail col : List XR) (k : Nat) (hk : col[k]? = some nan) :
    k ∉ indicesOf avail col := by
  intro hmem
  unfold indicesOf at hmem
  obtain ⟨v, _, hv⟩ := List.mem_map.mp hmem
  unfold firstIdx at hv
  have hlt : k < col.length := by
    rcases Nat.lt_or_ge k col.length with h | h
    · exact h
    · rw [List.getElem?_eq_none h] at hk; cases hk
  subst hv
  have h1 := List.findIdx_getElem (w := hlt)
  rw [List.getElem?_eq_getElem hlt] at hk
  injection hk with hk
  rw [hk] at h1
  cases v <;> simp [XR.eqb] at h1

private theorem ne_nan_of_isNan {v : XR} (h : v.isNan = false) : v ≠ nan := by
  intro e; subst e; simp [XR.isNan] at h

/-- What `Data` does with NaN coordinates (data.py:674-675, "Remove nan values"), for ANY inputs and
options: no verified time, lead time or location id is NaN, and for every input (incl. the climatology)
the index lists through which every array is cut (`DataS.cutFor`: the only access to the stored cells)
never contain a position whose time / lead time / location id is NaN — the cases stored at a NaN
coordinate take part in no verification. -/
theorem C10_nan_coordinate_unverified (scored : List Input) (cfg : Cfg) (D : DataS)
    (h : Data.init scored cfg = .ok D) :
    (∀ v ∈ D.times, v ≠ nan) ∧ (∀ v ∈ D.leads, v ≠ nan) ∧ (∀ l ∈ D.locs, l.id ≠ nan) ∧
    ∀ (i : Nat) (I : Input), D.inputs[i]? = some I →
      (∀ k, I.times[k]? = some nan → k ∉ D.timesI.getD i []) ∧
      (∀ k, I.leads[k]? = some nan → k ∉ D.leadsI.getD i []) ∧
      (∀ k, (I.locs.map (·.id))[k]? = some nan → k ∉ D.locsI.getD i []) := by
  have F := DataRefine.init_facts scored cfg D h
  have hd := F.hDims
  unfold Spec.DataCoord.specDims at hd
  simp only at hd
  split at hd
  · cases hd
  · split at hd
    · cases hd
    · split at hd
      · cases hd
      · injection hd with hd
        injection hd with ht hl hx
        refine ⟨?_, ?_, ?_, ?_⟩
        · intro v hv
          rw [← ht] at hv
          exact ne_nan_of_isNan ((DataRefine.commonSet_sorted _ _).2 v (List.mem_filter.mp hv).1)
        · intro v hv
          rw [← hl] at hv
          exact ne_nan_of_isNan ((DataRefine.commonSet_sorted _ _).2 v hv)
        · intro l hl'
          have : l.id ∈ D.locs.map (·.id) := List.mem_map_of_mem hl'
          rw [← hx] at this
          exact ne_nan_of_isNan ((DataRefine.commonSet_sorted _ _).2 _ this)
        · intro i I hI
          have e1 : D.timesI.getD i [] = indicesOf D.times I.times := by
            rw [F.hTimesI]; simp [List.getD_eq_getElem?_getD, List.getElem?_map, hI]
          have e2 : D.leadsI.getD i [] = indicesOf D.leads I.leads := by
            rw [F.hLeadsI]; simp [List.getD_eq_getElem?_getD, List.getElem?_map, hI]
          have e3 : D.locsI.getD i [] = indicesOf (D.locs.map (·.id)) (I.locs.map (·.id)) := by
            rw [F.hLocsI]; simp [List.getD_eq_getElem?_getD, List.getElem?_map, hI]
          rw [e1, e2, e3]
          exact ⟨fun k hk => indicesOf_not_nan _ _ k hk, fun k hk => indicesOf_not_nan _ _ k hk,
            fun k hk => indicesOf_not_nan _ _ k hk⟩

/-- a location whose latitude / longitude / altitude is NaN is inside no `-latrange` / `-lonrange` /
`-elevrange` (the comparisons with NaN are false) -/
theorem C10_nan_metadata_in_no_range (r : XR × XR) : inRange r nan = false := by
  cases r with | mk lo hi => cases lo <;> simp [inRange, XR.ge, XR.le, XR.lt, XR.gt]

private theorem zipLocs_cols : ∀ (i a o e : List XR), a.length = i.length → o.length = i.length →
    e.length = i.length →
    (zipLocs i a o e).map (·.id) = i ∧ (zipLocs i a o e).map (·.lat) = a ∧
    (zipLocs i a o e).map (·.lon) = o ∧ (zipLocs i a o e).map (·.elev) = e
  | [], a, o, e, h1, h2, h3 => by
    cases a <;> cases o <;> cases e <;> simp_all [zipLocs]
  | _ :: _, [], _, _, h, _, _ => by simp at h
  | _ :: _, _ :: _, [], _, _, h, _ => by simp at h
  | _ :: _, _ :: _, _ :: _, [], _, _, h => by simp at h
  | x :: is, _ :: as, _ :: os, _ :: es, h1, h2, h3 => by
    obtain ⟨r1, r2, r3, r4⟩ := zipLocs_cols is as os es (by simpa using h1) (by simpa using h2) (by simpa using h3)
    simp [zipLocs, r1, r2, r3, r4]

/-- C10 for a file with missing COORDINATE entries.  Let `T` be any well-formed table, written to NetCDF
in the documented layout with any encodings (masked / fill value, NaN, -999, > 1e30) of its missing
entries.  The reader succeeds, its dataset is `datasetOf T`, and for every position `k`:
  * a missing time / lead time / location id reads NaN at position `k` of that coordinate, and in every
    `Data` object built on the file (any options, any further inputs, any climatology) position `k` is in
    none of the index lists the arrays are cut with: the cases stored there take part in no verification;
    the verified times / lead times / location ids contain no NaN (first conjunct block);
  * a missing lat / lon / altitude reads NaN in the location's metadata (the location itself stays, and is
    inside no lat / lon / elevation range: `C10_nan_metadata_in_no_range`);
  * a missing threshold / quantile level reads NaN in `thresholds` / `quantiles`.
No value (such as unix time 0) is invented for a missing coordinate. -/
theorem C10_missing_coordinate (L : NcLayout) (T : DenseTable) (hwf : T.WF) :
    ∃ I, ncAssemble (toNcVars L T) = .ok I ∧ I.dataset = datasetOf T ∧
      (∀ k : Nat, T.times[k]? = some none → I.times[k]? = some nan) ∧
      (∀ k : Nat, T.leads[k]? = some none → I.leads[k]? = some nan) ∧
      (∀ l (k : Nat), T.ids = some l → l[k]? = some none → (I.locs.map (·.id))[k]? = some nan) ∧
      (∀ l (k : Nat), T.lats = some l → l[k]? = some none → (I.locs.map (·.lat))[k]? = some nan) ∧
      (∀ l (k : Nat), T.lons = some l → l[k]? = some none → (I.locs.map (·.lon))[k]? = some nan) ∧
      (∀ l (k : Nat), T.elevs = some l → l[k]? = some none → (I.locs.map (·.elev))[k]? = some nan) ∧
      (∀ p (k : Nat), T.prob = some p → p.1[k]? = some none → I.thresholds[k]? = some nan) ∧
      (∀ p (k : Nat), T.quant = some p → p.1[k]? = some none → I.quantiles[k]? = some nan) ∧
      ∀ (others : List Input) (cfg : Cfg) (D : DataS),
        Data.init (I.dataInput :: others) cfg = .ok D →
          (∀ v ∈ D.times, v ≠ nan) ∧ (∀ v ∈ D.leads, v ≠ nan) ∧ (∀ l ∈ D.locs, l.id ≠ nan) ∧
          (∀ k : Nat, T.times[k]? = some none → k ∉ D.timesI.getD 0 []) ∧
          (∀ k : Nat, T.leads[k]? = some none → k ∉ D.leadsI.getD 0 []) ∧
          (∀ l (k : Nat), T.ids = some l → l[k]? = some none → k ∉ D.locsI.getD 0 []) := by
  have hmain := C10_same_dataset L T hwf
  cases hI : ncAssemble (toNcVars L T) with
  | error e => rw [hI] at hmain; cases hmain
  | ok I =>
    rw [hI] at hmain
    have hds : I.dataset = datasetOf T := by
      have : Except.ok (I.dataset) = (Except.ok (datasetOf T) : Except String Dataset) := hmain
      injection this
    have htimes : I.times = T.times.map cellXR := congrArg Dataset.times hds
    have hleads : I.leads = T.leads.map cellXR := congrArg Dataset.leads hds
    have hlocs : I.locs = (datasetOf T).locs := congrArg Dataset.locs hds
    have hthr : I.thresholds = (datasetOf T).thresholds := congrArg Dataset.thresholds hds
    have hqtl : I.quantiles = (datasetOf T).quantiles := congrArg Dataset.quantiles hds
    have ht : ∀ k : Nat, T.times[k]? = some none → I.times[k]? = some nan := by
      intro k hk; rw [htimes, List.getElem?_map, hk]; rfl
    have hl : ∀ k : Nat, T.leads[k]? = some none → I.leads[k]? = some nan := by
      intro k hk; rw [hleads, List.getElem?_map, hk]; rfl
    obtain ⟨c1, c2, c3, c4⟩ := zipLocs_cols (metaCol T.nloc T.ids fun i => (i : Rat))
      (metaCol T.nloc T.lats fun _ => 0) (metaCol T.nloc T.lons fun _ => 0) (metaCol T.nloc T.elevs fun _ => 0)
      (by rw [metaCol_length _ _ _ fun l h => (hwf.lats_ok l h).1, metaCol_length _ _ _ fun l h => (hwf.ids_ok l h).1])
      (by rw [metaCol_length _ _ _ fun l h => (hwf.lons_ok l h).1, metaCol_length _ _ _ fun l h => (hwf.ids_ok l h).1])
      (by rw [metaCol_length _ _ _ fun l h => (hwf.elevs_ok l h).1, metaCol_length _ _ _ fun l h => (hwf.ids_ok l h).1])
    have hid : ∀ l (k : Nat), T.ids = some l → l[k]? = some none → (I.locs.map (·.id))[k]? = some nan := by
      intro l k hl' hk
      rw [hlocs]; simp only [datasetOf]; rw [c1]
      simp only [hl', metaCol, List.getElem?_map, hk]; rfl
    refine ⟨I, rfl, hds, ht, hl, hid, ?_, ?_, ?_, ?_, ?_, ?_⟩
    · intro l k hl' hk
      rw [hlocs]; simp only [datasetOf]; rw [c2]
      simp only [hl', metaCol, List.getElem?_map, hk]; rfl
    · intro l k hl' hk
      rw [hlocs]; simp only [datasetOf]; rw [c3]
      simp only [hl', metaCol, List.getElem?_map, hk]; rfl
    · intro l k hl' hk
      rw [hlocs]; simp only [datasetOf]; rw [c4]
      simp only [hl', metaCol, List.getElem?_map, hk]; rfl
    · intro p k hp hk
      rw [hthr]; simp only [datasetOf, hp, List.getElem?_map, hk]; rfl
    · intro p k hp hk
      rw [hqtl]; simp only [datasetOf, hp, List.getElem?_map, hk]; rfl
    · intro others cfg D hD
      obtain ⟨a, b, c, d⟩ := C10_nan_coordinate_unverified _ cfg D hD
      have hin : D.inputs[0]? = some I.dataInput := by
        rw [(DataRefine.init_facts _ cfg D hD).hInputs]; rfl
      obtain ⟨d1, d2, d3⟩ := d 0 I.dataInput hin
      exact ⟨a, b, c, fun k hk => d1 k (ht k hk), fun k hk => d2 k (hl k hk),
        fun l k hl' hk => d3 k (hid l k hl' hk)⟩

/-- two times (the second missing, stored as -999), two locations (the id of the second missing, masked) -/
private def T2 : DenseTable :=
  { times := [some 0, none], leads := [some 0], nloc := 2, ids := some [some 3, none],
    obs := some ⟨[2, 1, 2], [some 1, some 2, some 3, some 4]⟩ }

private def L2 : NcLayout := ⟨fun n _ => if n = "time" then .m999 else .masked, true⟩

private theorem T2_wf : T2.WF := by
  constructor <;> simp [T2, okNum, CArr.ok, colOk, reservedNames] <;> norm_num

/-- the hypotheses of `C10_missing_coordinate` are satisfiable with a `Data` object that exists: the file is
read with time NaN at position 1 and id NaN at position 1, `Data` verifies the one case at (time 0, lead
time 0, location 3) — the three cases stored at a NaN coordinate (values 2, 3, 4) are not read -/
example : (ncAssemble (toNcVars L2 T2)).map (fun I => (I.times, I.locs.map (·.id))) = .ok ([fin 0, nan], [fin 3, nan]) ∧
    ((ncData (toNcVars L2 T2)).toOption.map fun D => (D.times, D.locs.map (·.id))) = some ([fin 0], [fin 3]) ∧
    ((ncData (toNcVars L2 T2)).toOption.map fun D => (D.timesI, D.locsI)) = some ([[0]], [[0]]) ∧
    ((ncData (toNcVars L2 T2)).toOption.map fun D => (D.getScores ⟨["obs"], 0, .all⟩).toOption)
      = some (some [[fin 1]]) := by
  refine ⟨?_, ?_, ?_, ?_⟩ <;> decide +kernel

example : ∃ I, ncAssemble (toNcVars L2 T2) = .ok I ∧ I.dataset = datasetOf T2 :=
  let ⟨I, h1, h2, _⟩ := C10_missing_coordinate L2 T2 T2_wf
  ⟨I, h1, h2⟩

/-! ### every field is `clean` of the stored cell -/

/-- C10: whatever the file contains, every attribute of the assembled input is the cleaned variable of
that name — the shape is kept and cell k is `clean` of stored cell k, i.e. (C04_clean) NaN iff the stored
cell is masked / NaN / -999 / above 1e30, and the stored number itself otherwise. -/
theorem C10_clean_assemble (V : NcVars) (I : NcInput) (h : ncAssemble V = .ok I) :
    (∃ t l, V.var? "time" = some t ∧ V.var? "leadtime" = some l ∧
        I.times = (cleanArr t).data ∧ I.leads = (cleanArr l).data) ∧
    I.thresholds = V.vec "threshold" [] ∧ I.quantiles = V.vec "quantile" [] ∧
    I.obs = (V.var? "obs").map cleanArr ∧ I.fcst = (V.var? "fcst").map cleanArr ∧
    I.pit = (V.var? "pit").map cleanArr ∧ I.ensemble = (V.var? "ensemble").map cleanArr ∧
    I.thresholdScores = (V.var? "cdf").map cleanArr ∧ I.quantileScores = (V.var? "x").map cleanArr ∧
    (∀ n a, (n, a) ∈ I.others → ∃ s, V.var? n = some s ∧ a = cleanArr s) ∧
    (∀ (s : NcArr), (cleanArr s).dims = s.shape ∧ (cleanArr s).data.length = s.data.length ∧
      ∀ (k : Nat) (c : NcCell), s.data[k]? = some c →
        (cleanArr s).data[k]? = some (clean c) ∧
        (clean c = nan ↔ c = .masked ∨ c = .val nan ∨ c = .val (fin (-999)) ∨ c = .val pinf
            ∨ ∃ q : Rat, c = .val (fin q) ∧ q > 1000000000000000019884624838656) ∧
        (∀ q : Rat, c = .val (fin q) → q ≠ -999 → q ≤ 1000000000000000019884624838656 → clean c = fin q)) := by
  obtain ⟨t, l, ht, hl, _, hI⟩ := assemble_ok V I h
  refine ⟨⟨t, l, ht, hl, ?_, ?_⟩, ?_, ?_, ?_, ?_, ?_, ?_, ?_, ?_, ?_, ?_⟩
  all_goals try (rw [hI])
  · intro n a hmem
    rw [hI] at hmem
    simp only [List.mem_filterMap] at hmem
    obtain ⟨m, _, hm⟩ := hmem
    cases hv : V.var? m with
    | none => simp [hv] at hm
    | some s =>
      simp only [hv, Option.map_some, Option.some.injEq, Prod.mk.injEq] at hm
      obtain ⟨h1, h2⟩ := hm
      subst h1
      exact ⟨s, hv, h2.symm⟩
  · intro s
    refine ⟨rfl, by simp [cleanArr], ?_⟩
    intro k c hk
    refine ⟨by simp [cleanArr, hk], (C04.C04_clean c).1, ?_⟩
    intro q hc h1 h2
    subst hc
    exact (C04.C04_clean (.val (fin q))).2.1 q h1 h2

/-! ### optional variables -/

/-- absent optional variables: the field is not available (`None`), thresholds / quantiles are empty,
location ids are 0,1,2,…, lat, lon and the elevation read 0 -/
theorem C10_optional_absent (V : NcVars) (I : NcInput) (h : ncAssemble V = .ok I) :
    (V.var? "obs" = none → I.obs = none) ∧ (V.var? "fcst" = none → I.fcst = none) ∧
    (V.var? "pit" = none → I.pit = none) ∧ (V.var? "ensemble" = none → I.ensemble = none) ∧
    (V.var? "cdf" = none → I.thresholdScores = none) ∧ (V.var? "x" = none → I.quantileScores = none) ∧
    (V.var? "threshold" = none → I.thresholds = []) ∧ (V.var? "quantile" = none → I.quantiles = []) ∧
    (∀ n, V.dim? "location" = some n → V.var? "location" = none → V.var? "lat" = none →
      V.var? "lon" = none → V.var? "altitude" = none →
      I.locs = (List.range n).map fun (i : Nat) => (⟨.fin (i : Rat), .fin 0, .fin 0, .fin 0⟩ : Loc)) := by
  obtain ⟨t, l, ht, hl, hlocs, hI⟩ := assemble_ok V I h
  refine ⟨?_, ?_, ?_, ?_, ?_, ?_, ?_, ?_, ?_⟩
  all_goals try (intro hv; rw [hI]; simp [hv, NcVars.vec])
  intro n hd h1 h2 h3 h4
  have : ncLocations V = .ok ((List.range n).map fun (i : Nat) => (⟨.fin (i : Rat), .fin 0, .fin 0, .fin 0⟩ : Loc)) := by
    unfold ncLocations
    simp only [hd, NcVars.vec, h1, h2, h3, h4, List.length_replicate]
    rw [mkLocs_eq _ _ _ _ (by simp) (by simp) (by simp)]
    congr 1
    clear hlocs hI hd
    have key : ∀ (m : Nat) (f : Nat → Rat), zipLocs ((List.range' m n).map fun i => XR.fin (f i))
        (List.replicate n (.fin 0)) (List.replicate n (.fin 0))
        ((List.replicate n (XR.fin 0)).map fun _ => XR.fin 0) =
        (List.range' m n).map fun i => (⟨.fin (f i), .fin 0, .fin 0, .fin 0⟩ : Loc) := by
      induction n with
      | zero => intro m f; rfl
      | succ k ih =>
        intro m f
        simp only [List.range'_succ, List.map_cons, List.replicate_succ, zipLocs]
        congr 1
        exact ih (m + 1) f
    have := key 0 (fun i => (i : Rat))
    simpa [List.range_eq_range'] using this
  rw [this] at hlocs
  injection hlocs with hlocs
  exact hlocs.symm

/-- present optional variables are used: ids / lat / lon / altitude are the cleaned variables -/
theorem C10_optional_present (V : NcVars) (I : NcInput) (h : ncAssemble V = .ok I)
    (id lat lon alt : NcArr) (h1 : V.var? "location" = some id) (h2 : V.var? "lat" = some lat)
    (h3 : V.var? "lon" = some lon) (h4 : V.var? "altitude" = some alt)
    (hid : id.data.length = lat.data.length) (hlon : lon.data.length = lat.data.length)
    (halt : alt.data.length = lat.data.length) :
    I.locs = zipLocs (id.data.map clean) (lat.data.map clean) (lon.data.map clean) (alt.data.map clean) := by
  obtain ⟨t, l, ht, hl, hlocs, hI⟩ := assemble_ok V I h
  have : ncLocations V = .ok (zipLocs (id.data.map clean) (lat.data.map clean) (lon.data.map clean)
      (alt.data.map clean)) := by
    unfold ncLocations
    cases hd : V.dim? "location" with
    | none => rw [ncLocations, hd] at hlocs; cases hlocs
    | some n =>
      simp only [NcVars.vec, h1, h2, h3, h4, cleanArr]
      exact mkLocs_eq _ _ _ _ (by simp [hid]) (by simp [hlon]) (by simp [halt])
  rw [this] at hlocs
  injection hlocs with hlocs
  exact hlocs.symm

/-! ### format detection -/

/-- C10: the decision of `get_input` is a function of four content predicates — the model's `detect` has
no file-name argument — and this is its complete decision table. -/
theorem C10_detect (vn vc vt : Bool) :
    detect true true vc vt = .ok .netcdf ∧
    detect true false true vt = .ok .comps ∧
    detect true false false vt = .error "does not have the correct Netcdf format" ∧
    detect false vn vc true = .ok .text ∧
    detect false vn vc false = .error "is not a valid input file" := by
  refine ⟨?_, ?_, ?_, ?_, ?_⟩ <;> simp [detect]

/-- a file netCDF4 can open is read as verif NetCDF iff it has the dimensions time, location, leadtime and
the variables time, leadtime — nothing else is required (every other variable is optional) -/
theorem C10_valid_iff (V : NcVars) (vc : Bool) :
    detectNc V vc = .ok .netcdf ↔
      ("time" ∈ V.dims.map (·.1) ∧ "location" ∈ V.dims.map (·.1) ∧ "leadtime" ∈ V.dims.map (·.1)) ∧
      ("time" ∈ V.vars.map (·.1) ∧ "leadtime" ∈ V.vars.map (·.1)) := by
  unfold detectNc detect isValidNc hasDims hasVars
  simp only [if_true, List.all_cons, List.all_nil, Bool.and_true]
  constructor
  · intro h
    split at h
    · rename_i hv
      simpa [and_assoc] using hv
    · split at h <;> cases h
  · intro h
    have : (decide ("time" ∈ V.dims.map (·.1)) && (decide ("location" ∈ V.dims.map (·.1)) &&
        decide ("leadtime" ∈ V.dims.map (·.1))) && (decide ("time" ∈ V.vars.map (·.1)) &&
        decide ("leadtime" ∈ V.vars.map (·.1)))) = true := by simp [h]
    simp [h]

/-! ### text2nc -/

/-- a value that survives being stored with rounding `r` and read back: missing, -inf, or a number that
`r` leaves alone (for `r32`: a float32-representable number) and that is not a missing-value code -/
def Keeps (r : Rat → Rat) (v : XR) : Prop :=
  v = .nan ∨ v = .ninf ∨ ∃ q, v = .fin q ∧ r q = q ∧ okNum q

private theorem keeps_clean (r : Rat → Rat) (v : XR) (h : Keeps r v) : clean (.val (roundX r v)) = v := by
  rcases h with h | h | ⟨q, h, hr, hq⟩
  · subst h; exact ((C04.C04_clean (.val nan)).1).2 (Or.inr (Or.inl rfl))
  · subst h; exact (C04.C04_clean (.val ninf)).2.2
  · subst h; simp only [roundX, hr]; exact clean_ok q hq

private theorem clean_storeVec (r : Rat → Rat) (v : List XR) (h : ∀ x ∈ v, Keeps r x) :
    (cleanArr (storeVec r v)).data = v := by
  unfold cleanArr storeVec
  simp only [List.map_map]
  conv => rhs; rw [← List.map_id v]
  apply List.map_congr_left
  intro x hx
  exact keeps_clean r x (h x hx)

private theorem clean_storeArr (r : Rat → Rat) (a : Arr) (h : ∀ x ∈ a.data, Keeps r x) :
    cleanArr (storeArr r a) = a := by
  cases a with | mk dims data =>
  unfold cleanArr storeArr
  simp only [List.map_map, Arr.mk.injEq, true_and]
  conv => rhs; rw [← List.map_id data]
  apply List.map_congr_left
  intro x hx
  exact keeps_clean r x (h x hx)

private theorem zipLocs_map (l : List Loc) :
    zipLocs (l.map (·.id)) (l.map (·.lat)) (l.map (·.lon)) (l.map (·.elev)) = l := by
  induction l with
  | nil => rfl
  | cons a as ih => simp [zipLocs, ih]

/-- what `text2nc.py` can convert without loss: every number is float32-representable (int32 for the
location ids; times are stored as doubles) and not a missing-value code, probabilities / quantile values come
with their thresholds / levels, an ensemble has at least one member, other fields have proper names, and the
units are in display form (`%` or `$…$`).  Observations and forecasts may each be present or absent (a verif
file needs neither): nothing is assumed about `D.obs` / `D.fcst` beyond their numbers. -/
structure Convertible (R : Rounding) (D : Dataset) : Prop where
  times : ∀ v ∈ D.times, Keeps id v
  leads : ∀ v ∈ D.leads, Keeps R.r32 v
  locs : ∀ l ∈ D.locs, Keeps R.i32 l.id ∧ Keeps R.r32 l.lat ∧ Keeps R.r32 l.lon ∧ Keeps R.r32 l.elev
  thresholds : ∀ v ∈ D.thresholds, Keeps R.r32 v
  quantiles : ∀ v ∈ D.quantiles, Keeps R.r32 v
  obs : ∀ a, D.obs = some a → ∀ v ∈ a.data, Keeps R.r32 v
  fcst : ∀ a, D.fcst = some a → ∀ v ∈ a.data, Keeps R.r32 v
  pit : ∀ a, D.pit = some a → ∀ v ∈ a.data, Keeps R.r32 v
  /-- an input without members has `ensemble = none` (the view `NcInput.dataset` / the harness take) -/
  ens : ∀ a, D.ensemble = some a → a.dims.getLastD 0 ≠ 0 ∧ ∀ v ∈ a.data, Keeps R.r32 v
  cdf : if D.thresholds = [] then D.cdf = none else ∃ a, D.cdf = some a ∧ ∀ v ∈ a.data, Keeps R.r32 v
  x : if D.quantiles = [] then D.x = none else ∃ a, D.x = some a ∧ ∀ v ∈ a.data, Keeps R.r32 v
  others : ∀ p ∈ D.others, p.1 ∉ reservedNames ∧ ∀ v ∈ p.2.data, Keeps R.r32 v
  others_nodup : (D.others.map (·.1)).Nodup
  units : D.var.units = ['%'] ∨ ∃ u, D.var.units = '$' :: (u ++ ['$']) ∧ '$' ∉ u ∧ u ≠ [] ∧ u ≠ ['%']

private theorem strip_units (u : List Char) (h : u = ['%'] ∨ ∃ w, u = '$' :: (w ++ ['$']) ∧ '$' ∉ w ∧
    w ≠ [] ∧ w ≠ ['%']) : ncUnits (some (stripDollar u)) = u := by
  rcases h with h | ⟨w, h, h1, h2, h3⟩
  · subst h; decide
  · subst h
    have hw : stripDollar ('$' :: (w ++ ['$'])) = w := by
      unfold stripDollar
      simp only [List.filter_cons, List.filter_append, List.filter_nil, ne_eq, not_true_eq_false,
        decide_false, Bool.false_eq_true, if_false, List.append_nil]
      apply List.filter_eq_self.mpr
      intro c hc
      simp only [decide_eq_true_eq]
      intro e
      exact h1 (e ▸ hc)
    rw [hw]
    simp [ncUnits, h2, h3]

section t2n
variable (R : Rounding) (D : Dataset) (hc : Convertible R D)
include hc

private theorem t_others_ne (k : String) (hk : k ∈ reservedNames) : ∀ p ∈ D.others, p.1 ≠ k := by
  intro p hp h
  exact (hc.others p hp).1 (h ▸ hk)

local macro "t2n_tac" k:str : tactic =>
  `(tactic| (
    have := lookup_map_none (fun _ a => storeArr R.r32 a) $k D.others (t_others_ne R D hc $k (by decide))
    simp [NcVars.var?, text2nc, List.lookup_cons, List.lookup_append, lookup_optVar_ne, lookup_optVar_eq, this]))

private theorem t_time : (text2nc R D).var? "time" = some (storeVec id D.times) := by t2n_tac "time"
private theorem t_lead : (text2nc R D).var? "leadtime" = some (storeVec R.r32 D.leads) := by t2n_tac "leadtime"
private theorem t_loc : (text2nc R D).var? "location" = some (storeVec R.i32 (D.locs.map (·.id))) := by
  t2n_tac "location"
private theorem t_lat : (text2nc R D).var? "lat" = some (storeVec R.r32 (D.locs.map (·.lat))) := by t2n_tac "lat"
private theorem t_lon : (text2nc R D).var? "lon" = some (storeVec R.r32 (D.locs.map (·.lon))) := by t2n_tac "lon"
private theorem t_alt : (text2nc R D).var? "altitude" = some (storeVec R.r32 (D.locs.map (·.elev))) := by
  t2n_tac "altitude"
private theorem t_obs : (text2nc R D).var? "obs" = D.obs.map (storeArr R.r32) := by t2n_tac "obs"
private theorem t_fcst : (text2nc R D).var? "fcst" = D.fcst.map (storeArr R.r32) := by t2n_tac "fcst"
private theorem t_pit : (text2nc R D).var? "pit" = D.pit.map (storeArr R.r32) := by t2n_tac "pit"
private theorem t_ens : (text2nc R D).var? "ensemble" =
    (D.ensemble.filter fun a => a.dims.getLastD 0 != 0).map (storeArr R.r32) := by t2n_tac "ensemble"
private theorem t_thr : (text2nc R D).var? "threshold" =
    if D.thresholds.isEmpty then none else some (storeVec R.r32 D.thresholds) := by
  by_cases h : D.thresholds.isEmpty <;> t2n_tac "threshold" <;> simp_all
private theorem t_qtl : (text2nc R D).var? "quantile" =
    if D.quantiles.isEmpty then none else some (storeVec R.r32 D.quantiles) := by
  by_cases h : D.quantiles.isEmpty <;> t2n_tac "quantile" <;> simp_all
private theorem t_cdf : (text2nc R D).var? "cdf" =
    if D.thresholds.isEmpty then none else some (storeArr R.r32 (D.cdf.getD
      (nanArr ([D.times.length, D.leads.length, D.locs.length] ++ [D.thresholds.length])))) := by
  by_cases h : D.thresholds.isEmpty <;> t2n_tac "cdf" <;> simp_all
private theorem t_x : (text2nc R D).var? "x" =
    if D.quantiles.isEmpty then none else some (storeArr R.r32 (D.x.getD
      (nanArr ([D.times.length, D.leads.length, D.locs.length] ++ [D.quantiles.length])))) := by
  by_cases h : D.quantiles.isEmpty <;> t2n_tac "x" <;> simp_all

private theorem t_other (k : String) (a : Arr) (hmem : (k, a) ∈ D.others) :
    (text2nc R D).var? k = some (storeArr R.r32 a) := by
  have hres := (hc.others (k, a) hmem).1
  simp only [reservedNames, List.mem_cons, List.not_mem_nil, or_false, not_or] at hres
  have := lookup_map_mem (fun _ a => storeArr R.r32 a) k a D.others hmem hc.others_nodup
  have h1 : (k == "time") = false := by simp [hres]
  have h2 : (k == "leadtime") = false := by simp [hres]
  have h3 : (k == "location") = false := by simp [hres]
  have h4 : (k == "lat") = false := by simp [hres]
  have h5 : (k == "lon") = false := by simp [hres]
  have h6 : (k == "altitude") = false := by simp [hres]
  have h7 : (k == "fcst") = false := by simp [hres]
  have h8 : (k == "obs") = false := by simp [hres]
  simp [NcVars.var?, text2nc, List.lookup_cons, List.lookup_append, lookup_optVar_ne, hres, this,
    h1, h2, h3, h4, h5, h6, h7, h8]

private theorem t_locs : ncLocations (text2nc R D) = .ok D.locs := by
  unfold ncLocations
  have hd : (text2nc R D).dim? "location" = some D.locs.length := by
    simp [NcVars.dim?, text2nc, List.lookup_cons]
  simp only [hd, NcVars.vec, t_lat R D hc, t_lon R D hc, t_loc R D hc, t_alt R D hc]
  rw [clean_storeVec, clean_storeVec, clean_storeVec, clean_storeVec]
  · rw [mkLocs_eq _ _ _ _ (by simp) (by simp) (by simp), zipLocs_map]
  all_goals
    intro x hx
    simp only [List.mem_map] at hx
    obtain ⟨l, hl, rfl⟩ := hx
    have := hc.locs l hl
    first | exact this.1 | exact this.2.1 | exact this.2.2.1 | exact this.2.2.2

private theorem t_others : ((text2nc R D).vars.map (·.1)).filterMap (oth (text2nc R D)) = D.others := by
  have := others_general (text2nc R D)
    ((optVar "threshold" ((if D.thresholds.isEmpty then none else some D.thresholds.length).map
          fun _ => storeVec R.r32 D.thresholds)).map (·.1)
      ++ (optVar "cdf" ((if D.thresholds.isEmpty then none else some D.thresholds.length).map fun k =>
          storeArr R.r32 (D.cdf.getD (nanArr ([D.times.length, D.leads.length, D.locs.length] ++ [k]))))).map (·.1)
      ++ (optVar "quantile" ((if D.quantiles.isEmpty then none else some D.quantiles.length).map
          fun _ => storeVec R.r32 D.quantiles)).map (·.1)
      ++ (optVar "x" ((if D.quantiles.isEmpty then none else some D.quantiles.length).map fun k =>
          storeArr R.r32 (D.x.getD (nanArr ([D.times.length, D.leads.length, D.locs.length] ++ [k]))))).map (·.1)
      ++ (optVar "ensemble" ((D.ensemble.filter fun a => a.dims.getLastD 0 != 0).map (storeArr R.r32))).map (·.1)
      ++ ["time", "leadtime", "location", "lat", "lon", "altitude"]
      ++ (optVar "fcst" (D.fcst.map (storeArr R.r32))).map (·.1)
      ++ (optVar "obs" (D.obs.map (storeArr R.r32))).map (·.1)
      ++ (optVar "pit" (D.pit.map (storeArr R.r32))).map (·.1))
    D.others (fun _ a => storeArr R.r32 a) id
    (by simp [text2nc, List.map_append, Function.comp_def])
    (by
      intro n hn
      simp only [List.mem_cons, List.mem_append, List.not_mem_nil, or_false, or_assoc] at hn
      rcases hn with h | h | h | h | h | h | h | h | h | h | h | h | h | h
      all_goals first
        | (subst h; decide)
        | (have := mem_optVar _ _ _ h; subst this; decide))
    (by
      intro p hp
      exact ⟨(hc.others p hp).1, t_other R D hc p.1 p.2 hp, clean_storeArr _ _ (hc.others p hp).2⟩)
  rw [this]
  simp

end t2n

/-- C10, conversion: for every rounding `R` (float32 for the `f4` variables, int32 for the ids) and every
dataset `D` whose numbers `R` leaves alone — float32-representable data — reading the file `text2nc.py`
writes for `D` gives `D` back EXACTLY, in every attribute: times, lead times, location ids and metadata,
thresholds + probabilities, quantile levels + values, obs, fcst, pit, ensemble members, other fields,
variable name, units and the discrete masses x0 / x1 — INCLUDING WHICH FIELDS EXIST: an input without
observations (forecasts) converts to a file without observations (forecasts), `obs = none` on both sides, not
to a file whose observations are all missing.  No assumption that obs / fcst are present. -/
theorem C10_text2nc (R : Rounding) (D : Dataset) (hc : Convertible R D) :
    (ncAssemble (text2nc R D)).map NcInput.dataset = .ok D := by
  have htime := t_time R D hc
  have hlead := t_lead R D hc
  have hlocs := t_locs R D hc
  have hthr := t_thr R D hc
  have hqtl := t_qtl R D hc
  have hobs := t_obs R D hc
  have hfcst := t_fcst R D hc
  have hpit := t_pit R D hc
  have hens := t_ens R D hc
  have hcdf := t_cdf R D hc
  have hx := t_x R D hc
  have hoth := t_others R D hc
  have hname : ncVarName (text2nc R D) = D.var.name := rfl
  have hunits : (text2nc R D).units = some (stripDollar D.var.units) := rfl
  have hx0 : (text2nc R D).x0 = D.var.x0 := rfl
  have hx1 : (text2nc R D).x1 = D.var.x1 := rfl
  generalize text2nc R D = V at *
  rw [assemble_eq V _ _ _ htime hlead hlocs]
  show Except.ok (NcInput.dataset _) = Except.ok _
  congr 1
  apply dataset_ext
  · exact clean_storeVec _ _ hc.times
  · exact clean_storeVec _ _ hc.leads
  · rfl
  · show V.vec "threshold" [] = D.thresholds
    unfold NcVars.vec
    rw [hthr]
    cases h : D.thresholds with
    | nil => rfl
    | cons a as => simp only [List.isEmpty_cons, Bool.false_eq_true, if_false]
                   exact clean_storeVec _ _ (h ▸ hc.thresholds)
  · show V.vec "quantile" [] = D.quantiles
    unfold NcVars.vec
    rw [hqtl]
    cases h : D.quantiles with
    | nil => rfl
    | cons a as => simp only [List.isEmpty_cons, Bool.false_eq_true, if_false]
                   exact clean_storeVec _ _ (h ▸ hc.quantiles)
  · show (V.var? "obs").map cleanArr = D.obs
    rw [hobs]
    cases h : D.obs with
    | none => rfl
    | some a => simp [clean_storeArr _ a (hc.obs a h)]
  · show (V.var? "fcst").map cleanArr = D.fcst
    rw [hfcst]
    cases h : D.fcst with
    | none => rfl
    | some a => simp [clean_storeArr _ a (hc.fcst a h)]
  · show (V.var? "pit").map cleanArr = D.pit
    rw [hpit]
    cases h : D.pit with
    | none => rfl
    | some a => simp [clean_storeArr _ a (hc.pit a h)]
  · show (V.var? "ensemble").map cleanArr = D.ensemble
    rw [hens]
    cases h : D.ensemble with
    | none => rfl
    | some a =>
      obtain ⟨hd, hk⟩ := hc.ens a h
      simp [Option.filter, clean_storeArr _ a hk]
      simpa using hd
  · show (V.var? "cdf").map cleanArr = D.cdf
    rw [hcdf]
    have := hc.cdf
    cases h : D.thresholds with
    | nil => simp [h] at this ⊢; exact this.symm
    | cons b bs =>
      simp only [h, List.cons_ne_nil, if_false] at this
      obtain ⟨a, ha, hk⟩ := this
      simp [ha, clean_storeArr _ a hk]
  · show (V.var? "x").map cleanArr = D.x
    rw [hx]
    have := hc.x
    cases h : D.quantiles with
    | nil => simp [h] at this ⊢; exact this.symm
    | cons b bs =>
      simp only [h, List.cons_ne_nil, if_false] at this
      obtain ⟨a, ha, hk⟩ := this
      simp [ha, clean_storeArr _ a hk]
  · show List.filter _ _ = D.others
    rw [dataset_others, hoth]
  · exact hname
  · show ncUnits V.units = D.var.units
    rw [hunits]; exact strip_units _ hc.units
  · exact hx0
  · exact hx1

/-! ### non-vacuity -/

/-- a table with every optional part, missing cells, two locations, and a missing entry in every
coordinate column (time, lead time, id, lat, lon, altitude, threshold, quantile level) -/
private def T1 : DenseTable :=
  { times := [some 1325376000, none], leads := [none], nloc := 2,
    ids := some [some 18700, none], lats := some [none, some 59.5], lons := some [some 10.75, none],
    elevs := some [none, some 0],
    obs := some ⟨[2, 1, 2], [some 1.5, none, some 0, none]⟩,
    fcst := some ⟨[2, 1, 2], [some 2, some 2.5, none, some (-1)]⟩,
    pit := some ⟨[2, 1, 2], [some 0.125, some 1, none, none]⟩,
    prob := some ([none, some 2], ⟨[2, 1, 2, 2], [some 0.25, some 1, none, some 0.5, some 0, some 0, some 1, none]⟩),
    quant := some ([none], ⟨[2, 1, 2, 1], [some 1, none, some 3, some 4]⟩),
    ens := some ⟨[2, 1, 2, 2], [some 1, some 2, some 3, none, none, some 6, some 7, some 8]⟩,
    others := [("wind", ⟨[2, 1, 2], [some 5, none, some 7, some 8]⟩)],
    name := some "Temperature", units := some ['K'], x0 := some 0, x1 := none }

/-- every kind of missing-value encoding, chosen per cell -/
private def L1 : NcLayout :=
  { enc := fun _ k => if k % 5 = 0 then .masked else if k % 5 = 1 then .nan else if k % 5 = 2 then .m999
                      else if k % 5 = 3 then .pinf else .big (10 ^ 31) (by norm_num)
    useLongName := false }

private theorem T1_wf : T1.WF := by
  constructor <;> simp [T1, okNum, CArr.ok, colOk, reservedNames] <;> norm_num

example : (ncAssemble (toNcVars L1 T1)).map NcInput.dataset = .ok (datasetOf T1) ∧
    (datasetOf T1).times = [.fin 1325376000, .nan] ∧ (datasetOf T1).leads = [.nan] ∧
    (datasetOf T1).locs = [⟨.fin 18700, .nan, .fin 10.75, .nan⟩, ⟨.nan, .fin 59.5, .nan, .fin 0⟩] ∧
    (datasetOf T1).thresholds = [.nan, .fin 2] ∧ (datasetOf T1).quantiles = [.nan] :=
  ⟨C10_same_dataset L1 T1 T1_wf, by decide +kernel, by decide +kernel, by decide +kernel, by decide +kernel,
    by decide +kernel⟩

/-- a dataset as the text reader delivers it, with ensemble members and x0 (which the script used to drop) -/
private def D1 : Dataset :=
  { times := [.fin 1325376000], leads := [.fin 0, .fin 6],
    locs := [⟨.fin 3, .fin 60, .fin 10.75, .fin 94⟩],
    thresholds := [.fin 0.5], quantiles := [],
    obs := some ⟨[1, 2, 1], [.fin 1.5, .nan]⟩, fcst := some ⟨[1, 2, 1], [.fin 2, .fin (-1)]⟩,
    pit := some ⟨[1, 2, 1], [.fin 0.125, .nan]⟩,
    ensemble := some ⟨[1, 2, 1, 2], [.fin 1, .fin 2, .fin 3, .fin 4]⟩,
    cdf := some ⟨[1, 2, 1, 1], [.fin 0.25, .nan]⟩, x := none,
    others := [("wind", ⟨[1, 2, 1], [.fin 5, .fin 7]⟩)],
    var := { name := "Temperature", units := ['$', 'K', '$'], x0 := some (.fin 0), x1 := none } }

private theorem D1_conv : Convertible ⟨id, id⟩ D1 := by
  constructor
  case units => exact Or.inr ⟨['K'], by decide⟩
  all_goals (simp [D1, Keeps, okNum, reservedNames] <;> norm_num)

example : (ncAssemble (text2nc ⟨id, id⟩ D1)).map NcInput.dataset = .ok D1 ∧
    D1.ensemble.isSome ∧ D1.var.x0 = some (.fin 0) :=
  ⟨C10_text2nc ⟨id, id⟩ D1 D1_conv, rfl, rfl⟩

/-- a text file without an obs column (forecasts and a quantile only): the converted file has NO obs
variable (before 5c8853e it had one, all missing), and reading it back gives the dataset, `obs = none` -/
private def D2 : Dataset :=
  { times := [.fin 1325376000], leads := [.fin 0, .fin 6],
    locs := [⟨.fin 3, .fin 60, .fin 10.75, .fin 94⟩],
    thresholds := [], quantiles := [.fin 0.5],
    obs := none, fcst := some ⟨[1, 2, 1], [.fin 2, .nan]⟩,
    pit := none, ensemble := none, cdf := none, x := some ⟨[1, 2, 1, 1], [.fin 1.5, .fin 3]⟩,
    others := [],
    var := { name := "Precip", units := ['%'], x0 := none, x1 := none } }

private theorem D2_conv : Convertible ⟨id, id⟩ D2 := by
  constructor
  case units => exact Or.inl rfl
  all_goals (simp [D2, Keeps, okNum, reservedNames] <;> norm_num)

example : (ncAssemble (text2nc ⟨id, id⟩ D2)).map NcInput.dataset = .ok D2 ∧ D2.obs = none ∧
    (text2nc ⟨id, id⟩ D2).var? "obs" = none ∧ ((text2nc ⟨id, id⟩ D2).var? "fcst").isSome ∧
    ((ncAssemble (text2nc ⟨id, id⟩ D2)).map (·.obs)) = .ok none :=
  ⟨C10_text2nc ⟨id, id⟩ D2 D2_conv, rfl, by decide +kernel, by decide +kernel, by decide +kernel⟩

example : detect true true true false = .ok .netcdf ∧ detect false true true true = .ok .text :=
  ⟨(C10_detect true true false).1, (C10_detect true true true).2.2.2.1⟩

end VerifModel.C10
