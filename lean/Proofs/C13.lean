import VerifModel.Model.ParseNumbers
import VerifModel.Model.ArgLoop
import VerifModel.Spec.Options
import VerifModel.Gen.OptionTable
import VerifModel.Driver.Args
import VerifModel.Model.InputClass
import Proofs.Lemmas.CalendarLite
import Mathlib.Tactic.Ring
import Mathlib.Tactic.FieldSimp
import Mathlib.Tactic.Linarith
import Mathlib.Tactic.Positivity
import Mathlib.Data.Rat.Cast.Order
/-
  C13 — Command-line options mean what the help text says.
  Property theorems only (helper lemmas are private).
-/
namespace VerifModel.C13
open VerifModel ParseNumbers ArgLoop Spec.Options

/-! ## Vector syntax -/

/-- decimal with at most three fractional digits -/
def OnGrid (q : Rat) : Prop := ∃ z : Int, q = (z : Rat) / 1000

private theorem roundHalfEven_int (w : Int) : roundHalfEven (w : Rat) = w := by
  unfold roundHalfEven
  simp only [Rat.floor_intCast, sub_self]
  norm_num

private theorem round7_grid (z : Int) : round7 ((z : Rat) / 1000) = (z : Rat) / 1000 := by
  unfold round7
  have e : (z : Rat) / 1000 * 10000000 = ((z * 10000 : Int) : Rat) := by push_cast; ring
  rw [e, roundHalfEven_int]
  push_cast; ring

private theorem grid_lt_iff_le (X B : Int) :
    ((X : Rat) / 1000 < (B : Rat) / 1000 + 1 / 10000) ↔ ((X : Rat) / 1000 ≤ (B : Rat) / 1000) := by
  constructor
  · intro h
    by_contra hc
    push Not at hc
    have h1 : (B : Rat) < (X : Rat) := by linarith
    have h2 : B < X := by exact_mod_cast h1
    have h3 : (B : Rat) + 1 ≤ (X : Rat) := by exact_mod_cast (show B + 1 ≤ X by omega)
    linarith
  · intro h; linarith

private theorem grid_gt_iff_ge (X B : Int) :
    ((B : Rat) / 1000 - 1 / 10000 < (X : Rat) / 1000) ↔ ((B : Rat) / 1000 ≤ (X : Rat) / 1000) := by
  constructor
  · intro h
    by_contra hc
    push Not at hc
    have h1 : (X : Rat) < (B : Rat) := by linarith
    have h2 : X < B := by exact_mod_cast h1
    have h3 : (X : Rat) + 1 ≤ (B : Rat) := by exact_mod_cast (show X + 1 ≤ B by omega)
    linarith
  · intro h; linarith

private theorem lt_count_iff (k : Nat) (x : Rat) : k < x.ceil.toNat ↔ (k : Rat) < x := by
  rw [Int.lt_toNat, Rat.lt_ceil_iff]
  simp

private theorem range_core (a s b : Rat) (ha : OnGrid a) (hs : OnGrid s) (hb : OnGrid b) (hs0 : s ≠ 0) :
    IsRange a s b (rangeNums a s b) := by
  obtain ⟨A, rfl⟩ := ha
  obtain ⟨S, rfl⟩ := hs
  obtain ⟨B, rfl⟩ := hb
  refine ⟨arangeCount ((A : Rat) / 1000) ((B : Rat) / 1000 + stepSign ((S : Rat) / 1000) * fudge)
    ((S : Rat) / 1000), ?_, ?_⟩
  · unfold rangeNums
    apply List.map_congr_left
    intro k _
    have e : (A : Rat) / 1000 + (k : Rat) * ((S : Rat) / 1000) = ((A + k * S : Int) : Rat) / 1000 := by
      push_cast; ring
    rw [e, round7_grid]
  · intro k
    have e : (A : Rat) / 1000 + (k : Rat) * ((S : Rat) / 1000) = ((A + k * S : Int) : Rat) / 1000 := by
      push_cast; ring
    unfold arangeCount
    rw [lt_count_iff]
    rcases lt_or_gt_of_ne hs0 with hneg | hpos
    · -- negative step
      have hsign : stepSign ((S : Rat) / 1000) = -1 := by
        unfold stepSign; rw [if_neg (by linarith)]
      rw [hsign, lt_div_iff_of_neg hneg]
      unfold Between fudge
      constructor
      · intro h
        refine ⟨fun h0 => absurd h0 (by linarith), fun _ => ?_⟩
        rw [e]
        exact (grid_gt_iff_ge _ _).mp (by rw [← e]; linarith)
      · intro h
        have h2 := h.2 hneg
        rw [e] at h2
        have := (grid_gt_iff_ge _ _).mpr h2
        rw [← e] at this
        linarith
    · -- positive step
      have hsign : stepSign ((S : Rat) / 1000) = 1 := by
        unfold stepSign; rw [if_pos hpos]
      rw [hsign, lt_div_iff₀ hpos]
      unfold Between fudge
      constructor
      · intro h
        refine ⟨fun _ => ?_, fun h0 => absurd h0 (by linarith)⟩
        rw [e]
        exact (grid_lt_iff_le _ _).mp (by rw [← e]; linarith)
      · intro h
        have h2 := h.1 hpos
        rw [e] at h2
        have := (grid_lt_iff_le _ _).mpr h2
        rw [← e] at this
        linarith

/-- **C13_range.**  For decimals `a s b` with at most three fractional digits and `s ≠ 0`, the
model of the part `a:s:b` (`np.arange(a, b ± 0.0001, s)` rounded to 7 decimals) is accepted and is
exactly the documented progression a, a+s, a+2s, … as long as it stays between a and b
*inclusive*: the 0.0001 fudge neither drops the end point nor admits a value beyond it. -/
theorem C13_range (a s b : Rat) (ha : OnGrid a) (hs : OnGrid s) (hb : OnGrid b) (hs0 : s ≠ 0) :
    ∃ l, evalFields false [.num a, .num s, .num b] = .ok l ∧ IsRange a s b l := by
  refine ⟨rangeNums a s b, ?_, range_core a s b ha hs hb hs0⟩
  simp [evalFields, Fld.get, bind, Except.bind, hs0, rangeVals]

/-- `a:b` is `a:1:b` -/
theorem C13_range_default_step (a b : Rat) :
    evalFields false [.num a, .num b] = evalFields false [.num a, .num 1, .num b] := by
  simp [evalFields, Fld.get, bind, Except.bind]

/-- commas concatenate: the parts are evaluated left to right and their values appended -/
theorem C13_commas (d : Bool) (ps qs : List (List Fld)) (v w : List Rat)
    (hp : evalParts d ps = .ok v) (hq : evalParts d qs = .ok w) :
    evalParts d (ps ++ qs) = .ok (v ++ w) := by
  induction ps generalizing v with
  | nil => simp [evalParts] at hp; subst hp; simpa using hq
  | cons p ps ih =>
    simp only [List.cons_append, evalParts] at hp ⊢
    cases h1 : evalFields d p with
    | error e => simp [h1, bind, Except.bind] at hp
    | ok x =>
      cases h2 : evalParts d ps with
      | error e => simp [h1, h2, bind, Except.bind] at hp
      | ok y =>
        simp [h1, h2, bind, Except.bind, pure, Except.pure] at hp
        subst hp
        simp [ih y h2, bind, Except.bind, pure, Except.pure]

/-! ## Date ranges -/

section dates
open CalendarLite

private theorem cal (n : Nat) (h1 : day1900 ≤ n) (h2 : n ≤ day2100) :
    (civil n).valid = true ∧ days (civil n) = n ∧ civil (n + 1) = nextDay (civil n) := by
  have := calendar_1900_2100 n h1 h2
  simp only [dayOK, Bool.and_eq_true, beq_iff_eq, decide_eq_true_eq] at this
  exact ⟨this.1.1, this.1.2, this.2⟩

private theorem addDays_civil (m n : Nat) (h1 : day1900 ≤ n) (h2 : n + m ≤ day2100 + 1) :
    addDays m (civil n) = civil (n + m) := by
  induction m generalizing n with
  | zero => rfl
  | succ m ih =>
    have c := cal n h1 (by omega)
    rw [addDays, ← c.2.2, ih (n + 1) (by omega) (by omega)]
    congr 1; omega

private theorem valid_bounds (t : Date) (h : t.valid = true) :
    1 ≤ t.y ∧ t.y ≤ 9999 ∧ 1 ≤ t.m ∧ t.m ≤ 12 ∧ 1 ≤ t.d ∧ t.d ≤ daysInMonth t.y t.m ∧ t.d ≤ 31 := by
  simp only [Date.valid, Bool.and_eq_true, decide_eq_true_eq] at h
  obtain ⟨⟨⟨⟨⟨a, b⟩, c⟩, d⟩, e⟩, f⟩ := h
  refine ⟨a, b, c, d, e, f, ?_⟩
  have : daysInMonth t.y t.m ≤ 31 := by
    unfold daysInMonth; split
    · split <;> omega
    · split <;> omega
  omega

private theorem ofYmd_ymd (t : Date) (h : t.valid = true) : ofYmd t.ymd = t := by
  obtain ⟨_, _, _, hm, _, _, hd⟩ := valid_bounds t h
  cases t with
  | mk y m d =>
    simp only [ofYmd, Date.ymd] at *
    congr 1 <;> omega

private theorem lastDayLE_ymd (t : Date) (h : t.valid = true) : lastDayLE t.ymd = days t + 1 := by
  obtain ⟨hy, _, hm1, hm, hd1, hdim, hd⟩ := valid_bounds t h
  unfold lastDayLE
  rw [ofYmd_ymd t h]
  have e1 : (t.y == 0) = false := by simp; omega
  have e2 : (t.m == 0) = false := by simp; omega
  have e3 : ¬ (t.m > 12) := by omega
  have e4 : (t.d == 0) = false := by simp; omega
  simp only [e1, e2, e3, e4, if_false, Bool.false_eq_true]
  rw [Nat.min_eq_left hdim]

private theorem ymd_lt_next (t : Date) (h : t.valid = true) : t.ymd < (nextDay t).ymd := by
  obtain ⟨_, _, hm1, hm, hd1, _, hd⟩ := valid_bounds t h
  unfold nextDay
  simp only []
  generalize (if t.m = 2 then (if (t.y % 4 = 0 ∧ t.y % 100 ≠ 0) ∨ t.y % 400 = 0 then 29 else 28)
    else if t.m = 4 ∨ t.m = 6 ∨ t.m = 9 ∨ t.m = 11 then 30 else 31) = len
  by_cases a : t.d < len
  · simp [a, Date.ymd]
  · by_cases b : t.m < 12
    · simp only [a, b, if_true, if_false, Date.ymd]; omega
    · simp only [a, b, if_false, Date.ymd]; omega

private theorem ymd_mono (n m : Nat) (h1 : day1900 ≤ n) (hnm : n ≤ m) (h2 : m ≤ day2100) :
    (civil n).ymd ≤ (civil m).ymd := by
  induction m with
  | zero => have : n = 0 := by omega
            subst this; exact Nat.le_refl _
  | succ m ih =>
    by_cases e : n = m + 1
    · subst e; exact Nat.le_refl _
    · have c := cal m (by omega) (by omega)
      have := ymd_lt_next (civil m) c.1
      rw [← c.2.2] at this
      have := ih (by omega) (by omega)
      omega

private theorem floor_nat (Y : Nat) : ((Y : Rat)).floor = (Y : Int) := by
  have : ((Y : Nat) : Rat) = ((Y : Int) : Rat) := by push_cast; rfl
  rw [this, Rat.floor_intCast]

private theorem floor_nat_fudge (Y : Nat) : ((Y : Rat) + 1 * fudge).floor = (Y : Int) := by
  have e : ((Y : Nat) : Rat) = ((Y : Int) : Rat) := by push_cast; rfl
  apply le_antisymm
  · have : ((Y : Rat) + 1 * fudge).floor < (Y : Int) + 1 := by
      rw [Rat.floor_lt_iff]; push_cast; unfold fudge; linarith
    omega
  · rw [Rat.le_floor_iff]; rw [← e]; unfold fudge; linarith

private theorem maxDay_val : maxDay = 3652364 := by decide

private theorem rangeDates_eq (n1 n2 k : Nat) (h1 : day1900 ≤ n1) (h12 : n1 ≤ n2) (h2 : n2 ≤ day2100)
    (hk : 1 ≤ k) :
    rangeDates ((civil n1).ymd : Rat) (k : Rat) ((civil n2).ymd : Rat) =
      if n1 + ((n2 - n1) / k + 1) * k > maxDay then .error .exit
      else .ok ((((civil n1).ymd : Nat) : Rat) ::
        (List.range ((n2 - n1) / k)).map fun i => (((civil (n1 + (i + 1) * k)).ymd : Nat) : Rat)) := by
  have c1 := cal n1 h1 (by omega)
  have c2 := cal n2 (by omega) h2
  have hmono := ymd_mono n1 n2 h1 h12 h2
  have hkpos : (0 : Rat) < (k : Rat) := by exact_mod_cast hk
  have hs : stepSign (k : Rat) = 1 := by unfold stepSign; rw [if_pos hkpos]
  have hle : ((civil n1).ymd : Rat) ≤ ((civil n2).ymd : Rat) + 1 * fudge := by
    have : ((civil n1).ymd : Rat) ≤ ((civil n2).ymd : Rat) := by exact_mod_cast hmono
    unfold fudge; linarith
  have hkf : (k : Rat).floor = (k : Int) := floor_nat k
  unfold rangeDates
  simp only [hkpos, if_true, hs, min_eq_left hle, max_eq_right hle, floor_nat,
    floor_nat_fudge, hkf, Int.toNat_natCast, ofYmd_ymd _ c1.1, c1.1, c1.2.1, lastDayLE_ymd _ c2.1, c2.2.1]
  have e0 : ¬ ((((civil n1).ymd : Nat) : Int) < 0) := by omega
  simp only [e0, if_false, Bool.not_true, Bool.false_eq_true, Nat.add_sub_cancel, Int.cast_natCast,
    ne_eq, not_true_eq_false]

private theorem firstDayGE_ymd (t : Date) (h : t.valid = true) : firstDayGE t.ymd = days t := by
  obtain ⟨hy, _, hm1, hm, hd1, hdim, hd⟩ := valid_bounds t h
  unfold firstDayGE
  rw [ofYmd_ymd t h]
  have e1 : (t.y == 0) = false := by simp; omega
  have e2 : (t.m == 0) = false := by simp; omega
  have e3 : ¬ (t.m > 12) := by omega
  have e4 : (t.d == 0) = false := by simp; omega
  have e5 : ¬ (t.d > daysInMonth t.y t.m) := by omega
  simp only [e1, e2, e3, e4, e5, if_false, Bool.false_eq_true]

private theorem floor_neg_nat (k : Nat) : (-(k : Rat)).floor = -(k : Int) := by
  have : -((k : Nat) : Rat) = ((-(k : Int) : Int) : Rat) := by push_cast; rfl
  rw [this, Rat.floor_intCast]

private theorem ceil_nat_fudge (Y : Nat) : ((Y : Rat) + -1 * fudge).ceil = (Y : Int) := by
  apply le_antisymm
  · rw [Rat.ceil_le_iff]; push_cast; unfold fudge; linarith
  · have : (Y : Int) - 1 < ((Y : Rat) + -1 * fudge).ceil := by
      rw [Rat.lt_ceil_iff]; push_cast; unfold fudge; linarith
    omega

private theorem minDay_val : minDay = 306 := by decide

/-- the date loop with a negative whole step, between two days of 1900–2100 given in descending order -/
private theorem rangeDates_desc_eq (n1 n2 k : Nat) (h1 : day1900 ≤ n2) (h12 : n2 ≤ n1) (h2 : n1 ≤ day2100)
    (hk : 1 ≤ k) :
    rangeDates ((civil n1).ymd : Rat) (-(k : Rat)) ((civil n2).ymd : Rat) =
      if n1 < minDay + ((n1 - n2) / k + 1) * k then .error .exit
      else .ok ((((civil n1).ymd : Nat) : Rat) ::
        (List.range ((n1 - n2) / k)).map fun i => (((civil (n1 - (i + 1) * k)).ymd : Nat) : Rat)) := by
  have c1 := cal n1 (by omega) h2
  have c2 := cal n2 h1 (by omega)
  have hmono := ymd_mono n2 n1 h1 h12 h2
  have hkpos : (0 : Rat) < (k : Rat) := by exact_mod_cast hk
  have hneg : ¬ (-(k : Rat) > 0) := by linarith
  have hs : stepSign (-(k : Rat)) = -1 := by unfold stepSign; rw [if_neg hneg]
  have hge : ¬ (((civil n1).ymd : Rat) < ((civil n2).ymd : Rat) + -1 * fudge) := by
    have : ((civil n2).ymd : Rat) ≤ ((civil n1).ymd : Rat) := by exact_mod_cast hmono
    unfold fudge; linarith
  have hwhole : ¬ ((((-(k : Rat)).floor : Int) : Rat) ≠ -(k : Rat)) := by rw [floor_neg_nat]; simp
  have hkf : (- -(k : Rat)).floor.toNat = k := by rw [neg_neg, floor_nat]; simp
  unfold rangeDates
  simp only [hwhole, hneg, hs, hge, if_false, floor_nat, ceil_nat_fudge, hkf, Int.toNat_natCast,
    ofYmd_ymd _ c1.1, c1.1, c1.2.1, firstDayGE_ymd _ c2.1, c2.2.1]
  have e0 : ¬ ((((civil n1).ymd : Nat) : Int) < 0) := by omega
  simp only [e0, if_false, Bool.not_true, Bool.false_eq_true]
  push_cast
  rfl

/-- a three-field date part with a non-zero step is the date loop -/
private theorem evalFields_dates3 (a s b : Rat) (hs0 : s ≠ 0) :
    evalFields true [.num a, .num s, .num b] = rangeDates a s b := by
  simp [evalFields, Fld.get, bind, Except.bind, hs0, rangeVals]

/-- **C13_dates** (finite by the property: every pair of days in 1900-01-01 … 2100-12-31, reached
through their day numbers; `calendar_1900_2100` ties the model's calendar to the textbook
successor on each of those days).  Let d1 = `civil n1`, d2 = `civil n2` with n1 ≤ n2, i.e.
d2 is `n2 - n1` calendar days after d1.  Then the model of `d1:k:d2` is d1, d1 + k days,
d1 + 2k days, … for exactly those multiples i·k that do not pass d2: ascending, stepping by
calendar days (`Spec.Options.addDays` iterates the textbook `nextDay`), end point included when
it is reached.  Any step k ≥ 1 for which the date one step beyond the last value (which the loop
computes before it stops) is not after 9999-12-31 (`maxDay`; every k ≤ 2 800 000 qualifies); for the
remaining k see `C13_dates_beyond_calendar`. -/
theorem C13_dates (n1 n2 k : Nat) (h1 : day1900 ≤ n1) (h12 : n1 ≤ n2) (h2 : n2 ≤ day2100)
    (hk : 1 ≤ k) (hfit : n1 + ((n2 - n1) / k + 1) * k ≤ maxDay) :
    (civil n1).valid = true ∧ (civil n2).valid = true ∧
    addDays (n2 - n1) (civil n1) = civil n2 ∧
    evalFields true [.num ((civil n1).ymd : Rat), .num (k : Rat), .num ((civil n2).ymd : Rat)] =
      .ok ((List.range ((n2 - n1) / k + 1)).map fun i =>
        (((addDays (i * k) (civil n1)).ymd : Nat) : Rat)) ∧
    (∀ i, i < (n2 - n1) / k + 1 ↔ i * k ≤ n2 - n1) := by
  have c1 := cal n1 h1 (by omega)
  have c2 := cal n2 (by omega) h2
  refine ⟨c1.1, c2.1, ?_, ?_, ?_⟩
  · rw [addDays_civil _ _ h1 (by omega)]; congr 1; omega
  · have hk0 : ¬ ((k : Rat) = 0) := by
      have : (0 : Rat) < (k : Rat) := by exact_mod_cast hk
      exact ne_of_gt this
    have hany : ([Fld.num ((civil n1).ymd : Rat), Fld.num (k : Rat), Fld.num ((civil n2).ymd : Rat)].any
        (· == Fld.empty)) = false := by simp
    unfold evalFields
    rw [hany]
    simp only [Fld.get, bind, Except.bind, hk0, if_false, Bool.false_eq_true, rangeVals, if_true]
    rw [rangeDates_eq n1 n2 k h1 h12 h2 hk, if_neg (Nat.not_lt.mpr hfit), List.range_succ_eq_map]
    simp only [List.map_cons, List.map_map, Nat.zero_mul, addDays]
    refine congrArg _ (congrArg _ ?_)
    apply List.map_congr_left
    intro i hi
    have hi' : i < (n2 - n1) / k := List.mem_range.mp hi
    have : (i + 1) * k ≤ n2 - n1 := by
      have := (Nat.le_div_iff_mul_le (by omega : 0 < k)).mp (Nat.succ_le_of_lt hi')
      simpa using this
    simp only [Function.comp, Nat.succ_eq_add_one]
    rw [addDays_civil _ _ h1 (by omega)]
  · intro i
    rw [Nat.lt_succ_iff, Nat.le_div_iff_mul_le (by omega : 0 < k)]

/-- `d1:d2` is every civil date from d1 to d2 inclusive, ascending -/
theorem C13_dates_all (n1 n2 : Nat) (h1 : day1900 ≤ n1) (h12 : n1 ≤ n2) (h2 : n2 ≤ day2100) :
    evalFields true [.num ((civil n1).ymd : Rat), .num ((civil n2).ymd : Rat)] =
      .ok ((List.range (n2 - n1 + 1)).map fun i => (((addDays i (civil n1)).ymd : Nat) : Rat)) := by
  have h := (C13_dates n1 n2 1 h1 h12 h2 (by omega)
    (by rw [maxDay_val, Nat.div_one, Nat.mul_one]; unfold day2100 at h2; omega)).2.2.2.1
  simp only [Nat.div_one, Nat.mul_one, Nat.cast_one] at h
  rw [← h]
  simp [evalFields, Fld.get, bind, Except.bind]

/-- **C13_dates_descending** (a negative step; before the repair of the date loop such a range
raised ValueError/OverflowError).  Let d1 = `civil n1`, d2 = `civil n2` be days of 1900–2100 with
d2 not after d1.  Then the model of `d1:-k:d2` is d1, d1 − k days, d1 − 2k days, … for exactly those
multiples i·k that do not pass d2: the i-th value is the date from which i·k textbook successor steps
(`Spec.Options.addDays`) lead back to d1; descending, end point included when it is reached.  Any step
k ≥ 1 for which the date one step beyond the last value is not before 0001-01-01 (`minDay`; every
k ≤ 690 000 qualifies); for the remaining k see `C13_dates_beyond_calendar`. -/
theorem C13_dates_descending (n1 n2 k : Nat) (h1 : day1900 ≤ n2) (h12 : n2 ≤ n1) (h2 : n1 ≤ day2100)
    (hk : 1 ≤ k) (hfit : minDay + ((n1 - n2) / k + 1) * k ≤ n1) :
    evalFields true [.num ((civil n1).ymd : Rat), .num (-(k : Rat)), .num ((civil n2).ymd : Rat)] =
      .ok ((List.range ((n1 - n2) / k + 1)).map fun i => (((civil (n1 - i * k)).ymd : Nat) : Rat)) ∧
    (∀ i, i < (n1 - n2) / k + 1 →
      (civil (n1 - i * k)).valid = true ∧ addDays (i * k) (civil (n1 - i * k)) = civil n1) ∧
    (∀ i, i < (n1 - n2) / k + 1 ↔ i * k ≤ n1 - n2) := by
  have hiff : ∀ i, i < (n1 - n2) / k + 1 ↔ i * k ≤ n1 - n2 := by
    intro i
    rw [Nat.lt_succ_iff, Nat.le_div_iff_mul_le (by omega : 0 < k)]
  refine ⟨?_, ?_, hiff⟩
  · have hk0 : ¬ (-(k : Rat) = 0) := by
      have : (0 : Rat) < (k : Rat) := by exact_mod_cast hk
      intro h; linarith
    have hany : ([Fld.num ((civil n1).ymd : Rat), Fld.num (-(k : Rat)), Fld.num ((civil n2).ymd : Rat)].any
        (· == Fld.empty)) = false := by simp
    unfold evalFields
    rw [hany]
    simp only [Fld.get, bind, Except.bind, hk0, if_false, Bool.false_eq_true, rangeVals, if_true]
    rw [rangeDates_desc_eq n1 n2 k h1 h12 h2 hk, if_neg (Nat.not_lt.mpr hfit), List.range_succ_eq_map]
    simp only [List.map_cons, List.map_map, Nat.zero_mul, Nat.sub_zero]
    rfl
  · intro i hi
    have hle := (hiff i).mp hi
    refine ⟨(cal (n1 - i * k) (by omega) (by omega)).1, ?_⟩
    rw [addDays_civil _ _ (by omega) (by omega)]
    congr 1; omega

/-- **C13_dates_beyond_calendar** (the complement of `C13_dates` / `C13_dates_descending` in k; before the
repair this was an unhandled OverflowError of datetime).  The loop computes one more date after the last
value it keeps.  When that date is after 9999-12-31 (ascending) or before 0001-01-01 (descending) the
range is rejected with the error message. -/
theorem C13_dates_beyond_calendar (n1 n2 k : Nat) (hk : 1 ≤ k) :
    (day1900 ≤ n1 → n1 ≤ n2 → n2 ≤ day2100 → maxDay < n1 + ((n2 - n1) / k + 1) * k →
      evalFields true [.num ((civil n1).ymd : Rat), .num (k : Rat), .num ((civil n2).ymd : Rat)] =
        .error .exit) ∧
    (day1900 ≤ n2 → n2 ≤ n1 → n1 ≤ day2100 → n1 < minDay + ((n1 - n2) / k + 1) * k →
      evalFields true [.num ((civil n1).ymd : Rat), .num (-(k : Rat)), .num ((civil n2).ymd : Rat)] =
        .error .exit) := by
  have hkpos : (0 : Rat) < (k : Rat) := by exact_mod_cast hk
  constructor
  · intro h1 h12 h2 hov
    rw [evalFields_dates3 _ _ _ (ne_of_gt hkpos), rangeDates_eq n1 n2 k h1 h12 h2 hk, if_pos hov]
  · intro h1 h12 h2 hov
    rw [evalFields_dates3 _ _ _ (by intro h; linarith), rangeDates_desc_eq n1 n2 k h1 h12 h2 hk, if_pos hov]

/-- non-vacuity: 2013-01-01 … 2013-01-05 with a step of 3 000 000 days (`20130101:3000000:20130105`) -/
example : day1900 ≤ 735174 ∧ 735178 ≤ day2100 ∧ civil 735174 = ⟨2013, 1, 1⟩ ∧ civil 735178 = ⟨2013, 1, 5⟩ ∧
    maxDay < 735174 + ((735178 - 735174) / 3000000 + 1) * 3000000 := by decide

/-- the recorded witnesses, outside 1900–2100: `99991230:99991231` (the date after 9999-12-31) and
`00010102:-1:00010101` (the date before 0001-01-01) used to end in OverflowError; they are rejected with
the error message -/
example : evalFields true [.num 99991230, .num 99991231] = .error .exit ∧
    evalFields true [.num 10102, .num (-1), .num 10101] = .error .exit := by
  constructor <;> decide +kernel

private theorem rangeDates_noRaise (a s b : Rat) (ty : String) :
    rangeDates a s b ≠ .error (.raise ty) := by
  unfold rangeDates
  simp only []
  split_ifs <;> simp

private theorem bind_noRaise {α β : Type} (x : Res α) (f : α → Res β)
    (hx : ∀ ty, x ≠ .error (.raise ty)) (hf : ∀ a ty, f a ≠ .error (.raise ty)) (ty : String) :
    (x >>= f) ≠ .error (.raise ty) := by
  cases x with
  | error e => intro h; exact hx ty (by simpa [bind, Except.bind] using h)
  | ok a => exact hf a ty

private theorem get_noRaise (f : Fld) (ty : String) : f.get ≠ .error (.raise ty) := by
  cases f <;> simp [Fld.get]

private theorem rangeVals_noRaise (d : Bool) (a s b : Rat) (ty : String) :
    rangeVals d a s b ≠ .error (.raise ty) := by
  unfold rangeVals
  split
  · exact rangeDates_noRaise a s b ty
  · simp

private theorem evalFields_noRaise (d : Bool) (fs : List Fld) (ty : String) :
    evalFields d fs ≠ .error (.raise ty) := by
  unfold evalFields
  split
  · simp
  · split
    · exact bind_noRaise _ _ (get_noRaise _) (fun _ _ => by simp [pure, Except.pure]) ty
    · exact bind_noRaise _ _ (get_noRaise _) (fun _ => bind_noRaise _ _ (get_noRaise _)
        (fun _ => rangeVals_noRaise _ _ _ _)) ty
    · refine bind_noRaise _ _ (get_noRaise _) (fun _ => bind_noRaise _ _ (get_noRaise _) (fun s ty => ?_)) ty
      split
      · simp
      · exact bind_noRaise _ _ (get_noRaise _) (fun _ => rangeVals_noRaise _ _ _ _) ty
    · simp

private theorem evalParts_noRaise (d : Bool) (ps : List (List Fld)) (ty : String) :
    evalParts d ps ≠ .error (.raise ty) := by
  induction ps generalizing ty with
  | nil => simp [evalParts]
  | cons p ps ih =>
    unfold evalParts
    exact bind_noRaise _ _ (evalFields_noRaise d p) (fun _ => bind_noRaise _ _ ih
      (fun _ _ => by simp [pure, Except.pure])) ty

/-- **C13_no_traceback**: whatever the string and whether or not it is read as dates, the model of
`parse_numbers` returns values or the error message, never an unhandled exception.  (Full strength since
the repair of the date loop: before, a range that stepped outside the years 1–9999, e.g.
`99991230:99991231` or a step of millions of days, ended in OverflowError.) -/
theorem C13_no_traceback (s : String) (isDate : Bool) (ty : String) :
    parseNumbers s isDate ≠ .error (.raise ty) := by
  unfold parseNumbers
  split
  · simp
  · exact bind_noRaise _ _ (evalParts_noRaise _ _) (fun _ _ => by simp [pure, Except.pure]) ty

/-- a date range never ends in a traceback because of its step or its first date: a step that is
not a whole number of days (`20130101:0.5:20130103` used to spin for ever, `…:1.5:…` silently meant
`…:1:…`) and a first date that is not a calendar date (`20130230:20130301`, `20130100:20130102` used
to raise ValueError) are rejected with the error message. -/
theorem C13_rejects_date_range :
    (∀ a s b : Rat, ((s.floor : Int) : Rat) ≠ s →
        evalFields true [.num a, .num s, .num b] = .error .exit) ∧
    (∀ (Y : Nat) (s b : Rat), (CalendarLite.ofYmd Y).valid = false →
        (0 < s ∧ (Y : Rat) ≤ b) ∨ (s < 0 ∧ b ≤ (Y : Rat)) →
        evalFields true [.num (Y : Rat), .num s, .num b] = .error .exit) := by
  have wrap : ∀ a s b : Rat, s ≠ 0 → evalFields true [.num a, .num s, .num b] = rangeDates a s b := by
    intro a s b hs0
    simp [evalFields, Fld.get, bind, Except.bind, hs0, rangeVals]
  have frac : ∀ a s b : Rat, ((s.floor : Int) : Rat) ≠ s → rangeDates a s b = .error .exit := by
    intro a s b hs
    unfold rangeDates
    rw [if_pos hs]
  constructor
  · intro a s b hs
    by_cases hs0 : s = 0
    · simp [evalFields, Fld.get, bind, Except.bind, hs0]
    · rw [wrap a s b hs0, frac a s b hs]
  · intro Y s b hY hor
    have hs0 : s ≠ 0 := by
      rcases hor with h | h
      · exact ne_of_gt h.1
      · exact ne_of_lt h.1
    have e0 : ¬ (((Y : Nat) : Int) < 0) := by omega
    rw [wrap _ s b hs0]
    by_cases hw : ((s.floor : Int) : Rat) ≠ s
    · exact frac _ s b hw
    · rcases hor with ⟨hpos, hab⟩ | ⟨hneg, hab⟩
      · have hsgn : stepSign s = 1 := by unfold stepSign; rw [if_pos hpos]
        have hle : (Y : Rat) ≤ b + 1 * fudge := by unfold fudge; linarith
        have hp : s > 0 := hpos
        unfold rangeDates
        simp only [hw, hp, hsgn, min_eq_left hle, floor_nat, Int.toNat_natCast, hY, e0, if_true, if_false,
          Bool.not_false]
      · have hnp : ¬ (s > 0) := by intro h; linarith
        have hsgn : stepSign s = -1 := by unfold stepSign; rw [if_neg hnp]
        have hge : ¬ ((Y : Rat) < b + -1 * fudge) := by unfold fudge; linarith
        unfold rangeDates
        simp only [hw, hnp, hsgn, hge, floor_nat, Int.toNat_natCast, hY, e0, if_true, if_false,
          Bool.not_false]

/-- the witnesses of the repaired defects: `20130105:-1:20130101` counts down (day numbers
735178 … 735174), `20130101:0.5:20130103` and `20130230:20130301` are rejected -/
example : day1900 ≤ 735174 ∧ 735178 ≤ day2100 ∧ civil 735178 = ⟨2013, 1, 5⟩ ∧ civil 735174 = ⟨2013, 1, 1⟩ ∧
    (List.range ((735178 - 735174) / 1 + 1)).map (fun i => (civil (735178 - i * 1)).ymd) =
      [20130105, 20130104, 20130103, 20130102, 20130101] := by decide

example : evalFields true [.num 20130101, .num (1 / 2), .num 20130103] = .error .exit :=
  C13_rejects_date_range.1 _ _ _ (by
    intro h
    have h2 : (2 : Rat) * (((1 / 2 : Rat).floor : Int) : Rat) = 1 := by rw [h]; norm_num
    have h3 : (2 : Int) * (1 / 2 : Rat).floor = 1 := by exact_mod_cast h2
    omega)

example : evalFields true [.num 20130230, .num 1, .num 20130301] = .error .exit :=
  C13_rejects_date_range.2 20130230 1 20130301 (by decide) (Or.inl (by norm_num))

/-- non-vacuity: 2012-02-27 … 2012-03-02 (day numbers 734865 … 734869) crosses a leap day -/
example : day1900 ≤ 734865 ∧ 734869 ≤ day2100 ∧ civil 734865 = ⟨2012, 2, 27⟩ ∧
    civil 734869 = ⟨2012, 3, 2⟩ ∧ addDays 2 ⟨2012, 2, 27⟩ = ⟨2012, 2, 29⟩ := by decide

end dates

/-! ## Option order, --config -/

/-- a command line as the documented grammar sees it: file names and option groups -/
inductive Item where
  | file (f : String)
  | opt0 (g : String)
  | opt1 (g v : String)
  deriving DecidableEq

def Item.toks : Item → List String
  | .file f => [f]
  | .opt0 g => [g]
  | .opt1 g v => [g, v]

def tokens (l : List Item) : List String := l.flatMap Item.toks

/-- well-formed w.r.t. the table: file names are non-empty and do not start with `-`; flags are in
the table with the right arity (the value of an option may be any string) -/
def Item.WF (T : Tables) : Item → Prop
  | .file f => f ≠ "" ∧ isOpt f = false
  | .opt0 g => g ≠ "" ∧ isOpt g = true ∧ g ∈ T.arity0
  | .opt1 g _ => g ≠ "" ∧ isOpt g = true ∧ g ∉ T.arity0 ∧ hasFlag T g = true

def Item.isFile : Item → Option String
  | .file f => some f
  | _ => none

/-- the assignments an option group makes; independent of everything parsed before it -/
def Item.sets (T : Tables) (fs : FileSys) : Item → Res (List (String × Val))
  | .file _ => .ok []
  | .opt0 g => itemSets T fs g ""
  | .opt1 g v => itemSets T fs g v

/-- locals the branch of a flag can assign (static, from the table) -/
def flagKeys (T : Tables) (g : String) : List String := (rowsOf T g).map (·.2.1)

def Item.keys (T : Tables) : Item → List String
  | .file _ => []
  | .opt0 g => flagKeys T g
  | .opt1 g _ => flagKeys T g

def Item.upd (it : Item) (s : List (String × Val)) (c : Cfg) : Cfg :=
  match it with
  | .file f => c.addFile f
  | _ => c.setAll s

def applyItem (T : Tables) (fs : FileSys) (c : Cfg) (it : Item) : Res Cfg :=
  match it with
  | .file f => .ok (c.addFile f)
  | .opt0 g => applyFlag T fs g "" c
  | .opt1 g v => applyFlag T fs g v c

def runItems (T : Tables) (fs : FileSys) : List Item → Cfg → Res Cfg
  | [], c => .ok c
  | it :: rest, c =>
    match applyItem T fs c it with
    | .error e => .error e
    | .ok c' => runItems T fs rest c'

private theorem applyItem_eq (T : Tables) (fs : FileSys) (c : Cfg) (it : Item) :
    applyItem T fs c it = match it.sets T fs with
      | .error e => .error e
      | .ok s => .ok (it.upd s c) := by
  cases it with
  | file f => rfl
  | opt0 g =>
    simp only [applyItem, applyFlag, Item.sets, Item.upd]
    cases itemSets T fs g "" <;> rfl
  | opt1 g v =>
    simp only [applyItem, applyFlag, Item.sets, Item.upd]
    cases itemSets T fs g v <;> rfl

/-- the token loop on a well-formed command line is the fold over its groups -/
private theorem loop_tokens (T : Tables) (fs : FileSys) (items : List Item)
    (hwf : ∀ it ∈ items, it.WF T) (rest : List String) (c : Cfg) :
    loop T fs (tokens items ++ rest) c =
      match runItems T fs items c with
      | .error e => .error e
      | .ok c' => loop T fs rest c' := by
  induction items generalizing c with
  | nil => simp [tokens, runItems]
  | cons it tl ih =>
    have hit := hwf it (by simp)
    have htl : ∀ x ∈ tl, x.WF T := fun x hx => hwf x (by simp [hx])
    cases it with
    | file f =>
      obtain ⟨h1, h2⟩ := hit
      have : tokens (Item.file f :: tl) ++ rest = f :: (tokens tl ++ rest) := by
        simp [tokens, Item.toks]
      rw [this, loop.eq_def]
      simp only [h1, h2, if_false, if_true, runItems, applyItem]
      exact ih htl _
    | opt0 g =>
      obtain ⟨h1, h2, h3⟩ := hit
      have : tokens (Item.opt0 g :: tl) ++ rest = g :: (tokens tl ++ rest) := by
        simp [tokens, Item.toks]
      rw [this, loop.eq_def]
      simp only [h1, h2, h3, if_false, if_true, runItems, applyItem]
      cases applyFlag T fs g "" c with
      | error e => simp
      | ok c' => simpa using ih htl c'
    | opt1 g v =>
      obtain ⟨h1, h2, h3, h4⟩ := hit
      have : tokens (Item.opt1 g v :: tl) ++ rest = g :: v :: (tokens tl ++ rest) := by
        simp [tokens, Item.toks]
      rw [this, loop.eq_def]
      simp only [h1, h2, h3, h4, if_false, runItems, applyItem]
      cases applyFlag T fs g v c with
      | error e => simp
      | ok c' => simpa using ih htl c'

/-! ### effect of one group on the configuration -/

private theorem set_env (c : Cfg) (a : String) (v : Val) (k : String) :
    (c.set a v).env k = if k = a then some v else c.env k := rfl

private theorem setAll_env_congr (s : List (String × Val)) (c d : Cfg) (k : String)
    (h : c.env k = d.env k) : (c.setAll s).env k = (d.setAll s).env k := by
  induction s generalizing c d with
  | nil => simpa [Cfg.setAll] using h
  | cons kv s ih =>
    simp only [Cfg.setAll, List.foldl_cons]
    apply ih
    simp only [set_env, h]

private theorem setAll_env_skip (s : List (String × Val)) (c : Cfg) (k : String)
    (h : ∀ kv ∈ s, kv.1 ≠ k) : (c.setAll s).env k = c.env k := by
  induction s generalizing c with
  | nil => simp [Cfg.setAll]
  | cons kv s ih =>
    simp only [Cfg.setAll, List.foldl_cons]
    have := ih (c.set kv.1 kv.2) (fun x hx => h x (by simp [hx]))
    simp only [Cfg.setAll] at this
    rw [this, set_env, if_neg]
    exact fun e => h kv (by simp) e.symm

private theorem setAll_files (s : List (String × Val)) (c : Cfg) : (c.setAll s).files = c.files := by
  induction s generalizing c with
  | nil => simp [Cfg.setAll]
  | cons kv s ih =>
    simp only [Cfg.setAll, List.foldl_cons]
    have := ih (c.set kv.1 kv.2)
    simp only [Cfg.setAll] at this
    rw [this]; rfl

private theorem upd_env_congr (it : Item) (s : List (String × Val)) (c d : Cfg) (k : String)
    (h : c.env k = d.env k) : (it.upd s c).env k = (it.upd s d).env k := by
  cases it with
  | file f => simpa [Item.upd, Cfg.addFile] using h
  | opt0 g => exact setAll_env_congr s c d k h
  | opt1 g v => exact setAll_env_congr s c d k h

private theorem upd_env_skip (it : Item) (s : List (String × Val)) (c : Cfg) (k : String)
    (h : ∀ kv ∈ s, kv.1 ≠ k) : (it.upd s c).env k = c.env k := by
  cases it with
  | file f => simp [Item.upd, Cfg.addFile]
  | opt0 g => exact setAll_env_skip s c k h
  | opt1 g v => exact setAll_env_skip s c k h

private theorem upd_files (it : Item) (s : List (String × Val)) (c : Cfg) :
    (it.upd s c).files = c.files ++ it.isFile.toList := by
  cases it with
  | file f => simp [Item.upd, Cfg.addFile, Item.isFile]
  | opt0 g => simp [Item.upd, Item.isFile, setAll_files]
  | opt1 g v => simp [Item.upd, Item.isFile, setAll_files]

/-! ### a branch only assigns the locals the table lists for it -/

private theorem stepRow_keys (T : Tables) (fs : FileSys) (arg : String) (acc acc' : List (String × Val))
    (row : String × String × String) (h : stepRow T fs arg acc row = .ok acc') :
    ∀ kv ∈ acc', kv ∈ acc ∨ kv.1 = row.2.1 := by
  unfold stepRow at h
  split at h
  · cases h; intro kv hkv; exact Or.inl hkv
  · split at h
    · split at h
      · cases h
      · split at h
        · cases h
        · cases h; intro kv hkv; exact Or.inl hkv
    · cases h; intro kv hkv; exact Or.inl hkv
  · split at h
    · split at h
      · cases h; intro kv hkv; exact Or.inl hkv
      · cases h
    · cases h; intro kv hkv; exact Or.inl hkv
  · cases hp : parseKind T fs row.2.2 arg with
    | error e => rw [hp] at h; cases h
    | ok v =>
      rw [hp] at h
      cases h
      intro kv hkv
      rcases List.mem_append.mp hkv with h1 | h1
      · exact Or.inl h1
      · simp at h1; exact Or.inr (by rw [h1])

private theorem runRows_keys (T : Tables) (fs : FileSys) (arg : String)
    (rows : List (String × String × String)) (acc s : List (String × Val))
    (h : runRows T fs arg rows acc = .ok s) :
    ∀ kv ∈ s, kv ∈ acc ∨ kv.1 ∈ rows.map (·.2.1) := by
  induction rows generalizing acc with
  | nil => simp [runRows] at h; subst h; intro kv hkv; exact Or.inl hkv
  | cons r rs ih =>
    simp only [runRows, bind, Except.bind] at h
    cases h1 : stepRow T fs arg acc r with
    | error e => rw [h1] at h; cases h
    | ok acc' =>
      rw [h1] at h
      intro kv hkv
      rcases ih acc' h kv hkv with h2 | h2
      · rcases stepRow_keys T fs arg acc acc' r h1 kv h2 with h3 | h3
        · exact Or.inl h3
        · exact Or.inr (by simp [h3])
      · exact Or.inr (by simp at h2 ⊢; exact Or.inr h2)

private theorem sets_keys (T : Tables) (fs : FileSys) (it : Item) (s : List (String × Val))
    (h : it.sets T fs = .ok s) : ∀ kv ∈ s, kv.1 ∈ it.keys T := by
  cases it with
  | file f => simp [Item.sets] at h; subst h; simp
  | opt0 g =>
    intro kv hkv
    rcases runRows_keys T fs "" (rowsOf T g) [] s h kv hkv with h1 | h1
    · simp at h1
    · exact h1
  | opt1 g v =>
    intro kv hkv
    rcases runRows_keys T fs v (rowsOf T g) [] s h kv hkv with h1 | h1
    · simp at h1
    · exact h1

/-! ### permuting the groups -/

/-- what is observed of a run at local `k`: rejected, or the final value of `k` -/
def obs (k : String) : Res Cfg → Option (Option Val)
  | .ok c => some (c.env k)
  | .error _ => none

/-- does the group assign local `k` (statically, by the table)? -/
def assigns (T : Tables) (k : String) (it : Item) : Bool := decide (k ∈ it.keys T)

private theorem run_congr (T : Tables) (fs : FileSys) (k : String) (l : List Item) (c d : Cfg)
    (h : c.env k = d.env k) : obs k (runItems T fs l c) = obs k (runItems T fs l d) := by
  induction l generalizing c d with
  | nil => simp [runItems, obs, h]
  | cons it tl ih =>
    simp only [runItems, applyItem_eq]
    cases it.sets T fs with
    | error e => simp [obs]
    | ok s => exact ih _ _ (upd_env_congr it s c d k h)

private theorem perm_obs (T : Tables) (fs : FileSys) (k : String) (l1 l2 : List Item)
    (hp : l1.Perm l2) (hc : l1.countP (assigns T k) ≤ 1) (c d : Cfg) (h : c.env k = d.env k) :
    obs k (runItems T fs l1 c) = obs k (runItems T fs l2 d) := by
  induction hp generalizing c d with
  | nil => simp [runItems, obs, h]
  | cons x _ ih =>
    simp only [runItems, applyItem_eq]
    cases x.sets T fs with
    | error e => simp [obs]
    | ok s =>
      apply ih
      · rw [List.countP_cons] at hc; omega
      · exact upd_env_congr x s c d k h
  | swap x y l =>
    simp only [runItems, applyItem_eq]
    cases hy : y.sets T fs with
    | error e =>
      cases hx : x.sets T fs with
      | error e' => simp [obs]
      | ok sx => simp [obs]
    | ok sy =>
      cases hx : x.sets T fs with
      | error e' => simp [obs]
      | ok sx =>
        apply run_congr
        simp only [List.countP_cons] at hc
        by_cases hyk : assigns T k y = true
        · have hxk : assigns T k x = false := by
            cases hh : assigns T k x
            · rfl
            · simp [hyk, hh] at hc
          have hskip : ∀ kv ∈ sx, kv.1 ≠ k := by
            intro kv hkv e
            have := sets_keys T fs x sx hx kv hkv
            rw [e] at this
            simp [assigns, this] at hxk
          rw [upd_env_skip x sx _ k hskip]
          apply upd_env_congr
          rw [upd_env_skip x sx _ k hskip]
          exact h
        · have hskip : ∀ kv ∈ sy, kv.1 ≠ k := by
            intro kv hkv e
            have := sets_keys T fs y sy hy kv hkv
            rw [e] at this
            simp [assigns, this] at hyk
          rw [upd_env_skip y sy _ k hskip]
          apply upd_env_congr
          rw [upd_env_skip y sy _ k hskip]
          exact h.symm ▸ rfl
  | trans h1 _ ih1 ih2 =>
    rw [ih1 hc c c rfl]
    exact ih2 (by rw [← h1.countP_eq]; exact hc) c d h

private theorem run_files (T : Tables) (fs : FileSys) (l : List Item) (c c' : Cfg)
    (h : runItems T fs l c = .ok c') : c'.files = c.files ++ l.filterMap Item.isFile := by
  induction l generalizing c with
  | nil => simp [runItems] at h; subst h; simp
  | cons it tl ih =>
    simp only [runItems, applyItem_eq] at h
    cases hs : it.sets T fs with
    | error e => rw [hs] at h; cases h
    | ok s =>
      rw [hs] at h
      rw [ih _ h, upd_files]
      cases it <;> simp [Item.isFile, List.filterMap_cons]

private theorem run_ok_iff (T : Tables) (fs : FileSys) (l : List Item) (c : Cfg) :
    (∃ c', runItems T fs l c = .ok c') ↔ ∀ it ∈ l, ∃ s, it.sets T fs = .ok s := by
  induction l generalizing c with
  | nil => simp [runItems]
  | cons it tl ih =>
    simp only [runItems, applyItem_eq]
    cases hs : it.sets T fs with
    | error e =>
      constructor
      · rintro ⟨c', h⟩; cases h
      · intro h; obtain ⟨s, hs'⟩ := h it (by simp); rw [hs] at hs'; cases hs'
    | ok s =>
      rw [ih]
      constructor
      · intro h x hx
        rcases List.mem_cons.mp hx with e | e
        · subst e; exact ⟨s, hs⟩
        · exact h x e
      · intro h x hx; exact h x (by simp [hx])

/-- **C13_order_irrelevant.**  Two well-formed command lines whose option groups are a
permutation of each other and whose file names appear in the same relative order are either both
rejected, or both accepted with the same file list and the same value for every local variable
that at most one group assigns ("no flag occurs twice"; `-x` and `-Tx` share only the dead
temporary `axisname`). -/
theorem C13_order_irrelevant (T : Tables) (fs : FileSys) (l1 l2 : List Item)
    (hwf : ∀ it ∈ l1, it.WF T) (hp : l1.Perm l2)
    (hfiles : l1.filterMap Item.isFile = l2.filterMap Item.isFile) (c0 : Cfg) :
    match loop T fs (tokens l1) c0, loop T fs (tokens l2) c0 with
    | .ok c1, .ok c2 =>
        c1.files = c2.files ∧ ∀ k, l1.countP (assigns T k) ≤ 1 → c1.env k = c2.env k
    | .error _, .error _ => True
    | _, _ => False := by
  have hwf2 : ∀ it ∈ l2, it.WF T := fun it h => hwf it (hp.mem_iff.mpr h)
  have e1 := loop_tokens T fs l1 hwf [] c0
  have e2 := loop_tokens T fs l2 hwf2 [] c0
  simp only [List.append_nil] at e1 e2
  rw [e1, e2]
  have hok := run_ok_iff T fs l1 c0
  have hok2 := run_ok_iff T fs l2 c0
  cases h1 : runItems T fs l1 c0 with
  | error e =>
    cases h2 : runItems T fs l2 c0 with
    | error e' => simp
    | ok c2 =>
      exfalso
      have : ∃ c', runItems T fs l1 c0 = .ok c' :=
        hok.mpr (fun it h => (hok2.mp ⟨c2, h2⟩) it (hp.mem_iff.mp h))
      obtain ⟨c', hc'⟩ := this
      rw [h1] at hc'; cases hc'
  | ok c1 =>
    cases h2 : runItems T fs l2 c0 with
    | error e' =>
      exfalso
      have : ∃ c', runItems T fs l2 c0 = .ok c' :=
        hok2.mpr (fun it h => (hok.mp ⟨c1, h1⟩) it (hp.mem_iff.mpr h))
      obtain ⟨c', hc'⟩ := this
      rw [h2] at hc'; cases hc'
    | ok c2 =>
      simp only [loop]
      refine ⟨?_, ?_⟩
      · rw [run_files T fs l1 c0 c1 h1, run_files T fs l2 c0 c2 h2, hfiles]
      · intro k hk
        have := perm_obs T fs k l1 l2 hp hk c0 c0 rfl
        rw [h1, h2] at this
        simpa [obs] using this

/-! ## --config -/

private theorem cfgExtra_skip (fs : FileSys) (l r : List String) (h : "--config" ∉ l) :
    configExtra fs (l ++ r) = configExtra fs r := by
  induction l with
  | nil => rfl
  | cons t tl ih =>
    have ht : t ≠ "--config" := fun e => h (by simp [e])
    have htl : "--config" ∉ tl := fun e => h (by simp [e])
    rw [List.cons_append, configExtra.eq_def]
    simp only [ht, if_false]
    exact ih htl

private theorem cfgExtra_none (fs : FileSys) (l : List String) (h : "--config" ∉ l) :
    configExtra fs l = .ok [] := by
  have := cfgExtra_skip fs l [] h
  simpa [configExtra] using this

/-- **C13_config_inline.**  `--config f` placed between two option groups gives exactly the
configuration of the command line in which the tokens of `f` are written out at the end of the
command line (and, by `C13_order_irrelevant`, anywhere else, as long as no variable is assigned
twice).  `--config` must be a value-taking no-op of the table, as it is in the regenerated one
(`C13_wiring`). -/
theorem C13_config_inline (T : Tables) (fs : FileSys) (pre : List Item) (hwf : ∀ it ∈ pre, it.WF T)
    (f : String) (toks post : List String)
    (hT : T.configPrepass = "append") (hf : fs.configs.lookup f = some toks)
    (h1 : "--config" ∉ tokens pre) (h2 : "--config" ∉ post) (h3 : "--config" ∉ toks)
    (hrow : rowsOf T "--config" = [("--config", "", "pass")]) (h0 : "--config" ∉ T.arity0) :
    parseArgs T fs (tokens pre ++ "--config" :: f :: post) =
      parseArgs T fs (tokens pre ++ (post ++ toks)) := by
  have hflag : hasFlag T "--config" = true := by
    have : ("--config", "", "pass") ∈ rowsOf T "--config" := by rw [hrow]; simp
    unfold rowsOf at this
    rw [List.mem_filter] at this
    unfold hasFlag
    rw [List.any_eq_true]
    exact ⟨_, this.1, this.2⟩
  have hopt : isOpt "--config" = true := by decide
  have hne : ("--config" : String) ≠ "" := by decide
  have eL : configExtra fs (tokens pre ++ "--config" :: f :: post) = .ok (toks ++ []) := by
    rw [cfgExtra_skip fs _ _ h1, configExtra.eq_def]
    simp only [if_true, hf, cfgExtra_none fs post h2]
  have eR : configExtra fs (tokens pre ++ (post ++ toks)) = .ok [] := by
    apply cfgExtra_none
    simp only [List.mem_append, not_or]
    exact ⟨h1, h2, h3⟩
  unfold parseArgs expand
  simp only [hT, if_true, eL, eR, Except.map, bind, Except.bind, List.append_nil]
  have a1 : tokens pre ++ "--config" :: f :: post ++ toks =
      tokens pre ++ ("--config" :: f :: (post ++ toks)) := by simp
  rw [a1, loop_tokens T fs pre hwf, loop_tokens T fs pre hwf]
  cases runItems T fs pre Cfg.empty with
  | error e => rfl
  | ok c' =>
    simp only []
    rw [loop.eq_def]
    have hs : itemSets T fs "--config" f = .ok [] := by
      unfold itemSets; rw [hrow]; simp [runRows, stepRow, bind, Except.bind]
    simp only [hne, hopt, h0, hflag, if_false, applyFlag, hs, Except.map, Cfg.setAll, List.foldl_nil]
    simp

/-! ## Rejections -/

/-- an unknown flag is an error wherever it stands (with or without a value after it) -/
theorem C13_rejects_unknown_flag (T : Tables) (fs : FileSys) (pre : List Item)
    (hwf : ∀ it ∈ pre, it.WF T) (g : String) (rest : List String) (c0 c : Cfg)
    (hg1 : g ≠ "") (hg2 : isOpt g = true) (hg3 : hasFlag T g = false) (hg4 : g ∉ T.arity0) :
    loop T fs (tokens pre ++ g :: rest) c0 ≠ .ok c := by
  rw [loop_tokens T fs pre hwf]
  cases runItems T fs pre c0 with
  | error e => simp
  | ok c' =>
    simp only []
    rw [loop.eq_def]
    cases rest with
    | nil => simp [hg1, hg2, hg4]
    | cons v r => simp [hg1, hg2, hg3, hg4]

/-- a value-taking flag at the end of the command line is an error -/
theorem C13_rejects_missing_value (T : Tables) (fs : FileSys) (pre : List Item)
    (hwf : ∀ it ∈ pre, it.WF T) (g : String) (c0 c : Cfg)
    (hg1 : g ≠ "") (hg2 : isOpt g = true) (hg4 : g ∉ T.arity0) :
    loop T fs (tokens pre ++ [g]) c0 ≠ .ok c := by
  rw [loop_tokens T fs pre hwf]
  cases runItems T fs pre c0 with
  | error e => simp
  | ok c' =>
    simp only []
    rw [loop.eq_def]
    simp [hg1, hg2, hg4]

private theorem post_fails (T : Tables) (fs : FileSys) (c : Cfg) (loc check : String) (v : Val)
    (hpost : (loc, check) ∈ T.post) (henv : c.env loc = some v) (hbad : postCheck v check = false)
    (hver : (c.get T T.versionVar).truthy = false) : finish T fs c = .error .exit := by
  have hget : c.get T loc = v := by simp [Cfg.get, henv]
  have : postChecks T c = false := by
    unfold postChecks
    rw [List.all_eq_false]
    exact ⟨(loc, check), hpost, by simp [hget, hbad]⟩
  unfold finish
  simp [hver, this]

/-- `-latrange`, `-lonrange`, `-elevrange`, `-obsrange` (any local with a `len2` validation) with a vector
that does not have exactly two values: error (unless `--version` returned before) -/
theorem C13_rejects_range_length (T : Tables) (fs : FileSys) (c : Cfg) (loc : String) (l : List Rat)
    (hpost : (loc, "len2") ∈ T.post) (henv : c.env loc = some (.nums l)) (hl : l.length ≠ 2)
    (hver : (c.get T T.versionVar).truthy = false) : finish T fs c = .error .exit :=
  post_fails T fs c loc "len2" (.nums l) hpost henv (by simp [postCheck, hl]) hver

/-- a local with a "one of these names" validation (`X is not None and X not in ["a", "b", …]`, table entry
`oneof:a|b|…` — the PROPOSED repair for `-b`, harness/proposed/c13_driver_validation.diff; /repo c94a168 has no such
statement, so its generated `post` table has no such entry and `-b bogus` is accepted, see MERGE_NOTES) holding a
string that is not one of the names: error (unless `--version` returned before) -/
theorem C13_rejects_unknown_bin (T : Tables) (fs : FileSys) (c : Cfg) (loc check names s : String)
    (hpost : (loc, check) ∈ T.post) (hcheck : check.splitOn ":" = ["oneof", names])
    (henv : c.env loc = some (.str s)) (hs : s ∉ names.splitOn "|")
    (hver : (c.get T T.versionVar).truthy = false) : finish T fs c = .error .exit := by
  have hbad : postCheck (.str s) check = false := by
    unfold postCheck
    split
    · simp_all
    · simp_all
    · rename_i c' s' hc hv
      cases hv
      simp [hcheck, hs]
    · rename_i h3
      first
        | exact (h3 _ _ rfl rfl).elim
        | exact absurd rfl (h3 _ s rfl)
        | (exfalso; apply h3 <;> rfl)
        | simp_all
  exact post_fails T fs c loc check (.str s) hpost henv hbad hver

/- (no kernel-checked non-vacuity example: `String.splitOn` does not reduce in the kernel, see DEV.md; that the entry
`oneof:below|below=|=within|within|within=|=within=|above|above=` splits as required and rejects `bogus` but not
`within=` is exercised by the compiled driver on the repaired tree, stream cli.bad kind unknown-bin.) -/

/-- `-T n` with `n ≤ 0`: error -/
theorem C13_rejects_nonpositive_T (T : Tables) (fs : FileSys) (c : Cfg) (loc : String) (i : Int)
    (hpost : (loc, "positive") ∈ T.post) (henv : c.env loc = some (.int i)) (hi : i ≤ 0)
    (hver : (c.get T T.versionVar).truthy = false) : finish T fs c = .error .exit :=
  post_fails T fs c loc "positive" (.int i) hpost henv (by simp [postCheck]; omega) hver

/-- a scalar option (`-T`, `-dpi`: `int`; `-aspect`, font sizes, paddings, …: `float`) whose value is
not a number of that kind: error message, never a traceback (before the repair: ValueError) -/
theorem C13_rejects_malformed_scalar (T : Tables) (fs : FileSys) (arg : String) :
    (parseInt? arg = none → parseKind T fs "int" arg = .error .exit) ∧
    (parseFloat? arg = none → parseKind T fs "float" arg = .error .exit) := by
  constructor <;> intro h <;> simp [parseKind, h]

/-- `-T x`, `-T 1.5` are such values, `-T 24` is not -/
example : parseInt? "x" = none ∧ parseInt? "1.5" = none ∧ parseInt? "24" = some 24 := by decide

/-- `-q` with a value outside [0, 1]: error -/
theorem C13_rejects_quantile (T : Tables) (fs : FileSys) (g loc v : String) (l : List Rat)
    (hrows : rowsOf T g = [(g, loc, "array:numbers"), (g, loc, "check:unit_interval")])
    (hparse : parseNumbers v false = .ok l) (q : Rat) (hq : q ∈ l) (hout : q < 0 ∨ 1 < q) :
    itemSets T fs g v = .error .exit := by
  have hne : l.isEmpty = false := by cases l <;> simp_all
  have hany : l.any (fun q => decide (q < 0) || decide (q > 1)) = true := by
    rw [List.any_eq_true]
    exact ⟨q, hq, by rcases hout with h | h <;> simp [h]⟩
  unfold itemSets
  rw [hrows]
  simp [runRows, stepRow, parseKind, hparse, Except.map, bind, Except.bind, lastOf, hne, hany]

/-- `-x` or `-Tx` with a name that is not an axis class: error -/
theorem C13_rejects_unknown_axis (T : Tables) (name : String) (h : ∀ p ∈ T.axes, p.1 ≠ name) :
    getAxis T name = .error .exit := by
  have : T.axes.lookup name = none := by
    rw [List.lookup_eq_none_iff]
    intro p hp
    simpa using fun e => h p hp e.symm
  simp [getAxis, this]

/-- `-agg` or `-Tagg` with a name that is neither an aggregator nor a number in [0, 1]: error -/
theorem C13_rejects_unknown_aggregator (T : Tables) (name : String)
    (h : ∀ p ∈ T.aggregators, p.1 ≠ name)
    (hnum : ∀ q, parseFloat? name = some q → q < 0 ∨ 1 < q) :
    getAggregator T name = .error .exit := by
  have : T.aggregators.lookup name = none := by
    rw [List.lookup_eq_none_iff]
    intro p hp
    simpa using fun e => h p hp e.symm
  unfold getAggregator
  rw [this]
  cases hf : parseFloat? name with
  | none => rfl
  | some q =>
    have := hnum q hf
    simp only []
    rw [if_pos (by rcases this with h | h; exact Or.inl h; exact Or.inr h)]

/-- an input (or climatology) file that `get_input` does not accept: error -/
theorem C13_rejects_bad_file (T : Tables) (fs : FileSys) (c : Cfg) (f : String)
    (hf : f ∈ c.files) (hbad : f ∉ fs.inputs)
    (hver : (c.get T T.versionVar).truthy = false) : finish T fs c = .error .exit := by
  unfold finish
  simp only [hver, Bool.false_eq_true, if_false]
  by_cases hp : postChecks T c = true
  · have : c.files.any (fun f => !fs.inputs.contains f) = true := by
      rw [List.any_eq_true]; exact ⟨f, hf, by simp [hbad]⟩
    rw [this]
    simp [hp]
  · simp [hp]

theorem C13_rejects_bad_clim (T : Tables) (fs : FileSys) (f : String)
    (hbad : f ∉ fs.inputs) : parseKind T fs "input" f = .error .exit := by
  simp [parseKind, hbad]

/-- `--config` naming an unreadable file, or without a file name: error -/
theorem C13_rejects_missing_config (T : Tables) (fs : FileSys) (l r : List String) (f : String)
    (hT : T.configPrepass = "append") (hl : "--config" ∉ l) :
    (fs.configs.lookup f = none → parseArgs T fs (l ++ "--config" :: f :: r) = .error .exit) ∧
    parseArgs T fs (l ++ ["--config"]) = .error .exit := by
  constructor
  · intro hf
    unfold parseArgs expand
    rw [if_pos hT, cfgExtra_skip fs _ _ hl, configExtra.eq_def]
    simp [hf, Except.map, bind, Except.bind]
  · unfold parseArgs expand
    rw [if_pos hT, cfgExtra_skip fs _ _ hl, configExtra.eq_def]
    simp [Except.map, bind, Except.bind]

/-- the documented shapes of one comma-separated part: `a`, `a:b`, `a:s:b` with `s ≠ 0`, every
field a decimal number -/
def WellFormedPart (fs : List Fld) : Prop :=
  (∃ a, fs = [.num a]) ∨ (∃ a b, fs = [.num a, .num b]) ∨
  (∃ a s b, s ≠ 0 ∧ fs = [.num a, .num s, .num b])

/-- **C13_rejects_vector.**  Malformed vector syntax is rejected with the error message (exit
status 1), never anything else: a character outside `-0123456789.:,`; any part that is not one of
the documented shapes — an empty field, a field that is not a decimal number (`1.2.3`, `1-2`, `-`),
more than three fields, a zero step; and a malformed part anywhere in a comma list whose earlier
parts are fine.  (Full strength since repo commit aace4b0; before it non-float fields raised.) -/
theorem C13_rejects_vector :
    (∀ (s : String) (d : Bool), s.toList.any (fun c => !allowed c) = true →
        parseNumbers s d = .error .exit) ∧
    (∀ (d : Bool) (fs : List Fld), ¬ WellFormedPart fs → evalFields d fs = .error .exit) ∧
    (∀ (d : Bool) (ps qs : List (List Fld)) (v : List Rat) (p : List Fld),
        evalParts d ps = .ok v → evalFields d p = .error .exit →
        evalParts d (ps ++ p :: qs) = .error .exit) := by
  refine ⟨?_, ?_, ?_⟩
  · intro s d h
    simp [parseNumbers, h]
  · intro d fs hwf
    unfold WellFormedPart at hwf
    match fs with
    | [] => simp [evalFields]
    | [f] =>
      cases f with
      | num a => exact absurd (Or.inl ⟨a, rfl⟩) hwf
      | empty => simp [evalFields]
      | bad => simp [evalFields, Fld.get, bind, Except.bind]
    | [f, g] =>
      cases f <;> cases g <;>
        first
        | (simp [evalFields, Fld.get, bind, Except.bind]; done)
        | (rename_i a b; exact absurd (Or.inr (Or.inl ⟨a, b, rfl⟩)) hwf)
    | [f, g, h] =>
      cases f <;> cases g <;> cases h <;>
        first
        | (simp [evalFields, Fld.get, bind, Except.bind]; done)
        | (rename_i a s b
           by_cases hs : s = 0
           · subst hs; simp [evalFields, Fld.get, bind, Except.bind]
           · exact absurd (Or.inr (Or.inr ⟨a, s, b, hs, rfl⟩)) hwf)
    | f :: g :: h :: i :: rest =>
      unfold evalFields
      split
      · rfl
      · rfl
  · intro d ps qs v p hps hp
    induction ps generalizing v with
    | nil => simp [evalParts, hp, bind, Except.bind]
    | cons x xs ih =>
      simp only [evalParts, bind, Except.bind, List.cons_append] at hps ⊢
      cases hx : evalFields d x with
      | error e => rw [hx] at hps; cases hps
      | ok y =>
        rw [hx] at hps
        simp only [] at hps ⊢
        cases hxs : evalParts d xs with
        | error e => rw [hxs] at hps; cases hps
        | ok z => rw [ih z hxs]

/-- non-vacuity: the shapes the repaired defect was about are not well-formed parts -/
example : ¬ WellFormedPart [.bad] ∧ ¬ WellFormedPart [.num 1, .bad, .num 3] ∧
    ¬ WellFormedPart [.num 1, .num 0, .num 3] ∧ WellFormedPart [.num 0, .num (1 / 10), .num 1] := by
  refine ⟨?_, ?_, ?_, Or.inr (Or.inr ⟨0, 1 / 10, 1, by norm_num, rfl⟩)⟩ <;>
    (intro h; rcases h with ⟨a, h⟩ | ⟨a, b, h⟩ | ⟨a, s, b, hs, h⟩ <;> simp_all)

/-! ## Wiring (GenEq): the regenerated table contains the documented one -/

/-- the documented entry `e = (flag, where, name, syntax)` is realised by the table: the branch of
`flag` assigns, with parser `syntax`, a local variable that is passed to `Data(...)` under keyword
`name` / copied to the output attribute `name` / is the metric variable / selects output class
`name` / prints attribute `name` of the dataset.  The local's own name is existentially
quantified, so renaming a local in driver.run does not matter. -/
def resolves (T : Tables) (e : String × String × String × String) : Bool :=
  T.table.any fun r => r.1 == e.1 && r.2.2 == e.2.2.2 &&
    (if e.2.1 == "data" then T.dataKw.any fun p => p.1 == e.2.2.1 && p.2 == r.2.1
     else if e.2.1 == "out" then
       T.plAttrs.any fun a => a.1 == e.2.2.1 && a.2.1 == r.2.1 && (a.2.2 == "id" || a.2.2 == "aggregator")
     else if e.2.1 == "metric" then r.2.1 == T.metricVar
     else if e.2.1 == "std" then T.stdOutputs.any fun p => p.1 == r.2.1 && p.2 == e.2.2.1
     else if e.2.1 == "list" then T.lists.any fun p => p.1 == r.2.1 && p.2 == e.2.2.1
     else false)

/-- value-less exactly when documented without a value -/
def arityOK (T : Tables) (e : String × String × String × String) : Bool :=
  (e.2.2.2 == "const:True") == T.arity0.contains e.1

/-- the documented validation of Data keyword `kw` is performed on the local passed under `kw` -/
def checkOK (T : Tables) (e : String × String) : Bool :=
  T.post.any fun p => p.2 == e.2 && T.dataKw.any fun d => d.1 == e.1 && d.2 == p.1

def wiringOK (T : Tables) : Bool :=
  documented.all (resolves T) && documented.all (arityOK T) && documentedChecks.all (checkOK T)
  && documentedAxes.all (fun a => T.axes.contains (a, "0"))
  && documentedAggregators.all (fun a => T.aggregators.contains (a, "0"))
  && T.configPrepass == "append" && rowsOf T "--config" == [("--config", "", "pass")]
  && !T.arity0.contains "--config"
  && (rowsOf T "-q").map (·.2.2) == ["array:numbers", "check:unit_interval"]
  && ((rowsOf T "-q").map (·.2.1)).eraseDups.length == 1

/-- **C13_wiring.**  Every documented data-selection/computation flag reaches the documented
`Data(...)` argument / output attribute / control decision with the documented parser and arity;
the documented validations are applied to the documented arguments; the documented axis and
aggregator names exist; `--config` files are read and their tokens appended; unknown flags,
missing values, missing/unreadable config files are errors; and the translator recognised every
statement of the option branches.  `decide` on the table regenerated from /repo for this run. -/
theorem C13_wiring :
    wiringOK Driver.Args.genTables = true ∧ Gen.OptionTable.problems = [] ∧
    Gen.OptionTable.unknownFlagIsError = true ∧ Gen.OptionTable.missingValueIsError = true ∧
    Gen.OptionTable.configMissingIsError = true ∧ Gen.OptionTable.configUnreadableIsError = true := by
  decide

/-! ## Non-vacuity -/

section examples
open Driver.Args

private def fsEx : FileSys := ⟨["fa.txt", "fb.txt"], [("k.cfg", ["-l", "1,2"])]⟩

private def lineA : List Item := [.file "fa.txt", .opt1 "-m" "mae", .opt1 "-l" "1,2", .opt0 "-acc", .file "fb.txt"]
private def lineB : List Item := [.opt0 "-acc", .file "fa.txt", .opt1 "-l" "1,2", .file "fb.txt", .opt1 "-m" "mae"]

private theorem lineA_wf : ∀ it ∈ lineA, it.WF genTables := by
  intro it h
  simp only [lineA, List.mem_cons, List.not_mem_nil, or_false] at h
  rcases h with h | h | h | h | h <;> subst h <;> simp only [Item.WF] <;> decide

private theorem lineAB : lineA.Perm lineB := by
  unfold lineA lineB
  decide

/-- the hypotheses of `C13_order_irrelevant` hold for a real command line of the regenerated
table, `verif fa.txt -m mae -l 1,2 -acc fb.txt` against `verif -acc fa.txt -l 1,2 fb.txt -m mae` -/
example := C13_order_irrelevant genTables fsEx lineA lineB lineA_wf lineAB rfl Cfg.empty

/-- … and of `C13_config_inline`: `verif fa.txt -m mae --config k.cfg fb.txt` -/
example := C13_config_inline genTables fsEx [.file "fa.txt", .opt1 "-m" "mae"]
  (by intro it h
      simp only [List.mem_cons, List.not_mem_nil, or_false] at h
      rcases h with h | h <;> subst h <;> simp only [Item.WF] <;> decide)
  "k.cfg" ["-l", "1,2"] ["fb.txt"] (by decide) (by decide) (by decide) (by decide) (by decide)
  (by decide) (by decide)

/-- grid points exist and the range theorem is about a non-empty progression: 0:0.1:0.3 -/
example : OnGrid (1 / 10) ∧ OnGrid 0 ∧ OnGrid (3 / 10) ∧ (1 / 10 : Rat) ≠ 0 :=
  ⟨⟨100, by norm_num⟩, ⟨0, by norm_num⟩, ⟨300, by norm_num⟩, by norm_num⟩

end examples

/-! ## Classes of input file, config files line by line -/

section classes
open InputClass

private theorem not_input_of_class (fs0 : FileSys) (files : List (String × String)) (f cls : String)
    (hcls : accepted cls = false) (hmem : ∀ c, (f, c) ∈ files → c = cls) (hf0 : f ∉ fs0.inputs) :
    f ∉ (withClasses fs0 files).inputs := by
  intro h
  simp only [withClasses, List.mem_append, List.mem_map, List.mem_filter] at h
  rcases h with h | ⟨p, ⟨hp, hacc⟩, hpf⟩
  · exact hf0 h
  · obtain ⟨n, c⟩ := p
    simp only at hpf hacc
    subst hpf
    have := hmem c hp
    subst this
    rw [hcls] at hacc
    cases hacc

/-- **C13_rejects_bad_class.**  Every class of file but `good` / `text-named-nc` is rejected with the error
message (exit status 1), for EVERY command line that names the file: as an input file (anywhere among the
arguments: the run ends in `.error .exit` unless `--version` returned first), or as the value of an option
whose branch reads an input (`-c`, `-C`: the argument loop itself stops).  `files` are the classified files
in the working directory, `f` a file of class `cls` that is not one of the always-valid inputs. -/
theorem C13_rejects_bad_class (T : Tables) (fs0 : FileSys) (files : List (String × String)) (f cls : String)
    (hcls : accepted cls = false) (hmem : ∀ c, (f, c) ∈ files → c = cls) (hf0 : f ∉ fs0.inputs)
    (l : List Item) (hwf : ∀ it ∈ l, it.WF T) :
    (Item.file f ∈ l → ∀ c, loop T (withClasses fs0 files) (tokens l) Cfg.empty = .ok c →
        (c.get T T.versionVar).truthy = false → finish T (withClasses fs0 files) c = .error .exit) ∧
    (∀ g r rs, rowsOf T g = r :: rs → r.2.2 = "input" → Item.opt1 g f ∈ l →
        ∀ c, loop T (withClasses fs0 files) (tokens l) Cfg.empty ≠ .ok c) := by
  have hbad := not_input_of_class fs0 files f cls hcls hmem hf0
  have hloop := loop_tokens T (withClasses fs0 files) l hwf [] Cfg.empty
  simp only [List.append_nil] at hloop
  constructor
  · intro hin c hc hver
    rw [hloop] at hc
    cases hr : runItems T (withClasses fs0 files) l Cfg.empty with
    | error e => rw [hr] at hc; cases hc
    | ok c' =>
      rw [hr] at hc
      simp only [loop] at hc
      have hcc : c' = c := by injection hc
      rw [← hcc] at hver ⊢
      have hfiles := run_files T (withClasses fs0 files) l Cfg.empty c' hr
      apply C13_rejects_bad_file T _ c' f _ hbad hver
      rw [hfiles]
      simp only [Cfg.empty, List.nil_append, List.mem_filterMap]
      exact ⟨Item.file f, hin, rfl⟩
  · intro g r rs hrows hkind hin c hc
    rw [hloop] at hc
    cases hr : runItems T (withClasses fs0 files) l Cfg.empty with
    | error e => rw [hr] at hc; cases hc
    | ok c' =>
      have hall := (run_ok_iff T (withClasses fs0 files) l Cfg.empty).1 ⟨c', hr⟩ _ hin
      obtain ⟨s, hs⟩ := hall
      have herr : itemSets T (withClasses fs0 files) g f = .error .exit := by
        obtain ⟨r1, r2, r3⟩ := r
        simp only at hkind
        subst hkind
        unfold itemSets
        rw [hrows]
        have hk := C13_rejects_bad_clim T (withClasses fs0 files) f hbad
        simp [runRows, stepRow, hk, Except.map, bind, Except.bind]
      simp only [Item.sets] at hs
      rw [herr] at hs
      cases hs

/-- the classification is total on the classes the harness creates; accepted are the valid text files
(under any name, also with an empty `#` comment line) -/
example : classes.filter accepted = ["good", "text-named-nc", "comment-bare"] := by decide

/-- non-vacuity: `verif fa.txt g_empty.txt -m mae` and `verif fa.txt -m mae -c g_garbage.txt` on the
regenerated table -/
example := C13_rejects_bad_class Driver.Args.genTables ⟨["fa.txt"], []⟩
  [("g_text.nc", "text-named-nc"), ("g_empty.txt", "empty"), ("g_garbage.txt", "garbage")] "g_empty.txt" "empty"
  (by decide) (by intro c h; simp at h; exact h) (by decide)
  [.file "fa.txt", .file "g_empty.txt", .opt1 "-m" "mae"]
  (by intro it h
      simp only [List.mem_cons, List.not_mem_nil, or_false] at h
      rcases h with h | h | h <;> subst h <;> simp only [Item.WF] <;> decide)

example : ((rowsOf Driver.Args.genTables "-c").head?.map (·.2.2) = some "input") ∧
    ((rowsOf Driver.Args.genTables "-C").head?.map (·.2.2) = some "input") := by decide

private theorem lookup_map_tokens (cfgs : List (String × List (List String))) (f : String) :
    (cfgs.map fun p => (p.1, configTokens p.2)).lookup f = (cfgs.lookup f).map configTokens := by
  induction cfgs with
  | nil => rfl
  | cons p ps ih =>
    obtain ⟨n, ls⟩ := p
    simp only [List.map_cons, List.lookup_cons]
    cases h : f == n <;> simp [ih]

/-- joining two lines, and dropping a blank line, do not change the tokens of a config file -/
theorem configTokens_join (l1 l2 : List String) (rest : List (List String)) :
    configTokens (l1 :: l2 :: rest) = configTokens ((l1 ++ l2) :: rest) ∧
    configTokens ([] :: rest) = configTokens rest := by
  simp [configTokens]

/-- the line-break marker of the op-line encoding only distributes the tokens over lines -/
theorem splitLines_tokens (mark : String) (toks : List String) :
    configTokens (splitLines mark toks) = toks.filter (· ≠ mark) := by
  induction toks with
  | nil => simp [splitLines, configTokens]
  | cons t ts ih =>
    by_cases h : t = mark
    · simp only [splitLines, h, if_true]
      rw [(configTokens_join [] [] (splitLines mark ts)).2, ih]
      simp
    · have hpos : (t :: ts).filter (· ≠ mark) = t :: ts.filter (· ≠ mark) :=
        List.filter_cons_of_pos (by simpa using h)
      simp only [splitLines, h, if_false]
      split
      · next hs => rw [hs] at ih; rw [hpos, ← ih]; simp [configTokens]
      · next l ls hs => rw [hs] at ih; rw [hpos, ← ih]; simp [configTokens]

/-- **C13_config_lines.**  `for line in fid: extra += line.split()`: the configuration obtained through
`--config f` depends only on the sequence of tokens of the file, not on how they are distributed over lines
(line breaks, blank lines, several option groups on a line, a flag and its value on different lines): two
config files `f`, `f'` whose lines carry the same tokens give the same result, and that result is the one
of the command line with the tokens written out after all other arguments (file names included: files named
in a config file follow the files of the command line). -/
theorem C13_config_lines (T : Tables) (inputs : List String) (cfgs : List (String × List (List String)))
    (pre : List Item) (hwf : ∀ it ∈ pre, it.WF T) (f f' : String) (lines lines' : List (List String))
    (post : List String) (hT : T.configPrepass = "append")
    (hf : cfgs.lookup f = some lines) (hf' : cfgs.lookup f' = some lines')
    (hsame : configTokens lines = configTokens lines')
    (h1 : "--config" ∉ tokens pre) (h2 : "--config" ∉ post) (h3 : "--config" ∉ configTokens lines)
    (hrow : rowsOf T "--config" = [("--config", "", "pass")]) (h0 : "--config" ∉ T.arity0) :
    parseArgs T (ofLines inputs cfgs) (tokens pre ++ "--config" :: f :: post) =
      parseArgs T (ofLines inputs cfgs) (tokens pre ++ (post ++ configTokens lines)) ∧
    parseArgs T (ofLines inputs cfgs) (tokens pre ++ "--config" :: f' :: post) =
      parseArgs T (ofLines inputs cfgs) (tokens pre ++ "--config" :: f :: post) := by
  have e : (ofLines inputs cfgs).configs.lookup f = some (configTokens lines) := by
    simp only [ofLines]; rw [lookup_map_tokens, hf]; rfl
  have e' : (ofLines inputs cfgs).configs.lookup f' = some (configTokens lines') := by
    simp only [ofLines]; rw [lookup_map_tokens, hf']; rfl
  have a := C13_config_inline T (ofLines inputs cfgs) pre hwf f (configTokens lines) post hT e h1 h2 h3 hrow h0
  have b := C13_config_inline T (ofLines inputs cfgs) pre hwf f' (configTokens lines') post hT e' h1 h2
    (hsame ▸ h3) hrow h0
  exact ⟨a, by rw [b, a, hsame]⟩

/-- non-vacuity, with an input file name inside the config file: `k.cfg` holds `-l 1,2` / (blank) / `fb.txt`
on three lines, `j.cfg` holds `-l` / `1,2 fb.txt` on two; `verif fa.txt -m mae --config k.cfg -acc` -/
example := C13_config_lines Driver.Args.genTables ["fa.txt", "fb.txt"]
  [("k.cfg", [["-l", "1,2"], [], ["fb.txt"]]), ("j.cfg", [["-l"], ["1,2", "fb.txt"]])]
  [.file "fa.txt", .opt1 "-m" "mae"]
  (by intro it h
      simp only [List.mem_cons, List.not_mem_nil, or_false] at h
      rcases h with h | h <;> subst h <;> simp only [Item.WF] <;> decide)
  "k.cfg" "j.cfg" [["-l", "1,2"], [], ["fb.txt"]] [["-l"], ["1,2", "fb.txt"]] ["-acc"]
  (by decide) (by decide) (by decide) (by decide) (by decide) (by decide) (by decide) (by decide) (by decide)

end classes

end VerifModel.C13
