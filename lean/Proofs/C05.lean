import Proofs.GenEq.Det
import VerifModel.Model.DetMetrics
import VerifModel.Model.DetSingle
/-
  C05 — Deterministic scores equal their published definitions.
  The definition theorems (`Gen = textbook`, 17 metrics) are in Proofs/GenEq/Det.lean and are
  re-proved on every run.  Here: pair filtering, undefined ⇒ NaN, perfect scores, bounds.
-/
namespace VerifModel.C05
open VerifModel XR Spec.Det
set_option linter.unusedSimpArgs false

/-! ### only valid pairs enter a score -/

/-- A pair with a missing member is dropped: the score equals the score of the data with that
pair deleted (for every metric function `f`, i.e. all of them). -/
theorem C05_missing_pair_dropped (f : Vec → Vec → XR) (o o' g g' : Vec) (x y : XR)
    (hlen : o.length = g.length) (hxy : x.isNan = true ∨ y.isNan = true) :
    computeFromObsFcst f (o ++ x :: o') (g ++ y :: g') = computeFromObsFcst f (o ++ o') (g ++ g') := by
  have hz : validObsFcst (o ++ x :: o') (g ++ y :: g') = validObsFcst (o ++ o') (g ++ g') := by
    unfold validObsFcst
    rw [List.zip_append hlen, List.zip_append hlen, List.zip_cons_cons, List.filter_append,
      List.filter_append, List.filter_cons]
    rcases hxy with h | h <;> simp [h]
  unfold computeFromObsFcst
  rw [hz]

/-- no valid pair ⇒ NaN (never a number, never an exception in the model) -/
theorem C05_no_pairs_nan (f : Vec → Vec → XR) (obs fcst : Vec)
    (h : ∀ p ∈ obs.zip fcst, p.1.isNan = true ∨ p.2.isNan = true) :
    computeFromObsFcst f obs fcst = nan := by
  have : validObsFcst obs fcst = [] := by
    unfold validObsFcst
    rw [List.filter_eq_nil_iff]
    intro p hp
    rcases h p hp with h | h <;> simp [h]
  simp [computeFromObsFcst, this]

/-! ### perfect forecasts: fcst = obs attains the declared perfect score (or the score is undefined) -/

section perfect
variable (T : Tr) (hT : T.Lawful) (os : List Rat) (hne : os ≠ [])

theorem zipWith_sub_self (xs : List Rat) : List.zipWith (· - ·) xs xs = xs.map (fun _ => 0) := by
  induction xs with
  | nil => rfl
  | cons x xs ih => simp [ih]

theorem sum_zeros (xs : List Rat) : (xs.map (fun _ => (0 : Rat))).sum = 0 := by
  induction xs with
  | nil => rfl
  | cons x xs ih => simp [ih]

/-- aggregators that map an all-zero vector to zero (mean, median, min, max, sum, std, variance,
iqr, range, meanabs, absmean, quantiles, change, abschange — not count) -/
def ZeroPreserving (agg : Vec → XR) : Prop :=
  ∀ xs : List Rat, xs ≠ [] → agg (Vec.ofRats (xs.map fun _ => 0)) = fin 0

theorem mean_zeroPreserving : ZeroPreserving Vec.mean := by
  intro xs h
  rw [Vec.mean_ofRats _ (by simpa using h)]
  simp [sum_zeros]

include hne in
theorem C05_perfect_mae (agg : Vec → XR) (hagg : ZeroPreserving agg) : mae agg os os = fin 0 := by
  unfold mae err
  rw [zipWith_sub_self]
  have : (os.map (fun _ => (0 : Rat))).map rabs = os.map (fun _ => 0) := by simp [rabs]
  rw [this]; exact hagg os hne

include hne in
theorem C05_perfect_bias (agg : Vec → XR) (hagg : ZeroPreserving agg) : bias agg os os = fin 0 := by
  unfold bias
  rw [zipWith_sub_self]; exact hagg os hne

theorem C05_perfect_diff (agg : Vec → XR) (q : Rat) (hq : agg (fins os) = fin q) :
    diff agg os os = fin 0 := by
  simp [diff, hq]

theorem C05_perfect_ratio (agg : Vec → XR) (q : Rat) (hq : agg (fins os) = fin q) :
    ratio agg os os = nan ∨ ratio agg os os = fin 1 := by
  unfold ratio
  rw [hq]
  by_cases h : q = 0
  · left; simp [h]
  · right; simp [h, fin_div_ne q q h]

include hT hne in
theorem C05_perfect_rmse (agg : Vec → XR) (hagg : ZeroPreserving agg) : rmse T agg os os = fin 0 := by
  unfold rmse err
  rw [zipWith_sub_self]
  have : (os.map (fun _ => (0 : Rat))).map (fun e => e ^ 2) = os.map (fun _ => 0) := by simp
  rw [this, hagg os hne]
  simp [Tr.sqrt_fin, hT.sqrt_zero]

include hT hne in
theorem C05_perfect_cmae (agg : Vec → XR) (hagg : ZeroPreserving agg) : cmae T agg os os = fin 0 := by
  unfold cmae
  have : List.zipWith (fun o f => rabs (o ^ 3 - f ^ 3)) os os = os.map (fun _ => 0) := by
    induction os with
    | nil => rfl
    | cons x xs ih => simp [rabs]
  rw [this, hagg os hne]
  simp [Tr.cbrt, hT.cbrt_zero]

include hT in
theorem C05_perfect_stderror : stderror T os os = fin 0 := by
  unfold stderror Spec.Det.var err
  rw [zipWith_sub_self]
  simp [Spec.Det.mean, sum_zeros, Tr.sqrt_fin, hT.sqrt_zero]

theorem C05_perfect_nsec : nsec os os = nan ∨ nsec os os = fin 1 := by
  unfold nsec
  have : List.zipWith (fun f o => (f - o) ^ 2) os os = os.map (fun _ => 0) := by
    induction os with
    | nil => rfl
    | cons x xs ih => simp
  simp only [this, sum_zeros]
  split_ifs
  · left; rfl
  · right; simp

theorem C05_perfect_nnsec : nnsec os os = nan ∨ nnsec os os = fin 1 := by
  unfold nnsec
  have : List.zipWith (fun f o => (f - o) ^ 2) os os = os.map (fun _ => 0) := by
    induction os with
    | nil => rfl
    | cons x xs ih => simp
  simp only [this, sum_zeros]
  split_ifs
  · left; rfl
  · right; norm_num

theorem C05_perfect_alphaindex : alphaindex os os = nan ∨ alphaindex os os = fin 0 := by
  unfold alphaindex
  have : List.zipWith (fun f o => (f - o - Spec.Det.mean os + Spec.Det.mean os) ^ 2) os os
      = os.map (fun _ => 0) := by
    induction os with
    | nil => rfl
    | cons x xs ih => simp
  simp only [this, sum_zeros]
  split_ifs
  · left; rfl
  · right; simp

theorem C05_perfect_dmb : dmb os os = nan ∨ dmb os os = fin 1 := by
  unfold dmb
  by_cases h : Spec.Det.mean os = 0
  · left; simp [h, fin_div, infOfSign]
  · right; simp [fin_div_ne _ _ h, h]

theorem C05_perfect_mbias : mbias os os = nan ∨ mbias os os = fin 1 := by
  unfold mbias
  by_cases h : Spec.Det.mean os = 0
  · left; simp [h]
  · right; simp [h]

theorem C05_perfect_derror : derror os os = fin 0 := by
  unfold derror
  rw [zipWith_sub_self]
  simp [Spec.Det.mean, rabs, sum_zeros]

end perfect

/-! ### no forecast scores better than the perfect score -/

theorem sum_nonneg_of_all {xs : List Rat} (h : ∀ x ∈ xs, 0 ≤ x) : 0 ≤ xs.sum := List.sum_nonneg h

theorem rabs_nonneg (x : Rat) : 0 ≤ rabs x := by
  rw [GenEq.Det.rabs_eq]; exact abs_nonneg x

/-- MAE (mean aggregator) is ≥ 0 = its perfect score -/
theorem C05_bound_mae (os fs : List Rat) (hne : err os fs ≠ []) :
    ∃ q : Rat, mae Vec.mean os fs = fin q ∧ 0 ≤ q := by
  unfold mae
  rw [Vec.mean_ofRats _ (by simpa using hne)]
  refine ⟨_, rfl, ?_⟩
  apply div_nonneg
  · apply sum_nonneg_of_all
    intro x hx
    simp only [List.mem_map] at hx
    obtain ⟨y, _, rfl⟩ := hx
    exact rabs_nonneg y
  · positivity

/-- RMSE (mean aggregator) and the standard error are ≥ 0 for every lawful `Tr` -/
theorem C05_bound_rmse (T : Tr) (hT : T.Lawful) (os fs : List Rat) (hne : err os fs ≠ []) :
    ∃ q : Rat, rmse T Vec.mean os fs = fin q ∧ 0 ≤ q := by
  unfold rmse
  rw [Vec.mean_ofRats _ (by simpa using hne)]
  have h0 : 0 ≤ ((err os fs).map fun e => e ^ 2).sum / (((err os fs).map fun e => e ^ 2).length : Rat) := by
    apply div_nonneg
    · apply sum_nonneg_of_all
      intro x hx
      simp only [List.mem_map] at hx
      obtain ⟨y, _, rfl⟩ := hx
      positivity
    · positivity
  rw [Tr.sqrt_fin]
  simp only [not_lt.mpr h0, if_false]
  exact ⟨_, rfl, hT.sqrt_nonneg _ h0⟩

theorem var_nonneg (xs : List Rat) : 0 ≤ Spec.Det.var xs := by
  unfold Spec.Det.var Spec.Det.mean
  apply div_nonneg
  · apply sum_nonneg_of_all
    intro x hx
    simp only [List.mem_map] at hx
    obtain ⟨y, _, rfl⟩ := hx
    exact mul_self_nonneg _
  · positivity

theorem C05_bound_stderror (T : Tr) (hT : T.Lawful) (os fs : List Rat) :
    ∃ q : Rat, stderror T os fs = fin q ∧ 0 ≤ q := by
  unfold stderror
  rw [Tr.sqrt_fin]
  have h0 := var_nonneg (err os fs)
  simp only [not_lt.mpr h0, if_false]
  exact ⟨_, rfl, hT.sqrt_nonneg _ h0⟩

/-- NSE ≤ 1 wherever it is defined -/
theorem C05_bound_nsec (os fs : List Rat) :
    nsec os fs = nan ∨ ∃ q : Rat, nsec os fs = fin q ∧ q ≤ 1 := by
  unfold nsec
  simp only
  split_ifs with h
  · left; rfl
  · right
    refine ⟨_, rfl, ?_⟩
    have hnum := GenEq.Det.sum_zipWith_sq_nonneg fs os
    have hden := GenEq.Det.sum_map_sq_nonneg os (Spec.Det.mean os)
    have : 0 ≤ (List.zipWith (fun f o => (f - o) ^ 2) fs os).sum /
        (List.map (fun o => (o - Spec.Det.mean os) ^ 2) os).sum := div_nonneg hnum hden
    linarith

/-- the alpha index is ≥ 0 = its perfect score wherever it is defined -/
theorem C05_bound_alphaindex (os fs : List Rat) :
    alphaindex os fs = nan ∨ ∃ q : Rat, alphaindex os fs = fin q ∧ 0 ≤ q := by
  unfold alphaindex
  simp only
  split_ifs with h
  · left; rfl
  · right
    refine ⟨_, rfl, ?_⟩
    apply div_nonneg
    · apply sum_nonneg_of_all
      intro x hx
      obtain ⟨i, hi, rfl⟩ := List.getElem_of_mem hx
      simp only [List.getElem_zipWith]; positivity
    · apply sum_nonneg_of_all
      intro x hx
      obtain ⟨i, hi, rfl⟩ := List.getElem_of_mem hx
      simp only [List.getElem_zipWith]; positivity

/-- The declared class attributes (regenerated from metric.py each run) are the documented
perfect scores used above. -/
theorem C05_declared_perfect :
    Gen.Det.perfect "mae" = some (fin 0) ∧ Gen.Det.perfect "bias" = some (fin 0)
    ∧ Gen.Det.perfect "diff" = some (fin 0) ∧ Gen.Det.perfect "ratio" = some (fin 1)
    ∧ Gen.Det.perfect "rmse" = some (fin 0) ∧ Gen.Det.perfect "cmae" = some (fin 0)
    ∧ Gen.Det.perfect "stderror" = some (fin 0) ∧ Gen.Det.perfect "nsec" = some (fin 1)
    ∧ Gen.Det.perfect "nnsec" = some (fin 1) ∧ Gen.Det.perfect "alphaindex" = some (fin 0)
    ∧ Gen.Det.perfect "dmb" = some (fin 1) ∧ Gen.Det.perfect "mbias" = some (fin 1)
    ∧ Gen.Det.perfect "derror" = some (fin 0) ∧ Gen.Det.perfect "rmsf" = some (fin 1)
    ∧ Gen.Det.perfect "corr" = some (fin 1) ∧ Gen.Det.perfect "rankcorr" = some (fin 1)
    ∧ Gen.Det.perfect "kendallcorr" = some (fin 1) ∧ Gen.Det.perfect "kge" = some (fin 1)
    ∧ Gen.Det.perfect "leps" = some (fin 0) := by
  decide +kernel

/-- non-vacuity: concrete data on which the scores are defined -/
example : nsec [1, 2, 4] [1, 3, 3] = fin (1 - 2 / (14 / 3)) ∧ alphaindex [1, 2, 4] [1, 2, 4] = fin 0 := by
  constructor <;> decide +kernel

/-! ### conditional axes (-x obs, -x fcst): which cases a metric sees -/

/-- `np.where(interval.within(x))` selection: the values of `v` at the positions whose companion
value lies in the interval; a missing companion selects nothing. -/
theorem C05_selectWithin (I : Interval) (by_ v : Vec) :
    selectWithin I by_ v = ((List.zip by_ v).filter fun p => I.within p.1 = some true).map (·.2) := by
  unfold selectWithin
  induction List.zip by_ v with
  | nil => rfl
  | cons p ps ih =>
    simp only [List.filterMap_cons, List.filter_cons]
    by_cases h : I.within p.1 = some true <;> simp [h, ih]

/-- `-m obs -x fcst` (FromField), for EVERY aggregator (`r` = it raises on an empty array, as np.min
and np.max do): the aggregate is taken over the OBSERVATIONS of the cases where observation and
forecast are both present and the FORECAST lies in the interval; when no case is selected and the
aggregator has no value for an empty array, the score is NaN. -/
theorem C05_fromfield_obs_by_fcst (agg : Vec → XR) (r : Bool) (I : Interval) (obs fcst o g : Vec)
    (h : getCols [obs, fcst] = [o, g]) :
    fromFieldSingle agg r true .fcst I obs fcst
      = (let sel := ((List.zip g o).filter fun p => I.within p.1 = some true).map (·.2)
         if sel.isEmpty && r then nan else agg sel) := by
  simp only [fromFieldSingle, if_true, Bool.false_eq_true, if_false, h]
  rw [C05_selectWithin]

/-- `-m fcst -x obs`: forecasts of the cases whose observation lies in the interval. -/
theorem C05_fromfield_fcst_by_obs (agg : Vec → XR) (r : Bool) (I : Interval) (obs fcst g o : Vec)
    (h : getCols [fcst, obs] = [g, o]) :
    fromFieldSingle agg r false .obs I obs fcst
      = (let sel := ((List.zip o g).filter fun p => I.within p.1 = some true).map (·.2)
         if sel.isEmpty && r then nan else agg sel) := by
  simp only [fromFieldSingle, if_true, Bool.false_eq_true, if_false, h]
  rw [C05_selectWithin]

/-- a bin without cases under an aggregator that has no value for an empty array (min, max): NaN,
for both metrics and both conditional axes -/
theorem C05_fromfield_empty_bin (agg : Vec → XR) (isObs : Bool) (ax : CondAxis) (I : Interval) (obs fcst : Vec)
    (hax : ax ≠ .none) (hI : ∀ x, I.within x ≠ some true) :
    fromFieldSingle agg true isObs ax I obs fcst = nan := by
  have hs : ∀ b v, selectWithin I b v = [] := by
    intro b v
    simp [C05_selectWithin, hI]
  cases ax <;> cases isObs <;> simp_all [fromFieldSingle] <;> split <;> simp [hs]

/-- the recorded witness (`single fcst min fcst 1/2:1:1:0 3/2,3,0 0,9/2,nan`: no forecast in [1/2, 1)),
which used to end in ValueError, is NaN -/
example : fromFieldSingle Vec.minimum true false .fcst ⟨fin (1/2), fin 1, true, false⟩
    [fin (3/2), fin 3, fin 0] [fin 0, fin (9/2), nan] = nan := by
  decide +kernel

/-- obs/fcst-based metrics under `-x obs`: the metric of the valid pairs whose observation lies in
the interval (both members restricted by the same selection). -/
theorem C05_obsfcst_by_obs (f : Vec → Vec → XR) (I : Interval) (obs fcst o g : Vec)
    (h : getCols [obs, fcst] = [o, g]) :
    obsFcstSingle f .obs I obs fcst
      = computeFromObsFcst f (((List.zip o o).filter fun p => I.within p.1 = some true).map (·.2))
          (((List.zip o g).filter fun p => I.within p.1 = some true).map (·.2)) := by
  simp [obsFcstSingle, h, C05_selectWithin]

end VerifModel.C05
