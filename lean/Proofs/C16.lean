import VerifModel.Model.Diagram
import VerifModel.Spec.Diagram
import Proofs.Lemmas.XR
import Proofs.C07
import Proofs.C15
import Proofs.GenEq.Cont
import Proofs.GenEq.Det
import Proofs.C06
import Proofs.Lemmas.Vec
import Mathlib.Data.List.Sort
import Mathlib.Tactic.Ring
import Mathlib.Tactic.Linarith
/-
  C16 — Diagrams draw the quantities their definitions prescribe.
  Model = VerifModel/Model/Diagram.lean (what output.py computes for the drawn series),
  Spec  = VerifModel/Spec/Diagram.lean (the defining statistics, on rational samples).
  Property theorems only (helper lemmas are private).
-/
namespace VerifModel.C16
open VerifModel XR
open VerifModel.Diagram
open VerifModel.Spec
open VerifModel.Spec.Diagram (Conv edgePairsL edgePairsF inBin binCount binCountF StrictInc lastOf)
set_option linter.unusedSimpArgs false
set_option linter.unusedVariables false

/-! ## 0. helpers -/

def toXR : Option Rat → XR := Cont.toXR

private theorem foldl_add_fin (v : List Rat) (a : Rat) :
    List.foldl (· + ·) (fin a) (List.map fin v) = fin (a + Stats.sum v) := by
  induction v generalizing a with
  | nil => simp [Stats.sum]
  | cons x xs ih =>
    simp only [List.map_cons, List.foldl_cons, fin_add, ih, Stats.sum]
    congr 1; ring

private theorem mean_fin (v : List Rat) : Vec.mean (List.map fin v) = toXR (Stats.mean v) := by
  unfold Vec.mean Stats.mean Vec.sum Vec.len
  rw [foldl_add_fin]
  by_cases h : v.length = 0
  · have : v = [] := List.length_eq_zero_iff.mp h
    subst this
    simp [toXR, Cont.toXR, Stats.sum, fin_div, infOfSign, XR.ofNat]
  · have h' : (v.length : Rat) ≠ 0 := by exact_mod_cast h
    simp [h, toXR, Cont.toXR, XR.ofNat, fin_div_ne _ _ h']

private theorem pairs_fin (edges : List Rat) :
    pairs (edges.map fin) = (edgePairsL edges).map fun e => (fin e.1, fin e.2.1) := by
  induction edges with
  | nil => rfl
  | cons a rest ih =>
    cases rest with
    | nil => rfl
    | cons b rest =>
      cases rest with
      | nil => rfl
      | cons c rest => simpa [pairs, edgePairsL] using ih

private theorem histPairs_fin (edges : List Rat) :
    histPairs (edges.map fin) = (edgePairsL edges).map fun e => (fin e.1, fin e.2.1, e.2.2) := by
  induction edges with
  | nil => rfl
  | cons a rest ih =>
    cases rest with
    | nil => rfl
    | cons b rest =>
      cases rest with
      | nil => rfl
      | cons c rest => simpa [histPairs, edgePairsL] using ih

private theorem memHO_fin (e : Rat × Rat × Bool) (x : Rat) :
    memHO (fin e.1) (fin e.2.1) (fin x) = inBin .ho e x := by
  simp [memHO, inBin, XR.ge, XR.le, XR.lt, Bool.decide_and]

private theorem memHist_fin (e : Rat × Rat × Bool) (x : Rat) :
    memHist (fin e.1, fin e.2.1, e.2.2) (fin x) = inBin .hist e x := by
  rcases e with ⟨lo, hi, l⟩
  cases l <;> simp [memHist, inBin, XR.ge, XR.le, XR.lt, Bool.decide_and] <;> grind

private theorem memOCF_fin (e : Rat × Rat × Bool) (x : Rat) :
    memOCF (fin e.1, fin e.2.1, e.2.2) (fin x) = inBin .ocf e x := by
  rcases e with ⟨lo, hi, l⟩
  cases l <;> simp [memOCF, inBin, XR.ge, XR.gt, XR.le, XR.lt, Bool.decide_and] <;> grind

private theorem firstPairs_fin (edges : List Rat) :
    firstPairs (edges.map fin) = (edgePairsF edges).map fun e => (fin e.1, fin e.2.1, e.2.2) := by
  cases edges with
  | nil => rfl
  | cons a rest =>
    cases rest with
    | nil => rfl
    | cons b rest =>
      have h := histPairs_fin (b :: rest)
      simp only [List.map_cons] at h
      simp only [List.map_cons, firstPairs, edgePairsF, h, List.map_map, Function.comp_def]

/-! ## 1. Every value of the binned range falls in exactly one bin -/

private theorem le_last (a : Rat) (rest : List Rat) (h : StrictInc (a :: rest)) : a ≤ lastOf a rest := by
  induction rest generalizing a with
  | nil => simp [lastOf]
  | cons b rest ih =>
    simp only [StrictInc] at h
    have := ih b h.2
    simp only [lastOf]
    linarith [h.1]

private theorem binCount_cons (cv : Conv) (a b c : Rat) (rest : List Rat) (x : Rat) :
    binCount cv (a :: b :: c :: rest) x =
      (if inBin cv (a, b, false) x then 1 else 0) + binCount cv (b :: c :: rest) x := by
  simp only [binCount, edgePairsL, List.filter_cons]
  split <;> simp [Nat.add_comm]

/-- half-open bins [e_i, e_{i+1}): a value lies in exactly one bin iff first ≤ x < last -/
theorem C16_partition_ho (a : Rat) (rest : List Rat) (h : StrictInc (a :: rest)) (x : Rat) :
    binCount .ho (a :: rest) x = if a ≤ x ∧ x < lastOf a rest then 1 else 0 := by
  induction rest generalizing a with
  | nil =>
    have : ¬ (a ≤ x ∧ x < a) := by intro h; linarith [h.1, h.2]
    simp [binCount, edgePairsL, lastOf, this]
  | cons b rest ih =>
    simp only [StrictInc] at h
    have hb := ih b h.2
    have hl := le_last b rest h.2
    cases rest with
    | nil =>
      simp only [binCount, edgePairsL, lastOf, List.filter_cons, inBin, List.filter_nil]
      by_cases h1 : a ≤ x <;> by_cases h2 : x < b <;> simp [h1, h2]
    | cons c rest =>
      rw [binCount_cons, hb]
      simp only [inBin, lastOf] at hl ⊢
      by_cases h1 : a ≤ x <;> by_cases h2 : x < b <;> by_cases h3 : b ≤ x <;>
        by_cases h4 : x < lastOf c rest <;> simp [h1, h2, h3, h4] <;> linarith [h.1]

/-- bins (e_i, e_{i+1}]: exactly one bin iff first < x ≤ last -/
theorem C16_partition_oc (a : Rat) (rest : List Rat) (h : StrictInc (a :: rest)) (x : Rat) :
    binCount .oc (a :: rest) x = if a < x ∧ x ≤ lastOf a rest then 1 else 0 := by
  induction rest generalizing a with
  | nil =>
    have : ¬ (a < x ∧ x ≤ a) := by intro h; linarith [h.1, h.2]
    simp [binCount, edgePairsL, lastOf, this]
  | cons b rest ih =>
    simp only [StrictInc] at h
    have hb := ih b h.2
    have hl := le_last b rest h.2
    cases rest with
    | nil =>
      simp only [binCount, edgePairsL, lastOf, List.filter_cons, inBin, List.filter_nil]
      by_cases h1 : a < x <;> by_cases h2 : x ≤ b <;> simp [h1, h2]
    | cons c rest =>
      rw [binCount_cons, hb]
      simp only [inBin, lastOf] at hl ⊢
      by_cases h1 : a < x <;> by_cases h2 : x ≤ b <;> by_cases h3 : b < x <;>
        by_cases h4 : x ≤ lastOf c rest <;> simp [h1, h2, h3, h4] <;> linarith [h.1]

/-- np.histogram's bins (half-open, last one closed): exactly one bin iff first ≤ x ≤ last -/
theorem C16_partition_hist (a b : Rat) (rest : List Rat) (h : StrictInc (a :: b :: rest)) (x : Rat) :
    binCount .hist (a :: b :: rest) x = if a ≤ x ∧ x ≤ lastOf b rest then 1 else 0 := by
  induction rest generalizing a b with
  | nil =>
    simp only [binCount, edgePairsL, lastOf, List.filter_cons, inBin, List.filter_nil]
    simp only [StrictInc] at h
    by_cases h1 : a ≤ x <;> by_cases h2 : x < b <;> by_cases h3 : x = b <;> simp [h1, h2, h3] <;>
      first
        | (split <;> rfl)
        | linarith [h.1]
        | exact lt_of_le_of_ne (not_lt.mp h2) (Ne.symm h3)
  | cons c rest ih =>
    simp only [StrictInc] at h
    have hb := ih b c ⟨h.2.1, h.2.2⟩
    have hl := le_last c rest h.2.2
    rw [binCount_cons, hb]
    simp only [inBin, lastOf] at hl ⊢
    by_cases h1 : a ≤ x <;> by_cases h2 : x < b <;> by_cases h3 : b ≤ x <;>
      by_cases h4 : x ≤ lastOf c rest <;> simp [h1, h2, h3, h4] <;> linarith [h.1, h.2.1]


/-- bins (e_i, e_{i+1}] with the first one closed on the left: exactly one bin iff first ≤ x ≤ last -/
theorem C16_partition_ocf (a b : Rat) (rest : List Rat) (h : StrictInc (a :: b :: rest)) (x : Rat) :
    binCountF .ocf (a :: b :: rest) x = if a ≤ x ∧ x ≤ lastOf b rest then 1 else 0 := by
  simp only [StrictInc] at h
  have hl := le_last b rest h.2
  have hb := C16_partition_oc b rest h.2 x
  have hrest : (((edgePairsL (b :: rest)).map fun e => ((e.1, e.2.1, false) : Rat × Rat × Bool)).filter
      fun e => inBin .ocf e x).length = binCount .oc (b :: rest) x := by
    rw [List.filter_map, List.length_map]
    unfold binCount
    congr 1; apply List.filter_congr; intro e _; simp [inBin]
  have key : binCountF .ocf (a :: b :: rest) x =
      (if inBin .ocf (a, b, true) x then 1 else 0) + binCount .oc (b :: rest) x := by
    unfold binCountF
    simp only [edgePairsF, List.filter_cons]
    split <;> simp [hrest, Nat.add_comm]
  rw [key, hb]
  simp only [inBin]
  have hab := h.1
  simp only [inBin, decide_eq_true_eq]
  grind

/-! ### the model's bins are the Spec's bins -/

private theorem count_ho (edges : List Rat) (x : Rat) :
    ((pairs (edges.map fin)).filter fun e => memHO e.1 e.2 (fin x)).length = binCount .ho edges x := by
  rw [pairs_fin, List.filter_map, List.length_map]
  unfold binCount
  congr 1; apply List.filter_congr; intro e _; simp [memHO_fin]

private theorem count_hist (edges : List Rat) (x : Rat) :
    ((histPairs (edges.map fin)).filter fun e => memHist e (fin x)).length = binCount .hist edges x := by
  rw [histPairs_fin, List.filter_map, List.length_map]
  unfold binCount
  congr 1; apply List.filter_congr; intro e _; simp [memHist_fin]

private theorem count_ocf (edges : List Rat) (x : Rat) :
    ((firstPairs (edges.map fin)).filter fun e => memOCF e (fin x)).length = binCountF .ocf edges x := by
  rw [firstPairs_fin, List.filter_map, List.length_map]
  unfold binCountF
  congr 1; apply List.filter_congr; intro e _; simp [memOCF_fin]

/-- the number of model bins that hold a given case is the number of edge pairs whose test it passes -/
private theorem binsLast_count {α : Type} (edges : List XR)
    (key : α → XR) (cs : List α) (c : α) [∀ b : List α, Decidable (c ∈ b)] (hc : c ∈ cs) :
    ((binsLast edges key cs).filter fun bn => decide (c ∈ bn)).length =
      ((histPairs edges).filter fun e => memHist e (key c)).length := by
  unfold binsLast
  rw [List.filter_map, List.length_map]
  congr 1; apply List.filter_congr; intro e _; simp [List.mem_filter, hc]

private theorem binsFirst_count {α : Type} (edges : List XR)
    (key : α → XR) (cs : List α) (c : α) [∀ b : List α, Decidable (c ∈ b)] (hc : c ∈ cs) :
    ((binsFirst edges key cs).filter fun bn => decide (c ∈ bn)).length =
      ((firstPairs edges).filter fun e => memOCF e (key c)).length := by
  unfold binsFirst
  rw [List.filter_map, List.length_map]
  congr 1; apply List.filter_congr; intro e _; simp [List.mem_filter, hc]

/-- Half-open binning `e_i ≤ v < e_{i+1}` with the LAST bin closed on the right (Reliability,
InvReliability, IgnContrib, Scatter quantiles, util.bin, as the code has it): EVERY case whose value v
lies in the binned range first ≤ v ≤ last is in exactly one bin (full statement; before the last bin was
closed, v = last edge — e.g. a forecast probability of exactly 1 — was in no bin). -/
theorem C16_bins_partition_last {α : Type} (key : α → XR) (a b : Rat) (rest : List Rat)
    (h : StrictInc (a :: b :: rest)) (cs : List α) (c : α) [∀ b : List α, Decidable (c ∈ b)] (hc : c ∈ cs)
    (x : Rat) (hx : key c = fin x) (hlo : a ≤ x) (hhi : x ≤ lastOf b rest) :
    ((binsLast ((a :: b :: rest).map fin) key cs).filter fun bn => decide (c ∈ bn)).length = 1 := by
  rw [binsLast_count _ _ _ _ hc, hx, count_hist, C16_partition_hist a b rest h]
  simp [hlo, hhi]

/-- … and a case with value outside [first, last] is in no bin. -/
theorem C16_bins_last_outside {α : Type} (key : α → XR) (a b : Rat) (rest : List Rat)
    (h : StrictInc (a :: b :: rest)) (cs : List α) (c : α) [∀ b : List α, Decidable (c ∈ b)] (hc : c ∈ cs)
    (x : Rat) (hx : key c = fin x) (hout : x < a ∨ lastOf b rest < x) :
    ((binsLast ((a :: b :: rest).map fin) key cs).filter fun bn => decide (c ∈ bn)).length = 0 := by
  rw [binsLast_count _ _ _ _ hc, hx, count_hist, C16_partition_hist a b rest h]
  have : ¬ (a ≤ x ∧ x ≤ lastOf b rest) := by
    intro hh; rcases hout with h1 | h1 <;> linarith [hh.1, hh.2]
  simp [this]

/-- Reliability: the bins of `reliabilitySeries` (cases = (observed 0/1, probability)). -/
theorem C16_bins_partition_reliability (a b : Rat) (rest : List Rat) (h : StrictInc (a :: b :: rest))
    (cs : List (XR × XR)) (c : XR × XR) (hc : c ∈ cs) (p : Rat) (hp : c.2 = fin p)
    (hlo : a ≤ p) (hhi : p ≤ lastOf b rest) :
    ((binsLast ((a :: b :: rest).map fin) (·.2) cs).filter fun bn => decide (c ∈ bn)).length = 1 :=
  C16_bins_partition_last (·.2) a b rest h cs c hc p hp hlo hhi

/-- InvReliability uses the same bins, on the forecast quantile value. -/
theorem C16_bins_partition_invreliability (a b : Rat) (rest : List Rat) (h : StrictInc (a :: b :: rest))
    (obs q : Vec) (c : XR × XR) (hc : c ∈ invrelCases obs q) (v : Rat) (hv : c.2 = fin v)
    (hlo : a ≤ v) (hhi : v ≤ lastOf b rest) :
    ((binsLast ((a :: b :: rest).map fin) (·.2) (invrelCases obs q)).filter fun bn => decide (c ∈ bn)).length = 1 :=
  C16_bins_partition_last (·.2) a b rest h _ c hc v hv hlo hhi

/-- IgnContrib-style binning (N equal bins on [0,1], the same comparison) and the conditional
quantiles of Scatter (bins on the forecast). -/
theorem C16_bins_partition_igncontrib (a b : Rat) (rest : List Rat) (h : StrictInc (a :: b :: rest))
    (cs : List (XR × XR)) (c : XR × XR) (hc : c ∈ cs) (p : Rat) (hp : c.2 = fin p)
    (hlo : a ≤ p) (hhi : p ≤ lastOf b rest) :
    ((binsLast ((a :: b :: rest).map fin) (·.2) cs).filter fun bn => decide (c ∈ bn)).length = 1 :=
  C16_bins_partition_last (·.2) a b rest h cs c hc p hp hlo hhi

theorem C16_bins_partition_scatter (a b : Rat) (rest : List Rat) (h : StrictInc (a :: b :: rest))
    (obs fcst : Vec) (c : XR × XR) (hc : c ∈ obs.zip fcst) (f : Rat) (hf : c.2 = fin f)
    (hlo : a ≤ f) (hhi : f ≤ lastOf b rest) :
    ((binsLast ((a :: b :: rest).map fin) (·.2) (obs.zip fcst)).filter fun bn => decide (c ∈ bn)).length = 1 :=
  C16_bins_partition_last (·.2) a b rest h _ c hc f hf hlo hhi

/-- `util.bin` bins on x. -/
theorem C16_bins_partition_utilbin (a b : Rat) (rest : List Rat) (h : StrictInc (a :: b :: rest))
    (x y : Vec) (c : XR × XR) (hc : c ∈ x.zip y) (v : Rat) (hv : c.1 = fin v)
    (hlo : a ≤ v) (hhi : v ≤ lastOf b rest) :
    ((binsLast ((a :: b :: rest).map fin) (·.1) (x.zip y)).filter fun bn => decide (c ∈ bn)).length = 1 :=
  C16_bins_partition_last (·.1) a b rest h _ c hc v hv hlo hhi

/-- Discrimination tests each probability against every edge pair with the same comparison. -/
theorem C16_bins_partition_discrimination (a b : Rat) (rest : List Rat) (h : StrictInc (a :: b :: rest))
    (p : Rat) (hlo : a ≤ p) (hhi : p ≤ lastOf b rest) :
    ((histPairs ((a :: b :: rest).map fin)).filter fun e => memHist e (fin p)).length = 1 := by
  rw [count_hist, C16_partition_hist a b rest h]; simp [hlo, hhi]

/-- BsDecomp (BsRel/BsRes): plain half-open bins, but the last edge is 1.001, so EVERY probability in
[0, 1] is in exactly one bin — the full statement holds here too. -/
theorem C16_bins_partition_bsdecomp (p : Rat) (h0 : 0 ≤ p) (h1 : p ≤ 1) :
    ((pairs bsEdges).filter fun e => memHO e.1 e.2 (fin p)).length = 1 := by
  have he : bsEdges = ([0, 1/10, 2/10, 3/10, 4/10, 5/10, 6/10, 7/10, 8/10, 9/10, 1001/1000] : List Rat).map fin := by
    decide +kernel
  rw [he, count_ho, C16_partition_ho]
  · have : p < lastOf (0 : Rat) [1/10, 2/10, 3/10, 4/10, 5/10, 6/10, 7/10, 8/10, 9/10, 1001/1000] := by
      simp only [lastOf]; linarith
    rw [if_pos ⟨h0, this⟩]
  · simp only [StrictInc]; norm_num

/-- Bins `e_{i-1} < v ≤ e_i` with the FIRST bin closed on the left (SpreadSkill; Change bins the same
way): EVERY value with first ≤ v ≤ last is in exactly one bin (full statement; before the first bin was
closed, a value equal to the first edge was in no bin). -/
theorem C16_bins_partition_first {α : Type} (key : α → XR) (a b : Rat) (rest : List Rat)
    (h : StrictInc (a :: b :: rest)) (cs : List α) (c : α) [∀ b : List α, Decidable (c ∈ b)] (hc : c ∈ cs)
    (x : Rat) (hx : key c = fin x) (hlo : a ≤ x) (hhi : x ≤ lastOf b rest) :
    ((binsFirst ((a :: b :: rest).map fin) key cs).filter fun bn => decide (c ∈ bn)).length = 1 := by
  rw [binsFirst_count _ _ _ _ hc, hx, count_ocf, C16_partition_ocf a b rest h]
  simp [hlo, hhi]

/-- SpreadSkill: cases = (spread, squared error), binned on the spread. -/
theorem C16_bins_partition_spreadskill (a b : Rat) (rest : List Rat) (h : StrictInc (a :: b :: rest))
    (cs : List (XR × XR)) (c : XR × XR) (hc : c ∈ cs) (s : Rat) (hs : c.1 = fin s)
    (hlo : a ≤ s) (hhi : s ≤ lastOf b rest) :
    ((binsFirst ((a :: b :: rest).map fin) (·.1) cs).filter fun bn => decide (c ∈ bn)).length = 1 :=
  C16_bins_partition_first (·.1) a b rest h cs c hc s hs hlo hhi

/-- PitHist (np.histogram): EVERY PIT value of [first, last] is in exactly one bin (full statement). -/
theorem C16_bins_partition_pithist (a b : Rat) (rest : List Rat) (h : StrictInc (a :: b :: rest))
    (x : Rat) (hlo : a ≤ x) (hhi : x ≤ lastOf b rest) :
    ((histPairs ((a :: b :: rest).map fin)).filter fun e => memHist e (fin x)).length = 1 := by
  rw [count_hist, C16_partition_hist a b rest h]; simp [hlo, hhi]

/-- Hist / Freq / Cond with the default `-b within=`: the intervals of `get_intervals` partition
(first, last] — the documented meaning of `within=` (C07). -/
theorem C16_bins_partition_hist (a : Rat) (rest : List Rat) (h : C07.StrictInc (a :: rest)) (x : Rat) :
    ((getIntervals .withinEq (some ((a :: rest).map fin))).filter fun I => I.withinVal (fin x)).length =
      if a < x ∧ x ≤ C07.lastOf a rest then 1 else 0 := by
  have hm := C07.C07_withinEq_model (a :: rest) x
  rw [C07.C07_withinEq_partition a rest h x] at hm
  rw [← hm]
  congr 1; apply List.filter_congr; intro I _
  simp [Interval.within, XR.isNan]

/-! ### formerly lost cases: a value equal to the end of the range is now in exactly one bin -/

/-- Reliability, default edges: a forecast probability of exactly 1 is in the last bin. -/
example : ((histPairs reliabilityDefaultEdges).filter fun e => memHist e (fin 1)).length = 1 := by decide +kernel

/-- Discrimination / IgnContrib / util.bin with edges 0, 0.1, …, 1: likewise. -/
example : ((histPairs tenths).filter fun e => memHist e (fin 1)).length = 1 := by decide +kernel

/-- the drawn reliability counts keep the case with p = 1: 3 valid cases, counts sum to 3 -/
example :
    natSum ((reliabilitySeries 5 reliabilityDefaultEdges [(fin 1, fin 1), (fin 0, fin (1/2)), (fin 1, fin (7/8))]).map (·.2.2)) = 3 := by
  decide +kernel

/-- util.bin with edges 0, 1/2, 1 and x = 1/4, 1, 1/2, 1: the two values equal to the last edge are counted -/
example : (utilBin (([0, 1/2, 1] : List Rat).map fin) (([1/4, 1, 1/2, 1] : List Rat).map fin)
    (([1, 2, 3, 0] : List Rat).map fin)).2.2 = [1, 3] := by decide +kernel

/-- SpreadSkill with thresholds 0, 1, 2: a spread of exactly 0 is in the first bin. -/
example : ((firstPairs (([0, 1, 2] : List Rat).map fin)).filter fun e => memOCF e (fin 0)).length = 1 := by decide +kernel


/-! ## 2. Bin counts add up to the number of cases in the binned range -/

private theorem natSum_cons (n : Nat) (l : List Nat) : natSum (n :: l) = n + natSum l := rfl

private theorem natSum_add {β : Type} (bs : List β) (f g : β → Nat) :
    natSum (bs.map fun b => f b + g b) = natSum (bs.map f) + natSum (bs.map g) := by
  induction bs with
  | nil => rfl
  | cons b bs ih => simp only [List.map_cons, natSum_cons, ih]; omega

private theorem natSum_ite {β : Type} (bs : List β) (q : β → Bool) :
    natSum (bs.map fun b => if q b then 1 else 0) = (bs.filter q).length := by
  induction bs with
  | nil => rfl
  | cons b bs ih =>
    simp only [List.map_cons, natSum_cons, ih, List.filter_cons]
    cases q b <;> simp <;> omega

/-- counting the pairs (bin, case) by bins or by cases gives the same number -/
private theorem double_count {α β : Type} (bs : List β) (cs : List α) (p : β → α → Bool) :
    natSum (bs.map fun b => (cs.filter (p b)).length) =
      natSum (cs.map fun c => (bs.filter fun b => p b c).length) := by
  induction cs with
  | nil =>
    simp only [List.filter_nil, List.length_nil, List.map_nil]
    induction bs with
    | nil => rfl
    | cons b bs ih => simp only [List.map_cons, natSum_cons, ih]; rfl
  | cons c cs ih =>
    have h1 : ∀ b, ((c :: cs).filter (p b)).length = (if p b c then 1 else 0) + (cs.filter (p b)).length := by
      intro b; simp only [List.filter_cons]; cases p b c <;> simp <;> omega
    simp only [h1, natSum_add, natSum_ite, List.map_cons, natSum_cons, ih]

private theorem natSum_congr {α : Type} (cs : List α) (f g : α → Nat) (h : ∀ c ∈ cs, f c = g c) :
    natSum (cs.map f) = natSum (cs.map g) := by
  induction cs with
  | nil => rfl
  | cons c cs ih =>
    simp only [List.map_cons, natSum_cons]
    rw [h c (by simp), ih (fun c hc => h c (by simp [hc]))]

/-- Half-open bins with the last one closed: the bin counts sum to the number of cases with
first ≤ v ≤ last — every case of the binned range is counted (full statement). -/
theorem C16_counts_total_last {α : Type} (k : α → Rat) (a b : Rat) (rest : List Rat)
    (h : StrictInc (a :: b :: rest)) (cs : List α) :
    natSum ((binsLast ((a :: b :: rest).map fin) (fun c => fin (k c)) cs).map List.length) =
      (cs.filter fun c => decide (a ≤ k c ∧ k c ≤ lastOf b rest)).length := by
  unfold binsLast
  rw [List.map_map]
  have := double_count (histPairs ((a :: b :: rest).map fin)) cs (fun e c => memHist e (fin (k c)))
  simp only [Function.comp_def]
  rw [this, ← natSum_ite]
  apply natSum_congr
  intro c _
  rw [count_hist, C16_partition_hist a b rest h]
  by_cases hc : a ≤ k c ∧ k c ≤ lastOf b rest <;> simp [hc]

/-- Reliability / InvReliability: the counts of the drawn series (third components) add up to the
number of cases whose probability p satisfies first ≤ p ≤ last — no case of the range is lost. -/
theorem C16_counts_total_reliability (m : Nat) (a b : Rat) (rest : List Rat) (h : StrictInc (a :: b :: rest))
    (cs : List (XR × Rat)) :
    natSum ((reliabilitySeries m ((a :: b :: rest).map fin) (cs.map fun c => (c.1, fin c.2))).map (·.2.2)) =
      (cs.filter fun c => decide (a ≤ c.2 ∧ c.2 ≤ lastOf b rest)).length := by
  have := C16_counts_total_last (fun c : XR × Rat => c.2) a b rest h cs
  rw [← this]
  unfold reliabilitySeries binsLast
  simp only [List.map_map, Function.comp_def, List.filter_map, List.length_map]

/-- bins (e_{i-1}, e_i] with the first one closed: the counts sum to the number of cases with
first ≤ v ≤ last (full statement) -/
theorem C16_counts_total_first {α : Type} (k : α → Rat) (a b : Rat) (rest : List Rat)
    (h : StrictInc (a :: b :: rest)) (cs : List α) :
    natSum ((binsFirst ((a :: b :: rest).map fin) (fun c => fin (k c)) cs).map List.length) =
      (cs.filter fun c => decide (a ≤ k c ∧ k c ≤ lastOf b rest)).length := by
  unfold binsFirst
  rw [List.map_map]
  have := double_count (firstPairs ((a :: b :: rest).map fin)) cs (fun e c => memOCF e (fin (k c)))
  simp only [Function.comp_def]
  rw [this, ← natSum_ite]
  apply natSum_congr
  intro c _
  rw [count_ocf, C16_partition_ocf a b rest h]
  by_cases hc : a ≤ k c ∧ k c ≤ lastOf b rest <;> simp [hc]

/-- PitHist: the histogram counts add up to the number of PIT values in [first, last] — all of them. -/
theorem C16_counts_total_pithist (a b : Rat) (rest : List Rat) (h : StrictInc (a :: b :: rest)) (v : List Rat) :
    natSum (histCounts ((a :: b :: rest).map fin) (v.map fin)) =
      (v.filter fun x => decide (a ≤ x ∧ x ≤ lastOf b rest)).length := by
  unfold histCounts
  have := double_count (histPairs ((a :: b :: rest).map fin)) (v.map fin) (fun e x => memHist e x)
  rw [this, List.map_map, ← natSum_ite]
  apply natSum_congr
  intro x _
  simp only [Function.comp_def]
  rw [count_hist, C16_partition_hist a b rest h]
  by_cases hc : a ≤ x ∧ x ≤ lastOf b rest <;> simp [hc]

/-- in particular, PIT values in [0, 1] with the default ten bins are all counted -/
example : natSum (histCounts tenths (([0, 1/2, 1, 1, 3/10] : List Rat).map fin)) = 5 := by decide +kernel

/-! ## 3. One series per scored input, in input order -/

private theorem zipIdx_get {α : Type} (ins : List α) (n k : Nat) (hk : k < ins.length) :
    (ins.zipIdx n)[k]? = some (ins[k], n + k) := by
  simp [List.getElem?_zipIdx, hk]

/-- Diagrams that draw one series per input (`draw k a` for input number k): the figure has exactly
as many series as inputs and the k-th series is the one of the k-th input. -/
theorem C16_series_order {α : Type} (f : Nat → α → Series) (ins : List α) :
    (perInput (fun k a => [f k a]) ins).length = ins.length ∧
      ∀ k (hk : k < ins.length), (perInput (fun k a => [f k a]) ins)[k]? = some (f k ins[k]) := by
  have h : perInput (fun k a => [f k a]) ins = ins.zipIdx.map fun p => f p.2 p.1 := by
    unfold perInput
    induction ins.zipIdx with
    | nil => rfl
    | cons p ps ih => simp [List.flatMap_cons, ih]
  rw [h]
  refine ⟨by simp, ?_⟩
  intro k hk
  rw [List.getElem?_map, zipIdx_get ins 0 k hk]
  simp

/-- General form (diagrams drawing a group of series per input: Cond, Discrimination, ObsFcst -q, …):
the figure is the concatenation of the groups of input 0, 1, 2, … in that order. -/
theorem C16_series_order_groups {α : Type} (draw : Nat → α → List Series) (ins : List α) :
    perInput draw ins = ((List.range ins.length).map fun k => (ins[k]?.map (draw k)).getD []).flatten := by
  unfold perInput
  rw [List.flatMap_def]
  congr 1
  apply List.ext_getElem?
  intro k
  by_cases hk : k < ins.length
  · rw [List.getElem?_map, zipIdx_get ins 0 k hk]
    simp [hk]
  · have h1 : ins.zipIdx.length ≤ k := by simp; omega
    simp [List.getElem?_eq_none, h1, hk]

/-- the labels are the input names in command-line order -/
theorem C16_series_labels {α : Type} (ys : Nat → α → Vec × Vec) (ins : List α) :
    (perInput (fun k a => [{ ax := 0, kind := "line", label := inName k, xs := (ys k a).1, ys := (ys k a).2 }]) ins).map
        (·.label) = (List.range ins.length).map inName := by
  apply List.ext_getElem?
  intro k
  have h := C16_series_order (fun k a => ({ ax := 0, kind := "line", label := inName k, xs := (ys k a).1, ys := (ys k a).2 } : Series)) ins
  by_cases hk : k < ins.length
  · rw [List.getElem?_map, h.2 k hk]; simp [hk]
  · have : (perInput (fun k a => [({ ax := 0, kind := "line", label := inName k, xs := (ys k a).1, ys := (ys k a).2 } : Series)]) ins).length ≤ k := by
      rw [h.1]; omega
    simp [List.getElem?_eq_none, this, hk]


/-! ## 4. The drawn series are the defining statistics -/

private theorem filter_notnan_fin (v : List Rat) : (List.map fin v).filter (fun x => !x.isNan) = List.map fin v := by
  induction v with
  | nil => rfl
  | cons x xs ih => simp [List.filter_cons, ih]

private theorem filter_nan_fin (v : List Rat) : (List.map fin v).filter XR.isNan = [] := by
  induction v with
  | nil => rfl
  | cons x xs ih => simp [List.filter_cons, ih]

private theorem insert_fin (x : Rat) (ys : List Rat) :
    Vec.insertSorted (fin x) (List.map fin ys) = List.map fin (ys.orderedInsert (· ≤ ·) x) := by
  induction ys with
  | nil => rfl
  | cons y ys ih =>
    simp only [List.map_cons, Vec.insertSorted, XR.lt, List.orderedInsert_cons]
    by_cases h : y < x
    · have h' : ¬ x ≤ y := not_le.mpr h
      simp [h, h', ih]
    · have h' : x ≤ y := not_lt.mp h
      simp [h, h']

private theorem sort_fin (v : List Rat) : Vec.sort (List.map fin v) = List.map fin (Stats.ascending v) := by
  have hasc : Stats.ascending v = v.insertionSort (· ≤ ·) := by
    unfold Stats.ascending
    exact List.mergeSort_eq_insertionSort (r := (· ≤ ·)) v
  rw [hasc]
  clear hasc
  induction v with
  | nil => rfl
  | cons x xs ih =>
    have : Vec.sort (List.map fin (x :: xs)) = Vec.insertSorted (fin x) (Vec.sort (List.map fin xs)) := rfl
    rw [this, ih, insert_fin]; rfl

private theorem sortN_fin (v : List Rat) : sortN (List.map fin v) = List.map fin (Stats.ascending v) := by
  unfold sortN
  rw [filter_notnan_fin, filter_nan_fin, sort_fin]; simp

/-- Q-Q plot: the drawn curve is the order statistics of the observations against the order
statistics of the forecasts. -/
theorem C16_def_qq (os fs : List Rat) :
    qqSeries (os.map fin) (fs.map fin) = ((Diagram.qq os fs).1.map fin, (Diagram.qq os fs).2.map fin) := by
  simp [qqSeries, Diagram.qq, sortN_fin]

/-- Sort: ascending values against their percentile rank. -/
theorem C16_def_sort (v : List Rat) :
    sortSeries (v.map fin) = ((Diagram.sorted v).1.map fin, (Diagram.sorted v).2.map fin) := by
  unfold sortSeries Diagram.sorted linspace100
  rw [sort_fin]
  by_cases h : v.length = 1 <;> simp [h, List.map_map, Function.comp_def]

/-- ObsFcst (and QQ / Scatter with -x): each plotted value is the mean of its slice (NaN = undefined
for an empty slice). -/
theorem C16_def_obsfcst (sl : List (List Rat)) :
    sliceMeans (sl.map (List.map fin)) = sl.map fun v => toXR (Stats.mean v) := by
  simp [sliceMeans, List.map_map, Function.comp_def, mean_fin]

/-- ObsFcst layout: the observation line first, then the lines (and quantile bands) of input 0, 1, … -/
theorem C16_obsfcst_layout (ax : Vec) (obs0 : List Vec) (ins : List (List Vec × List (String × List Vec))) :
    (obsfcstSeries ax obs0 ins).head? = some { ax := 0, kind := "line", label := "Observed", xs := ax, ys := sliceMeans obs0 } ∧
    (obsfcstSeries ax obs0 ins).tail = perInput (fun k i =>
      { ax := 0, kind := "line", label := inName k, xs := ax, ys := sliceMeans i.1 } ::
        (i.2.map fun q => { ax := 0, kind := "line", label := inName k ++ "_" ++ q.1, xs := ax, ys := sliceMeans q.2 }) ++
        obsfcstBands ax i.2) ins :=
  ⟨rfl, rfl⟩

/-- thresholding of an observation for the four event types the probabilistic diagrams accept -/
private theorem obs01_fin (b : BinType) (hb : b.isWithin = false) (t x : Rat) :
    obs01 b (fin t) (fin x) = fin (if Spec.event b t t x then 1 else 0) := by
  cases b <;> simp [BinType.isWithin] at hb <;>
    simp [obs01, applyThreshold, XR.isNan, XR.lt, XR.le, XR.gt, XR.ge, boolToXR, Spec.event] <;> split <;> rename_i h <;> simp [h]

def pev (b : BinType) (p : Rat) : Rat :=
  match b with
  | .below | .belowEq => p
  | _ => 1 - p

private theorem pEvent_fin (b : BinType) (hb : b.isWithin = false) (p : Rat) : pEvent b (fin p) = fin (pev b p) := by
  cases b <;> simp [BinType.isWithin] at hb <;> simp [pEvent, applyThresholdProb, pev]

private theorem boolMean (l : List Bool) :
    Vec.mean (l.map fun b => fin (if b then 1 else 0)) = toXR (Diagram.freq l) := by
  have : (l.map fun b => fin (if b then (1 : Rat) else 0)) = (l.map fun b => if b then (1 : Rat) else 0).map fin := by
    simp [List.map_map, Function.comp_def]
  rw [this, mean_fin]; rfl

/-- Marginal: (mean forecast probability of the event, relative frequency of the event). -/
theorem C16_def_marginal (b : BinType) (hb : b.isWithin = false) (t : Rat) (os ps : List Rat) :
    marginalPoint b (fin t) (os.map fin) (ps.map fin) =
      (toXR (Stats.mean (ps.map (pev b))), toXR (Diagram.freq (os.map fun o => decide (Spec.event b t t o)))) := by
  unfold marginalPoint
  congr 1
  · rw [List.map_map]
    have : (pEvent b ∘ fin) = fin ∘ pev b := by funext p; simp [pEvent_fin b hb]
    rw [this, ← List.map_map, mean_fin]
  · rw [List.map_map, ← boolMean, List.map_map]
    congr 1
    apply List.map_congr_left
    intro o _
    simp [obs01_fin b hb]


/-! ### binned diagrams -/

private theorem binsBy_ho_emb {α β : Type} (emb : α → β) (keyX : β → XR) (k : α → Rat)
    (hk : ∀ a, keyX (emb a) = fin (k a)) (edges : List Rat) (cs : List α) :
    binsBy memHO (edges.map fin) keyX (cs.map emb) = (Diagram.bins .ho edges k cs).map (List.map emb) := by
  unfold binsBy Diagram.bins
  rw [pairs_fin, List.map_map, List.map_map]
  apply List.map_congr_left
  intro e _
  simp only [Function.comp_def, List.filter_map]
  congr 1
  apply List.filter_congr
  intro a _
  simp [hk, memHO_fin]

private theorem binsLast_emb {α β : Type} (emb : α → β) (keyX : β → XR) (k : α → Rat)
    (hk : ∀ a, keyX (emb a) = fin (k a)) (edges : List Rat) (cs : List α) :
    binsLast (edges.map fin) keyX (cs.map emb) = (Diagram.bins .hist edges k cs).map (List.map emb) := by
  unfold binsLast Diagram.bins
  rw [histPairs_fin, List.map_map, List.map_map]
  apply List.map_congr_left
  intro e _
  simp only [Function.comp_def, List.filter_map]
  congr 1
  apply List.filter_congr
  intro a _
  simp [hk, memHist_fin]

private theorem binsFirst_emb {α β : Type} (emb : α → β) (keyX : β → XR) (k : α → Rat)
    (hk : ∀ a, keyX (emb a) = fin (k a)) (edges : List Rat) (cs : List α) :
    binsFirst (edges.map fin) keyX (cs.map emb) = (Diagram.binsF .ocf edges k cs).map (List.map emb) := by
  unfold binsFirst Diagram.binsF
  rw [firstPairs_fin, List.map_map, List.map_map]
  apply List.map_congr_left
  intro e _
  simp only [Function.comp_def, List.filter_map]
  congr 1
  apply List.filter_congr
  intro a _
  simp [hk, memOCF_fin]

/-- a case (event observed?, forecast value) as the model sees it -/
def embRel (c : Bool × Rat) : XR × XR := (fin (if c.1 then 1 else 0), fin c.2)

/-- how a bin statistic is displayed: x = mean forecast value (0 for an empty bin), y = observed
frequency, shown only for bins with at least `m` (and at least one) cases, n = count -/
def dispRel (m : Nat) (r : Option Rat × Option Rat × Nat) : XR × XR × Nat :=
  (match r.1 with
   | some q => fin q
   | none => fin 0,
   if 0 < r.2.2 ∧ m ≤ r.2.2 then toXR r.2.1 else nan,
   r.2.2)

/-- Reliability (m = 5) and InvReliability (m = 2): per probability bin (half-open, the last one closed) the
drawn point is (mean forecast probability, relative frequency of the event), the inset shows the number of cases. -/
theorem C16_def_reliability (m : Nat) (edges : List Rat) (cs : List (Bool × Rat)) :
    reliabilitySeries m (edges.map fin) (cs.map embRel) = (Diagram.reliability .hist edges cs).map (dispRel m) := by
  unfold reliabilitySeries Diagram.reliability
  rw [binsLast_emb embRel (·.2) (·.2) (fun _ => rfl), List.map_map, List.map_map]
  apply List.map_congr_left
  intro b _
  simp only [Function.comp_def, dispRel, Diagram.reliabilityBin, List.length_map, List.map_map]
  have h2 : (b.map fun c => (embRel c).2) = (b.map (·.2)).map fin := by simp [embRel, List.map_map, Function.comp_def]
  have h1 : (b.map fun c => (embRel c).1) = (b.map (·.1)).map fun o => fin (if o then 1 else 0) := by
    simp [embRel, List.map_map, Function.comp_def]
  rw [h1, h2, boolMean, meanOr0, mean_fin]
  cases b with
  | nil => simp [Stats.mean]
  | cons c cs => simp [Stats.mean, toXR, Cont.toXR]

/-- the cases the Reliability diagram bins: (event observed, probability of the event) -/
theorem C16_relCases (b : BinType) (hb : b.isWithin = false) (t : Rat) (os ps : List Rat) :
    relCases b (fin t) (os.map fin) (ps.map fin) =
      ((os.zip ps).map fun c => (decide (Spec.event b t t c.1), pev b c.2)).map embRel := by
  unfold relCases
  rw [List.zip_map, List.map_map, List.map_map]
  apply List.map_congr_left
  intro c _
  simp [embRel, obs01_fin b hb, pEvent_fin b hb]

/-- InvReliability: the event is "observation ≤ forecast quantile", binned on the quantile value -/
theorem C16_invrelCases (os qs : List Rat) :
    invrelCases (os.map fin) (qs.map fin) = ((os.zip qs).map fun c => (decide (c.1 ≤ c.2), c.2)).map embRel := by
  unfold invrelCases
  rw [List.zip_map, List.map_map, List.map_map]
  apply List.map_congr_left
  intro c _
  by_cases h : c.1 ≤ c.2 <;> simp [embRel, boolToXR, XR.le, h]

theorem C16_def_invreliability (edges : List Rat) (os qs : List Rat) :
    reliabilitySeries 2 (edges.map fin) (invrelCases (os.map fin) (qs.map fin)) =
      (Diagram.reliability .hist edges ((os.zip qs).map fun c => (decide (c.1 ≤ c.2), c.2))).map (dispRel 2) := by
  rw [C16_invrelCases, C16_def_reliability]

/-- the curve the definition prescribes for quantile level number t and input number k, from the valid
(observation, forecast quantile) pairs of THAT level and input only: per bin (mean quantile value or 0, frequency of
"observation ≤ quantile" if the bin holds at least two cases, else nothing) -/
def specInvrelCurve (edges : List Rat) (t k : Nat) (c : List Rat × List Rat) : Series :=
  let r := (Diagram.reliability .hist edges ((c.1.zip c.2).map fun c => (decide (c.1 ≤ c.2), c.2))).map (dispRel 2)
  { ax := 0, kind := "line", label := if t = 0 then inName k else "_", xs := r.map (·.1), ys := r.map (·.2.1) }

private theorem perInput_single {α : Type} (f : Nat → α → Series) (ins : List α) :
    perInput (fun k a => [f k a]) ins = ins.zipIdx.map fun p => f p.2 p.1 := by
  unfold perInput
  induction ins.zipIdx with
  | nil => rfl
  | cons p ps ih => simp [List.flatMap_cons, ih]

private theorem zipIdx_map' {α β : Type} (g : α → β) (l : List α) (n : Nat) :
    (l.map g).zipIdx n = (l.zipIdx n).map fun p => (g p.1, p.2) := by
  induction l generalizing n with
  | nil => rfl
  | cons a l ih => simp [List.zipIdx_cons, ih]

/-- InvReliability with several quantile levels (-q a,b,…): the figure is, for every level in -q order, one curve per
input in input order, and the curve of (level t, input k) is the defining statistic of the cases of level t and
input k — of no other level.  In particular a bin that holds fewer than two cases at level t has no point on that
curve (`dispRel 2` gives NaN) even if the bin is populated at another level. -/
theorem C16_def_invreliability_levels (edges : List Rat) (levels : List (List (List Rat × List Rat))) :
    invreliabilityFigure (edges.map fin) (levels.map fun ins => ins.map fun c => (c.1.map fin, c.2.map fin)) =
      (levels.zipIdx.map fun lt => lt.1.zipIdx.map fun ck => specInvrelCurve edges lt.2 ck.2 ck.1).flatten := by
  unfold invreliabilityFigure
  congr 1
  rw [zipIdx_map', List.map_map]
  apply List.map_congr_left
  intro lt _
  simp only [Function.comp_def]
  rw [perInput_single, zipIdx_map', List.map_map]
  apply List.map_congr_left
  intro ck _
  simp only [Function.comp_def, invrelCurve, specInvrelCurve, C16_def_invreliability]

private theorem flatten_uniform {α : Type} (F : Nat) (L : List (List α)) (hL : ∀ l ∈ L, l.length = F)
    (t k : Nat) (hk : k < F) : L.flatten[t * F + k]? = (L[t]?).bind (·[k]?) := by
  induction L generalizing t with
  | nil => simp
  | cons l L ih =>
    have hl : l.length = F := hL l (List.mem_cons_self)
    have hL' : ∀ l ∈ L, l.length = F := fun x hx => hL x (List.mem_cons_of_mem _ hx)
    cases t with
    | zero =>
      simp only [Nat.zero_mul, Nat.zero_add, List.flatten_cons, List.getElem?_cons_zero, Option.bind_some]
      rw [List.getElem?_append_left (by omega)]
    | succ t =>
      simp only [List.flatten_cons, List.getElem?_cons_succ]
      rw [List.getElem?_append_right (by rw [hl, Nat.succ_mul]; omega)]
      have : (t + 1) * F + k - l.length = t * F + k := by rw [hl, Nat.succ_mul]; omega
      rw [this]
      exact ih hL' t

/-- position form: with F inputs (every level has one entry per input) the figure has one curve per level and input
and the curve at position t·F + k is the definition's curve of level t and input k. -/
theorem C16_invreliability_levels_order (edges : List Rat) (F : Nat) (levels : List (List (List Rat × List Rat)))
    (hF : ∀ ins ∈ levels, ins.length = F) :
    (invreliabilityFigure (edges.map fin) (levels.map fun ins => ins.map fun c => (c.1.map fin, c.2.map fin))).length
        = levels.length * F ∧
      ∀ t k (ht : t < levels.length) (hk : k < F),
        (invreliabilityFigure (edges.map fin) (levels.map fun ins => ins.map fun c => (c.1.map fin, c.2.map fin)))[t * F + k]? =
          (levels[t][k]?).map (specInvrelCurve edges t k) := by
  rw [C16_def_invreliability_levels]
  have hU : ∀ l ∈ levels.zipIdx.map (fun lt => lt.1.zipIdx.map fun ck => specInvrelCurve edges lt.2 ck.2 ck.1),
      l.length = F := by
    intro l hl
    obtain ⟨lt, hlt, rfl⟩ := List.mem_map.mp hl
    have : lt.1 ∈ levels := by
      have := List.mem_zipIdx hlt
      simp at this
      rw [this.2]; exact List.getElem_mem _
    simp [hF lt.1 this]
  constructor
  · rw [List.length_flatten]
    have : ((levels.zipIdx.map (fun lt => lt.1.zipIdx.map fun ck => specInvrelCurve edges lt.2 ck.2 ck.1)).map List.length)
        = List.replicate levels.length F := by
      apply List.eq_replicate_iff.mpr
      refine ⟨by simp, ?_⟩
      intro n hn
      obtain ⟨l, hl, rfl⟩ := List.mem_map.mp hn
      exact hU l hl
    rw [this]; simp
  · intro t k ht hk
    rw [flatten_uniform F _ hU t k hk, List.getElem?_map, zipIdx_get levels 0 t ht]
    simp only [Option.map_some, Option.bind_some, Nat.zero_add]
    have hlen : levels[t].length = F := hF _ (List.getElem_mem _)
    rw [List.getElem?_map, zipIdx_get levels[t] 0 k (by omega)]
    simp [List.getElem?_eq_getElem (by omega : k < levels[t].length)]

/-- not vacuous, and the point of the statement: two levels, one input, bins [0,1), [1,2]; level 0 has two cases in the
first bin and none in the second, level 1 the other way round: each curve has a point only in its own bin. -/
example : (invreliabilityFigure [fin 0, fin 1, fin 2]
      [[([fin 0, fin 1], [fin (1/2), fin (1/2)])], [([fin 0, fin 2], [fin (3/2), fin (3/2)])]]).map (fun s => (s.label, s.xs, s.ys)) =
    [("in0", [fin (1/2), fin 0], [fin (1/2), nan]), ("_", [fin 0, fin (3/2)], [nan, fin (1/2)])] := by
  decide +kernel

/-- SpreadSkill: per spread bin (t_{i-1}, t_i] (the first one [t_0, t_1]) the point (mean spread, RMSE); the
first plotted point is NaN. -/
theorem C16_def_spreadskill (T : Tr) (ths : List Rat) (cs : List (Rat × Rat)) (hsk : ∀ c ∈ cs, 0 ≤ c.2) :
    spreadskillSeries T (ths.map fin) (cs.map fun c => (fin c.1, fin c.2)) =
      (nan :: (Diagram.binsF .ocf ths (·.1) cs).map fun b => toXR (Diagram.spreadskillBin T b).1,
       nan :: (Diagram.binsF .ocf ths (·.1) cs).map fun b => toXR (Diagram.spreadskillBin T b).2) := by
  unfold spreadskillSeries
  rw [binsFirst_emb (fun c : Rat × Rat => (fin c.1, fin c.2)) (·.1) (·.1) (fun _ => rfl)]
  have hmem : ∀ b ∈ Diagram.binsF .ocf ths (·.1) cs, ∀ c ∈ b, 0 ≤ c.2 := by
    intro b hb c hc
    unfold Diagram.binsF at hb
    obtain ⟨e, _, rfl⟩ := List.mem_map.mp hb
    exact hsk c (List.mem_filter.mp hc).1
  simp only [List.map_map, Function.comp_def]
  refine Prod.ext ?_ ?_
  · simp only [List.cons.injEq, true_and]
    apply List.map_congr_left
    intro b _
    have : (b.map fun c => fin c.1) = (b.map (·.1)).map fin := by simp [List.map_map, Function.comp_def]
    simp only [Diagram.spreadskillBin, meanOrNan, this, mean_fin, List.isEmpty_map]
    cases b <;> simp [Stats.mean, toXR, Cont.toXR]
  · simp only [List.cons.injEq, true_and]
    apply List.map_congr_left
    intro b hb
    have : (b.map fun c => fin c.2) = (b.map (·.2)).map fin := by simp [List.map_map, Function.comp_def]
    simp only [Diagram.spreadskillBin, this, mean_fin, List.isEmpty_map]
    cases hbe : b with
    | nil => simp [Stats.mean, toXR, Cont.toXR]
    | cons c rest =>
      have hnn : 0 ≤ Stats.sum ((c :: rest).map (·.2)) / (((c :: rest).map (·.2)).length : Rat) := by
        apply div_nonneg
        · have : ∀ l : List (Rat × Rat), (∀ c ∈ l, 0 ≤ c.2) → 0 ≤ Stats.sum (l.map (·.2)) := by
            intro l hl
            induction l with
            | nil => simp [Stats.sum]
            | cons d l ih =>
              simp only [List.map_cons, Stats.sum]
              have := hl d (by simp)
              have := ih (fun c hc => hl c (by simp [hc]))
              linarith
          exact this _ (by rw [← hbe]; exact hmem b hb)
        · positivity
      have hnn' : 0 ≤ Stats.sum (c.2 :: List.map (fun x => x.2) rest) / ((rest.length : Rat) + 1) := by simpa using hnn
      simp [Stats.mean, toXR, Cont.toXR, Tr.sqrt, not_lt.mpr hnn']


private theorem withinVal_fin (b : BinType) (t u x : Rat) :
    (intervalOf b (fin t) (fin u)).withinVal (fin x) = decide (Spec.event b t u x) := by
  have := C07.C07_within_denotes b t u x
  simpa [Interval.within, XR.isNan] using this

private theorem toXR_mul100 (o : Option Rat) : toXR o * fin 100 = toXR (o.map (· * 100)) := by
  cases o <;> simp [toXR, Cont.toXR]

/-- Discrimination: per probability bin (half-open, the last one closed) the percentage of the events (cls = true) / non-events
(cls = false) whose forecast probability lies in the bin; NaN when the class is empty. -/
theorem C16_def_discrimination (edges : List Rat) (cs : List (Bool × Rat)) (cls : Bool) :
    discriminationSeries (edges.map fin) (cs.map embRel) (fin (if cls then 1 else 0)) =
      (Diagram.discrimination .hist edges cs cls).map toXR := by
  unfold discriminationSeries Diagram.discrimination
  rw [histPairs_fin, List.map_map, List.map_map]
  have hsel : ((cs.map embRel).filter fun c => XR.eqb c.1 (fin (if cls then 1 else 0))).map (·.2) =
      ((cs.filter fun a => a.1 == cls).map (·.2)).map fin := by
    rw [List.filter_map, List.map_map, List.map_map]
    have : (cs.filter ((fun c : XR × XR => XR.eqb c.1 (fin (if cls then 1 else 0))) ∘ embRel)) = cs.filter fun a => a.1 == cls := by
      apply List.filter_congr
      intro a _
      rcases a with ⟨o, p⟩
      cases o <;> cases cls <;> simp [embRel]
    rw [this]
    apply List.map_congr_left
    intro a _; rfl
  simp only [hsel]
  apply List.map_congr_left
  intro e _
  simp only [Function.comp_def, List.map_map]
  have : ((cs.filter fun a => a.1 == cls).map fun x => boolToXR (memHist (fin e.1, fin e.2.1, e.2.2) (fin x.2))) =
      ((cs.filter fun a => a.1 == cls).map fun x => inBin .hist e x.2).map fun b => fin (if b then 1 else 0) := by
    rw [List.map_map]
    apply List.map_congr_left
    intro x _
    simp only [Function.comp_def, memHist_fin, boolToXR]
    cases inBin .hist e x.2 <;> rfl
  rw [this, boolMean, toXR_mul100]

/-- an optional ROC point as the two plotted coordinates -/
def ptX (o : Option (Rat × Rat)) : XR × XR :=
  match o with
  | some q => (fin q.1, fin q.2)
  | none => (nan, nan)

private theorem ofNat_div (n d : Nat) (hd : 0 < d) : XR.ofNat n / XR.ofNat d = fin ((n : Rat) / (d : Rat)) := by
  have : ((d : Nat) : Rat) ≠ 0 := by exact_mod_cast hd.ne'
  simp [XR.ofNat, fin_div_ne _ _ this]

/-- ROC point of one probability level: (false alarm rate, hit rate) of the forecast "p ≥ level". -/
theorem C16_def_roc_point (b : BinType) (t lv : Rat) (cs : List (Rat × Rat)) :
    rocPoint (intervalOf b (fin t) (fin t)) (fin lv) (cs.map fun c => (fin c.1, fin c.2)) =
      ptX (Spec.Diagram.rocPoint lv (cs.map fun c => (decide (Spec.event b t t c.1), c.2))) := by
  unfold rocPoint Spec.Diagram.rocPoint
  simp only [List.countP_map, Function.comp_def, withinVal_fin, Spec.event, ge_iff_le]
  split
  · rename_i h
    simp only [ptX]
    rw [ofNat_div _ _ h.2, ofNat_div _ _ h.1]
    push_cast
    rfl
  · rfl

/-- ROC curve: starts at (1,1), one point per level, ends at (0,0). -/
theorem C16_def_roc (b : BinType) (t : Rat) (levels : List Rat) (cs : List (Rat × Rat)) :
    rocSeries (intervalOf b (fin t) (fin t)) (levels.map fin) (cs.map fun c => (fin c.1, fin c.2)) =
      (((Diagram.roc levels (cs.map fun c => (decide (Spec.event b t t c.1), c.2))).map ptX).map (·.1),
       ((Diagram.roc levels (cs.map fun c => (decide (Spec.event b t t c.1), c.2))).map ptX).map (·.2)) := by
  unfold rocSeries Diagram.roc
  simp only [List.map_map, Function.comp_def, C16_def_roc_point, List.map_cons, List.map_append, List.map_nil, ptX]

/-- the ROC end points are always drawn -/
theorem C16_roc_endpoints (I : Interval) (levels : List XR) (cs : List (XR × XR)) :
    (rocSeries I levels cs).1.head? = some (fin 1) ∧ (rocSeries I levels cs).2.head? = some (fin 1) ∧
    (rocSeries I levels cs).1.getLast? = some (fin 0) ∧ (rocSeries I levels cs).2.getLast? = some (fin 0) := by
  simp [rocSeries, List.getLast?_cons, List.getLast?_append]


/-! ### histograms -/

private theorem mem_le_natSum (c : List Nat) (k : Nat) (hk : k ∈ c) : k ≤ natSum c := by
  induction c with
  | nil => simp at hk
  | cons n c ih =>
    rw [natSum_cons]
    rcases List.mem_cons.mp hk with h | h
    · omega
    · have := ih h; omega

private theorem percent_fin (c : List Nat) :
    (c.map fun n => XR.ofNat n / XR.ofNat (natSum c) * fin 100) =
      (c.map fun (k : Nat) => Cont.sdiv ((k : Rat) * 100) ((natSum c : Nat) : Rat)).map toXR := by
  rw [List.map_map]
  apply List.map_congr_left
  intro k hk
  simp only [Function.comp_def, Cont.sdiv]
  by_cases h0 : natSum c = 0
  · have : k = 0 := by have := mem_le_natSum c k hk; omega
    subst this
    simp [h0, XR.ofNat, fin_div, infOfSign, toXR, Cont.toXR]
  · have hne : ((natSum c : Nat) : Rat) ≠ 0 := by exact_mod_cast h0
    simp only [hne, if_false, toXR, Cont.toXR, XR.ofNat, fin_div_ne _ _ hne, fin_mul]
    congr 1; ring

private theorem percent_fin' (c : List Nat) :
    (c.map fun n => XR.ofNat n * fin 100 / XR.ofNat (natSum c)) =
      (c.map fun (k : Nat) => Cont.sdiv ((k : Rat) * 100) ((natSum c : Nat) : Rat)).map toXR := by
  rw [List.map_map]
  apply List.map_congr_left
  intro k hk
  simp only [Function.comp_def, Cont.sdiv]
  by_cases h0 : natSum c = 0
  · have : k = 0 := by have := mem_le_natSum c k hk; omega
    subst this
    simp [h0, XR.ofNat, fin_div, infOfSign, toXR, Cont.toXR]
  · have hne : ((natSum c : Nat) : Rat) ≠ 0 := by exact_mod_cast h0
    simp only [hne, if_false, toXR, Cont.toXR, XR.ofNat, fin_mul, fin_div_ne _ _ hne]

private theorem histCounts_fin (edges v : List Rat) :
    histCounts (edges.map fin) (v.map fin) = (Diagram.bins .hist edges id v).map List.length := by
  unfold histCounts Diagram.bins
  rw [histPairs_fin, List.map_map, List.map_map]
  apply List.map_congr_left
  intro e _
  simp only [Function.comp_def, List.filter_map, List.length_map]
  congr 1
  apply List.filter_congr
  intro x _
  simp [memHist_fin]

/-- PIT histogram: the bar heights are the percentage of the binned PIT values per bin
(np.histogram's bins). -/
theorem C16_def_pithist (edges v : List Rat) :
    (pithistBars (edges.map fin) (v.map fin)).2.1 = (Diagram.histPercent .hist edges v).map toXR := by
  unfold pithistBars Diagram.histPercent
  simp only [histCounts_fin]
  exact percent_fin _

/-- PitHist bar POSITIONS: the bar of bin k spans [e_k, e_{k+1}] — its left side is e_k and left side +
width is e_{k+1}, for any edges (`mpl.bar(edges[:-1], y, width=np.diff(edges), align='edge')`). -/
theorem C16_pithist_bar_position (edges v : List Rat) :
    (pithistBars (edges.map fin) (v.map fin)).1 = (edgePairsL edges).map (fun e => fin e.1) ∧
    List.zipWith (· + ·) (pithistBars (edges.map fin) (v.map fin)).1 (pithistBars (edges.map fin) (v.map fin)).2.2 =
      (edgePairsL edges).map (fun e => fin e.2.1) := by
  unfold pithistBars
  simp only [pairs_fin, List.map_map, Function.comp_def, fin_sub]
  refine ⟨trivial, ?_⟩
  induction edgePairsL edges with
  | nil => rfl
  | cons e es ih =>
    simp only [List.map_cons, List.zipWith_cons_cons, ih, fin_add]
    congr 2; ring

/-- default ten bins: the first bar starts at 0 and the last one ends at 1 (formerly −1/20 and 19/20) -/
example : (pithistBars tenths []).1.head? = some (fin 0) ∧
    (List.zipWith (· + ·) (pithistBars tenths []).1 (pithistBars tenths []).2.2).getLast? = some (fin 1) := by
  decide +kernel

private theorem ratPairs_fin (ts : List Rat) :
    pairs (ts.map fin) = (C07.ratPairs ts).map fun p => (fin p.1, fin p.2) := by
  induction ts with
  | nil => rfl
  | cons a rest ih =>
    cases rest with
    | nil => rfl
    | cons b rest => simpa [pairs, C07.ratPairs] using ih

private theorem ivs_within (b : BinType) (hb : b.isWithin = true) (ts : List Rat) :
    getIntervals b (some (ts.map fin)) = (C07.ratPairs ts).map fun p => intervalOf b (fin p.1) (fin p.2) := by
  rw [C07.C07_getIntervals_within b hb, ratPairs_fin, List.map_map]; rfl

/-- Hist (`-hist`): per event of the -b family the percentage of the values that lie in it (relative to
the values that lie in some event). -/
theorem C16_def_hist (b : BinType) (hb : b.isWithin = true) (ts v : List Rat) :
    histSeries (getIntervals b (some (ts.map fin))) (v.map fin) =
      (Diagram.eventPercent b (C07.ratPairs ts) v).map toXR := by
  unfold histSeries Diagram.eventPercent
  have hc : histCountsIv (getIntervals b (some (ts.map fin))) (v.map fin) =
      (C07.ratPairs ts).map fun t => (v.filter fun x => decide (Spec.event b t.1 t.2 x)).length := by
    unfold histCountsIv
    rw [ivs_within b hb, List.map_map]
    apply List.map_congr_left
    intro t _
    simp only [Function.comp_def, List.filter_map, List.length_map]
    congr 1
    apply List.filter_congr
    intro x _
    simp [withinVal_fin]
  simp only [hc]
  exact percent_fin' _

/-- Freq: the relative frequency of each event among the values. -/
theorem C16_def_freq (b : BinType) (hb : b.isWithin = true) (ts v : List Rat) :
    freqSeries (getIntervals b (some (ts.map fin))) (v.map fin) =
      (Diagram.eventFreq b (C07.ratPairs ts) v).map toXR := by
  unfold freqSeries Diagram.eventFreq
  rw [ivs_within b hb, List.map_map, List.map_map]
  apply List.map_congr_left
  intro t _
  simp only [Function.comp_def, List.map_map, withinVal_fin, boolToXR]
  rw [← boolMean, List.map_map]
  congr 1
  apply List.map_congr_left
  intro x _
  simp only [Function.comp_def]
  cases decide (Spec.event b t.1 t.2 x) <;> rfl

private theorem medianOf_fin (v : List Rat) : Agg.medianOf (v.map fin) = toXR (Stats.median v) := by
  have h := C15.C15_agg_median (⟨id, id, id, id⟩ : Tr) v
  simp only [Agg.apply, Option.some.injEq] at h
  rw [h]
  cases Stats.median v <;> rfl

/-- Cond: per event of the conditioning variable (median of the conditioning values, mean of the
other variable) over the cases inside the event; NaN for an empty event. -/
theorem C16_def_cond (b : BinType) (hb : b.isWithin = true) (ts : List Rat) (xy : List (Rat × Rat)) :
    condSeries (getIntervals b (some (ts.map fin))) ((xy.map (·.1)).map fin) ((xy.map (·.2)).map fin) =
      (((Diagram.cond b (C07.ratPairs ts) xy).map fun r => toXR r.1),
       ((Diagram.cond b (C07.ratPairs ts) xy).map fun r => toXR r.2)) := by
  unfold condSeries Diagram.cond
  rw [ivs_within b hb]
  have hz : ((xy.map (·.1)).map fin).zip ((xy.map (·.2)).map fin) = xy.map fun p => (fin p.1, fin p.2) := by
    rw [List.map_map, List.map_map, List.zip_map']; rfl
  have hsel : ∀ t : Rat × Rat, ((xy.map fun p => (fin p.1, fin p.2)).filter fun p => (intervalOf b (fin t.1) (fin t.2)).withinVal p.1) =
      (xy.filter fun p => decide (Spec.event b t.1 t.2 p.1)).map fun p => (fin p.1, fin p.2) := by
    intro t
    rw [List.filter_map]
    congr 1
    apply List.filter_congr
    intro p _
    simp [withinVal_fin]
  rw [hz]
  simp only [List.map_map, Function.comp_def, hsel, List.isEmpty_map]
  refine Prod.ext ?_ ?_
  · apply List.map_congr_left
    intro t _
    have : ((xy.filter fun p => decide (Spec.event b t.1 t.2 p.1)).map fun p => fin p.1) =
        ((xy.filter fun p => decide (Spec.event b t.1 t.2 p.1)).map (·.1)).map fin := by
      simp [List.map_map, Function.comp_def]
    simp only [this, medianOf_fin]
    cases hs : xy.filter fun p => decide (Spec.event b t.1 t.2 p.1) with
    | nil => simp [Stats.median, toXR, Cont.toXR]
    | cons _ _ => simp
  · apply List.map_congr_left
    intro t _
    have : ((xy.filter fun p => decide (Spec.event b t.1 t.2 p.1)).map fun p => fin p.2) =
        ((xy.filter fun p => decide (Spec.event b t.1 t.2 p.1)).map (·.2)).map fin := by
      simp [List.map_map, Function.comp_def]
    simp only [meanOrNan, this, mean_fin, List.isEmpty_map]
    cases hs : xy.filter fun p => decide (Spec.event b t.1 t.2 p.1) with
    | nil => simp [Stats.mean, toXR, Cont.toXR]
    | cons _ _ => simp


/-! ### points: performance, error, Brier decomposition, standard plot -/

/-- Performance diagram: for a slice with at least one valid pair, the point is (1 − FAR, POD) of
the 2×2 table of the event (NaN where a denominator vanishes). -/
theorem C16_def_performance (T : Tr) (I : Interval) (obs fcst : Vec) (t : Table)
    (h : abcd I I obs fcst = some t) :
    performancePoint T I obs fcst =
      (toXR (Diagram.performance t.a t.b t.c).1, toXR (Diagram.performance t.a t.b t.c).2) := by
  have hN : 0 < t.a + t.b + t.c + t.d := C06.C06_total_pos I I obs fcst t h
  unfold performancePoint contScore Diagram.performance
  rw [h]
  have e1 : Gen.Cont.eval T "far" (XR.ofNat t.a) (XR.ofNat t.b) (XR.ofNat t.c) (XR.ofNat t.d) =
      some (Gen.Cont.m_far T (fin t.a) (fin t.b) (fin t.c) (fin t.d)) := rfl
  have e2 : Gen.Cont.eval T "hit" (XR.ofNat t.a) (XR.ofNat t.b) (XR.ofNat t.c) (XR.ofNat t.d) =
      some (Gen.Cont.m_hit T (fin t.a) (fin t.b) (fin t.c) (fin t.d)) := rfl
  simp only [e1, e2, Option.map_some, Option.getD_some, GenEq.Cont.far_eq T t.a t.b t.c t.d hN,
    GenEq.Cont.hit_eq T t.a t.b t.c t.d hN]
  refine Prod.ext ?_ ?_
  · cases Cont.far t.a t.b <;> simp [Cont.toXR, toXR, XR.isInf]
  · cases Cont.hit t.a t.c <;> simp [Cont.toXR, toXR, XR.isInf]

private theorem statsSum_eq (v : List Rat) : Stats.sum v = v.sum := by
  induction v with
  | nil => rfl
  | cons x xs ih => simp [Stats.sum, ih]

private theorem zip_fin_sub (os fs : List Rat) :
    Vec.sub (os.map fin) (fs.map fin) = (List.zipWith (fun o f => o - f) os fs).map fin := by
  have := Vec.sub_ofRats os fs
  simpa [Vec.ofRats] using this

/-- Error decomposition: the x-coordinate is CRMSE = √(RMSE² − ME²) and the y-coordinate is the systematic
error ME = mean(fcst − obs) (= verif's `bias`) that the axis label names (full statement). -/
theorem C16_def_error (T : Tr) (os fs : List Rat) (hne : os ≠ []) (hl : os.length = fs.length)
    (crmse me : Rat) (hs : Diagram.errorDecomp T os fs = some (crmse, me))
    (h1 : 0 ≤ (Stats.mean (List.zipWith (fun o f => (o - f) * (o - f)) os fs)).getD 0)
    (h2 : 0 ≤ T.sqrtQ ((Stats.mean (List.zipWith (fun o f => (o - f) * (o - f)) os fs)).getD 0) *
            T.sqrtQ ((Stats.mean (List.zipWith (fun o f => (o - f) * (o - f)) os fs)).getD 0) - me * me) :
    errorSeries T (os.map fin) (fs.map fin) = (fin crmse, fin me) := by
  have hsub : Vec.sub (fs.map fin) (os.map fin) = (List.zipWith (fun o f => f - o) os fs).map fin := by
    rw [zip_fin_sub]
    congr 1
    clear hne hl hs h1 h2
    induction os generalizing fs with
    | nil => cases fs <;> rfl
    | cons o os ih =>
      cases fs with
      | nil => rfl
      | cons f fs => simp only [List.zipWith_cons_cons, ih fs]
  have hsq : Vec.mul ((List.zipWith (fun o f => f - o) os fs).map fin) ((List.zipWith (fun o f => f - o) os fs).map fin) =
      (List.zipWith (fun o f => (o - f) * (o - f)) os fs).map fin := by
    unfold Vec.mul
    clear hne hl hs h1 h2 hsub
    induction os generalizing fs with
    | nil => simp
    | cons o os ih =>
      cases fs with
      | nil => simp
      | cons f fs =>
        simp only [List.zipWith_cons_cons, List.map_cons, fin_mul, ih fs]
        congr 2; ring
  have hmin : min os.length fs.length ≠ 0 := by
    rw [← hl, Nat.min_self]; exact fun h => hne (List.length_eq_zero_iff.mp h)
  unfold Diagram.errorDecomp at hs
  simp only [Stats.mean, List.length_zipWith, hmin, if_false, Option.bind_eq_bind, Option.bind_some, Option.some.injEq,
    Prod.mk.injEq, Option.getD_some] at hs h1 h2
  obtain ⟨hcr, hme⟩ := hs
  unfold errorSeries
  rw [hsub]
  simp only []
  rw [hsq, mean_fin, mean_fin]
  simp only [Stats.mean, List.length_zipWith, hmin, if_false, toXR, Cont.toXR] at h1 h2 ⊢
  rw [Tr.sqrt_fin, if_neg (not_lt.mpr h1)]
  simp only [fin_mul, fin_sub]
  rw [hme, Tr.sqrt_fin, if_neg (not_lt.mpr h2), ← hcr, hme]

/-- obs = 0, fcst = 1 has bias +1 and the diagram plots +1 (formerly −1) -/
example (T : Tr) :
    (errorSeries T [fin 0] [fin 1]).2 = fin 1 ∧
    (Diagram.errorDecomp T [0] [1]).map (·.2) = some 1 := by
  constructor
  · simp [errorSeries, Vec.sub, Vec.mean, Vec.sum, Vec.len, XR.ofNat]
  · simp [Diagram.errorDecomp, Stats.mean, Stats.sum]


private theorem computeFromObsFcst_fin (f : Vec → Vec → XR) (os fs : List Rat) (hne : os ≠ [])
    (hl : os.length = fs.length) :
    computeFromObsFcst f (os.map fin) (fs.map fin) = f (os.map fin) (fs.map fin) := by
  unfold computeFromObsFcst validObsFcst
  have hall : ((os.map fin).zip (fs.map fin)).filter (fun p => !(p.1.isNan || p.2.isNan)) = (os.map fin).zip (fs.map fin) := by
    apply List.filter_eq_self.mpr
    intro p hp
    rw [List.zip_map] at hp
    obtain ⟨q, _, rfl⟩ := List.mem_map.mp hp
    simp
  rw [hall]
  have hne' : ((os.map fin).zip (fs.map fin)).isEmpty = false := by
    cases os with
    | nil => exact absurd rfl hne
    | cons o os =>
      cases fs with
      | nil => simp at hl
      | cons f fs => rfl
  simp only [hne', Bool.false_eq_true, if_false]
  rw [List.map_fst_zip (by simp [hl]), List.map_snd_zip (by simp [hl])]

/-- Standard line plot (mae, bias, rmse): every plotted value is the textbook score of its slice
(the textbook forms are those of C05, `Gen = Spec` re-proved each run). -/
theorem C16_def_standard (T : Tr) (sl : List (List Rat × List Rat))
    (h : ∀ s ∈ sl, s.1 ≠ [] ∧ s.1.length = s.2.length) :
    standardSeries T "mae" (sl.map fun s => (s.1.map fin, s.2.map fin)) = sl.map (fun s => Det.mae Vec.mean s.1 s.2) ∧
    standardSeries T "bias" (sl.map fun s => (s.1.map fin, s.2.map fin)) = sl.map (fun s => Det.bias Vec.mean s.1 s.2) ∧
    standardSeries T "rmse" (sl.map fun s => (s.1.map fin, s.2.map fin)) = sl.map (fun s => Det.rmse T Vec.mean s.1 s.2) := by
  refine ⟨?_, ?_, ?_⟩ <;>
  · unfold standardSeries
    rw [List.map_map]
    apply List.map_congr_left
    intro s hs
    obtain ⟨hne, hl⟩ := h s hs
    simp only [Function.comp_def, standardMetric, detScore]
    first
      | (have e : ("mae" == "corr") = false := by decide
         simp only [e, Bool.false_eq_true, if_false, Gen.Det.eval, Option.map_some, Option.getD_some]
         rw [computeFromObsFcst_fin _ _ _ hne hl]
         exact GenEq.Det.mae_eq T Vec.mean s.1 s.2 hne hl)
      | (have e : ("bias" == "corr") = false := by decide
         simp only [e, Bool.false_eq_true, if_false, Gen.Det.eval, Option.map_some, Option.getD_some]
         rw [computeFromObsFcst_fin _ _ _ hne hl]
         exact GenEq.Det.bias_eq T Vec.mean s.1 s.2 hne hl)
      | (have e : ("rmse" == "corr") = false := by decide
         simp only [e, Bool.false_eq_true, if_false, Gen.Det.eval, Option.map_some, Option.getD_some]
         rw [computeFromObsFcst_fin _ _ _ hne hl]
         exact GenEq.Det.rmse_eq T Vec.mean s.1 s.2 hne hl)


def bsEdgesQ : List Rat := [0, 1/10, 2/10, 3/10, 4/10, 5/10, 6/10, 7/10, 8/10, 9/10, 1001/1000]

private theorem bsEdges_eq : bsEdges = bsEdgesQ.map fin := by decide +kernel

private theorem freq_ne (l : List Bool) (h : l ≠ []) : toXR (Diagram.freq l) = fin ((Diagram.freq l).getD 0) := by
  unfold Diagram.freq Stats.mean
  have : (l.map fun b => if b then (1 : Rat) else 0).length ≠ 0 := by simpa using h
  simp [this, toXR, Cont.toXR, h]

private theorem obsMean_emb (b : List (Bool × Rat)) (h : b ≠ []) :
    Vec.mean ((b.map embRel).map (·.1)) = fin ((Diagram.freq (b.map (·.1))).getD 0) := by
  have h1 : ((b.map embRel).map (·.1)) = (b.map (·.1)).map fun o => fin (if o then 1 else 0) := by
    simp [embRel, List.map_map, Function.comp_def]
  rw [h1, boolMean, freq_ne _ (by simpa using h)]

/-- BsDecomp: the point is (reliability term, resolution term) of the Brier score decomposition over
the probability bins 0, 0.1, …, 0.9, 1.001 (every probability in [0, 1] is binned). -/
theorem C16_def_bsdecomp (cs : List (Bool × Rat)) :
    bsdecompPoint (cs.map embRel) =
      (toXR (Diagram.bsTerms .ho bsEdgesQ cs).1, toXR (Diagram.bsTerms .ho bsEdgesQ cs).2) := by
  unfold bsdecompPoint Diagram.bsTerms
  rw [bsEdges_eq, binsBy_ho_emb embRel (·.2) (·.2) (fun _ => rfl)]
  simp only [List.flatMap_map]
  have hrel : ((Diagram.bins .ho bsEdgesQ (·.2) cs).flatMap fun b => (b.map embRel).map fun c =>
        (c.2 - Vec.mean ((b.map embRel).map (·.1))) * (c.2 - Vec.mean ((b.map embRel).map (·.1)))) =
      ((Diagram.bins .ho bsEdgesQ (·.2) cs).flatMap fun b => b.map fun a =>
        (a.2 - (Diagram.freq (b.map (·.1))).getD 0) * (a.2 - (Diagram.freq (b.map (·.1))).getD 0)).map fin := by
    rw [List.map_flatMap]
    apply List.flatMap_congr
    intro b _
    cases hb : b with
    | nil => rfl
    | cons c rest =>
      rw [← hb, obsMean_emb b (by rw [hb]; simp), List.map_map, List.map_map]
      apply List.map_congr_left
      intro a _
      simp [embRel]
  have hres : ((Diagram.bins .ho bsEdgesQ (·.2) cs).flatMap fun b => (b.map embRel).map fun _ =>
        (Vec.mean ((b.map embRel).map (·.1)) - Vec.mean ((cs.map embRel).map (·.1))) *
          (Vec.mean ((b.map embRel).map (·.1)) - Vec.mean ((cs.map embRel).map (·.1)))) =
      ((Diagram.bins .ho bsEdgesQ (·.2) cs).flatMap fun b => b.map fun _ =>
        ((Diagram.freq (b.map (·.1))).getD 0 - (Diagram.freq (cs.map (·.1))).getD 0) *
          ((Diagram.freq (b.map (·.1))).getD 0 - (Diagram.freq (cs.map (·.1))).getD 0)).map fin := by
    rw [List.map_flatMap]
    apply List.flatMap_congr
    intro b hbm
    cases hb : b with
    | nil => rfl
    | cons c rest =>
      have hcs : cs ≠ [] := by
        intro hnil
        subst hnil
        unfold Diagram.bins at hbm
        obtain ⟨e, _, he⟩ := List.mem_map.mp hbm
        rw [hb] at he
        simp at he
      rw [← hb, obsMean_emb b (by rw [hb]; simp), obsMean_emb cs hcs, List.map_map, List.map_map]
      apply List.map_congr_left
      intro a _
      simp
  refine Prod.ext ?_ ?_
  · simp only [Function.comp_def]
    rw [hrel, mean_fin]
  · simp only [Function.comp_def]
    rw [hres, mean_fin]

/-- the cases BsDecomp bins: (observation inside the -b interval, probability of the event) -/
theorem C16_bsCases (b : BinType) (hb : b.isWithin = false) (t : Rat) (os ps : List Rat) :
    bsCases b (fin t) (os.map fin) (ps.map fin) =
      ((os.zip ps).map fun c => (decide (Spec.event b t t c.1), pev b c.2)).map embRel := by
  unfold bsCases
  rw [List.zip_map, List.map_map, List.map_map]
  apply List.map_congr_left
  intro c _
  simp only [Function.comp_def, Prod.map, embRel, withinVal_fin, pEvent_fin b hb, boolToXR]
  cases decide (Spec.event b t t c.1) <;> rfl


/-! ### Taylor diagram -/

private theorem mul_ofRats (xs ys : List Rat) :
    Vec.mul (Vec.ofRats xs) (Vec.ofRats ys) = Vec.ofRats (List.zipWith (· * ·) xs ys) := by
  unfold Vec.mul
  induction xs generalizing ys with
  | nil => simp
  | cons x xs ih => cases ys <;> simp [ih]

private theorem sum_sq_nonneg (v : List Rat) (m : Rat) : 0 ≤ (v.map fun a => (a - m) ^ 2).sum := by
  apply List.sum_nonneg
  intro x hx
  obtain ⟨a, _, rfl⟩ := List.mem_map.mp hx
  positivity

/-- Taylor diagram (-x none): the point has radius σ_f (standard deviation of the forecasts) and angle
arccos ρ (Pearson correlation), i.e. Cartesian coordinates (σ_f ρ, σ_f √(1 − ρ²)).
Hypotheses: ρ and σ_f are defined, and |ρ| ≤ 1 (true of the real square root by Cauchy–Schwarz; NumPy
clips for the same reason). -/
theorem C16_def_taylor (T : Tr) (os fs : List Rat) (hne : os ≠ []) (hl : os.length = fs.length)
    (r s : Rat) (hr : Diagram.pearson T os fs = some r) (hs : Stats.std T fs = some s)
    (hr1 : -1 ≤ r) (hr2 : r ≤ 1) :
    taylorPoint T false (Vec.ofRats os) (Vec.ofRats fs) = (fin (s * r), fin (s * T.sqrtQ (1 - r * r))) := by
  have hnf : fs ≠ [] := by
    intro h; subst h; simp at hl; exact hne hl
  have hlo : (os.length : Rat) ≠ 0 := by
    have : 0 < os.length := List.length_pos_iff.mpr hne
    exact_mod_cast this.ne'
  have hlf : (fs.length : Rat) ≠ 0 := by rw [← hl]; exact hlo
  -- the Spec side
  unfold Diagram.pearson at hr
  have hmo : Stats.mean os = some (os.sum / os.length) := by
    simp [Stats.mean, statsSum_eq, List.length_eq_zero_iff, hne]
  have hmf : Stats.mean fs = some (fs.sum / fs.length) := by
    simp [Stats.mean, statsSum_eq, List.length_eq_zero_iff, hnf]
  simp only [hmo, hmf, Option.bind_eq_bind, Option.bind_some, Cont.sdiv, statsSum_eq] at hr
  split at hr
  · simp at hr
  rename_i hden
  simp only [Option.some.injEq] at hr
  -- the Model side
  unfold taylorPoint corrCore
  simp only [Vec.mean_ofRats os hne, Vec.mean_ofRats fs hnf, Vec.subS_ofRats, Vec.npow_ofRats, mul_ofRats,
    Vec.sum_ofRats, Bool.false_eq_true, if_false]
  have hvo := sum_sq_nonneg os (os.sum / os.length)
  have hvf := sum_sq_nonneg fs (fs.sum / fs.length)
  have e1 : (List.map (fun x => x ^ 2) (List.map (fun x => x - os.sum / ↑os.length) os)) =
      os.map fun a => (a - os.sum / os.length) ^ 2 := by simp [List.map_map, Function.comp_def]
  have e2 : (List.map (fun x => x ^ 2) (List.map (fun x => x - fs.sum / ↑fs.length) fs)) =
      fs.map fun a => (a - fs.sum / fs.length) ^ 2 := by simp [List.map_map, Function.comp_def]
  have e3 : List.zipWith (· * ·) (List.map (fun x => x - os.sum / ↑os.length) os) (List.map (fun x => x - fs.sum / ↑fs.length) fs) =
      List.zipWith (fun a b => (a - os.sum / os.length) * (b - fs.sum / fs.length)) os fs := by
    simp [List.zipWith_map_left, List.zipWith_map_right]
  have e4 : (os.map fun a => (a - os.sum / os.length) * (a - os.sum / os.length)) =
      os.map fun a => (a - os.sum / os.length) ^ 2 := by
    apply List.map_congr_left; intro a _; ring
  have e5 : (fs.map fun a => (a - fs.sum / fs.length) * (a - fs.sum / fs.length)) =
      fs.map fun a => (a - fs.sum / fs.length) ^ 2 := by
    apply List.map_congr_left; intro a _; ring
  rw [e4, e5] at hr hden
  rw [e1, e2, e3]
  have hd1 : T.sqrtQ (os.map fun a => (a - os.sum / os.length) ^ 2).sum ≠ 0 := fun h => hden (by rw [h]; ring)
  have hd2 : T.sqrtQ (fs.map fun a => (a - fs.sum / fs.length) ^ 2).sum ≠ 0 := fun h => hden (by rw [h]; ring)
  rw [Tr.sqrt_fin, if_neg (not_lt.mpr hvo), Tr.sqrt_fin, if_neg (not_lt.mpr hvf)]
  rw [fin_div_ne _ _ hd1, fin_div_ne _ _ hd2]
  have hrr : (List.zipWith (fun a b => (a - os.sum / ↑os.length) * (b - fs.sum / ↑fs.length)) os fs).sum /
      T.sqrtQ (os.map fun a => (a - os.sum / os.length) ^ 2).sum / T.sqrtQ (fs.map fun a => (a - fs.sum / fs.length) ^ 2).sum = r := by
    rw [← hr, div_div]
  rw [hrr]
  have c1 : XR.lt (fin 1) (fin r) = false := by simp [XR.lt, not_lt.mpr hr2]
  have c2 : XR.lt (fin r) (fin (-1)) = false := by simp [XR.lt, not_lt.mpr hr1]
  simp only [c1, c2, Bool.false_eq_true, if_false]
  -- σ_f
  have hsv : Vec.var (Vec.ofRats fs) = fin (((fs.map fun x => (x - fs.sum / fs.length) * (x - fs.sum / fs.length)).sum) / fs.length) :=
    Vec.var_ofRats fs hnf
  rw [hsv]
  unfold Stats.std Stats.variance at hs
  simp only [hmf, Option.bind_eq_bind, Option.bind_some, Stats.mean, List.length_map, statsSum_eq,
    List.length_eq_zero_iff, hnf, if_false, Option.map_some, Option.some.injEq] at hs
  have hvn : 0 ≤ ((fs.map fun x => (x - fs.sum / fs.length) * (x - fs.sum / fs.length)).sum) / (fs.length : Rat) := by
    apply div_nonneg
    · rw [e5]; exact hvf
    · positivity
  rw [Tr.sqrt_fin, if_neg (not_lt.mpr hvn), hs]
  have h1r : 0 ≤ 1 - r * r := by nlinarith
  simp only [fin_mul, fin_sub]
  rw [Tr.sqrt_fin, if_neg (not_lt.mpr h1r)]
  simp


/-! ### the shaded band (util.fill) -/

/-- a point of an envelope is valid iff neither its abscissa nor its ordinate is missing -/
def validPt (p : XR × XR) : Bool := !p.1.isNan && !p.2.isNan

private theorem fillKeep_eq (x y : XR) : fillKeep x y = validPt (x, y) := by
  simp [fillKeep, validPt, Bool.not_or]

private theorem fillFwd_eq (xs ys : Vec) : fillFwd xs ys = (List.zip xs ys).filter validPt := by
  induction xs generalizing ys with
  | nil => simp [fillFwd]
  | cons x xs ih =>
    cases ys with
    | nil => simp [fillFwd]
    | cons y ys =>
      simp only [fillFwd, List.zip_cons_cons, List.filter_cons, fillKeep_eq, ih]

private theorem fillBwd_eq (xs ys : Vec) (acc : List (XR × XR)) :
    fillBwd xs ys acc = ((List.zip xs ys).filter validPt).reverse ++ acc := by
  induction xs generalizing ys acc with
  | nil => simp [fillBwd]
  | cons x xs ih =>
    cases ys with
    | nil => simp [fillBwd]
    | cons y ys =>
      simp only [fillBwd, List.zip_cons_cons, List.filter_cons, fillKeep_eq, ih]
      cases validPt (x, y) <;> simp

/-- util.fill, the vertices: exactly the valid (x, lower) points in order, followed by the valid (x, upper)
points in reverse order — each envelope filtered on its OWN missing values.  All inputs. -/
theorem C16_fill_vertices (xs lower upper : Vec) :
    fillPolygon xs lower upper =
      (List.zip xs lower).filter validPt ++ ((List.zip xs upper).filter validPt).reverse := by
  simp [fillPolygon, fillFwd_eq, fillBwd_eq]

/-- util.fill: no vertex of the polygon has a NaN coordinate.  All inputs. -/
theorem C16_fill_no_nan (xs lower upper : Vec) :
    ∀ v ∈ fillPolygon xs lower upper, v.1.isNan = false ∧ v.2.isNan = false := by
  intro v hv
  rw [C16_fill_vertices] at hv
  have key : ∀ (l : List (XR × XR)), v ∈ l.filter validPt → v.1.isNan = false ∧ v.2.isNan = false := by
    intro l h
    have := (List.mem_filter.mp h).2
    simpa [validPt] using this
  rcases List.mem_append.mp hv with h | h
  · exact key _ h
  · exact key _ (List.mem_reverse.mp h)

/-- util.fill: the number of vertices is the number of valid lower points plus the number of valid upper points -/
theorem C16_fill_length (xs lower upper : Vec) :
    (fillPolygon xs lower upper).length =
      ((List.zip xs lower).filter validPt).length + ((List.zip xs upper).filter validPt).length := by
  simp [C16_fill_vertices]

private theorem filter_validPt_all (xs ys : Vec) (hx : ∀ x ∈ xs, x.isNan = false) (hy : ∀ y ∈ ys, y.isNan = false) :
    (List.zip xs ys).filter validPt = List.zip xs ys := by
  apply List.filter_eq_self.mpr
  intro p hp
  have h1 := hx p.1 (List.of_mem_zip hp).1
  have h2 := hy p.2 (List.of_mem_zip hp).2
  simp [validPt, h1, h2]

/-- util.fill with nothing missing: all n lower points forward, all n upper points backward, 2·n vertices -/
theorem C16_fill_complete (xs lower upper : Vec) (hl : lower.length = xs.length) (hu : upper.length = xs.length)
    (hx : ∀ x ∈ xs, x.isNan = false) (hlo : ∀ y ∈ lower, y.isNan = false) (hup : ∀ y ∈ upper, y.isNan = false) :
    fillPolygon xs lower upper = List.zip xs lower ++ (List.zip xs upper).reverse ∧
    (fillPolygon xs lower upper).length = 2 * xs.length := by
  have e : fillPolygon xs lower upper = List.zip xs lower ++ (List.zip xs upper).reverse := by
    rw [C16_fill_vertices, filter_validPt_all xs lower hx hlo, filter_validPt_all xs upper hx hup]
  refine ⟨e, ?_⟩
  rw [e]
  simp [List.length_zip, hl, hu]
  omega

private theorem mem_zip_of_getElem? (xs ys : Vec) (i : Nat) (x y : XR) (hx : xs[i]? = some x) (hy : ys[i]? = some y) :
    (x, y) ∈ List.zip xs ys := by
  induction xs generalizing ys i with
  | nil => simp at hx
  | cons a xs ih =>
    cases ys with
    | nil => simp at hy
    | cons b ys =>
      cases i with
      | zero =>
        simp only [List.getElem?_cons_zero, Option.some.injEq] at hx hy
        simp [hx, hy]
      | succ i =>
        simp only [List.getElem?_cons_succ] at hx hy
        simp only [List.zip_cons_cons, List.mem_cons]
        exact Or.inr (ih ys i hx hy)

/-- util.fill: a point that is missing in one envelope only still contributes its other vertex (whatever the
other envelope holds at that abscissa — in particular when it is NaN there) -/
theorem C16_fill_one_sided (xs lower upper : Vec) (i : Nat) (x l u : XR)
    (hx : xs[i]? = some x) (hl : lower[i]? = some l) (hu : upper[i]? = some u) (hxn : x.isNan = false) :
    (u.isNan = false → (x, u) ∈ fillPolygon xs lower upper) ∧
    (l.isNan = false → (x, l) ∈ fillPolygon xs lower upper) := by
  rw [C16_fill_vertices]
  constructor
  · intro h
    apply List.mem_append_right
    rw [List.mem_reverse, List.mem_filter]
    exact ⟨mem_zip_of_getElem? xs upper i x u hx hu, by simp [validPt, hxn, h]⟩
  · intro h
    apply List.mem_append_left
    rw [List.mem_filter]
    exact ⟨mem_zip_of_getElem? xs lower i x l hx hl, by simp [validPt, hxn, h]⟩

private theorem envelope_emb (xs ys : List (Option Rat)) :
    (List.zip (xs.map toXR) (ys.map toXR)).filter validPt =
      (Diagram.envelope xs ys).map fun p => (fin p.1, fin p.2) := by
  induction xs generalizing ys with
  | nil => simp [Diagram.envelope]
  | cons a xs ih =>
    cases ys with
    | nil => simp [Diagram.envelope]
    | cons b ys =>
      have ih' := ih ys
      simp only [Diagram.envelope, toXR] at ih' ⊢
      simp only [List.map_cons, List.zip_cons_cons, List.filter_cons, List.filterMap_cons]
      cases a <;> cases b <;> simp [Cont.toXR, validPt, ih']

/-- util.fill draws the band of the Spec: the lower envelope forward, the upper envelope backward, each at
exactly the points where it is defined (missing = NaN) -/
theorem C16_def_fill (xs lower upper : List (Option Rat)) :
    fillPolygon (xs.map toXR) (lower.map toXR) (upper.map toXR) =
      (Diagram.band xs lower upper).map fun p => (fin p.1, fin p.2) := by
  rw [C16_fill_vertices, envelope_emb, envelope_emb]
  simp [Diagram.band, List.map_reverse]

private theorem zip_fst_snd {α β : Type} (l : List (α × β)) : List.zip (l.map (·.1)) (l.map (·.2)) = l := by
  induction l with
  | nil => rfl
  | cons a l ih => simp [ih]

/-- ObsFcst's bands are util.fill polygons between the i-th and the i-th last quantile line -/
theorem C16_obsfcst_bands (ax : Vec) (qs : List (String × List Vec)) (s : Series) (hs : s ∈ obsfcstBands ax qs) :
    ∃ i, i < qs.length / 2 ∧ ∃ lo hi, (qs[i]?).map (·.2) = some lo ∧ (qs[qs.length - 1 - i]?).map (·.2) = some hi ∧
      s.kind = "poly" ∧ (List.zip s.xs s.ys) = fillPolygon ax (sliceMeans lo) (sliceMeans hi) ∧
      fillPolygon ax (sliceMeans lo) (sliceMeans hi) ≠ [] := by
  simp only [obsfcstBands, List.mem_flatMap, List.mem_range] at hs
  obtain ⟨i, hi, hs⟩ := hs
  have h1 : i < qs.length := by omega
  have h2 : qs.length - 1 - i < qs.length := by omega
  refine ⟨i, hi, (qs[i]'h1).2, (qs[qs.length - 1 - i]'h2).2, by simp [h1], by simp [h2], ?_⟩
  simp only [List.getElem?_eq_getElem h1, List.getElem?_eq_getElem h2, Option.map_some, Option.getD_some, fillSeries] at hs
  split at hs
  · simp at hs
  · rename_i hne
    simp only [List.mem_singleton] at hs
    subst hs
    refine ⟨rfl, ?_, by simpa using hne⟩
    exact zip_fst_snd _

/-! ## 5. Non-vacuity: the hypotheses are satisfiable on non-trivial instances -/

def idTr : Tr := ⟨id, id, id, id⟩

example : StrictInc [0, 1/20, 3/20, 1] ∧ binCount .ho [0, 1/20, 3/20, 1] (1/20) = 1 ∧
    binCount .ho [0, 1/20, 3/20, 1] 1 = 0 ∧ binCount .hist [0, 1/20, 3/20, 1] 1 = 1 ∧
    binCount .oc [0, 1/20, 3/20, 1] 0 = 0 ∧ binCount .oc [0, 1/20, 3/20, 1] 1 = 1 ∧
    binCountF .ocf [0, 1/20, 3/20, 1] 0 = 1 ∧ binCountF .ocf [0, 1/20, 3/20, 1] (1/20) = 1 := by
  refine ⟨by simp only [StrictInc]; norm_num, by decide +kernel, by decide +kernel, by decide +kernel,
    by decide +kernel, by decide +kernel, by decide +kernel, by decide +kernel⟩

example : Diagram.reliability .hist [0, 1/2, 1] [(true, 3/4), (false, 1/4), (true, 1/2), (false, 3/4), (true, 1)] =
    [(some (1/4), some 0, 1), (some (3/4), some (3/4), 4)] := by decide +kernel

example : Diagram.errorDecomp idTr [0, 2] [1, 1] = some (1, 0) := by decide +kernel

example : Diagram.pearson idTr [0, 2] [0, 1] = some 1 ∧ Stats.std idTr [0, 1] = some (1/4) := by
  constructor <;> decide +kernel

example : Diagram.roc [1/2] [(true, 3/4), (false, 1/4), (true, 1/4)] = [some (1, 1), some (0, 1/2), some (0, 0)] := by
  decide +kernel

example : (perInput (fun k (v : Vec) => [({ ax := 0, kind := "line", label := inName k, xs := v, ys := v } : Series)])
    [[fin 1], [fin 2], [fin 3]]).map (·.label) = ["in0", "in1", "in2"] := by decide +kernel

/-- the band of three abscissae whose upper envelope is missing at the second and whose lower envelope is
missing at the third: 2 lower + 2 upper vertices, none NaN, each envelope with its own points -/
example : fillPolygon [fin 0, fin 6, fin 12] [fin 1, fin 2, nan] [fin 5, nan, fin 7] =
    [(fin 0, fin 1), (fin 6, fin 2), (fin 12, fin 7), (fin 0, fin 5)] := by decide +kernel

example : Diagram.band [some 0, some 6, some 12] [some 1, some 2, none] [some 5, none, some 7] =
    [(0, 1), (6, 2), (12, 7), (0, 5)] := by decide +kernel

example : fillPolygon [fin 0, nan] [fin 1, fin 2] [fin 5, fin 3] = [(fin 0, fin 1), (fin 0, fin 5)] ∧
    fillPolygon [fin 0] [nan] [nan] = [] ∧
    (fillPolygon [fin 0, fin 1] [fin 1, fin 2] [fin 5, pinf]).length = 4 := by
  refine ⟨by decide +kernel, by decide +kernel, by decide +kernel⟩

end VerifModel.C16
