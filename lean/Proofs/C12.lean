import VerifModel.Model.OutputTable
import Proofs.Lemmas.Table
import Proofs.Lemmas.XR
import Proofs.Lemmas.Decimal
/-
  C12 — Text and CSV outputs report exactly the computed scores.

  Property theorems only.  The model is `Model/OutputTable.lean` (`csvChars`, `textChars`, `emit`,
  `acc`, `thresholdAvg`) and `Base/Decimal.lean` (`fmtGChars` = `%.{p}g`; its numeric core and the reader `valueOf?` are
  analysed in `Proofs/Lemmas/Decimal.lean`).  The readers used to
  state the round trips (`parseCsv` = split on newline then on ','; `parseText` = split on newline,
  then on '|', drop what follows the last bar, trim) and the decidable domain predicates `CsvOk`,
  `TextOk` are defined in `Proofs/Lemmas/Table.lean` next to the list lemmas about them.
-/
namespace VerifModel.C12
open VerifModel Decimal OutputTable

/-! ### csv -/

/-- parse ∘ print for `Output.csv`: reading the emitted text back gives the header
`descriptor names ++ legend` (legend = file names in command-line order, or the `-leg` names — the
table's `legend` field) followed by exactly one line per slice, in the order of the rows, each made of
the slice's descriptors followed by one `%g` score per input, in the order of the inputs.  Hence no
row or column is dropped, duplicated or transposed.  Any number of rows, descriptors and inputs. -/
theorem C12_csv_shape (t : Table Str) (h : CsvOk t = true) :
    parseCsv (csvChars t) = (t.names ++ t.legend) :: t.rows.map csvFields := by
  simp only [CsvOk, Bool.and_eq_true, Bool.not_eq_true', List.isEmpty_eq_false_iff, List.all_eq_true,
    beq_iff_eq] at h
  obtain ⟨⟨⟨⟨hn, hl⟩, hnf⟩, hlf⟩, hr⟩ := h
  -- the lines as lists of fields
  let lines : List (List Str) := (t.names ++ t.legend) :: t.rows.map csvFields
  have hlines : ∀ F ∈ lines, F ≠ [] ∧ ∀ f ∈ F, csvFieldOk f = true := by
    intro F hF
    simp only [lines, List.mem_cons, List.mem_map] at hF
    rcases hF with rfl | ⟨r, hr', rfl⟩
    · refine ⟨by simp [hn], ?_⟩
      intro f hf
      rcases List.mem_append.1 hf with hf | hf
      · exact hnf f hf
      · exact hlf f hf
    · obtain ⟨⟨h1, _⟩, h3⟩ := hr r hr'
      have : r.1 ≠ [] := by
        intro e; rw [e] at h1; simp at h1; exact hn (List.eq_nil_of_length_eq_zero h1.symm)
      refine ⟨by simp [csvFields, this], ?_⟩
      intro f hf
      rcases List.mem_append.1 hf with hf | hf
      · exact h3 f hf
      · obtain ⟨y, _, rfl⟩ := List.mem_map.1 hf
        exact csvFieldOk_fmtG y
  -- the text before strip()
  have hbody : csvHeader t ++ (t.rows.map csvRow).flatten =
      join ['\n'] (lines.map (join [','])) ++ ['\n'] := by
    rw [← flatten_lines ['\n'] (lines.map (join [','])) (by simp [lines])]
    simp only [lines, List.map_cons, List.map_map, List.flatten_cons]
    congr 1
    · simp only [csvHeader]
      rw [join_append [','] t.names t.legend hn hl]
    · congr 1
      apply List.map_congr_left
      intro r hr'
      obtain ⟨⟨h1, _⟩, _⟩ := hr r hr'
      have : r.1 ≠ [] := by
        intro e; rw [e] at h1; simp at h1; exact hn (List.eq_nil_of_length_eq_zero h1.symm)
      simp only [Function.comp, csvRow, csvFields]
      rw [join_append_map [','] r.1 _ this, List.map_map]
      rfl
  have hfacts : ∀ L ∈ lines.map (join [',']), '\n' ∉ L ∧ edgeOk L = true := by
    intro L hL
    obtain ⟨F, hF, rfl⟩ := List.mem_map.1 hL
    have := line_facts F (hlines F hF).1 (hlines F hF).2
    exact ⟨this.2.1, this.2.2⟩
  have hedge : edgeOk (join ['\n'] (lines.map (join [',']))) = true :=
    edgeOk_join _ _ (by simp [lines]) (fun L hL => (hfacts L hL).2)
  have htrim : trimmed (join ['\n'] (lines.map (join [',']))) = true := by
    simp only [edgeOk, Bool.and_eq_true] at hedge; exact hedge.2
  have hstrip : csvChars t = join ['\n'] (lines.map (join [','])) := by
    unfold csvChars
    rw [hbody]
    have := strip_pad [] (join ['\n'] (lines.map (join [',']))) ['\n'] (by simp) (by decide) htrim
    simpa using this
  unfold parseCsv
  rw [hstrip, splitC_join '\n' _ (by simp [lines]) (fun L hL => (hfacts L hL).1), List.map_map]
  show List.map _ lines = lines
  conv => rhs; rw [← List.map_id lines]
  apply List.map_congr_left
  intro F hF
  exact (line_facts F (hlines F hF).1 (hlines F hF).2).1





/-- one line per slice, after one header line … -/
theorem C12_csv_lines (t : Table Str) (h : CsvOk t = true) :
    (parseCsv (csvChars t)).length = t.rows.length + 1 ∧
    (parseCsv (csvChars t))[0]? = some (t.names ++ t.legend) ∧
    ∀ i, (parseCsv (csvChars t))[i + 1]? = (t.rows[i]?).map csvFields := by
  rw [C12_csv_shape t h]
  refine ⟨by simp, by simp, fun i => by simp⟩

/-- … and in line i the score of input f is `"%g" % y[i][f]`, at column (number of descriptors) + f. -/
theorem C12_csv_cell (t : Table Str) (h : CsvOk t = true) (i f : Nat) (r : List Str × List XR) (y : XR)
    (hr : t.rows[i]? = some r) (hy : r.2[f]? = some y) :
    ((parseCsv (csvChars t))[i + 1]?.bind (·[t.names.length + f]?)) = some (fmtGChars 6 y) := by
  have hlen : r.1.length = t.names.length := by
    simp only [CsvOk, Bool.and_eq_true, List.all_eq_true, beq_iff_eq] at h
    exact (h.2 r (List.mem_of_getElem? hr)).1.1
  rw [(C12_csv_lines t h).2.2 i, hr]
  simp [csvFields, ← hlen, List.getElem?_append_right, hy]

/-! ### text -/

/-- parse ∘ print for `Output.text` (`|`-separated, cells padded to max(20, len(name)+1) resp.
max(11, len(label)+1), scores `%.4g`, numeric descriptors `%g`). -/
theorem C12_text_shape (t : Table Desc) (h : TextOk t = true) :
    parseText (textChars t) = (t.names ++ t.legend) :: t.rows.map textFields := by
  simp only [TextOk, Bool.and_eq_true, List.all_eq_true, beq_iff_eq] at h
  obtain ⟨⟨⟨h0, hnf⟩, hlf⟩, hr⟩ := h
  obtain ⟨n0, nrest, hn0⟩ : ∃ n0 nrest, t.names = n0 :: nrest := by
    cases hn : t.names with
    | nil => rw [hn] at h0; simp at h0
    | cons a b => exact ⟨a, b, rfl⟩
  rw [hn0] at h0
  simp only at h0
  let lines : List (List (Nat × Str)) := hdrCells t :: t.rows.map (rowCells t)
  -- contents of the cells
  have hsnd : lines.map (fun cs => cs.map (·.2)) = (t.names ++ t.legend) :: t.rows.map textFields := by
    simp only [lines, List.map_cons, List.map_map]
    congr 1
    · simp [hdrCells, List.map_append, List.map_map, Function.comp_def]
    · apply List.map_congr_left
      intro r hr'
      obtain ⟨⟨h1, h2⟩, _⟩ := hr r hr'
      simp only [Function.comp, rowCells, textFields, List.map_append]
      rw [map_snd_zip' _ _ (by simp [h1]), map_snd_zip' _ _ (by simp [h2])]
  have hok : ∀ cs ∈ lines, cs ≠ [] ∧ ∀ c ∈ cs, textFieldOk c.2 = true := by
    intro cs hcs
    simp only [lines, List.mem_cons, List.mem_map] at hcs
    rcases hcs with rfl | ⟨r, hr', rfl⟩
    · refine ⟨by simp [hdrCells, hn0], ?_⟩
      intro c hc
      simp only [hdrCells, List.mem_append, List.mem_map] at hc
      rcases hc with ⟨w, hw, rfl⟩ | ⟨l, hl, rfl⟩
      · exact hnf w hw
      · exact hlf l hl
    · obtain ⟨⟨h1, h2⟩, h3⟩ := hr r hr'
      refine ⟨?_, ?_⟩
      · cases hd : r.1 with
        | nil => rw [hd, hn0] at h1; simp at h1
        | cons d ds => simp [rowCells, hn0, hd]
      · intro c hc
        simp only [rowCells, List.mem_append] at hc
        rcases hc with hc | hc
        · have := (List.of_mem_zip hc).2
          obtain ⟨d, hd, e⟩ := List.mem_map.1 this
          rw [← e]; exact textFieldOk_descStr d (h3 d hd)
        · have := (List.of_mem_zip hc).2
          obtain ⟨y, _, e⟩ := List.mem_map.1 this
          rw [← e]; exact textFieldOk_fmtG 4 y
  -- the text before strip()
  have hbody : textHeader t ++ (t.rows.map (textRow t)).flatten =
      join [' ', '\n'] (lines.map barLine) ++ [' ', '\n'] := by
    rw [← flatten_lines [' ', '\n'] (lines.map barLine) (by simp [lines])]
    have hl : ∀ cs ∈ lines, cellsLine cs ++ ['\n'] = barLine cs ++ [' ', '\n'] := by
      intro cs hcs; rw [cellsLine_eq cs (hok cs hcs).1]; simp
    rw [List.map_map]
    have : (lines.map (fun cs => cellsLine cs ++ ['\n'])) = lines.map ((fun l => l ++ [' ', '\n']) ∘ barLine) :=
      List.map_congr_left (fun cs hcs => hl cs hcs)
    rw [← this]
    simp only [lines, List.map_cons, List.flatten_cons, List.map_map]
    congr 1
    · simp [textHeader, cellsLine, hdrCells, List.map_append, List.map_map, Function.comp_def]
    · congr 1
      apply List.map_congr_left
      intro r _
      simp only [Function.comp, textRow, zipCells, cellsLine, rowCells, List.map_append, List.flatten_append,
        zipWith_eq_map_zip]
  -- strip() removes exactly the final blank and newline
  have hfirst : lines.map barLine = barLine (hdrCells t) :: (t.rows.map (rowCells t)).map barLine := rfl
  have hn0ne : n0 ≠ [] := by
    intro e; rw [e] at h0; simp [edgeOk] at h0
  have hhead : (join [' ', '\n'] (lines.map barLine)).head? = n0.head? := by
    rw [hfirst, head?_join]
    · simp only [hdrCells, hn0, List.map_cons, List.cons_append]
      rw [barLine_head? _ _ hn0ne]
    · intro e
      have := barLine_getLast? (hdrCells t) (hok _ (by simp [lines])).1
      rw [e] at this; simp at this
  have hlast : (join [' ', '\n'] (lines.map barLine)).getLast? = some '|' := by
    obtain ⟨init, l, hl⟩ : ∃ init l, lines = init ++ [l] :=
      ⟨lines.dropLast, lines.getLast (by simp [lines]), (List.dropLast_concat_getLast (by simp [lines])).symm⟩
    have hlm : l ∈ lines := by rw [hl]; simp
    have hb := barLine_getLast? l (hok l hlm).1
    rw [hl, List.map_append, List.map_singleton, getLast?_join _ _ _ (by intro e; rw [e] at hb; simp at hb), hb]
  have htrim : trimmed (join [' ', '\n'] (lines.map barLine)) = true := by
    have he := (edgeOk_iff n0).1 h0
    obtain ⟨a, _, ha, _, hsa, _⟩ := he
    simp only [trimmed, hhead, ha, hlast, hsa]
    decide
  have hstrip : textChars t = join [' ', '\n'] (lines.map barLine) := by
    unfold textChars
    rw [hbody]
    have := strip_pad [] (join [' ', '\n'] (lines.map barLine)) [' ', '\n'] (by simp) (by decide) htrim
    simpa using this
  have hparse : ∀ cs ∈ lines, ∀ tail : Str, '|' ∉ tail → parseLine (barLine cs ++ tail) = cs.map (·.2) := by
    intro cs hcs tail htail
    have := parse_barLine cs (hok cs hcs).1 (hok cs hcs).2 [] tail (by simp) (by simp) htail
    simpa [parseLine] using this
  unfold parseText
  rw [hstrip]
  have e2 : ([' ', '\n'] : Str) = [' '] ++ ['\n'] := rfl
  rw [e2, map_splitC_join2 '\n' [' '] parseLine (lines.map barLine) (by simp [lines]) ?_ (by decide) ?_]
  · rw [List.map_map, ← hsnd]
    apply List.map_congr_left
    intro cs hcs
    have := hparse cs hcs [] (by simp)
    simpa using this
  · intro L hL
    obtain ⟨cs, hcs, rfl⟩ := List.mem_map.1 hL
    intro hm
    rcases mem_barLine cs _ hm with hm | hm | ⟨x, hx, hm⟩
    · exact absurd hm (by decide)
    · exact absurd hm (by decide)
    · exact ((textFieldOk_iff x.2).1 ((hok cs hcs).2 x hx)).1.2 hm
  · intro L hL
    obtain ⟨cs, hcs, rfl⟩ := List.mem_map.1 hL
    rw [hparse cs hcs [' '] (by decide)]
    have := hparse cs hcs [] (by simp)
    simpa using this.symm


theorem C12_text_lines (t : Table Desc) (h : TextOk t = true) :
    (parseText (textChars t)).length = t.rows.length + 1 ∧
    (parseText (textChars t))[0]? = some (t.names ++ t.legend) ∧
    ∀ i, (parseText (textChars t))[i + 1]? = (t.rows[i]?).map textFields := by
  rw [C12_text_shape t h]
  refine ⟨by simp, by simp, fun i => by simp⟩

/-! ### `%g` -/


theorem digit_ne_e (c : Char) (h : isDigitC c = true) : c ≠ 'e' := by
  rintro rfl; simp [isDigitC] at h

theorem e_notin_fixed (P : Nat) (d : Dec) : 'e' ∉ fixedChars P d := by
  intro h
  simp only [fixedChars, List.mem_append] at h
  rcases h with h | h
  · exact digit_ne_e _ (Decimal.natChars_digits _ _ h) rfl
  · simp only [fracChars] at h
    split at h
    · simp at h
    · simp only [List.mem_cons, List.mem_map, List.mem_reverse] at h
      rcases h with h | ⟨x, hx, hxe⟩
      · exact absurd h (by decide)
      · have hlt := Decimal.padRev_lt _ _ x ((List.dropWhile_sublist _).subset hx)
        exact digit_ne_e _ (Decimal.isDigitC_digitChar x hlt) hxe

theorem e_in_sci (P : Nat) (d : Dec) : 'e' ∈ sciChars P d := by
  simp [sciChars, expChars]

/-- `%.{p}g` is sound (FULL statement, all non-zero rationals, both notations): the printed numeral
reads back as a number v = ±m·10^(X-P+1) with exactly P significant digits (10^(P-1) ≤ m < 10^P, so X is
the decimal exponent of v) that lies within half a unit of its P-th significant digit of the exact value q,
and the scientific notation is used exactly when X < -4 or X ≥ P.  (P = p, or 1 for p = 0.) -/
theorem C12_fmtG_sound (p : Nat) (q : Rat) (hq : q ≠ 0) :
    ∃ (v : Rat) (X : Int) (m : Nat),
      valueOf? (fmtGChars p (.fin q)) = some (.fin v) ∧
      |v| = (m : Rat) * pow10 (X - ((precOf p : Int) - 1)) ∧
      10 ^ (precOf p - 1) ≤ m ∧ m < 10 ^ precOf p ∧
      |v - q| ≤ (1 / 2) * pow10 (X - ((precOf p : Int) - 1)) ∧
      (0 < v ↔ 0 < q) ∧
      ('e' ∈ fmtGChars p (.fin q) ↔ (X < -4 ∨ (precOf p : Int) ≤ X)) := by
  have hP := precOf_pos p
  have hn : 0 < q.num.natAbs := Int.natAbs_pos.2 (Rat.num_ne_zero.2 hq)
  obtain ⟨v, hv, hb⟩ := fmtG_sound p q hq
  have hreads := fmtG_reads p q hq
  set d := toDec (precOf p) q.num.natAbs q.den with hd
  have hdig := toDec_digits (precOf p) q.num.natAbs q.den hP hn q.den_pos
  have hval := Dec.value_eq (precOf p) d
  have hpos : 0 < d.value (precOf p) := by
    rw [hval]
    have : (0 : Rat) < (d.digits : Rat) := by
      have := hdig.1
      have h10 : 0 < 10 ^ (precOf p - 1) := Nat.pow_pos (by decide)
      exact_mod_cast Nat.lt_of_lt_of_le h10 this
    exact mul_pos this (pow10_pos _)
  have hveq : v = if q < 0 then -(d.value (precOf p)) else d.value (precOf p) := by
    rw [hreads] at hv
    simpa using hv.symm
  refine ⟨v, d.exp, d.digits, hv, ?_, hdig.1, hdig.2, hb, ?_, ?_⟩
  · rw [hveq]
    split
    · rw [abs_neg, abs_of_pos hpos, hval]
    · rw [abs_of_pos hpos, hval]
  · rw [hveq]
    by_cases hneg : q < 0
    · simp only [hneg, if_true]
      constructor
      · intro h; linarith
      · intro h; linarith
    · simp only [hneg, if_false]
      have : 0 < q := lt_of_le_of_ne (not_lt.1 hneg) (Ne.symm hq)
      exact ⟨fun _ => this, fun _ => hpos⟩
  · have hne : ∀ (s : List Char), ('e' ∈ (if q < 0 then ['-'] else []) ++ s ↔ 'e' ∈ s) := by
      intro s; split <;> simp
    simp only [fmtGChars, hq, if_false, fmtRatChars]
    rw [hne]
    by_cases hf : useFixed (precOf p) d = true
    · rw [← hd]
      simp only [hf, if_true]
      simp only [useFixed, Bool.and_eq_true, decide_eq_true_eq] at hf
      constructor
      · intro h; exact absurd h (e_notin_fixed _ _)
      · intro h; omega
    · rw [← hd]
      simp only [hf]
      simp only [useFixed, Bool.and_eq_true, decide_eq_true_eq, not_and, not_lt] at hf
      constructor
      · intro _
        by_cases h4 : d.exp < -4
        · exact Or.inl h4
        · exact Or.inr (hf (by omega))
      · intro _; exact e_in_sci _ _

/-- zero, NaN and the infinities are printed as `0`, `nan`, `inf`, `-inf` -/
theorem C12_fmtG_special (p : Nat) :
    fmtGChars p (.fin 0) = ['0'] ∧ fmtGChars p .nan = ['n', 'a', 'n'] ∧
    fmtGChars p .pinf = ['i', 'n', 'f'] ∧ fmtGChars p .ninf = ['-', 'i', 'n', 'f'] ∧
    ∀ x : XR, x = .fin 0 ∨ x.isFinite = false → valueOf? (fmtGChars p x) = some x := by
  refine ⟨by simp [fmtGChars], rfl, rfl, rfl, ?_⟩
  intro x hx
  rcases hx with rfl | hx
  · exact fmtG_zero p
  · cases x with
    | fin q => simp [XR.isFinite] at hx
    | nan => exact fmtG_nan p
    | pinf => exact fmtG_pinf p
    | ninf => exact fmtG_ninf p

/-- a formatted score is never empty and contains no separator, newline or blank — this is what lets
the round-trip theorems treat score fields like any other field -/
theorem C12_fmtG_chars (p : Nat) (x : XR) :
    fmtGChars p x ≠ [] ∧ ∀ c ∈ fmtGChars p x, c ≠ ',' ∧ c ≠ '|' ∧ c ≠ '\n' ∧ pyIsSpace c = false :=
  ⟨fmtGChars_ne p x, fun c hc => (plain_iff c).1 (fmtGChars_plain p x c hc)⟩


/-! ### which descriptors identify a threshold slice -/

/-- For every threshold-like axis (`-x threshold|obs|fcst`) and both writers the descriptor column is
`self.thresholds`: the leading field of row i is threshold i, under the header name Threshold / Observed /
Forecasted.  (Full strength since /repo b4341a8 gave `Output.csv` the Obs/Fcst branches of `Output.text`;
before, csv printed the placeholder column of `Data.get_axis_descriptions`.) -/
theorem C12_descs {κ : Type} (csv : Bool) (ax : AxisKind) (hax : ax ≠ .other) (thr : κ)
    (ad : List (Str × κ)) :
    (selectDescs csv ax thr ad).map (·.2) = [thr] ∧
    (selectDescs csv ax thr ad).map (·.1) =
      [match ax with
        | .threshold => "Threshold".toList | .obs => "Observed".toList
        | .fcst => "Forecasted".toList | .other => []] := by
  cases ax <;> cases csv <;> first | exact absurd rfl hax | simp [selectDescs]

/-- every other axis is described by `Data.get_axis_descriptions` -/
theorem C12_descs_other {κ : Type} (csv : Bool) (thr : κ) (ad : List (Str × κ)) :
    selectDescs csv .other thr ad = ad := rfl

/-- non-vacuity / test: csv with the obs axis names the column Observed and prints the thresholds -/
example : selectDescs true .obs "T" [("Obs".toList, "A")] = [("Observed".toList, "T")] := by decide

/-! ### `-f` -/

/-- With a file name the string goes to the file and nothing is printed; the file content is exactly
what is printed without a file name (structural: both branches emit `s ++ "\n"`). -/
theorem C12_file_same (f s : Str) :
    (emit (some f) s).file = some (f, (emit none s).stdout) ∧ (emit (some f) s).stdout = [] ∧
    (emit none s).file = none := ⟨rfl, rfl, rfl⟩

/-! ### `-acc` -/


/-- the scores of column j in the given rows, after `nan_to_num` -/
def colNum (rows : List (List XR)) (j : Nat) : List XR := rows.map fun r => nanToNum (r.getD j .nan)

theorem nanToNum_zero_add (x : XR) : (XR.fin 0 + nanToNum x : XR) = nanToNum x := by
  cases x <;> first | rfl | simp [nanToNum]

theorem addRows_getD (s r : List XR) (j : Nat) (hs : j < s.length) (hr : j < r.length) :
    (addRows s (r.map nanToNum)).getD j .nan = s.getD j .nan + nanToNum (r.getD j .nan) := by
  simp [addRows, List.getD, hs, hr]

theorem addRows_length (s r : List XR) (n : Nat) (hs : s.length = n) (hr : r.length = n) :
    (addRows s (r.map nanToNum)).length = n := by simp [addRows, hs, hr]

theorem accFrom_get (n : Nat) (rows : List (List XR)) (hrect : ∀ r ∈ rows, r.length = n)
    (s : List XR) (hs : s.length = n) (i j : Nat) (hi : i < rows.length) (hj : j < n) :
    ((accFrom s rows)[i]?.bind (·[j]?)) =
      some ((colNum (rows.take (i + 1)) j).foldl (· + ·) (s.getD j .nan)) := by
  induction rows generalizing s i with
  | nil => simp at hi
  | cons r rs ih =>
    have hr : r.length = n := hrect r (by simp)
    have hlen := addRows_length s r n hs hr
    have hget := addRows_getD s r j (by omega) (by omega)
    cases i with
    | zero =>
      simp only [accFrom, List.getElem?_cons_zero, Option.bind_some, colNum, List.take_succ_cons,
        List.take_zero, List.map_cons, List.map_nil, List.foldl_cons, List.foldl_nil]
      rw [← hget, List.getD_eq_getElem?_getD, List.getElem?_eq_getElem (by omega)]
      rfl
    | succ i =>
      simp only [accFrom, List.getElem?_cons_succ]
      rw [ih (fun x hx => hrect x (by simp [hx])) _ hlen i (by simpa using hi)]
      simp only [colNum, List.take_succ_cons, List.map_cons, List.foldl_cons, hget]

/-- `-acc`: entry (i, j) of the accumulated table is the running sum Σ_{k ≤ i} nanToNum(y[k][j])
(`Vec.sum` is the left fold from 0). -/
theorem C12_acc (n : Nat) (rows : List (List XR)) (hrect : ∀ r ∈ rows, r.length = n)
    (i j : Nat) (hi : i < rows.length) (hj : j < n) :
    ((acc rows)[i]?.bind (·[j]?)) = some (Vec.sum (colNum (rows.take (i + 1)) j)) := by
  cases rows with
  | nil => simp at hi
  | cons r rs =>
    have hr : r.length = n := hrect r (by simp)
    cases i with
    | zero =>
      simp only [acc, List.getElem?_cons_zero, Option.bind_some, colNum, Vec.sum, List.take_succ_cons,
        List.take_zero, List.map_cons, List.map_nil, List.foldl_cons, List.foldl_nil, nanToNum_zero_add]
      simp [List.getD, hr, hj]
    | succ i =>
      simp only [acc, List.getElem?_cons_succ]
      rw [accFrom_get n rs (fun x hx => hrect x (by simp [hx])) _ (by simp [hr]) i j (by simpa using hi) hj]
      simp only [colNum, Vec.sum, List.take_succ_cons, List.map_cons, List.foldl_cons, nanToNum_zero_add]
      congr 2
      simp [List.getD, hr, hj]

/-- NaN counts as 0, everything else as itself -/
def nan0 (x : XR) : XR := if x.isNan then .fin 0 else x

/-- FULL statement of the property: `-acc` reports running sums along the axis, a missing score counting
as 0 — for every input, infinite scores included (no hypothesis on ±inf): the running sum is infinite from
an infinite score on (and NaN once +inf and −inf have both occurred, as in IEEE arithmetic). -/
theorem C12_acc_full (n : Nat) (rows : List (List XR)) (hrect : ∀ r ∈ rows, r.length = n)
    (i j : Nat) (hi : i < rows.length) (hj : j < n) :
    ((acc rows)[i]?.bind (·[j]?)) =
      some (Vec.sum ((rows.take (i + 1)).map fun r => nan0 (r.getD j .nan))) := by
  rw [C12_acc n rows hrect i j hi hj]
  congr 2
  simp only [colNum]
  apply List.map_congr_left
  intro r _
  cases h : r.getD j .nan <;> simp [nanToNum, nan0, XR.isNan]

/-- the former witness of acc-inf (an infinite score was reported as the largest double): the accumulated
value is the infinite running sum, and stays infinite in the following rows -/
example : acc [[.pinf], [.fin 1], [.nan]] = [[.pinf], [.pinf], [.pinf]] ∧ Vec.sum ([.pinf].map nan0) = .pinf := by
  constructor <;> decide +kernel

/-! ### threshold averaging -/

theorem foldl_addRows_get (n : Nat) (per : List (List XR)) (hrect : ∀ r ∈ per, r.length = n)
    (s : List XR) (hs : s.length = n) (i : Nat) (hi : i < n) :
    (per.foldl addRows s)[i]? = some ((per.map (·.getD i .nan)).foldl (· + ·) (s.getD i .nan)) := by
  induction per generalizing s with
  | nil => simp [List.getD, hs, hi]
  | cons r rs ih =>
    have hr : r.length = n := hrect r (by simp)
    simp only [List.foldl_cons, List.map_cons]
    rw [ih (fun x hx => hrect x (by simp [hx])) _ (by simp [addRows, hs, hr])]
    congr 2
    simp [addRows, List.getD, hs, hr, hi]

/-- Non-threshold axis with several intervals: the reported value of slice i is the mean over the
intervals of the per-interval scores (`Vec.mean` = sum / count, NumPy special values). -/
theorem C12_threshold_avg (nx : Nat) (per : List (List XR)) (hrect : ∀ r ∈ per, r.length = nx)
    (i : Nat) (hi : i < nx) :
    (thresholdAvg nx per)[i]? = some (Vec.mean (per.map (·.getD i .nan))) := by
  simp only [thresholdAvg, List.getElem?_map]
  rw [foldl_addRows_get nx per hrect _ (by simp) i hi]
  simp [Vec.mean, Vec.sum, Vec.len, List.getD, hi, XR.ofNat]


/-! ### non-vacuity and tests -/

/-- a table in the csv domain: two descriptor columns, two inputs, three slices (one score missing) -/
def exCsv : Table Str :=
  { names := ["id".toList, "lat".toList], legend := ["raw.txt".toList, "new model".toList],
    rows := [(["3.0".toList, "50.0".toList], [.fin (16/3), .fin 2]),
             (["41.0".toList, "42.5".toList], [.nan, .fin (-1/8)]),
             (["2012-01-01 00:00:00".toList, "0".toList], [.fin (1999999/2), .fin (1/40000)])] }

example : CsvOk exCsv = true := by decide +kernel

/-- test: the emitted csv text of the example -/
example : csvChars exCsv =
    "id,lat,raw.txt,new model\n3.0,50.0,5.33333,2\n41.0,42.5,nan,-0.125\n2012-01-01 00:00:00,0,1e+06,2.5e-05".toList := by
  decide +kernel

def exText : Table Desc :=
  { names := ["Leadtime".toList], legend := ["a b".toList, "".toList, "a_rather_long_label".toList],
    rows := [([.num (.fin 0)], [.fin (16/3), .fin 2, .nan]),
             ([.num (.fin 12)], [.fin (-2469/2), .pinf, .fin (1/3)]),
             ([.all], [.fin 0, .fin 1, .fin 2]), ([.str "x y".toList], [.fin 0, .fin 1, .fin 2])] }

example : TextOk exText = true := by decide +kernel

/-- test: `%.4g` and the padding of the example -/
example : ((splitC '\n' (textChars exText)).drop 2).head? =
    some "12                  | -1234      | inf        | 0.3333              | ".toList := by
  decide +kernel

/-- the hypotheses of `C12_acc_full` / `C12_threshold_avg` on a concrete matrix, and the values -/
example : acc [[.fin 1, .nan], [.nan, .fin 2], [.fin (1/2), .fin 3]] =
    [[.fin 1, .fin 0], [.fin 1, .fin 2], [.fin (3/2), .fin 5]] := by decide +kernel

example : thresholdAvg 2 [[.fin 1, .nan], [.fin 2, .fin 2], [.fin 6, .fin 3]] = [.fin 3, .nan] := by
  decide +kernel

end VerifModel.C12
