import VerifModel.Model.Aggregator
import VerifModel.Model.Preagg
import VerifModel.Spec.Stats
import Proofs.Lemmas.XR
import Mathlib.Data.List.Sort
import Mathlib.Tactic.Ring
import Mathlib.Tactic.Linarith
import Mathlib.Tactic.Positivity
/-
  C15 — Aggregators and -T pre-aggregation compute the documented statistics.
  Property theorems (helper lemmas are private).  Model = VerifModel/Model/Aggregator.lean and
  Preagg.lean (what aggregator.py / data.py do), Spec = VerifModel/Spec/Stats.lean.
-/
namespace VerifModel.C15
open VerifModel XR
open VerifModel.Spec

/-- an undefined statistic shows up as NaN in the aggregators that do not raise -/
def ofOpt : Option Rat → XR
  | some q => fin q
  | none => nan

/-! ## 1. Each aggregator on a complete sample (no NaN) is the documented statistic -/

private theorem foldl_add_fin (v : List Rat) (a : Rat) :
    List.foldl (· + ·) (fin a) (List.map fin v) = fin (a + Stats.sum v) := by
  induction v generalizing a with
  | nil => simp [Stats.sum]
  | cons x xs ih =>
    simp only [List.map_cons, List.foldl_cons, fin_add, ih, Stats.sum]
    congr 1; ring

private theorem sum_fin (v : List Rat) : Vec.sum (List.map fin v) = fin (Stats.sum v) := by
  unfold Vec.sum
  rw [foldl_add_fin]; simp

private theorem len_fin (v : List Rat) : Vec.len (List.map fin v) = fin (v.length : Rat) := by
  simp [Vec.len, XR.ofNat]

private theorem mean_fin (v : List Rat) : Vec.mean (List.map fin v) = ofOpt (Stats.mean v) := by
  unfold Vec.mean Stats.mean
  rw [sum_fin, len_fin]
  by_cases h : v.length = 0
  · have : v = [] := List.length_eq_zero_iff.mp h
    subst this
    simp [ofOpt, Stats.sum, fin_div, infOfSign]
  · have h' : (v.length : Rat) ≠ 0 := by exact_mod_cast h
    simp [h, ofOpt, fin_div_ne _ _ h']

/-- `sum`: Σ x (the empty sum is 0). -/
theorem C15_agg_sum (T : Tr) (v : List Rat) :
    Agg.apply T .sum (List.map fin v) = some (fin (Stats.sum v)) := by
  simp [Agg.apply, sum_fin]

/-- `mean`: (Σ x)/n; NaN for the empty sample. -/
theorem C15_agg_mean (T : Tr) (v : List Rat) :
    Agg.apply T .mean (List.map fin v) = some (ofOpt (Stats.mean v)) := by
  simp [Agg.apply, mean_fin]

/-! ### min, max, range -/

/-- Spec sanity: `Stats.minimum` is the least element of the sample (this pins it down uniquely). -/
theorem C15_spec_min_least (v : List Rat) (m : Rat) :
    Stats.minimum v = some m ↔ (m ∈ v ∧ ∀ x ∈ v, m ≤ x) := by
  induction v generalizing m with
  | nil => simp [Stats.minimum]
  | cons a xs ih =>
    simp only [Stats.minimum]
    cases hx : Stats.minimum xs with
    | none =>
      have hnil : xs = [] := by
        cases xs with
        | nil => rfl
        | cons b ys =>
          simp only [Stats.minimum] at hx
          cases h2 : Stats.minimum ys <;> simp [h2] at hx
      subst hnil
      simp only [Option.some.injEq, List.mem_singleton, forall_eq]
      constructor
      · intro h; subst h; exact ⟨rfl, le_refl _⟩
      · intro h; exact h.1.symm
    | some m' =>
      have h' := (ih m').mp hx
      simp only [Option.some.injEq, List.mem_cons, forall_eq_or_imp]
      constructor
      · intro h; subst h
        by_cases hc : a ≤ m'
        · simp only [hc, if_true]
          exact ⟨Or.inl trivial, le_refl _, fun x hx' => le_trans hc (h'.2 x hx')⟩
        · simp only [hc, if_false]
          exact ⟨Or.inr h'.1, le_of_lt (not_le.mp hc), h'.2⟩
      · rintro ⟨hm, hma, hall⟩
        by_cases hc : a ≤ m'
        · simp only [hc, if_true]
          rcases hm with rfl | hm
          · rfl
          · exact le_antisymm (le_trans hc (h'.2 m hm)) hma
        · simp only [hc, if_false]
          rcases hm with rfl | hm
          · exact absurd (hall m' h'.1) hc
          · exact le_antisymm (h'.2 m hm) (hall m' h'.1)

theorem C15_spec_max_greatest (v : List Rat) (m : Rat) :
    Stats.maximum v = some m ↔ (m ∈ v ∧ ∀ x ∈ v, x ≤ m) := by
  induction v generalizing m with
  | nil => simp [Stats.maximum]
  | cons a xs ih =>
    simp only [Stats.maximum]
    cases hx : Stats.maximum xs with
    | none =>
      have hnil : xs = [] := by
        cases xs with
        | nil => rfl
        | cons b ys =>
          simp only [Stats.maximum] at hx
          cases h2 : Stats.maximum ys <;> simp [h2] at hx
      subst hnil
      simp only [Option.some.injEq, List.mem_singleton, forall_eq]
      constructor
      · intro h; subst h; exact ⟨rfl, le_refl _⟩
      · intro h; exact h.1.symm
    | some m' =>
      have h' := (ih m').mp hx
      simp only [Option.some.injEq, List.mem_cons, forall_eq_or_imp]
      constructor
      · intro h; subst h
        by_cases hc : m' ≤ a
        · simp only [hc, if_true]
          exact ⟨Or.inl trivial, le_refl _, fun x hx' => le_trans (h'.2 x hx') hc⟩
        · simp only [hc, if_false]
          exact ⟨Or.inr h'.1, le_of_lt (not_le.mp hc), h'.2⟩
      · rintro ⟨hm, hma, hall⟩
        by_cases hc : m' ≤ a
        · simp only [hc, if_true]
          rcases hm with rfl | hm
          · rfl
          · exact le_antisymm hma (le_trans (h'.2 m hm) hc)
        · simp only [hc, if_false]
          rcases hm with rfl | hm
          · exact absurd (hall m' h'.1) hc
          · exact le_antisymm (hall m' h'.1) (h'.2 m hm)

private theorem minStep_fin (a b : Rat) :
    (if (fin b).isNan || (fin a).isNan then nan else XR.min (fin a) (fin b)) =
      fin (if b < a then b else a) := by
  simp only [isNan_fin, Bool.or_self, Bool.false_eq_true, if_false, XR.min, XR.lt]
  by_cases h : b < a <;> simp [h]

private theorem maxStep_fin (a b : Rat) :
    (if (fin b).isNan || (fin a).isNan then nan else XR.max (fin a) (fin b)) =
      fin (if a < b then b else a) := by
  simp only [isNan_fin, Bool.or_self, Bool.false_eq_true, if_false, XR.max, XR.lt]
  by_cases h : a < b <;> simp [h]

private theorem foldl_min_fin (xs : List Rat) (a : Rat) :
    ∃ m, List.foldl (fun a b => if b.isNan || a.isNan then nan else XR.min a b) (fin a) (List.map fin xs)
      = fin m ∧ m ∈ a :: xs ∧ ∀ y ∈ a :: xs, m ≤ y := by
  induction xs generalizing a with
  | nil => exact ⟨a, rfl, by simp, by simp⟩
  | cons b ys ih =>
    simp only [List.map_cons, List.foldl_cons, minStep_fin]
    obtain ⟨m, hm, hmem, hle⟩ := ih (if b < a then b else a)
    refine ⟨m, hm, ?_, ?_⟩
    · simp only [List.mem_cons] at hmem ⊢
      rcases hmem with h | h
      · by_cases hc : b < a <;> simp [hc] at h <;> simp [h]
      · exact Or.inr (Or.inr h)
    · intro y hy
      simp only [List.mem_cons] at hy
      have h0 := hle (if b < a then b else a) (by simp)
      rcases hy with rfl | rfl | hy
      · by_cases hc : b < y <;> simp [hc] at h0 <;> linarith
      · by_cases hc : y < a <;> simp [hc] at h0 <;> linarith
      · exact hle y (by simp [hy])

private theorem foldl_max_fin (xs : List Rat) (a : Rat) :
    ∃ m, List.foldl (fun a b => if b.isNan || a.isNan then nan else XR.max a b) (fin a) (List.map fin xs)
      = fin m ∧ m ∈ a :: xs ∧ ∀ y ∈ a :: xs, y ≤ m := by
  induction xs generalizing a with
  | nil => exact ⟨a, rfl, by simp, by simp⟩
  | cons b ys ih =>
    simp only [List.map_cons, List.foldl_cons, maxStep_fin]
    obtain ⟨m, hm, hmem, hle⟩ := ih (if a < b then b else a)
    refine ⟨m, hm, ?_, ?_⟩
    · simp only [List.mem_cons] at hmem ⊢
      rcases hmem with h | h
      · by_cases hc : a < b <;> simp [hc] at h <;> simp [h]
      · exact Or.inr (Or.inr h)
    · intro y hy
      simp only [List.mem_cons] at hy
      have h0 := hle (if a < b then b else a) (by simp)
      rcases hy with rfl | rfl | hy
      · by_cases hc : y < b <;> simp [hc] at h0 <;> linarith
      · by_cases hc : a < y <;> simp [hc] at h0 <;> linarith
      · exact hle y (by simp [hy])

private theorem minimum_fin (v : List Rat) (hv : v ≠ []) :
    ∃ m, Vec.minimum (List.map fin v) = fin m ∧ Stats.minimum v = some m := by
  cases v with
  | nil => exact absurd rfl hv
  | cons a xs =>
    obtain ⟨m, hm, hmem, hle⟩ := foldl_min_fin xs a
    exact ⟨m, hm, (C15_spec_min_least _ _).mpr ⟨hmem, hle⟩⟩

private theorem maximum_fin (v : List Rat) (hv : v ≠ []) :
    ∃ m, Vec.maximum (List.map fin v) = fin m ∧ Stats.maximum v = some m := by
  cases v with
  | nil => exact absurd rfl hv
  | cons a xs =>
    obtain ⟨m, hm, hmem, hle⟩ := foldl_max_fin xs a
    exact ⟨m, hm, (C15_spec_max_greatest _ _).mpr ⟨hmem, hle⟩⟩

/-- `min`: the least element; raises (none) exactly when the sample is empty = undefined. -/
theorem C15_agg_min (T : Tr) (v : List Rat) :
    Agg.apply T .min (List.map fin v) = (Stats.minimum v).map fin := by
  cases v with
  | nil => rfl
  | cons a xs =>
    obtain ⟨m, hm, hs⟩ := minimum_fin (a :: xs) (by simp)
    simp only [Agg.apply, List.isEmpty, List.map_cons, Bool.false_eq_true, if_false]
    rw [← List.map_cons, hm, hs]; rfl

theorem C15_agg_max (T : Tr) (v : List Rat) :
    Agg.apply T .max (List.map fin v) = (Stats.maximum v).map fin := by
  cases v with
  | nil => rfl
  | cons a xs =>
    obtain ⟨m, hm, hs⟩ := maximum_fin (a :: xs) (by simp)
    simp only [Agg.apply, List.isEmpty, List.map_cons, Bool.false_eq_true, if_false]
    rw [← List.map_cons, hm, hs]; rfl

/-- `range`: max − min. -/
theorem C15_agg_range (T : Tr) (v : List Rat) :
    Agg.apply T .range (List.map fin v) = (Stats.range v).map fin := by
  cases v with
  | nil => rfl
  | cons a xs =>
    obtain ⟨m, hm, hs⟩ := minimum_fin (a :: xs) (by simp)
    obtain ⟨M, hM, hS⟩ := maximum_fin (a :: xs) (by simp)
    simp only [Agg.apply, List.isEmpty, List.map_cons, Bool.false_eq_true, if_false, Stats.range]
    rw [← List.map_cons, hm, hM, hs, hS]; simp

/-! ### variance, std -/

private theorem sum_sq_nonneg (v : List Rat) (m : Rat) :
    0 ≤ Stats.sum (v.map fun x => (x - m) * (x - m)) := by
  induction v with
  | nil => simp [Stats.sum]
  | cons a xs ih =>
    simp only [List.map_cons, Stats.sum]
    have := mul_self_nonneg (a - m)
    linarith

private theorem var_fin (v : List Rat) : Vec.var (List.map fin v) = ofOpt (Stats.variance v) := by
  unfold Vec.var Stats.variance
  rw [mean_fin]
  cases hm : Stats.mean v with
  | none =>
    have : v = [] := by
      unfold Stats.mean at hm
      by_cases h : v.length = 0
      · exact List.length_eq_zero_iff.mp h
      · simp [h] at hm
    subst this
    simp [ofOpt, Vec.subS, Vec.mean, Vec.sum, Vec.len, XR.ofNat, fin_div, infOfSign]
  | some mu =>
    simp only [ofOpt, Option.bind_some, Vec.subS, List.map_map]
    have : (List.map ((fun x : XR => x * x) ∘ (fun x : XR => x - fin mu) ∘ fin) v)
        = List.map fin (v.map fun x => (x - mu) * (x - mu)) := by
      simp [List.map_map, Function.comp_def]
    simp only [Function.comp_def] at this ⊢
    rw [this, mean_fin]
    rfl

private theorem variance_nonneg (v : List Rat) (r : Rat) (h : Stats.variance v = some r) : 0 ≤ r := by
  unfold Stats.variance at h
  cases hm : Stats.mean v with
  | none => rw [hm] at h; simp at h
  | some mu =>
    rw [hm] at h
    simp only [Option.bind_some] at h
    unfold Stats.mean at h
    split at h
    · simp at h
    · simp only [Option.some.injEq] at h
      subst h
      exact div_nonneg (sum_sq_nonneg v mu) (by positivity)

/-- `variance`: population variance (1/n)·Σ(x−x̄)²; NaN for the empty sample. -/
theorem C15_agg_variance (T : Tr) (v : List Rat) :
    Agg.apply T .variance (List.map fin v) = some (ofOpt (Stats.variance v)) := by
  simp [Agg.apply, var_fin]

/-- `std`: √variance (for every `Tr`: the square root is a parameter). -/
theorem C15_agg_std (T : Tr) (v : List Rat) :
    Agg.apply T .std (List.map fin v) = some (ofOpt (Stats.std T v)) := by
  simp only [Agg.apply, Vec.std, var_fin, Stats.std]
  cases h : Stats.variance v with
  | none => rfl
  | some r =>
    have := variance_nonneg v r h
    simp only [ofOpt, Option.map_some, Tr.sqrt_fin]
    rw [if_neg (not_lt.mpr this)]

/-! ### meanabs, absmean, change, abschange, count -/

private theorem abs_fin (q : Rat) : XR.abs (fin q) = fin (Stats.absq q) := rfl

/-- `meanabs`: mean of |x|. -/
theorem C15_agg_meanabs (T : Tr) (v : List Rat) :
    Agg.apply T .meanabs (List.map fin v) = some (ofOpt (Stats.meanabs v)) := by
  simp only [Agg.apply, Vec.abs, List.map_map, Stats.meanabs]
  have : List.map (XR.abs ∘ fin) v = List.map fin (v.map Stats.absq) := by
    simp [List.map_map, Function.comp_def, abs_fin]
  rw [this, mean_fin]

/-- `absmean`: |mean x|. -/
theorem C15_agg_absmean (T : Tr) (v : List Rat) :
    Agg.apply T .absmean (List.map fin v) = some (ofOpt (Stats.absmean v)) := by
  simp only [Agg.apply, mean_fin, Stats.absmean]
  cases Stats.mean v <;> rfl

private theorem changeOf_fin (v : List Rat) :
    Agg.changeOf (List.map fin v) = (Stats.change v).map fin := by
  unfold Agg.changeOf Stats.change
  rw [List.head?_map, List.getLast?_map]
  cases v.head? <;> cases v.getLast? <;> simp

/-- `change`: last − first; raises exactly when the sample is empty. -/
theorem C15_agg_change (T : Tr) (v : List Rat) :
    Agg.apply T .change (List.map fin v) = (Stats.change v).map fin := by
  simp [Agg.apply, changeOf_fin]

/-- `abschange`: |last − first|. -/
theorem C15_agg_abschange (T : Tr) (v : List Rat) :
    Agg.apply T .abschange (List.map fin v) = (Stats.abschange v).map fin := by
  simp only [Agg.apply, changeOf_fin, Stats.abschange, Option.map_map]
  cases Stats.change v <;> rfl

/-- `count` on a sample with missing entries: the number of non-missing ones. -/
theorem C15_agg_count (T : Tr) (v : List (Option Rat)) :
    Agg.apply T .count (List.map ofOpt v) = some (fin (Stats.countValid v : Rat)) := by
  simp only [Agg.apply, Agg.countOf, XR.ofNat, Stats.countValid]
  congr 3
  induction v with
  | nil => rfl
  | cons a xs ih =>
    cases a <;> simp [ofOpt, ih]

/-! ### order statistics: median, quantile, iqr -/

private theorem insert_fin (x : Rat) (ys : List Rat) :
    Vec.insertSorted (fin x) (List.map fin ys) = List.map fin (ys.orderedInsert (· ≤ ·) x) := by
  induction ys with
  | nil => rfl
  | cons y ys ih =>
    simp only [List.map_cons, Vec.insertSorted, XR.lt, List.orderedInsert_cons]
    by_cases h : y < x
    · have h' : ¬ x ≤ y := not_le.mpr h
      simp [h, h', ih]
    · have h' : x ≤ y := not_lt.mp h
      simp [h, h']

private theorem sort_fin (v : List Rat) :
    Vec.sort (List.map fin v) = List.map fin (v.insertionSort (· ≤ ·)) := by
  induction v with
  | nil => rfl
  | cons x xs ih =>
    have : Vec.sort (List.map fin (x :: xs)) = Vec.insertSorted (fin x) (Vec.sort (List.map fin xs)) := rfl
    rw [this, ih, insert_fin]; rfl

private theorem ascending_eq (v : List Rat) : Stats.ascending v = v.insertionSort (· ≤ ·) := by
  unfold Stats.ascending
  exact List.mergeSort_eq_insertionSort (r := (· ≤ ·)) v

/-- Spec sanity: `Stats.ascending` is the sample rearranged in non-decreasing order. -/
theorem C15_spec_ascending (v : List Rat) :
    (Stats.ascending v).Perm v ∧ (Stats.ascending v).Pairwise (· ≤ ·) := by
  rw [ascending_eq]
  exact ⟨List.perm_insertionSort _ v, List.pairwise_insertionSort _ v⟩

private theorem asc_length (v : List Rat) : (Stats.ascending v).length = v.length :=
  (C15_spec_ascending v).1.length_eq

private theorem hasNan_fin (v : List Rat) : Agg.hasNan (List.map fin v) = false := by
  unfold Agg.hasNan
  induction v with
  | nil => rfl
  | cons a xs ih => simp [List.any_cons, ih]

private theorem sorted_fin (v : List Rat) :
    Vec.sort (List.map fin v) = List.map fin (Stats.ascending v) := by
  rw [sort_fin, ascending_eq]

private theorem medianOf_fin (v : List Rat) :
    Agg.medianOf (List.map fin v) = ofOpt (Stats.median v) := by
  unfold Agg.medianOf Stats.median
  cases v with
  | nil => rfl
  | cons a xs =>
    have hne : (List.map fin (a :: xs)).isEmpty = false := rfl
    rw [hne, hasNan_fin, sorted_fin]
    simp only [Bool.false_eq_true, if_false, List.length_map, asc_length, Stats.orderStat,
      List.getElem?_map]
    have hn : (a :: xs).length ≠ 0 := by simp
    simp only [hn, if_false]
    generalize (a :: xs).length = n at hn ⊢
    generalize Stats.ascending (a :: xs) = A
    by_cases hodd : n % 2 = 1
    · simp only [hodd, if_true]
      have : (n - 1) / 2 = n / 2 := by omega
      rw [this]
      cases A[n / 2]? <;> rfl
    · simp only [hodd, if_false]
      cases A[n / 2 - 1]? <;> cases A[n / 2]? <;> simp [ofOpt]

/-- `median`: the middle order statistic, or the mean of the two middle ones; NaN if empty. -/
theorem C15_agg_median (T : Tr) (v : List Rat) :
    Agg.apply T .median (List.map fin v) = some (ofOpt (Stats.median v)) := by
  simp [Agg.apply, medianOf_fin]

private theorem floor_unique (r : Rat) (z : Int) (h1 : (z : Rat) ≤ r) (h2 : r < (z : Rat) + 1) :
    r.floor = z := by
  apply le_antisymm
  · have : r.floor < z + 1 := by
      rw [Rat.floor_lt_iff]; push_cast; exact h2
    omega
  · exact Rat.le_floor_iff.mpr h1

private theorem floorNat_eq (r : Rat) : Agg.floorNat r = r.floor.toNat := by
  unfold Agg.floorNat; rw [Rat.floor_def]

private theorem floor_nonneg (r : Rat) (h : 0 ≤ r) : 0 ≤ r.floor :=
  Rat.le_floor_iff.mpr (by simpa using h)

private theorem percentile_fin (v : List Rat) (q : Rat) (h0 : 0 ≤ q) (h1 : q ≤ 1) :
    Agg.percentile (List.map fin v) q = (Stats.quantile v q).map fin := by
  unfold Agg.percentile Stats.quantile
  cases v with
  | nil => rfl
  | cons a xs =>
    have hne : (List.map fin (a :: xs)).isEmpty = false := rfl
    rw [hne, hasNan_fin, sorted_fin]
    simp only [Bool.false_eq_true, if_false, List.length_map, asc_length, Stats.orderStat,
      List.getElem?_map, floorNat_eq]
    have hn : (a :: xs).length ≠ 0 := by simp
    have hq : ¬ ((a :: xs).length = 0 ∨ q < 0 ∨ 1 < q) := by
      rintro (h | h | h)
      · exact hn h
      · linarith
      · linarith
    simp only [hq, if_false]
    have hAlen := asc_length (a :: xs)
    generalize (a :: xs).length = n at hn hAlen ⊢
    generalize Stats.ascending (a :: xs) = A at hAlen ⊢
    have hcast : (((n - 1 : Nat) : Rat)) = (n : Rat) - 1 := by
      have : 1 ≤ n := Nat.one_le_iff_ne_zero.mpr hn
      push_cast [Nat.cast_sub this]; ring
    rw [hcast]
    have hn1 : (0 : Rat) ≤ (n : Rat) - 1 := by
      have : (1 : Rat) ≤ (n : Rat) := by exact_mod_cast Nat.one_le_iff_ne_zero.mpr hn
      linarith
    set pos : Rat := ((n : Rat) - 1) * q with hpos
    have hpos0 : 0 ≤ pos := mul_nonneg hn1 h0
    have hposn : pos ≤ (n : Rat) - 1 := by
      have := mul_le_mul_of_nonneg_left h1 hn1
      simpa [hpos] using this
    have hfl0 := floor_nonneg pos hpos0
    have hfl : ((pos.floor.toNat : Nat) : Rat) = (pos.floor : Rat) := by
      have : ((pos.floor.toNat : Nat) : Int) = pos.floor := Int.toNat_of_nonneg hfl0
      exact_mod_cast this
    rw [hfl]
    set k := pos.floor.toNat with hk
    have hle : (k : Rat) ≤ pos := by
      have := Rat.floor_le pos
      rw [← hfl] at this; exact this
    by_cases hk1 : k < n
    · have hAk : k < A.length := by omega
      rw [List.getElem?_eq_getElem hAk]
      by_cases hk2 : k + 1 < n
      · have hAk2 : k + 1 < A.length := by omega
        simp only [hk2, if_true, List.getElem?_eq_getElem hAk2, Option.map_some]
        by_cases hg : pos - (pos.floor : Rat) = 0
        · simp only [hg, if_true, Option.map_some]
          simp
        · simp only [hg, if_false, Option.map_some]
          simp only [fin_sub, fin_mul, fin_add]
          congr 2; ring
      · have hkn : k = n - 1 := by omega
        have hg : pos - (pos.floor : Rat) = 0 := by
          have h3 : (k : Rat) = (n : Rat) - 1 := by
            rw [hkn, hcast]
          rw [← hfl]
          linarith
        have hhi : (if k + 1 < n then k + 1 else n - 1) = k := by
          rw [if_neg hk2]; exact hkn.symm
        simp only [hhi, List.getElem?_eq_getElem hAk, hg, if_true, Option.map_some]
        simp
    · have hAk : A.length ≤ k := by omega
      rw [List.getElem?_eq_none hAk]
      simp only [Option.map_none]
      by_cases hg : pos - (pos.floor : Rat) = 0
      · simp [hg]
      · simp [hg]

/-- `quantile level`: linear interpolation between order statistics at position (n−1)·p
(NumPy's default `np.percentile`), for every level 0 ≤ p ≤ 1; raises exactly when empty. -/
theorem C15_agg_quantile (T : Tr) (v : List Rat) (p : Rat) (h0 : 0 ≤ p) (h1 : p ≤ 1) :
    Agg.apply T (.quantile p) (List.map fin v) = (Stats.quantile v p).map fin := by
  simp [Agg.apply, percentile_fin v p h0 h1]

/-- `iqr`: Q(3/4) − Q(1/4). -/
theorem C15_agg_iqr (T : Tr) (v : List Rat) :
    Agg.apply T .iqr (List.map fin v) = (Stats.iqr v).map fin := by
  simp only [Agg.apply, Stats.iqr]
  rw [percentile_fin v (3 / 4) (by norm_num) (by norm_num),
    percentile_fin v (1 / 4) (by norm_num) (by norm_num)]
  cases Stats.quantile v (3 / 4) <;> cases Stats.quantile v (1 / 4) <;> simp

/-! ## 2. Facts relating the statistics -/

private theorem asc_mono (v : List Rat) (i j : Nat) (hij : i ≤ j) (hj : j < (Stats.ascending v).length) :
    (Stats.ascending v)[i]'(by omega) ≤ (Stats.ascending v)[j] := by
  rcases Nat.lt_or_eq_of_le hij with h | h
  · exact (List.pairwise_iff_getElem.mp (C15_spec_ascending v).2) i j (by omega) hj h
  · subst h; exact le_refl _

private theorem asc_first (v : List Rat) : (Stats.ascending v)[0]? = Stats.minimum v := by
  by_cases hv : v.length = 0
  · have : v = [] := List.length_eq_zero_iff.mp hv
    subst this; simp [Stats.ascending, Stats.minimum]
  · have hA : 0 < (Stats.ascending v).length := by rw [asc_length]; omega
    rw [List.getElem?_eq_getElem hA]
    symm
    rw [C15_spec_min_least]
    constructor
    · exact (C15_spec_ascending v).1.mem_iff.mp (List.getElem_mem hA)
    · intro x hx
      have hx' := (C15_spec_ascending v).1.mem_iff.mpr hx
      obtain ⟨i, hi, rfl⟩ := List.mem_iff_getElem.mp hx'
      exact asc_mono v 0 i (Nat.zero_le _) hi

private theorem asc_last (v : List Rat) : (Stats.ascending v)[v.length - 1]? = Stats.maximum v := by
  by_cases hv : v.length = 0
  · have : v = [] := List.length_eq_zero_iff.mp hv
    subst this; simp [Stats.ascending, Stats.maximum]
  · have hA : v.length - 1 < (Stats.ascending v).length := by rw [asc_length]; omega
    rw [List.getElem?_eq_getElem hA]
    symm
    rw [C15_spec_max_greatest]
    constructor
    · exact (C15_spec_ascending v).1.mem_iff.mp (List.getElem_mem hA)
    · intro x hx
      have hx' := (C15_spec_ascending v).1.mem_iff.mpr hx
      obtain ⟨i, hi, rfl⟩ := List.mem_iff_getElem.mp hx'
      have : i ≤ v.length - 1 := by rw [asc_length] at hi; omega
      exact asc_mono v i (v.length - 1) this hA

/-- quantile level 0 is the minimum (as a statistic, and as computed by the aggregators). -/
theorem C15_quantile_zero (T : Tr) (v : List Rat) :
    Stats.quantile v 0 = Stats.minimum v ∧
    Agg.apply T (.quantile 0) (List.map fin v) = Agg.apply T .min (List.map fin v) := by
  have key : Stats.quantile v 0 = Stats.minimum v := by
    unfold Stats.quantile
    by_cases hv : v.length = 0
    · have : v = [] := List.length_eq_zero_iff.mp hv
      subst this; simp [Stats.minimum]
    · have h0 : (0 : Rat).floor = 0 := floor_unique 0 0 (by simp) (by simp)
      simp [hv, h0, Stats.orderStat, asc_first]
  exact ⟨key, by rw [C15_agg_quantile T v 0 (le_refl _) (by norm_num), C15_agg_min, key]⟩

/-- quantile level 1 is the maximum. -/
theorem C15_quantile_one (T : Tr) (v : List Rat) :
    Stats.quantile v 1 = Stats.maximum v ∧
    Agg.apply T (.quantile 1) (List.map fin v) = Agg.apply T .max (List.map fin v) := by
  have key : Stats.quantile v 1 = Stats.maximum v := by
    unfold Stats.quantile
    by_cases hv : v.length = 0
    · have : v = [] := List.length_eq_zero_iff.mp hv
      subst this; simp [Stats.maximum]
    · have h1 : 1 ≤ v.length := by omega
      have hq : ¬ (v.length = 0 ∨ (1 : Rat) < 0 ∨ (1 : Rat) < 1) := by
        rintro (h | h | h)
        · exact hv h
        · norm_num at h
        · norm_num at h
      have hfl : ((v.length : Rat) - 1).floor = ((v.length - 1 : Nat) : Int) := by
        apply floor_unique <;> push_cast [Nat.cast_sub h1] <;> linarith
      have hg : ((v.length : Rat) - 1) - (((v.length - 1 : Nat) : Int) : Rat) = 0 := by
        push_cast [Nat.cast_sub h1]; ring
      dsimp only
      rw [if_neg hq, mul_one, hfl, hg, if_pos rfl, Int.toNat_natCast]
      exact asc_last v
  exact ⟨key, by rw [C15_agg_quantile T v 1 (by norm_num) (le_refl _), C15_agg_max, key]⟩

/-- quantile level 1/2 is the median. -/
theorem C15_quantile_half (T : Tr) (v : List Rat) :
    Stats.quantile v (1 / 2) = Stats.median v ∧
    (v ≠ [] → Agg.apply T (.quantile (1 / 2)) (List.map fin v) = Agg.apply T .median (List.map fin v)) := by
  have key : Stats.quantile v (1 / 2) = Stats.median v := by
    unfold Stats.quantile Stats.median
    by_cases hv : v.length = 0
    · simp [hv]
    · have hq : ¬ (v.length = 0 ∨ (1 / 2 : Rat) < 0 ∨ (1 : Rat) < 1 / 2) := by
        rintro (h | h | h)
        · exact hv h
        · norm_num at h
        · norm_num at h
      dsimp only
      rw [if_neg hq, if_neg hv]
      generalize hA : Stats.ascending v = A
      simp only [Stats.orderStat, hA]
      rcases Nat.even_or_odd' v.length with ⟨m, hm | hm⟩
      · -- n = 2m, m ≥ 1: position m − 1/2
        have hm1 : 1 ≤ m := by omega
        have hpos : ((v.length : Rat) - 1) * (1 / 2) = ((m - 1 : Nat) : Rat) + 1 / 2 := by
          rw [hm]; push_cast [Nat.cast_sub hm1]; ring
        have hfl : (((m - 1 : Nat) : Rat) + 1 / 2).floor = ((m - 1 : Nat) : Int) := by
          apply floor_unique <;> push_cast <;> linarith
        rw [hpos, hfl]
        have hodd : ¬ v.length % 2 = 1 := by omega
        have e1 : v.length / 2 - 1 = m - 1 := by omega
        have e2 : v.length / 2 = m - 1 + 1 := by omega
        have hg : ((((m - 1 : Nat) : Rat) + 1 / 2) - (((m - 1 : Nat) : Int) : Rat)) = 1 / 2 := by
          push_cast; ring
        have hg0 : ¬ ((1 / 2 : Rat) = 0) := by norm_num
        rw [hg, if_neg hg0, if_neg hodd, Int.toNat_natCast, e1, e2]
        cases A[m - 1]? <;> cases A[m - 1 + 1]? <;> simp only [Option.some.injEq]
        ring
      · -- n = 2m + 1: position m
        have hpos : ((v.length : Rat) - 1) * (1 / 2) = (m : Rat) := by
          rw [hm]; push_cast; ring
        have hfl : ((m : Rat)).floor = (m : Int) := by
          apply floor_unique <;> push_cast <;> linarith
        rw [hpos, hfl]
        have hodd : v.length % 2 = 1 := by omega
        have e1 : (v.length - 1) / 2 = m := by omega
        have hg : ((m : Rat) - ((m : Int) : Rat)) = 0 := by push_cast; ring
        rw [hg, if_pos rfl, if_pos hodd, Int.toNat_natCast, e1]
  refine ⟨key, fun hv => ?_⟩
  rw [C15_agg_quantile T v (1 / 2) (by norm_num) (by norm_num), C15_agg_median, key]
  have : Stats.median v ≠ none := by
    have hl : v.length ≠ 0 := fun h => hv (List.length_eq_zero_iff.mp h)
    have hA := asc_length v
    unfold Stats.median Stats.orderStat
    dsimp only
    rw [if_neg hl]
    by_cases hodd : v.length % 2 = 1
    · rw [if_pos hodd, List.getElem?_eq_getElem (by omega)]; simp
    · rw [if_neg hodd, List.getElem?_eq_getElem (by omega), List.getElem?_eq_getElem (by omega)]; simp
  cases h : Stats.median v with
  | none => exact absurd h this
  | some r => rfl

/-- `iqr` is the difference of the aggregator's own quartiles (for every input, NaN or not). -/
theorem C15_iqr_quartiles (T : Tr) (v : Vec) :
    Agg.apply T .iqr v =
      match Agg.apply T (.quantile (3 / 4)) v, Agg.apply T (.quantile (1 / 4)) v with
      | some a, some b => some (a - b)
      | _, _ => none := rfl

/-- `count` ignores NaN: it is the number of entries that are not NaN, i.e. the count of the
sample with the NaNs removed; in particular it is never NaN. -/
theorem C15_count_ignores_nan (T : Tr) (v : Vec) :
    Agg.apply T .count v = some (fin ((List.filter (fun x => !x.isNan) v).length : Rat)) ∧
    Agg.apply T .count v = Agg.apply T .count (List.filter (fun x => !x.isNan) v) := by
  simp [Agg.apply, Agg.countOf, XR.ofNat, List.filter_filter]

/-! ### NaN behaviour of the code: every aggregator except count/change/abschange propagates NaN -/

private theorem foldl_add_nan (v : Vec) : List.foldl (· + ·) nan v = nan := by
  induction v with
  | nil => rfl
  | cons a xs ih => simp [List.foldl_cons, ih]

private theorem sum_nan (v : Vec) (a : XR) (h : nan ∈ v) : List.foldl (· + ·) a v = nan := by
  induction v generalizing a with
  | nil => simp at h
  | cons b xs ih =>
    simp only [List.mem_cons] at h
    rcases h with h | h
    · subst h; simp [List.foldl_cons, foldl_add_nan]
    · simp only [List.foldl_cons]; exact ih _ h

private theorem mean_nan (v : Vec) (h : nan ∈ v) : Vec.mean v = nan := by
  simp [Vec.mean, Vec.sum, sum_nan v _ h]

private def minStep (a b : XR) : XR := if b.isNan || a.isNan then nan else XR.min a b
private def maxStep (a b : XR) : XR := if b.isNan || a.isNan then nan else XR.max a b

private theorem minimum_cons (a : XR) (xs : Vec) : Vec.minimum (a :: xs) = List.foldl minStep a xs := rfl
private theorem maximum_cons (a : XR) (xs : Vec) : Vec.maximum (a :: xs) = List.foldl maxStep a xs := rfl
private theorem minStep_nan_left (b : XR) : minStep nan b = nan := by simp [minStep]
private theorem minStep_nan_right (a : XR) : minStep a nan = nan := by simp [minStep]
private theorem maxStep_nan_left (b : XR) : maxStep nan b = nan := by simp [maxStep]
private theorem maxStep_nan_right (a : XR) : maxStep a nan = nan := by simp [maxStep]

private theorem foldl_min_nan (v : Vec) : List.foldl minStep nan v = nan := by
  induction v with
  | nil => rfl
  | cons a xs ih => rw [List.foldl_cons, minStep_nan_left, ih]

private theorem foldl_max_nan (v : Vec) : List.foldl maxStep nan v = nan := by
  induction v with
  | nil => rfl
  | cons a xs ih => rw [List.foldl_cons, maxStep_nan_left, ih]

private theorem foldl_min_has_nan (v : Vec) (a : XR) (h : nan ∈ v) : List.foldl minStep a v = nan := by
  induction v generalizing a with
  | nil => simp at h
  | cons b xs ih =>
    simp only [List.mem_cons] at h
    rcases h with h | h
    · subst h; rw [List.foldl_cons, minStep_nan_right, foldl_min_nan]
    · rw [List.foldl_cons]; exact ih _ h

private theorem foldl_max_has_nan (v : Vec) (a : XR) (h : nan ∈ v) : List.foldl maxStep a v = nan := by
  induction v generalizing a with
  | nil => simp at h
  | cons b xs ih =>
    simp only [List.mem_cons] at h
    rcases h with h | h
    · subst h; rw [List.foldl_cons, maxStep_nan_right, foldl_max_nan]
    · rw [List.foldl_cons]; exact ih _ h

private theorem minimum_nan (v : Vec) (h : nan ∈ v) : Vec.minimum v = nan := by
  cases v with
  | nil => simp at h
  | cons a xs =>
    rw [minimum_cons]
    simp only [List.mem_cons] at h
    rcases h with h | h
    · rw [← h]; exact foldl_min_nan xs
    · exact foldl_min_has_nan xs a h

private theorem maximum_nan (v : Vec) (h : nan ∈ v) : Vec.maximum v = nan := by
  cases v with
  | nil => simp at h
  | cons a xs =>
    rw [maximum_cons]
    simp only [List.mem_cons] at h
    rcases h with h | h
    · rw [← h]; exact foldl_max_nan xs
    · exact foldl_max_has_nan xs a h

private theorem hasNan_of_mem (v : Vec) (h : nan ∈ v) : Agg.hasNan v = true := by
  unfold Agg.hasNan
  rw [List.any_eq_true]
  exact ⟨nan, h, rfl⟩

private theorem isEmpty_of_mem (v : Vec) (h : nan ∈ v) : List.isEmpty v = false := by
  cases v with
  | nil => simp at h
  | cons a xs => rfl

private theorem percentile_nan (v : Vec) (q : Rat) (h : nan ∈ v) : Agg.percentile v q = some nan := by
  unfold Agg.percentile
  rw [isEmpty_of_mem v h, hasNan_of_mem v h]; rfl

private theorem var_nan (v : Vec) (h : nan ∈ v) : Vec.var v = nan := by
  unfold Vec.var
  apply mean_nan
  rw [mean_nan v h]
  simp only [Vec.subS, List.mem_map]
  exact ⟨nan, ⟨nan, h, by simp⟩, by simp⟩

/-- A NaN among the values makes the result NaN for mean, median, min, max, std, variance, iqr,
range, sum, meanabs, absmean and every quantile level (none of these classes uses a nan-aware
NumPy function). -/
theorem C15_nan_propagates (T : Tr) (a : Agg) (v : Vec) (h : nan ∈ v)
    (ha : a ≠ .count ∧ a ≠ .change ∧ a ≠ .abschange) : Agg.apply T a v = some nan := by
  obtain ⟨h1, h2, h3⟩ := ha
  cases a with
  | count => exact absurd rfl h1
  | change => exact absurd rfl h2
  | abschange => exact absurd rfl h3
  | mean => simp [Agg.apply, mean_nan v h]
  | median =>
    simp only [Agg.apply, Agg.medianOf, isEmpty_of_mem v h, hasNan_of_mem v h]; rfl
  | min => simp [Agg.apply, isEmpty_of_mem v h, minimum_nan v h]
  | max => simp [Agg.apply, isEmpty_of_mem v h, maximum_nan v h]
  | std => simp [Agg.apply, Vec.std, var_nan v h, Tr.sqrt]
  | variance => simp [Agg.apply, var_nan v h]
  | iqr => simp [Agg.apply, percentile_nan v _ h]
  | range => simp [Agg.apply, isEmpty_of_mem v h, minimum_nan v h, maximum_nan v h]
  | sum => simp [Agg.apply, Vec.sum, sum_nan v _ h]
  | meanabs =>
    have : nan ∈ Vec.abs v := by
      simp only [Vec.abs, List.mem_map]; exact ⟨nan, h, rfl⟩
    simp [Agg.apply, mean_nan _ this]
  | absmean => simp [Agg.apply, mean_nan v h, XR.abs]
  | quantile q => simp [Agg.apply, percentile_nan v q h]

/-- `change` / `abschange` look only at the two end points: NaNs (or anything else) in between
do not matter; a single value gives x − x. -/
theorem C15_change_endpoints (T : Tr) (x y : XR) (mid : Vec) :
    Agg.apply T .change (x :: (mid ++ [y])) = some (y - x) ∧
    Agg.apply T .abschange (x :: (mid ++ [y])) = some (XR.abs (y - x)) ∧
    Agg.apply T .change [x] = some (x - x) := by
  have : List.getLast? (x :: (mid ++ [y])) = some y := by
    rw [← List.cons_append, List.getLast?_append]; simp
  simp [Agg.apply, Agg.changeOf, this]

/-! ### name lookup -/

/-- every documented name yields its aggregator … -/
theorem C15_get_names :
    Agg.get "mean" = some .mean ∧ Agg.get "median" = some .median ∧ Agg.get "min" = some .min ∧
    Agg.get "max" = some .max ∧ Agg.get "std" = some .std ∧ Agg.get "variance" = some .variance ∧
    Agg.get "iqr" = some .iqr ∧ Agg.get "range" = some .range ∧ Agg.get "count" = some .count ∧
    Agg.get "sum" = some .sum ∧ Agg.get "meanabs" = some .meanabs ∧ Agg.get "absmean" = some .absmean ∧
    Agg.get "change" = some .change ∧ Agg.get "abschange" = some .abschange := by
  decide +kernel

/-- … a decimal number between 0 and 1 the quantile of that level, anything else is refused. -/
theorem C15_get_quantile :
    Agg.get "0" = some (.quantile 0) ∧ Agg.get "0.1" = some (.quantile (1 / 10)) ∧
    Agg.get "0.25" = some (.quantile (1 / 4)) ∧ Agg.get "0.5" = some (.quantile (1 / 2)) ∧
    Agg.get "0.75" = some (.quantile (3 / 4)) ∧ Agg.get "0.9" = some (.quantile (9 / 10)) ∧
    Agg.get "1" = some (.quantile 1) ∧ Agg.get "1.5" = none ∧ Agg.get "-0.1" = none ∧
    Agg.get "average" = none := by
  decide +kernel

/-- Summary: for every aggregator name (quantile levels in [0,1]) and every complete sample, the
call returns the documented statistic; where the statistic is undefined (empty sample) the call
raises (`none`) or returns NaN, never a number. -/
theorem C15_agg_all (T : Tr) (a : Agg) (v : List Rat)
    (ha : ∀ p, a = .quantile p → 0 ≤ p ∧ p ≤ 1) :
    Agg.apply T a (List.map fin v) =
      match Stats.eval T a v with
      | some r => some (fin r)
      | none => if Agg.raisesOnEmpty T a then none else some nan := by
  cases a with
  | mean => rw [C15_agg_mean]; simp only [Stats.eval]; cases Stats.mean v <;> rfl
  | median => rw [C15_agg_median]; simp only [Stats.eval]; cases Stats.median v <;> rfl
  | min => rw [C15_agg_min]; simp only [Stats.eval]; cases Stats.minimum v <;> rfl
  | max => rw [C15_agg_max]; simp only [Stats.eval]; cases Stats.maximum v <;> rfl
  | std => rw [C15_agg_std]; simp only [Stats.eval]; cases Stats.std T v <;> rfl
  | variance => rw [C15_agg_variance]; simp only [Stats.eval]; cases Stats.variance v <;> rfl
  | iqr => rw [C15_agg_iqr]; simp only [Stats.eval]; cases Stats.iqr v <;> rfl
  | range => rw [C15_agg_range]; simp only [Stats.eval]; cases Stats.range v <;> rfl
  | count =>
    have := C15_agg_count T (v.map some)
    simp only [List.map_map] at this
    have e : (ofOpt ∘ some) = fin := rfl
    rw [e] at this
    rw [this]
    have hc : ∀ w : List Rat, (List.filter Option.isSome (List.map some w)).length = w.length := by
      intro w
      induction w with
      | nil => rfl
      | cons a xs ih => simp [ih]
    have hc := hc v
    simp [Stats.eval, Stats.countValid, hc]
  | sum => rw [C15_agg_sum]; rfl
  | meanabs => rw [C15_agg_meanabs]; simp only [Stats.eval]; cases Stats.meanabs v <;> rfl
  | absmean => rw [C15_agg_absmean]; simp only [Stats.eval]; cases Stats.absmean v <;> rfl
  | change => rw [C15_agg_change]; simp only [Stats.eval]; cases Stats.change v <;> rfl
  | abschange => rw [C15_agg_abschange]; simp only [Stats.eval]; cases Stats.abschange v <;> rfl
  | quantile p =>
    obtain ⟨h0, h1⟩ := ha p rfl
    rw [C15_agg_quantile T v p h0 h1]; simp only [Stats.eval]
    cases Stats.quantile v p <;> rfl

/-- Non-vacuity: concrete samples (ties, negatives, an even and an odd length). -/
example : Stats.median [3, -1, 2, 2] = some 2 ∧ Stats.median [5, 1, 3] = some 3 ∧
    Stats.quantile [4, 1, 2, 3, 5] (1 / 4) = some 2 ∧ Stats.quantile [1, 2, 4] (1 / 4) = some (3 / 2) ∧
    Stats.iqr [1, 2, 3, 4, 5] = some 2 ∧ Stats.variance [1, 2, 3, 4] = some (5 / 4) ∧
    Stats.range [2, -1, 7] = some 8 ∧ Stats.meanabs [-1, 3] = some 2 ∧ Stats.absmean [-4, 2] = some 1 ∧
    Stats.change [1, 9, 4] = some 3 ∧ Stats.countValid [some 1, none, some 3] = 2 := by
  simp only [Stats.median, Stats.quantile, Stats.iqr, Stats.orderStat, ascending_eq]
  decide +kernel

example : Agg.apply ⟨id, id, id, id⟩ .median [fin 3, fin (-1), fin 2, fin 2] = some (fin 2) ∧
    Agg.apply ⟨id, id, id, id⟩ (.quantile (1 / 4)) [fin 1, fin 2, fin 4] = some (fin (3 / 2)) ∧
    Agg.apply ⟨id, id, id, id⟩ .mean [fin 1, nan, fin 3] = some nan ∧
    Agg.apply ⟨id, id, id, id⟩ .count [fin 1, nan, fin 3] = some (fin 2) ∧
    Agg.apply ⟨id, id, id, id⟩ .change [fin 1, nan, fin 3] = some (fin 2) ∧
    Agg.apply ⟨id, id, id, id⟩ .min [] = none := by
  decide +kernel

/-! ## 3. Along any array dimension -/

private theorem mapM_some {α β : Type} (f : α → Option β) (l : List α) (r : List β)
    (h : l.mapM f = some r) :
    r.length = l.length ∧ ∀ i (hi : i < l.length), r[i]? = f l[i] := by
  induction l generalizing r with
  | nil =>
    simp only [List.mapM_nil] at h
    cases h
    exact ⟨rfl, fun i hi => absurd hi (by simp)⟩
  | cons a xs ih =>
    rw [List.mapM_cons] at h
    cases hfa : f a with
    | none => rw [hfa] at h; simp at h
    | some b =>
      rw [hfa] at h
      cases hxs : xs.mapM f with
      | none => rw [hxs] at h; simp at h
      | some bs =>
        rw [hxs] at h
        simp only [Option.pure_def, Option.bind_eq_bind, Option.bind_some, Option.some.injEq] at h
        subst h
        obtain ⟨hl, hi⟩ := ih bs hxs
        refine ⟨by simp [hl], ?_⟩
        intro i hi'
        cases i with
        | zero => simp [hfa]
        | succ j =>
          simp only [List.getElem?_cons_succ, List.getElem_cons_succ]
          exact hi j (by simpa using hi')

private theorem grid_length {β : Type} (g : Nat → Nat → β) (outer inner : Nat) :
    ((List.range outer).flatMap fun o => (List.range inner).map (g o)).length = outer * inner := by
  induction outer with
  | zero => simp
  | succ m ih =>
    rw [List.range_succ, List.flatMap_append, List.length_append, ih]
    simp [Nat.succ_mul]

private theorem grid_get {β : Type} (g : Nat → Nat → β) (outer inner o i : Nat)
    (ho : o < outer) (hi : i < inner) :
    ((List.range outer).flatMap fun o => (List.range inner).map (g o))[o * inner + i]? = some (g o i) := by
  induction outer with
  | zero => omega
  | succ m ih =>
    rw [List.range_succ, List.flatMap_append]
    by_cases hom : o < m
    · have h1 : (o + 1) * inner ≤ m * inner := Nat.mul_le_mul_right _ (by omega)
      rw [Nat.succ_mul] at h1
      rw [List.getElem?_append_left (by rw [grid_length]; omega)]
      exact ih hom
    · have hom' : o = m := by omega
      subst hom'
      rw [List.getElem?_append_right (by rw [grid_length]; omega), grid_length]
      simp [hi]

/-- **Along any axis** (row-major decomposition outer × n × inner, which is how every axis of an
array of every rank is laid out): if `f(array, axis=k)` returns, the result has the shape with
axis k removed and its cell (o, i) is `f` of the fiber (o, ·, i) — nothing else of the array
enters that cell. -/
theorem C15_axis (f : Vec → Option XR) (k : Nat) (arr r : Arr) (n : Nat)
    (hn : arr.dims[k]? = some n) (h : Arr.aggAxis f k arr = some r) :
    r.dims = arr.dims.eraseIdx k ∧
    r.data.length = Arr.prod (arr.dims.take k) * Arr.prod (arr.dims.drop (k + 1)) ∧
    ∀ o i, o < Arr.prod (arr.dims.take k) → i < Arr.prod (arr.dims.drop (k + 1)) →
      r.data[o * Arr.prod (arr.dims.drop (k + 1)) + i]? =
        f (Arr.fiberAt arr.data n (Arr.prod (arr.dims.drop (k + 1))) o i) := by
  unfold Arr.aggAxis at h
  rw [hn] at h
  dsimp only at h
  split at h
  · simp at h
  · cases hm : (Arr.fibers arr.data (Arr.prod (arr.dims.take k)) n (Arr.prod (arr.dims.drop (k + 1)))).mapM f with
    | none => rw [hm] at h; simp at h
    | some d =>
      rw [hm] at h
      simp only [Option.map_some, Option.some.injEq] at h
      subst h
      obtain ⟨hl, hget⟩ := mapM_some f _ d hm
      unfold Arr.fibers at hl hget
      rw [grid_length] at hl
      refine ⟨rfl, hl, ?_⟩
      intro o i ho hi
      have hlt : o * Arr.prod (arr.dims.drop (k + 1)) + i <
          ((List.range (Arr.prod (arr.dims.take k))).flatMap fun o =>
            (List.range (Arr.prod (arr.dims.drop (k + 1)))).map fun i =>
              Arr.fiberAt arr.data n (Arr.prod (arr.dims.drop (k + 1))) o i).length := by
        rw [grid_length]
        have h1 : (o + 1) * Arr.prod (arr.dims.drop (k + 1)) ≤
            Arr.prod (arr.dims.take k) * Arr.prod (arr.dims.drop (k + 1)) :=
          Nat.mul_le_mul_right _ (by omega)
        rw [Nat.succ_mul] at h1
        omega
      rw [hget _ hlt]
      congr 1
      have := grid_get (fun o i => Arr.fiberAt arr.data n (Arr.prod (arr.dims.drop (k + 1))) o i)
        _ _ o i ho hi
      rw [List.getElem?_eq_getElem hlt] at this
      exact Option.some.inj this

/-- the result's shape: axis k removed (and the call raises when the axis does not exist) -/
theorem C15_axis_shape (f : Vec → Option XR) (k : Nat) (arr : Arr) :
    (arr.dims.length ≤ k → Arr.aggAxis f k arr = none) ∧
    (∀ r, Arr.aggAxis f k arr = some r → r.dims = arr.dims.eraseIdx k ∧ k < arr.dims.length) := by
  constructor
  · intro hk
    unfold Arr.aggAxis
    rw [List.getElem?_eq_none hk]
  · intro r h
    by_cases hk : k < arr.dims.length
    · exact ⟨(C15_axis f k arr r _ (List.getElem?_eq_getElem hk) h).1, hk⟩
    · unfold Arr.aggAxis at h
      rw [List.getElem?_eq_none (by omega)] at h
      simp at h

/-! ### the same for arrays of any rank, by multi-index -/

private theorem prod_split (dims : List Nat) (k n : Nat) (hn : dims[k]? = some n) :
    Arr.prod dims = Arr.prod (dims.take k) * (n * Arr.prod (dims.drop (k + 1))) ∧
    Arr.prod (dims.eraseIdx k) = Arr.prod (dims.take k) * Arr.prod (dims.drop (k + 1)) := by
  induction k generalizing dims with
  | zero =>
    cases dims with
    | nil => simp at hn
    | cons d ds =>
      simp only [List.getElem?_cons_zero, Option.some.injEq] at hn
      subst hn
      simp [Arr.prod]
  | succ k ih =>
    cases dims with
    | nil => simp at hn
    | cons d ds =>
      simp only [List.getElem?_cons_succ] at hn
      obtain ⟨h1, h2⟩ := ih ds hn
      simp only [List.take_succ_cons, List.drop_succ_cons, List.eraseIdx_cons_succ, Arr.prod]
      rw [h1, h2]
      constructor <;> ring

private theorem flatIndex_lt (ds is : List Nat) (hb : Arr.InBounds ds is) :
    Arr.flatIndex ds is < Arr.prod ds := by
  induction ds generalizing is with
  | nil =>
    cases is with
    | nil => simp [Arr.flatIndex, Arr.prod]
    | cons a r => simp [Arr.InBounds] at hb
  | cons d ds ih =>
    cases is with
    | nil => simp [Arr.InBounds] at hb
    | cons a r =>
      simp only [Arr.InBounds] at hb
      have h1 := ih r hb.2
      have h2 : (a + 1) * Arr.prod ds ≤ d * Arr.prod ds := Nat.mul_le_mul_right _ (by omega)
      rw [Nat.succ_mul] at h2
      simp only [Arr.flatIndex, Arr.prod]
      omega

private theorem index_split (k : Nat) (dims idx : List Nat) (n : Nat) (hn : dims[k]? = some n)
    (hb : Arr.InBounds (dims.eraseIdx k) idx) :
    ∃ o i, o < Arr.prod (dims.take k) ∧ i < Arr.prod (dims.drop (k + 1)) ∧
      Arr.flatIndex (dims.eraseIdx k) idx = o * Arr.prod (dims.drop (k + 1)) + i ∧
      ∀ j, Arr.flatIndex dims (idx.take k ++ j :: idx.drop k) =
        (o * n + j) * Arr.prod (dims.drop (k + 1)) + i := by
  induction k generalizing dims idx with
  | zero =>
    cases dims with
    | nil => simp at hn
    | cons d ds =>
      simp only [List.getElem?_cons_zero, Option.some.injEq] at hn
      subst hn
      simp only [List.eraseIdx_cons_zero] at hb
      refine ⟨0, Arr.flatIndex ds idx, by simp [Arr.prod], by simpa using flatIndex_lt ds idx hb, by simp, ?_⟩
      intro j
      simp [Arr.flatIndex]
  | succ k ih =>
    cases dims with
    | nil => simp at hn
    | cons d ds =>
      simp only [List.getElem?_cons_succ] at hn
      simp only [List.eraseIdx_cons_succ] at hb
      cases idx with
      | nil => simp [Arr.InBounds] at hb
      | cons a is =>
        simp only [Arr.InBounds] at hb
        obtain ⟨o', i', ho', hi', he, hins⟩ := ih ds is hn hb.2
        obtain ⟨p1, p2⟩ := prod_split ds k n hn
        refine ⟨a * Arr.prod (ds.take k) + o', i', ?_, ?_, ?_, ?_⟩
        · simp only [List.take_succ_cons, Arr.prod]
          have h2 : (a + 1) * Arr.prod (ds.take k) ≤ d * Arr.prod (ds.take k) :=
            Nat.mul_le_mul_right _ (by omega)
          rw [Nat.succ_mul] at h2
          omega
        · simpa using hi'
        · simp only [List.eraseIdx_cons_succ, Arr.flatIndex, List.drop_succ_cons]
          rw [he, p2]; ring
        · intro j
          simp only [List.take_succ_cons, List.drop_succ_cons, List.cons_append, Arr.flatIndex]
          rw [hins j, p1]; ring

/-- **Along any array dimension, any rank.**  For an array of any rank, any axis k and any
multi-index `idx` of the result (inside the shape with axis k removed), the result cell at `idx`
is `f` applied to the n values of the input at the multi-indices obtained by inserting
j = 0 … n−1 at position k — the fiber through `idx` along axis k. -/
theorem C15_axis_rank (f : Vec → Option XR) (k : Nat) (arr r : Arr) (n : Nat)
    (hn : arr.dims[k]? = some n) (h : Arr.aggAxis f k arr = some r)
    (idx : List Nat) (hb : Arr.InBounds (arr.dims.eraseIdx k) idx) :
    r.data[Arr.flatIndex r.dims idx]? =
      f ((List.range n).map fun j =>
        (arr.data[Arr.flatIndex arr.dims (idx.take k ++ j :: idx.drop k)]?).getD nan) := by
  obtain ⟨hd, _, hcell⟩ := C15_axis f k arr r n hn h
  obtain ⟨o, i, ho, hi, he, hins⟩ := index_split k arr.dims idx n hn hb
  rw [hd, he, hcell o i ho hi]
  congr 1
  unfold Arr.fiberAt
  apply List.map_congr_left
  intro j _
  rw [hins j]

/-- Non-vacuity: a rank-3 array, middle axis, one cell spelled out. -/
example :
    Arr.InBounds ([2, 2, 2].eraseIdx 1) [1, 0] ∧
    Arr.aggAxis (Agg.apply ⟨id, id, id, id⟩ .sum) 1
        ⟨[2, 2, 2], [fin 1, fin 2, fin 3, fin 4, fin 5, fin 6, fin 7, fin 8]⟩ =
      some ⟨[2, 2], [fin 4, fin 6, fin 12, fin 14]⟩ ∧
    Arr.flatIndex [2, 2] [1, 0] = 2 ∧
    Arr.flatIndex [2, 2, 2] ([1, 0].take 1 ++ 1 :: [1, 0].drop 1) = 6 := by
  refine ⟨by simp [Arr.InBounds], by decide +kernel, by decide +kernel, by decide +kernel⟩

/-! ## 4. The trailing window of `-T h` -/

/-- strictly ascending coordinates (what text input and `Data` always deliver) -/
def StrictAsc (cs : List Rat) : Prop := cs.Pairwise (· < ·)

section Window
variable {α : Type}

private theorem filter_le_take (Z : List (Rat × α)) (hs : Z.Pairwise (fun p q => p.1 < q.1))
    (i : Nat) (hi : i < Z.length) :
    Z.filter (fun p => decide (p.1 ≤ Z[i].1)) = Z.take (i + 1) := by
  induction Z generalizing i with
  | nil => simp at hi
  | cons z Z' ih =>
    rw [List.pairwise_cons] at hs
    obtain ⟨hz, hs'⟩ := hs
    cases i with
    | zero =>
      simp only [List.getElem_cons_zero, List.filter_cons, le_refl, decide_true, if_true, Nat.zero_add,
        List.take_succ_cons, List.take_zero]
      congr 1
      rw [List.filter_eq_nil_iff]
      intro q hq
      have := hz q hq
      simp only [decide_eq_true_eq, not_le]; exact this
    | succ j =>
      have hj : j < Z'.length := by simpa using hi
      have hlt : z.1 < Z'[j].1 := hz _ (List.getElem_mem hj)
      simp only [List.getElem_cons_succ, List.filter_cons, List.take_succ_cons]
      rw [if_pos (by simp only [decide_eq_true_eq]; exact le_of_lt hlt), ih hs' j hj]

private theorem filter_gt_drop (Z : List (Rat × α)) (hs : Z.Pairwise (fun p q => p.1 < q.1))
    (start : Rat) :
    Z.filter (fun p => decide (start < p.1)) =
      match Z.findIdx? (fun p => decide (start < p.1)) with
      | some k => Z.drop k
      | none => [] := by
  induction Z with
  | nil => rfl
  | cons z Z' ih =>
    rw [List.pairwise_cons] at hs
    obtain ⟨hz, hs'⟩ := hs
    rw [List.findIdx?_cons]
    by_cases hp : start < z.1
    · simp only [hp, decide_true, if_true, List.drop_zero]
      rw [List.filter_eq_self]
      intro q hq
      simp only [List.mem_cons] at hq
      rcases hq with rfl | hq
      · simp [hp]
      · have := hz q hq
        simp only [decide_eq_true_eq]; linarith
    · simp only [hp, decide_false, List.filter_cons, Bool.false_eq_true, if_false]
      rw [ih hs']
      cases Z'.findIdx? (fun p => decide (start < p.1)) with
      | none => rfl
      | some k => simp

private theorem findIdx?_map {β γ : Type} (g : β → γ) (p : γ → Bool) (l : List β) :
    (l.map g).findIdx? p = l.findIdx? (fun x => p (g x)) := by
  induction l with
  | nil => rfl
  | cons a xs ih => simp [List.findIdx?_cons, ih]

private theorem findIdx?_take_of_le {β : Type} (p : β → Bool) (l : List β) (k i : Nat)
    (h : l.findIdx? p = some k) (hki : k ≤ i) : (l.take (i + 1)).findIdx? p = some k := by
  rw [List.findIdx?_eq_some_iff_getElem] at h ⊢
  obtain ⟨hk, hpk, hnot⟩ := h
  refine ⟨by rw [List.length_take]; omega, ?_, ?_⟩
  · rw [List.getElem_take]; exact hpk
  · intro j hj
    rw [List.getElem_take]; exact hnot j hj

/-- the heart of `window_slice` (ascending coordinates: the window is a contiguous index range), on a list of (coordinate, value) pairs -/
private theorem window_pairs (Z : List (Rat × α)) (hs : Z.Pairwise (fun p q => p.1 < q.1))
    (i : Nat) (hi : i < Z.length) (start : Rat) (hstart : start < Z[i].1) :
    ∃ k, Z.findIdx? (fun p => decide (start < p.1)) = some k ∧ k ≤ i ∧
      Z.filter (fun p => decide (start < p.1 ∧ p.1 ≤ Z[i].1)) = (Z.take (i + 1)).drop k := by
  have hex : ∃ x, x ∈ Z ∧ (fun p : Rat × α => decide (start < p.1)) x = true :=
    ⟨Z[i], List.getElem_mem hi, by simp [hstart]⟩
  obtain ⟨k, hk⟩ : ∃ k, Z.findIdx? (fun p => decide (start < p.1)) = some k :=
    ⟨_, List.findIdx?_eq_some_of_exists hex⟩
  have hki : k ≤ i := by
    by_contra hcon
    have := (List.findIdx?_eq_some_iff_getElem.mp hk).2.2 i (by omega)
    simp [hstart] at this
  refine ⟨k, hk, hki, ?_⟩
  have h1 : Z.filter (fun p => decide (start < p.1 ∧ p.1 ≤ Z[i].1)) =
      (Z.filter (fun p => decide (p.1 ≤ Z[i].1))).filter (fun p => decide (start < p.1)) := by
    rw [List.filter_filter]
    apply List.filter_congr
    intro x _
    simp [Bool.decide_and]
  rw [h1, filter_le_take Z hs i hi,
    filter_gt_drop _ (hs.sublist (List.take_sublist _ _)) start,
    findIdx?_take_of_le _ Z k i hk hki]

end Window

private theorem window_slice {α : Type} (cs : List Rat) (vs : List α) (hlen : cs.length = vs.length)
    (hasc : StrictAsc cs) (i : Nat) (hi : i < cs.length) (w : Rat) (hw : 0 < w) :
    ∃ k, Preagg.firstAbove (cs.map fin) (fin (cs[i] - w)) = some k ∧ k ≤ i ∧
      Stats.window cs vs w cs[i] = Preagg.slice vs k i := by
  have hZlen : (cs.zip vs).length = cs.length := by simp [List.length_zip, hlen]
  have hZi : i < (cs.zip vs).length := by omega
  have hZs : (cs.zip vs).Pairwise (fun p q => p.1 < q.1) := by
    have : ((cs.zip vs).map Prod.fst).Pairwise (· < ·) := by
      rw [List.map_fst_zip (by omega)]; exact hasc
    exact (List.pairwise_map.mp this)
  have hget : (cs.zip vs)[i].1 = cs[i] := by simp [List.getElem_zip]
  obtain ⟨k, hk, hki, hf⟩ := window_pairs (cs.zip vs) hZs i hZi (cs[i] - w) (by rw [hget]; linarith)
  refine ⟨k, ?_, hki, ?_⟩
  · unfold Preagg.firstAbove
    rw [findIdx?_map]
    have : (cs.zip vs).findIdx? (fun p => decide (cs[i] - w < p.1)) =
        ((cs.zip vs).map Prod.fst).findIdx? (fun c => decide (cs[i] - w < c)) := by
      rw [findIdx?_map]
    rw [this, List.map_fst_zip (by omega)] at hk
    rw [← hk]
    rfl
  · unfold Stats.window Preagg.slice
    rw [hget] at hf
    rw [hf, List.map_drop, List.map_take, List.map_snd_zip (by omega)]

/-- the selection by value of the code, on rational coordinates, is the Spec's window -/
private theorem selectWindow_fin {α : Type} (cs : List Rat) (vs : List α) (a b : Rat) :
    Preagg.selectWindow (cs.map fin) vs (fin a) (fin b) =
      ((cs.zip vs).filter fun p => decide (a < p.1 ∧ p.1 ≤ b)).map (·.2) := by
  unfold Preagg.selectWindow
  induction cs generalizing vs with
  | nil => simp
  | cons c cs ih =>
    cases vs with
    | nil => simp
    | cons v vs =>
      simp only [List.map_cons, List.zip_cons_cons, List.filter_cons]
      have hc : (XR.gt (fin c) (fin a) && XR.le (fin c) (fin b)) = decide (a < c ∧ c ≤ b) := by
        simp [XR.gt, XR.lt, XR.le, Bool.decide_and]
      rw [hc]
      by_cases hp : a < c ∧ c ≤ b
      · simp only [hp, and_self, decide_true, if_true, List.map_cons, ih]
      · simp only [hp, decide_false, Bool.false_eq_true, if_false, ih]

/-- **The trailing window**, full strength: for EVERY list of coordinates (any order, repeated values,
irregular spacing), every window length (`h·scale`; scale = 1 for lead times in hours, 3600 for unix
times), every aggregator `f`, every series and every position i, the pre-aggregated value at
position i is the aggregator applied to exactly the entries whose coordinate lies in
(xᵢ − h·scale, xᵢ], in series order.  (Before the repair of the window selection this needed
`StrictAsc cs`.) -/
theorem C15_window (f : Vec → Option XR) (h scale : Rat) (cs : List Rat)
    (vs : Vec) (i : Nat) (hi : i < cs.length) :
    Preagg.preaggAt f (fin scale) (fin h) (cs.map fin) vs i =
      f (Stats.window cs vs (h * scale) cs[i]) := by
  unfold Preagg.preaggAt
  have hc : (cs.map fin)[i]? = some (fin cs[i]) := by
    rw [List.getElem?_map, List.getElem?_eq_getElem hi]; rfl
  rw [hc]
  simp only [fin_mul, fin_sub]
  rw [selectWindow_fin]
  rfl

/-- the whole pre-aggregated series is the Spec's `preagg`: entry by entry the aggregate of the
trailing window (and it has the length of the series) -/
theorem C15_window_series (f : Vec → Option XR) (h scale : Rat)
    (cs : List Rat) (vs : Vec) (hlen : cs.length = List.length vs) (r : Vec)
    (hr : Preagg.preagg1 f (fin scale) (fin h) (cs.map fin) vs = some r) :
    r.length = cs.length ∧
    ∀ i (hi : i < cs.length), r[i]? = (Stats.preagg f cs vs (h * scale))[i]'(by
      simp [Stats.preagg, hi]) := by
  unfold Preagg.preagg1 at hr
  rw [if_neg (by simp [hlen])] at hr
  obtain ⟨hl, hg⟩ := mapM_some _ _ r hr
  simp only [List.length_range] at hl hg
  refine ⟨by omega, ?_⟩
  intro i hi
  rw [hg i (by omega)]
  simp only [List.getElem_range, Stats.preagg, List.getElem_map]
  exact C15_window f h scale cs vs i hi

/-- a window longer than the series so far takes all earlier entries (and the entry itself) -/
theorem C15_window_long (cs : List Rat) (vs : Vec) (hlen : cs.length = List.length vs)
    (hasc : StrictAsc cs) (i : Nat) (hi : i < cs.length) (w : Rat) (hw : 0 < w)
    (hlong : cs[i] - cs[0]'(by omega) < w) :
    Stats.window cs vs w cs[i] = List.take (i + 1) vs := by
  obtain ⟨k, hk, _, hwin⟩ := window_slice cs vs hlen hasc i hi w hw
  have h0 : Preagg.firstAbove (cs.map fin) (fin (cs[i] - w)) = some 0 := by
    unfold Preagg.firstAbove
    cases cs with
    | nil => simp at hi
    | cons c cs' =>
      simp only [List.map_cons, List.findIdx?_cons, XR.gt, XR.lt]
      simp only [List.getElem_cons_zero] at hlong
      have : (c :: cs')[i] - w < c := by linarith
      simp [this]
  rw [h0] at hk
  cases hk
  rw [hwin]; rfl

/-- the window depends on the coordinates only: observations, forecasts, every other field and
every ensemble member of one input are cut by the same interval (start, x_t] of coordinate values — the
"identically for observations and forecasts" clause is structural (one function for all) -/
theorem C15_window_same_for_all_fields (f g : Vec → Option XR) (scale h : XR) (coords : List XR)
    (obs fcst : Vec) (t : Nat) :
    ∃ w : Option (XR × XR),
      Preagg.preaggAt f scale h coords obs t =
        w.bind (fun se => f (Preagg.selectWindow coords obs se.1 se.2)) ∧
      Preagg.preaggAt g scale h coords fcst t =
        w.bind (fun se => g (Preagg.selectWindow coords fcst se.1 se.2)) := by
  unfold Preagg.preaggAt
  cases coords[t]? with
  | none => exact ⟨none, rfl, rfl⟩
  | some ct => exact ⟨some (ct - h * scale, ct), rfl, rfl⟩

/-! ### n-d arrays: (time, leadtime, location[, member]) along axis k -/

private theorem flat_length {β : Type} (G : Nat → List β) (L outer : Nat) (hG : ∀ o, (G o).length = L) :
    ((List.range outer).flatMap G).length = outer * L := by
  induction outer with
  | zero => simp
  | succ m ih =>
    rw [List.range_succ, List.flatMap_append, List.length_append, ih]
    simp [Nat.succ_mul, hG]

private theorem flat_get {β : Type} (G : Nat → List β) (L outer o j : Nat) (hG : ∀ o, (G o).length = L)
    (ho : o < outer) (hj : j < L) :
    ((List.range outer).flatMap G)[o * L + j]? = (G o)[j]? := by
  induction outer with
  | zero => omega
  | succ m ih =>
    rw [List.range_succ, List.flatMap_append]
    by_cases hom : o < m
    · have h1 : (o + 1) * L ≤ m * L := Nat.mul_le_mul_right _ (by omega)
      rw [Nat.succ_mul] at h1
      rw [List.getElem?_append_left (by rw [flat_length G L m hG]; omega)]
      exact ih hom
    · have hom' : o = m := by omega
      subst hom'
      rw [List.getElem?_append_right (by rw [flat_length G L o hG]; omega), flat_length G L o hG]
      simp

/-- On an array of any rank the pre-aggregation along axis k (row-major outer × n × inner) keeps
the shape and fills cell (o, t, i) with the pre-aggregated value at position t of the series
(o, ·, i) — so `C15_window` applies to every time/location/member series separately. -/
theorem C15_window_arr (f : Vec → Option XR) (scale h : XR) (coords : List XR) (k : Nat)
    (arr r : Arr) (n : Nat) (hn : arr.dims[k]? = some n)
    (hr : Preagg.preaggArr f scale h coords k arr = some r) :
    r.dims = arr.dims ∧
    ∀ o t i, o < Arr.prod (arr.dims.take k) → t < n → i < Arr.prod (arr.dims.drop (k + 1)) →
      r.data[(o * n + t) * Arr.prod (arr.dims.drop (k + 1)) + i]? =
        Preagg.preaggAt f scale h coords
          (Arr.fiberAt arr.data n (Arr.prod (arr.dims.drop (k + 1))) o i) t := by
  unfold Preagg.preaggArr at hr
  rw [hn] at hr
  dsimp only at hr
  split at hr
  · simp at hr
  · generalize hcells : ((List.range (Arr.prod (arr.dims.take k))).flatMap fun o =>
        (List.range n).flatMap fun t => (List.range (Arr.prod (arr.dims.drop (k + 1)))).map fun i =>
          Preagg.preaggAt f scale h coords
            (Arr.fiberAt arr.data n (Arr.prod (arr.dims.drop (k + 1))) o i) t) = cells at hr
    cases hm : cells.mapM id with
    | none => rw [hm] at hr; simp at hr
    | some d =>
      rw [hm] at hr
      simp only [Option.map_some, Option.some.injEq] at hr
      subst hr
      refine ⟨rfl, ?_⟩
      intro o t i ho ht hi
      obtain ⟨hl, hget⟩ := mapM_some id cells d hm
      set inner := Arr.prod (arr.dims.drop (k + 1)) with hinner
      set cell := fun o t i => Preagg.preaggAt f scale h coords (Arr.fiberAt arr.data n inner o i) t
        with hcell
      have hG : ∀ o, ((List.range n).flatMap fun t => (List.range inner).map fun i => cell o t i).length
          = n * inner := fun o => grid_length (fun t i => cell o t i) n inner
      have e : (o * n + t) * inner + i = o * (n * inner) + (t * inner + i) := by ring
      have hti : t * inner + i < n * inner := by
        have h1 : (t + 1) * inner ≤ n * inner := Nat.mul_le_mul_right _ (by omega)
        rw [Nat.succ_mul] at h1; omega
      have hc : cells[(o * n + t) * inner + i]? = some (cell o t i) := by
        rw [← hcells, e, flat_get _ (n * inner) _ o (t * inner + i) hG ho hti]
        exact grid_get (fun t i => cell o t i) n inner t i ht hi
      have hlt : (o * n + t) * inner + i < cells.length := by
        by_contra hcon
        rw [List.getElem?_eq_none (by omega)] at hc
        simp at hc
      rw [hget _ hlt]
      rw [List.getElem?_eq_getElem hlt] at hc
      simp only [id]
      exact Option.some.inj hc

/-! ### coordinates that are not ascending (formerly known finding window-unsorted) -/

/-- The recorded witness: on the lead times [1, 0] with values [10, 1], `-T 1/2 -Tagg sum` used to
give 11 at lead time 0 (the index range [0, 1]); the trailing window (−1/2, 0] contains only the
value 1, and that is what the repaired selection aggregates — an instance of `C15_window` without
`StrictAsc`. -/
example :
    Preagg.preaggAt (Agg.apply ⟨id, id, id, id⟩ .sum) (fin 1) (fin (1 / 2)) [fin 1, fin 0] [fin 10, fin 1] 1
      = some (fin 1) ∧
    Agg.apply ⟨id, id, id, id⟩ .sum (Stats.window [1, 0] [fin 10, fin 1] (1 / 2 * 1) 0) = some (fin 1) ∧
    ¬ StrictAsc [1, 0] := by
  refine ⟨by decide +kernel, by decide +kernel, ?_⟩
  unfold StrictAsc
  simp

/-- repeated and shuffled coordinates: every position holding the same coordinate gets the same window -/
example :
    Preagg.preagg1 (Agg.apply ⟨id, id, id, id⟩ .sum) (fin 1) (fin 2) [fin 3, fin 0, fin 3, fin 2]
      [fin 1, fin 2, fin 4, fin 8] = some [fin 13, fin 2, fin 13, fin 8] := by
  decide +kernel

/-! ### which fields are pre-aggregated (known finding tagg-quantile-ignored) -/

/-- (A table read off data.py; what the pre-aggregated arrays CONTAIN, for every kind of field of
every input, is `C15_multi_field` / `C15_multi_input` in Proofs/C15Multi.lean, exercised by the streams
agg.data (obs, fcst, member, threshold, quantile) and agg.data2 (obs, fcst, pit, other score, members).)
Every array `Data._get_score` loads is replaced by its pre-aggregate before it is used —
observations, forecasts, PIT, other fields, ensemble members, the ensemble behind a threshold
probability and (since the repair of data.py:543) the ensemble behind a quantile. -/
theorem C15_fields_partial : ∀ k : Preagg.FieldKind, k.usesPreaggregated = true := by
  intro k; cases k <;> rfl

/-- The pre-aggregation sees the input's FULL series; the cut to the common / selected times and
lead times happens afterwards (so a window reaches back into lead times that are not scored). -/
theorem C15_applied_before_cut (f : Vec → Option XR) (scale : XR) (k : Nat) (h : XR)
    (times leads : List XR) (obs fcst ens : Arr) (selT selL : Option (List XR)) :
    Preagg.dataScore f scale k h times leads obs fcst ens .obs selT selL =
      some ((Preagg.preaggArr f scale h (if k = 0 then times else leads) k obs).bind fun a =>
        (Preagg.takeAxis a 0 (Preagg.commonIdx times selT)).bind fun a =>
          Preagg.takeAxis a 1 (Preagg.commonIdx leads selL)) ∧
    Preagg.dataScore f scale k h times leads obs fcst ens .fcst selT selL =
      some ((Preagg.preaggArr f scale h (if k = 0 then times else leads) k fcst).bind fun a =>
        (Preagg.takeAxis a 0 (Preagg.commonIdx times selT)).bind fun a =>
          Preagg.takeAxis a 1 (Preagg.commonIdx leads selL)) := ⟨rfl, rfl⟩

/-- Non-vacuity of the window theorems: an irregular strictly ascending grid, a window shorter
than the series, one longer, with the model and the Spec evaluated. -/
example : StrictAsc [0, 1, 3, 6] ∧ (0 : Rat) < 2 * 1 ∧
    Stats.window [0, 1, 3, 6] [fin 1, fin 2, fin 3, fin 4] 2 3 = [fin 3] ∧
    Stats.window [0, 1, 3, 6] [fin 1, fin 2, fin 3, fin 4] 2 1 = [fin 1, fin 2] ∧
    Stats.window [0, 1, 3, 6] [fin 1, fin 2, fin 3, fin 4] 50 6 = [fin 1, fin 2, fin 3, fin 4] ∧
    Preagg.preagg1 (Agg.apply ⟨id, id, id, id⟩ .sum) (fin 1) (fin 2) [fin 0, fin 1, fin 3, fin 6]
      [fin 1, fin 2, fin 3, fin 4] = some [fin 1, fin 3, fin 3, fin 4] := by
  refine ⟨?_, by norm_num, by decide +kernel, by decide +kernel, by decide +kernel, by decide +kernel⟩
  unfold StrictAsc; simp; norm_num

example : Arr.aggAxis (Agg.apply ⟨id, id, id, id⟩ .sum) 1 ⟨[2, 3], [fin 1, fin 2, fin 3, fin 4, fin 5, fin 6]⟩
      = some ⟨[2], [fin 6, fin 15]⟩ ∧
    Arr.aggAxis (Agg.apply ⟨id, id, id, id⟩ .sum) 0 ⟨[2, 3], [fin 1, fin 2, fin 3, fin 4, fin 5, fin 6]⟩
      = some ⟨[3], [fin 5, fin 7, fin 9]⟩ := by
  decide +kernel

end VerifModel.C15
