import Proofs.C20
import VerifModel.Spec.ScriptsOrder
/-
  C20, accumulate on an axis that is not stored ascending.

  Full statement (what the property and the script's help text say): for EVERY file, at every stored
  position i of every series, `accumulate -w w` holds `Spec.Scripts.accumCoord w ign coords x i` — the sum over
  the w entries whose lead times (times) lead up to the lead time (time) of position i.

  Proved: `C20_accumulate_coord_partial` — that statement for files whose axis is stored ascending (then the
  coordinate order is the stored order).  Missing: the other files; there the script's window follows the
  stored order and the statement is FALSE (`C20_accumulate_order_negation`, the witness of known finding
  accumulate-axis-order: lead times 6,0,3).
-/
namespace VerifModel.C20
open XR Scripts
open Spec.Scripts (toXR accum cumulative rankOf insertBy sortByCoord seriesByCoord accumCoord cumulativeCoord)

private theorem sortByCoord_id (ps : List (Rat × Option Rat)) (h : (ps.map (·.1)).Pairwise (· < ·)) :
    sortByCoord ps = ps := by
  induction ps with
  | nil => rfl
  | cons p rest ih =>
    simp only [List.map_cons, List.pairwise_cons] at h
    have : sortByCoord (p :: rest) = insertBy p (sortByCoord rest) := rfl
    rw [this, ih h.2]
    cases rest with
    | nil => rfl
    | cons q qs =>
      have hq : p.1 < q.1 := h.1 q.1 (by simp)
      simp [insertBy, hq]

private theorem rankOf_ascending (coords : List Rat) (h : coords.Pairwise (· < ·)) (i : Nat) (c : Rat)
    (hc : coords[i]? = some c) : rankOf coords c = i := by
  induction coords generalizing i with
  | nil => simp at hc
  | cons a rest ih =>
    rw [List.pairwise_cons] at h
    cases i with
    | zero =>
      simp only [List.getElem?_cons_zero, Option.some.injEq] at hc
      subst hc
      unfold rankOf
      rw [List.countP_eq_zero]
      intro d hd
      simp only [List.mem_cons] at hd
      rcases hd with rfl | hd
      · simp
      · have := h.1 d hd
        simp only [decide_eq_true_eq]
        exact fun hlt => absurd (lt_trans this hlt) (lt_irrefl _)
    | succ j =>
      simp only [List.getElem?_cons_succ] at hc
      have hac : a < c := h.1 c (List.mem_of_getElem? hc)
      have := ih h.2 j hc
      unfold rankOf at this ⊢
      rw [List.countP_cons, this]
      simp [hac]

private theorem zip_fst_pairwise (coords : List Rat) (x : List (Option Rat)) (h : coords.Pairwise (· < ·))
    (hl : coords.length = x.length) : ((coords.zip x).map (·.1)).Pairwise (· < ·) := by
  rw [List.map_fst_zip (by omega)]
  exact h

/-- on an axis stored ascending, "along the coordinate" is "along the stored order" -/
theorem C20_accumulate_ascending (w : Nat) (ign : Bool) (coords : List Rat) (x : List (Option Rat))
    (hasc : coords.Pairwise (· < ·)) (hl : coords.length = x.length) (i : Nat) (hi : i < x.length) :
    accumCoord w ign coords x i = accum w ign x i
    ∧ cumulativeCoord ign coords x i = cumulative ign x i := by
  have hci : coords[i]? = some coords[i] := List.getElem?_eq_getElem (by omega)
  have hs : seriesByCoord coords x = x := by
    unfold seriesByCoord
    rw [sortByCoord_id _ (zip_fst_pairwise coords x hasc hl), List.map_snd_zip (by omega)]
  have hr := rankOf_ascending coords hasc i _ hci
  simp only [accumCoord, cumulativeCoord, hci, hs, hr, and_self]

/-- **C20, accumulate along the coordinate (partial).**  On a series whose lead times (times) are stored
ascending, `accumulate -w w` (1 ≤ w ≤ n) writes at every stored position the documented sum over the `w`
entries LEADING UP TO that lead time, and without `-w` the running total up to that lead time.  Missing: axes
not stored ascending, where the statement is false for the script as it is (`C20_accumulate_order_negation`). -/
theorem C20_accumulate_coord_partial (w : Nat) (ign : Bool) (coords : List Rat) (x : List (Option Rat))
    (hasc : coords.Pairwise (· < ·)) (hl : coords.length = x.length) (hw : 1 ≤ w) (hn : w ≤ x.length) :
    (∃ out, accumulate (some w) ign (x.map toXR) = some out ∧ out.length = x.length ∧
      ∀ i, i < x.length → out[i]? = some (toXR (accumCoord w ign coords x i)))
    ∧ (∃ out, accumulate none ign (x.map toXR) = some out ∧ out.length = x.length ∧
      ∀ i, i < x.length → out[i]? = some (toXR (cumulativeCoord ign coords x i))) := by
  obtain ⟨out, h1, h2, h3⟩ := C20_accumulate w ign x hw hn
  obtain ⟨out', h1', h2', h3'⟩ := C20_cumulative ign x
  refine ⟨⟨out, h1, h2, fun i hi => ?_⟩, ⟨out', h1', h2', fun i hi => ?_⟩⟩
  · rw [(C20_accumulate_ascending w ign coords x hasc hl i hi).1]; exact h3 i hi
  · rw [(C20_accumulate_ascending w ign coords x hasc hl i hi).2]; exact h3' i hi

/-- non-vacuity: three ascending lead times -/
example : ([0, 3, 6] : List Rat).Pairwise (· < ·) ∧ accumCoord 2 false [0, 3, 6] [some 10, some 100, some 1] 2 = some 101 := by
  constructor
  · simp [List.pairwise_cons]; norm_num
  · decide +kernel

/-- **The full statement is false for the script as it is**: lead times stored 6, 0, 3 with values
1, 10, 100.  `accumulate -w 2` writes nan, 11, 110 (the sums over the STORED neighbours); the sums over the
two lead times leading up to each lead time are 101 (lead 6 = leads 3 and 6), missing (lead 0 has no
predecessor), 110.  Without `-w` it writes 1, 11, 111; the running totals along lead time are 111, 10, 110. -/
theorem C20_accumulate_order_negation :
    accumulate (some 2) false ([some 1, some 10, some 100].map toXR) = some [nan, fin 11, fin 110]
    ∧ (List.range 3).map (accumCoord 2 false [6, 0, 3] [some 1, some 10, some 100]) = [some 101, none, some 110]
    ∧ accumulate none false ([some 1, some 10, some 100].map toXR) = some [fin 1, fin 11, fin 111]
    ∧ (List.range 3).map (cumulativeCoord false [6, 0, 3] [some 1, some 10, some 100]) = [some 111, some 10, some 110] := by
  decide +kernel

end VerifModel.C20
