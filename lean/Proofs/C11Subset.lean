import VerifModel.Model.Axis
import VerifModel.Spec.Slicing
import Proofs.C11
/-
  C11 — slicing a dataset whose initialisation times were subset by the user (`-d`, `-tod`, `-t`).

  `Data.__init__` filters `self.times` and rebuilds `_timesI` and the axis-value caches
  (data.py:176-199); the model of that is `Dims.restrict keep`.  The theorems say that slicing
  the subset dataset is subsetting the slices of the full dataset ("slicing after subsetting =
  subsetting after slicing"), for every axis, with the cases identified by their coordinates
  (initialisation time, lead-time index, location index) because subsetting renumbers the time
  indices.  `keep` is an arbitrary predicate on initialisation times; `TimeSubset.keep` (the
  conjunction of `-t`, `-d`, `-tod`) is one instance, characterised at the end.
-/
namespace VerifModel.C11
open VerifModel VerifModel.Axis VerifModel.Calendar VerifModel.Spec.Slicing

/-- row-major product of time coordinates, lead-time indices and location indices -/
def cases3T (Ts : List (Option Int)) (J K : List Nat) : List TCase :=
  Ts.flatMap fun t => J.flatMap fun j => K.map fun k => (t, j, k)

/-- slice `a` along axis `k`, every case written by its coordinates; validity is a property of the
coordinates (the data stored for them) -/
def tslice (k : Kind) (D : Dims) (validT : TCase → Bool) (a : Nat) : List TCase :=
  (slice k D (fun c => validT (D.tcase c)) a).map D.tcase

/-- the pooled valid cases by coordinates -/
def tpooled (D : Dims) (validT : TCase → Bool) : List TCase :=
  (pooled D (fun c => validT (D.tcase c))).map D.tcase

/-- the case's initialisation time survives the subset -/
def keptT (keep : Int → Bool) (x : TCase) : Bool := x.1.any keep

/-! ### list lemmas -/

private theorem range_map_getElem? {γ : Type} (l : List γ) :
    (List.range l.length).map (fun i => l[i]?) = l.map some := by
  apply List.ext_getElem?
  intro i
  by_cases h : i < l.length
  · simp [h]
  · simp [h]

private theorem cases3_map_tcase (D : Dims) (I J K : List Nat) :
    (cases3 I J K).map D.tcase = cases3T (I.map fun i => D.times[i]?) J K := by
  simp [cases3, cases3T, List.map_flatMap, List.flatMap_map, Dims.tcase, Function.comp_def]

private theorem filter_map_tcase (D : Dims) (validT : TCase → Bool) (I J K : List Nat) :
    ((cases3 I J K).filter fun c => validT (D.tcase c)).map D.tcase =
      (cases3T (I.map fun i => D.times[i]?) J K).filter validT := by
  rw [← cases3_map_tcase, List.filter_map]
  rfl

private theorem blockT_filter (keep : Int → Bool) (t : Option Int) (J K : List Nat) :
    ((J.flatMap fun j => K.map fun k => ((t, j, k) : TCase)).filter (keptT keep)) =
      if t.any keep = true then (J.flatMap fun j => K.map fun k => ((t, j, k) : TCase)) else [] := by
  split
  · rename_i hp
    apply List.filter_eq_self.mpr
    intro c hc
    simp only [List.mem_flatMap, List.mem_map] at hc
    obtain ⟨j, _, k, _, rfl⟩ := hc
    exact hp
  · rename_i hp
    apply List.filter_eq_nil_iff.mpr
    intro c hc
    simp only [List.mem_flatMap, List.mem_map] at hc
    obtain ⟨j, _, k, _, rfl⟩ := hc
    exact hp

private theorem cases3T_filter_kept (keep : Int → Bool) (Ts : List (Option Int)) (J K : List Nat) :
    (cases3T Ts J K).filter (keptT keep) = cases3T (Ts.filter fun t => t.any keep) J K := by
  induction Ts with
  | nil => rfl
  | cons t Ts ih =>
    unfold cases3T at ih ⊢
    rw [List.flatMap_cons, List.filter_append, blockT_filter, ih]
    by_cases hp : t.any keep = true
    · rw [List.filter_cons_of_pos hp, List.flatMap_cons, if_pos hp]
    · rw [List.filter_cons_of_neg hp, if_neg hp, List.nil_append]

private theorem map_some_filter_any (keep : Int → Bool) (ts : List Int) :
    (ts.map some).filter (fun t => t.any keep) = (ts.filter keep).map some := by
  rw [List.filter_map]
  rfl

private theorem filter_comm {γ : Type} (p q : γ → Bool) (l : List γ) :
    (l.filter p).filter q = (l.filter q).filter p := by
  simp only [List.filter_filter]
  congr 1
  funext x
  exact Bool.and_comm _ _

private theorem whereEq_map (f : Int → Rat) (ts : List Int) (u : Rat) :
    (whereEq (ts.map f) u).map (fun i => ts[i]?) = (ts.filter fun t => f t == u).map some := by
  unfold whereEq
  rw [List.length_map]
  have e : (fun i => (ts.map f)[i]? == some u) =
      (fun o : Option Int => o.map f == some u) ∘ (fun (i : Nat) => ts[i]?) := by
    funext i
    simp [List.getElem?_map]
  rw [e, ← List.filter_map, range_map_getElem?, List.filter_map]
  congr 1

/-- two strictly increasing lists with the same members are equal -/
private theorem sorted_ext : ∀ (l₁ l₂ : List Rat), l₁.Pairwise (· < ·) → l₂.Pairwise (· < ·) →
    (∀ x, x ∈ l₁ ↔ x ∈ l₂) → l₁ = l₂
  | [], [], _, _, _ => rfl
  | [], b :: l₂, _, _, h => absurd ((h b).mpr (List.mem_cons_self ..)) (by simp)
  | a :: l₁, [], _, _, h => absurd ((h a).mp (List.mem_cons_self ..)) (by simp)
  | a :: l₁, b :: l₂, h₁, h₂, h => by
    have p₁ := List.pairwise_cons.mp h₁
    have p₂ := List.pairwise_cons.mp h₂
    have hab : a = b := by
      rcases List.mem_cons.mp ((h a).mp (List.mem_cons_self ..)) with e | e
      · exact e
      · rcases List.mem_cons.mp ((h b).mpr (List.mem_cons_self ..)) with e' | e'
        · exact e'.symm
        · exact absurd (lt_trans (p₂.1 a e) (p₁.1 b e')) (lt_irrefl _)
    subst hab
    congr 1
    apply sorted_ext l₁ l₂ p₁.2 p₂.2
    intro x
    constructor
    · intro hx
      rcases List.mem_cons.mp ((h x).mp (List.mem_cons_of_mem _ hx)) with e | e
      · exact absurd (e ▸ p₁.1 x hx) (lt_irrefl _)
      · exact e
    · intro hx
      rcases List.mem_cons.mp ((h x).mpr (List.mem_cons_of_mem _ hx)) with e | e
      · exact absurd (e ▸ p₂.1 x hx) (lt_irrefl _)
      · exact e

/-- `np.unique` of the buckets of the surviving times = the labels of the full dataset that still
have a surviving time -/
private theorem unique_filter (f : Int → Rat) (keep : Int → Bool) (ts : List Int) :
    unique ((ts.filter keep).map f) =
      (unique (ts.map f)).filter fun u => ts.any fun t => keep t && decide (f t = u) := by
  apply sorted_ext _ _ (sorted_unique _) ((sorted_unique _).filter _)
  intro x
  simp only [mem_unique, List.mem_map, List.mem_filter, List.any_eq_true, Bool.and_eq_true,
    decide_eq_true_eq]
  constructor
  · rintro ⟨t, ⟨ht, hk⟩, rfl⟩
    exact ⟨⟨t, ht, rfl⟩, t, ht, hk, rfl⟩
  · rintro ⟨_, t, ht, hk, rfl⟩
    exact ⟨t, ⟨ht, hk⟩, rfl⟩

private theorem shape_of_timeBucket (k : Kind) (f : Int → Rat) (hk : k.timeBucket? = some f) :
    k.shape = .timeBucket f := by
  cases k <;> simp_all [Kind.timeBucket?, Kind.shape]

private theorem tslice_timeBucket (k : Kind) (f : Int → Rat) (hs : k.shape = .timeBucket f) (D : Dims)
    (validT : TCase → Bool) (a : Nat) (u : Rat) (hu : (unique (D.times.map f))[a]? = some u) :
    tslice k D validT a =
      (cases3T ((D.times.filter fun t => f t == u).map some) (List.range D.leadtimes.length)
        (List.range D.locs.length)).filter validT := by
  simp only [tslice, slice, sliceRaw, hs, hu]
  rw [filter_map_tcase, whereEq_map]

/-! ### the theorems -/

/-- **Subsetting and the calendar axes** (year, month, week, day, timeofday, dayofyear, dayofmonth,
monthofyear — every axis with a `compute_from_times`).  For any dataset, any subset `keep` of the
initialisation times and any validity of the stored data:

* the labels (`get_axis_values`) of the subset dataset are the labels of the full dataset that are the
  bucket of at least one surviving initialisation time, in the same (ascending) order — no stale
  label survives, none is lost;
* the slice labelled `u` of the subset dataset consists of exactly the cases of the slice labelled
  `u` of the full dataset whose initialisation time survives, in the same order. -/
theorem C11_subset_calendar (k : Kind) (f : Int → Rat) (hk : k.timeBucket? = some f) (D : Dims)
    (keep : Int → Bool) (validT : TCase → Bool) :
    axisValues k (D.restrict keep) =
      ((axisValues k D).filter fun u => D.times.any fun t => keep t && decide (f t = u)) ∧
    ∀ a b u, (axisValues k (D.restrict keep))[a]? = some u → (axisValues k D)[b]? = some u →
      tslice k (D.restrict keep) validT a = (tslice k D validT b).filter (keptT keep) := by
  have hs := shape_of_timeBucket k f hk
  have hv : ∀ D : Dims, axisValues k D = unique (D.times.map f) := by
    intro D; simp [axisValues, hs]
  refine ⟨?_, ?_⟩
  · rw [hv, hv]
    exact unique_filter f keep D.times
  · intro a b u ha hb
    rw [hv] at ha hb
    rw [tslice_timeBucket k f hs _ validT a u ha, tslice_timeBucket k f hs D validT b u hb,
      filter_comm, cases3T_filter_kept, map_some_filter_any]
    simp only [Dims.restrict]
    rw [filter_comm]

/-- the eight calendar axes are the ones the theorem speaks about -/
example : ∀ k ∈ [Kind.year, .month, .week, .day, .timeofday, .dayofyear, .dayofmonth, .monthofyear],
    (k.timeBucket?).isSome = true := by decide

/-- non-vacuous: three init times (2000-01-01 00Z, 2000-01-31 06Z, 2000-02-29 05Z), `-tod 0,5`
removes the second one; along `month` both labels survive, along `timeofday` the label 6 goes -/
example : axisValues .month ((⟨[946684800, 949298400, 951800400], [0, 24], [⟨3, 61, 10, 5⟩]⟩ : Dims).restrict
      (TimeSubset.keep { tods := some [0, 5] })) = [946684800, 949363200] ∧
    axisValues .timeofday ((⟨[946684800, 949298400, 951800400], [0, 24], [⟨3, 61, 10, 5⟩]⟩ : Dims).restrict
      (TimeSubset.keep { tods := some [0, 5] })) = [0, 5] ∧
    axisValues .timeofday (⟨[946684800, 949298400, 951800400], [0, 24], [⟨3, 61, 10, 5⟩]⟩ : Dims) =
      [0, 5, 6] := by
  decide +kernel

private theorem restrict_block (D : Dims) (keep : Int → Bool) (validT : TCase → Bool) (J K : List Nat) :
    ((cases3 (List.range (D.restrict keep).times.length) J K).filter
        fun c => validT ((D.restrict keep).tcase c)).map (D.restrict keep).tcase =
      (((cases3 (List.range D.times.length) J K).filter fun c => validT (D.tcase c)).map
        D.tcase).filter (keptT keep) := by
  rw [filter_map_tcase, filter_map_tcase, range_map_getElem?, range_map_getElem?, filter_comm,
    cases3T_filter_kept, map_some_filter_any]
  rfl

/-- **Subsetting and the other axes** (lead time, lead-time day, location, lat, lon, elev, and the
pooled `no` / `threshold` / `obs` / `fcst`): the labels do not change, and slice `a` of the subset
dataset consists of exactly the cases of slice `a` of the full dataset whose initialisation time
survives, in the same order. -/
theorem C11_subset_other (k : Kind) (hk : k.timeBucket? = none) (hk' : k ≠ .time) (D : Dims)
    (keep : Int → Bool) (validT : TCase → Bool) :
    axisValues k (D.restrict keep) = axisValues k D ∧
    ∀ a, tslice k (D.restrict keep) validT a = (tslice k D validT a).filter (keptT keep) := by
  cases hs : k.shape with
  | byTime => cases k <;> simp_all [Kind.shape, Kind.timeBucket?, Kind.leadBucket?]
  | timeBucket f => cases k <;> simp_all [Kind.shape, Kind.timeBucket?, Kind.leadBucket?]
  | leadBucket g =>
    refine ⟨by simp [axisValues, hs, Dims.restrict], fun a => ?_⟩
    simp only [tslice, slice, sliceRaw, hs]
    have hl : (D.restrict keep).leadtimes = D.leadtimes := rfl
    have hloc : (D.restrict keep).locs = D.locs := rfl
    rw [hl, hloc]
    cases (unique (D.leadtimes.map g))[a]? with
    | none => rfl
    | some u => exact restrict_block D keep validT _ _
  | byLocation field =>
    refine ⟨by simp [axisValues, hs, Dims.restrict], fun a => ?_⟩
    simp only [tslice, slice, sliceRaw, hs]
    have hl : (D.restrict keep).leadtimes = D.leadtimes := rfl
    have hloc : (D.restrict keep).locs = D.locs := rfl
    rw [hl, hloc]
    split
    · exact restrict_block D keep validT _ _
    · rfl
  | pooledAll =>
    refine ⟨by simp [axisValues, hs], fun a => ?_⟩
    simp only [tslice, slice, sliceRaw, hs]
    exact restrict_block D keep validT _ _

example : ∀ k ∈ [Kind.leadtime, .leadtimeday, .location, .lat, .lon, .elev, .no, .threshold, .obs, .fcst],
    k.timeBucket? = none ∧ k ≠ .time := by decide

/-- **Subsetting and `-x time`**: the slices of the subset dataset are the slices of the surviving
initialisation times of the full dataset, in order, and they are labelled by those times. -/
theorem C11_subset_time (D : Dims) (keep : Int → Bool) (validT : TCase → Bool) :
    axisValues .time (D.restrict keep) = (D.times.filter keep).map (fun (t : Int) => (t : Rat)) ∧
    (List.range (D.restrict keep).times.length).map (tslice .time (D.restrict keep) validT) =
      ((List.range D.times.length).filter fun i => (D.times[i]?).any keep).map
        (tslice .time D validT) := by
  refine ⟨rfl, ?_⟩
  -- slice `a` of any dataset, `a` in range, is a function of the a-th time
  let F : List Nat → List Nat → Option Int → List TCase := fun J K o => (cases3T [o] J K).filter validT
  have key : ∀ (D : Dims) (a : Nat), a ∈ List.range D.times.length →
      tslice .time D validT a =
        F (List.range D.leadtimes.length) (List.range D.locs.length) (D.times[a]?) := by
    intro D a ha
    have ha' : a < D.times.length := List.mem_range.mp ha
    have hs : Kind.shape .time = .byTime := rfl
    simp only [tslice, slice, sliceRaw, hs, ha', if_true]
    rw [filter_map_tcase]
    rfl
  rw [List.map_congr_left (key (D.restrict keep)),
    List.map_congr_left (fun a ha => key D a (List.mem_filter.mp ha).1)]
  have hl : (D.restrict keep).leadtimes = D.leadtimes := rfl
  have hloc : (D.restrict keep).locs = D.locs := rfl
  rw [hl, hloc]
  have e1 : ∀ (l : List Nat) (ts : List Int),
      l.map (fun a => F (List.range D.leadtimes.length) (List.range D.locs.length) (ts[a]?)) =
        (l.map fun a => ts[a]?).map (F (List.range D.leadtimes.length) (List.range D.locs.length)) := by
    intro l ts; rw [List.map_map]; rfl
  rw [e1, e1, range_map_getElem?]
  have e2 : ((List.range D.times.length).filter fun i => (D.times[i]?).any keep) =
      (List.range D.times.length).filter ((fun o : Option Int => o.any keep) ∘ fun i => D.times[i]?) := rfl
  rw [e2, ← List.filter_map, range_map_getElem?, map_some_filter_any]
  rfl

/-- **Partition of the surviving cases.**  For every axis the slices of the subset dataset are
together a permutation of its pooled valid cases, and those are exactly the pooled valid cases of
the full dataset whose initialisation time survives: each surviving valid case is in exactly one
slice, no removed case is in any. -/
theorem C11_subset_partition (k : Kind) (D : Dims) (keep : Int → Bool) (validT : TCase → Bool) :
    ((List.range (axisValues k (D.restrict keep)).length).map
        (tslice k (D.restrict keep) validT)).flatten.Perm (tpooled (D.restrict keep) validT) ∧
    tpooled (D.restrict keep) validT = (tpooled D validT).filter (keptT keep) := by
  refine ⟨?_, ?_⟩
  · have h := C11_model_partition k (D.restrict keep) (fun c => validT ((D.restrict keep).tcase c))
    have := h.map (D.restrict keep).tcase
    simp only [slices, List.map_flatten, List.map_map] at this
    exact this
  · exact restrict_block D keep validT _ _

example : tpooled ((⟨[946684800, 949298400], [0], [⟨3, 61, 10, 5⟩]⟩ : Dims).restrict
      (TimeSubset.keep { dates := some [20000131] })) (fun _ => true) = [(some 949298400, 0, 0)] := by
  decide +kernel

/-! ### what `-t`, `-d`, `-tod` keep -/

/-- `-tod`: an initialisation time survives iff its time of day is exactly one of the given hours
(`h:00:00`; a real-valued comparison, so 06:30 does not match `-tod 6`).  Any instant. -/
theorem C11_subset_tods (hs : List Int) (t : Int) :
    keepTod hs t = true ↔ ∃ h ∈ hs, t % 86400 = 3600 * h := by
  simp only [keepTod, List.contains_iff_mem, List.mem_map, timeOfDay]
  constructor
  · rintro ⟨h, hh, e⟩
    refine ⟨h, hh, ?_⟩
    have : ((t % 86400 : Int) : Rat) = ((3600 * h : Int) : Rat) := by
      push_cast
      field_simp at e
      linarith
    exact_mod_cast this
  · rintro ⟨h, hh, e⟩
    refine ⟨h, hh, ?_⟩
    rw [e]
    push_cast
    field_simp

/-- `-t`: an initialisation time survives iff it is listed. -/
theorem C11_subset_times (ts : List Int) (t : Int) :
    (TimeSubset.keep { times := some ts } t = true ↔ t ∈ ts) ∧
    (TimeSubset.keep {} t = true) := by
  simp [TimeSubset.keep]

/-- `-d`: for every initialisation time from 1900-01-01T00:00:00Z to 2100-12-31T23:59:59Z and dates
of 1900-2100, the time survives iff the textbook civil date of its UTC day is one of the dates
(before 1970 too: the day of a time is found by floor division). -/
theorem C11_subset_dates (ds : List Nat) (t : Int) (h0 : tLo ≤ t) (h1 : t < tEnd)
    (hds : ∀ d ∈ ds, ∃ z, C11Cal.lo ≤ z ∧ z < C11Cal.lo + C11Cal.count ∧ d = (textbookDate z).toYmd) :
    keepDate ds t = true ↔ (textbookDate (dayIndex t)).toYmd ∈ ds := by
  have htr : t / 86400 * 86400 = unixOfDays (dayIndex t) := by
    simp only [unixOfDays, dayIndex, epoch, tLo] at *
    omega
  have hz0 : C11Cal.lo ≤ dayIndex t := by
    simp only [dayIndex, epoch, C11Cal.lo, tLo] at *; omega
  have hz1 : dayIndex t < C11Cal.lo + C11Cal.count := by
    simp only [dayIndex, epoch, C11Cal.lo, C11Cal.count, tEnd, tLo] at *; omega
  simp only [keepDate, List.contains_iff_mem, List.mem_map, htr]
  constructor
  · rintro ⟨d, hd, e⟩
    obtain ⟨z, hz0', hz1', hdz⟩ := hds d hd
    have c : dateToUnixtime (textbookDate z).toYmd = unixOfDays z := (C11_conversions z hz0' hz1').1
    rw [hdz, c] at e
    have : z = dayIndex t := by
      simp only [unixOfDays] at e; omega
    rw [← this, ← hdz]
    exact hd
  · intro hd
    exact ⟨_, hd, (C11_conversions (dayIndex t) hz0 hz1).1⟩

/-- 2000-02-29T05:00Z passes `-d 20000229`, not `-d 20000301`; 1969-12-31T23:00Z passes
`-d 19691231`, not `-d 19700101` -/
example : keepDate [20000229] 951800400 = true ∧ keepDate [20000301] 951800400 = false ∧
    keepTod [5] 951800400 = true ∧ keepTod [6] 951800400 = false ∧
    keepDate [19691231] (-3600) = true ∧ keepDate [19700101] (-3600) = false := by decide +kernel

example := C11_subset_dates [20000229] 951800400 (by decide) (by decide)
  (by
    intro d hd
    refine ⟨730484, by decide, by decide, ?_⟩
    have : d = 20000229 := by simpa using hd
    subst this
    rw [← civil_textbook 730484 (by decide) (by decide)]
    decide +kernel)

end VerifModel.C11
