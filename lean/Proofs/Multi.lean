import Proofs.DataRefine
import Proofs.C11
import VerifModel.Driver.Multi
/-
  Composition theorems for the stream family `metric.multi` (C05 / C06 / C08 on top of C01):
  what the model `Driver.Multi.scoreOf` — ONE `get_scores` request for the metric's field list,
  then the metric kernel — hands to the kernel, for every input index, axis and slice.

    multi_uses_common_cases      the kernel's arguments are the coordinate specification's answer
                                 (Spec/DataCoord.lean) to that one request: the fields listed over `specCases`
    multi_columns_aligned        all columns have one entry per valid case, entry j of every column
                                 belongs to the j-th valid coordinate
    multi_same_cases_all_inputs  the case list (hence every column length) is the same for any two inputs
    multi_slices_partition       for every axis shape the slices' case lists are together a permutation of
                                 the pooled (`-x no`) case list
    multi_axis_of_model          every axis name the driver knows satisfies the hypothesis of the partition
    multi_compute_covers_pooled  … so the slices `Metric.compute` loops over cover the pooled cases exactly once
-/
namespace VerifModel.Multi
open VerifModel XR Spec.DataCoord C03 DataRefine Driver.Multi Spec.Slicing

/-- the coordinate specification's answer to a request for a selection other than the whole array:
the requested (adjusted) fields of input `I` listed over the valid cases, or the `[NaN]` placeholder -/
def colsOver (scored : List Input) (cfg : Cfg) (r : Req) (I : Input) : List Vec :=
  let cols := r.fields.map fun name =>
    (specCases scored cfg r).map (adjusted (allInputs scored cfg) cfg r.fields I name)
  if (cols.headD []).isEmpty then List.replicate r.fields.length [.nan] else cols

/-! ## 1. the kernel is evaluated on the specification's vectors -/

/-- **One request, the documented cases.**  When the model of `compute_single(data, i, axis, k, interval)`
returns a score, that score is the metric kernel applied to the coordinate specification's answer to the
single request (fields of the metric, input `i`, selection): the fields of input `i` listed over the
coordinates at which every input (and the climatology) has every one of these fields. -/
theorem multi_uses_common_cases (T : Tr) (m : MReq) (axis : String) (scored : List Input) (cfg : Cfg)
    (D : DataS) (h : Data.init scored cfg = .ok D) (hw : (allInputs scored cfg).all wfInput = true)
    (i : Nat) (sel : Sel) (hall : isAllSel sel = false) (v : XR)
    (hv : scoreOf T m axis D i sel = .ok v) :
    ∃ fs I, fieldNames m axis = some fs ∧ scored[i]? = some I
      ∧ kernel T m axis (colsOver scored cfg ⟨fs, i, sel⟩ I) = some v := by
  unfold scoreOf at hv
  cases hf : fieldNames m axis with
  | none => rw [hf] at hv; cases hv
  | some fs =>
    rw [hf] at hv
    simp only [] at hv
    cases hg : D.getScores { fields := fs, input := i, sel := sel } with
    | error e => rw [hg] at hv; cases hv
    | ok cols =>
      rw [hg] at hv
      simp only [] at hv
      obtain ⟨I, hI, hout⟩ := getScores_over_specCases scored cfg D h hw ⟨fs, i, sel⟩ hall cols hg
      refine ⟨fs, I, rfl, hI, ?_⟩
      cases hk : kernel T m axis cols with
      | none => rw [hk] at hv; cases hv
      | some w =>
        rw [hk] at hv
        injection hv with hv
        subst hv
        have : colsOver scored cfg ⟨fs, i, sel⟩ I = cols := by rw [hout]; rfl
        rw [this, hk]

/-! ## 2. the columns are aligned -/

/-- **Aligned columns.**  Every column handed to the kernel has one entry per valid case (one NaN when
there is none), and entry `j` of the column of field `name` is that field's value at the `j`-th valid
coordinate — the same coordinate for every column. -/
theorem multi_columns_aligned (scored : List Input) (cfg : Cfg) (r : Req) (I : Input) :
    (∀ c ∈ colsOver scored cfg r I, c.length = max 1 (specCases scored cfg r).length)
    ∧ (specCases scored cfg r ≠ [] → ∀ (k : Nat) (name : String), r.fields[k]? = some name →
        ∀ (j : Nat) (c : Coord), (specCases scored cfg r)[j]? = some c →
          ((colsOver scored cfg r I)[k]?.bind fun col => col[j]?)
            = some (adjusted (allInputs scored cfg) cfg r.fields I name c)) := by
  constructor
  · intro c hc
    unfold colsOver at hc
    simp only [] at hc
    split at hc
    · rename_i he
      have hc' := List.eq_of_mem_replicate hc
      subst hc'
      cases hf : r.fields with
      | nil => rw [hf] at hc; simp at hc
      | cons f fs =>
        rw [hf] at he
        simp only [List.map_cons, List.headD_cons, List.isEmpty_iff, List.map_eq_nil_iff] at he
        rw [he]; rfl
    · rename_i he
      simp only [List.mem_map] at hc
      obtain ⟨name, _, rfl⟩ := hc
      cases hs : specCases scored cfg r with
      | nil =>
        exfalso; apply he
        cases hf : r.fields with
        | nil => rfl
        | cons f fs => simp [hs]
      | cons a rest => simp
  · intro hne k name hk j c hj
    unfold colsOver
    simp only []
    have hhead : ((r.fields.map fun name =>
        (specCases scored cfg r).map (adjusted (allInputs scored cfg) cfg r.fields I name)).headD []).isEmpty
        = false := by
      cases hf : r.fields with
      | nil => rw [hf] at hk; simp at hk
      | cons f fs =>
        cases hs : specCases scored cfg r with
        | nil => exact absurd hs hne
        | cons a rest => rfl
    rw [hhead]
    simp [List.getElem?_map, hk, hj]

/-! ## 3. the same cases for every input -/

/-- **Fair comparison at the level of the scores.**  For any two scored inputs the request a metric makes
has the same list of valid coordinates, so the kernels of the two inputs are evaluated on columns of the
same length, listed over the same cases. -/
theorem multi_same_cases_all_inputs (m : MReq) (axis : String) (scored : List Input) (cfg : Cfg)
    (fs : List String) (_hf : fieldNames m axis = some fs) (sel : Sel) (i j : Nat)
    (hi : i < scored.length) (hj : j < scored.length)
    (hobs : ObsRangeAgree scored cfg scored[i] scored[j]) :
    specCases scored cfg ⟨fs, i, sel⟩ = specCases scored cfg ⟨fs, j, sel⟩
    ∧ ∀ c ∈ colsOver scored cfg ⟨fs, i, sel⟩ scored[i], ∀ c' ∈ colsOver scored cfg ⟨fs, j, sel⟩ scored[j],
        c.length = c'.length := by
  have hs := C01_same_case_set scored cfg fs sel i j hi hj hobs
  refine ⟨hs, ?_⟩
  intro c hc c' hc'
  rw [(multi_columns_aligned scored cfg ⟨fs, i, sel⟩ scored[i]).1 c hc,
    (multi_columns_aligned scored cfg ⟨fs, j, sel⟩ scored[j]).1 c' hc', hs]

/-! ## 4. slices partition the pooled cases -/

/-- the bucket functions of an axis shape never turn a coordinate into NaN -/
def NanFree : AxisShape → Prop
  | .timeBucket f => ∀ t, t.isNan = false → (f t).isNan = false
  | .leadBucket g => ∀ l, l.isNan = false → (g l).isNan = false
  | _ => True

theorem strictAsc_nodup (l : List XR) (h : StrictAsc l) : l.Nodup := by
  induction l with
  | nil => exact List.nodup_nil
  | cons a rest ih =>
    rw [List.nodup_cons]
    refine ⟨?_, ih (strictAsc_tail h)⟩
    intro hm
    have := head_lt_of_strictAsc h a hm
    rw [lt_irrefl'] at this
    cases this

theorem noNan_filter (p : XR → Bool) (l : List XR) (h : NoNan l) : NoNan (l.filter p) :=
  fun x hx => h x (List.mem_filter.mp hx).1

/-- the verified dimensions are strictly ascending and NaN-free -/
theorem specDims_sorted (scored : List Input) (cfg : Cfg) (d : Dims) (hd : specDims scored cfg = some d) :
    (StrictAsc d.times ∧ NoNan d.times) ∧ (StrictAsc d.leads ∧ NoNan d.leads)
      ∧ (StrictAsc d.locs ∧ NoNan d.locs) := by
  unfold specDims at hd
  simp only [] at hd
  split at hd
  · cases hd
  · split at hd
    · cases hd
    · split at hd
      · cases hd
      · injection hd with hd
        subst hd
        refine ⟨⟨strictAsc_filter _ _ (commonSet_sorted _ _).1, noNan_filter _ _ (commonSet_sorted _ _).2⟩, ?_, ?_⟩
        · exact commonSet_sorted cfg.leads _
        · dsimp only
          exact commonSet_sorted _ _

theorem mem_prod3_iff (T L X : List XR) (c : Coord) :
    c ∈ prod3 T L X ↔ c.1 ∈ T ∧ c.2.1 ∈ L ∧ c.2.2 ∈ X := by
  obtain ⟨t, l, x⟩ := c
  unfold prod3
  simp only [List.mem_flatMap, List.mem_map, Prod.mk.injEq]
  constructor
  · rintro ⟨t', ht, l', hl, x', hx, rfl, rfl, rfl⟩; exact ⟨ht, hl, hx⟩
  · rintro ⟨ht, hl, hx⟩; exact ⟨t, ht, l, hl, x, hx, rfl, rfl, rfl⟩

theorem prod3_cons (t : XR) (T L X : List XR) :
    prod3 (t :: T) L X = prod3 [t] L X ++ prod3 T L X := by
  simp [prod3]

theorem prod3_filter_time (p : XR → Bool) (T L X : List XR) :
    (prod3 T L X).filter (fun c => p c.1) = prod3 (T.filter p) L X := by
  induction T with
  | nil => rfl
  | cons t T ih =>
    rw [prod3_cons, List.filter_append, ih, List.filter_cons]
    cases hp : p t
    · simp only [Bool.false_eq_true, if_false]
      rw [List.filter_eq_nil_iff.mpr, List.nil_append]
      intro c hc
      have := ((mem_prod3_iff _ _ _ c).mp hc).1
      simp only [List.mem_singleton] at this
      rw [this, hp]; simp
    · simp only [if_true]
      rw [prod3_cons (T := T.filter p), List.filter_eq_self.mpr]
      intro c hc
      have := ((mem_prod3_iff _ _ _ c).mp hc).1
      simp only [List.mem_singleton] at this
      rw [this, hp]

theorem prod3_filter_lead (p : XR → Bool) (T L X : List XR) :
    (prod3 T L X).filter (fun c => p c.2.1) = prod3 T (L.filter p) X := by
  unfold prod3
  rw [List.filter_flatMap]
  congr 1
  funext t
  induction L with
  | nil => rfl
  | cons l L ih =>
    simp only [List.flatMap_cons, List.filter_append, ih, List.filter_cons]
    cases hp : p l
    · simp only [Bool.false_eq_true, if_false]
      rw [List.filter_eq_nil_iff.mpr, List.nil_append]
      intro c hc
      simp only [List.mem_map] at hc
      obtain ⟨x, _, rfl⟩ := hc
      simp [hp]
    · simp only [if_true, List.flatMap_cons]
      rw [List.filter_eq_self.mpr]
      intro c hc
      simp only [List.mem_map] at hc
      obtain ⟨x, _, rfl⟩ := hc
      exact hp

theorem prod3_filter_loc (p : XR → Bool) (T L X : List XR) :
    (prod3 T L X).filter (fun c => p c.2.2) = prod3 T L (X.filter p) := by
  unfold prod3
  rw [List.filter_flatMap]
  congr 1
  funext t
  rw [List.filter_flatMap]
  congr 1
  funext l
  rw [List.filter_map]
  rfl

theorem filter_eq_singleton (l : List XR) (h : l.Nodup) (u : XR) (hu : u ∈ l) :
    l.filter (fun x => decide (x = u)) = [u] := by
  induction l with
  | nil => cases hu
  | cons a rest ih =>
    rw [List.nodup_cons] at h
    rw [List.filter_cons]
    by_cases hau : a = u
    · subst hau
      simp only [decide_true, if_true]
      rw [List.filter_eq_nil_iff.mpr]
      intro b hb hbe
      simp only [decide_eq_true_eq] at hbe
      subst hbe
      exact h.1 hb
    · simp only [hau, decide_false, Bool.false_eq_true, if_false]
      cases hu with
      | head => exact absurd rfl hau
      | tail _ hu => exact ih h.2 hu

theorem map_range_getElem? {γ δ : Type} (l : List γ) (g : Nat → δ) (f : γ → δ)
    (h : ∀ a u, l[a]? = some u → g a = f u) : (List.range l.length).map g = l.map f := by
  induction l generalizing g with
  | nil => rfl
  | cons x xs ih =>
    rw [List.length_cons, List.range_succ_eq_map, List.map_cons, List.map_map, List.map_cons]
    congr 1
    · exact h 0 x rfl
    · exact ih (g ∘ Nat.succ) (fun a u hu => h (a + 1) u (by simpa using hu))

/-- slices given as filters of the pooled list by a key, one per label, labels pairwise distinct and
covering every key: together a permutation of the pooled list (C11's partition theorem) -/
theorem slices_perm (P : List Coord) (key : Coord → XR) (labels : List XR) (hnd : labels.Nodup)
    (hcov : ∀ c ∈ P, key c ∈ labels) (raw : Nat → List Coord)
    (hraw : ∀ a u, labels[a]? = some u → raw a = P.filter fun c => decide (key c = u)) :
    ((List.range labels.length).flatMap raw).Perm P := by
  rw [List.flatMap_def, map_range_getElem? labels raw (sliceOf key P) (fun a u hu => by rw [hraw a u hu]; rfl)]
  have := C11.C11_partition key (fun _ => true) labels P hnd hcov
  rw [List.filter_true] at this
  exact this

theorem range_pick {α : Type} (T : List α) (q : α → Bool) :
    (List.range T.length).filterMap (fun j => (T[j]?).filter q) = T.filter q := by
  induction T using List.reverseRecOn with
  | nil => rfl
  | append_singleton T t ih =>
    rw [List.length_append, List.length_singleton, List.range_succ, List.filterMap_append,
      List.filter_append]
    congr 1
    · rw [← ih]
      apply List.filterMap_congr
      intro j hj
      rw [List.getElem?_append_left (List.mem_range.mp hj)]
    · simp only [List.filterMap_cons, List.filterMap_nil]
      rw [List.getElem?_append_right (Nat.le_refl _)]
      simp only [Nat.sub_self, List.getElem?_cons_zero, Option.filter, List.filter_cons, List.filter_nil]
      cases q t <;> rfl

/-- the members of bucket `k`, picked by index, are the coordinates whose bucket value is the k-th label -/
theorem group_pick (T : List XR) (f : XR → XR) (k : Nat) (u : XR)
    (hu : (sortU (T.map f))[k]? = some u) :
    (groupIdx (T.map f) k).filterMap (fun i => T[i]?) = T.filter fun t => XR.eqb (f t) u := by
  unfold groupIdx
  rw [hu]
  simp only [List.length_map]
  rw [List.filterMap_filter, ← range_pick T (fun t => XR.eqb (f t) u)]
  apply List.filterMap_congr
  intro j hj
  have hlt := List.mem_range.mp hj
  simp [List.getD_eq_getElem?_getD, List.getElem?_map, List.getElem?_eq_getElem hlt, Option.filter]

theorem eqb_eq_decide (a u : XR) (ha : a.isNan = false) : XR.eqb a u = decide (a = u) := by
  by_cases h : a = u
  · subst h; rw [eqb_refl_of_notNan ha]; simp
  · cases he : XR.eqb a u with
    | true => exact absurd (eqb_eq he) h
    | false => simp [h]

theorem mem_sortU_of_mem (xs : List XR) (v : XR) (hv : v ∈ xs) (hn : v.isNan = false) : v ∈ sortU xs := by
  have h3 := (C03_sortU xs).2.2 v
  have : memX v (xs.filter fun x => !x.isNan) = true := by
    rw [memX_iff]
    exact ⟨List.mem_filter.mpr ⟨hv, by simp [hn]⟩, hn⟩
  rw [this] at h3
  exact (memX_iff.mp h3).1

theorem range_toList {α : Type} (T : List α) : (List.range T.length).flatMap (fun k => (T[k]?).toList) = T := by
  induction T using List.reverseRecOn with
  | nil => rfl
  | append_singleton T t ih =>
    rw [List.length_append, List.length_singleton, List.range_succ, List.flatMap_append]
    congr 1
    · have e : ∀ j ∈ List.range T.length, ((T ++ [t])[j]?).toList = (T[j]?).toList := by
        intro j hj; rw [List.getElem?_append_left (List.mem_range.mp hj)]
      rw [List.flatMap_def, List.map_congr_left e, ← List.flatMap_def, ih]
    · simp

/-- the raw (before validity) slices of every axis shape are together a permutation of all cases -/
theorem raw_partition (d : Dims) (ht : StrictAsc d.times ∧ NoNan d.times)
    (hl : StrictAsc d.leads ∧ NoNan d.leads) (hx : StrictAsc d.locs ∧ NoNan d.locs)
    (s : AxisShape) (hs : NanFree s) :
    ((axisSels d.times d.leads d.locs.length s).flatMap (selCases d)).Perm
      (prod3 d.times d.leads d.locs) := by
  unfold axisSels
  rw [List.flatMap_map]
  cases s with
  | pooled =>
    simp [sizeOfShape, selOfShape, selCases, List.range_succ]
  | byTime =>
    simp only [sizeOfShape, selOfShape, selCases]
    have e : (fun (k : Nat) => prod3 ((d.times[k]?).toList) d.leads d.locs)
        = fun (k : Nat) => ((d.times[k]?).toList).flatMap fun t => d.leads.flatMap fun l => d.locs.map fun x => (t, l, x) := by
      funext k; rfl
    rw [e, ← List.flatMap_assoc, range_toList]
    exact List.Perm.refl _
  | byLoc =>
    simp only [sizeOfShape, selOfShape, selCases]
    refine slices_perm _ (fun c => c.2.2) d.locs (strictAsc_nodup _ hx.1)
      (fun c hc => ((mem_prod3_iff _ _ _ c).mp hc).2.2) _ ?_
    intro a u hu
    rw [hu]
    have := prod3_filter_loc (fun x => decide (x = u)) d.times d.leads d.locs
    rw [filter_eq_singleton d.locs (strictAsc_nodup _ hx.1) u (List.mem_of_getElem? hu)] at this
    simpa using this.symm
  | timeBucket f =>
    simp only [sizeOfShape, selOfShape, selCases]
    refine slices_perm _ (fun c => f c.1) (sortU (d.times.map f)) (strictAsc_nodup _ (C03_sortU _).1)
      ?_ _ ?_
    · intro c hc
      have hm := ((mem_prod3_iff _ _ _ c).mp hc).1
      exact mem_sortU_of_mem _ _ (List.mem_map_of_mem hm) (hs _ (ht.2 _ hm))
    · intro a u hu
      rw [group_pick d.times f a u hu, ← prod3_filter_time]
      apply List.filter_congr
      intro c hc
      have hm := ((mem_prod3_iff _ _ _ c).mp hc).1
      exact eqb_eq_decide _ _ (hs _ (ht.2 _ hm))
  | leadBucket g =>
    simp only [sizeOfShape, selOfShape, selCases]
    refine slices_perm _ (fun c => g c.2.1) (sortU (d.leads.map g)) (strictAsc_nodup _ (C03_sortU _).1)
      ?_ _ ?_
    · intro c hc
      have hm := ((mem_prod3_iff _ _ _ c).mp hc).2.1
      exact mem_sortU_of_mem _ _ (List.mem_map_of_mem hm) (hs _ (hl.2 _ hm))
    · intro a u hu
      rw [group_pick d.leads g a u hu, ← prod3_filter_lead]
      apply List.filter_congr
      intro c hc
      have hm := ((mem_prod3_iff _ _ _ c).mp hc).2.1
      exact eqb_eq_decide _ _ (hs _ (hl.2 _ hm))

/-- **Slices partition the pooled cases.**  For every axis shape (pooled, by time, by location, any
time bucket, any lead-time bucket) whose bucket function does not produce NaN: the valid-case lists of the
slices `k = 0 … get_axis_size − 1`, put together, are a permutation of the valid-case list of `-x no` —
every case a metric sees under `-x no` is seen in exactly one slice, and nothing else is. -/
theorem multi_slices_partition (scored : List Input) (cfg : Cfg) (d : Dims)
    (hd : specDims scored cfg = some d) (fields : List String) (i : Nat) (s : AxisShape) (hs : NanFree s) :
    ((axisSels d.times d.leads d.locs.length s).flatMap fun sel => specCases scored cfg ⟨fields, i, sel⟩).Perm
      (specCases scored cfg ⟨fields, i, .none⟩) := by
  obtain ⟨ht, hl, hx⟩ := specDims_sorted scored cfg d hd
  cases hI : scored[i]? with
  | none =>
    have e : ∀ sel, specCases scored cfg ⟨fields, i, sel⟩ = [] := by
      intro sel; unfold specCases; rw [hd, hI]
    simp [e]
  | some I =>
    have e : ∀ sel, specCases scored cfg ⟨fields, i, sel⟩
        = (selCases d sel).filter (caseValid (allInputs scored cfg) cfg fields I) := by
      intro sel; unfold specCases; rw [hd, hI]
    simp only [e]
    rw [← List.filter_flatMap]
    exact (raw_partition d ht hl hx s hs).filter _

/-! ## 5. the axes of the driver -/

theorem liftQ_nan (f : Rat → Rat) (t : XR) (h : t.isNan = false) : (liftQ f t).isNan = false := by
  cases t <;> simp_all [liftQ, XR.isNan]

/-- **Every axis the driver knows** (`no`, `threshold`, `obs`, `fcst`, `time`, `location`, `lat`, `lon`,
`elev`, `leadtime`, `leadtimeday`, `day`, `timeofday`, `month`, `year`, `week`, `monthofyear`,
`dayofmonth`, `dayofyear`) satisfies the hypothesis of the partition theorem. -/
theorem multi_axis_of_model (axis : String) (s : AxisShape) (h : shapeOf axis = some s) : NanFree s := by
  unfold shapeOf at h
  have tf : ∀ k f, timeFn k = some f → ∀ t, t.isNan = false → (f t).isNan = false := by
    intro k f hf t ht
    unfold timeFn at hf
    cases hb : k.timeBucket? with
    | none => rw [hb] at hf; cases hf
    | some b =>
      rw [hb] at hf
      injection hf with hf
      subst hf
      exact liftQ_nan _ t ht
  have viaTf : ∀ k, (timeFn k).map AxisShape.timeBucket = some s → NanFree s := by
    intro k hk
    cases hf : timeFn k with
    | none => rw [hf] at hk; cases hk
    | some f =>
      rw [hf] at hk
      injection hk with hk
      subst hk
      exact tf k f hf
  split at h
  all_goals first
    | exact viaTf _ h
    | (injection h with h; subst h; exact trivial)
    | (injection h with h; subst h; intro t ht; cases t <;> simp_all [XR.isNan, dayStart, hourOfDay, Driver.Data.leadDay])
    | cases h

/-- **`Metric.compute` covers the pooled cases.**  On the model `D` of a `Data` object the selections the
loop over the slices of an axis visits (`axisSels` of the verified dimensions) have valid-case lists that
together are a permutation of the pooled (`-x no`) valid-case list, for every axis the driver knows. -/
theorem multi_compute_covers_pooled (scored : List Input) (cfg : Cfg) (D : DataS)
    (h : Data.init scored cfg = .ok D) (fields : List String) (i : Nat) (axis : String) (s : AxisShape)
    (hs : shapeOf axis = some s) :
    ((axisSels D.times D.leads D.locs.length s).flatMap fun sel => specCases scored cfg ⟨fields, i, sel⟩).Perm
      (specCases scored cfg ⟨fields, i, .none⟩) := by
  have hd := C03_dims_are_intersection scored cfg D h
  have := multi_slices_partition scored cfg _ hd fields i s (multi_axis_of_model axis s hs)
  simpa using this

/-! ## non-vacuity: the two-input dataset of Proofs/DataRefine.lean -/

namespace Example
open DataRefine.Example

def mae : MReq := { family := "det", name := "mae" }

/-- the hypotheses hold (`Data.init` succeeds, arrays of the declared shape, no `-obsrange`) and the model
returns a score for both inputs -/
example : (Data.init [exA, exB] exCfg).toOption.isSome = true
    ∧ (allInputs [exA, exB] exCfg).all wfInput = true
    ∧ fieldNames mae "no" = some ["obs", "fcst"]
    ∧ (shapeOf "location").isSome = true := by
  refine ⟨?_, ?_, ?_, ?_⟩ <;> decide +kernel

/-- the same seven cases for both inputs (the case missing in input 1 is dropped for input 0 as well) -/
example : specCases [exA, exB] exCfg ⟨["obs", "fcst"], 0, .none⟩
      = specCases [exA, exB] exCfg ⟨["obs", "fcst"], 1, .none⟩
    ∧ (specCases [exA, exB] exCfg ⟨["obs", "fcst"], 0, .none⟩).length = 7 := by
  constructor <;> decide +kernel

/-- the two location slices hold 3 and 4 of the 7 pooled cases -/
example : (axisSels [0, 86400] [0, 6] 2 .byLoc).map
      (fun sel => (specCases [exA, exB] exCfg ⟨["obs", "fcst"], 1, sel⟩).length) = [3, 4] := by
  decide +kernel

example : ObsRangeAgree [exA, exB] exCfg exA exB := obsRangeAgree_of_none _ _ _ _ rfl

/-- a `Tr` the kernel can evaluate (MAE uses no transcendental function) -/
def idTr : Tr := ⟨id, id, id, id⟩

/-- the hypothesis `scoreOf … = .ok v` of `multi_uses_common_cases` is satisfiable: MAE of input 1 over the
seven common cases (every forecast of input 1 is 10 above the observation) is 10; of input 0 it is 1 -/
example : (match Data.init [exA, exB] exCfg with
           | .ok D => [(scoreOf idTr mae "no" D 1 .none).toOption, (scoreOf idTr mae "no" D 0 .none).toOption]
           | .error _ => []) = [some 10, some 1] := by
  decide +kernel

/-- the hypothesis of the partition theorem holds for the calendar axes too -/
example : ∃ s, shapeOf "month" = some s ∧ NanFree s :=
  ⟨_, rfl, multi_axis_of_model "month" _ rfl⟩

end Example

end VerifModel.Multi
